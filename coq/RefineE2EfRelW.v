(* Layer R, the workers: a step of worker i of PipeConc is matched by the step of thread i+1 of the machine. *)
From Coq Require Import ZArith NArith List String Bool Lia Arith.
From Wencry Require Import Bytes FileModel ModesProofs FileProofsDec PipeConc PipeProps PipeLemmas MiniC MiniCLemmas MiniCConc SrcRun.
From Wencry Require Import RefineConcPipe RefineE2EfPipe RefineE2EfBlock.
From Wencry Require Import RefineE2EfLay RefineE2EfMach RefineE2EfMem RefineE2EfTac RefineE2EfStepW RefineE2EfStepW2 RefineE2EfStepI5 RefineE2EfRel.
Import ListNotations.
Local Open Scope list_scope.

Lemma set_nth_same : forall (A : Type) (l : list A) i d, (i < List.length l)%nat -> set_nth i (nth i l d) l = l.
Proof. intros A l. induction l as [|a l IH]; intros [|i] d H; cbn [set_nth nth List.length] in *; try lia; try reflexivity. f_equal. apply IH. lia. Qed.

(* (the generic layer gives no bound on the fuel of a step: the stream object is arbitrary) *)
Definition bnd (n : nat) : Prop := True.

Section RelW.
Context {LY : Layout} {LO : LayoutOk}.
Variables (c T : nat) (pad : bool) (input0 : list N).
Hypothesis Hc : (1 <= c)%nat.
Hypothesis Hc32 : (16 * Z.of_nat c < 2 ^ 32)%Z.
Hypothesis HT : (1 <= T <= 16)%nat.
Hypothesis Hbytes : bytesb input0 = true.

Notation drel := (drel c T pad input0).
Notation tg_ok := (tg_ok T).
Notation sim := (sim c T pad input0).
Notation reach := (reach c T pad (skipn Lpos0 input0) LS Ltr Lev (Lsig0 T)).
Notation cst := (cstate_md c T pad input0).
Notation step := (pstep c pad).

Lemma reach' : forall s tid s' evs, reach s -> step s tid = Some (s', evs) -> reach s'.
Proof. intros. eapply (reach_step c T pad (skipn Lpos0 input0) Hc (proj1 HT) (bskip Lpos0 input0 Hbytes) LS Ltr Lev LdS (Lsig0 T) (sig0_length T)); eassumption. Qed.

(* ---- frame lemmas ---- *)
Lemma retired_set_wpc : forall s i p j, retired (set_wpc _ s i p) j = retired s j.
Proof. reflexivity. Qed.
Lemma drel_set_wpc : forall s d i p, drel s d -> drel (set_wpc _ s i p) d.
Proof.
  intros s d i p (Lb & Lw & Lx & Ldb & Ldn & Htu & HtT & Hov & Hlv & HlT & Hcr & Hout & Hbuf & Hws & Hin).
  unfold RefineE2EfRel.drel. cbn [set_wpc bufs wpcs wsts turn over live crashed output input]. rewrite set_nth_length.
  split; [exact Lb|]. split; [exact Lw|]. split; [exact Lx|]. split; [exact Ldb|]. split; [exact Ldn|]. split; [exact Htu|].
  split; [exact HtT|]. split; [exact Hov|]. split; [exact Hlv|]. split; [exact HlT|]. split; [exact Hcr|]. split; [exact Hout|].
  split; [exact Hbuf|]. split; [exact Hws|exact Hin].
Qed.
Lemma tg_ok_set_wpc : forall s g i p wl, tg_ok s g -> (i < T)%nat -> List.length (wpcs _ s) = T -> wl_ok i p wl ->
  tg_ok (set_wpc _ s i p) (with_wl g i wl).
Proof.
  intros s g i p wl (Lg & Hrb & Hbu & Hwl) Hi Lw Hok. unfold RefineE2EfRel.tg_ok. cbn [with_wl g_wl g_rb g_bu set_wpc io].
  rewrite set_nth_length. repeat (split; [assumption|]).
  intros j Hj. unfold getw. cbn [set_wpc wpcs]. destruct (Nat.eq_dec i j) as [<-|N].
  - rewrite !nth_set_nth_eq by lia. exact Hok.
  - rewrite !nth_set_nth_neq by exact N. apply Hwl. exact Hj.
Qed.
Lemma drel_set_buf : forall s d i b' mb', drel s d -> (i < T)%nat -> brel c (retired (set_buf _ s i b') i) b' mb' ->
  drel (set_buf _ s i b') (dset d i mb').
Proof.
  intros s d i b' mb' (Lb & Lw & Lx & Ldb & Ldn & Htu & HtT & Hov & Hlv & HlT & Hcr & Hout & Hbuf & Hws & Hin) Hi Hb.
  unfold RefineE2EfRel.drel. cbn [set_buf bufs wpcs wsts turn over live crashed output input dset with_bufs d_bufs d_sm d_turn d_over d_live d_out d_pos d_eof].
  rewrite !set_nth_length.
  split; [exact Lb|]. split; [exact Lw|]. split; [exact Lx|]. split; [exact Ldb|]. split; [exact Ldn|]. split; [exact Htu|].
  split; [exact HtT|]. split; [exact Hov|]. split; [exact Hlv|]. split; [exact HlT|]. split; [exact Hcr|]. split; [exact Hout|].
  split; [|split; [exact Hws|exact Hin]].
  intros j Hj. destruct (Nat.eq_dec i j) as [<-|N].
  - rewrite getb_set_buf_eq by lia. rewrite nth_set_nth_eq by lia. exact Hb.
  - rewrite getb_set_buf_neq by exact N. rewrite nth_set_nth_neq by exact N.
    replace (retired (set_buf St s i b') j) with (retired s j); [apply Hbuf; exact Hj|].
    unfold retired. rewrite getb_set_buf_neq by exact N. reflexivity.
Qed.
Lemma drel_set_io : forall s d p', drel s d -> (forall j, retired (set_io _ s p') j = retired s j) -> drel (set_io _ s p') d.
Proof.
  intros s d p' (Lb & Lw & Lx & Ldb & Ldn & Htu & HtT & Hov & Hlv & HlT & Hcr & Hout & Hbuf & Hws & Hin) Hr.
  unfold RefineE2EfRel.drel. cbn [set_io bufs wpcs wsts turn over live crashed output input].
  split; [exact Lb|]. split; [exact Lw|]. split; [exact Lx|]. split; [exact Ldb|]. split; [exact Ldn|]. split; [exact Htu|].
  split; [exact HtT|]. split; [exact Hov|]. split; [exact Hlv|]. split; [exact HlT|]. split; [exact Hcr|]. split; [exact Hout|].
  split; [|split; [exact Hws|exact Hin]].
  intros j Hj. rewrite Hr. apply Hbuf. exact Hj.
Qed.
(* a buffer that is READY is not retired *)
Lemma ready_not_retired : forall s i, reach s -> b_st (getb _ s i) = READY -> retired s i = false.
Proof.
  intros s i Hre Hst. unfold retired. rewrite Hst. cbn [bst_eqb bst_code Nat.eqb orb].
  destruct (io _ s) eqn:Eio; try reflexivity. destruct loadstate as [|[|[|]]]; try reflexivity. cbn [andb].
  destruct (Nat.eqb_spec (turn _ s) i) as [<-|]; [|reflexivity]. exfalso.
  destruct (reach_io_own c T pad (skipn Lpos0 input0) Hc (proj1 HT) (bskip Lpos0 input0 Hbytes) LS Ltr Lev LdS (Lsig0 T) (sig0_length T) s Hre) as [E|E]; [rewrite Eio; exact I| |]; congruence.
Qed.
Lemma brel_not_retired : forall b mb, brel c false b mb ->
  mb_tot mb = Z.of_nat (b_total b) /\ mb_now mb = Z.of_nat (b_now b) /\ (b_total b <= c)%nat /\ (b_now b <= b_total b)%nat /\
  List.length (b_data b) = b_total b /\ Forall (fun blk => List.length blk = 16%nat) (b_data b) /\
  map Z.to_N (firstn (16 * b_total b) (mb_cells mb)) = concat (b_data b).
Proof. intros b mb (_ & _ & _ & _ & [H|(H & _)]); [exact H|discriminate H]. Qed.

Lemma nev_one : forall k o v, (k <> 20)%Z -> (k <> 21)%Z -> nev [(k, o, v)] = [(Z.to_nat k, (if (o <? 0)%Z then NOOBJ else Z.to_nat o), Z.to_nat v)].
Proof.
  intros k o v H1 H2. unfold nev. cbn [filter is_marker]. apply Z.eqb_neq in H1. apply Z.eqb_neq in H2. rewrite H1, H2. reflexivity.
Qed.


Notation swork := (step_worker LS Ltr Lev).
Lemma step_is_worker : forall s i, List.length (bufs _ s) = T -> (i < T)%nat -> step s (S i) = swork s i.
Proof.
  intros s i Lb Hi. unfold PipeConc.step, step_real, nT. rewrite Lb.
  replace (S i <=? T)%nat with true by (symmetry; apply Nat.leb_le; lia).
  replace (i <? T)%nat with true by (symmetry; apply Nat.ltb_lt; lia). reflexivity.
Qed.

(* the packaging of a worker step *)
Lemma sim_worker_pack : forall s d g i s' evs n d' p' w' wl' mevs,
  drel s d -> tg_ok s g -> reach s -> (i < T)%nat -> swork s i = Some (s', evs) ->
  bnd n ->
  cstep prog vt n (cst (io _ s) (wpcs _ s) d g) (S i) = Ok (cst p' (set_nth i w' (wpcs _ s)) d' (with_wl g i wl'), mevs) ->
  io _ s' = p' -> wpcs _ s' = set_nth i w' (wpcs _ s) -> nev mevs = evs ->
  drel s' d' -> wl_ok i w' wl' -> bu_ok p' (g_bu g) ->
  exists n cs' evs', bnd n /\ cstep prog vt n (cst (io _ s) (wpcs _ s) d g) (S i) = Ok (cs', evs') /\ nev evs' = evs /\ sim s' cs'.
Proof.
  intros s d g i s' evs n d' p' w' wl' mevs Hdr Htg Hre Hi Hst Hn Hcs Hio Hw Hev Hdr' Hwl Hbu.
  exists n, (cst p' (set_nth i w' (wpcs _ s)) d' (with_wl g i wl')), mevs. split; [exact Hn|]. split; [exact Hcs|]. split; [exact Hev|].
  exists d', (with_wl g i wl'). rewrite Hio, Hw. split; [reflexivity|]. split; [exact Hdr'|]. split.
  - destruct Htg as (Lg & Hrb & _ & Hwls). destruct Hdr as (Lb & Lw & _).
    unfold RefineE2EfRel.tg_ok. cbn [with_wl g_wl g_rb g_bu]. rewrite set_nth_length. split; [exact Lg|]. split; [exact Hrb|]. split; [rewrite Hio; exact Hbu|].
    intros j Hj. unfold getw. rewrite Hw. destruct (Nat.eq_dec i j) as [<-|N].
    + rewrite !nth_set_nth_eq by lia. exact Hwl.
    + rewrite !nth_set_nth_neq by exact N. apply Hwls. exact Hj.
  - destruct Hdr as (Lb & _). apply (reach' s (S i) s' evs Hre). rewrite step_is_worker by assumption. exact Hst.
Qed.


Ltac sim_open Hsim d g Hdr Htg Hre :=
  destruct Hsim as (d & g & -> & Hdr & Htg & Hre).

Definition wstep_goal (s : pstate) (cs : cstate) (i : nat) (s' : pstate) (evs : list PipeConc.event) : Prop :=
  exists n cs' evs', bnd n /\ cstep prog vt n cs (S i) = Ok (cs', evs') /\ nev evs' = evs /\ sim s' cs'.

Lemma sim_w_new : forall s cs i, sim s cs -> (i < T)%nat -> getw _ s i = W_New ->
  wstep_goal s cs i (set_wpc _ s i W_Start) [].
Proof.
  intros s cs i Hsim Hi Hw. sim_open Hsim d g Hdr Htg Hre.
  pose proof (drel_dwf c T pad input0 Hc Hc32 HT s d Hdr) as Hdw.
  pose proof Hdr as (Lb & Lw & _). pose proof Htg as (Lg & Hrb & Hbu & Hwl).
  pose proof (Hwl i Hi) as Hwi. rewrite Hw in Hwi. cbn [wl_ok] in Hwi.
  destruct (M_new c T pad input0 (io _ s) (wpcs _ s) d g i Hi Hdw Lw Lg Hw Hwi) as (n & Hn & Hcs).
  eapply (sim_worker_pack s d g i _ _ n d (io _ s) W_Start (wl1 i)); try eassumption; try reflexivity; try lia; try exact I.
  - unfold swork. rewrite Hw. reflexivity.
  - apply drel_set_wpc. exact Hdr.
Qed.

Lemma wait_pc_model : forall st fs, wait_pc (bst_code st) fs = if ready_or_inv st then (if fs then W_Get else W_Cmp) else W_Asleep fs.
Proof. intros [] []; reflexivity. Qed.
Lemma wait_evs_model : forall st, nev (wait_evs (bst_code st)) = if ready_or_inv st then [(16, NOOBJ, bst_code st)] else [(11, 0, 0)].
Proof. intros []; reflexivity. Qed.

Lemma sim_w_wait : forall s cs i (fs woke : bool), sim s cs -> (i < T)%nat ->
  getw _ s i = (if woke then W_Awake fs else if fs then W_Start else W_WaitReady) ->
  wstep_goal s cs i (fst (w_wait St s i fs woke)) (snd (w_wait St s i fs woke)).
Proof.
  intros s cs i fs woke Hsim Hi Hw. sim_open Hsim d g Hdr Htg Hre.
  pose proof (drel_dwf c T pad input0 Hc Hc32 HT s d Hdr) as Hdw.
  pose proof Hdr as (Lb & Lw & Lx & Ldb & Ldn & Htu & HtT & Hov & Hlv & HlT & Hcr & Hout & Hbuf & Hws & Hin). pose proof Htg as (Lg & Hrb & Hbu & Hwl).
  pose proof (Hwl i Hi) as Hwi. rewrite Hw in Hwi.
  destruct (Hbuf i Hi) as (Est & _).
  assert (Hfs : fs = true -> nth i (g_wl g) [] = wl1 i) by (intros ->; destruct woke; exact Hwi).
  assert (Hrbe : fs = false -> wl_rbe i (nth i (g_wl g) [])) by (intros ->; destruct woke; exact Hwi).
  unfold w_wait. set (st := b_st (getb _ s i)) in *.
  assert (Hnewwl : wl_ok i (if ready_or_inv st then (if fs then W_Get else W_Cmp) else W_Asleep fs) (nth i (g_wl g) [])).
  { destruct (ready_or_inv st); destruct fs; cbn [wl_ok]; try (apply Hfs; reflexivity); try (apply Hrbe; reflexivity).
    left. apply Hfs. reflexivity. }
  destruct woke.
  - destruct (M_wait_awake c T pad input0 (io _ s) (wpcs _ s) d g i fs Hi Hdw Lw Lg Hw Hfs) as (n & Hn & Hcs).
    rewrite Est, wait_pc_model in Hcs.
    eapply (sim_worker_pack s d g i _ _ n d (io _ s) _ (nth i (g_wl g) [])); try eassumption; try reflexivity; try lia; try exact I.
    + unfold swork. rewrite Hw. unfold w_wait. fold st. destruct (ready_or_inv st); reflexivity.
    + destruct (ready_or_inv st); reflexivity.
    + destruct (ready_or_inv st); reflexivity.
    + clear. destruct st; reflexivity.
    + destruct (ready_or_inv st); apply drel_set_wpc; exact Hdr.
  - destruct (M_wait_lock c T pad input0 (io _ s) (wpcs _ s) d g i fs Hi Hdw Lw Lg Hw Hfs) as (n & Hn & Hcs).
    rewrite Est, wait_pc_model in Hcs.
    eapply (sim_worker_pack s d g i _ _ n d (io _ s) _ (nth i (g_wl g) [])); try eassumption; try reflexivity; try lia; try exact I.
    + unfold swork. rewrite Hw. unfold w_wait. fold st. destruct fs; destruct (ready_or_inv st); reflexivity.
    + destruct (ready_or_inv st); reflexivity.
    + destruct (ready_or_inv st); reflexivity.
    + rewrite wait_evs_model. destruct (ready_or_inv st); reflexivity.
    + destruct (ready_or_inv st); apply drel_set_wpc; exact Hdr.
Qed.


Lemma sim_w_setupdate : forall s cs i s' evs, sim s cs -> (i < T)%nat -> getw _ s i = W_SetUpdate -> swork s i = Some (s', evs) ->
  wstep_goal s cs i s' evs.
Proof.
  intros s cs i s' evs Hsim Hi Hw Hst. sim_open Hsim d g Hdr Htg Hre.
  pose proof (drel_dwf c T pad input0 Hc Hc32 HT s d Hdr) as Hdw.
  pose proof Hdr as (Lb & Lw & Lx & Ldb & Ldn & Htu & HtT & Hov & Hlv & HlT & Hcr & Hout & Hbuf & Hws & Hin). pose proof Htg as (Lg & Hrb & Hbu & Hwl).
  pose proof (Hwl i Hi) as Hwi. rewrite Hw in Hwi. cbn [wl_ok] in Hwi.
  pose proof (Hbuf i Hi) as Hbi. destruct Hbi as (Est & Efin & Elen & Eby & Edat).
  destruct (M_set_update c T pad input0 (io _ s) (wpcs _ s) d g i Hi Hdw Lw Lg Hw) as (n & Hn & Hcs).
  rewrite Est in Hcs. unfold swork in Hst. rewrite Hw in Hst.
  destruct (b_st (getb _ s i)) eqn:Eb; cbn [bst_code Nat.eqb andb st_after_update] in Hcs; injection Hst as <- <-.
  1,2,4: eapply (sim_worker_pack s d g i _ _ n d (io _ s) W_WaitReady (nth i (g_wl g) [])); try eassumption; try reflexivity; try lia; try exact I;
    [unfold swork; rewrite Hw; cbv zeta; rewrite Eb; cbv beta iota; rewrite ?Eb; reflexivity | rewrite Eb; reflexivity | apply drel_set_wpc; exact Hdr].
  (* READY: the buffer is handed back, the I/O thread is woken *)
  set (bU := with_st (getb _ s i) UPDATING).
  assert (Hio' : io _ (wake_io _ (set_buf _ s i bU) i) = (if Nat.eqb (d_turn d) i then wake_io_pc (io _ s) else io _ s)).
  { unfold wake_io. cbn [set_buf io turn]. rewrite Htu. destruct (io _ s) eqn:Eio; destruct (Nat.eqb (turn _ s) i); cbn [set_buf set_io io wake_io_pc]; rewrite ?Eio; reflexivity. }
  assert (Hsw : swork s i = Some (set_wpc _ (wake_io _ (set_buf _ s i bU) i) i W_WaitReady,
                                  [(18, NOOBJ, bst_code (b_st (getb _ (wake_io _ (set_buf _ s i bU) i) i)))])).
  { unfold swork. rewrite Hw. cbv zeta. rewrite Eb. reflexivity. }
  assert (Hn' : bnd n) by exact I.
  apply (sim_worker_pack s d g i _ _ n _ _ W_WaitReady (nth i (g_wl g) []) _ Hdr Htg Hre Hi Hsw Hn' Hcs).
  - cbn [set_wpc io]. exact Hio'.
  - cbn [set_wpc wpcs]. unfold wake_io. cbn [set_buf io turn]. destruct (io _ s); try reflexivity. destruct (Nat.eqb (turn _ s) i); reflexivity.
  - unfold wake_io. cbn [set_buf io turn].
    assert (G : b_st (getb _ (set_buf _ s i bU) i) = UPDATING) by (rewrite getb_set_buf_eq by lia; reflexivity).
    destruct (io _ s); try (rewrite G; reflexivity). destruct (Nat.eqb (turn _ s) i); rewrite ?getb_set_io, G; reflexivity.
  - apply drel_set_wpc.
    assert (D1 : drel (set_buf _ s i bU) (with_bufs d (upd_buf i (mb_with_st 1) (d_bufs d)))).
    { rewrite dset_upd. apply drel_set_buf; [exact Hdr|exact Hi|].
      assert (R0 : retired s i = false) by (apply ready_not_retired; assumption).
      assert (R1 : retired (set_buf _ s i bU) i = false).
      { unfold retired in *. rewrite getb_set_buf_eq by lia. cbn [bU with_st b_st bst_eqb bst_code Nat.eqb orb].
        rewrite Eb in R0. cbn [bst_eqb bst_code Nat.eqb orb] in R0. exact R0. }
      rewrite R1. rewrite R0 in Edat.
      unfold brel. cbn [bU with_st mb_with_st mb_st mb_fin mb_cells mb_tot mb_now b_st b_total b_now b_final b_data bst_code].
      split; [reflexivity|]. split; [exact Efin|]. split; [exact Elen|]. split; [exact Eby|]. exact Edat. }
    unfold wake_io. cbn [set_buf io turn]. destruct (io _ s) eqn:Eio; try exact D1.
    destruct (Nat.eqb (turn _ s) i); [|exact D1].
    apply drel_set_io; [exact D1|]. intros j. unfold retired. cbn [set_io set_buf io turn bufs]. rewrite Eio. reflexivity.
  - exact Hwi.
  - destruct (Nat.eqb (d_turn d) i); [|exact Hbu]. destruct (io _ s); try exact Hbu; exact I.
Qed.


(* ---- taking an entry: the model's take_entry against get_entry + runcry of the machine ---- *)
Lemma drel_set_sm : forall s d i x' sm', drel s d -> (i < T)%nat -> srep T i x' sm' ->
  (forall j y, j <> i -> srep T j y (d_sm d) -> srep T j y sm') ->
  drel (set_wst _ s i x') (with_sm d sm').
Proof.
  intros s d i x' sm' (Lb & Lw & Lx & Ldb & Ldn & Htu & HtT & Hov & Hlv & HlT & Hcr & Hout & Hbuf & Hws & Hin) Hi Hx Hoth.
  unfold RefineE2EfRel.drel. cbn [set_wst bufs wpcs wsts turn over live crashed output input with_sm d_bufs d_sm d_turn d_over d_live d_out d_pos d_eof].
  rewrite !set_nth_length.
  split; [exact Lb|]. split; [exact Lw|]. split; [exact Lx|]. split; [exact Ldb|]. split; [exact Ldn|]. split; [exact Htu|].
  split; [exact HtT|]. split; [exact Hov|]. split; [exact Hlv|]. split; [exact HlT|]. split; [exact Hcr|]. split; [exact Hout|].
  split; [exact Hbuf|]. split; [|exact Hin].
  intros j Hj. destruct (Nat.eq_dec i j) as [<-|N].
  - rewrite !nth_set_nth_eq by lia. exact Hx.
  - rewrite !nth_set_nth_neq by exact N. apply Hoth; [congruence|]. apply Hws. exact Hj.
Qed.

Lemma drel_take_pre : forall s d i, drel s d -> reach s -> (i < T)%nat ->
  b_st (getb _ s i) = READY -> (b_now (getb _ s i) < b_total (getb _ s i))%nat ->
  let mb := nth i (d_bufs d) mb0 in
  nth_error (wsts _ s) i = Some (nth i (wsts _ s) LdS) /\ mb_st mb = 2%nat /\ (mb_now mb < mb_tot mb)%Z.
Proof.
  intros s d i Hdr Hre Hi Hst Hlt mb.
  pose proof Hdr as (Lb & Lw & Lx & Ldb & Ldn & Htu & HtT & Hov & Hlv & HlT & Hcr & Hout & Hbuf & Hws & Hin).
  pose proof (Hbuf i Hi) as Hbi. rewrite (ready_not_retired s i Hre Hst) in Hbi. fold mb in Hbi.
  pose proof Hbi as (Est & Efin & Elen & Eby & _). destruct (brel_not_retired _ mb Hbi) as (Etot & Enow & Htc & Hnt & Hld & H16 & Hrel).
  split; [apply nth_error_some_nth; lia|].
  split; [rewrite Est, Hst; reflexivity|lia].
Qed.

Lemma drel_take : forall s d i sm' cells' sevs, drel s d -> reach s -> (i < T)%nat ->
  b_st (getb _ s i) = READY -> (b_now (getb _ s i) < b_total (getb _ s i))%nat ->
  let b := getb _ s i in
  let x := nth i (wsts _ s) LdS in
  let mb := nth i (d_bufs d) mb0 in
  stream_post T i (d_sm d) (mb_cells mb) (16 * Z.to_nat (mb_now mb)) sm' cells' sevs ->
  let blk' := snd (Ltr x (nth (b_now b) (b_data b) [])) in
  let b' := {| b_st := b_st b; b_total := b_total b; b_now := S (b_now b); b_final := b_final b; b_data := set_nth (b_now b) blk' (b_data b) |} in
  let x' := fst (Ltr x (nth (b_now b) (b_data b) [])) in
  let B := mb_with_cells cells' (mb_with_now (mb_now mb + 1) mb) in
  take_entry LS Ltr Lev b x i = Some (b', x', Lev i x) /\
  nev sevs = Lev i x /\
  drel (set_wst _ (set_buf _ s i b') i x') (with_sm (dset d i B) sm').
Proof.
  intros s d i sm' cells' sevs Hdr Hre Hi Hst Hlt b x mb HP blk' b' x' B. fold b in Hlt.
  pose proof Hdr as (Lb & Lw & Lx & Ldb & Ldn & Htu & HtT & Hov & Hlv & HlT & Hcr & Hout & Hbuf & Hws & Hin).
  pose proof (Hbuf i Hi) as Hbi. rewrite (ready_not_retired s i Hre Hst) in Hbi. fold b mb in Hbi.
  pose proof Hbi as (Est & Efin & Elen & Eby & _). destruct (brel_not_retired b mb Hbi) as (Etot & Enow & Htc & Hnt & Hld & H16 & Hrel).
  destruct HP as (Lc' & Bc' & _ & HPx). specialize (HPx x (Hws i Hi)). cbv zeta in HPx.
  assert (Hoff : (16 * b_total b <= List.length (mb_cells mb))%nat) by (rewrite Elen; lia).
  rewrite Enow, Nat2Z.id in HPx.
  rewrite (cells_block (mb_cells mb) (b_data b) (b_total b) (b_now b) Hoff Hld H16 Hlt Hrel) in HPx.
  destruct HPx as (Hx' & Ec' & Hev & Hoth). fold x' in Hx'. fold blk' in Ec'.
  split.
  { unfold take_entry. fold b. replace (b_now b <? b_total b)%nat with true by (symmetry; apply Nat.ltb_lt; exact Hlt).
    unfold b', x', blk'. destruct (Ltr x (nth (b_now b) (b_data b) [])). reflexivity. }
  split; [exact Hev|].
  assert (Lblk' : List.length blk' = 16%nat).
  { assert (E := Lc'). rewrite Ec' in E. rewrite !app_length, firstn_length, skipn_length, map_length in E. lia. }
  apply (drel_set_sm (set_buf _ s i b') (dset d i B) i x' sm'); [|exact Hi|exact Hx'|exact Hoth].
  apply drel_set_buf; [exact Hdr|exact Hi|].
  assert (R1 : retired (set_buf _ s i b') i = false).
  { pose proof (ready_not_retired s i Hre Hst) as R0. unfold retired in *. rewrite getb_set_buf_eq by lia.
    cbn [b' b_st]. fold b in R0. exact R0. }
  rewrite R1. unfold brel. cbn [B b' mb_with_cells mb_with_now mb_st mb_fin mb_cells mb_tot mb_now b_st b_total b_now b_final b_data].
  split; [exact Est|]. split; [exact Efin|]. split; [rewrite Lc'; exact Elen|].
  split; [exact Bc'|]. left.
  split; [exact Etot|]. split; [lia|]. split; [exact Htc|]. split; [lia|]. split; [rewrite set_nth_length; exact Hld|].
  split.
  { apply Forall_forall. intros q Hq. apply (In_nth _ _ []) in Hq. destruct Hq as (k & Hk & <-). rewrite set_nth_length in Hk.
    destruct (Nat.eq_dec (b_now b) k) as [<-|N].
    - rewrite nth_set_nth_eq by lia. exact Lblk'.
    - rewrite nth_set_nth_neq by exact N. apply (proj1 (Forall_forall _ _) H16). apply nth_In. lia. }
  rewrite Ec'. apply cells_update; assumption.
Qed.


Lemma wl_ret_ok : forall i wl v, wl_rbe i wl -> wl_rbe i (wl_ret i wl v).
Proof.
  intros i wl v [->|[(v2 & vb & ->)|(v2 & vb & v3 & ->)]]; unfold wl_ret, wl_loop, wl1, wl0; cbn [app List.length Nat.eqb].
  - right. left. exists v, v. reflexivity.
  - right. right. exists v2, v, v. reflexivity.
  - right. right. exists v2, v, v. reflexivity.
Qed.
Lemma nev_app : forall a b, nev (a ++ b) = nev a ++ nev b.
Proof. intros. unfold nev. rewrite filter_app, map_app. reflexivity. Qed.
Lemma nev_two : forall k1 o1 v1 k2 o2 v2, (k1 <> 20)%Z -> (k1 <> 21)%Z -> (k2 <> 20)%Z -> (k2 <> 21)%Z ->
  nev [(k1, o1, v1); (k2, o2, v2)] = [norm_ev (k1, o1, v1); norm_ev (k2, o2, v2)].
Proof.
  intros. unfold nev. cbn [filter is_marker].
  repeat match goal with H : (_ <> _)%Z |- _ => apply Z.eqb_neq in H end. rewrite H, H0, H1, H2. reflexivity.
Qed.

Lemma sim_w_get : forall s cs i s' evs, sim s cs -> (i < T)%nat -> getw _ s i = W_Get -> swork s i = Some (s', evs) ->
  wstep_goal s cs i s' evs.
Proof.
  intros s cs i s' evs Hsim Hi Hw Hst. sim_open Hsim d g Hdr Htg Hre.
  pose proof (drel_dwf c T pad input0 Hc Hc32 HT s d Hdr) as Hdw.
  pose proof Hdr as (Lb & Lw & Lx & Ldb & Ldn & Htu & HtT & Hov & Hlv & HlT & Hcr & Hout & Hbuf & Hws & Hin). pose proof Htg as (Lg & Hrb & Hbu & Hwl).
  pose proof (Hwl i Hi) as Hwi. rewrite Hw in Hwi. cbn [wl_ok] in Hwi.
  destruct (Nat.lt_ge_cases (b_now (getb _ s i)) (b_total (getb _ s i))) as [Hlt|Hge].
  - (* an entry is taken *)
    assert (Hrd : b_st (getb _ s i) = READY).
    { destruct (reach_get c T pad (skipn Lpos0 input0) Hc (proj1 HT) (bskip Lpos0 input0 Hbytes) LS Ltr Lev LdS (Lsig0 T) (sig0_length T) s i Hre Hi Hw) as [E|[_ E]]; [exact E|lia]. }
    destruct (drel_take_pre s d i Hdr Hre Hi Hrd Hlt) as (Hx & Hm2 & Hmlt).
    destruct (M_get_some c T pad input0 (io _ s) (wpcs _ s) d g i Hi Hdw Lw Lg Hw Hwi Hmlt) as (sm' & cells' & sevs & HP & n & Hcs).
    destruct (drel_take s d i sm' cells' sevs Hdr Hre Hi Hrd Hlt HP) as (Htk & Hev & Hdr').
    pose proof Hst as Hsw. unfold swork in Hst. rewrite Hw, Hx, Htk in Hst. injection Hst as Es Ee. rewrite <- Es, <- Ee in Hsw. rewrite <- Es, <- Ee. clear Es Ee.
    assert (Hn' : bnd n) by exact I.
    apply (sim_worker_pack s d g i _ _ n _ (io _ s) W_Get _ _ Hdr Htg Hre Hi Hsw Hn' Hcs).
    + reflexivity.
    + cbn [set_wst set_buf wpcs]. symmetry. rewrite <- Hw. apply set_nth_same. lia.
    + rewrite nev_app, nev_one by lia. rewrite Hev.
      replace (Z.of_nat i <? 0)%Z with false by (symmetry; apply Z.ltb_ge; lia).
      rewrite !Nat2Z.id. reflexivity.
    + exact Hdr'.
    + cbn [wl_ok]. apply wl_ret_ok. exact Hwi.
    + exact Hbu.
  - (* the buffer is exhausted *)
    assert (Hno : take_entry St Ltr Lev (getb _ s i) (nth i (wsts _ s) LdS) i = None).
    { unfold take_entry. replace (b_now (getb _ s i) <? b_total (getb _ s i))%nat with false by (symmetry; apply Nat.ltb_ge; exact Hge). reflexivity. }
    assert (Hx : nth_error (wsts _ s) i = Some (nth i (wsts _ s) LdS)) by (apply nth_error_some_nth; lia).
    unfold swork in Hst. rewrite Hw, Hx, Hno in Hst. injection Hst as <- <-.
    assert (Hmge : (mb_tot (nth i (d_bufs d) mb0) <= mb_now (nth i (d_bufs d) mb0))%Z).
    { destruct (Hbuf i Hi) as (_ & _ & _ & _ & [(E1 & E2 & _)|(_ & E & _)]); lia. }
    destruct (M_get_none c T pad input0 (io _ s) (wpcs _ s) d g i Hi Hdw Lw Lg Hw Hwi Hmge) as (n & Hn & Hcs).
    assert (Hn' : bnd n) by exact I.
    assert (Hsw : swork s i = Some (set_wpc _ s i W_SetUpdate, [(1, i, 0)])) by (unfold swork; rewrite Hw, Hx, Hno; reflexivity).
    apply (sim_worker_pack s d g i _ _ n d (io _ s) W_SetUpdate _ _ Hdr Htg Hre Hi Hsw Hn' Hcs); try reflexivity.
    + rewrite nev_one by lia. replace (Z.of_nat i <? 0)%Z with false by (symmetry; apply Z.ltb_ge; lia). rewrite Nat2Z.id. reflexivity.
    + apply drel_set_wpc. exact Hdr.
    + exact Hwi.
    + exact Hbu.
Qed.


Lemma sim_w_cmp : forall s cs i s' evs, sim s cs -> (i < T)%nat -> getw _ s i = W_Cmp -> swork s i = Some (s', evs) ->
  wstep_goal s cs i s' evs.
Proof.
  intros s cs i s' evs Hsim Hi Hw Hst. sim_open Hsim d g Hdr Htg Hre.
  pose proof (drel_dwf c T pad input0 Hc Hc32 HT s d Hdr) as Hdw.
  pose proof Hdr as (Lb & Lw & Lx & Ldb & Ldn & Htu & HtT & Hov & Hlv & HlT & Hcr & Hout & Hbuf & Hws & Hin). pose proof Htg as (Lg & Hrb & Hbu & Hwl).
  pose proof (Hwl i Hi) as Hwi. rewrite Hw in Hwi. cbn [wl_ok] in Hwi.
  assert (Hx : nth_error (wsts _ s) i = Some (nth i (wsts _ s) LdS)) by (apply nth_error_some_nth; lia).
  pose proof (Hbuf i Hi) as (Est & _).
  destruct (b_st (getb _ s i)) eqn:Eb.
  3:{ (* READY *)
    destruct (Nat.lt_ge_cases (b_now (getb _ s i)) (b_total (getb _ s i))) as [Hlt|Hge].
    - destruct (drel_take_pre s d i Hdr Hre Hi Eb Hlt) as (_ & Hm2 & Hmlt).
      destruct (M_cmp_some c T pad input0 (io _ s) (wpcs _ s) d g i Hi Hdw Lw Lg Hw Hwi Hm2 Hmlt) as (sm' & cells' & sevs & HP & n & Hcs).
      destruct (drel_take s d i sm' cells' sevs Hdr Hre Hi Eb Hlt HP) as (Htk & Hev & Hdr').
      pose proof Hst as Hsw. unfold swork in Hst. rewrite Hw, Hx, Eb, Htk in Hst. injection Hst as Es Ee. rewrite <- Es, <- Ee in Hsw. rewrite <- Es, <- Ee. clear Es Ee.
      assert (Hn' : bnd n) by exact I.
      apply (sim_worker_pack s d g i _ _ n _ (io _ s) W_Get _ _ Hdr Htg Hre Hi Hsw Hn' Hcs).
      + reflexivity.
      + reflexivity.
      + rewrite nev_app, nev_one by lia. rewrite Hev.
        replace (Z.of_nat i <? 0)%Z with false by (symmetry; apply Z.ltb_ge; lia).
        rewrite !Nat2Z.id. reflexivity.
      + apply drel_set_wpc. exact Hdr'.
      + cbn [wl_ok]. apply wl_ret_ok. exact Hwi.
      + exact Hbu.
    - assert (Hno : take_entry St Ltr Lev (getb _ s i) (nth i (wsts _ s) LdS) i = None).
      { unfold take_entry. replace (b_now (getb _ s i) <? b_total (getb _ s i))%nat with false by (symmetry; apply Nat.ltb_ge; exact Hge). reflexivity. }
      pose proof Hst as Hsw. unfold swork in Hst. rewrite Hw, Hx, Eb, Hno in Hst. injection Hst as Es Ee. rewrite <- Es, <- Ee in Hsw. rewrite <- Es, <- Ee. clear Es Ee.
      assert (Hcase : mb_st (nth i (d_bufs d) mb0) <> 2%nat \/ (mb_tot (nth i (d_bufs d) mb0) <= mb_now (nth i (d_bufs d) mb0))%Z).
      { right. destruct (Hbuf i Hi) as (_ & _ & _ & _ & [(E1 & E2 & _)|(_ & E & _)]); lia. }
      destruct (M_cmp_done c T pad input0 (io _ s) (wpcs _ s) d g i Hi Hdw Lw Lg Hw Hwi Hcase) as (n & Hn & Hcs).
      assert (Hn' : bnd n) by exact I.
      apply (sim_worker_pack s d g i _ _ n d (io _ s) W_Done _ _ Hdr Htg Hre Hi Hsw Hn' Hcs).
      + reflexivity.
      + reflexivity.
      + rewrite nev_two by lia. unfold norm_ev. replace (Z.of_nat i <? 0)%Z with false by (symmetry; apply Z.ltb_ge; lia). rewrite Nat2Z.id. reflexivity.
      + apply drel_set_wpc. exact Hdr.
      + exact I.
      + exact Hbu. }
  all: pose proof Hst as Hsw; unfold swork in Hst; rewrite Hw, Hx, Eb in Hst; injection Hst as Es Ee; rewrite <- Es, <- Ee in Hsw; rewrite <- Es, <- Ee; clear Es Ee;
    assert (Hcase : mb_st (nth i (d_bufs d) mb0) <> 2%nat \/ (mb_tot (nth i (d_bufs d) mb0) <= mb_now (nth i (d_bufs d) mb0))%Z)
      by (left; rewrite Est; cbn [bst_code]; lia);
    destruct (M_cmp_done c T pad input0 (io _ s) (wpcs _ s) d g i Hi Hdw Lw Lg Hw Hwi Hcase) as (n & Hn & Hcs);
    assert (Hn' : bnd n) by exact I;
    apply (sim_worker_pack s d g i _ _ n d (io _ s) W_Done _ _ Hdr Htg Hre Hi Hsw Hn' Hcs);
    [ reflexivity | reflexivity
    | rewrite nev_two by lia; unfold norm_ev; replace (Z.of_nat i <? 0)%Z with false by (symmetry; apply Z.ltb_ge; lia); rewrite Nat2Z.id; reflexivity
    | apply drel_set_wpc; exact Hdr | exact I | exact Hbu ].
Qed.

(* ---- all steps of worker i ---- *)
Theorem sim_worker : forall s cs i s' evs, sim s cs -> (i < T)%nat -> swork s i = Some (s', evs) -> wstep_goal s cs i s' evs.
Proof.
  intros s cs i s' evs Hsim Hi Hst. destruct (getw _ s i) eqn:Hw.
  - unfold swork in Hst. rewrite Hw in Hst. injection Hst as <- <-. apply sim_w_new; assumption.
  - pose proof (sim_w_wait s cs i true false Hsim Hi Hw) as G. unfold swork in Hst. rewrite Hw in Hst. injection Hst as E. rewrite E in G. exact G.
  - eapply sim_w_get; eassumption.
  - eapply sim_w_setupdate; eassumption.
  - pose proof (sim_w_wait s cs i false false Hsim Hi Hw) as G. unfold swork in Hst. rewrite Hw in Hst. injection Hst as E. rewrite E in G. exact G.
  - unfold swork in Hst. rewrite Hw in Hst. discriminate Hst.
  - pose proof (sim_w_wait s cs i from_start true Hsim Hi Hw) as G. unfold swork in Hst. rewrite Hw in Hst. injection Hst as E. rewrite E in G. exact G.
  - eapply sim_w_cmp; eassumption.
  - unfold swork in Hst. rewrite Hw in Hst. discriminate Hst.
Qed.

End RelW.
