(* Layer R, the I/O thread (data steps): export_buffer and load_buffer against FileModel.export / load_enc / load_dec. *)
From Coq Require Import ZArith NArith List String Bool Lia Arith.
From Wencry Require Import Bytes FileModel ModesProofs FileProofsDec PipeConc PipeProps PipeLemmas PipeInv MiniC MiniCLemmas MiniCConc SrcRun.
From Wencry Require RefineIobuffer.
From Wencry Require Import RefineConcPipe RefineE2EfPipe RefineE2EfBlock.
From Wencry Require Import RefineE2EfLay RefineE2EfMach RefineE2EfMem RefineE2EfTac RefineE2EfStepW RefineE2EfStepW2 RefineE2EfStepI RefineE2EfStepI2 RefineE2EfStepI3 RefineE2EfStepI4
  RefineE2EfRel RefineE2EfRelW RefineE2EfRelI.
Import ListNotations.
Local Open Scope list_scope.

Lemma of_to_N_bytes : forall l, Forall byteZ l -> map Z.of_N (map Z.to_N l) = l.
Proof.
  intros l H. rewrite map_map. rewrite <- (map_id l) at 2. apply map_ext_in. intros a Ha.
  apply (proj1 (Forall_forall _ _) H) in Ha. apply Z2N.id. unfold byteZ in Ha. lia.
Qed.
Lemma to_of_N : forall l, map Z.to_N (map Z.of_N l) = l.
Proof. intros l. rewrite map_map. rewrite <- (map_id l) at 2. apply map_ext. intros a. apply N2Z.id. Qed.
Lemma firstn_firstn_le : forall (A : Type) (l : list A) a b, (a <= b)%nat -> firstn a (firstn b l) = firstn a l.
Proof. intros. rewrite firstn_firstn. f_equal. lia. Qed.
Lemma Forall_firstn : forall (A : Type) (P : A -> Prop) n l, Forall P l -> Forall P (firstn n l).
Proof. intros A P n l H. rewrite <- (firstn_skipn n l) in H. apply Forall_app in H. tauto. Qed.

Lemma nth_firstn_lt' : forall (A : Type) (l : list A) i n d, (i < n)%nat -> nth i (firstn n l) d = nth i l d.
Proof.
  intros A l. induction l as [|a l IH]; intros i n d H; [destruct n, i; reflexivity|].
  destruct n; [lia|]. destruct i; [reflexivity|]. cbn [firstn nth]. apply IH. lia.
Qed.

Section RelIO.
Context {LY : Layout} {LO : LayoutOk}.
Variables (c T : nat) (pad : bool) (input0 : list N).
Hypothesis Hc : (1 <= c)%nat.
Hypothesis Hc32 : (16 * Z.of_nat c < 2 ^ 32)%Z.
Hypothesis HT : (1 <= T <= 16)%nat.
Hypothesis Hbytes : bytesb input0 = true.

Notation drel := (drel c T pad input0).
Notation tg_ok := (tg_ok T).
Notation sim := (sim c T pad input0).
Notation reach := (reach c T pad (skipn Lpos0 input0) LS Ltr Lev (Lsig0 T)).
Notation cst := (cstate_md c T pad input0).
Notation step := (pstep c pad).
Notation sio := (step_io St c pad).
Notation istep_goal := (istep_goal c T pad input0).

(* ---- export ---- *)
Lemma Forall_firstn_Z : forall (Q : Z -> Prop) n l, Forall Q l -> Forall Q (firstn n l).
Proof. intros Q n. induction n as [|n IH]; intros [|x l] H; cbn [firstn]; try constructor; inversion H; subst; auto. Qed.
Lemma export_rel : forall (b : buf) (mb : mbuf),
  mb_fin mb = b_final b -> List.length (mb_cells mb) = (16 * c)%nat -> Forall byteZ (mb_cells mb) ->
  mb_now mb = Z.of_nat (b_now b) -> b_now b = b_total b -> (b_total b <= c)%nat -> (1 <= b_total b)%nat ->
  List.length (b_data b) = b_total b -> Forall (fun blk => List.length blk = 16%nat) (b_data b) ->
  map Z.to_N (firstn (16 * b_total b) (mb_cells mb)) = concat (b_data b) ->
  (b_final b = false -> b_total b = c) ->
  exists bytes, export c pad {| ld_data := []; ld_total := b_now b; ld_final := b_final b |} (concat (b_data b)) = FileModel.Ok bytes /\
                map Z.of_N bytes = firstn (Z.to_nat (mexport_len c pad mb)) (mb_cells mb).
Proof.
  intros b mb Efin Elen Eby Enow Hnt Htc Ht1 Hld H16 Hrel Hnf.
  set (cells := mb_cells mb) in *. set (dat := concat (b_data b)) in *. set (tot := b_total b) in *.
  assert (Ldata : List.length dat = (16 * tot)%nat) by (unfold dat; rewrite concat_len16' by exact H16; lia).
  assert (Hpre : forall k, (k <= 16 * tot)%nat -> map Z.of_N (firstn k dat) = firstn k cells).
  { intros k Hk. rewrite <- Hrel. rewrite <- firstn_map. rewrite of_to_N_bytes by (apply Forall_firstn; exact Eby).
    apply firstn_firstn_le. exact Hk. }
  unfold export, mexport_len. cbn [ld_final ld_total]. rewrite Efin, Enow, Hnt. fold tot.
  destruct (b_final b) eqn:Ef.
  - destruct pad.
    + eexists. split; [reflexivity|]. cbn [orb].
      replace (16 * Z.of_nat tot <? 0)%Z with false by (symmetry; apply Z.ltb_ge; lia).
      replace (Z.to_nat (16 * Z.of_nat tot - 0)) with (16 * tot)%nat by lia. apply Hpre. lia.
    + cbn [orb]. replace (Z.of_nat tot =? 0)%Z with false by (symmetry; apply Z.eqb_neq; lia).
      replace (tot =? 0)%nat with false by (symmetry; apply Nat.eqb_neq; lia).
      eexists. split; [reflexivity|]. fold cells.
      set (pm := nth (16 * tot - 1) dat 0%N). set (pz := nth (Z.to_nat (16 * (Z.of_nat tot - 1) + 15)) cells 0%Z).
      assert (Epz : pz = Z.of_N pm).
      { unfold pz, pm. replace (Z.to_nat (16 * (Z.of_nat tot - 1) + 15)) with (16 * tot - 1)%nat by lia.
        rewrite <- Hrel. rewrite (nth_indep _ 0%N (Z.to_N 0)) by (rewrite map_length, firstn_length; lia).
        rewrite map_nth. rewrite nth_firstn_lt' by lia. rewrite Z2N.id; [reflexivity|].
        assert (In (nth (16 * tot - 1) cells 0%Z) cells) by (apply nth_In; lia).
        apply (proj1 (Forall_forall _ _) Eby) in H. unfold byteZ in H. lia. }
      rewrite Epz.
      destruct (Nat.ltb_spec (16 * tot) (N.to_nat pm)) as [L|L].
      * replace (16 * Z.of_nat tot <? Z.of_N pm)%Z with true by (symmetry; apply Z.ltb_lt; lia). reflexivity.
      * replace (16 * Z.of_nat tot <? Z.of_N pm)%Z with false by (symmetry; apply Z.ltb_ge; lia).
        replace (Z.to_nat (16 * Z.of_nat tot - Z.of_N pm)) with (16 * tot - N.to_nat pm)%nat by lia. apply Hpre. lia.
  - specialize (Hnf eq_refl). eexists. split; [reflexivity|]. unfold sum.
    replace (Z.to_nat (16 * Z.of_nat c)) with (16 * c)%nat by lia. rewrite <- Hnf. apply Hpre. fold tot. lia.
Qed.

Lemma sim_io_export : forall s cs s' evs, sim s cs -> io _ s = I_Export -> sio s = Some (s', evs) -> istep_goal s cs s' evs.
Proof.
  intros s cs s' evs Hsim Hio Hst. destruct Hsim as (d & g & -> & Hdr & Htg & Hre).
  pose proof (drel_dwf c T pad input0 Hc Hc32 HT s d Hdr) as Hdw.
  pose proof Hdr as (Lb & Lw & Lx & Ldb & Ldn & Htu & HtT & Hov & Hlv & HlT & Hcr & Hout & Hbuf & Hws & Hin). pose proof Htg as (Lg & Hrb & Hbu & Hwl).
  rewrite Hio in Hbu. cbn [bu_ok] in Hbu.
  destruct (reach_export c T pad (skipn Lpos0 input0) Hc (proj1 HT) (bskip Lpos0 input0 Hbytes) LS Ltr Lev LdS (Lsig0 T) (sig0_length T) s Hre Hio) as (Hupd & Hnt & Ht1 & Hnf).
  assert (Hret : retired s (turn _ s) = false) by (unfold retired; rewrite Hupd, Hio; reflexivity).
  pose proof (Hbuf _ HtT) as Hbt. rewrite Hret in Hbt. pose proof Hbt as (Est & Efin & Elen & Eby & _).
  destruct (brel_not_retired c _ _ Hbt) as (Etot & Enow & Htc & Hnt' & Hld & H16 & Hrel).
  set (b := getb _ s (turn _ s)) in *. set (mb := nth (turn _ s) (d_bufs d) mb0) in *.
  destruct (export_rel b mb Efin Elen Eby Enow Hnt Htc Ht1 Hld H16 Hrel Hnf) as (bytes & Hex & Hby).
  assert (Hnc : (mb_now (nth (d_turn d) (d_bufs d) mb0) <= Z.of_nat c)%Z) by (rewrite Htu; fold mb; lia).
  destruct (M_io_export c T input0 pad (wpcs _ s) d g Hdw Lw Hbu Hnc) as (n & Hn & Hcs). rewrite <- Hio in Hcs. rewrite Htu in Hcs. fold mb in Hcs.
  assert (Hn' : bnd n) by exact I.
  pose proof Hst as Hsio. unfold step_io in Hst. rewrite Hio in Hst. fold b in Hst. rewrite Hex in Hst. injection Hst as <- <-.
  apply (sim_io_pack c T pad input0 Hc HT Hbytes s d g _ _ n _ g I_Load (wpcs _ s) _ Hdr Htg Hre Hsio Hn' Hcs); try reflexivity.
  - rewrite nev_two by lia. unfold norm_ev. rewrite Hov. replace (Z.of_nat (turn _ s) <? 0)%Z with false by (symmetry; apply Z.ltb_ge; lia).
    rewrite Nat2Z.id, b2z_b2n. reflexivity.
  - unfold RefineE2EfRel.drel. cbn [bufs wpcs wsts turn over live crashed output input with_out d_bufs d_sm d_turn d_over d_live d_out d_pos d_eof].
    split; [exact Lb|]. split; [exact Lw|]. split; [exact Lx|]. split; [exact Ldb|]. split; [apply Forall_app; split; [exact Ldn|apply Forall_firstn_Z; exact Eby]|]. split; [exact Htu|].
    split; [exact HtT|]. split; [exact Hov|]. split; [exact Hlv|]. split; [exact HlT|]. split; [exact Hcr|].
    split; [rewrite Hout, concat_app, map_app; cbn [concat]; rewrite app_nil_r, Hby, app_assoc; reflexivity|].
    split; [|split; [exact Hws|exact Hin]].
    intros j Hj. replace (retired _ j) with (retired s j); [apply Hbuf; exact Hj|].
    unfold retired, getb. cbn [io turn bufs]. rewrite Hio. reflexivity.
  - destruct Htg as (_ & _ & _ & Hw'). unfold RefineE2EfRel.tg_ok. cbn [io].
    split; [exact Lg|]. split; [exact Hrb|]. split; [rewrite Hbu; eexists _, _; reflexivity|]. exact Hw'.
Qed.


End RelIO.

Section RelIO2.
Context {LY : Layout} {LO : LayoutOk}.
Variables (c T : nat) (input0 : list N).
Hypothesis Hc : (1 <= c)%nat.
Hypothesis Hc32 : (16 * Z.of_nat c < 2 ^ 32)%Z.
Hypothesis HT : (1 <= T <= 16)%nat.
Hypothesis Hbytes : bytesb input0 = true.

Notation drel pad := (drel c T pad input0).
Notation tg_ok := (tg_ok T).
Notation sim pad := (sim c T pad input0).
Notation cst pad := (cstate_md c T pad input0).
Notation sio pad := (step_io St c pad).
Notation istep_goal pad := (istep_goal c T pad input0).

(* ---- load ---- *)
Lemma bytes_byteZ : forall l, bytes l -> Forall byteZ (map Z.of_N l).
Proof. intros l H. apply Forall_forall. intros z Hz. apply in_map_iff in Hz. destruct Hz as (x & <- & Hx). apply (proj1 (Forall_forall _ _) H) in Hx. unfold byteZ. lia. Qed.

(* a buffer after a load of tot' blocks dataN *)
Lemma brel_load : forall r (b : buf) (mb : mbuf) cells' tot' (dataN : list N) (lf : bool) tail',
  mb_st mb = bst_code (b_st b) -> mb_fin mb = b_final b -> List.length cells' = (16 * c)%nat -> Forall byteZ cells' -> (tot' <= c)%nat ->
  List.length dataN = (16 * tot')%nat -> bytes dataN -> map Z.to_N (firstn (16 * tot') cells') = dataN ->
  brel c r {| b_st := b_st b; b_total := tot'; b_now := 0; b_final := b_final b || lf; b_data := blocks16_of dataN |}
           {| mb_cells := cells'; mb_tot := Z.of_nat tot'; mb_now := 0; mb_tail := tail'; mb_fin := mb_fin mb || lf; mb_st := mb_st mb |}.
Proof.
  intros r b mb cells' tot' dataN lf tail' Est Efin Elen Eby Htc Hld Hbd Hrel.
  destruct (chunks16_of_mul tot' dataN Hld Hbd) as (C1 & C2 & C3).
  unfold brel. cbn [mb_st mb_fin mb_cells mb_tot mb_now b_st b_total b_now b_final b_data]. unfold blocks16_of.
  split; [exact Est|]. split; [rewrite Efin; reflexivity|]. split; [exact Elen|]. split; [exact Eby|]. left.
  split; [reflexivity|]. split; [reflexivity|]. split; [exact Htc|]. split; [lia|]. split; [exact C3|]. split.
  - apply Forall_forall. intros x Hx. apply (proj1 (Forall_forall _ _) C1) in Hx. destruct Hx as [L _]. exact L.
  - rewrite C2. exact Hrel.
Qed.

Definition after_load (s : pstate) (b' : buf) (ls : nat) (ov' : bool) (inp' : list load) : pstate :=
  {| bufs := set_nth (turn _ s) b' (bufs _ s); wpcs := wpcs _ s; wsts := wsts _ s; io := I_SetReady ls; turn := turn _ s; over := ov';
     live := live _ s; input := inp'; output := output _ s; crashed := crashed _ s |}.

Lemma drel_load : forall pad s d ls b' B' pos' eof' ov' inp',
  drel pad s d -> io _ s = I_Load ->
  brel c (retired (after_load s b' ls ov' inp') (turn _ s)) b' B' ->
  (ov' = false -> eof' = false /\ True /\ inp' = loads_of c pad (skipn pos' input0)) ->
  drel pad (after_load s b' ls ov' inp') (with_over (with_fin (dset d (turn _ s) B') pos' eof') ov').
Proof.
  intros pad s d ls b' B' pos' eof' ov' inp' Hdr Hio Hb Hinp.
  pose proof Hdr as (Lb & Lw & Lx & Ldb & Ldn & Htu & HtT & Hov & Hlv & HlT & Hcr & Hout & Hbuf & Hws & Hin).
  unfold RefineE2EfRel.drel. cbn [after_load bufs wpcs wsts turn over live crashed output input with_over with_fin dset with_bufs d_bufs d_sm d_turn d_over d_live d_out d_pos d_eof].
  rewrite !set_nth_length.
  split; [exact Lb|]. split; [exact Lw|]. split; [exact Lx|]. split; [exact Ldb|]. split; [exact Ldn|]. split; [exact Htu|].
  split; [exact HtT|]. split; [reflexivity|]. split; [exact Hlv|]. split; [exact HlT|]. split; [exact Hcr|]. split; [exact Hout|].
  split; [|split; [exact Hws|exact Hinp]].
  intros j Hj. unfold getb. change (bufs St (after_load s b' ls ov' inp')) with (set_nth (turn _ s) b' (bufs _ s)).
  destruct (Nat.eq_dec (turn _ s) j) as [<-|N].
  - rewrite !nth_set_nth_eq by lia. exact Hb.
  - rewrite !nth_set_nth_neq by exact N.
    replace (retired _ j) with (retired s j); [apply Hbuf; exact Hj|].
    unfold retired, getb. cbn [after_load io turn bufs]. rewrite nth_set_nth_neq by exact N. rewrite Hio.
    replace (Nat.eqb (turn _ s) j) with false by (symmetry; apply Nat.eqb_neq; exact N).
    destruct ls as [|[|[|]]]; cbn [andb]; rewrite ?orb_false_r; reflexivity.
Qed.


Lemma brel_true : forall r b mb, brel c r b mb -> brel c true b mb.
Proof.
  intros r b mb (H1 & H2 & H3 & H4 & [H|(_ & H)]); (split; [exact H1|]); (split; [exact H2|]); (split; [exact H3|]); (split; [exact H4|]); [left; exact H|right; split; [reflexivity|exact H]].
Qed.

Lemma sim_io_load_over : forall pad s cs s' evs, sim pad s cs -> io _ s = I_Load -> over _ s = true -> sio pad s = Some (s', evs) -> istep_goal pad s cs s' evs.
Proof.
  intros pad s cs s' evs Hsim Hio Hovt Hst. destruct Hsim as (d & g & -> & Hdr & Htg & Hre).
  pose proof (drel_dwf c T pad input0 Hc Hc32 HT s d Hdr) as Hdw.
  pose proof Hdr as (Lb & Lw & Lx & Ldb & Ldn & Htu & HtT & Hov & Hlv & HlT & Hcr & Hout & Hbuf & Hws & Hin). pose proof Htg as (Lg & Hrb & Hbu & Hwl).
  rewrite Hio in Hbu. cbn [bu_ok] in Hbu. destruct Hbu as (x & y & Hbu).
  assert (Hdo : d_over d = true) by (rewrite Hov; exact Hovt).
  destruct (M_io_load_over c T input0 pad (wpcs _ s) d g _ Hdw Lw Hbu Hdo) as (n & Hn & Hcs). rewrite <- Hio in Hcs.
  assert (Hn' : bnd n) by exact I.
  pose proof Hst as Hsio. unfold step_io in Hst. rewrite Hio, Hovt in Hst. injection Hst as <- <-.
  apply (sim_io_pack c T pad input0 Hc HT Hbytes s d g _ _ n _ g (I_SetReady 2) (wpcs _ s) _ Hdr Htg Hre Hsio Hn' Hcs); try reflexivity.
  - rewrite nev_one by lia. rewrite Htu. replace (Z.of_nat (turn _ s) <? 0)%Z with false by (symmetry; apply Z.ltb_ge; lia). rewrite Nat2Z.id. reflexivity.
  - unfold RefineE2EfRel.drel. cbn [set_io bufs wpcs wsts turn over live crashed output input with_over d_bufs d_sm d_turn d_over d_live d_out d_pos d_eof].
    split; [exact Lb|]. split; [exact Lw|]. split; [exact Lx|]. split; [exact Ldb|]. split; [exact Ldn|]. split; [exact Htu|].
    split; [exact HtT|]. split; [symmetry; exact Hovt|]. split; [exact Hlv|]. split; [exact HlT|]. split; [exact Hcr|]. split; [exact Hout|].
    split; [|split; [exact Hws|exact Hin]].
    intros j Hj. rewrite getb_set_io. destruct (Nat.eq_dec (turn _ s) j) as [<-|N].
    + replace (retired _ (turn _ s)) with true by (unfold retired; cbn [set_io io turn]; rewrite Nat.eqb_refl; cbn [andb]; rewrite orb_true_r; reflexivity).
      eapply brel_true. apply Hbuf. exact Hj.
    + replace (retired _ j) with (retired s j); [apply Hbuf; exact Hj|].
      unfold retired. cbn [set_io io turn]. rewrite getb_set_io, Hio.
      replace (Nat.eqb (turn _ s) j) with false by (symmetry; apply Nat.eqb_neq; exact N). cbn [andb]. reflexivity.
  - apply (tg_ok_io T s g); [exact Htg|reflexivity|exact Hrb|exact I].
Qed.


Lemma got_map : forall pos, firstn (16 * c) (skipn pos (map Z.of_N input0)) = map Z.of_N (firstn (16 * c) (skipn pos input0)).
Proof. intros pos. rewrite skipn_map, firstn_map. reflexivity. Qed.
Lemma input_bytes : bytes input0.
Proof. apply bytesb_bytes. exact Hbytes. Qed.
Lemma upd0_firstn : forall (gotZ cells : list Z) n, (n <= List.length gotZ)%nat -> (List.length gotZ <= List.length cells)%nat ->
  firstn n (upd_range 0 gotZ cells) = firstn n gotZ.
Proof.
  intros gotZ cells n Hn Hl. rewrite RefineIobuffer.upd_range_0 by exact Hl. rewrite firstn_app.
  replace (n - List.length gotZ)%nat with 0%nat by lia. cbn [firstn]. apply app_nil_r.
Qed.
Lemma upd0_bytes : forall (gotZ cells : list Z), Forall byteZ gotZ -> Forall byteZ cells -> (List.length gotZ <= List.length cells)%nat ->
  Forall byteZ (upd_range 0 gotZ cells).
Proof.
  intros gotZ cells H1 H2 Hl. rewrite RefineIobuffer.upd_range_0 by exact Hl. apply Forall_app. split; [exact H1|].
  rewrite <- (firstn_skipn (List.length gotZ) cells) in H2. apply Forall_app in H2. tauto.
Qed.

(* the model's I_Load step when a load l is delivered *)
Lemma sio_load_some : forall pad s l rest, io _ s = I_Load -> over _ s = false -> input _ s = l :: rest ->
  let b := getb _ s (turn _ s) in
  let b' := {| b_st := b_st b; b_total := ld_total l; b_now := 0; b_final := b_final b || ld_final l; b_data := blocks16_of (ld_data l) |} in
  sio pad s = Some (after_load s b' (if ld_final l then 1 else 0) (ld_final l) rest, [(7, turn _ s, if ld_final l then 1 else 0)]).
Proof. intros pad s l rest Hio Hov Hin b b'. unfold step_io. rewrite Hio, Hov, Hin. reflexivity. Qed.


Lemma upd_range_bytes : forall vs n l, Forall byteZ vs -> Forall byteZ l -> Forall byteZ (upd_range n vs l).
Proof.
  induction vs as [|v vs IH]; intros n l Hv Hl; cbn [upd_range]; [exact Hl|].
  inversion Hv; subst. apply IH; [assumption|]. apply Forall_upd_nth; assumption.
Qed.
Lemma mbuf_eq : forall a1 a2 a3 a4 a5 a6 b1 b2 b3 b4 b5 b6, a1 = b1 -> a2 = b2 -> a3 = b3 -> a4 = b4 -> a5 = b5 -> a6 = b6 ->
  {| mb_cells := a1; mb_tot := a2; mb_now := a3; mb_tail := a4; mb_fin := a5; mb_st := a6 |} =
  {| mb_cells := b1; mb_tot := b2; mb_now := b3; mb_tail := b4; mb_fin := b5; mb_st := b6 |}.
Proof. intros; subst; reflexivity. Qed.

(* padding on *)
Lemma sim_io_load_enc : forall s cs s' evs, sim true s cs -> io _ s = I_Load -> over _ s = false -> sio true s = Some (s', evs) -> istep_goal true s cs s' evs.
Proof.
  intros s cs s' evs Hsim Hio Hovf Hst. destruct Hsim as (d & g & -> & Hdr & Htg & Hre).
  pose proof (drel_dwf c T true input0 Hc Hc32 HT s d Hdr) as Hdw.
  pose proof Hdr as (Lb & Lw & Lx & Ldb & Ldn & Htu & HtT & Hov & Hlv & HlT & Hcr & Hout & Hbuf & Hws & Hin). pose proof Htg as (Lg & Hrb & Hbu & Hwl).
  rewrite Hio in Hbu. cbn [bu_ok] in Hbu. destruct Hbu as (x & y & Hbu).
  destruct (Hin Hovf) as (Heof & Hpos & Hinp).
  assert (Hdo : d_over d = false) by (rewrite Hov; exact Hovf).
  destruct (reach_io_own c T true (skipn Lpos0 input0) Hc (proj1 HT) (bskip Lpos0 input0 Hbytes) LS Ltr Lev LdS (Lsig0 T) (sig0_length T) s Hre) as [Hown|Hown]; [rewrite Hio; exact I| |].
  all: pose proof (Hbuf _ HtT) as (Est & Efin & Elen & Eby & _);
    set (b := getb _ s (turn _ s)) in *; set (mb := nth (turn _ s) (d_bufs d) mb0) in *;
    set (R := skipn (d_pos d) input0) in *; set (gotN := firstn (16 * c) R);
    assert (HbR : bytes R) by (apply bytes_firstn_skipn; apply input_bytes);
    assert (HbG : bytes gotN) by (apply bytes_firstn_skipn; exact HbR);
    assert (LR : List.length R = (List.length input0 - d_pos d)%nat) by (unfold R; apply skipn_length);
    assert (Lk : (List.length gotN <= 16 * c)%nat /\ (List.length gotN <= List.length R)%nat) by (unfold gotN; rewrite firstn_length; lia);
    pose proof (got_map (d_pos d)) as Egot; fold R gotN in Egot;
    rewrite loads_of_unfold in Hinp by exact Hc; fold R in Hinp; unfold ld_of, load_enc in Hinp; cbv zeta in Hinp; unfold sum in Hinp; fold gotN in Hinp.
  all: destruct (Nat.eqb_spec (List.length gotN) (16 * c)) as [Ek|Ek].
  (* a full chunk *)
  1,3: cbn [ld_final] in Hinp;
    pose proof (sio_load_some true s _ _ Hio Hovf Hinp) as Hsio; cbn [ld_final ld_total ld_data] in Hsio; fold b in Hsio;
    rewrite Hsio in Hst; injection Hst as <- <-;
    assert (Ek' : List.length (firstn (16 * c) (skipn (d_pos d) (map Z.of_N input0))) = (16 * c)%nat) by (rewrite Egot, map_length; exact Ek);
    destruct (M_io_load_enc_full c T input0 (wpcs _ s) d g x y Hdw Lw Hbu Hdo Heof Ek') as (n & Hn & Hcs); rewrite <- Hio in Hcs;
    assert (Hn' : bnd n) by exact I;
    rewrite Egot, map_length in Hcs; rewrite Htu in Hcs; fold mb in Hcs;
    (apply (sim_io_pack c T true input0 Hc HT Hbytes s d g _ _ n _ _ (I_SetReady 0) (wpcs _ s) _ Hdr Htg Hre Hsio Hn' Hcs);
     [ reflexivity | reflexivity
     | rewrite nev_one by lia; replace (Z.of_nat (turn _ s) <? 0)%Z with false by (symmetry; apply Z.ltb_ge; lia); rewrite Nat2Z.id; reflexivity
     | | apply (tg_ok_io T s g); [exact Htg|reflexivity|exact Hrb|exact I] ]).
  1,2: apply (drel_load true s d 0 _ _ _ _ false _ Hdr Hio);
    [ match goal with |- brel _ ?r _ _ => generalize r; intro rr end;
      replace (Z.of_nat (List.length gotN) / 16)%Z with (Z.of_nat c) by (rewrite Ek; replace (Z.of_nat (16 * c)) with (Z.of_nat c * 16)%Z by lia; rewrite Z.div_mul by lia; reflexivity);
      replace (mb_fin mb) with (mb_fin mb || false) by apply orb_false_r;
      apply (brel_load rr b mb _ c gotN false); try assumption; try lia;
      [ rewrite upd_range_length; exact Elen
      | apply upd0_bytes; [apply bytes_byteZ; exact HbG | exact Eby | rewrite map_length, Elen; lia]
      | rewrite upd0_firstn by (rewrite ?map_length, ?Elen; lia); rewrite firstn_all2 by (rewrite map_length; lia); apply to_of_N ]
    | intros _; split; [reflexivity|]; split; [lia|]; unfold R; rewrite RefineIobuffer.skipn_skipn'; rewrite Ek; f_equal; f_equal; lia ].
  (* the last, padded chunk *)
  all: set (k := List.length gotN) in *; set (padding := (16 - k mod 16)%nat) in *;
    assert (Hm : (k mod 16 < 16)%nat) by (apply Nat.mod_upper_bound; lia);
    pose proof (Nat.div_mod k 16 ltac:(lia)) as Hdm;
    replace (S (k / 16) =? 0)%nat with false in Hinp by reflexivity; cbn [ld_final] in Hinp;
    pose proof (sio_load_some true s _ _ Hio Hovf Hinp) as Hsio; cbn [ld_final ld_total ld_data] in Hsio; fold b in Hsio;
    rewrite Hsio in Hst; injection Hst as <- <-;
    assert (Ek' : (List.length (firstn (16 * c) (skipn (d_pos d) (map Z.of_N input0))) < 16 * c)%nat) by (rewrite Egot, map_length; fold k; lia);
    destruct (M_io_load_enc_final c T input0 (wpcs _ s) d g x y Hdw Lw Hbu Hdo Heof Ek') as (n & Hn & Hcs); rewrite <- Hio in Hcs;
    assert (Hn' : bnd n) by exact I;
    rewrite Egot, map_length in Hcs; fold k in Hcs; rewrite Htu in Hcs; fold mb in Hcs;
    (apply (sim_io_pack c T true input0 Hc HT Hbytes s d g _ _ n _ _ (I_SetReady 1) (wpcs _ s) _ Hdr Htg Hre Hsio Hn' Hcs);
     [ reflexivity | reflexivity
     | rewrite nev_one by lia; replace (Z.of_nat (turn _ s) <? 0)%Z with false by (symmetry; apply Z.ltb_ge; lia); rewrite Nat2Z.id; reflexivity
     | | apply (tg_ok_io T s g); [exact Htg|reflexivity|exact Hrb|exact I] ]).
  all: assert (Epv : (16 - Z.of_nat k mod 16)%Z = Z.of_nat padding) by (unfold padding; change 16%Z with (Z.of_nat 16); rewrite <- Nat2Z.inj_mod; lia); rewrite Epv, Nat2Z.id;
    apply (drel_load true s d 1 _ _ _ _ true _ Hdr Hio); [|discriminate];
    match goal with |- brel _ ?r _ _ => generalize r; intro rr end;
    replace (Z.of_nat k / 16 + 1)%Z with (Z.of_nat (S (k / 16))) by (rewrite Nat2Z.inj_succ, Nat2Z.inj_div; reflexivity);
    replace true with (mb_fin mb || true) at 2 by apply orb_true_r;
    apply (brel_load rr b mb _ (S (k / 16)) (gotN ++ repeat (N.of_nat padding) padding) true); try assumption.
  all: assert (Hkc : (k / 16 < c)%nat) by (apply Nat.div_lt_upper_bound; lia).
  1,7: rewrite !upd_range_length; exact Elen.
  1,6: apply upd_range_bytes; [apply Forall_forall; intros z Hz; apply repeat_spec in Hz; subst z; unfold byteZ, padding; lia
                              | apply upd0_bytes; [apply bytes_byteZ; exact HbG | exact Eby | rewrite map_length, Elen; fold k; lia]].
  1,5: lia.
  1,4: rewrite app_length, repeat_length; fold k; unfold padding; lia.
  1,3: apply bytes_app; [exact HbG|]; apply Forall_forall; intros z Hz; apply repeat_spec in Hz; subst z; unfold padding; lia.
  all: rewrite RefineIobuffer.upd_range_0 by (rewrite map_length, Elen; fold k; lia);
    (let Q := fresh "Q" in
     pose proof (upd_range_app (repeat (Z.of_nat padding) padding) (map Z.of_N gotN) (skipn (List.length (map Z.of_N gotN)) (mb_cells mb))
                   ltac:(rewrite repeat_length, skipn_length, map_length, Elen; fold k; unfold padding; lia)) as Q;
     rewrite map_length in Q; fold k in Q; rewrite map_length; fold k; rewrite Q);
    rewrite repeat_length, app_assoc;
    rewrite firstn_app;
    replace (16 * S (k / 16) - List.length (map Z.of_N gotN ++ repeat (Z.of_nat padding) padding))%nat with 0%nat
      by (rewrite app_length, map_length, repeat_length; fold k; unfold padding; lia);
    cbn [firstn]; rewrite app_nil_r;
    rewrite firstn_all2 by (rewrite app_length, map_length, repeat_length; fold k; unfold padding; lia);
    rewrite map_app, to_of_N; f_equal;
    rewrite RefineIobuffer.map_repeat'; f_equal; lia.
Qed.

(* padding off *)
Lemma sio_load_none : forall pad s, io _ s = I_Load -> over _ s = false -> input _ s = [] -> (turn _ s < List.length (bufs _ s))%nat ->
  sio pad s = Some (after_load s (getb _ s (turn _ s)) 2 true [], [(7, turn _ s, 2)]).
Proof.
  intros pad s Hio Hov Hin Ht. unfold step_io. rewrite Hio, Hov, Hin. unfold after_load. unfold getb. rewrite set_nth_same by exact Ht. reflexivity.
Qed.
Lemma firstn_map_to_of : forall m (l : list N), map Z.to_N (firstn m (map Z.of_N l)) = firstn m l.
Proof. intros. rewrite firstn_map. apply to_of_N. Qed.
Lemma div16_mul : forall n, (16 * n / 16 = n)%nat.
Proof. intros. rewrite Nat.mul_comm. apply Nat.div_mul. lia. Qed.

Lemma skipn_cons_nth_error : forall (A : Type) (l : list A) n x r, skipn n l = x :: r -> nth_error l n = Some x.
Proof. intros A l. induction l as [|a l IH]; intros [|n] x r H; cbn [skipn nth_error] in *; try discriminate H; [injection H as -> _; reflexivity|]. eapply IH. exact H. Qed.
Lemma skipn_nil_nth_error : forall (A : Type) (l : list A) n, skipn n l = [] -> nth_error l n = None.
Proof. intros A l. induction l as [|a l IH]; intros [|n] H; cbn [skipn nth_error] in *; try reflexivity; [discriminate H|]. apply IH. exact H. Qed.

Lemma sim_io_load_dec : forall s cs s' evs, sim false s cs -> io _ s = I_Load -> over _ s = false -> sio false s = Some (s', evs) -> istep_goal false s cs s' evs.
Proof.
  intros s cs s' evs Hsim Hio Hovf Hst. destruct Hsim as (d & g & -> & Hdr & Htg & Hre).
  pose proof (drel_dwf c T false input0 Hc Hc32 HT s d Hdr) as Hdw.
  pose proof Hdr as (Lb & Lw & Lx & Ldb & Ldn & Htu & HtT & Hov & Hlv & HlT & Hcr & Hout & Hbuf & Hws & Hin). pose proof Htg as (Lg & Hrb & Hbu & Hwl).
  rewrite Hio in Hbu. cbn [bu_ok] in Hbu. destruct Hbu as (x & y & Hbu).
  destruct (Hin Hovf) as (Heof & Hpos & Hinp).
  assert (Hdo : d_over d = false) by (rewrite Hov; exact Hovf).
  pose proof (reach_load c T false (skipn Lpos0 input0) Hc (proj1 HT) (bskip Lpos0 input0 Hbytes) LS Ltr Lev LdS (Lsig0 T) (sig0_length T) s Hre Hio) as Hnt.
  pose proof (Hbuf _ HtT) as (Est & Efin & Elen & Eby & _).
  set (b := getb _ s (turn _ s)) in *. set (mb := nth (turn _ s) (d_bufs d) mb0) in *.
  set (R := skipn (d_pos d) input0) in *. set (gotN := firstn (16 * c) R).
  assert (HbR : bytes R) by (apply bytes_firstn_skipn; apply input_bytes).
  assert (HbG : bytes gotN) by (apply bytes_firstn_skipn; exact HbR).
  assert (LR : List.length R = (List.length input0 - d_pos d)%nat) by (unfold R; apply skipn_length).
  assert (Lk : (List.length gotN <= 16 * c)%nat /\ (List.length gotN <= List.length R)%nat) by (unfold gotN; rewrite firstn_length; lia).
  pose proof (got_map (d_pos d)) as Egot. fold R gotN in Egot.
  rewrite loads_of_unfold in Hinp by exact Hc. fold R in Hinp. unfold ld_of, load_dec in Hinp. cbv zeta in Hinp. unfold sum in Hinp. fold gotN in Hinp.
  set (k := List.length gotN) in *. cbn [ld_final ld_total] in Hinp.
  assert (Hgl : List.length (firstn (16 * c) (skipn (d_pos d) (map Z.of_N input0))) = k) by (rewrite Egot, map_length; reflexivity).
  assert (Hkd : (k / 16 <= c)%nat) by (apply Nat.div_le_upper_bound; lia).
  assert (Hmul : (16 * (k / 16) <= k)%nat) by (apply Nat.mul_div_le; lia).
  assert (Hnth : nth_error (map Z.of_N input0) (d_pos d + k) = option_map Z.of_N (nth_error input0 (d_pos d + k))) by apply nth_error_map.
  assert (Hrest : skipn (16 * c) R = skipn (d_pos d + 16 * c) input0) by (unfold R; rewrite RefineIobuffer.skipn_skipn'; f_equal; lia).
  (* the generic part of the new buffer relation *)
  assert (Hbrel : forall rr lf, brel c rr {| b_st := b_st b; b_total := k / 16; b_now := 0; b_final := b_final b || lf; b_data := blocks16_of (firstn (16 * (k / 16)) gotN) |}
                                    (loaded mb (map Z.of_N gotN) (mb_fin mb || lf))).
  { intros rr lf. unfold loaded. rewrite map_length. fold k.
    replace (Z.of_nat k / 16)%Z with (Z.of_nat (k / 16)) by (rewrite Nat2Z.inj_div; reflexivity).
    apply (brel_load rr b mb _ (k / 16) (firstn (16 * (k / 16)) gotN) lf); try assumption.
    - rewrite upd_range_length. exact Elen.
    - apply upd0_bytes; [apply bytes_byteZ; exact HbG | exact Eby | rewrite map_length, Elen; fold k; lia].
    - rewrite firstn_length. fold k. lia.
    - apply bytes_firstn_skipn. exact HbG.
    - rewrite upd0_firstn by (rewrite ?map_length, ?Elen; fold k; lia). apply firstn_map_to_of. }
  destruct (Nat.eq_dec k (16 * c)) as [Ek|Ek].
  - (* a full chunk was read *)
    replace (k <? 16 * c)%nat with false in Hinp by (symmetry; apply Nat.ltb_ge; lia). cbn [orb] in Hinp.
    destruct (skipn (16 * c) R) as [|v r'] eqn:Er.
    + (* ... and it was the last: FINAL *)
      replace (k / 16 =? 0)%nat with false in Hinp by (symmetry; apply Nat.eqb_neq; rewrite Ek, div16_mul; lia).
      pose proof (sio_load_some false s _ _ Hio Hovf Hinp) as Hsio. cbn [ld_final ld_total ld_data] in Hsio. fold b in Hsio.
      rewrite Hsio in Hst. injection Hst as <- <-.
      assert (Hnone : nth_error (map Z.of_N input0) (d_pos d + List.length (firstn (16 * c) (skipn (d_pos d) (map Z.of_N input0)))) = None).
      { rewrite Hgl, Hnth. rewrite Ek. rewrite (skipn_nil_nth_error _ input0 (d_pos d + 16 * c)) by (symmetry; exact Hrest). reflexivity. }
      assert (Ek' : List.length (firstn (16 * c) (skipn (d_pos d) (map Z.of_N input0))) = (16 * c)%nat) by (rewrite Hgl; exact Ek).
      destruct (M_io_load_dec_end c T input0 (wpcs _ s) d g x y Hdw Lw Hbu Hdo Heof Ek' Hnone) as (n & Hn & Hcs). rewrite <- Hio in Hcs.
      assert (Hn' : bnd n) by exact I.
      rewrite Egot in Hcs. rewrite map_length in Hcs. fold k in Hcs. rewrite Htu in Hcs. fold mb in Hcs.
      apply (sim_io_pack c T false input0 Hc HT Hbytes s d g _ _ n _ _ (I_SetReady 1) (wpcs _ s) _ Hdr Htg Hre Hsio Hn' Hcs).
      * reflexivity.
      * reflexivity.
      * rewrite nev_one by lia. replace (Z.of_nat (turn _ s) <? 0)%Z with false by (symmetry; apply Z.ltb_ge; lia). rewrite Nat2Z.id. reflexivity.
      * apply (drel_load false s d 1 _ _ _ _ true _ Hdr Hio); [|discriminate].
        match goal with |- brel _ ?r _ _ => pose proof (Hbrel r true) as HB end.
        replace (mb_fin mb || true) with true in HB by (symmetry; apply orb_true_r). exact HB.
      * apply (tg_ok_io T s g); [exact Htg|reflexivity|exact Hrb|exact I].
    + (* ... and more follows: FULL *)
      pose proof (sio_load_some false s _ _ Hio Hovf Hinp) as Hsio. cbn [ld_final ld_total ld_data] in Hsio. fold b in Hsio.
      rewrite Hsio in Hst. injection Hst as <- <-.
      assert (Hsome : nth_error (map Z.of_N input0) (d_pos d + List.length (firstn (16 * c) (skipn (d_pos d) (map Z.of_N input0)))) = Some (Z.of_N v)).
      { rewrite Hgl, Hnth. rewrite Ek. rewrite (skipn_cons_nth_error _ input0 (d_pos d + 16 * c) v r') by (symmetry; exact Hrest). reflexivity. }
      assert (Ek' : List.length (firstn (16 * c) (skipn (d_pos d) (map Z.of_N input0))) = (16 * c)%nat) by (rewrite Hgl; exact Ek).
      destruct (M_io_load_dec_more c T input0 (wpcs _ s) d g x y (Z.of_N v) Hdw Lw Hbu Hdo Heof Ek' Hsome ltac:(lia)) as (n & Hn & Hcs). rewrite <- Hio in Hcs.
      assert (Hn' : bnd n) by exact I.
      rewrite Egot in Hcs. rewrite map_length in Hcs. fold k in Hcs. rewrite Htu in Hcs. fold mb in Hcs.
      apply (sim_io_pack c T false input0 Hc HT Hbytes s d g _ _ n _ _ (I_SetReady 0) (wpcs _ s) _ Hdr Htg Hre Hsio Hn' Hcs).
      * reflexivity.
      * reflexivity.
      * rewrite nev_one by lia. replace (Z.of_nat (turn _ s) <? 0)%Z with false by (symmetry; apply Z.ltb_ge; lia). rewrite Nat2Z.id. reflexivity.
      * apply (drel_load false s d 0 _ _ _ _ false _ Hdr Hio).
        -- match goal with |- brel _ ?r _ _ => pose proof (Hbrel r false) as HB end.
           replace (mb_fin mb || false) with (mb_fin mb) in HB by (symmetry; apply orb_false_r). exact HB.
        -- intros _. split; [reflexivity|]. split; [lia|]. rewrite Hrest. rewrite Ek. reflexivity.
      * apply (tg_ok_io T s g); [exact Htg|reflexivity|exact Hrb|exact I].
  - (* fewer bytes than a chunk: the end of the input *)
    assert (Hklt : (k < 16 * c)%nat) by lia.
    replace (k <? 16 * c)%nat with true in Hinp by (symmetry; apply Nat.ltb_lt; lia). cbn [orb] in Hinp.
    assert (Ek' : (List.length (firstn (16 * c) (skipn (d_pos d) (map Z.of_N input0))) < 16 * c)%nat) by (rewrite Hgl; exact Hklt).
    destruct (Nat.eqb_spec (k / 16) 0) as [E0|E0].
    + (* no whole block: NODATA *)
      assert (Hk16 : (k < 16)%nat) by (apply Nat.div_small_iff in E0; lia).
      pose proof (sio_load_none false s Hio Hovf Hinp ltac:(lia)) as Hsio. fold b in Hsio.
      rewrite Hsio in Hst. injection Hst as <- <-.
      assert (Ek16 : (List.length (firstn (16 * c) (skipn (d_pos d) (map Z.of_N input0))) < 16)%nat) by (rewrite Hgl; exact Hk16).
      destruct (M_io_load_dec_nodata c T input0 (wpcs _ s) d g x y Hdw Lw Hbu Hdo Heof Ek16) as (n & Hn & Hcs). rewrite <- Hio in Hcs.
      assert (Hn' : bnd n) by exact I.
      rewrite Egot in Hcs. rewrite map_length in Hcs. fold k in Hcs. rewrite Htu in Hcs. fold mb in Hcs.
      apply (sim_io_pack c T false input0 Hc HT Hbytes s d g _ _ n _ _ (I_SetReady 2) (wpcs _ s) _ Hdr Htg Hre Hsio Hn' Hcs).
      * reflexivity.
      * reflexivity.
      * rewrite nev_one by lia. replace (Z.of_nat (turn _ s) <? 0)%Z with false by (symmetry; apply Z.ltb_ge; lia). rewrite Nat2Z.id. reflexivity.
      * apply (drel_load false s d 2 _ _ _ _ true _ Hdr Hio); [|discriminate].
        replace (retired _ (turn _ s)) with true
          by (unfold retired; cbn [after_load io turn]; rewrite Nat.eqb_refl; cbn [andb]; rewrite orb_true_r; reflexivity).
        unfold brel, loaded. cbn [mb_st mb_fin mb_cells mb_tot mb_now]. rewrite map_length. fold k.
        split; [exact Est|]. split; [exact Efin|]. split; [rewrite upd_range_length; exact Elen|].
        split; [apply upd0_bytes; [apply bytes_byteZ; exact HbG | exact Eby | rewrite map_length, Elen; fold k; lia]|].
        right. split; [reflexivity|].
        replace (Z.of_nat k / 16)%Z with 0%Z by (symmetry; apply Z.div_small; lia).
        split; [lia|]. split; [lia|]. split; [lia|]. fold b in Hnt. lia.
      * apply (tg_ok_io T s g); [exact Htg|reflexivity|exact Hrb|exact I].
    + (* at least one block: FINAL *)
      replace (k / 16 =? 0)%nat with false in Hinp by (symmetry; apply Nat.eqb_neq; exact E0).
      pose proof (sio_load_some false s _ _ Hio Hovf Hinp) as Hsio. cbn [ld_final ld_total ld_data] in Hsio. fold b in Hsio.
      rewrite Hsio in Hst. injection Hst as <- <-.
      assert (Hk16 : (16 <= k)%nat) by (destruct (Nat.lt_ge_cases k 16) as [L|L]; [apply Nat.div_small in L; lia|exact L]).
      assert (Ek16 : (16 <= List.length (firstn (16 * c) (skipn (d_pos d) (map Z.of_N input0))))%nat) by (rewrite Hgl; exact Hk16).
      destruct (M_io_load_dec_short c T input0 (wpcs _ s) d g x y Hdw Lw Hbu Hdo Heof Ek' Ek16) as (n & Hn & Hcs). rewrite <- Hio in Hcs.
      assert (Hn' : bnd n) by exact I.
      rewrite Egot in Hcs. rewrite map_length in Hcs. fold k in Hcs. rewrite Htu in Hcs. fold mb in Hcs.
      apply (sim_io_pack c T false input0 Hc HT Hbytes s d g _ _ n _ _ (I_SetReady 1) (wpcs _ s) _ Hdr Htg Hre Hsio Hn' Hcs).
      * reflexivity.
      * reflexivity.
      * rewrite nev_one by lia. replace (Z.of_nat (turn _ s) <? 0)%Z with false by (symmetry; apply Z.ltb_ge; lia). rewrite Nat2Z.id. reflexivity.
      * apply (drel_load false s d 1 _ _ _ _ true _ Hdr Hio); [|discriminate].
        match goal with |- brel _ ?r _ _ => pose proof (Hbrel r true) as HB end.
        replace (mb_fin mb || true) with true in HB by (symmetry; apply orb_true_r). exact HB.
      * apply (tg_ok_io T s g); [exact Htg|reflexivity|exact Hrb|exact I].
Qed.

(* ---- I_Load, all cases ---- *)
Lemma sim_io_load : forall pad s cs s' evs, sim pad s cs -> io _ s = I_Load -> sio pad s = Some (s', evs) -> istep_goal pad s cs s' evs.
Proof.
  intros pad s cs s' evs Hsim Hio Hst. destruct (over _ s) eqn:Hov.
  - eapply sim_io_load_over; eassumption.
  - destruct pad; [eapply sim_io_load_enc | eapply sim_io_load_dec]; eassumption.
Qed.

End RelIO2.
