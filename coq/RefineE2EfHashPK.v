(* PARALLEL4 (H2): the NAMES theorem of RefineE2EfHashKeys.v for code WITH pointer-member assignments `SSetPtr (EField x) e`.
   The functions are split by calling context:
     CG "good":    the object prefix `pre s` starts with "rc.hm" or is `hobj n ++ y` with n < fresh s   (SSetPtr (EField x) allowed here only)
     CR "root":    pre s = "rc."  (no SSetPtr; a call on the member object `EField x` with x = "hm..." enters CG)
     CU "unknown": anything (no SSetPtr; constructors of SNewObj run in CG since their prefix is hobj (fresh s))
   Result: memory names as in exec_keys; a new pointer key is a class entry of a heap object or a key that starts with "rc.hm" or is
   `hobj n ++ y` with n below the final counter; pre is unchanged;
   a pointer key that is neither such a key nor a class entry keeps its value. *)
From Coq Require Import ZArith NArith List String Bool Lia Ascii Arith.
From Wencry Require Import MiniC MiniCLemmas RefineE2ENames RefineE2ERel RefineE2EEval RefineE2EFrame RefineE2EfWNames RefineE2EfHashMono RefineE2EfHashKeys.
Import ListNotations.
Local Open Scope list_scope.
Local Open Scope string_scope.

Inductive ctx := CG | CR | CU.

Lemma prefix_app_l : forall p a b, String.prefix p a = true -> String.prefix p (a ++ b) = true.
Proof.
  induction p as [|c p IH]; intros a b H; [destruct (a ++ b); reflexivity|].
  destruct a as [|c' a]; cbn [String.prefix] in H; [discriminate H|]. cbn [append String.prefix].
  destruct (Ascii.ascii_dec c c'); [apply IH, H|discriminate H].
Qed.
Lemma inb_app_l : forall k a b, inb k a = true -> inb k (a ++ b) = true.
Proof. intros k a b H. apply inb_In. apply in_or_app. left. apply inb_In, H. Qed.
Lemma inb_app_r : forall k a b, inb k b = true -> inb k (a ++ b) = true.
Proof. intros k a b H. apply inb_In. apply in_or_app. right. apply inb_In, H. Qed.

Lemma lget_lset_ne : forall A (l : list (string * A)) k k' v, k <> k' -> lget (lset l k' v) k = lget l k.
Proof.
  induction l as [|[k0 v0] l IH]; intros k k' v H; cbn [lget lset].
  - destruct (String.eqb_spec k k'); [contradiction|reflexivity].
  - destruct (String.eqb_spec k' k0) as [->|N0]; cbn [lget].
    + destruct (String.eqb_spec k k0); [contradiction|reflexivity].
    + destruct (String.eqb k k0); [reflexivity|apply IH, H].
Qed.
Lemma newk_mono2 : forall LN a b a' b' k, (a' <= a)%nat -> (b <= b')%nat -> newk LN a b k -> newk LN a' b' k.
Proof. intros LN a b a' b' k H1 H2 [H|(n & E & H)]; [left; exact H|right; exists n; split; [exact E|lia]]. Qed.

Section PK.
Variable prog : program.
Variable vt : list (string * string).
Variable FLg FLr FLu LN : list string.
Definition FLc (c : ctx) : list string := match c with CG => FLg | CR => FLr | CU => FLu end.
Definition FLall : list string := FLg ++ FLr ++ FLu.
Definition cctx (c : ctx) (this : option expr) : ctx :=
  match this with
  | None => c
  | Some (EField x) => match c with CG => CG | CR => if String.prefix "hm" x then CG else CU | CU => CU end
  | Some _ => CU
  end.
Fixpoint pk (c : ctx) (st : stmt) : bool :=
  match st with
  | SSeq a b => pk c a && pk c b
  | SIf _ a b => pk c a && pk c b
  | SLoop _ a b => pk c a && pk c b
  | SDoWhile a _ => pk c a
  | SCall _ g t _ => inb g (FLc (cctx c t))
  | SCallVirt _ m t _ => fvirt prog (FLc (cctx c t)) m
  | SNewObj _ _ _ (Some g) _ => inb g FLg
  | SPrim _ name _ => inb name ["fread"; "fseek"; "fwrite"; "strlen"]
  | SLocalArr x _ _ => inb x LN
  | SSetPtr (EField _) _ => match c with CG => true | _ => false end
  | SSetPtr _ _ | SSetPtrCell _ _ | SNewObjArr _ _ _ _ => false
  | _ => true
  end.
Hypothesis HFLc : forall c g fn, In g (FLc c) -> lget prog g = Some fn -> pk c (f_body fn) = true.

Lemma FLc_all : forall c g, inb g (FLc c) = true -> inb g FLall = true.
Proof. intros [| |] g H; unfold FLall; cbn [FLc] in H; [apply inb_app_l, H|apply inb_app_r, inb_app_l, H|apply inb_app_r, inb_app_r, H]. Qed.
Lemma fvirt_all : forall c m, fvirt prog (FLc c) m = true -> fvirt prog FLall m = true.
Proof.
  intros c m H. unfold fvirt in *. rewrite forallb_forall in *. intros x Hx. specialize (H x Hx).
  destruct (has_suffix ("::" ++ m) (fst x)); [apply (FLc_all c), H|reflexivity].
Qed.
Lemma pk_mok : forall c st, pk c st = true -> mok prog FLall [] st = true.
Proof.
  intros cx st. revert cx. induction st; intros cx K; cbn [pk mok] in *; try reflexivity; try discriminate K;
    try (apply andb_prop in K; destruct K as [K1 K2]; rewrite (IHst1 cx), (IHst2 cx) by assumption; reflexivity).
  - apply (IHst cx), K.
  - apply (FLc_all _ _ K).
  - apply (fvirt_all _ _ K).
  - exact K.
  - rewrite nosz_nil, andb_true_r. destruct ctor; [apply (FLc_all CG), K|reflexivity].
Qed.
Lemma HFLall : forall g fn, In g FLall -> lget prog g = Some fn -> mok prog FLall [] (f_body fn) = true.
Proof.
  intros g fn Hg L. unfold FLall in Hg. apply in_app_or in Hg. destruct Hg as [Hg|Hg]; [apply (pk_mok CG), (HFLc CG g fn Hg L)|].
  apply in_app_or in Hg. destruct Hg as [Hg|Hg]; [apply (pk_mok CR), (HFLc CR g fn Hg L)|apply (pk_mok CU), (HFLc CU g fn Hg L)].
Qed.

Definition GoodK (f : nat) (k : string) : Prop := String.prefix "rc.hm" k = true \/ (exists n y, k = hobj n ++ y /\ (n < f)%nat).
Definition ctxinv (c : ctx) (p : string) (f : nat) : Prop := match c with CG => GoodK f p | CR => p = "rc." | CU => True end.
Definition newp2 (f' : nat) (k : string) : Prop := (exists n, k = class_key (hobj n) /\ (n < f')%nat) \/ GoodK f' k.
Definition PF (s s' : state) : Prop :=
  forall k, ~ GoodK (fresh s') k -> (forall n, k <> class_key (hobj n)) -> lget (ptrs s') k = lget (ptrs s) k.
Definition KR2a (s s' : state) : Prop :=
  (fresh s <= fresh s')%nat /\ pre s' = pre s /\
  (exists ks, map fst (mem s') = (map fst (mem s) ++ ks)%list /\ Forall (newk LN (fresh s) (fresh s')) ks) /\
  (exists pks, map fst (ptrs s') = (map fst (ptrs s) ++ pks)%list /\ Forall (newp2 (fresh s')) pks).
Definition KR2 (s s' : state) : Prop := KR2a s s' /\ PF s s'.

Lemma GoodK_mono : forall a b k, (a <= b)%nat -> GoodK a k -> GoodK b k.
Proof. intros a b k L [H|(n & y & E & H)]; [left; exact H|right; exists n, y; split; [exact E|lia]]. Qed.
Lemma GoodK_app : forall f k x, GoodK f k -> GoodK f (k ++ x).
Proof.
  intros f k x [H|(n & y & E & H)]; [left; apply prefix_app_l, H|right; exists n, (y ++ x); split; [|exact H]].
  rewrite E. apply append_assoc_s.
Qed.
Lemma newp2_mono : forall a b k, (a <= b)%nat -> newp2 a k -> newp2 b k.
Proof. intros a b k L [(n & E & H)|H]; [left; exists n; split; [exact E|lia]|right; eapply GoodK_mono; eassumption]. Qed.
Lemma ctxinv_mono : forall c p a b, (a <= b)%nat -> ctxinv c p a -> ctxinv c p b.
Proof. intros [| |] p a b L H; cbn [ctxinv] in *; [eapply GoodK_mono; eassumption|exact H|exact I]. Qed.
Lemma KR2_refl : forall s, KR2 s s.
Proof. intro s. split; [|intros k _ _; reflexivity]. split; [lia|]. split; [reflexivity|]. split; exists []; (split; [now rewrite app_nil_r|constructor]). Qed.
Lemma KR2_trans : forall a b c, KR2 a b -> KR2 b c -> KR2 a c.
Proof.
  intros a b c ((A1 & A0 & (ks1 & A2 & A3) & (ps1 & A4 & A5)) & A6) ((B1 & B0 & (ks2 & B2 & B3) & (ps2 & B4 & B5)) & B6).
  split; [|intros k G Cn; rewrite (B6 k G Cn); apply A6; [intro G'; apply G; eapply GoodK_mono; eassumption|exact Cn]].
  split; [lia|]. split; [congruence|]. split.
  - exists (ks1 ++ ks2)%list. split; [rewrite B2, A2, app_assoc; reflexivity|]. apply Forall_app. split.
    + eapply Forall_impl; [|exact A3]. intros k. apply newk_mono2; lia.
    + eapply Forall_impl; [|exact B3]. intros k. apply newk_mono2; lia.
  - exists (ps1 ++ ps2)%list. split; [rewrite B4, A4, app_assoc; reflexivity|]. apply Forall_app. split.
    + eapply Forall_impl; [|exact A5]. intros k. apply newp2_mono; lia.
    + exact B5.
Qed.
Lemma KR2_same : forall s s', map fst (mem s') = map fst (mem s) -> ptrs s' = ptrs s -> fresh s' = fresh s -> pre s' = pre s -> KR2 s s'.
Proof.
  intros s s' Hm Hp Hf Hq. unfold KR2, KR2a, PF. rewrite Hm, Hp, Hf, Hq. split; [|intros k _ _; reflexivity]. split; [lia|]. split; [reflexivity|]. split; exists []; (split; [now rewrite app_nil_r|constructor]).
Qed.

Lemma memcpy_pre : forall s d sr n s', do_memcpy s d sr n = Ok s' -> pre s' = pre s.
Proof.
  intros s d sr n s' H. unfold do_memcpy in H. destruct d as [|od offd|]; try discriminate. destruct sr as [|os offs|]; try discriminate.
  destruct (mget (mem s) od) eqn:E1; [|discriminate]. destruct (mget (mem s) os); [|discriminate].
  repeat match type of H with (if ?c then _ else _) = _ => destruct c; [discriminate|] end. injection H as <-. reflexivity.
Qed.
Lemma memset_pre : forall s d v n s', do_memset s d v n = Ok s' -> pre s' = pre s.
Proof.
  intros s d v n s' H. unfold do_memset in H. destruct d as [|od offd|]; try discriminate.
  destruct (mget (mem s) od) eqn:E1; [|discriminate].
  repeat match type of H with (if ?c then _ else _) = _ => destruct c; [discriminate|] end. injection H as <-. reflexivity.
Qed.

Theorem exec_pk : forall fuel c st s o s', pk c st = true -> ctxinv c (pre s) (fresh s) -> exec prog vt fuel st s = Ok (o, s') -> NA s' -> KR2 s s'.
Proof.
  induction fuel as [|fuel IH]; intros c st s o s' K CI H N; [discriminate H|].
  pose proof (NA_grow _ _ (exec_grow prog vt FLall [] HFLall _ _ _ _ _ (pk_mok _ _ K) H) N) as N0.
  assert (CALL : forall c' ret g pfx vs o0 s0, In g (FLc c') -> ctxinv c' pfx (fresh s) -> NA s0 ->
    match lget prog g with
    | None => UB ("no function " ++ g)%string
    | Some f => do l <- bind_params (f_params f) vs;
                do r1 <- exec prog vt fuel (f_body f) {| mem := mem s; loc := l; pre := pfx; files := files s; ptrs := ptrs s; fresh := fresh s |};
                let '(o, s1) := r1 in
                do s2 <- set_ret {| mem := mem s1; loc := loc s; pre := pre s; files := files s1; ptrs := ptrs s1; fresh := fresh s1 |} ret
                                 (match o with Returned v => v | _ => None end);
                Ok (Normal, s2)
    end = Ok (o0, s0) -> KR2 s s0).
  { intros c' ret g pfx vs o0 s0 Hg Hci Ns0 Hc. destruct (lget prog g) as [fn|] eqn:L; [|discriminate Hc].
    bo Hc as l El. bo Hc as r1 E1. destruct r1 as [o1 s1]. bo Hc as s2 E2. injection Hc as _ <-.
    destruct (set_ret_same _ _ _ _ E2) as (A & B & D & _ & P). cbn [ptrs fresh mem pre] in A, B, D, P.
    assert (N1 : NA s1) by (intro c0; rewrite <- A; apply Ns0).
    pose proof (fun X => IH c' _ _ _ _ (HFLc c' g fn Hg L) X E1 N1) as Q. specialize (Q Hci). unfold KR2, KR2a, PF in *. cbn [mem ptrs fresh pre] in Q. rewrite A, B, D, P.
    destruct Q as ((Q1 & _ & Q3 & Q4) & Q5). split; [|exact Q5]. split; [exact Q1|]. split; [reflexivity|]. split; assumption. }
  assert (THIS : forall this pfx, this_prefix s this = Ok pfx -> ctxinv (cctx c this) pfx (fresh s)).
  { intros this pfx Ht. unfold this_prefix in Ht. destruct this as [e|]; [|injection Ht as <-; exact CI].
    bo Ht as v Ev. destruct v as [|ob off|]; try discriminate Ht. injection Ht as <-.
    destruct e; try exact I. cbn [eval] in Ev. injection Ev as <- _. cbn [cctx].
    destruct c; cbn [ctxinv] in *; [apply GoodK_app, CI| |exact I].
    destruct (String.prefix "hm" f) eqn:Eh; [|exact I]. cbn [ctxinv]. left. rewrite CI. cbn [append String.prefix]. exact Eh. }
  destruct st; cbn [pk] in K; try discriminate K; cbn [exec] in H.
  - injection H as _ <-. apply KR2_refl.
  - apply andb_prop in K. destruct K as [K1 K2]. bo H as r1 E1. destruct r1 as [o1 s1].
    destruct o1.
    + pose proof (NA_grow _ _ (exec_grow prog vt FLall [] HFLall _ _ _ _ _ (pk_mok _ _ K2) H) N) as N1.
      pose proof (IH c st1 _ _ _ K1 CI E1 N1) as Q1.
      eapply KR2_trans; [exact Q1|]. destruct Q1 as ((F1 & P1 & _) & _).
      eapply (IH c st2); [exact K2| |exact H|exact N]. rewrite P1. eapply ctxinv_mono; eassumption.
    + injection H as _ <-. eapply (IH c st1); [exact K1|exact CI|exact E1|exact N].
    + injection H as _ <-. eapply (IH c st1); [exact K1|exact CI|exact E1|exact N].
  - bo H as v Ev. injection H as _ <-. apply KR2_same; reflexivity.
  - bo H as pv Ep. bo H as ev Ee. bo H as z Ez. destruct pv as [|ob off|]; try discriminate H. destruct (mget (mem s) ob) eqn:Eo; [|discriminate H].
    bo H as ob' Es. injection H as _ <-. apply KR2_same; try reflexivity. cbn [with_mem mem]. eapply mset_keys_some, Eo.
  - apply andb_prop in K. destruct K as [K1 K2]. bo H as cv Ec. bo H as x Ex. destruct (x =? 0)%Z; [eapply (IH c); [exact K2|exact CI|exact H|exact N]|eapply (IH c); [exact K1|exact CI|exact H|exact N]].
  - pose proof K as K0. apply andb_prop in K. destruct K as [K1 K2]. bo H as cv Ec. bo H as x Ex.
    destruct (x =? 0)%Z; [injection H as _ <-; apply KR2_refl|].
    bo H as r1 E1. destruct r1 as [o1 s1].
    destruct o1; [|injection H as _ <-; eapply (IH c st1); [exact K1|exact CI|exact E1|exact N]|injection H as _ <-; eapply (IH c st1); [exact K1|exact CI|exact E1|exact N]].
    bo H as r2 E2. destruct r2 as [o2 s2]. destruct o2; try discriminate H.
    assert (K0' : pk c (SLoop c0 st1 st2) = true) by exact K0.
    pose proof (NA_grow _ _ (exec_grow prog vt FLall [] HFLall _ (SLoop c0 st1 st2) _ _ _ (pk_mok _ _ K0') H) N) as N2.
    pose proof (NA_grow _ _ (exec_grow prog vt FLall [] HFLall _ _ _ _ _ (pk_mok _ _ K2) E2) N2) as N1.
    pose proof (IH c st1 _ _ _ K1 CI E1 N1) as Q1. pose proof Q1 as ((F1 & P1 & _) & _).
    assert (CI1 : ctxinv c (pre s1) (fresh s1)) by (rewrite P1; eapply ctxinv_mono; eassumption).
    pose proof (IH c st2 _ _ _ K2 CI1 E2 N2) as Q2. pose proof Q2 as ((F2 & P2 & _) & _).
    assert (CI2 : ctxinv c (pre s2) (fresh s2)) by (rewrite P2; eapply ctxinv_mono; eassumption).
    eapply KR2_trans; [exact Q1|]. eapply KR2_trans; [exact Q2|].
    eapply (IH c (SLoop c0 st1 st2)); [exact K0'|exact CI2|exact H|exact N].
  - bo H as r1 E1. destruct r1 as [o1 s1].
    destruct o1; [|injection H as _ <-; eapply (IH c st); [exact K|exact CI|exact E1|exact N]|injection H as _ <-; eapply (IH c st); [exact K|exact CI|exact E1|exact N]].
    bo H as cv Ec. bo H as x Ex. destruct (x =? 0)%Z; [injection H as _ <-; eapply (IH c st); [exact K|exact CI|exact E1|exact N]|].
    assert (K0' : pk c (SDoWhile st c0) = true) by exact K.
    pose proof (NA_grow _ _ (exec_grow prog vt FLall [] HFLall _ (SDoWhile st c0) _ _ _ (pk_mok _ _ K0') H) N) as N1.
    pose proof (IH c st _ _ _ K CI E1 N1) as Q1. pose proof Q1 as ((F1 & P1 & _) & _).
    assert (CI1 : ctxinv c (pre s1) (fresh s1)) by (rewrite P1; eapply ctxinv_mono; eassumption).
    eapply KR2_trans; [exact Q1|]. eapply (IH c (SDoWhile st c0)); [exact K0'|exact CI1|exact H|exact N].
  - injection H as _ <-. apply KR2_refl.
  - destruct e; [bo H as v Ev|]; injection H as _ <-; apply KR2_refl.
  - bo H as vs Evs. bo H as pfx Epf. eapply (CALL (cctx c this)); [apply inb_In, K|apply THIS, Epf|exact N|exact H].
  - bo H as vs Evs. bo H as pfx Epf.
    destruct (lget vt pfx) as [cls|].
    + destruct (lget prog (cls ++ "::" ++ m)) as [fn|] eqn:L; [|discriminate H].
      eapply (CALL (cctx c this) ret (cls ++ "::" ++ m)); [eapply fvirt_in; eassumption|apply THIS, Epf|exact N|rewrite L; exact H].
    + destruct (lget (ptrs s) (class_key pfx)) as [[z|cls off|]|]; try discriminate H.
      destruct (lget prog (cls ++ "::" ++ m)) as [fn|] eqn:L; [|discriminate H].
      eapply (CALL (cctx c this) ret (cls ++ "::" ++ m)); [eapply fvirt_in; eassumption|apply THIS, Epf|exact N|rewrite L; exact H].
  - bo H as dv Ed. bo H as sv Es. bo H as nv En. bo H as k Ek. bo H as s1 Em. injection H as _ <-.
    destruct (memcpy_keys _ _ _ _ _ Em) as (A & B & D). apply KR2_same; try assumption. eapply memcpy_pre, Em.
  - bo H as dv Ed. bo H as vv Ev. bo H as x Ex. bo H as nv En. bo H as k Ek. bo H as s1 Em. injection H as _ <-.
    destruct (memset_keys _ _ _ _ _ Em) as (A & B & D). apply KR2_same; try assumption. eapply memset_pre, Em.
  - (* SLocalArr *)
    injection H as _ <-. split; [|intros k0 _ _; reflexivity]. split; [cbn [with_mem fresh]; lia|]. split; [reflexivity|]. split; [|exists []; split; [now rewrite app_nil_r|constructor]].
    cbn [with_mem mem fresh]. destruct (mget (mem s) ("%" ++ x)) as [ob|] eqn:Eo.
    + exists []. rewrite app_nil_r. split; [eapply mset_keys_some, Eo|constructor].
    + exists ["%" ++ x]. split; [apply mset_keys_none, Eo|]. constructor; [|constructor]. left. exists x. split; [reflexivity|apply inb_In, K].
  - (* SNew *)
    bo H as nv En. bo H as k Ek. destruct (k <? 0)%Z; [discriminate H|]. injection H as _ <-.
    split; [|intros k0 _ _; reflexivity]. split; [cbn [fresh]; lia|]. split; [reflexivity|]. split; [|exists []; split; [now rewrite app_nil_r|constructor]].
    cbn [mem fresh]. change ("#" ++ nat_string (fresh s)) with (heap_name (fresh s)).
    destruct (mget (mem s) (heap_name (fresh s))) as [ob|] eqn:Eo.
    + exists []. rewrite app_nil_r. split; [eapply mset_keys_some, Eo|constructor].
    + exists [heap_name (fresh s)]. split; [apply mset_keys_none, Eo|]. constructor; [|constructor]. right. exists (fresh s). split; [apply hnum_heap|lia].
  - bo H as pv Ep. injection H as _ <-. apply KR2_refl.
  - bo H as vs Evs. bo H as r Er. destruct r as [v s1]. bo H as s2 E2. injection H as _ <-.
    destruct (prim_ptrs _ _ _ _ _ K Er) as (A & B & _ & P & _). destruct (set_ret_same _ _ _ _ E2) as (A2 & B2 & D2 & _ & P2).
    apply KR2_same; [rewrite D2; eapply prim_keys; eassumption|congruence|congruence|congruence].
  - (* SSetPtr (EField x) *)
    destruct p; try discriminate K. destruct c; try discriminate K. cbn [eval] in H. cbn [bind] in H.
    bo H as ev Ee. injection H as _ <-. unfold with_ptrs.
    split; [|intros k0 G0 _; cbn [ptrs fresh] in *; apply lget_lset_ne; intro E0; apply G0; rewrite E0; apply GoodK_app; exact CI].
    split; [cbn [fresh]; lia|]. split; [reflexivity|]. split; [exists []; split; [now rewrite app_nil_r|constructor]|].
    cbn [ptrs fresh]. destruct (lget (ptrs s) (pre s ++ f)) as [w|] eqn:Ec.
    + exists []. rewrite app_nil_r. split; [eapply lset_keys, Ec|constructor].
    + exists [pre s ++ f]. split; [apply lset_keys_none, Ec|]. constructor; [|constructor]. right. apply GoodK_app. exact CI.
  - (* SNewObj *)
    bo H as vs Evs. rewrite (N0 cls) in H.
    match type of H with (if negb ?b then _ else _) = _ => destruct (negb b); [discriminate H|] end.
    change ("#" ++ nat_string (fresh s) ++ ".") with (hobj (fresh s)) in H.
    set (name := hobj (fresh s)) in *.
    assert (K0 : KR2 s {| mem := alloc_objs cls name objs (mem s); loc := lset (loc s) x (VPtr name 0); pre := pre s; files := files s;
                         ptrs := lset (ptrs s) (class_key name) (VPtr cls 0); fresh := Datatypes.S (fresh s) |}).
    { split; [|intros k0 _ Cn; cbn [ptrs]; apply lget_lset_ne; apply Cn].
      split; [cbn [fresh]; lia|]. split; [reflexivity|]. cbn [mem ptrs fresh]. split.
      - destruct (alloc_keys cls name objs (mem s)) as (ks & E & F). exists ks. split; [exact E|].
        eapply Forall_impl; [|exact F]. intros k [y ->]. right. exists (fresh s). split; [apply hnum_hobj'|lia].
      - destruct (lget (ptrs s) (class_key name)) as [w|] eqn:Ec.
        + exists []. rewrite app_nil_r. split; [eapply lset_keys, Ec|constructor].
        + exists [class_key name]. split; [apply lset_keys_none, Ec|]. constructor; [|constructor]. left. exists (fresh s). split; [reflexivity|lia]. }
    destruct ctor as [g|].
    + destruct (lget prog g) as [fn|] eqn:L; [|discriminate H]. bo H as l El. bo H as r1 E1. destruct r1 as [o1 s1]. injection H as _ <-.
      assert (N1 : NA s1) by (intro c0; apply (N c0)).
      assert (CIg : ctxinv CG name (Datatypes.S (fresh s))).
      { cbn [ctxinv]. right. exists (fresh s), "". split; [unfold name; rewrite append_nil_r; reflexivity|lia]. }
      pose proof (fun X => IH CG _ _ _ _ (HFLc CG g fn (proj1 (inb_In _ _) K) L) X E1 N1) as Q. specialize (Q CIg).
      eapply KR2_trans; [exact K0|]. clear K0. unfold KR2, KR2a, PF in *. cbn [mem ptrs fresh pre] in *.
      destruct Q as ((Q1 & _ & Q3 & Q4) & Q5). split; [|exact Q5]. split; [exact Q1|]. split; [reflexivity|]. split; assumption.
    + injection H as _ <-. exact K0.
Qed.

Lemma call_pk : forall fuel c g pfx vs s v s', In g (FLc c) -> ctxinv c pfx (fresh s) -> call prog vt fuel g pfx vs s = Ok (v, s') -> NA s' ->
  (fresh s <= fresh s')%nat /\
  (exists ks, map fst (mem s') = (map fst (mem s) ++ ks)%list /\ Forall (newk LN (fresh s) (fresh s')) ks) /\
  (exists pks, map fst (ptrs s') = (map fst (ptrs s) ++ pks)%list /\ Forall (newp2 (fresh s')) pks) /\
  (forall k, ~ GoodK (fresh s') k -> (forall n, k <> class_key (hobj n)) -> lget (ptrs s') k = lget (ptrs s) k).
Proof.
  intros fuel c g pfx vs s v s' Hg CI H N. unfold call in H. destruct (lget prog g) as [fn|] eqn:L; [|discriminate H].
  bo H as l El. bo H as r1 E1. destruct r1 as [o1 s1]. injection H as _ <-.
  assert (N1 : NA s1) by (intro c0; apply (N c0)).
  pose proof (fun X => exec_pk _ c _ _ _ _ (HFLc c g fn Hg L) X E1 N1) as Q. specialize (Q CI). unfold KR2, KR2a, PF in *. cbn [mem ptrs fresh pre] in *.
  destruct Q as ((Q1 & _ & Q3 & Q4) & Q5). split; [exact Q1|]. split; [exact Q3|]. split; [exact Q4|exact Q5].
Qed.
End PK.

Print Assumptions call_pk.
