(* PARALLEL4 (H2), D2: RefineE2EfSetup1D.dec_prepare_IV0_spec -- runcrypt::prepare_IV/0 after an accepting verify:
   iv = new u8_t[THREAD_MAX * 20]; header.getIV(fin, iv) = { fseek(fin, 48); fread(iv, 1, 20 * num, fin) }; return iv.
   Direct execution; the fread may be partial (FileModel.dec allows files shorter than text_mark T), at least 20 >= 16 bytes arrive. *)
From Coq Require Import ZArith NArith List String Bool Lia PeanoNat Ascii.
From Wencry Require Import Bytes ModesModel HashModel FileModel FileProps MiniC MiniCRun MiniCLemmas SrcRun SrcRun2 SrcRun5 RefineE2EWhole RefineE2ENames
     RefineE2EfLay RefineE2EfTac RefineE2EfWNames RefineE2EfHashSpec RefineE2EfHashB3 RefineE2EfSetup1 RefineE2EfSetup2Spec RefineE2EfDecSpec RefineE2EfSetup1D.
From Wencry Require RefineFileBase RefineConcMem RefineE2EfSetup2TailD.
From Wencry.Gen Require Src_cry Src_fheader.
Import ListNotations.
Local Open Scope string_scope.
Local Open Scope list_scope.

Lemma mset_last : forall (M : memory) k o o', mget M k = None -> mset (M ++ [(k, o)]) k o' = M ++ [(k, o')].
Proof.
  induction M as [|[k0 o0] M IH]; intros k o o' H; cbn [mget mset app] in *.
  - rewrite String.eqb_refl. reflexivity.
  - destruct (String.eqb k k0); [discriminate|]. f_equal. apply IH, H.
Qed.
Lemma mset_fresh : forall (M : memory) k o, mget M k = None -> mset M k o = M ++ [(k, o)].
Proof.
  induction M as [|[k0 o0] M IH]; intros k o H; cbn [mget mset app] in *; [reflexivity|].
  destruct (String.eqb k k0); [discriminate|]. f_equal. apply IH, H.
Qed.
Lemma mget_last : forall (M : memory) k o, mget M k = None -> mget (M ++ [(k, o)]) k = Some o.
Proof. intros. rewrite RefineConcMem.mget_app, H. cbn [mget]. rewrite String.eqb_refl. reflexivity. Qed.

Lemma firstn_firstn_le : forall A (l : list A) a b, (a <= b)%nat -> firstn a (firstn b l) = firstn a l.
Proof. intros. rewrite firstn_firstn. f_equal. lia. Qed.

Lemma fin_whole : lget whole_prog "runcrypt::prepare_IV/0" = Some Src_cry.f_runcrypt_prepare_IV_0.
Proof. vm_compute. reflexivity. Qed.
Lemma getiv_whole : lget whole_prog "FileHeader::getIV/2@FILE" = Some Src_fheader.f_FileHeader_getIV_2_FILE.
Proof. vm_compute. reflexivity. Qed.

Theorem dec_prepare_IV0_ok : dec_prepare_IV0_spec.
Proof.
  unfold dec_prepare_IV0_spec.
  intros c hbuf T F key l h1 extra1 pextra1 p1 e1 HT HF Hlen Hh1 Hx1 Hp1 Hs1 Ha1.
  set (MV := (M1dd c hbuf T F key ++ extra1)%list).
  set (PV := (PS1 ++ pextra1)%list).
  set (ivn := heap_name h1).
  set (Fz := map Z.of_N F).
  set (k := Nat.min (20 * T) (List.length F - 48)).
  set (got := firstn k (skipn 48 Fz)).
  assert (Hk : (16 <= k <= 320)%nat) by (unfold k, hmac_mark in *; lia).
  assert (Lgot : List.length got = k).
  { unfold got. rewrite firstn_length, skipn_length. unfold Fz. rewrite map_length. unfold k. lia. }
  set (ivo := {| o_ty := U8; o_cells := got ++ repeat 0%Z (320 - k) |}).
  (* the new name is free *)
  assert (Hfree : mget MV ivn = None).
  { unfold MV, M1dd. rewrite !RefineConcMem.mget_app.
    destruct (mget (memA_d hbuf F key c T) ivn) eqn:Q.
    { exfalso. exact (RefineE2EfSetup2TailD.keysAd_hash c hbuf T F key _ _ Q). }
    cbn [mget]. change (String.eqb ivn "live_num") with false. cbv iota.
    destruct (String.eqb_spec ivn "#0") as [E|_].
    { exfalso. change "#0" with (heap_name 0) in E. apply heap_name_inj in E. lia. }
    assert (Hb : forallb (fun kv => below h1 (fst kv)) extra1 = true).
    { unfold ext_mem_ok in Hx1. rewrite forallb_forall in *. intros x Hx. specialize (Hx1 x Hx). rewrite !andb_true_iff in Hx1. tauto. }
    exact (mget_below h1 extra1 (heap_name h1) h1 Hb (hnum_heap h1) (le_n _)). }
  exists 10%nat, ivo, (48 + k)%nat, (Z.of_nat k <? 20 * Z.of_nat T)%Z.
  split.
  2:{ split; [reflexivity|]. split.
      { cbn [ivo o_cells]. rewrite app_length, repeat_length. lia. }
      cbn [ivo o_cells]. rewrite firstn_app. replace (16 - List.length got)%nat with 0%nat by lia. rewrite firstn_O, app_nil_r.
      unfold got. rewrite firstn_firstn_le by lia. unfold Fz. rewrite <- firstn_map. rewrite <- skipn_map. reflexivity. }
  unfold call. rewrite fin_whole. cbn [f_params Src_cry.f_runcrypt_prepare_IV_0 bind_params bind mem loc pre files ptrs fresh f_body].
  fold MV. fold PV.
  (* iv = new u8_t[THREAD_MAX * 20] *)
  rewrite exec_seq, (RefineFileBase.x_new whole_prog []). cbn [eval bind as_int mem loc pre files ptrs fresh].
  replace (mget MV "THREAD_MAX") with (Some (RefineE2EfLay.cell U8 16)) by reflexivity.
  rewrite load_cell. cbn [bind as_int]. change (wrap U8 16) with 16%Z. change (wrap I32 16) with 16%Z.
  cbn [eval_bin bind as_int]. rewrite arith_I32_small by lia. cbn [bind as_int]. change (wrap U64 (16 * 20)) with 320%Z.
  cbn [bind as_int]. change (320 <? 0)%Z with false. cbv iota. fold ivn.
  rewrite (mset_fresh MV ivn _ Hfree). change (Z.to_nat 320) with 320%nat.
  set (l1 := lset [] "iv" (VPtr ivn 0)).
  (* header.getIV(fin, iv) *)
  set (s1 := {| mem := MV ++ [(ivn, {| o_ty := U8; o_cells := repeat 0%Z 320 |})]; loc := l1; pre := "rc."; files := fs_d F p1 e1; ptrs := PV; fresh := S h1 |}).
  set (s2 := {| mem := MV ++ [(ivn, ivo)]; loc := l1; pre := "rc."; files := fs_d F (48 + k) (Z.of_nat k <? 20 * Z.of_nat T)%Z; ptrs := PV; fresh := S h1 |}).
  cbn [bind]. rewrite exec_seq.
  rewrite (RefineFileBase.x_scall whole_prog [] 7 None "FileHeader::getIV/2@FILE" (Some (EField "header.")) [EPtrVar (EField "fin"); EVar "iv"]
             s1 [VPtr "fin" 0; VPtr ivn 0] "rc.header." None s2 s2).
  - cbn [bind]. rewrite (RefineFileBase.x_return whole_prog []). cbn [eval bind loc s2 l1 lset lget String.eqb Ascii.eqb Bool.eqb].
    cbn [mem files ptrs fresh pre loc]. reflexivity.
  - cbn [eval_list eval bind loc pre ptrs s1 append]. replace (lget PV "rc.fin") with (Some (VPtr "fin" 0)) by reflexivity. reflexivity.
  - reflexivity.
  - unfold call. rewrite getiv_whole. cbn [f_params Src_fheader.f_FileHeader_getIV_2_FILE bind_params bind mem loc pre files ptrs fresh f_body s1].
    (* fseek(fp, 48, 0) *)
    rewrite exec_seq, (RefineFileBase.x_prim whole_prog []). cbn [eval_list eval bind loc lget String.eqb Ascii.eqb Bool.eqb as_int].
    change (wrap I64 48) with 48%Z. cbn [bind].
    unfold do_prim at 1. cbn [String.eqb Ascii.eqb Bool.eqb stream_of bind files fs_d lget cf_data lset Z.ltb Z.compare orb set_ret with_files mem loc pre ptrs fresh].
    change (2 ^ 40 <? 48)%Z with false. cbv iota. change (Z.to_nat 48) with 48%nat. unfold with_files. cbn [bind mem loc pre files ptrs fresh].
    (* fread(iv, 1, 20 * num, fp) *)
    rewrite (RefineFileBase.x_prim whole_prog []). cbn [eval_list eval bind loc lget String.eqb Ascii.eqb Bool.eqb as_int pre mem append].
    replace (mget (MV ++ [(ivn, {| o_ty := U8; o_cells := repeat 0%Z 320 |})]) "rc.header.num") with (Some (RefineE2EfLay.cell U8 (Z.of_nat T))) by reflexivity.
    rewrite load_cell. cbn [bind as_int]. rewrite wrap_U8_small by lia. change (wrap U64 1) with 1%Z. rewrite wrap_I32_small by lia.
    cbn [eval_bin bind as_int]. rewrite arith_I32_small by lia. cbn [bind as_int]. rewrite (wrap_U64_small (20 * Z.of_nat T)) by lia.
    cbn [bind].
    unfold do_prim. cbn [String.eqb Ascii.eqb Bool.eqb stream_of bind files lget mem].
    rewrite (mget_last MV ivn _ Hfree). cbn [o_ty cf_data cf_pos cf_eof o_cells]. change (negb (ity_bytes U8 =? 1)%Z) with false. cbv iota.
    destruct (Z.ltb_spec (20 * Z.of_nat T) 0) as [|_]; [lia|]. cbn [orb Z.ltb Z.compare].
    fold Fz.
    assert (Eg : firstn (Z.to_nat (Z.min (20 * Z.of_nat T) (Z.of_nat (List.length Fz) - Z.of_nat 48))) (skipn 48 Fz) = got).
    { unfold got. f_equal. unfold k, Fz. rewrite map_length. unfold hmac_mark in Hlen. lia. }
    rewrite Eg, Lgot, repeat_length.
    destruct (Z.ltb_spec (Z.of_nat 320) (0 + Z.of_nat k)) as [|_]; [lia|].
    cbn [set_ret with_files with_mem mem loc pre files ptrs fresh lset String.eqb Ascii.eqb Bool.eqb bind orb].
    rewrite (mset_last MV ivn _ _ Hfree).
    change (Z.to_nat 0) with (List.length (@nil Z)).
    replace (repeat 0%Z 320) with (@nil Z ++ repeat 0%Z 320) by reflexivity.
    rewrite (upd_range_app got [] (repeat 0%Z 320)) by (rewrite repeat_length; lia).
    rewrite Lgot. cbn [app].
    assert (Er : skipn k (repeat 0%Z 320) = repeat 0%Z (320 - k)).
    { replace 320%nat with (k + (320 - k))%nat at 1 by lia. rewrite repeat_app. rewrite skipn_app, repeat_length, Nat.sub_diag. cbn [skipn].
      rewrite skipn_all2 by (rewrite repeat_length; lia). reflexivity. }
    rewrite Er. unfold s2, ivo, fs_d. reflexivity.
  - reflexivity.
Qed.
Print Assumptions dec_prepare_IV0_ok.
