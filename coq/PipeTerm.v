(* Termination bound for PipeConc: a potential function that strictly decreases at every step of a
   reachable state (uses the invariant of PipeInv.v only to know that a woken thread finds its
   condition true, that live >= 1 when a buffer is retired, and the list lengths). *)
From Wencry Require Import Bytes FileModel PipeConc PipeProps PipeLemmas PipeInv.
From Coq Require Import ZifyNat.
Local Open Scope nat_scope.

Definition wrank (w : wpc) : nat :=
  match w with
  | W_Done => 0 | W_Cmp => 1 | W_Awake false => 2 | W_Asleep false => 3 | W_WaitReady => 4
  | W_SetUpdate => 5 | W_Get => 6 | W_Awake true => 7 | W_Asleep true => 8 | W_Start => 9 | W_New => 10
  end.
Definition irank (T : nat) (p : ipc) : nat :=
  match p with
  | I_WaitUpdate => T + 9 | I_Asleep => T + 8 | I_Awake => T + 7 | I_Cmp => T + 6 | I_Export => T + 5
  | I_Load => T + 4 | I_SetReady x => if x =? 2 then T + 3 else T + 11 | I_Turn => T + 10
  | I_Join k => T - k + 1 | I_Done => 0
  end.
Definition sumf {A} (f : A -> nat) (l : list A) : nat := fold_right (fun a acc => f a + acc) 0 l.
Definition brem (b : buf) : nat := b_total b - b_now b.

Lemma sumf_set_nth {A} (f : A -> nat) (d x : A) : forall i l, i < length l ->
  sumf f (set_nth i x l) + f (nth i l d) = sumf f l + f x.
Proof.
  induction i as [|i IH]; intros [|y l] Hl; cbn [length] in Hl; try lia; cbn [set_nth nth sumf fold_right].
  - lia.
  - specialize (IH l ltac:(lia)). unfold sumf in IH. lia.
Qed.

Lemma list_upd_eq {A} (d : A) i : forall l l', length l' = length l -> i < length l ->
  (forall k, k <> i -> nth k l' d = nth k l d) -> l' = set_nth i (nth i l' d) l.
Proof.
  intros l l' Hlen Hi Hoth. apply (nth_ext _ _ d d).
  - rewrite set_nth_length. exact Hlen.
  - intros k Hk. destruct (Nat.eq_dec k i) as [->|Hne].
    + rewrite nth_set_nth_eq by exact Hi. reflexivity.
    + rewrite nth_set_nth_neq by congruence. apply Hoth. exact Hne.
Qed.

Section Term.
Variable S : Type.
Variable tr : S -> list N -> S * list N.
Variable tr_event : nat -> S -> list event.
Variable c : nat.
Variable ispadding : bool.
Variable T : nat.
Variable sigma0 : list S.
Variable ls : list load.
Variable dS : S.
Hypothesis HT : 1 <= T.
Hypothesis Hsig : length sigma0 = T.
Hypothesis Hwf : wf_loads ls.

Notation state := (state S).
Notation getb := (getb S).
Notation getw := (getw S).
Notation InvQR := (InvQR S tr c ispadding T sigma0 ls dS).
Notation BufInv := (BufInv S tr c ispadding T sigma0 ls dS).
Notation IdleInv := (IdleInv S tr c ispadding T sigma0 ls dS).

Definition Phi (s : state) : nat :=
  8 * (length (input S s) + live S s) + irank T (io S s) +
  6 * (sumf ld_total (input S s) + sumf brem (bufs S s)) + sumf wrank (wpcs S s).

(* a woken worker finds its buffer READY or INV *)
Lemma BufInv_awake n o i b f x : BufInv n o i b (W_Awake f) x -> ready_or_inv (b_st b) = true.
Proof.
  intros Hb. destruct (is_own o) eqn:Eo.
  - apply BufInv_own in Hb; [|exact Eo]. destruct Hb as (p & _ & _ & Hc & _). exfalso.
    unfold own_ctl in Hc. destruct n; destruct Hc as [_ Hc]; exact Hc.
  - apply BufInv_idle in Hb; [|exact Eo]. destruct Hb as [Hb _].
    unfold PipeInv.IdleInv in Hb. destruct n as [|n'].
    + destruct Hb as (_ & _ & _ & _ & Hf & _). contradiction.
    + destruct (n' * T + i <? m ls).
      * destruct Hb as [_ Hc]. unfold hold_ctl in Hc. destruct (b_st b); try contradiction; try reflexivity.
        destruct Hc as [Hc _]. contradiction.
      * destruct Hb as (Hs & _). rewrite Hs. reflexivity.
Qed.

Lemma wlocal_decr n o i b w x b' w' x' wk :
  BufInv n o i b w x -> wlocal S tr b w x = Some (b', w', x', wk) ->
  6 * brem b' + wrank w' < 6 * brem b + wrank w.
Proof.
  intros Hb H. unfold wlocal in H. destruct w as [| | | | |f|f| |]; try discriminate.
  - injection H as <- <- <- <-. cbn. lia.
  - injection H as <- <- <- <-. unfold wait_pc. destruct (ready_or_inv (b_st b)); cbn; lia.
  - destruct (b_now b <? b_total b) eqn:E; injection H as <- <- <- <-.
    + apply Nat.ltb_lt in E. unfold brem, take_b. cbn. lia.
    + cbn. lia.
  - destruct (b_st b); injection H as <- <- <- <-; unfold brem; cbn; lia.
  - injection H as <- <- <- <-. unfold wait_pc. destruct (ready_or_inv (b_st b)); cbn; lia.
  - apply BufInv_awake in Hb. injection H as <- <- <- <-. unfold wait_pc. rewrite Hb. destruct f; cbn; lia.
  - destruct (b_st b); try (injection H as <- <- <- <-; cbn; lia).
    destruct (b_now b <? b_total b) eqn:E; injection H as <- <- <- <-.
    + apply Nat.ltb_lt in E. unfold brem, take_b. cbn. lia.
    + cbn. lia.
Qed.

Lemma irank_wake p t i (wk : bool) : irank T (if wk then wake_p p t i else p) <= irank T p.
Proof.
  destruct wk; [|lia]. unfold wake_p. destruct p; try lia. destruct (t =? i); cbn; lia.
Qed.

Lemma phi_worker q r s i s' evs :
  InvQR q r s -> i < T -> step_worker S tr tr_event s i = Some (s', evs) -> Phi s' < Phi s.
Proof.
  intros (Lb & Lw & Lx & Hr & Ht & Hio & Hbuf) Hi H.
  destruct (step_worker_spec S tr tr_event dS s i s' evs) as (b' & w' & x' & wk & Hloc & Eb & Ew & Ex & Eio & Hfr);
    try lia; [exact H|].
  destruct Hfr as (Lb' & Lw' & Lx' & Et & Eo & El & Ei & Eout & Ec & Hoth).
  pose proof (wlocal_decr _ _ _ _ _ _ _ _ _ _ (Hbuf i Hi) Hloc) as Hd.
  assert (Ebs : bufs S s' = set_nth i b' (bufs S s)).
  { rewrite <- Eb. apply (list_upd_eq empty_buf); [exact Lb'|lia|]. intros k Hk. apply (Hoth k Hk). }
  assert (Ews : wpcs S s' = set_nth i w' (wpcs S s)).
  { rewrite <- Ew. apply (list_upd_eq W_Done); [exact Lw'|lia|]. intros k Hk. apply (Hoth k Hk). }
  pose proof (sumf_set_nth brem empty_buf b' i (bufs S s) ltac:(lia)) as Sb.
  pose proof (sumf_set_nth wrank W_Done w' i (wpcs S s) ltac:(lia)) as Sw.
  pose proof (irank_wake (io S s) (turn S s) i wk) as Hi'.
  unfold Phi. rewrite Ei, El, Eio, Ebs, Ews.
  fold (getb s i) in Sb. fold (getw s i) in Sw. lia.
Qed.

Lemma join_rank s k : length (wpcs S s) = T ->
  irank T (join_from S s k) <= T - k + 1 /\
  (getw s k = W_Done -> irank T (join_from S s k) < T - k + 1).
Proof.
  intros Lw. unfold join_from.
  destruct (first_unfinished (skipn k (wpcs S s)) k) as [k'|] eqn:E; [|cbn; lia].
  pose proof (first_unfinished_bound _ _ _ E) as Hb. rewrite skipn_length, Lw in Hb. cbn [irank].
  split; [lia|]. intros Hk.
  assert (Hlt : k < length (wpcs S s)) by lia.
  rewrite (skipn_nth_cons W_Done k _ Hlt) in E. unfold PipeConc.getw in Hk. rewrite Hk in E.
  cbn [first_unfinished] in E. apply first_unfinished_bound in E. lia.
Qed.

Lemma sumf_wake_worker s t : sumf wrank (wpcs S (wake_worker S s t)) <= sumf wrank (wpcs S s).
Proof.
  unfold wake_worker. destruct (getw s t) eqn:E; try lia.
  destruct (Nat.lt_ge_cases t (length (wpcs S s))) as [Hlt|Hge].
  - cbn [set_wpc wpcs]. pose proof (sumf_set_nth wrank W_Done (W_Awake from_start) t (wpcs S s) Hlt) as Hs.
    fold (getw s t) in Hs. rewrite E in Hs. destruct from_start; cbn in Hs; lia.
  - unfold PipeConc.getw in E. rewrite nth_overflow in E by exact Hge. discriminate.
Qed.

Lemma phi_io q r s s' evs :
  InvQR q r s -> step_io S c ispadding s = Some (s', evs) -> Phi s' < Phi s.
Proof.
  intros Hinv H. pose proof Hinv as (Lb & Lw & Lx & Hr & Ht & Hio & Hbuf).
  pose proof (Hbuf r Hr) as Hbr. rewrite iot_self in Hbr.
  unfold step_io in H. unfold IoInv in Hio. unfold Phi.
  destruct (io S s) eqn:Eio; cbn [post_fin] in Hbr; try discriminate.
  - unfold i_wait in H. destruct (upd_or_empty _); injection H as <- _; cbn [set_io io input live bufs wpcs irank]; lia.
  - destruct Hbr as [_ Hpre]. cbn [pre_ok] in Hpre. unfold i_wait in H. rewrite Ht in H.
    assert (E : upd_or_empty (b_st (getb s r)) = true) by (destruct Hpre as [-> | ->]; reflexivity).
    rewrite E in H. injection H as <- _. cbn [set_io io input live bufs wpcs irank]. lia.
  - destruct (b_st _); injection H as <- _; cbn [set_io io input live bufs wpcs irank]; lia.
  - destruct (export c ispadding _ _); injection H as <- _; cbn [set_io io input live bufs wpcs irank]; lia.
  - destruct (over S s); [injection H as <- _; cbn [set_io io input live bufs wpcs irank Nat.eqb]; lia|].
    destruct (input S s) as [|l rest]; injection H as <- _; cbn [io input live bufs wpcs irank Nat.eqb length].
    + lia.
    + change (sumf ld_total (l :: rest)) with (ld_total l + sumf ld_total rest).
      pose proof (sumf_set_nth brem empty_buf
                   {| b_st := b_st (getb s (turn S s)); b_total := ld_total l; b_now := 0;
                      b_final := b_final (getb s (turn S s)) || ld_final l; b_data := blocks16_of (ld_data l) |}
                   (turn S s) (bufs S s) ltac:(lia)) as Sb.
      match type of Sb with _ = _ + brem ?b =>
        assert (Eb' : brem b = ld_total l) by (unfold brem; cbn [b_total b_now]; lia); rewrite Eb' in Sb end.
      destruct (ld_final l); cbn [Nat.eqb]; lia.
  - injection H as <- _.
    destruct Hio as (HV & _ & _ & Hlv & Hex & _). cbn [io_extra visits_done post_fin] in Hex, Hlv.
    match goal with |- context [wake_worker S ?st ?t] => set (s2 := st) end.
    pose proof (sumf_wake_worker s2 (turn S s)) as Sw.
    assert (Eb : bufs S (wake_worker S s2 (turn S s)) = bufs S s2) by (unfold wake_worker; destruct (PipeConc.getw S s2 (turn S s)); reflexivity).
    assert (Ei : input S (wake_worker S s2 (turn S s)) = input S s2) by (unfold wake_worker; destruct (PipeConc.getw S s2 (turn S s)); reflexivity).
    assert (El : live S (wake_worker S s2 (turn S s)) = live S s2) by (unfold wake_worker; destruct (PipeConc.getw S s2 (turn S s)); reflexivity).
    assert (Eo : io S (wake_worker S s2 (turn S s)) = io S s2) by (unfold wake_worker; destruct (PipeConc.getw S s2 (turn S s)); reflexivity).
    rewrite Eb, Ei, El, Eo. unfold s2 in *. cbn [io input live bufs wpcs set_buf irank] in *.
    pose proof (sumf_set_nth brem empty_buf
                  (with_st (getb s (turn S s)) (if loadstate =? 2 then INV else READY))
                  (turn S s) (bufs S s) ltac:(lia)) as Sb.
    match type of Sb with _ = _ + brem ?b =>
      assert (Eb' : brem b = brem (getb s (turn S s))) by reflexivity; rewrite Eb' in Sb end.
    fold (getb s (turn S s)) in Sb.
    destruct (loadstate =? 2) eqn:E2.
    + assert (m ls <= q * T + r).
      { destruct (m ls <=? q * T + r) eqn:E; [apply Nat.leb_le in E; exact E|].
        rewrite Hex in E2. destruct (ld_final _); discriminate. }
      lia.
    + lia.
  - destruct (live S s =? 0).
    + injection H as <- _. cbn [set_io io input live bufs wpcs irank].
      destruct (join_rank s 0 Lw) as [Hj _]. lia.
    + injection H as <- _. cbn [io input live bufs wpcs irank]. lia.
  - destruct (getw s k) eqn:Ew; try discriminate. injection H as <- _.
    cbn [set_io io input live bufs wpcs irank].
    destruct (join_rank s k Lw) as [_ Hj]. specialize (Hj Ew). lia.
Qed.

Lemma phi_step s tid s' evs :
  Inv S tr c ispadding T sigma0 ls dS s -> step S tr tr_event c ispadding s tid = Some (s', evs) -> Phi s' < Phi s.
Proof.
  intros (q & r & Hinv) H. unfold step in H. destruct tid as [|i].
  - apply (phi_io q r s s' evs Hinv H).
  - destruct (i <? nT S s) eqn:E; [|discriminate]. apply Nat.ltb_lt in E.
    apply (phi_worker q r s i s' evs Hinv); [|exact H].
    destruct Hinv as (Lb & _). unfold nT in E. lia.
Qed.

Lemma phi_run : forall sched s s', Inv S tr c ispadding T sigma0 ls dS s ->
  run S tr tr_event c ispadding s sched = Some s' -> length sched + Phi s' <= Phi s.
Proof.
  induction sched as [|t sched IH]; intros s s' Hinv H; cbn [run] in H.
  - injection H as <-. cbn [length]. lia.
  - destruct (step S tr tr_event c ispadding s t) as [[s1 evs]|] eqn:E; [|discriminate].
    pose proof (phi_step s t s1 evs Hinv E) as Hd.
    pose proof (inv_step S tr tr_event c ispadding T sigma0 ls dS HT Hsig Hwf s t s1 evs Hinv E) as Hinv1.
    specialize (IH s1 s' Hinv1 H). cbn [length]. lia.
Qed.
End Term.

Lemma C04_bounded_steps_proof : forall (S : Type) (tr : S -> list N -> S * list N) (tr_event : nat -> S -> list event)
  (c : nat) (ispadding : bool) T sigma0 ls,
  1 <= T -> length sigma0 = T -> wf_loads ls ->
  exists B, forall sched s, run S tr tr_event c ispadding (init S T sigma0 ls) sched = Some s -> length sched <= B.
Proof.
  intros S tr tr_event c ispadding T sigma0 ls HT Hsig Hwf.
  exists (Phi S T (init S T sigma0 ls)). intros sched s Hrun.
  destruct sigma0 as [|x0 rest] eqn:E; [cbn in Hsig; lia|]. rewrite <- E in *.
  pose proof (phi_run S tr tr_event c ispadding T sigma0 ls x0 HT Hsig Hwf sched _ s
                (ex_intro _ 0 (ex_intro _ 0 (inv_init S tr tr_event c ispadding T sigma0 ls x0 HT Hsig))) Hrun) as H.
  lia.
Qed.

(* the bound, explicitly: 8*(m + T) + (T + 9) + 6 * (number of blocks) + 10 * T *)
Lemma Phi_init (S : Type) T (sigma0 : list S) ls :
  Phi S T (init S T sigma0 ls) = 8 * (length ls + T) + (T + 9) + 6 * sumf ld_total ls + 10 * T.
Proof.
  unfold Phi, init. cbn [input live io bufs wpcs irank].
  assert (E1 : sumf brem (repeat empty_buf T) = 0) by (induction T as [|n IH]; [reflexivity|cbn; exact IH]).
  assert (E2 : sumf wrank (repeat W_New T) = 10 * T).
  { induction T as [|n IH]; [reflexivity|]. cbn [repeat sumf fold_right wrank]. unfold sumf in IH. lia. }
  rewrite E1, E2. lia.
Qed.

(* the same with the bound spelled out (m = length ls chunks, sumf ld_total ls blocks in total) *)
Lemma C04_bounded_steps_explicit_proof : forall (S : Type) (tr : S -> list N -> S * list N) (tr_event : nat -> S -> list event)
  (c : nat) (ispadding : bool) T sigma0 ls sched s,
  1 <= T -> length sigma0 = T -> wf_loads ls ->
  run S tr tr_event c ispadding (init S T sigma0 ls) sched = Some s ->
  length sched <= 8 * (length ls + T) + (T + 9) + 6 * sumf ld_total ls + 10 * T.
Proof.
  intros S tr tr_event c ispadding T sigma0 ls sched s HT Hsig Hwf Hrun.
  rewrite <- (Phi_init S T sigma0 ls).
  destruct sigma0 as [|x0 rest] eqn:E; [cbn in Hsig; lia|]. rewrite <- E in *.
  pose proof (phi_run S tr tr_event c ispadding T sigma0 ls x0 HT Hsig Hwf sched _ s
                (ex_intro _ 0 (ex_intro _ 0 (inv_init S tr tr_event c ispadding T sigma0 ls x0 HT Hsig))) Hrun) as H.
  lia.
Qed.
Print Assumptions C04_bounded_steps_proof.
Print Assumptions C04_bounded_steps_explicit_proof.
