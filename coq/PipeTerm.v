(* Termination bound for PipeConc.  Spurious wake-ups are transitions of the system, so a schedule can be
   arbitrarily long (wake, re-test, sleep, wake, ...); what is bounded is the number of steps that are not
   caused by a spurious wake-up:   length sched <= B + 2 * (number of spurious wake-ups in sched).

   Potential: Phi = Phi0 + 2 * nfail, where Phi0 is the rank function of the development without spurious
   wake-ups (so B = Phi0 (init) is the old explicit bound) and nfail counts the threads that are Awake while
   their predicate is false -- exactly the threads whose next step is "re-test, go back to sleep".
     - a step of a real thread decreases Phi by at least 1 (the re-test that fails: Phi0 + 1, nfail - 1);
     - a spurious wake-up increases Phi by at most 1 (Phi0 - 1, nfail + 1).
   No step of another thread can make the predicate of an Awake thread false (only the thread itself hands
   its buffer over), so nfail never increases at a real step.  The invariant of PipeInv.v is used only for
   the list lengths, live >= 1 when a buffer is retired, and the visit counter. *)
From Wencry Require Import Bytes FileModel PipeConc PipeProps PipeLemmas PipeInv.
From Coq Require Import ZifyNat.
Local Open Scope nat_scope.

Definition wrank (w : wpc) : nat :=
  match w with
  | W_Done => 0 | W_Cmp => 1 | W_Awake false => 2 | W_Asleep false => 3 | W_WaitReady => 4
  | W_SetUpdate => 5 | W_Get => 6 | W_Awake true => 7 | W_Asleep true => 8 | W_Start => 9 | W_New => 10
  end.
Definition irank (T : nat) (p : ipc) : nat :=
  match p with
  | I_WaitUpdate => T + 9 | I_Asleep => T + 8 | I_Awake => T + 7 | I_Cmp => T + 6 | I_Export => T + 5
  | I_Load => T + 4 | I_SetReady x => if x =? 2 then T + 3 else T + 11 | I_Turn => T + 10
  | I_Join k => T - k + 1 | I_Done => 0
  end.
Definition sumf {A} (f : A -> nat) (l : list A) : nat := fold_right (fun a acc => f a + acc) 0 l.
Definition brem (b : buf) : nat := b_total b - b_now b.
(* 1 iff the thread is Awake and will go back to sleep at its next step *)
Definition wfail (b : buf) (w : wpc) : nat :=
  match w with W_Awake _ => if ready_or_inv (b_st b) then 0 else 1 | _ => 0 end.
Definition iofail (p : ipc) (b : buf) : nat :=
  match p with I_Awake => if upd_or_empty (b_st b) then 0 else 1 | _ => 0 end.
Definition wfl (bs : list buf) (ws : list wpc) (i : nat) : nat := wfail (nth i bs empty_buf) (nth i ws W_Done).

Lemma sumf_set_nth {A} (f : A -> nat) (d x : A) : forall i l, i < length l ->
  sumf f (set_nth i x l) + f (nth i l d) = sumf f l + f x.
Proof.
  induction i as [|i IH]; intros [|y l] Hl; cbn [length] in Hl; try lia; cbn [set_nth nth sumf fold_right].
  - lia.
  - specialize (IH l ltac:(lia)). unfold sumf in IH. lia.
Qed.

Lemma list_upd_eq {A} (d : A) i : forall l l', length l' = length l -> i < length l ->
  (forall k, k <> i -> nth k l' d = nth k l d) -> l' = set_nth i (nth i l' d) l.
Proof.
  intros l l' Hlen Hi Hoth. apply (nth_ext _ _ d d).
  - rewrite set_nth_length. exact Hlen.
  - intros k Hk. destruct (Nat.eq_dec k i) as [->|Hne].
    + rewrite nth_set_nth_eq by exact Hi. reflexivity.
    + rewrite nth_set_nth_neq by congruence. apply Hoth. exact Hne.
Qed.

Lemma sumf_seq_ext (f g : nat -> nat) : forall n a, (forall k, a <= k < a + n -> g k = f k) ->
  sumf g (seq a n) = sumf f (seq a n).
Proof.
  induction n as [|n IH]; intros a H; cbn [seq sumf fold_right]; [reflexivity|].
  rewrite (H a) by lia. f_equal. apply IH. intros k Hk. apply H. lia.
Qed.

(* f and g differ at most at i *)
Lemma sumf_seq_upd (f g : nat -> nat) i : forall n a, a <= i < a + n ->
  (forall k, a <= k < a + n -> k <> i -> g k = f k) ->
  sumf g (seq a n) + f i = sumf f (seq a n) + g i.
Proof.
  induction n as [|n IH]; intros a Hi H; [lia|]. cbn [seq sumf fold_right].
  destruct (Nat.eq_dec a i) as [->|Hne].
  - assert (E : sumf g (seq (Datatypes.S i) n) = sumf f (seq (Datatypes.S i) n)).
    { apply sumf_seq_ext. intros k Hk. apply H; lia. }
    unfold sumf in E. rewrite E. lia.
  - rewrite (H a) by lia. specialize (IH (Datatypes.S a) ltac:(lia)).
    assert (H' : forall k, Datatypes.S a <= k < Datatypes.S a + n -> k <> i -> g k = f k) by (intros k Hk Hki; apply H; lia).
    specialize (IH H'). unfold sumf in IH. lia.
Qed.

Lemma sumf_zero {A} (f : A -> nat) : forall l, (forall a, f a = 0) -> sumf f l = 0.
Proof. induction l as [|a l IH]; intros H; cbn [sumf fold_right]; [reflexivity|]. rewrite H. apply IH. exact H. Qed.

Lemma wfail_le1 b w : wfail b w <= 1.
Proof. unfold wfail. destruct w; try lia. destruct (ready_or_inv (b_st b)); lia. Qed.
Lemma iofail_le1 p b : iofail p b <= 1.
Proof. unfold iofail. destruct p; try lia. destruct (upd_or_empty (b_st b)); lia. Qed.
Lemma wfail_st b b' w : b_st b' = b_st b -> wfail b' w = wfail b w.
Proof. intros E. unfold wfail. rewrite E. reflexivity. Qed.
Lemma iofail_st p b b' : b_st b' = b_st b -> iofail p b' = iofail p b.
Proof. intros E. unfold iofail. rewrite E. reflexivity. Qed.

Section Term.
Variable S : Type.
Variable tr : S -> list N -> S * list N.
Variable tr_event : nat -> S -> list event.
Variable c : nat.
Variable ispadding : bool.
Variable T : nat.
Variable sigma0 : list S.
Variable ls : list load.
Variable dS : S.
Hypothesis HT : 1 <= T.
Hypothesis Hsig : length sigma0 = T.
Hypothesis Hwf : wf_loads ls.

Notation state := (state S).
Notation getb := (getb S).
Notation getw := (getw S).
Notation InvQR := (InvQR S tr c ispadding T sigma0 ls dS).
Notation BufInv := (BufInv S tr c ispadding T sigma0 ls dS).
Notation IdleInv := (IdleInv S tr c ispadding T sigma0 ls dS).

(* the rank function of the system without spurious wake-ups *)
Definition Phi0 (s : state) : nat :=
  8 * (length (input S s) + live S s) + irank T (io S s) +
  6 * (sumf ld_total (input S s) + sumf brem (bufs S s)) + sumf wrank (wpcs S s).
(* number of threads that are Awake and will go back to sleep *)
Definition nfw (bs : list buf) (ws : list wpc) : nat := sumf (wfl bs ws) (seq 0 T).
Definition nfail (s : state) : nat := nfw (bufs S s) (wpcs S s) + iofail (io S s) (getb s (turn S s)).
Definition Phi (s : state) : nat := Phi0 s + 2 * nfail s.

Lemma nfw_ext bs ws bs' ws' : (forall k, k < T -> wfl bs' ws' k = wfl bs ws k) -> nfw bs' ws' = nfw bs ws.
Proof. intros H. unfold nfw. apply sumf_seq_ext. intros k Hk. apply H. lia. Qed.
Lemma nfw_upd bs ws bs' ws' i : i < T -> (forall k, k < T -> k <> i -> wfl bs' ws' k = wfl bs ws k) ->
  nfw bs' ws' + wfl bs ws i = nfw bs ws + wfl bs' ws' i.
Proof. intros Hi H. unfold nfw. apply sumf_seq_upd; [lia|]. intros k Hk Hne. apply H; lia. Qed.

(* the local step of a worker: strictly down, also when a spuriously woken worker goes back to sleep *)
Lemma wlocal_decr b w x b' w' x' wk :
  wlocal S tr b w x = Some (b', w', x', wk) ->
  6 * brem b' + wrank w' + 2 * wfail b' w' < 6 * brem b + wrank w + 2 * wfail b w.
Proof.
  intros H. unfold wlocal in H. destruct w as [| | | | |f|f| |]; try discriminate.
  - injection H as <- <- <- <-. cbn. lia.
  - injection H as <- <- <- <-. unfold wait_pc. destruct (ready_or_inv (b_st b)); cbn; lia.
  - destruct (b_now b <? b_total b) eqn:E; injection H as <- <- <- <-.
    + apply Nat.ltb_lt in E. unfold brem, take_b. cbn. lia.
    + cbn. lia.
  - destruct (b_st b); injection H as <- <- <- <-; unfold brem; cbn; lia.
  - injection H as <- <- <- <-. unfold wait_pc. destruct (ready_or_inv (b_st b)); cbn; lia.
  - injection H as <- <- <- <-. unfold wait_pc, wfail. destruct (ready_or_inv (b_st b)); destruct f; cbn; lia.
  - destruct (b_st b); try (injection H as <- <- <- <-; cbn; lia).
    destruct (b_now b <? b_total b) eqn:E; injection H as <- <- <- <-.
    + apply Nat.ltb_lt in E. unfold brem, take_b. cbn. lia.
    + cbn. lia.
Qed.

Lemma wlocal_st_move b w x b' w' x' wk :
  wlocal S tr b w x = Some (b', w', x', wk) -> st_move b b' wk.
Proof.
  intros H. unfold wlocal in H. unfold st_move. destruct w as [| | | | |f|f| |]; try discriminate;
    try (injection H as <- <- <- <-; left; split; reflexivity).
  - destruct (b_now b <? b_total b); injection H as <- <- <- <-; left; split; reflexivity.
  - destruct (b_st b) eqn:Est; injection H as <- <- <- <-; try (left; split; [reflexivity|exact Est || reflexivity]).
    right. repeat split; reflexivity.
  - destruct (b_st b) eqn:Est; try (injection H as <- <- <- <-; left; split; [reflexivity|exact Est]).
    destruct (b_now b <? b_total b); injection H as <- <- <- <-; left; (split; [reflexivity|exact Est]).
Qed.

Lemma irank_wake p t i (wk : bool) : irank T (if wk then wake_p p t i else p) <= irank T p.
Proof.
  destruct wk; [|lia]. unfold wake_p. destruct p; try lia. destruct (t =? i); cbn; lia.
Qed.

Lemma phi_worker q r s i s' evs :
  InvQR q r s -> i < T -> step_worker S tr tr_event s i = Some (s', evs) -> Phi s' < Phi s.
Proof.
  intros (Lb & Lw & Lx & Hr & Ht & Hio & Hbuf) Hi H.
  destruct (step_worker_spec S tr tr_event dS s i s' evs) as (b' & w' & x' & wk & Hloc & Eb & Ew & Ex & Eio & Hfr);
    try lia; [exact H|].
  destruct Hfr as (Lb' & Lw' & Lx' & Et & Eo & El & Ei & Eout & Ec & Hoth).
  pose proof (wlocal_decr _ _ _ _ _ _ _ Hloc) as Hd.
  pose proof (wlocal_st_move _ _ _ _ _ _ _ Hloc) as Hmv.
  assert (Ebs : bufs S s' = set_nth i b' (bufs S s)).
  { rewrite <- Eb. apply (list_upd_eq empty_buf); [exact Lb'|lia|]. intros k Hk. apply (Hoth k Hk). }
  assert (Ews : wpcs S s' = set_nth i w' (wpcs S s)).
  { rewrite <- Ew. apply (list_upd_eq W_Done); [exact Lw'|lia|]. intros k Hk. apply (Hoth k Hk). }
  pose proof (sumf_set_nth brem empty_buf b' i (bufs S s) ltac:(lia)) as Sb.
  pose proof (sumf_set_nth wrank W_Done w' i (wpcs S s) ltac:(lia)) as Sw.
  pose proof (irank_wake (io S s) (turn S s) i wk) as Hi'.
  (* sleepers-to-be among the workers: only worker i changes *)
  assert (Sf : nfw (bufs S s') (wpcs S s') + wfail (getb s i) (getw s i) = nfw (bufs S s) (wpcs S s) + wfail b' w').
  { pose proof (nfw_upd (bufs S s) (wpcs S s) (bufs S s') (wpcs S s') i Hi) as Hu.
    unfold wfl in Hu. fold (getb s' i) (getw s' i) (getb s i) (getw s i) in Hu. rewrite Eb, Ew in Hu. apply Hu.
    intros k Hk Hne. destruct (Hoth k Hne) as (E1 & E2 & _). unfold PipeConc.getb, PipeConc.getw in E1, E2.
    rewrite E1, E2. reflexivity. }
  (* the I/O thread: a notification makes its predicate true *)
  assert (If : iofail (io S s') (getb s' (turn S s')) <= iofail (io S s) (getb s (turn S s))).
  { rewrite Et, Eio. destruct Hmv as [[-> Hs]|(-> & Hs & Hs')].
    - destruct (Nat.eq_dec (turn S s) i) as [E|E].
      + rewrite E, Eb. rewrite (iofail_st _ _ _ Hs). lia.
      + destruct (Hoth _ E) as (-> & _). lia.
    - destruct (Nat.eq_dec (turn S s) i) as [E|E].
      + rewrite E, Eb. unfold iofail at 1. rewrite Hs'. cbn [upd_or_empty]. destruct (wake_p (io S s) i i); apply Nat.le_0_l.
      + destruct (Hoth _ E) as (-> & _). unfold wake_p. apply Nat.eqb_neq in E. rewrite E.
        destruct (io S s); lia. }
  fold (getb s i) in Sb. fold (getw s i) in Sw. rewrite <- Ebs in Sb. rewrite <- Ews in Sw. rewrite <- Eio in Hi'.
  unfold Phi, Phi0, nfail. rewrite Ei, El. lia.
Qed.

Lemma join_rank s k : length (wpcs S s) = T ->
  irank T (join_from S s k) <= T - k + 1 /\
  (getw s k = W_Done -> irank T (join_from S s k) < T - k + 1).
Proof.
  intros Lw. unfold join_from.
  destruct (first_unfinished (skipn k (wpcs S s)) k) as [k'|] eqn:E; [|cbn; lia].
  pose proof (first_unfinished_bound _ _ _ E) as Hb. rewrite skipn_length, Lw in Hb. cbn [irank].
  split; [lia|]. intros Hk.
  assert (Hlt : k < length (wpcs S s)) by lia.
  rewrite (skipn_nth_cons W_Done k _ Hlt) in E. unfold PipeConc.getw in Hk. rewrite Hk in E.
  cbn [first_unfinished] in E. apply first_unfinished_bound in E. lia.
Qed.
Lemma join_iofail s k b : iofail (join_from S s k) b = 0.
Proof. unfold join_from. destruct (first_unfinished _ _); reflexivity. Qed.

Lemma sumf_wake_worker s t : sumf wrank (wpcs S (wake_worker S s t)) <= sumf wrank (wpcs S s).
Proof.
  unfold wake_worker. destruct (getw s t) eqn:E; try lia.
  destruct (Nat.lt_ge_cases t (length (wpcs S s))) as [Hlt|Hge].
  - cbn [set_wpc wpcs]. pose proof (sumf_set_nth wrank W_Done (W_Awake from_start) t (wpcs S s) Hlt) as Hs.
    fold (getw s t) in Hs. rewrite E in Hs. destruct from_start; cbn in Hs; lia.
  - unfold PipeConc.getw in E. rewrite nth_overflow in E by exact Hge. discriminate.
Qed.

Lemma phi_io q r s s' evs :
  InvQR q r s -> step_io S c ispadding s = Some (s', evs) -> Phi s' < Phi s.
Proof.
  intros Hinv H. pose proof Hinv as (Lb & Lw & Lx & Hr & Ht & Hio & Hbuf).
  unfold step_io in H. unfold IoInv in Hio. unfold Phi, Phi0, nfail.
  destruct (io S s) eqn:Eio; try discriminate.
  - (* I_WaitUpdate *)
    unfold i_wait in H. destruct (upd_or_empty _); injection H as <- _;
      cbn [set_io io input live bufs wpcs turn irank iofail]; lia.
  - (* I_Awake: the predicate holds, or back to sleep *)
    unfold i_wait in H. cbn [iofail].
    destruct (upd_or_empty (b_st (getb s (turn S s)))); injection H as <- _;
      cbn [set_io io input live bufs wpcs turn irank iofail]; lia.
  - destruct (b_st _); injection H as <- _; cbn [set_io io input live bufs wpcs turn irank iofail]; lia.
  - destruct (export c ispadding _ _); injection H as <- _; cbn [set_io io input live bufs wpcs turn irank iofail]; lia.
  - (* I_Load *)
    destruct (over S s); [injection H as <- _; cbn [set_io io input live bufs wpcs turn irank iofail Nat.eqb]; lia|].
    destruct (input S s) as [|l rest]; injection H as <- _; cbn [io input live bufs wpcs turn irank iofail Nat.eqb length].
    + lia.
    + change (sumf ld_total (l :: rest)) with (ld_total l + sumf ld_total rest).
      set (b' := {| b_st := b_st (getb s (turn S s)); b_total := ld_total l; b_now := 0;
                    b_final := b_final (getb s (turn S s)) || ld_final l; b_data := blocks16_of (ld_data l) |}).
      pose proof (sumf_set_nth brem empty_buf b' (turn S s) (bufs S s) ltac:(lia)) as Sb.
      assert (Eb' : brem b' = ld_total l) by (unfold brem, b'; cbn [b_total b_now]; lia). rewrite Eb' in Sb.
      assert (Ef : nfw (set_nth (turn S s) b' (bufs S s)) (wpcs S s) = nfw (bufs S s) (wpcs S s)).
      { apply nfw_ext. intros k Hk. unfold wfl. destruct (Nat.eq_dec (turn S s) k) as [<-|Hne].
        - rewrite nth_set_nth_eq by lia. apply wfail_st. reflexivity.
        - rewrite nth_set_nth_neq by exact Hne. reflexivity. }
      rewrite Ef. destruct (ld_final l); cbn [Nat.eqb]; lia.
  - (* I_SetReady: the buffer becomes READY / INV, its worker is notified *)
    injection H as <- _.
    destruct Hio as (HV & _ & _ & Hlv & Hex & _). cbn [io_extra visits_done post_fin] in Hex, Hlv.
    match goal with |- context [wake_worker S ?st ?t] => set (s2 := st) end.
    set (s1 := wake_worker S s2 (turn S s)).
    set (bt := with_st (getb s (turn S s)) (if loadstate =? 2 then INV else READY)).
    assert (Hr2 : turn S s < length (wpcs S s2)) by (unfold s2; cbn [wpcs set_buf]; lia).
    destruct (wake_worker_spec S s2 (turn S s) Hr2) as (Eb & Wlw & _ & Eo & Etn & _ & El & Ei & _ & _ & Wgw & Wog).
    fold s1 in Eb, Wlw, Eo, Etn, El, Ei, Wgw, Wog.
    assert (Eb1 : bufs S s1 = set_nth (turn S s) bt (bufs S s)) by exact Eb.
    assert (Eo1 : io S s1 = I_Turn) by exact Eo.
    assert (El1 : live S s1 = if loadstate =? 2 then live S s - 1 else live S s) by exact El.
    assert (Ei1 : input S s1 = input S s) by exact Ei.
    assert (Sw : sumf wrank (wpcs S s1) <= sumf wrank (wpcs S s)) by exact (sumf_wake_worker s2 (turn S s)).
    assert (Ef : nfw (bufs S s1) (wpcs S s1) <= nfw (bufs S s) (wpcs S s)).
    { pose proof (nfw_upd (bufs S s) (wpcs S s) (bufs S s1) (wpcs S s1) (turn S s) ltac:(lia)) as Hu.
      assert (E0 : wfl (bufs S s1) (wpcs S s1) (turn S s) = 0).
      { unfold wfl. rewrite Eb1, nth_set_nth_eq by lia. unfold wfail, bt.
        destruct (nth _ _ _); try reflexivity. destruct (loadstate =? 2); reflexivity. }
      rewrite E0 in Hu. rewrite Nat.add_0_r in Hu. rewrite <- Hu; [lia|].
      intros k Hk Hne. unfold wfl. rewrite Eb1, nth_set_nth_neq by congruence.
      specialize (Wog k Hne). unfold PipeConc.getw in Wog. rewrite Wog. reflexivity. }
    pose proof (sumf_set_nth brem empty_buf bt (turn S s) (bufs S s) ltac:(lia)) as Sb.
    assert (Eb' : brem bt = brem (getb s (turn S s))) by reflexivity. rewrite Eb' in Sb.
    fold (getb s (turn S s)) in Sb. rewrite <- Eb1 in Sb.
    rewrite Eo1, El1, Ei1. cbn [irank iofail]. clearbody s1. clear s2 Hr2 Wgw Wog Eb El Ei Eo Etn Wlw.
    destruct (loadstate =? 2) eqn:E2.
    + assert (m ls <= q * T + r).
      { destruct (m ls <=? q * T + r) eqn:E; [apply Nat.leb_le in E; exact E|].
        rewrite Hex in E2. destruct (ld_final _); discriminate. }
      lia.
    + lia.
  - (* I_Turn *)
    destruct (live S s =? 0).
    + injection H as <- _. cbn [set_io io input live bufs wpcs turn irank]. rewrite join_iofail. cbn [iofail].
      destruct (join_rank s 0 Lw) as [Hj _]. lia.
    + injection H as <- _. cbn [io input live bufs wpcs turn irank iofail]. lia.
  - (* I_Join *)
    destruct (getw s k) eqn:Ew; try discriminate. injection H as <- _.
    cbn [set_io io input live bufs wpcs turn irank]. rewrite join_iofail. cbn [iofail].
    destruct (join_rank s k Lw) as [_ Hj]. specialize (Hj Ew). lia.
Qed.

(* a spurious wake-up: the rank of the thread goes down by one, and there is one more sleeper-to-be *)
Lemma phi_spurious q r s j s' evs :
  InvQR q r s -> spurious S s j = Some (s', evs) -> Phi s' <= Phi s + 1.
Proof.
  intros (Lb & Lw & Lx & Hr & Ht & Hio & Hbuf) H. unfold spurious in H. unfold Phi, Phi0, nfail. destruct j as [|i].
  - destruct (io S s) eqn:Eio; try discriminate. injection H as <- _.
    cbn [set_io io input live bufs wpcs turn irank]. rewrite getb_set_io.
    pose proof (iofail_le1 I_Awake (getb s (turn S s))) as H1. cbn [iofail] in *. lia.
  - destruct (i <? nT S s) eqn:Ei; [|discriminate]. apply Nat.ltb_lt in Ei. unfold nT in Ei.
    destruct (getw s i) eqn:Ew; try discriminate. injection H as <- _.
    cbn [set_wpc io input live bufs wpcs turn]. rewrite getb_set_wpc.
    pose proof (sumf_set_nth wrank W_Done (W_Awake from_start) i (wpcs S s) ltac:(lia)) as Sw.
    fold (getw s i) in Sw. rewrite Ew in Sw.
    pose proof (nfw_upd (bufs S s) (wpcs S s) (bufs S s) (set_nth i (W_Awake from_start) (wpcs S s)) i ltac:(lia)) as Hu.
    assert (E0 : wfl (bufs S s) (wpcs S s) i = 0) by (unfold wfl; fold (getw s i); rewrite Ew; reflexivity).
    assert (E1 : wfl (bufs S s) (set_nth i (W_Awake from_start) (wpcs S s)) i <= 1) by apply wfail_le1.
    rewrite E0 in Hu. rewrite Nat.add_0_r in Hu. rewrite Hu.
    + destruct from_start; cbn [wrank] in Sw; lia.
    + intros k Hk Hne. unfold wfl. rewrite nth_set_nth_neq by congruence. reflexivity.
Qed.

Lemma phi_step_real s tid s' evs :
  Inv S tr c ispadding T sigma0 ls dS s -> step_real S tr tr_event c ispadding s tid = Some (s', evs) -> Phi s' < Phi s.
Proof.
  intros (q & r & Hinv) H. unfold step_real in H. destruct tid as [|i].
  - apply (phi_io q r s s' evs Hinv H).
  - destruct (i <? nT S s) eqn:E; [|discriminate]. apply Nat.ltb_lt in E.
    apply (phi_worker q r s i s' evs Hinv); [|exact H].
    destruct Hinv as (Lb & _). unfold nT in E. lia.
Qed.

(* real steps decrease the potential, a spurious step increases it by at most 1 *)
Lemma phi_step s tid s' evs :
  Inv S tr c ispadding T sigma0 ls dS s -> step S tr tr_event c ispadding s tid = Some (s', evs) ->
  if T <? tid then Phi s' <= Phi s + 1 else Phi s' < Phi s.
Proof.
  intros Hinv H. unfold step in H.
  assert (EnT : nT S s = T) by (destruct Hinv as (q & r & Lb & _); exact Lb). rewrite EnT in H.
  destruct (Nat.leb_spec tid T) as [Hle|Hgt].
  - assert (E : (T <? tid) = false) by (apply Nat.ltb_ge; exact Hle). rewrite E.
    apply (phi_step_real s tid s' evs Hinv H).
  - assert (E : (T <? tid) = true) by (apply Nat.ltb_lt; exact Hgt). rewrite E.
    destruct Hinv as (q & r & Hinv). apply (phi_spurious q r s _ s' evs Hinv H).
Qed.

Lemma phi_run : forall sched s s', Inv S tr c ispadding T sigma0 ls dS s ->
  run S tr tr_event c ispadding s sched = Some s' -> length sched + Phi s' <= Phi s + 2 * spurious_count T sched.
Proof.
  induction sched as [|t sched IH]; intros s s' Hinv H; cbn [run] in H.
  - injection H as <-. cbn [length]. lia.
  - destruct (step S tr tr_event c ispadding s t) as [[s1 evs]|] eqn:E; [|discriminate].
    pose proof (phi_step s t s1 evs Hinv E) as Hd.
    pose proof (inv_step S tr tr_event c ispadding T sigma0 ls dS HT Hsig Hwf s t s1 evs Hinv E) as Hinv1.
    specialize (IH s1 s' Hinv1 H). unfold spurious_count in *. cbn [length filter].
    destruct (T <? t); cbn [length]; lia.
Qed.
End Term.

Lemma spurious_count_none T sched : (forall t, In t sched -> t <= T) -> spurious_count T sched = 0.
Proof.
  unfold spurious_count. induction sched as [|t sched IH]; intros H; [reflexivity|].
  cbn [filter]. assert (E : (T <? t) = false) by (apply Nat.ltb_ge; apply H; left; reflexivity).
  rewrite E. apply IH. intros t' Ht'. apply H. right. exact Ht'.
Qed.

Lemma Phi_run_init (S : Type) (tr : S -> list N -> S * list N) (tr_event : nat -> S -> list event)
  (c : nat) (ispadding : bool) T sigma0 ls sched s :
  1 <= T -> length sigma0 = T -> wf_loads ls ->
  run S tr tr_event c ispadding (init S T sigma0 ls) sched = Some s ->
  length sched <= Phi S T (init S T sigma0 ls) + 2 * spurious_count T sched.
Proof.
  intros HT Hsig Hwf Hrun.
  destruct sigma0 as [|x0 rest] eqn:E; [cbn in Hsig; lia|]. rewrite <- E in *.
  pose proof (phi_run S tr tr_event c ispadding T sigma0 ls x0 HT Hsig Hwf sched _ s
                (ex_intro _ 0 (ex_intro _ 0 (inv_init S tr tr_event c ispadding T sigma0 ls x0 HT Hsig))) Hrun) as H.
  lia.
Qed.

(* every spurious wake-up costs itself and at most one more step (the re-test that goes back to sleep) *)
Lemma C04_bounded_steps_proof : forall (S : Type) (tr : S -> list N -> S * list N) (tr_event : nat -> S -> list event)
  (c : nat) (ispadding : bool) T sigma0 ls,
  1 <= T -> length sigma0 = T -> wf_loads ls ->
  exists B, forall sched s, run S tr tr_event c ispadding (init S T sigma0 ls) sched = Some s ->
    length sched <= B + 2 * spurious_count T sched.
Proof.
  intros S tr tr_event c ispadding T sigma0 ls HT Hsig Hwf.
  exists (Phi S T (init S T sigma0 ls)). intros sched s Hrun.
  apply (Phi_run_init S tr tr_event c ispadding T sigma0 ls sched s HT Hsig Hwf Hrun).
Qed.

Lemma C04_bounded_steps_without_spurious_proof : forall (S : Type) (tr : S -> list N -> S * list N) (tr_event : nat -> S -> list event)
  (c : nat) (ispadding : bool) T sigma0 ls,
  1 <= T -> length sigma0 = T -> wf_loads ls ->
  exists B, forall sched s, run S tr tr_event c ispadding (init S T sigma0 ls) sched = Some s ->
    (forall t, In t sched -> t <= T) -> length sched <= B.
Proof.
  intros S tr tr_event c ispadding T sigma0 ls HT Hsig Hwf.
  exists (Phi S T (init S T sigma0 ls)). intros sched s Hrun Hreal.
  pose proof (Phi_run_init S tr tr_event c ispadding T sigma0 ls sched s HT Hsig Hwf Hrun) as H.
  rewrite (spurious_count_none T sched Hreal) in H. lia.
Qed.

(* the bound, explicitly: 8*(m + T) + (T + 9) + 6 * (number of blocks) + 10 * T *)
Lemma Phi_init (S : Type) T (sigma0 : list S) ls :
  Phi S T (init S T sigma0 ls) = 8 * (length ls + T) + (T + 9) + 6 * sumf ld_total ls + 10 * T.
Proof.
  unfold Phi, Phi0, nfail, init. cbn [input live io bufs wpcs turn irank iofail].
  assert (E1 : sumf brem (repeat empty_buf T) = 0) by (induction T as [|n IH]; [reflexivity|cbn; exact IH]).
  assert (E2 : sumf wrank (repeat W_New T) = 10 * T).
  { induction T as [|n IH]; [reflexivity|]. cbn [repeat sumf fold_right wrank]. unfold sumf in IH. lia. }
  assert (E3 : nfw T (repeat empty_buf T) (repeat W_New T) = 0).
  { unfold nfw. apply sumf_zero. intros k. unfold wfl.
    destruct (nth_in_or_default k (repeat W_New T) W_Done) as [Hin| ->]; [|reflexivity].
    apply repeat_spec in Hin. rewrite Hin. reflexivity. }
  rewrite E1, E2, E3. lia.
Qed.

(* the same with the bound spelled out (m = length ls chunks, sumf ld_total ls blocks in total) *)
Lemma C04_bounded_steps_explicit_proof : forall (S : Type) (tr : S -> list N -> S * list N) (tr_event : nat -> S -> list event)
  (c : nat) (ispadding : bool) T sigma0 ls sched s,
  1 <= T -> length sigma0 = T -> wf_loads ls ->
  run S tr tr_event c ispadding (init S T sigma0 ls) sched = Some s ->
  length sched <= 8 * (length ls + T) + (T + 9) + 6 * sumf ld_total ls + 10 * T + 2 * spurious_count T sched.
Proof.
  intros S tr tr_event c ispadding T sigma0 ls sched s HT Hsig Hwf Hrun.
  rewrite <- (Phi_init S T sigma0 ls).
  apply (Phi_run_init S tr tr_event c ispadding T sigma0 ls sched s HT Hsig Hwf Hrun).
Qed.
Print Assumptions C04_bounded_steps_proof.
Print Assumptions C04_bounded_steps_without_spurious_proof.
Print Assumptions C04_bounded_steps_explicit_proof.
