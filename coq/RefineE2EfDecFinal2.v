(* Stage 5: execute_decrypt (accepting path) end to end modulo ONE named big-step premise, RefineE2EfSetup1D.dec_verify_spec (runcrypt::verify/1 with the
   state it leaves); runcrypt::prepare_IV/0 is RefineE2EfDecD2.dec_prepare_IV0_ok (agent proof-hash). *)
From Coq Require Import ZArith NArith List String Bool.
From Wencry Require Import Bytes AesModel ModesModel HashModel FileModel FileProps MiniC MiniCRun MiniCConc SrcRun SrcRun2 SrcRun5.
From Wencry Require RefineE2EfSetup1D RefineE2EfDecD2 RefineE2EfDecFinal.
Import ListNotations.

Theorem decrypt_modulo_verify :
  RefineE2EfSetup1D.dec_verify_spec ->
  forall (c hbuf T : nat) (F key : list N) (rnd : N) (out : list N),
  (1 <= c)%nat -> (1 <= hbuf)%nat -> (N.of_nat (16 * c) < 2 ^ 32)%N -> (N.of_nat (64 * hbuf) < 2 ^ 32)%N -> (1 <= T <= 16)%nat ->
  block16 key -> bytesb F = true -> (N.of_nat (List.length F) < 2 ^ 36)%N ->
  dec c hbuf T F key = FileModel.Ok out ->
  match src_decrypt_file c hbuf T F key rnd with
  | SOk (b, o, i, _) => b = true /\ o = out /\ i = F
  | SErr w => w = "out of fuel"%string \/ w = "step bound reached"%string
  end.
Proof. intros D1. exact (RefineE2EfDecFinal.decrypt_modulo_first_step_premises D1 RefineE2EfDecD2.dec_prepare_IV0_ok). Qed.
Print Assumptions decrypt_modulo_verify.
