(* Stage 5: execute_encrypt end to end, assembled: the two set-up steps of the main thread (hypothesis Hpre: they end in the
   canonical state of the whole-program layout), the concurrent phase (RefineE2EfRun.auto_run_middle with the real modes,
   RefineE2EfWOk.wlayout_ok), the last step (hypothesis Hsuf), and the file-level theorems (FileConcGlue, FileProofsDec). *)
From Coq Require Import ZArith NArith List String Bool Lia Arith ZifyN ZifyNat.
From Wencry Require Import Bytes AesModel ModesModel HashModel FileModel FileProps FileProofsDec FileConcGlue PipeConc PipeProps PipeLemmas
     MiniC MiniCLemmas MiniCRun MiniCConc SrcRun SrcRun2 SrcRun5.
From Wencry Require Import RefineConcPipe RefineE2EfPipe RefineConcDone RefineSeqVerify.
From Wencry Require ModesProofs.
From Wencry Require Import RefineE2EfLay RefineE2EfMach RefineE2EfMem RefineE2EfRel RefineE2EfGen RefineE2EfRun
     RefineE2EfWLay RefineE2EfWOk.
Import ListNotations.
Local Open Scope list_scope.

Section Enc.
Variables (c hbuf T : nat) (P key seed : list N) (cm hm : N).
Hypothesis EP : enc_params c hbuf T P key seed cm hm.
Hypothesis Hc32 : (N.of_nat (16 * c) < 2 ^ 32)%N.
Variable ke : mkind.
Hypothesis Hke : create true cm = Some ke.

Let ivs := iv_chain seed T.
Let iv16 := firstn 16 ivs.
Let hdr := file_header cm hm ivs T.

(* the layout of the concurrent phase *)
Variable PW : wpar.
Hypothesis Ekind : wp_kind PW = ke.
Hypothesis Eks : wp_ks PW = genall key.
Hypothesis Eiv : wp_iv PW = iv16.
Hypothesis Eout : wp_out0 PW = map Z.of_N hdr.
Hypothesis Epos : wp_pos0 PW = 0%nat.
Hypothesis OKW : wpar_ok PW.
Hypothesis DKW : wdone_ok PW.
Variable sm0 : memory.
Hypothesis Hsm0 : forall i, (i < T)%nat -> w_srep PW T i iv16 sm0.

Local Instance LYE : Layout := wlayout PW.
Local Instance LOE : LayoutOk := wlayout_ok PW OKW DKW.

Let cs0 := whole_init WEnc c hbuf T (Z.of_N cm) (Z.of_N hm) P key seed.
Let cs2 := cstate_md c T true P I_WaitUpdate (repeat W_New T) (d_init0 c T sm0) (g_init0 T).

(* the two set-up steps of the main thread *)
Hypothesis Hpre : forall fuel, enabled_list cs0 = [O] /\
  (cstep whole_prog [] fuel cs0 0 = NoFuel \/
   exists cs1 e1, cstep whole_prog [] fuel cs0 0 = Ok (cs1, e1) /\ enabled_list cs1 = [O] /\
     (cstep whole_prog [] fuel cs1 0 = NoFuel \/ exists e2, cstep whole_prog [] fuel cs1 0 = Ok (cs2, e2))).

(* the last step *)
Definition Qfin (s : pstate) (cs' : cstate) : Prop :=
  exists tag, hmac_model hbuf hm key (skipn iv_mark (hdr ++ concat (output _ s))) = Some tag /\
    out_bytes cs' = patch (hdr ++ concat (output _ s)) hmac_mark tag /\ main_result cs' = Some 1%Z /\ in_bytes cs' = P.
Hypothesis Hsuf : forall s cs, sim c T true P s cs -> terminal LS s = true -> forall fuel,
  cstep whole_prog [] fuel cs 0 = NoFuel \/
  exists cs' evs, cstep whole_prog [] fuel cs 0 = Ok (cs', evs) /\ Qfin s cs' /\ enabled_list cs' = [] /\ all_tdone cs' = true.

Theorem encrypt_from_parts : forall rnd,
  match src_encrypt_file c hbuf T cm hm P key seed rnd with
  | SOk (b, o, i, _) => b = true /\ enc c hbuf T P key cm hm seed = FileModel.Ok o /\ i = P
  | SErr w => w = "out of fuel"%string \/ w = "step bound reached"%string
  end.
Proof.
  intros rnd. pose proof EP as EP'. destruct EP as [Hc Hh HT HP Hkey Hseed Hcm Hhm HsP HsT HsS].
  assert (Hc32' : (16 * Z.of_nat c < 2 ^ 32)%Z) by lia.
  assert (HT16 : (1 <= T <= 16)%nat) by lia.
  unfold src_encrypt_file, src_whole, run_from.
  set (fuel := nat_of_N_tr _). set (steps := (2000 + 200 * T + 40 * (List.length P / (16 * c) + 1) * (T + 2))%nat).
  assert (Hsteps : exists n, steps = S (S n)).
  { exists (steps - 2)%nat. unfold steps. set (z := (40 * _ * _)%nat). lia. }
  destruct Hsteps as [n ->]. unfold auto_run. fold cs0.
  change (whole_init_from (process_init c hbuf) WEnc T (Z.of_N cm) (Z.of_N hm) P key seed) with cs0.
  destruct (Hpre fuel) as [EL0 H0].
  rewrite auto_run_with_S, EL0. cbv zeta. rewrite nth_single.
  destruct H0 as [E0|(cs1 & e1 & E0 & EL1 & H1)]; rewrite E0; [left; reflexivity|].
  rewrite auto_run_with_S, EL1. cbv zeta. rewrite nth_single.
  destruct H1 as [E1|(e2 & E1)]; rewrite E1; [left; reflexivity|].
  (* the concurrent phase *)
  assert (Hsim : sim c T true P (init LS T (Lsig0 T) (loads_of c true (skipn Lpos0 P))) cs2).
  { apply (sim_init c T true P Hc HT16 HP). intros i Hi. change (Lsig0 T) with (repeat (wp_iv PW) T). rewrite nth_repeat_lt by exact Hi.
    rewrite Eiv. apply Hsm0. exact Hi. }
  pose proof (auto_run_middle c T true P Hc Hc32' HT16 HP Qfin Hsuf n fuel (lcg (lcg rnd)) _ cs2 2%nat Hsim I) as G.
  destruct (auto_run_with prog n fuel (lcg (lcg rnd)) cs2 2) as [csf k| k| |w] eqn:ER.
  - (* done *)
    cbn [goodres] in G. destruct G as (s' & Hre & Hterm & (tag & Htag & Hout & Hres & Hin)).
    change (auto_run_with whole_prog n fuel (lcg (lcg rnd)) cs2 2) with (auto_run_with prog n fuel (lcg (lcg rnd)) cs2 2). rewrite ER.
    rewrite Hres. split; [reflexivity|]. split; [|exact Hin].
    rewrite Hout.
    (* the model: every terminating schedule writes the body *)
    destruct (enc_pieces c hbuf T P key seed cm hm EP') as (F & ke' & kd & body & HF & Hke' & Hkd & Hpc & _).
    rewrite Hke in Hke'. injection Hke' as <-.
    assert (Hwfl : wfl (loads_of c true P)).
    { apply (wfl_enc c Hc (List.length P)); [rewrite sum_eq; nia|apply ModesProofs.bytesb_bytes; exact HP]. }
    destruct Hre as [sched Hrun]. change Lpos0 with (wp_pos0 PW) in Hrun. rewrite Epos in Hrun. cbn [skipn] in Hrun.
    destruct (every_schedule (aes_enc key) (aes_dec key) ke T c true iv16 (loads_of c true P) body HT Hwfl Hpc sched s') as [Hbody _].
    { change (Lsig0 T) with (repeat (wp_iv PW) T) in Hrun. rewrite Eiv in Hrun.
      change LS with (list N) in Hrun. change Ltr with (runcry (aes_enc_with (wp_ks PW)) (aes_dec_with (wp_ks PW)) (wp_kind PW)) in Hrun.
      rewrite Eks, Ekind in Hrun. exact Hrun. }
    { exact Hterm. }
    change (output St s') with (output (list N) s') in *. rewrite Hbody in *.
    apply (enc_ok c hbuf T P key cm hm seed ke body tag Hke); [exact Hpc|exact Htag].
  - cbn [goodres] in G. contradiction.
  - change (auto_run_with whole_prog n fuel (lcg (lcg rnd)) cs2 2) with (auto_run_with prog n fuel (lcg (lcg rnd)) cs2 2). rewrite ER. right. reflexivity.
  - cbn [goodres] in G. subst w.
    change (auto_run_with whole_prog n fuel (lcg (lcg rnd)) cs2 2) with (auto_run_with prog n fuel (lcg (lcg rnd)) cs2 2). rewrite ER. left. reflexivity.
Qed.

End Enc.
