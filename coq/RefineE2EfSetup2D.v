(* Stage 5, execute_decrypt, second set-up step on the machine: from cs1_dec (main thread at the lock of buffergroup::get_instance) to the canonical state of the
   layout instance PWd, given the two sequential stretches (RefineE2EfDecSpec.gi_if_spec_d / pa_rest_spec_d).  Decrypt copy of RefineE2EfSetup2. *)
From Coq Require Import ZArith NArith List String Bool Lia Ascii Arith.
From Wencry Require Import Bytes AesModel ModesModel HashModel FileSpec FileModel FileProps PipeConc MiniC MiniCLemmas MiniCRun MiniCConc SrcRun SrcRun2 SrcRun5 PipeLemmas RefineE2EWhole.
From Wencry Require Import RefineSeqDefs RefineSeqA RefineSeqB.
From Wencry Require RefineSeq RefineAesLib RefineConcMem.
From Wencry Require Import RefineE2EfLay RefineE2EfMach RefineE2EfMem RefineE2EfTac RefineE2EfStepW RefineE2EfStepI RefineE2EfGen RefineE2EfWNames RefineE2EfWLay RefineE2EfWStream RefineE2EfWOk
     RefineE2EfTail RefineE2EfEncDefs RefineE2EfHashSpec RefineE2EfEnc2 RefineE2EfHashB3 RefineE2EfSetup1 RefineE2EfSetup2Spec RefineE2EfSetup2 RefineE2EfDecSpec RefineE2EfDecInst.
From Wencry.Gen Require Src_conc Src_whole.
Import ListNotations.
Local Open Scope list_scope.
Local Open Scope string_scope.

Section SecondD.
Variables (c hbuf T : nat) (F key : list N) (h n : nat) (extra : memory) (pextra : locs) (kd : mkind).
Hypothesis HT : (1 <= T <= 16)%nat.
Hypothesis Hkey : block16 key.
Hypothesis Hiv : block16 (firstn 16 (skipn 48 F)).
Hypothesis Hn : (n < h)%nat.
Hypothesis Hext : ext_mem_ok h extra = true.
Hypothesis Hpext : ext_ptr_ok h pextra = true.
Notation PW := (PWd hbuf T F key h n extra pextra kd).
Hypothesis GI : gi_if_spec_d c hbuf T F key h n extra pextra kd.
Hypothesis PA : pa_rest_spec_d c hbuf T F key h n extra pextra kd.

Let OKW : wpar_ok PW := PWdec_ok hbuf T F key HT Hkey Hiv h n extra pextra kd Hn Hext Hpext.
Let Ekb : forall T0 pad, wp_kb PW T0 pad = kbot_of release_call dec_K1 := fun _ _ => eq_refl.
Let Etd : forall T0 pad, wp_tdone PW T0 pad = tdone_of release_call dec_K1 (wp_blocs PW T0 pad) (wp_bpre PW) := fun _ _ => eq_refl.
Local Instance LY2 : Layout := wlayout PW.
Local Instance LO2 : LayoutOk := wlayout_ok PW OKW (DKT PW OKW Ekb Etd).

Let cs1 := cs1_dec c hbuf T F key h n extra pextra.

(* ---------------- the spawn loop of run_multicry ---------------- *)
Definition tkey (i : nat) : string := ptr_key (wp_cp PW ++ "threads")%string (8 * Z.of_nat i).
Definition tval (i : nat) : value := VInt (Z.of_nat (S i)).
Definition pbase : locs := ptrs_based hbuf T F key h n extra pextra kd.
Definition ptrs_k (k : nat) : locs := (pbase ++ map (fun i => (tkey i, tval i)) (seq 0 k))%list.
Definition sh_k (sm0 : memory) (k : nat) : state :=
  {| mem := w_mem_of PW c T false (@d_init0 LY2 c T sm0); loc := []; pre := ""; files := F1d T F; ptrs := ptrs_k k; fresh := h + 4 + T |}.
Definition wk (i : nat) : cthread := worker_thread i W_New (wl0 i).
Definition thr_k (t1 : cthread) (k : nat) : list cthread := t1 :: map wk (seq 0 k).
Definition sp_loop : stmt := s_fst (s_snd B_rm).
Definition rm_l (k : nat) : locs := [("mode", VPtr (wMA PW) 0); ("i", VInt (Z.of_nat k))].

Lemma ptrs_T : ptrs_k T = w_ptrs_of PW T.
Proof. unfold ptrs_k, pbase. rewrite ptrs_based_eq. reflexivity. Qed.

Lemma lget_ptrs_k : forall k kk, (forall j, String.eqb kk (tkey j) = false) -> lget (ptrs_k k) kk = lget (w_ptrs_of PW T) kk.
Proof.
  intros k kk H. rewrite <- ptrs_T. unfold ptrs_k. rewrite !RefineConcMem.lget_app.
  destruct (lget pbase kk); [reflexivity|].
  rewrite !(RefineConcMem.lget_map_none _ tkey tval) by exact H. reflexivity.
Qed.

Lemma tkey_shape : forall i, exists r, tkey i = String "r" r.
Proof. intros i. destruct (thr_key_shape PW OKW (8 * Z.of_nat i)) as (r & E & _). exists r. exact E. Qed.

Lemma lget_pbase_tkey : forall k, lget pbase (tkey k) = None.
Proof.
  intros k. destruct (thr_key_shape PW OKW (8 * Z.of_nat k)) as (r & E1 & E2). fold (tkey k) in E1, E2.
  assert (Hnn : hnum (tkey k) = None) by (rewrite E1; reflexivity).
  assert (Hc : forall x, String.eqb (tkey k) (class_key x) = false) by (intros x; rewrite E1; reflexivity).
  unfold pbase, ptrs_based. rewrite !RefineConcMem.lget_app.
  rewrite E2 at 1. rewrite (pframe_thr PW _ _ (wo_pA PW OKW T)). cbn [lget].
  replace (String.eqb (tkey k) "instance") with false by (rewrite E1; reflexivity).
  rewrite E2 at 1. rewrite (pframe_thr PW _ _ (wo_pB PW OKW T)).
  assert (C5 : lget (core5 PW) (tkey k) = None).
  { unfold core5. cbn [lget]. rewrite Hc.
    rewrite !(String.eqb_sym (tkey k) (wGP PW ++ _)).
    rewrite !(hnum_none_neq _ _ _ (hnum_GP PW _) Hnn). reflexivity. }
  rewrite C5.
  rewrite (RefineConcMem.lget_map_none _ (fun i => class_key (wbp PW i))) by (intros; apply Hc).
  rewrite (RefineConcMem.lget_map_none _ (fun i => class_key (wcp PW i))) by (intros; apply Hc).
  rewrite E2 at 1. rewrite (pframe_thr PW _ _ (wo_pC PW OKW T)).
  rewrite lget_flat_none; [reflexivity|].
  intros j. unfold stream_ptrs. cbn [lget]. rewrite Hc. rewrite String.eqb_sym, (hnum_none_neq _ _ _ (hnum_MAkey PW (8 * Z.of_nat j) ltac:(lia)) Hnn). reflexivity.
Qed.

Lemma lset_absent : forall A (l : list (string * A)) k v, lget l k = None -> lset l k v = (l ++ [(k, v)])%list.
Proof. induction l as [|[k' v'] l IH]; intros k v H; cbn [lset lget app] in *; [reflexivity|]. destruct (String.eqb k k'); [discriminate H|]. f_equal. apply IH. exact H. Qed.

Lemma lget_map_in_none : forall A (kf : nat -> string) (v : nat -> A) l k, (forall j, In j l -> String.eqb k (kf j) = false) ->
  lget (map (fun i => (kf i, v i)) l) k = None.
Proof. induction l as [|x l IH]; intros k H; cbn [map lget]; [reflexivity|]. rewrite (H x (or_introl eq_refl)). apply IH. intros j Hj. apply H. right. exact Hj. Qed.

Lemma ptrs_k_S : forall k, lset (ptrs_k k) (tkey k) (tval k) = ptrs_k (S k).
Proof.
  intros k. rewrite lset_absent.
  - unfold ptrs_k. rewrite seq_S, map_app, app_assoc. reflexivity.
  - unfold ptrs_k. rewrite RefineConcMem.lget_app, lget_pbase_tkey.
    apply (lget_map_in_none _ tkey tval). intros j Hj. apply in_seq in Hj.
    unfold tkey. rewrite RefineConcMem.ptr_key_eqb by lia. apply Z.eqb_neq. lia.
Qed.

Lemma m_spawn_mf : forall sh l p k stt args cell off fargs, eval_list (tst sh l p) args = Ok (VPtr cell off :: fargs) ->
  micro prog vt (mk (SPrim None "spawn:multiruncrypt_file/2" args) k l p stt) sh =
  Ok (cont_conf k l p stt, sh, RSpawn "multiruncrypt_file/2" fargs (ptr_key cell off)).
Proof.
  intros sh l p k stt args cell off fargs H. unfold RefineE2EfLay.mk, micro, cont_conf. cbn [ct_cur ct_k ct_loc ct_pre ct_st].
  change (thread_state sh {| ct_cur := SPrim None "spawn:multiruncrypt_file/2" args; ct_k := k; ct_loc := l; ct_pre := p; ct_st := stt |}) with (tst sh l p).
  change (is_sync_prim "spawn:multiruncrypt_file/2") with true. cbv iota. rewrite H. cbn [bind].
  change (String.eqb "spawn:multiruncrypt_file/2" "lock") with false. change (String.eqb "spawn:multiruncrypt_file/2" "unlock") with false.
  change (String.eqb "spawn:multiruncrypt_file/2" "cv_wait") with false. change (String.eqb "spawn:multiruncrypt_file/2" "notify_all") with false.
  change (String.eqb "spawn:multiruncrypt_file/2" "join") with false. change (String.eqb "spawn:multiruncrypt_file/2" "wv_yield") with false.
  change (String.eqb "spawn:multiruncrypt_file/2" "wv_ev") with false. cbv iota.
  change (substring 6 (String.length "spawn:multiruncrypt_file/2") "spawn:multiruncrypt_file/2") with "multiruncrypt_file/2".
  destruct (next_of k l p) as [[[[st' k'] l'] p']|]; reflexivity.
Qed.

Definition sp_cond : expr := EBin TBool Lt (ECast I32 (EVar "i")) (ECast I32 (ELoad U8 (EField "THREADS_NUM"))).
Lemma sp_cond_eval : forall sm0 k k', (k <= 16)%nat -> (T <= 16)%nat ->
  eval (tst (sh_k sm0 k') (rm_l k) "rc.crym.") sp_cond = Ok (VInt (if (k <? T)%nat then 1 else 0)).
Proof.
  intros sm0 k k' Hk HT16. unfold sp_cond.
  cbn [eval tst loc pre mem sh_k rm_l lget String.eqb Ascii.eqb Bool.eqb append bind as_int].
  change "rc.crym.THREADS_NUM" with (wp_cp PW ++ "THREADS_NUM")%string.
  rewrite (w_mget_threads PW OKW). rewrite load_cell. cbn [bind as_int].
  rewrite (wrap_U8_small (Z.of_nat T)) by lia. rewrite !wrap_I32_small by lia.
  cbn [eval_bin bind]. destruct (Nat.ltb_spec k T) as [L|L].
  - replace (Z.of_nat k <? Z.of_nat T)%Z with true by (symmetry; apply Z.ltb_lt; lia). reflexivity.
  - replace (Z.of_nat k <? Z.of_nat T)%Z with false by (symmetry; apply Z.ltb_ge; lia). reflexivity.
Qed.

Lemma spawn_loop : forall sm0 t1 K m k, (k + m = T)%nat -> forall B R,
  exr 0 B false (cont_conf K (rm_l T) "rc.crym." TRun) (C (sh_k sm0 T) (thr_k t1 T) []) [] R ->
  exr 0 (3 * m + 1 + B) false (mk sp_loop K (rm_l k) "rc.crym." TRun) (C (sh_k sm0 k) (thr_k t1 k) []) [] R.
Proof.
    intros sm0 t1 K m. induction m as [|m IH]; intros k Hk B R H.
  - assert (k = T) by lia. subst k. cbn [Nat.mul Nat.add].
    unfold sp_loop. cbv [s_fst s_snd B_rm f_body Src_conc.f_multicry_master_run_multicry_2]. fold sp_cond.
    eapply r_none; [discriminate | right; reflexivity | eapply m_loop_exit | exact H].
    rewrite sp_cond_eval by lia. rewrite Nat.ltb_irrefl. reflexivity.
  - replace (3 * S m + 1 + B)%nat with (S (S (S (3 * m + 1 + B)))) by lia.
    unfold sp_loop. cbv [s_fst s_snd B_rm f_body Src_conc.f_multicry_master_run_multicry_2]. fold sp_cond.
    eapply r_none; [discriminate | right; reflexivity | eapply m_loop_enter with (x := 1%Z); [|reflexivity] | ].
    { rewrite sp_cond_eval by lia. replace (k <? T)%nat with true by (symmetry; apply Nat.ltb_lt; lia). reflexivity. }
    assert (Emode : lget (ptrs_k k) (ptr_key (wMA PW) (8 * Z.of_nat k)) = Some (VPtr (wmp PW k) 0)).
    { rewrite lget_ptrs_k; [apply (w_lget_mode_cell PW OKW); lia|].
      intros j. destruct (tkey_shape j) as [r ->]. apply (hnum_none_neq _ (String "r" r) _ (hnum_MAkey PW (8 * Z.of_nat k) ltac:(lia))). reflexivity. }
    eapply (r_spawn 0 R _ false _ _ _ _ _ _ _ "multiruncrypt_file/2" [VInt (Z.of_nat k); VPtr (wmp PW k) 0] (tkey k) Src_conc.f_multiruncrypt_file_2 (wl0 k));
      [discriminate | right; reflexivity | | reflexivity | reflexivity | ].
    { replace (tkey k) with (ptr_key "rc.crym.threads" (0 + Z.of_nat k * 8)) by (unfold tkey; f_equal; lia).
      apply m_spawn_mf.
      cbn [eval_list eval tst loc pre rm_l lget String.eqb Ascii.eqb Bool.eqb append bind as_int ptrs sh_k].
      replace (0 + Z.of_nat k * 8)%Z with (8 * Z.of_nat k)%Z by lia. rewrite Emode. reflexivity. }
    cbn [cont_conf next_of].
    assert (Esh : with_ptrs (sh_k sm0 k) (lset (ptrs (sh_k sm0 k)) (tkey k) (VInt (Z.of_nat (List.length (thr_k t1 k))))) = sh_k sm0 (S k)).
    { unfold thr_k. cbn [List.length]. rewrite map_length, seq_length. unfold with_ptrs, sh_k. cbn [ptrs mem loc pre files fresh].
      fold (tval k). rewrite ptrs_k_S. reflexivity. }
    assert (Eth : (thr_k t1 k ++ [RefineSeqB.mk (f_body Src_conc.f_multiruncrypt_file_2) KStop (wl0 k) "" TRun])%list = thr_k t1 (S k)).
    { unfold thr_k. rewrite seq_S, map_app. reflexivity. }
    rewrite Esh, Eth.
    eapply r_none; [discriminate | right; reflexivity | eapply m_set with (v := VInt (Z.of_nat (S k))); [reflexivity|] | ].
    { cbn [eval tst loc pre rm_l lget String.eqb Ascii.eqb Bool.eqb bind as_int].
      rewrite wrap_I32_small by lia. cbn [eval_bin bind]. rewrite arith_I32_small by lia. cbn [bind as_int]. rewrite wrap_U8_small by lia.
      do 2 f_equal. lia. }
    cbn [cont_conf next_of lset rm_l String.eqb Ascii.eqb Bool.eqb].
    apply (IH (S k) ltac:(lia) B R H).
Qed.

Lemma sh_T_eq : forall sm0, sh_k sm0 T = @sh_of LY2 c T false F (@d_init0 LY2 c T sm0).
Proof.
  intros sm0. unfold sh_k, sh_of. rewrite ptrs_T. unfold files_of, F1d, stream.
  cbn [d_init0 d_pos d_eof d_out Lpos0 Lout0 LY2 wlayout wp_pos0 wp_out0 PWd PWdec]. reflexivity.
Qed.

Lemma second_exr : exists sm0 : memory,
  (forall i, (i < T)%nat -> w_srep PW T i (firstn 16 (skipn 48 F)) sm0) /\
  exists B e2, exr 0 B true (t1_dec F (heap_name n)) cs1 []
    (@cstate_md LY2 c T false F I_WaitUpdate (repeat W_New T) (@d_init0 LY2 c T sm0) (@g_init0 LY2 T), e2).
Proof.
    destruct GI as [fG EG]. destruct PA as (fP & sm0 & lY & Hsm & EPA).
  exists sm0. split; [exact Hsm|].
  set (Kpa := KCall (Some "$t1") (pa_locs1d F (heap_name n)) "rc." (KSeq pa_rest (Ked F (heap_name n)))).
  destruct (RefineSeq.sim whole_prog [] _ _ _ _ _ _ gi_if2_wf EG (KSeq gi_unlock (KSeq gi_ret Kpa)) TRun ltac:(discriminate)) as [nG MSG].
  set (Kee := Ked F (heap_name n)).
  pose proof (RefineSeq.sim whole_prog [] _ _ _ _ _ _ pa_rest_wf EPA Kee TRun ltac:(discriminate)) as SP.
  cbn [RefineSeq.sim_goal] in SP.
  destruct (SP (Some "$t4") (ed_locs1 F (heap_name n)) "rc." _ _ eq_refl eq_refl) as [nP MSP]. clear SP.
  eexists. eexists.
  unfold cs1, cs1_dec, t1_dec.
  set (t1 := mk (SPrim None "lock" [EGlobal "mtx"]) (KSeq gi_rest (KSeq gi_ret Kpa)) [] "rc." TRun).
  (* the lock; `if (!instance) instance = new buffergroup`; unlock; return *)
  eapply r_lock; [discriminate | left; reflexivity | eapply m_lock; reflexivity | reflexivity | cbn [cont_conf next_of]].
  unfold gi_rest at 1. cbv [s_snd s_then s_fst gi_body f_body Src_conc.f_buffergroup_get_instance_0].
  eapply r_none; [discriminate | right; reflexivity | apply m_seq | ].
  eapply (@leads_mstar LY2 0 _ _ _ _ _ [t1] [("mtx", 0%nat)] [] MSG).
  cbn [cont_conf next_of loc pre s_lockd s_newd]. unfold gi_unlock, gi_rest. cbv [s_snd s_then s_fst gi_body f_body Src_conc.f_buffergroup_get_instance_0].
  eapply r_unlock; [discriminate | right; reflexivity | eapply m_unlock; reflexivity | cbn [cont_conf next_of mx_release]; rewrite ?String.eqb_refl].
  eapply r_none; [discriminate | right; reflexivity | | ].
  { unfold gi_ret. cbv [s_snd gi_body f_body Src_conc.f_buffergroup_get_instance_0].
    eapply m_return with (v := VPtr (wGP PW) 0); [ | reflexivity | reflexivity].
    cbn [eval tst ptrs shared_of s_newd bind]. unfold PtGd. rewrite lget_lset_same. reflexivity. }
  cbn [loc with_loc tst set_ret lset].
  eapply r_none; [discriminate | right; reflexivity | apply m_skip | cbn [cont_conf next_of]].
  eapply (@leads_mstar LY2 0 _ _ _ _ _ [t1] [] [] MSP).
  cbn [cont_conf next_of loc set_ret lset]. unfold ed_rest, ed_then. cbv [s_snd s_fst s_then ed_body f_body Src_whole.f_runcrypt_execute_decrypt_1].
  cbn [cont_conf next_of].
  cbn [loc with_loc].
  eapply r_none; [discriminate | right; reflexivity | apply m_seq | ].
  eapply r_none; [discriminate | right; reflexivity | eapply m_set with (v := VPtr (wMA PW) 0); reflexivity | cbn [cont_conf next_of]].
  eapply r_none; [discriminate | right; reflexivity | apply m_seq | ].
  eapply r_none; [discriminate | right; reflexivity | | ].
  { eapply (m_call _ _ _ _ _ None "multicry_master::run_multicry/2" (Some (EField "crym.")) [EVar "mode"] [VPtr (wMA PW) 0] "rc.crym."
              Src_conc.f_multicry_master_run_multicry_2 [("mode", VPtr (wMA PW) 0)]); reflexivity. }
  cbn [f_body Src_conc.f_multicry_master_run_multicry_2].
  eapply r_none; [discriminate | right; reflexivity | apply m_seq | ].
  eapply r_none; [discriminate | right; reflexivity | eapply m_set with (v := VInt 0); reflexivity | cbn [cont_conf next_of]].
  eapply r_none; [discriminate | right; reflexivity | apply m_seq | ].
  replace (shared_of (s_pa1d c hbuf T F key h n extra pextra kd sm0 lY)) with (sh_k sm0 0)
    by (unfold sh_k, ptrs_k, pbase, s_pa1d, shared_of; cbn [mem files ptrs fresh seq map]; rewrite app_nil_r; reflexivity).
  change [t1] with (thr_k t1 0).
  change (lset [("mode", VPtr (wMA PW) 0)] "i" (VInt 0)) with (rm_l 0).
  match goal with |- exr 0 _ false (RefineSeqB.mk ?st ?K _ _ _) _ _ _ => change st with sp_loop; set (K0 := K) end.
  eapply (spawn_loop sm0 t1 K0 T 0 eq_refl).
  unfold K0. cbn [cont_conf next_of]. rewrite sh_T_eq.
  pose proof (fun l => @rd_turn LY2 LO2 c T false F (@d_init0 LY2 c T sm0) l ltac:(cbn [d_init0 d_turn]; lia) ltac:(lia)) as RTu.
  cbn [d_init0 d_turn] in RTu.
  mstep. mstep. msteps. change (elem_pfx CT 0) with (cpfx 0). msteps.
  eapply r_stop with (n := 0%nat); [discriminate | reflexivity | ].
  assert (Elist : map wk (seq 0 T) = map (fun i => worker_thread i (nth i (repeat W_New T) W_Done) (nth i (g_wl (@g_init0 LY2 T)) [])) (seq 0 T)).
  { apply map_ext_in. intros i Hi. apply in_seq in Hi. unfold wk, g_init0. cbn [g_wl].
    rewrite nth_repeat_lt by lia.
    replace (nth i (map wl0 (seq 0 T)) []) with (wl0 i); [reflexivity|].
    symmetry. rewrite (nth_indep _ [] (wl0 0)) by (rewrite map_length, seq_length; lia).
    rewrite map_nth. rewrite seq_nth by lia. reflexivity. }
  f_equal. unfold put, C, cstate_md, thr_k, threads_of. cbn [cs_sh cs_thr cs_mx set_nth_t d_init0 d_turn]. rewrite Elist. reflexivity.
Qed.


Lemma second_step : exists sm0 : memory,
  (forall i, (i < T)%nat -> w_srep PW T i (firstn 16 (skipn 48 F)) sm0) /\
  let cs2 := @cstate_md (wlayout PW) c T false F I_WaitUpdate (repeat W_New T) (@d_init0 (wlayout PW) c T sm0) (@g_init0 (wlayout PW) T) in
  forall fuel, cstep whole_prog [] fuel cs1 0 = NoFuel \/ exists e2, cstep whole_prog [] fuel cs1 0 = Ok (cs2, e2).
Proof.
  destruct second_exr as (sm0 & Hsm & B & e2 & HX). exists sm0. split; [exact Hsm|]. cbv zeta.
  destruct (cstep_run B (sh1_dec c hbuf T F key h extra pextra) [t1_dec F (heap_name n)] 0 (t1_dec F (heap_name n)) _ eq_refl eq_refl eq_refl HX)
    as (Fu & _ & HF).
  intros fuel. destruct (@cstep_total LY2 Fu cs1 0 _ HF fuel) as [E|E]; [left; exact E|right; exists e2; exact E].
Qed.
End SecondD.

Check second_step.
Print Assumptions second_step.
