(* Refinement for the chunk buffer: iobuffer::load_buffer / export_buffer translated from
   kernel/multi_aes/multi_buffergroup.cpp (Gen/Src_iobuffer.v) vs FileModel.loads_of / export. *)
From Coq Require Import ZArith NArith List String Bool.
From Wencry Require Import Bytes FileModel MiniC MiniCRun SrcRun RefineIobuffer.
Import ListNotations.
Local Open Scope N_scope.

(* the sequence of loads over any input, both directions, any chunk size *)
Theorem SRC_loads : forall c (ispadding : bool) input,
  (1 <= c)%nat -> N.of_nat (16 * c) < 2 ^ 32 -> bytesb input = true ->
  src_loads c ispadding input = SOk (loads_of c ispadding input).
Proof. exact SRC_loads_proof. Qed.
Print Assumptions SRC_loads.

(* export of a buffer of which `now` blocks were consumed *)
Theorem SRC_export : forall c (ispadding : bool) now (isfinal : bool) data,
  (1 <= c)%nat -> N.of_nat (16 * c) < 2 ^ 32 -> (now <= c)%nat -> length data = (16 * c)%nat -> bytesb data = true ->
  exists out, export c ispadding {| ld_data := []; ld_total := now; ld_final := isfinal |} data = FileModel.Ok out /\
              src_export_on c ispadding now isfinal data = SOk out.
Proof. exact SRC_export_proof. Qed.
Print Assumptions SRC_export.
