(* PARALLEL3, B1, MIDDLE part: inside buffergroup::set_buffergroup, statements 6..9:
     (statement 6, `$t1 = new iobuffer[$t3]`, is in RefineE2EfSetup2B1.v of proof-conc)
     $t2 = 0; for (; $t2 < $t3; $t2++) iobuffer::iobuffer() on $t1[$t2]; buflst = $t1
   on an explicit state: the constructors store 0 over 0 (nothing changes), the member "buflst" is set in place. *)
From Coq Require Import ZArith NArith List String Bool Lia PeanoNat Ascii.
From Wencry Require Import Bytes ModesModel HashModel FileModel FileProps MiniC MiniCRun MiniCLemmas SrcRun SrcRun2 SrcRun5 RefineE2EWhole RefineE2ENames
     RefineE2EfLay RefineE2EfWNames RefineE2EfWLay RefineE2EfWStream RefineE2EfGen RefineE2EfEncDefs RefineE2EfHashSpec RefineE2EfEnc2
     RefineE2EfHashB2 RefineE2EfHashB3 RefineE2EfSetup1 RefineE2EfSetup2Spec RefineE2EfSetup2B3 RefineE2EfSetup2Tail RefineE2EfSetup2B1e.
From Wencry Require RefineFileBase RefineConcMem RefineConcSim.
From Wencry.Gen Require Src_conc.
Import ListNotations.
Local Open Scope list_scope.
Local Open Scope string_scope.
Local Open Scope Z_scope.

Definition objs_iob : list (string * ity * Z) := [("b", U8, 16777216); ("total", U32, 1); ("now", U32, 1); ("tail", U32, 1); ("isfinal", TBool, 1)].
Definition iob_loop : stmt :=
  SLoop (EBin TBool Lt (EVar "$t2") (EVar "$t3")) (SCall None "iobuffer::iobuffer/0" (Some (EElem (EVar "$t1") (EVar "$t2"))) [])
        (SSet "$t2" (EBin I64 Add (EVar "$t2") (EConst 1))).

Section Iob.
Variable q : nat.
Variable c : nat.
Notation bl := (heap_name q).
Definition bp (i : nat) : string := elem_pfx bl i.
Definition iob0 (i : nat) : memory :=
  [(bp i ++ "b", {| o_ty := U8; o_cells := repeat 0 (16 * c) |}); (bp i ++ "total", cell U32 0); (bp i ++ "now", cell U32 0);
   (bp i ++ "tail", cell U32 0); (bp i ++ "isfinal", cell TBool 0)].
Lemma bp_hash : forall i x, exists r, bp i ++ x = String "#"%char r.
Proof. intros i x. unfold bp, RefineConcSim.elem_pfx, heap_name. cbn [append]. eauto. Qed.
Lemma bp_eqb : forall i j a b, String.eqb (bp i ++ a) (bp j ++ b) = Nat.eqb i j && String.eqb a b.
Proof. intros. apply RefineConcMem.elem_pfx_eqb. Qed.
Lemma iob0_keys : forall i k, mget (iob0 i) k <> None -> exists x, k = bp i ++ x.
Proof.
  intros i k. unfold iob0. cbn [mget].
  repeat match goal with |- context [String.eqb k ?x] => destruct (String.eqb_spec k x) as [->|_]; [intros _; eauto|] end. congruence.
Qed.

(* the constructor stores 0 over 0 four times: nothing changes *)
Variables (M : memory) (T : nat).
Hypothesis HT : (T <= 255)%nat.
Hypothesis HMi : forall i, (i < T)%nat -> mget M (bp i ++ "total") = Some (cell U32 0) /\ mget M (bp i ++ "now") = Some (cell U32 0) /\
                                         mget M (bp i ++ "tail") = Some (cell U32 0) /\ mget M (bp i ++ "isfinal") = Some (cell TBool 0).
Lemma iob_ctor : forall fuel i l0 p0 fs ps fr, (6 <= fuel)%nat -> (i < T)%nat ->
  call whole_prog [] fuel "iobuffer::iobuffer/0" (bp i) [] {| mem := M; loc := l0; pre := p0; files := fs; ptrs := ps; fresh := fr |}
  = Ok (None, {| mem := M; loc := l0; pre := p0; files := fs; ptrs := ps; fresh := fr |}).
Proof.
  intros fuel i l0 p0 fs ps fr Hf Hi. eapply call_mono; [|exact Hf]. destruct (HMi i Hi) as (H1 & H2 & H3 & H4).
  unfold call. rewrite (conc_in_whole _ _ (eq_refl : lget Src_conc.functions "iobuffer::iobuffer/0" = Some Src_conc.f_iobuffer_iobuffer_0)).
  cbn [f_params f_body Src_conc.f_iobuffer_iobuffer_0 bind_params bind mem loc pre files ptrs fresh].
  rewrite exec_seq. rewrite (RefineFileBase.x_store whole_prog []). cbn [eval bind as_int pre mem]. rewrite H1.
  change (store_obj (cell U32 0) U32 0 (wrap U32 0)) with (Ok (cell U32 0) : res object). cbn [bind]. unfold with_mem. cbn [mem loc pre files ptrs fresh].
  rewrite (mset_same_val _ _ _ H1).
  rewrite exec_seq. rewrite (RefineFileBase.x_store whole_prog []). cbn [eval bind as_int pre mem]. rewrite H2.
  change (store_obj (cell U32 0) U32 0 (wrap U32 0)) with (Ok (cell U32 0) : res object). cbn [bind]. unfold with_mem. cbn [mem loc pre files ptrs fresh].
  rewrite (mset_same_val _ _ _ H2).
  rewrite exec_seq. rewrite (RefineFileBase.x_store whole_prog []). cbn [eval bind as_int pre mem]. rewrite H3.
  change (store_obj (cell U32 0) U32 0 (wrap U32 0)) with (Ok (cell U32 0) : res object). cbn [bind]. unfold with_mem. cbn [mem loc pre files ptrs fresh].
  rewrite (mset_same_val _ _ _ H3).
  rewrite (RefineFileBase.x_store whole_prog []). cbn [eval bind as_int pre mem]. rewrite H4.
  change (store_obj (cell TBool 0) TBool 0 0) with (Ok (cell TBool 0) : res object). cbn [bind]. unfold with_mem. cbn [mem loc pre files ptrs fresh].
  rewrite (mset_same_val _ _ _ H4). reflexivity.
Qed.

Lemma iob_loop_w : forall d j l pg fs ps fr, (j + d = T)%nat ->
  lget l "$t2" = Some (VInt (Z.of_nat j)) -> lget l "$t3" = Some (VInt (Z.of_nat T)) -> lget l "$t1" = Some (VPtr bl 0) ->
  exists l', exec whole_prog [] (20 + d) iob_loop {| mem := M; loc := l; pre := pg; files := fs; ptrs := ps; fresh := fr |} =
    Ok (Normal, {| mem := M; loc := l'; pre := pg; files := fs; ptrs := ps; fresh := fr |}) /\ (forall x, x <> "$t2" -> lget l' x = lget l x).
Proof.
  induction d as [|d IH]; intros j l pg fs ps fr Hd L5 L6 L4.
  - exists l. split; [|reflexivity]. assert (j = T) by lia. subst j. change (20 + 0)%nat with (S 19). unfold iob_loop. rewrite exec_loop.
    cbn [eval bind as_int loc]. rewrite L5, L6. cbn [bind as_int eval_bin]. rewrite Z.ltb_irrefl. cbn [bind as_int]. change (0 =? 0) with true. cbv iota. reflexivity.
  - assert (Hj : (j < T)%nat) by lia.
    set (l2 := lset l "$t2" (VInt (Z.of_nat (S j)))).
    destruct (IH (S j) l2 pg fs ps fr ltac:(lia)) as (l' & EL & L4').
    { unfold l2. apply lget_lset_same. }
    { unfold l2. rewrite lget_lset_other by discriminate. exact L6. }
    { unfold l2. rewrite lget_lset_other by discriminate. exact L4. }
    exists l'. split; [|intros x Hx; rewrite (L4' x Hx); unfold l2; apply lget_lset_other; congruence].
    replace (20 + S d)%nat with (S (S (19 + d))) by lia. unfold iob_loop. rewrite exec_loop.
    cbn [eval bind as_int loc]. rewrite L5, L6. cbn [bind as_int eval_bin].
    destruct (Z.ltb_spec (Z.of_nat j) (Z.of_nat T)); [|lia]. cbn [bind as_int]. change (1 =? 0) with false. cbv iota.
    rewrite (RefineFileBase.x_scall whole_prog [] (19 + d) None "iobuffer::iobuffer/0" (Some (EElem (EVar "$t1") (EVar "$t2"))) []
               {| mem := M; loc := l; pre := pg; files := fs; ptrs := ps; fresh := fr |} [] (bp j) None _ _ eq_refl
               ltac:(cbn [this_prefix eval bind as_int loc]; rewrite L4, L5; reflexivity)
               (iob_ctor (19 + d) j l pg fs ps fr ltac:(lia) Hj) eq_refl).
    cbn [bind]. rewrite exec_set. cbn [eval bind as_int loc]. rewrite L5. cbn [bind as_int eval_bin].
    rewrite arith_I64_small by (change (2 ^ 63) with 9223372036854775808; lia). cbn [bind]. unfold with_loc. cbn [mem loc pre files ptrs fresh].
    replace (Z.of_nat j + 1) with (Z.of_nat (S j)) by lia. fold l2. fold iob_loop.
    rewrite (exec_mono _ _ _ _ _ _ EL) by lia. reflexivity.
Qed.
End Iob.

(* ---------------- the instance: statements 7.. of buffergroup::set_buffergroup in execute_encrypt ---------------- *)
Definition sb_from7 : stmt := s_snd (s_snd (s_snd (s_snd (s_snd (s_snd (f_body Src_conc.f_buffergroup_set_buffergroup_4)))))).

Section B1Mid.
Variables (c hbuf T : nat) (P key seed : list N) (cm hm : N) (h n : nat) (extra : memory) (pextra : locs) (ke : mkind).
Hypothesis EP : enc_params c hbuf T P key seed cm hm.
Hypothesis Hn : (n < h)%nat.
Hypothesis Hext : ext_mem_ok h extra = true.
Hypothesis Hpext : ext_ptr_ok h pextra = true.
Hypothesis Hnosz : no_sizeof_names extra = true.
Notation PW := (PW2 hbuf T P key seed cm hm h n extra pextra ke).
Let OKW : wpar_ok PW := PWenc_ok c hbuf T P key seed cm hm EP h n extra pextra ke Hn Hext Hpext.
Notation d0 := (dz c hbuf T P key seed cm hm h n extra pextra ke []).
Notation bufs0 := (repeat (mb_init c) T).
Notation MC0 := (MC0 c hbuf T P key seed cm hm h n extra pextra ke).
Notation PtC0 := (PtC0 hbuf T P key seed cm hm h n extra pextra ke).

(* the pointer table after `new iobuffer[T]`: the member buflst is still null *)
Definition core5m : locs :=
  [(class_key (wGP PW), VPtr "buffergroup" 0); ((wGP PW ++ "buflst")%string, VNull); ((wGP PW ++ "ctrl")%string, VNull);
   ((wGP PW ++ "fin")%string, VPtr "fin" 0); ((wGP PW ++ "fout")%string, VPtr "fout" 0)].
Definition PtM6 : locs :=
  (wp_pA PW T ++ [("instance", VPtr (wGP PW) 0)] ++ wp_pB PW T ++ core5m ++ map (fun i => (class_key (wbp PW i), VPtr "iobuffer" 0)) (seq 0 T))%list.

Lemma MC0_iob : forall i x, (i < T)%nat -> mget MC0 (wbp PW i ++ x) = mget (w_iob PW bufs0 i) (wbp PW i ++ x).
Proof.
  intros i x Hi. pose proof (hnum_bp PW i x) as E. unfold RefineE2EfSetup2B1e.MC0, MRc. rewrite !RefineConcMem.mget_app.
  rewrite (frame_none PW _ _ _ (wo_memA PW OKW c T) E) by (cbn [wp_h PW2 PWenc]; lia). cbn [mget].
  rewrite (hnum_none_neq _ "live_num" _ E eq_refl).
  rewrite (frame_none PW _ _ _ (wo_memB PW OKW c T) E) by (cbn [wp_h PW2 PWenc]; lia).
  rewrite (allnum_none (wp_h PW) _ _ _ (allnum_seg3 PW T true d0) E) by (cbn [wp_h PW2 PWenc]; lia).
  apply RefineConcMem.mget_flat_at; [|lia]. intros j Nj. apply iob_other. exact Nj.
Qed.
Lemma MC0_cells : forall i, (i < T)%nat ->
  mget MC0 (bp (h + 1) i ++ "total") = Some (cell U32 0) /\ mget MC0 (bp (h + 1) i ++ "now") = Some (cell U32 0) /\
  mget MC0 (bp (h + 1) i ++ "tail") = Some (cell U32 0) /\ mget MC0 (bp (h + 1) i ++ "isfinal") = Some (cell TBool 0).
Proof.
  intros i Hi. change (bp (h + 1) i) with (wbp PW i). rewrite !MC0_iob by exact Hi. unfold w_iob. rewrite nth_repeat_lt by lia.
  cbn [mget mb_init mb_tot mb_now mb_tail mb_fin b2z]. unfold wbp. rewrite !RefineConcMem.elem_pfx_eqb_same. cbn [String.eqb Ascii.eqb Bool.eqb andb]. auto.
Qed.

Theorem sb_from7_ok : forall l fs, lget l "$t1" = Some (VPtr (wBL PW) 0) -> lget l "$t3" = Some (VInt (Z.of_nat T)) -> lget l "size" = Some (VInt (Z.of_nat T)) ->
  exists l', exec whole_prog [] (80 + 2 * T) sb_from7 {| mem := MC0; loc := l; pre := wGP PW; files := fs; ptrs := PtM6; fresh := (h + 2)%nat |} =
    MiniC.Ok (Normal, {| mem := MB1 c hbuf T P key seed cm hm h n extra pextra ke; loc := l'; pre := wGP PW; files := fs;
                         ptrs := PtB1 hbuf T P key seed cm hm h n extra pextra ke; fresh := (h + 3)%nat |}).
Proof.
  intros l fs L1 L3 Ls.
  pose proof EP as [Hc Hh1 HT1 HP Hkey Hsd Hcm Hhm HsP HsT HsS].
  set (l2 := lset l "$t2" (VInt 0)).
  destruct (iob_loop_w (h + 1) MC0 T ltac:(lia) MC0_cells T 0 l2 (wGP PW) fs PtM6 (h + 2)%nat eq_refl) as (l3 & EL & Lk).
  { unfold l2. apply lget_lset_same. }
  { unfold l2. rewrite lget_lset_other by discriminate. exact L3. }
  { unfold l2. rewrite lget_lset_other by discriminate. exact L1. }
  assert (Ls3 : lget l3 "size" = Some (VInt (Z.of_nat T))).
  { rewrite Lk by discriminate. unfold l2. rewrite lget_lset_other by discriminate. exact Ls. }
  assert (L1' : lget l3 "$t1" = Some (VPtr (wBL PW) 0)).
  { rewrite Lk by discriminate. unfold l2. rewrite lget_lset_other by discriminate. exact L1. }
  destruct (sb_end_ok c hbuf T P key seed cm hm h n extra pextra ke EP Hn Hext Hpext Hnosz l3 fs Ls3) as (l' & EE).
  exists l'.
  replace (80 + 2 * T)%nat with (S (S (S (S (S (75 + 2 * T)))))) by lia.
  unfold sb_from7, s_snd. cbn [f_body Src_conc.f_buffergroup_set_buffergroup_4].
  rewrite exec_seq, exec_set. cbn [eval bind]. unfold with_loc. cbn [mem loc pre files ptrs fresh]. fold l2.
  rewrite exec_seq. fold iob_loop. rewrite (exec_mono _ _ _ _ _ _ EL) by lia. cbn [bind].
  rewrite exec_seq. rewrite (RefineFileBase.x_setptr whole_prog []). cbn [eval bind loc pre]. rewrite L1'. cbn [bind]. unfold with_ptrs. cbn [mem loc pre files ptrs fresh].
  assert (EP2 : lset PtM6 (wGP PW ++ "buflst") (VPtr (wBL PW) 0) = PtC0).
  { pose proof (hnum_GP PW "buflst") as E. unfold PtM6, RefineE2EfSetup2B1e.PtC0.
    rewrite lset_app_r by (apply (pframe_num PW _ _ _ (wo_pA PW OKW T) E); cbn [wp_h PW2 PWenc]; lia).
    rewrite (lset_app_r _ [("instance", VPtr (wGP PW) 0)]) by (cbn [lget]; rewrite (hnum_none_neq _ "instance" _ E eq_refl); reflexivity).
    rewrite lset_app_r by (apply (pframe_num PW _ _ _ (wo_pB PW OKW T) E); cbn [wp_h PW2 PWenc]; lia).
    do 3 f_equal. unfold core5m, core5c. cbn [app lset].
    rewrite (hnum_none_neq _ _ _ E (hnum_class (wGP PW))). rewrite !append_eqb_l. cbn [String.eqb Ascii.eqb Bool.eqb andb]. reflexivity. }
  rewrite EP2. fold sb_end. rewrite (exec_mono _ _ _ _ _ _ EE) by lia. reflexivity.
Qed.
End B1Mid.
Print Assumptions sb_from7_ok.
