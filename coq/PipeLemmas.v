(* Generic lemmas for the PipeConc proofs: lists (set_nth / firstn / skipn), frame lemmas for the
   state update functions, the sequential reference (tr_blocks / seq_chunks). *)
From Wencry Require Import Bytes FileModel PipeConc PipeProps.
From Coq Require Import ZifyNat.
Local Open Scope nat_scope.

(* ---------- lists ---------- *)
Lemma set_nth_length {A} n (x : A) : forall l, length (set_nth n x l) = length l.
Proof.
  induction n as [|n IH]; intros [|y l]; cbn [set_nth length]; try reflexivity.
  now rewrite IH.
Qed.

Lemma nth_set_nth_eq {A} (x d : A) : forall n l, n < length l -> nth n (set_nth n x l) d = x.
Proof.
  induction n as [|n IH]; intros [|y l] Hl; cbn [length] in Hl; try lia; cbn [set_nth nth].
  - reflexivity.
  - apply IH. lia.
Qed.

Lemma nth_set_nth_neq {A} (x d : A) : forall n k l, n <> k -> nth k (set_nth n x l) d = nth k l d.
Proof.
  induction n as [|n IH]; intros k [|y l] Hne; cbn [set_nth nth]; try reflexivity.
  - destruct k; [congruence|reflexivity].
  - destruct k; [reflexivity|]. cbn [nth]. apply IH. congruence.
Qed.

Lemma nth_error_set_nth_eq {A} (x : A) : forall n l, n < length l -> nth_error (set_nth n x l) n = Some x.
Proof.
  induction n as [|n IH]; intros [|y l] Hl; cbn [length] in Hl; try lia; cbn [set_nth nth_error].
  - reflexivity.
  - apply IH. lia.
Qed.

Lemma nth_error_some_nth {A} (d : A) : forall l n, n < length l -> nth_error l n = Some (nth n l d).
Proof.
  induction l as [|y l IH]; intros [|n] Hl; cbn [length] in Hl; try lia; cbn [nth nth_error].
  - reflexivity.
  - apply IH. lia.
Qed.

Lemma skipn_nth_cons {A} (d : A) : forall p l, p < length l -> skipn p l = nth p l d :: skipn (Datatypes.S p) l.
Proof.
  induction p as [|p IH]; intros [|y l] Hl; cbn [length] in Hl; try lia.
  - reflexivity.
  - cbn [nth]. change (skipn (Datatypes.S p) (y :: l)) with (skipn p l).
    change (skipn (Datatypes.S (Datatypes.S p)) (y :: l)) with (skipn (Datatypes.S p) l). apply IH. lia.
Qed.

Lemma skipn_S_set_nth {A} (x : A) : forall p l, skipn (Datatypes.S p) (set_nth p x l) = skipn (Datatypes.S p) l.
Proof.
  induction p as [|p IH]; intros [|y l]; cbn [set_nth]; try reflexivity.
  change (skipn (Datatypes.S (Datatypes.S p)) (y :: set_nth p x l)) with (skipn (Datatypes.S p) (set_nth p x l)).
  change (skipn (Datatypes.S (Datatypes.S p)) (y :: l)) with (skipn (Datatypes.S p) l). apply IH.
Qed.

Lemma firstn_S_set_nth {A} (x : A) : forall p l, p < length l -> firstn (Datatypes.S p) (set_nth p x l) = firstn p l ++ [x].
Proof.
  induction p as [|p IH]; intros [|y l] Hl; cbn [length] in Hl; try lia; cbn [set_nth].
  - reflexivity.
  - cbn [firstn app]. f_equal. apply IH. lia.
Qed.

Lemma skipn_all_nil {A} (l : list A) n : length l <= n -> skipn n l = [].
Proof. intros H. apply skipn_all2. exact H. Qed.

Lemma nth_repeat_lt {A} (a d : A) : forall n i, i < n -> nth i (repeat a n) d = a.
Proof.
  induction n as [|n IH]; intros [|i] Hi; try lia; cbn [repeat nth]; [reflexivity|]. apply IH. lia.
Qed.

Lemma first_unfinished_bound : forall ps k k', first_unfinished ps k = Some k' -> k <= k' < k + length ps.
Proof.
  induction ps as [|p ps IH]; intros k k' H; cbn [first_unfinished] in H; [discriminate|].
  cbn [length]. destruct p; try (injection H as <-; lia).
  apply IH in H. lia.
Qed.

(* ---------- frame lemmas for the state update functions ---------- *)
Section Frame.
Variable S : Type.
Notation state := (state S).
Implicit Types s : state.

Lemma getb_set_buf_eq s i b : i < length (bufs S s) -> getb S (set_buf S s i b) i = b.
Proof. intros H. unfold getb, set_buf; cbn [bufs]. now apply nth_set_nth_eq. Qed.
Lemma getb_set_buf_neq s i j b : i <> j -> getb S (set_buf S s i b) j = getb S s j.
Proof. intros H. unfold getb, set_buf; cbn [bufs]. now apply nth_set_nth_neq. Qed.
Lemma getw_set_wpc_eq s i p : i < length (wpcs S s) -> getw S (set_wpc S s i p) i = p.
Proof. intros H. unfold getw, set_wpc; cbn [wpcs]. now apply nth_set_nth_eq. Qed.
Lemma getw_set_wpc_neq s i j p : i <> j -> getw S (set_wpc S s i p) j = getw S s j.
Proof. intros H. unfold getw, set_wpc; cbn [wpcs]. now apply nth_set_nth_neq. Qed.

Lemma getb_set_wpc s i p j : getb S (set_wpc S s i p) j = getb S s j. Proof. reflexivity. Qed.
Lemma getb_set_wst s i x j : getb S (set_wst S s i x) j = getb S s j. Proof. reflexivity. Qed.
Lemma getb_set_io s p j : getb S (set_io S s p) j = getb S s j. Proof. reflexivity. Qed.
Lemma getw_set_buf s i b j : getw S (set_buf S s i b) j = getw S s j. Proof. reflexivity. Qed.
Lemma getw_set_wst s i x j : getw S (set_wst S s i x) j = getw S s j. Proof. reflexivity. Qed.
Lemma getw_set_io s p j : getw S (set_io S s p) j = getw S s j. Proof. reflexivity. Qed.

Lemma getb_wake_io s i j : getb S (wake_io S s i) j = getb S s j.
Proof. unfold wake_io. destruct (io S s); try reflexivity. destruct (turn S s =? i); reflexivity. Qed.
Lemma getw_wake_io s i j : getw S (wake_io S s i) j = getw S s j.
Proof. unfold wake_io. destruct (io S s); try reflexivity. destruct (turn S s =? i); reflexivity. Qed.
Lemma getb_wake_worker s i j : getb S (wake_worker S s i) j = getb S s j.
Proof. unfold wake_worker. destruct (getw S s i); reflexivity. Qed.
End Frame.

(* ---------- the sequential reference ---------- *)
Section Ref.
Variable S : Type.
Variable tr : S -> list N -> S * list N.
Variable c : nat.
Variable ispadding : bool.
Notation tr_blocks := (tr_blocks S tr).
Notation seq_chunks := (seq_chunks S tr c ispadding).

Lemma tr_blocks_length : forall bs x, length (snd (tr_blocks x bs)) = length bs.
Proof.
  induction bs as [|b r IH]; intros x; cbn [PipeProps.tr_blocks]; [reflexivity|].
  destruct (tr x b) as [x' b']. specialize (IH x'). destruct (tr_blocks x' r) as [x'' r'].
  cbn [snd length] in *. now rewrite IH.
Qed.

Lemma tr_blocks_cons x b r :
  tr_blocks x (b :: r) = (fst (tr_blocks (fst (tr x b)) r), snd (tr x b) :: snd (tr_blocks (fst (tr x b)) r)).
Proof.
  cbn [PipeProps.tr_blocks]. destruct (tr x b) as [x' b']. cbn [fst snd].
  destruct (tr_blocks x' r) as [x'' r']. reflexivity.
Qed.

Lemma seq_chunks_length T : forall ls sts j, length (fst (seq_chunks T sts j ls)) = length sts.
Proof.
  induction ls as [|l r IH]; intros sts j; cbn [PipeProps.seq_chunks]; [reflexivity|].
  destruct (nth_error sts (j mod T)) as [x|]; [|reflexivity].
  destruct (tr_blocks x (blocks16_of (ld_data l))) as [x' out].
  specialize (IH (set_nth (j mod T) x' sts) (Datatypes.S j)).
  destruct (seq_chunks T (set_nth (j mod T) x' sts) (Datatypes.S j) r) as [sts' rest].
  cbn [fst] in *. rewrite IH. apply set_nth_length.
Qed.

Definition exp_of (l : load) (out : list (list N)) : result (list N) :=
  export c ispadding {| ld_data := []; ld_total := ld_total l; ld_final := ld_final l |} (concat out).

(* one more chunk at the end *)
Lemma seq_chunks_snoc T (d : S) : 1 <= T -> forall ls sts j l, length sts = T ->
  seq_chunks T sts j (ls ++ [l]) =
  let r := seq_chunks T sts j ls in
  let i := (j + length ls) mod T in
  let o := tr_blocks (nth i (fst r) d) (blocks16_of (ld_data l)) in
  (set_nth i (fst o) (fst r), snd r ++ [exp_of l (snd o)]).
Proof.
  intros HT. induction ls as [|l0 r IH]; intros sts j l Hlen.
  - cbn [app length PipeProps.seq_chunks fst snd]. rewrite Nat.add_0_r.
    assert (Hi : j mod T < length sts) by (rewrite Hlen; apply Nat.mod_upper_bound; lia).
    rewrite (nth_error_some_nth d) by exact Hi.
    destruct (tr_blocks (nth (j mod T) sts d) (blocks16_of (ld_data l))) as [x' out]. reflexivity.
  - cbn [app length PipeProps.seq_chunks].
    assert (Hi : j mod T < length sts) by (rewrite Hlen; apply Nat.mod_upper_bound; lia).
    rewrite (nth_error_some_nth d) by exact Hi.
    destruct (tr_blocks (nth (j mod T) sts d) (blocks16_of (ld_data l0))) as [x' out].
    rewrite IH by (rewrite set_nth_length; exact Hlen).
    replace (Datatypes.S j + length r) with (j + Datatypes.S (length r)) by lia.
    destruct (seq_chunks T (set_nth (j mod T) x' sts) (Datatypes.S j) r) as [sts' rest].
    cbn [fst snd]. reflexivity.
Qed.

Lemma seq_chunks_snd_length T : 1 <= T -> forall ls sts j, length sts = T ->
  length (snd (seq_chunks T sts j ls)) = length ls.
Proof.
  intros HT. induction ls as [|l r IH]; intros sts j Hlen; cbn [PipeProps.seq_chunks]; [reflexivity|].
  assert (Hi : j mod T < length sts) by (rewrite Hlen; apply Nat.mod_upper_bound; lia).
  destruct (nth_error sts (j mod T)) as [x|] eqn:E; [|apply nth_error_None in E; lia].
  destruct (tr_blocks x (blocks16_of (ld_data l))) as [x' out].
  specialize (IH (set_nth (j mod T) x' sts) (Datatypes.S j)).
  destruct (seq_chunks T (set_nth (j mod T) x' sts) (Datatypes.S j) r) as [sts' rest].
  cbn [snd length] in *. rewrite IH; [reflexivity|]. rewrite set_nth_length; exact Hlen.
Qed.
End Ref.
