(* Layer M, the I/O thread (5): turn_iter, the join loop of run_multicry, the end of op_pipe; spurious wake-ups. *)
From Coq Require Import ZArith NArith List String Bool Lia Arith.
From Wencry Require Import Bytes FileModel PipeConc PipeLemmas MiniC MiniCLemmas MiniCConc SrcRun RefineSeqDefs RefineSeqA RefineSeqB.
From Wencry Require Import RefineE2EfLay RefineE2EfMach RefineE2EfMem RefineE2EfTac RefineE2EfStepW RefineE2EfStepI.
From Wencry.Gen Require Src_conc.
Import ListNotations.
Local Open Scope string_scope.
Local Open Scope list_scope.

Section I5.
Context {LY : Layout} {LO : LayoutOk}.
Variables (c T : nat) (pad : bool) (input0 : list N).
Notation cst := (cstate_md c T pad input0).
Notation sho := (sh_of c T pad input0).

Lemma rd_threads : forall d l, (T <= 255)%nat ->
  eval (tst (sho d) l CP) (ELoad U8 (EField "THREADS_NUM")) = Ok (VInt (Z.of_nat T)).
Proof. intros d l H. evs. rewrite mget_threads. rewrite load_cell. rewrite wrap_U8_small by lia. reflexivity. Qed.

Lemma thread_done_worker : forall sh p ws turn g mx k, (k < T)%nat ->
  thread_done (C sh (threads_of T pad p ws turn g) mx) (S k) = match nth k ws W_Done with W_Done => true | _ => false end.
Proof.
  intros sh p ws turn g mx k Hk. unfold thread_done, nth_thread. cbn [cs_thr C]. rewrite nth_thread_worker by exact Hk.
  destruct (nth k ws W_Done); reflexivity.
Qed.

(* where the join loop stops, from worker k on *)
Definition join_pc (ws : list wpc) (k : nat) : ipc :=
  match first_unfinished (skipn k ws) k with Some k' => I_Join k' | None => I_Done end.
Definition join_evs (ws : list wpc) (k : nat) : list event :=
  match first_unfinished (skipn k ws) k with Some _ => [] | None => ev_done T end.

Lemma first_unfinished_skipn : forall ws k, (k < List.length ws)%nat ->
  first_unfinished (skipn k ws) k = match nth k ws W_Done with W_Done => first_unfinished (skipn (S k) ws) (S k) | _ => Some k end.
Proof.
  intros ws k H. rewrite (skipn_nth_cons W_Done k ws H). cbn [first_unfinished]. destruct (nth k ws W_Done); reflexivity.
Qed.

(* the join loop from its head with i'1 = k *)
Lemma join_fin : forall ws d g p0 turn0 n k evs R, (T <= 255)%nat -> List.length ws = T -> (k + n = T)%nat ->
  turn0 = d_turn d ->
  R = (cst (join_pc ws k) ws d g, evs ++ join_evs ws k) ->
  exists B, exr 0 B false (RefineSeqB.mk join_loop (F_rm T pad) (rm_locs T ++ [("i'1", VInt (Z.of_nat k))]) CP TRun)
      (C (sho d) (threads_of T pad p0 ws turn0 g) []) evs R.
Proof.
  intros ws d g p0 turn0 n. induction n as [|n IH]; intros k evs R HT Lw Hk Htu HR.
  - (* k = T: the loop ends, run_multicry returns into the calling frame, up to the lock of del_instance *)
    assert (k = T) by lia. subst k.
    unfold join_pc, join_evs in HR. rewrite skipn_all2 in HR by lia. cbn [first_unfinished] in HR.
    pose proof (fun l => rd_threads d l HT) as RTh.
    assert (Hlt : (Z.of_nat T <? Z.of_nat T)%Z = false) by (apply Z.ltb_ge; lia).
    destruct (done_leads c T pad input0 d (threads_of T pad p0 ws turn0 g) evs R) as [B HB].
    { rewrite HR. symmetry. eapply (fin_io _ _ _ _ _ _ _ _ _ I_Done g); [reflexivity | reflexivity | reflexivity]. }
    exists (S B). unfold join_loop, rm_locs. unf. cbn [app Nat.mul Nat.add].
    mstep. rewrite !(wrap_I32_small (Z.of_nat T)) by (change (2 ^ 31)%Z with 2147483648%Z; lia). rewrite Hlt. evs.
    unfold F_rm. cbn [cont_conf next_of]. exact HB.
  - assert (HkT : (k < T)%nat) by lia.
    pose proof (fun l => rd_threads d l HT) as RTh.
    assert (Hlt : (Z.of_nat k <? Z.of_nat T)%Z = true) by (apply Z.ltb_lt; lia).
    unfold join_pc, join_evs in HR. rewrite first_unfinished_skipn in HR by lia.
    assert (EJ : eval (tst (sho d) [("mode", VPtr MA 0); ("i", VInt (Z.of_nat T)); ("$t1", inst); ("i'1", VInt (Z.of_nat k))] CP)
               (EPtrCell (EPtrAdd (EField "threads") 8 (EVar "i'1"))) = Ok (VInt (Z.of_nat (S k)))).
    { eapply ev_ptrcell; [ev|]. evs. replace (0 + Z.of_nat k * 8)%Z with (8 * Z.of_nat k)%Z by lia. apply lget_thread_cell. exact HkT. }
    destruct (nth k ws W_Done) eqn:Ew.
    9:{ (* the worker is done: the loop goes on *)
      destruct (IH (S k) evs R HT Lw ltac:(lia) Htu HR) as [B HB]. exists (5 + B)%nat. cbn [Nat.add].
      unfold join_loop, rm_locs. unf. cbn [app].
      mstep. rewrite !(wrap_I32_small (Z.of_nat _)) by (change (2 ^ 31)%Z with 2147483648%Z; lia). rewrite Hlt. evs.
      eapply r_join_pass; [discriminate | fo | eapply m_join; exact EJ | rewrite Nat2Z.id; rewrite thread_done_worker by exact HkT; rewrite Ew; reflexivity | cbn [cont_conf next_of]].
      mstep. rewrite ?(wrap_I32_small (Z.of_nat k)) by (change (2 ^ 31)%Z with 2147483648%Z; lia).
      rewrite (wrap_U8_small (Z.of_nat k + 1)) by lia. replace (Z.of_nat k + 1)%Z with (Z.of_nat (S k)) by lia.
      eapply exr_weaken; [exact HB | lia]. }
    all: exists 5%nat; unfold join_loop, rm_locs; unf; cbn [app];
      (mstep; rewrite !(wrap_I32_small (Z.of_nat _)) by (change (2 ^ 31)%Z with 2147483648%Z; lia); rewrite Hlt; evs);
      eapply r_join_block; [discriminate | fo | eapply m_join; exact EJ | rewrite Nat2Z.id; rewrite thread_done_worker by exact HkT; rewrite Ew; reflexivity | ];
      cbn [cont_conf next_of with_status ct_cur ct_k ct_loc ct_pre ct_st]; rewrite Nat2Z.id; subst R;
      rewrite app_nil_r; eapply (fin_io _ _ _ _ _ _ _ _ _ (I_Join k) g); [unf; reflexivity | reflexivity | reflexivity].
Qed.

Lemma cstep_join_u : forall sh thr tid t target R, nth_error thr tid = Some t -> ct_st t = TJoin target ->
  thread_done (C sh thr []) target = true ->
  (exists B, exr tid B false (with_status t TRun) (C sh thr []) [] R) ->
  exists n, cstep prog vt n (C sh thr []) tid = Ok R.
Proof. intros sh thr tid t target R N S D (B & H). destruct (cstep_join B sh thr tid t target R N S D H) as (n & _ & Hn). exists n. exact Hn. Qed.
Lemma cstep_run_u' : forall sh thr tid t R, nth_error thr tid = Some t -> ct_st t = TRun ->
  match first_is_lock t sh with Some m => mx_free [] m | None => true end = true ->
  (exists B, exr tid B true t (C sh thr []) [] R) ->
  exists n, cstep prog vt n (C sh thr []) tid = Ok R.
Proof. intros sh thr tid t R N S E (B & H). destruct (cstep_run B sh thr tid t R N S E H) as (n & _ & Hn). exists n. exact Hn. Qed.

(* ---- I_Join k: worker k has finished; the join loop goes on ---- *)
Lemma M_io_join : forall ws d g k,
  (1 <= T <= 255)%nat -> List.length ws = T -> (k < T)%nat -> nth k ws W_Done = W_Done ->
  exists n, cstep prog vt n (cst (I_Join k) ws d g) 0 =
     Ok (cst (join_pc ws (S k)) ws d g, join_evs ws (S k)).
Proof.
  intros ws d g k HT Lw Hk Hw.
  unfold cstate_md at 1.
  eapply cstep_join_u; [apply nth_thread_io | reflexivity | rewrite thread_done_worker by exact Hk; rewrite Hw; reflexivity | ].
  destruct (join_fin ws d g (I_Join k) (d_turn d) (T - S k) (S k) [] _ ltac:(lia) Lw ltac:(lia) eq_refl eq_refl) as [B HB].
  exists (S B).
  unf. unfold with_status; cbn [ct_cur ct_k ct_loc ct_pre ct_st]. unfold rm_locs. cbn [app].
  mstep. rewrite ?(wrap_I32_small (Z.of_nat k)) by (change (2 ^ 31)%Z with 2147483648%Z; lia).
  rewrite (wrap_U8_small (Z.of_nat k + 1)) by lia. replace (Z.of_nat k + 1)%Z with (Z.of_nat (S k)) by lia.
  exact HB.
Qed.

(* ---- I_Turn, no live buffer left: run_buffer returns, the join loop starts ---- *)
Lemma M_io_turn_done : forall ws d g,
  dwf c T d -> List.length ws = T -> d_live d = 0%nat ->
  (g_rb g = [] \/ g_rb g = [("$t1", VInt 1); ("$t2", VInt 1)]) ->
  let t := d_turn d in
  exists n, cstep prog vt n (cst I_Turn ws d g) 0 =
     Ok (cst (join_pc ws 0) ws d g, (8, Z.of_nat t, 0)%Z :: join_evs ws 0).
Proof.
  intros ws d g Hd Lw Hlive Hrb t.
  destruct Hd as (Lb & Ln & Ht & Hlv & HT & Hc1 & Hc & Hb & Hn). fold t in Ht.
  pose proof (fun l => rd_turn c T pad input0 d l Ht ltac:(lia)) as RTu. fold t in RTu.
  pose proof (fun l => rd_live c T pad input0 d l GP Hlv) as RL. rewrite Hlive in RL.
  unfold cstate_md at 1.
  eapply cstep_run_u'; [apply nth_thread_io | reflexivity | unf; reflexivity | ].
  destruct (join_fin ws d g I_Turn (d_turn d) T 0 [(8, Z.of_nat t, 0)%Z] _ ltac:(lia) Lw ltac:(lia) eq_refl eq_refl) as [B HB].
  exists (60 + B)%nat. unf. cbn [Nat.add].
  destruct Hrb as [E|E]; rewrite E; msteps; rewrite ?(wrap_I64_nat (Z.of_nat t)) by lia; unfold F_rb; unf; cbn [cont_conf next_of]; msteps;
    (eapply exr_weaken; [exact HB | lia]).
Qed.


(* ---- I_Turn, a live buffer left, the next buffer of the cycle is not retired: turn moves on, next round of run_buffer ---- *)
Lemma M_io_turn_more : forall ws d g,
  dwf c T d -> List.length ws = T -> (1 <= d_live d)%nat ->
  (g_rb g = [] \/ g_rb g = [("$t1", VInt 1); ("$t2", VInt 1)]) ->
  let t := d_turn d in
  let t' := ((t + 1) mod T)%nat in
  mb_st (nth t' (d_bufs d) mb0) <> 3%nat ->
  exists n, (n <= 100)%nat /\ cstep prog vt n (cst I_Turn ws d g) 0 =
     Ok (cst I_WaitUpdate ws (with_turn d t') (with_rb g [("$t1", VInt 1); ("$t2", VInt 1)]),
         [(8, Z.of_nat t, 1); (9, Z.of_nat t', 0)]%Z).
Proof.
  intros ws d g Hd Lw Hlive Hrb t t' Hnext.
  destruct Hd as (Lb & Ln & Ht & Hlv & HT & Hc1 & Hc & Hb & Hn). fold t in Ht.
  assert (Ht' : (t' < T)%nat) by (apply Nat.mod_upper_bound; lia).
  destruct (Hb _ Ht') as (Hst' & _).
  pose proof (fun l => rd_turn c T pad input0 d l Ht ltac:(lia)) as RTu. fold t in RTu.
  pose proof (fun l => rd_size c T pad input0 d l HT) as RSz.
  pose proof (fun l => rd_live c T pad input0 d l GP Hlv) as RL.
  assert (Hl0 : (Z.of_nat (d_live d) =? 0)%Z = false) by (apply Z.eqb_neq; lia).
  assert (RH : forall l, eval (tst (sho d) l GP) (EBin TBool Ne (ECast I32 (ELoad U8 (EGlobal "live_num"))) (EConst 0)) = Ok (VInt 1)).
  { intros l. erewrite ev_bin; [ | eapply ev_cast; apply RL | reflexivity | evs; reflexivity].
    rewrite wrap_I32_small by (change (2 ^ 31)%Z with 2147483648%Z; lia). rewrite Hl0. reflexivity. }
  assert (RRem : forall l, eval (tst (sho d) l GP)
            (EBin U32 Rem (EBin U32 Add (ELoad U32 (EField "turn")) (ECast U32 (EConst 1))) (ELoad U32 (EField "size"))) = Ok (VInt (Z.of_nat t'))).
  { intros l. eapply ev_bin; [eapply ev_bin; [apply RTu | ev | apply arith_U32] | apply RSz | ].
    cbn [eval_bin]. replace (Z.of_nat T =? 0)%Z with false by (symmetry; apply Z.eqb_neq; lia).
    change (wrap U32 1) with 1%Z. rewrite (Z.mod_small (Z.of_nat t + 1)) by lia.
    rewrite Z.rem_mod_nonneg by lia. rewrite arith_U32. f_equal. unfold t'.
    rewrite Nat2Z.inj_mod. rewrite Nat2Z.inj_add. change (Z.of_nat 1) with 1%Z.
    apply Z.mod_small. pose proof (Z.mod_pos_bound (Z.of_nat t + 1) (Z.of_nat T) ltac:(lia)). lia. }
  start_io 100.
  destruct Hrb as [E|E]; rewrite E; msteps; rewrite ?(wrap_I64_nat (Z.of_nat t)) by lia;
    (mstep; [rewrite mget_turn; reflexivity | apply store_cell | ]);
    rewrite (wrap_U32_small (Z.of_nat t')) by lia;
    (erewrite (sho_mset _ _ _ _ d); [ | apply mset_turn | reflexivity]).
  all: clear RTu RSz RL RH RRem;
    pose proof (fun l => rd_turn c T pad input0 (with_turn d t') l Ht' ltac:(lia)) as RTu; cbn [with_turn d_turn] in RTu;
    pose proof (fun l => rd_state c T pad input0 (with_turn d t') t' l Ht' Hst') as RD; cbn [with_turn d_bufs] in RD;
    set (st' := mb_st (nth t' (d_bufs d) mb0)) in *;
    assert (Est : (st' = 0 \/ st' = 1 \/ st' = 2)%nat) by lia;
    (destruct Est as [Es|[Es|Es]]; rewrite Es in RD);
    msteps; change (elem_pfx CT t') with (cpfx t'); msteps; rewrite ?(wrap_I64_nat (Z.of_nat t')) by lia;
    unfold F_rb; unf; cbn [cont_conf next_of]; msteps; change (elem_pfx CT t') with (cpfx t'); msteps;
    stop_io I_WaitUpdate (with_rb g [("$t1", VInt 1); ("$t2", VInt 1)]); reflexivity.
Qed.


(* ---- spurious wake-ups ---- *)
Lemma M_spur_io : forall fuel ws d g,
  cstep prog vt fuel (cst I_Asleep ws d g) (S T + 0) = Ok (cst I_Awake ws d g, []).
Proof.
  intros fuel ws d g. unfold cstate_md at 1.
  erewrite (cstep_spurious fuel _ _ _ _ 0); [ | rewrite threads_length; reflexivity | apply nth_thread_io | reflexivity].
  reflexivity.
Qed.
Lemma M_spur_w : forall fuel p ws d g i f,
  (i < T)%nat -> List.length ws = T -> List.length (g_wl g) = T -> nth i ws W_Done = W_Asleep f ->
  cstep prog vt fuel (cst p ws d g) (S T + S i) = Ok (cst p (set_nth i (W_Awake f) ws) d (with_wl g i (nth i (g_wl g) [])), []).
Proof.
  intros fuel p ws d g i f Hi Lw Lg Hw. unfold cstate_md at 1.
  erewrite (cstep_spurious fuel _ _ _ _ (S i)); [ | rewrite threads_length; reflexivity | apply nth_thread_worker; exact Hi | rewrite Hw; reflexivity].
  unfold cstate_md, C. f_equal. f_equal. rewrite Hw. unfold with_status. cbn [worker_thread RefineE2EfLay.mk ct_cur ct_k ct_loc ct_pre ct_st].
  rewrite <- (put_worker T pad p ws (d_turn d) g i (W_Awake f) (nth i (g_wl g) [])) by assumption. reflexivity.
Qed.

End I5.
