From Coq Require Import ZArith NArith List String Bool Lia.
From Wencry Require Import Bytes HashModel MiniC MiniCLemmas MiniCRun SrcRun RefineHashDefs RefineSha1Lib RefineSha1A.
From Wencry.Gen Require Import HashConst.
From Wencry.Gen Require Src_sha1.
Import ListNotations.
Local Open Scope string_scope.
Local Open Scope list_scope.
Local Open Scope Z_scope.

Lemma load_raw_u32 : forall cells j, 0 <= j < Z.of_nat (List.length cells) ->
  load_obj {| o_ty := U32; o_cells := cells |} U32 (0 + j * 4) = Ok (wrap U32 (nth (Z.to_nat j) cells 0)).
Proof.
  intros ws j Hj. unfold load_obj. cbn [o_ty o_cells]. change (ity_bytes U32) with 4. rewrite Z.eqb_refl.
  destruct (0 + j * 4 <? 0) eqn:A; [apply Z.ltb_lt in A; lia|].
  replace (0 + j * 4) with (j * 4) by lia. rewrite Z.mod_mul by lia. cbn [Z.eqb].
  rewrite Z.div_mul by lia.
  destruct (j <? Z.of_nat (List.length ws)) eqn:B; [|apply Z.ltb_ge in B; lia]. reflexivity.
Qed.
Lemma store_raw_u32 : forall cells j z, 0 <= j < Z.of_nat (List.length cells) ->
  store_obj {| o_ty := U32; o_cells := cells |} U32 (0 + j * 4) z =
  Ok {| o_ty := U32; o_cells := upd_nth (Z.to_nat j) (wrap U32 z) cells |}.
Proof.
  intros ws j z Hj. unfold store_obj. cbn [o_ty o_cells]. change (ity_bytes U32) with 4. rewrite Z.eqb_refl.
  destruct (0 + j * 4 <? 0) eqn:A; [apply Z.ltb_lt in A; lia|].
  replace (0 + j * 4) with (j * 4) by lia. rewrite Z.mod_mul by lia. cbn [Z.eqb].
  rewrite Z.div_mul by lia.
  destruct (j <? Z.of_nat (List.length ws)) eqn:B; [|apply Z.ltb_ge in B; lia]. reflexivity.
Qed.
Lemma load_le32 : forall cells j, 0 <= j -> j * 4 + 4 <= Z.of_nat (List.length cells) ->
  load_obj {| o_ty := U8; o_cells := cells |} U32 (0 + j * 4) =
  Ok (wrap U32 (le_val (firstn 4 (skipn (Z.to_nat (j * 4)) cells)))).
Proof.
  intros cells j Hj Hl. unfold load_obj. cbn [o_ty o_cells]. change (ity_bytes U32) with 4. change (ity_bytes U8) with 1.
  destruct (0 + j * 4 <? 0) eqn:A; [apply Z.ltb_lt in A; lia|].
  change (1 =? 4) with false. change (1 =? 1) with true. cbn iota.
  replace (0 + j * 4) with (j * 4) by lia.
  destruct (j * 4 + 4 <=? Z.of_nat (List.length cells)) eqn:B; [|apply Z.leb_gt in B; lia].
  reflexivity.
Qed.


Local Ltac Zify.zify_post_hook ::= Z.to_euclidean_division_equations.

Lemma u8_range : forall b, u8 b -> 0 <= Z.of_N b < 256.
Proof. unfold u8. intros. lia. Qed.
Lemma shl_small : forall b k, (b * 2 ^ k < 2 ^ 32)%N -> shl32 b k = N.shiftl b k.
Proof. intros b k H. unfold shl32, w32. rewrite N.shiftl_mul_pow2. apply N.mod_small. exact H. Qed.
Lemma u32_shiftl_u8 : forall b k, u8 b -> (k <= 24)%N -> u32 (N.shiftl b k).
Proof.
  intros b k Hb Hk. unfold u32, u8 in *. rewrite N.shiftl_mul_pow2.
  assert (2 ^ k <= 2 ^ 24)%N by (apply N.pow_le_mono_r; lia).
  change (2 ^ 24)%N with 16777216%N in *. change (2 ^ 32)%N with 4294967296%N. nia.
Qed.
Lemma u8_u32 : forall b, u8 b -> u32 b.
Proof. unfold u8, u32. intros. change (2 ^ 32)%N with 4294967296%N. lia. Qed.
Lemma u32_be32 : forall b0 b1 b2 b3, u8 b0 -> u8 b1 -> u8 b2 -> u8 b3 -> u32 (be32 b0 b1 b2 b3).
Proof.
  intros. unfold be32. repeat apply u32_lor; try (apply u32_shiftl_u8; [assumption|lia]). now apply u8_u32.
Qed.

Lemma swap_be32 : forall b0 b1 b2 b3, u8 b0 -> u8 b1 -> u8 b2 -> u8 b3 ->
  forall t, t = wrap U32 (le_val (map Z.of_N [b0; b1; b2; b3])) ->
  wrap U32 (wrap U32 (Z.lor (wrap U32 (Z.lor (wrap U32 (Z.lor
     (wrap U32 (wrap U8 (Z.shiftr t 24)))
     (wrap U32 (Z.shiftl (wrap U32 (wrap U8 (Z.shiftr t 16))) 8))))
     (wrap U32 (Z.shiftl (wrap U32 (wrap U8 (Z.shiftr t 8))) 16))))
     (wrap U32 (Z.shiftl t 24)))) = Z.of_N (be32 b0 b1 b2 b3).
Proof.
  intros b0 b1 b2 b3 H0 H1 H2 H3 t Ht.
  pose proof (u8_range _ H0) as R0. pose proof (u8_range _ H1) as R1.
  pose proof (u8_range _ H2) as R2. pose proof (u8_range _ H3) as R3.
  cbn [map le_val] in Ht.
  assert (Et : t = Z.of_N b0 + 256 * Z.of_N b1 + 65536 * Z.of_N b2 + 16777216 * Z.of_N b3).
  { subst t. rewrite wrapU32. rewrite Z.mod_small; lia. }
  clear Ht.
  assert (E3 : wrap U32 (wrap U8 (Z.shiftr t 24)) = Z.of_N b3).
  { rewrite wrapU32, wrapU8, Z.shiftr_div_pow2 by lia. change (2 ^ 24) with 16777216. lia. }
  assert (E2 : wrap U32 (wrap U8 (Z.shiftr t 16)) = Z.of_N b2).
  { rewrite wrapU32, wrapU8, Z.shiftr_div_pow2 by lia. change (2 ^ 16) with 65536. lia. }
  assert (E1 : wrap U32 (wrap U8 (Z.shiftr t 8)) = Z.of_N b1).
  { rewrite wrapU32, wrapU8, Z.shiftr_div_pow2 by lia. change (2 ^ 8) with 256. lia. }
  assert (E0 : wrap U32 (Z.shiftl t 24) = Z.of_N (N.shiftl b0 24)).
  { rewrite wrapU32, Z.shiftl_mul_pow2 by lia. rewrite N.shiftl_mul_pow2, N2Z.inj_mul.
    change (2 ^ 24) with 16777216. change (Z.of_N (2 ^ 24)) with 16777216. lia. }
  rewrite E3, E2, E1, E0.
  change 8 with (Z.of_N 8). change 16 with (Z.of_N 16). rewrite !zn_shl.
  rewrite (shl_small b2 8), (shl_small b1 16).
  2:{ unfold u8 in H1. change (2 ^ 16)%N with 65536%N. change (2 ^ 32)%N with 4294967296%N. lia. }
  2:{ unfold u8 in H2. change (2 ^ 8)%N with 256%N. change (2 ^ 32)%N with 4294967296%N. lia. }
  assert (U3 := u8_u32 _ H3).
  assert (S2 : u32 (N.shiftl b2 8)) by (apply u32_shiftl_u8; [assumption|lia]).
  assert (S1 : u32 (N.shiftl b1 16)) by (apply u32_shiftl_u8; [assumption|lia]).
  assert (S0 : u32 (N.shiftl b0 24)) by (apply u32_shiftl_u8; [assumption|lia]).
  rewrite zn_lor by assumption. rewrite zn_lor by (try apply u32_lor; assumption).
  rewrite zn_lor by (repeat apply u32_lor; assumption).
  rewrite zn_wrap by (repeat apply u32_lor; assumption).
  f_equal. unfold be32.
  rewrite (N.lor_comm (N.lor (N.lor b3 _) _)). f_equal.
  rewrite (N.lor_comm (N.lor b3 _)). f_equal. apply N.lor_comm.
Qed.

Lemma block_word : forall k blk, (4 * k + 4 <= List.length blk)%nat -> bytesb blk = true ->
  exists b0 b1 b2 b3, firstn 4 (skipn (4 * k) blk) = [b0; b1; b2; b3] /\ u8 b0 /\ u8 b1 /\ u8 b2 /\ u8 b3 /\
                      nth k (words_of be32 blk) 0%N = be32 b0 b1 b2 b3.
Proof.
  induction k as [|k IH]; intros blk Hl Hb; destruct blk as [|a [|b [|c [|d r]]]]; cbn [List.length] in Hl; try lia.
  - exists a, b, c, d. cbn in Hb. unfold byte_ok in Hb.
    repeat (apply andb_prop in Hb; destruct Hb as [?H Hb]).
    cbn. unfold u8. repeat split; try (apply N.ltb_lt; assumption).
  - replace (4 * S k)%nat with (S (S (S (S (4 * k))))) by lia. cbn [skipn words_of nth].
    apply IH. lia. cbn in Hb. repeat (apply andb_prop in Hb; destruct Hb as [?H Hb]). exact Hb.
Qed.
Lemma words_of_length : forall p n l, List.length l = (4 * n)%nat -> List.length (words_of p l) = n.
Proof.
  induction n as [|n IH]; intros l H.
  - destruct l; [reflexivity|discriminate].
  - destruct l as [|a [|b [|c [|d r]]]]; cbn [List.length] in H; try lia. cbn [words_of List.length]. f_equal. apply IH. lia.
Qed.
Lemma firstn_S_nth : forall (A : Type) (l : list A) k d, (k < List.length l)%nat -> firstn (S k) l = firstn k l ++ [nth k l d].
Proof.
  induction l as [|x r IH]; intros k d H; cbn [List.length] in H; [lia|].
  destruct k; [reflexivity|]. cbn [firstn nth app]. f_equal. apply IH. lia.
Qed.
Lemma skipn_cons_nth : forall (A : Type) (l : list A) k d, (k < List.length l)%nat -> skipn k l = nth k l d :: skipn (S k) l.
Proof.
  induction l as [|x r IH]; intros k d H; cbn [List.length] in H; [lia|].
  destruct k; [reflexivity|]. cbn [skipn nth]. apply IH. lia.
Qed.
Lemma upd_nth_mid : forall (pre l : list Z) k v, List.length pre = k -> (k < List.length l)%nat ->
  upd_nth k v (pre ++ skipn k l) = (pre ++ [v]) ++ skipn (S k) l.
Proof.
  intros pre l k v Hp Hk. rewrite (skipn_cons_nth _ l k 0 Hk). subst k. rewrite upd_nth_app, <- app_assoc. reflexivity.
Qed.
Lemma succ_u32 : forall k, (k < 1000)%nat -> wrap U32 (Z.of_nat k + 1) = Z.of_nat (S k).
Proof. intros k H. rewrite wrapU32. rewrite Z.mod_small; lia. Qed.


Definition sched_step (L : list N) : N :=
  rotl32 (N.lxor (N.lxor (N.lxor (nth 2 L 0%N) (nth 7 L 0%N)) (nth 13 L 0%N)) (nth 15 L 0%N)) 1.
Lemma sched_S : forall n w, m_sha1_sched (S n) w = sched_step (m_sha1_sched n w) :: m_sha1_sched n w.
Proof.
  induction n as [|n IH]; intros w; [reflexivity|].
  change (m_sha1_sched (S (S n)) w) with
    (m_sha1_sched (S n) (rotl32 (N.lxor (N.lxor (N.lxor (nth 2 w 0%N) (nth 7 w 0%N)) (nth 13 w 0%N)) (nth 15 w 0%N)) (nth 2 sha1_rots 0%N) :: w)).
  rewrite IH. reflexivity.
Qed.
Lemma sched_length : forall n w, List.length (m_sha1_sched n w) = (n + List.length w)%nat.
Proof. induction n as [|n IH]; intros w; [reflexivity|]. cbn [m_sha1_sched]. rewrite IH. cbn [List.length]. lia. Qed.
Lemma u32_nth : forall l i, Forall u32 l -> u32 (nth i l 0%N).
Proof.
  intros l i H. destruct (Nat.lt_ge_cases i (List.length l)) as [Hl|Hl].
  - rewrite Forall_forall in H. apply H. now apply nth_In.
  - rewrite nth_overflow by lia. unfold u32. reflexivity.
Qed.
Lemma u32_sched_step : forall L, Forall u32 L -> u32 (sched_step L).
Proof. intros L H. unfold sched_step. apply u32_rotl32. repeat apply u32_lxor; now apply u32_nth. Qed.
Lemma sched_u32 : forall n w, Forall u32 w -> Forall u32 (m_sha1_sched n w).
Proof. induction n as [|n IH]; intros w H; [exact H|]. rewrite sched_S. constructor; auto. apply u32_sched_step. auto. Qed.

Lemma load_w_back : forall (L : list N) rest kk d, Forall u32 L -> List.length L = kk -> 1 <= d <= Z.of_nat kk -> (kk < 1000)%nat ->
  load_obj {| o_ty := U32; o_cells := map Z.of_N (rev L) ++ rest |} U32 (0 + wrap U32 (Z.of_nat kk - wrap U32 d) * 4) =
  Ok (Z.of_N (nth (Z.to_nat d - 1) L 0%N)).
Proof.
  intros L rest kk d HL Hlen Hd Hk.
  assert (E : wrap U32 (Z.of_nat kk - wrap U32 d) = Z.of_nat (kk - Z.to_nat d)).
  { rewrite !wrapU32. rewrite (Z.mod_small d) by lia. rewrite Z.mod_small by lia. lia. }
  rewrite E. rewrite load_raw_u32.
  2:{ rewrite app_length, map_length, rev_length. lia. }
  rewrite Nat2Z.id. rewrite app_nth1 by (rewrite map_length, rev_length; lia).
  rewrite nth_map_ofN. rewrite rev_nth by lia.
  replace (List.length L - S (kk - Z.to_nat d))%nat with (Z.to_nat d - 1)%nat by lia.
  rewrite zn_wrap; [reflexivity|]. now apply u32_nth.
Qed.

Lemma words_of_u32 : forall n blk, List.length blk = (4 * n)%nat -> bytesb blk = true -> Forall u32 (words_of be32 blk).
Proof.
  induction n as [|n IH]; intros l H Hb.
  - destruct l; [constructor|discriminate].
  - destruct l as [|a [|b [|c [|d r]]]]; cbn [List.length] in H; try lia. cbn [words_of].
    cbn in Hb. unfold byte_ok in Hb. repeat (apply andb_prop in Hb; destruct Hb as [?H Hb]).
    constructor; [|apply IH; [lia|exact Hb]].
    apply u32_be32; unfold u8; apply N.ltb_lt; assumption.
Qed.
Lemma zn_lxor3 : forall a b c d, u32 a -> u32 b -> u32 c -> u32 d ->
  wrap U32 (Z.lxor (wrap U32 (Z.lxor (wrap U32 (Z.lxor (Z.of_N a) (Z.of_N b))) (Z.of_N c))) (Z.of_N d)) =
  Z.of_N (N.lxor (N.lxor (N.lxor a b) c) d).
Proof.
  intros a b c d Ha Hb Hc Hd. rewrite zn_lxor by assumption. rewrite zn_lxor by (try apply u32_lxor; assumption).
  rewrite zn_lxor by (repeat apply u32_lxor; assumption). reflexivity.
Qed.

Section GetW.
Variable vt : list (string * string).
Notation exec := (MiniC.exec hash_prog vt).
Variables (m : memory) (fs : list (string * cfile)) (ps : list (string * value)) (fr : nat) (blk : list N) (wc : list Z).
Hypothesis Hs : mget m "s" = Some (bytes_object blk).
Hypothesis Hlen : List.length blk = 64%nat.
Hypothesis Hb : bytesb blk = true.
Hypothesis Hw : mget m "w" = Some {| o_ty := U32; o_cells := wc |}.
Hypothesis Hwl : List.length wc = 80%nat.
Let M := words_of be32 blk.

Definition Inv1 (k : nat) (s : state) : Prop :=
  exists l, s = ST (mset m "w" {| o_ty := U32; o_cells := map Z.of_N (firstn k M) ++ skipn k wc |}) l fs ps fr /\
            lget l "i" = Some (VInt (Z.of_nat k)).

Definition Inv2 (j : nat) (s : state) : Prop :=
  exists l, s = ST (mset m "w" {| o_ty := U32; o_cells := map Z.of_N (rev (m_sha1_sched j (rev M))) ++ skipn (16 + j) wc |}) l fs ps fr /\
            lget l "i" = Some (VInt (Z.of_nat (16 + j))).

Lemma getwdata_body : exists l', exec 120 (f_body Src_sha1.f_sha1hash_getwdata_0) (ST m [] fs ps fr) =
   Ok (Normal, ST (mset m "w" (u32_obj (m_sha1_W M))) l' fs ps fr).
Proof.
  cbn [f_body Src_sha1.f_sha1hash_getwdata_0].
  match goal with |- exists l', exec _ (SSeq ?a (SSeq (SLoop ?c1 ?b1 ?s1) (SLoop ?c2 ?b2 ?s2))) _ = _ =>
    assert (IT1 : forall k s, (k < 16)%nat -> Inv1 k s ->
     exists x, eval s c1 = Ok (VInt x) /\ x <> 0 /\
     exists s1' s2', exec 5 b1 s = Ok (Normal, s1') /\ exec 5 s1 s1' = Ok (Normal, s2') /\ Inv1 (S k) s2') end.
  { intros k s Hk [l [-> Hi]].
    eexists. split; [ev|]. split.
    { change (wrap U32 16) with 16. destruct (Z.ltb_spec (Z.of_nat k) 16); lia. }
    eexists. eexists. split; [|split].
    - eapply seq_ok with (f1 := 1%nat) (f2 := 1%nat); [ | | lia | lia].
      + eapply set_ok; [|lia]. ev. unfold bytes_object. apply load_le32. lia. rewrite map_length. lia.
      + nrm. eapply store_ok; [ev | ev | mg | apply store_raw_u32 | lia].
        rewrite app_length, map_length, firstn_length, skipn_length.
        unfold M. rewrite (words_of_length be32 16 blk) by (rewrite Hlen; reflexivity). lia.
    - nrm. eapply set_ok; [ev|lia].
    - nrm. rewrite mset_mset_same. rewrite succ_u32 by lia.
      match goal with |- context [upd_nth ?a ?b ?c] =>
        assert (EC : upd_nth a b c = map Z.of_N (firstn (S k) M) ++ skipn (S k) wc) end.
      { assert (LM : List.length M = 16%nat) by (unfold M; apply words_of_length; rewrite Hlen; reflexivity).
        rewrite Nat2Z.id. rewrite upd_nth_mid by (rewrite ?map_length, ?firstn_length; lia).
        f_equal. rewrite (firstn_S_nth _ M k 0%N) by lia. rewrite map_app. f_equal. cbn [map]. f_equal.
        destruct (block_word k blk ltac:(lia) Hb) as [b0 [b1 [b2 [b3 [E [U0 [U1 [U2 [U3 Enth]]]]]]]]].
        fold M in Enth. rewrite Enth.
        replace (Z.to_nat (Z.of_nat k * 4)) with (4 * k)%nat by lia.
        rewrite skipn_map, firstn_map, E.
        apply swap_be32; auto. }
      rewrite EC. eexists. split; [reflexivity|lg]. }
  match goal with |- exists l', exec _ (SSeq ?a (SSeq (SLoop ?c1 ?b1 ?s1) (SLoop ?c2 ?b2 ?s2))) _ = _ =>
    assert (IT2 : forall k s, (k < 64)%nat -> Inv2 k s ->
     exists x, eval s c2 = Ok (VInt x) /\ x <> 0 /\
     exists s1' s2', exec 5 b2 s = Ok (Normal, s1') /\ exec 5 s2 s1' = Ok (Normal, s2') /\ Inv2 (S k) s2') end.
  { intros j s Hj [l [-> Hi]].
    assert (LM : List.length M = 16%nat) by (unfold M; apply words_of_length; rewrite Hlen; reflexivity).
    assert (UM : Forall u32 M) by (unfold M; apply (words_of_u32 16); [rewrite Hlen; reflexivity|exact Hb]).
    set (L := m_sha1_sched j (rev M)).
    assert (HLl : List.length L = (16 + j)%nat) by (unfold L; rewrite sched_length, rev_length; lia).
    assert (HLu : Forall u32 L) by (unfold L; apply sched_u32; apply Forall_rev; exact UM).
    eexists. split; [ev|]. split.
    { change (wrap U32 80) with 80. destruct (Z.ltb_spec (Z.of_nat (16 + j)) 80); lia. }
    eexists. eexists. split; [|split].
    - eapply seq_ok with (f1 := 1%nat) (f2 := 1%nat); [ | | lia | lia].
      + eapply set_ok; [|lia]. ev; apply (load_w_back L); try assumption; lia.
      + nrm. eapply store_ok; [ev | ev | mg | apply store_raw_u32 | lia].
        rewrite app_length, map_length, rev_length, skipn_length. lia.
    - nrm. eapply set_ok; [ev|lia].
    - nrm. rewrite mset_mset_same. rewrite succ_u32 by lia.
      match goal with |- context [upd_nth ?a ?b ?c] =>
        assert (EC : upd_nth a b c = map Z.of_N (rev (m_sha1_sched (S j) (rev M))) ++ skipn (16 + S j) wc) end.
      { rewrite Nat2Z.id. rewrite upd_nth_mid by (rewrite ?map_length, ?rev_length; lia).
        replace (16 + S j)%nat with (S (16 + j)) by lia. f_equal.
        rewrite sched_S. fold L. cbn [rev]. rewrite map_app. f_equal. cbn [map]. f_equal.
        change (Z.to_nat 3 - 1)%nat with 2%nat. change (Z.to_nat 8 - 1)%nat with 7%nat.
        change (Z.to_nat 14 - 1)%nat with 13%nat. change (Z.to_nat 16 - 1)%nat with 15%nat.
        rewrite zn_lxor3 by (apply u32_nth; exact HLu).
        change 1 with (Z.of_N 1). change 31 with (Z.of_N 31).
        rewrite zn_rotl by (try reflexivity; repeat apply u32_lxor; apply u32_nth; exact HLu).
        unfold sched_step. apply zn_wrap. apply u32_rotl32. repeat apply u32_lxor; apply u32_nth; exact HLu. }
      rewrite EC. eexists. split; [reflexivity|].
      replace (16 + S j)%nat with (S (16 + j)) by lia. lg. }
  assert (LM : List.length M = 16%nat) by (unfold M; apply words_of_length; rewrite Hlen; reflexivity).
  match goal with |- exists l', exec _ (SSeq ?a (SSeq (SLoop ?c1 ?b1 ?s1) (SLoop ?c2 ?b2 ?s2))) _ = _ =>
    destruct (loop_inv hash_prog vt c1 b1 s1 Inv1 16 5 IT1) with (d := 16%nat) (k := 0%nat)
      (s := ST m [("i", VInt (wrap U32 0))] fs ps fr) as [sA [EA [lA [-> HiA]]]] end.
  { intros s [l [-> Hi]]. ev. }
  { reflexivity. }
  { exists [("i", VInt (wrap U32 0))]. split; [|reflexivity].
    cbn [firstn map app skipn]. rewrite (mset_same m "w" _ Hw). reflexivity. }
  match goal with |- exists l', exec _ (SSeq ?a (SSeq (SLoop ?c1 ?b1 ?s1) (SLoop ?c2 ?b2 ?s2))) _ = _ =>
    destruct (loop_inv hash_prog vt c2 b2 s2 Inv2 64 5 IT2) with (d := 64%nat) (k := 0%nat)
      (s := ST (mset m "w" {| o_ty := U32; o_cells := map Z.of_N (firstn 16 M) ++ skipn 16 wc |}) lA fs ps fr)
      as [sB [EB [lB [-> HiB]]]] end.
  { intros s [l [-> Hi]]. ev. }
  { reflexivity. }
  { exists lA. split; [|exact HiA]. cbn [m_sha1_sched]. rewrite rev_involutive.
    rewrite firstn_all2 by lia. reflexivity. }
  exists lB.
  eapply seq_ok with (f1 := 1%nat) (f2 := 100%nat); [ | | lia | lia].
  { eapply set_ok; [ev|lia]. }
  nrm.
  eapply seq_ok with (f1 := 22%nat) (f2 := 70%nat); [ exact EA | | lia | lia].
  replace (u32_obj (m_sha1_W M)) with {| o_ty := U32; o_cells := map Z.of_N (rev (m_sha1_sched 64 (rev M))) ++ skipn (16 + 64) wc |}.
  exact EB.
  unfold u32_obj, m_sha1_W. f_equal. rewrite skipn_all2 by lia. apply app_nil_r.
Qed.
End GetW.
