(* Refinement: the functions TRANSLATED FROM /repo's SOURCES (coq/Gen/Src_*.v, regenerated on
   every run by tools/cgen.py), run under the MiniC semantics (MiniC.v), compute exactly what the
   hand-written models compute -- for every input.  Together with the model = standard theorems
   (Properties_C07/C09/C10/C16) this gives "translated source = standard".
   A change to the C++ changes the left-hand sides; the proofs then have to be re-done (or fail). *)
From Coq Require Import ZArith NArith List String Bool.
From Wencry Require Import Bytes AesModel ModesModel HashModel Base64Model MiniC MiniCRun SrcRun RefineAes RefineModes.
Import ListNotations.
Local Open Scope N_scope.

(* aes.cpp: keyhandle(key) then encryaes/decryaes::runaes_128bit(block) *)
Theorem SRC_aes_block : forall (enc : bool) key blk,
  block16 key -> block16 blk ->
  src_aes enc key blk = SOk (if enc then aes_enc key blk else aes_dec key blk).
Proof. exact SRC_aes_block_proof. Qed.
Print Assumptions SRC_aes_block.

(* aesmode.cpp: Aesmode(iv), the eight runcry methods, getXor, ctrInc -- a stream object fed any sequence of blocks *)
Theorem SRC_mode_stream : forall (isenc : bool) type kind key iv blks,
  create isenc type = Some kind -> block16 key -> block16 iv -> Forall block16 blks ->
  src_mode isenc type key iv blks =
  SOk (snd (run (aes_enc_with (genall key)) (aes_dec_with (genall key)) kind iv blks)).
Proof. exact SRC_mode_stream_proof. Qed.
Print Assumptions SRC_mode_stream.


(* ---- composed with C09 / C10 (model = FIPS-197 / SP 800-38A) ---- *)
From Wencry Require Import AesSpec AesProofs ModesSpec ModesProofs.

Theorem SRC_aes_block_is_fips197 : forall (enc : bool) key blk,
  block16 key -> block16 blk ->
  src_aes enc key blk = SOk (if enc then Cipher key blk else InvCipher key blk).
Proof.
  intros enc key blk Hk Hb. rewrite (SRC_aes_block enc key blk Hk Hb). f_equal.
  destruct enc; [apply C09_encrypt_is_fips197_proof | apply C09_decrypt_is_fips197_proof]; assumption.
Qed.
Print Assumptions SRC_aes_block_is_fips197.

Theorem SRC_mode_stream_is_sp80038a : forall (isenc : bool) m key iv blks,
  m <= 4 -> block16 key -> block16 iv -> blocks16 blks ->
  exists out, src_mode isenc m key iv blks = SOk out /\
    Some out = if isenc then mode_enc (Cipher key) m iv blks else mode_dec (Cipher key) (InvCipher key) m iv blks.
Proof.
  intros isenc m key iv blks Hm Hk Hiv Hb. destruct isenc.
  - destruct (C10_encryptors_are_sp80038a_proof m key iv blks Hm Hk Hiv Hb) as [kind [Hc Hr]].
    eexists. split; [apply (SRC_mode_stream true m kind key iv blks Hc Hk Hiv Hb)|exact Hr].
  - destruct (C10_decryptors_are_sp80038a_proof m key iv blks Hm Hk Hiv Hb) as [kind [Hc Hr]].
    eexists. split; [apply (SRC_mode_stream false m kind key iv blks Hc Hk Hiv Hb)|exact Hr].
Qed.
Print Assumptions SRC_mode_stream_is_sp80038a.
