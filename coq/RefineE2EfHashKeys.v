(* A third general fact about [exec] (for code without pointer-member assignments, with local arrays named in LN, primitives
   fread / fseek / fwrite / strlen only): the lists of NAMES of the memory and of the pointer table only grow at the end; a new
   memory name is a local array "%x" (x in LN) or a heap name "#<n>..." with fresh s <= n < fresh s', a new pointer key is the
   class entry of a heap object created in between. *)
From Coq Require Import ZArith NArith List String Bool Lia Ascii Arith.
From Wencry Require Import MiniC MiniCLemmas RefineE2ENames RefineE2ERel RefineE2EEval RefineE2EFrame RefineE2EfWNames RefineE2EfHashMono.
Import ListNotations.
Local Open Scope list_scope.
Local Open Scope string_scope.

Lemma mset_keys_some : forall (m : memory) k o ob, mget m k = Some o -> map fst (mset m k ob) = map fst m.
Proof.
  induction m as [|[k0 o0] m IH]; intros k o ob H; cbn [mget mset] in *; [discriminate|].
  destruct (String.eqb_spec k k0) as [->|N]; cbn [map fst]; [reflexivity|]. f_equal. eapply IH, H.
Qed.
Lemma mset_keys_none : forall (m : memory) k ob, mget m k = None -> map fst (mset m k ob) = (map fst m ++ [k])%list.
Proof.
  induction m as [|[k0 o0] m IH]; intros k ob H; cbn [mget mset] in *; [reflexivity|].
  destruct (String.eqb_spec k k0) as [->|N]; [discriminate|]. cbn [map fst app]. f_equal. apply IH, H.
Qed.
Lemma lset_keys_none : forall A (l : list (string * A)) k v, lget l k = None -> map fst (lset l k v) = (map fst l ++ [k])%list.
Proof.
  induction l as [|[k0 v0] l IH]; intros k v H; cbn [lget lset] in *; [reflexivity|].
  destruct (String.eqb_spec k k0) as [->|N]; [discriminate|]. cbn [map fst app]. f_equal. apply IH, H.
Qed.
Lemma alloc_keys : forall cls pfx objs m, exists ks, map fst (alloc_objs cls pfx objs m) = (map fst m ++ ks)%list /\ Forall (fun k => exists y, k = pfx ++ y) ks.
Proof.
  intros cls pfx objs. induction objs as [|[[name t] n] r IH]; intro m; cbn [alloc_objs].
  - exists []. split; [now rewrite app_nil_r|constructor].
  - match goal with |- context [alloc_objs cls pfx r (mset m ?k ?ob)] => destruct (IH (mset m k ob)) as (ks & E & F); destruct (mget m k) as [o|] eqn:Eo end.
    + rewrite (mset_keys_some _ _ _ _ Eo) in E. exists ks. split; assumption.
    + rewrite (mset_keys_none _ _ _ Eo) in E. exists ((pfx ++ name) :: ks). split; [rewrite E, <- app_assoc; reflexivity|]. constructor; [eauto|exact F].
Qed.
Lemma hnum_hobj' : forall n y, hnum (hobj n ++ y) = Some n.
Proof. intros n y. unfold hobj. rewrite heap_dot. apply hnum_HN. reflexivity. Qed.

Section Keys.
Variable prog : program.
Variable vt : list (string * string).
Variable FL LN : list string.

Fixpoint mokK (st : stmt) : bool :=
  match st with
  | SSeq a b => mokK a && mokK b
  | SIf _ a b => mokK a && mokK b
  | SLoop _ a b => mokK a && mokK b
  | SDoWhile a _ => mokK a
  | SCall _ g _ _ => inb g FL
  | SCallVirt _ m _ _ => fvirt prog FL m
  | SNewObj _ _ _ (Some g) _ => inb g FL
  | SPrim _ name _ => inb name ["fread"; "fseek"; "fwrite"; "strlen"]
  | SLocalArr x _ _ => inb x LN
  | SSetPtr _ _ | SSetPtrCell _ _ | SNewObjArr _ _ _ _ => false
  | _ => true
  end.
Hypothesis HFLK : forall g fn, In g FL -> lget prog g = Some fn -> mokK (f_body fn) = true.

Lemma nosz_nil : forall cls (objs : list (string * ity * Z)), forallb (fun x : string * ity * Z => negb (inb ("sizeof:" ++ cls ++ "." ++ fst (fst x)) [])) objs = true.
Proof. intros cls objs. induction objs as [|x r IH]; [reflexivity|]. cbn [forallb]. rewrite IH. reflexivity. Qed.
Lemma mokK_mok : forall st, mokK st = true -> mok prog FL [] st = true.
Proof.
  induction st; intro K; cbn [mokK mok] in *; try exact K; try reflexivity; try discriminate K;
    try (apply andb_prop in K; destruct K as [K1 K2]; rewrite IHst1, IHst2 by assumption; reflexivity).
  - apply IHst, K.
  - rewrite nosz_nil, andb_true_r. destruct ctor; [exact K|reflexivity].
Qed.
Lemma HFLm' : forall g fn, In g FL -> lget prog g = Some fn -> mok prog FL [] (f_body fn) = true.
Proof. intros g fn Hg L. apply mokK_mok, (HFLK g fn Hg L). Qed.

Definition newk (f f' : nat) (k : string) : Prop := (exists x, k = "%" ++ x /\ In x LN) \/ (exists n, hnum k = Some n /\ (f <= n < f')%nat).
Definition newp (f f' : nat) (k : string) : Prop := exists n, k = class_key (hobj n) /\ (f <= n < f')%nat.
Definition KR (s s' : state) : Prop :=
  (fresh s <= fresh s')%nat /\
  (exists ks, map fst (mem s') = (map fst (mem s) ++ ks)%list /\ Forall (newk (fresh s) (fresh s')) ks) /\
  (exists pks, map fst (ptrs s') = (map fst (ptrs s) ++ pks)%list /\ Forall (newp (fresh s) (fresh s')) pks).

Lemma newk_mono : forall a b a' b' k, (a' <= a)%nat -> (b <= b')%nat -> newk a b k -> newk a' b' k.
Proof. intros a b a' b' k H1 H2 [H|(n & E & H)]; [left; exact H|right; exists n; split; [exact E|lia]]. Qed.
Lemma newp_mono : forall a b a' b' k, (a' <= a)%nat -> (b <= b')%nat -> newp a b k -> newp a' b' k.
Proof. intros a b a' b' k H1 H2 (n & E & H). exists n. split; [exact E|lia]. Qed.
Lemma KR_refl : forall s, KR s s.
Proof. intro s. split; [lia|]. split; exists []; (split; [now rewrite app_nil_r|constructor]). Qed.
Lemma KR_trans : forall a b c, KR a b -> KR b c -> KR a c.
Proof.
  intros a b c (A1 & (ks1 & A2 & A3) & (ps1 & A4 & A5)) (B1 & (ks2 & B2 & B3) & (ps2 & B4 & B5)). split; [lia|]. split.
  - exists (ks1 ++ ks2)%list. split; [rewrite B2, A2, app_assoc; reflexivity|]. apply Forall_app. split.
    + eapply Forall_impl; [|exact A3]. intros k. apply newk_mono; lia.
    + eapply Forall_impl; [|exact B3]. intros k. apply newk_mono; lia.
  - exists (ps1 ++ ps2)%list. split; [rewrite B4, A4, app_assoc; reflexivity|]. apply Forall_app. split.
    + eapply Forall_impl; [|exact A5]. intros k. apply newp_mono; lia.
    + eapply Forall_impl; [|exact B5]. intros k. apply newp_mono; lia.
Qed.
Lemma KR_same : forall s s', map fst (mem s') = map fst (mem s) -> ptrs s' = ptrs s -> fresh s' = fresh s -> KR s s'.
Proof.
  intros s s' Hm Hp Hf. unfold KR. rewrite Hm, Hp, Hf. split; [lia|]. split; exists []; (split; [now rewrite app_nil_r|constructor]).
Qed.

Lemma memcpy_keys : forall s d sr n s', do_memcpy s d sr n = Ok s' -> map fst (mem s') = map fst (mem s) /\ ptrs s' = ptrs s /\ fresh s' = fresh s.
Proof.
  intros s d sr n s' H. unfold do_memcpy in H. destruct d as [|od offd|]; try discriminate. destruct sr as [|os offs|]; try discriminate.
  destruct (mget (mem s) od) eqn:E1; [|discriminate]. destruct (mget (mem s) os); [|discriminate].
  repeat match type of H with (if ?c then _ else _) = _ => destruct c; [discriminate|] end. injection H as <-.
  cbn [with_mem mem ptrs fresh]. split; [eapply mset_keys_some, E1|auto].
Qed.
Lemma memset_keys : forall s d v n s', do_memset s d v n = Ok s' -> map fst (mem s') = map fst (mem s) /\ ptrs s' = ptrs s /\ fresh s' = fresh s.
Proof.
  intros s d v n s' H. unfold do_memset in H. destruct d as [|od offd|]; try discriminate.
  destruct (mget (mem s) od) eqn:E1; [|discriminate].
  repeat match type of H with (if ?c then _ else _) = _ => destruct c; [discriminate|] end. injection H as <-.
  cbn [with_mem mem ptrs fresh]. split; [eapply mset_keys_some, E1|auto].
Qed.
Lemma prim_keys : forall s name vs v s', inb name ["fread"; "fseek"; "fwrite"; "strlen"] = true -> do_prim s name vs = Ok (v, s') ->
  map fst (mem s') = map fst (mem s).
Proof.
  intros s name vs v s' K H. destruct (prim_cases name K) as [-> |[-> |[-> | ->]]]; unfold do_prim in H; cbn [String.eqb Ascii.eqb Bool.eqb andb] in H.
  - destruct vs as [|[z|od offd|] vs]; try discriminate H.
    destruct vs as [|[z1|?|] vs]; try discriminate H. destruct z1 as [|[p|p|]|]; try discriminate H.
    destruct vs as [|[n|?|] vs]; try discriminate H. destruct vs as [|fp vs]; try discriminate H. destruct vs; try discriminate H.
    bo H as fname E0.
    destruct (lget (files s) fname) as [f|] eqn:Ef; [|discriminate]. destruct (mget (mem s) od) as [bd|] eqn:Eo; [|discriminate].
    destruct (negb (ity_bytes (o_ty bd) =? 1)%Z);
      repeat match type of H with (if ?c then _ else _) = _ => destruct c; [discriminate|] end; injection H as _ <-;
      cbn [with_files with_mem mem]; eapply mset_keys_some, Eo.
  - destruct vs as [|fp vs]; try discriminate H. destruct vs as [|[off|?|] vs]; try discriminate H.
    destruct vs as [|[z|?|] vs]; try discriminate H. destruct z; try discriminate H. destruct vs; try discriminate H.
    bo H as fname E0.
    destruct (lget (files s) fname) as [f|] eqn:Ef; [|discriminate].
    match type of H with (if ?c then _ else _) = _ => destruct c; [discriminate|] end. injection H as _ <-. reflexivity.
  - destruct vs as [|[z|os offs|] vs]; try discriminate H.
    destruct vs as [|[z1|?|] vs]; try discriminate H. destruct z1 as [|[p|p|]|]; try discriminate H.
    destruct vs as [|[n|?|] vs]; try discriminate H. destruct vs as [|fp vs]; try discriminate H. destruct vs; try discriminate H.
    bo H as fname E0.
    destruct (lget (files s) fname) as [f|] eqn:Ef; [|discriminate]. destruct (mget (mem s) os) as [bs|]; [|discriminate].
    repeat match type of H with (if ?c then _ else _) = _ => destruct c; [discriminate|] end. injection H as _ <-. reflexivity.
  - destruct vs as [|[z|o off|] vs]; try discriminate H. destruct vs; try discriminate H.
    destruct (mget (mem s) o) as [ob|]; [|discriminate].
    match type of H with (if ?c then _ else _) = _ => destruct c; [discriminate|] end.
    destruct (strlen_from _ _); [|discriminate]. injection H as _ <-. reflexivity.
Qed.

Theorem exec_keys : forall fuel st s o s', mokK st = true -> exec prog vt fuel st s = Ok (o, s') -> NA s' -> KR s s'.
Proof.
  induction fuel as [|fuel IH]; intros st s o s' K H N; [discriminate H|].
  pose proof (NA_grow _ _ (exec_grow prog vt FL [] HFLm' _ _ _ _ _ (mokK_mok _ K) H) N) as N0.
  assert (CALL : forall ret g pfx vs o0 s0, In g FL -> NA s0 ->
    match lget prog g with
    | None => UB ("no function " ++ g)%string
    | Some f => do l <- bind_params (f_params f) vs;
                do r1 <- exec prog vt fuel (f_body f) {| mem := mem s; loc := l; pre := pfx; files := files s; ptrs := ptrs s; fresh := fresh s |};
                let '(o, s1) := r1 in
                do s2 <- set_ret {| mem := mem s1; loc := loc s; pre := pre s; files := files s1; ptrs := ptrs s1; fresh := fresh s1 |} ret
                                 (match o with Returned v => v | _ => None end);
                Ok (Normal, s2)
    end = Ok (o0, s0) -> KR s s0).
  { intros ret g pfx vs o0 s0 Hg Ns0 Hc. destruct (lget prog g) as [fn|] eqn:L; [|discriminate Hc].
    bo Hc as l El. bo Hc as r1 E1. destruct r1 as [o1 s1]. bo Hc as s2 E2. injection Hc as _ <-.
    destruct (set_ret_same _ _ _ _ E2) as (A & B & D & _). cbn [ptrs fresh mem] in A, B, D.
    assert (N1 : NA s1) by (intro c0; rewrite <- A; apply Ns0).
    pose proof (IH _ _ _ _ (HFLK g fn Hg L) E1 N1) as Q. unfold KR in *. cbn [mem ptrs fresh] in Q. rewrite A, B, D. exact Q. }
  destruct st; cbn [mokK] in K; try discriminate K; cbn [exec] in H.
  - injection H as _ <-. apply KR_refl.
  - apply andb_prop in K. destruct K as [K1 K2]. bo H as r1 E1. destruct r1 as [o1 s1].
    destruct o1.
    + pose proof (NA_grow _ _ (exec_grow prog vt FL [] HFLm' _ _ _ _ _ (mokK_mok _ K2) H) N) as N1.
      eapply KR_trans; [eapply (IH st1); [exact K1|exact E1|exact N1]|eapply (IH st2); [exact K2|exact H|exact N]].
    + injection H as _ <-. eapply (IH st1); [exact K1|exact E1|exact N].
    + injection H as _ <-. eapply (IH st1); [exact K1|exact E1|exact N].
  - bo H as v Ev. injection H as _ <-. apply KR_same; reflexivity.
  - bo H as pv Ep. bo H as ev Ee. bo H as z Ez. destruct pv as [|ob off|]; try discriminate H. destruct (mget (mem s) ob) eqn:Eo; [|discriminate H].
    bo H as ob' Es. injection H as _ <-. apply KR_same; try reflexivity. cbn [with_mem mem]. eapply mset_keys_some, Eo.
  - apply andb_prop in K. destruct K as [K1 K2]. bo H as cv Ec. bo H as x Ex. destruct (x =? 0)%Z; [eapply IH; [exact K2|exact H|exact N]|eapply IH; [exact K1|exact H|exact N]].
  - pose proof K as K0. apply andb_prop in K. destruct K as [K1 K2]. bo H as cv Ec. bo H as x Ex.
    destruct (x =? 0)%Z; [injection H as _ <-; apply KR_refl|].
    bo H as r1 E1. destruct r1 as [o1 s1].
    destruct o1; [|injection H as _ <-; eapply (IH st1); [exact K1|exact E1|exact N]|injection H as _ <-; eapply (IH st1); [exact K1|exact E1|exact N]].
    bo H as r2 E2. destruct r2 as [o2 s2]. destruct o2; try discriminate H.
    assert (K0' : mokK (SLoop c st1 st2) = true) by exact K0.
    pose proof (NA_grow _ _ (exec_grow prog vt FL [] HFLm' _ (SLoop c st1 st2) _ _ _ (mokK_mok _ K0') H) N) as N2.
    pose proof (NA_grow _ _ (exec_grow prog vt FL [] HFLm' _ _ _ _ _ (mokK_mok _ K2) E2) N2) as N1.
    eapply KR_trans; [eapply (IH st1); [exact K1|exact E1|exact N1]|]. eapply KR_trans; [eapply (IH st2); [exact K2|exact E2|exact N2]|].
    eapply (IH (SLoop c st1 st2)); [exact K0'|exact H|exact N].
  - bo H as r1 E1. destruct r1 as [o1 s1].
    destruct o1; [|injection H as _ <-; eapply (IH st); [exact K|exact E1|exact N]|injection H as _ <-; eapply (IH st); [exact K|exact E1|exact N]].
    bo H as cv Ec. bo H as x Ex. destruct (x =? 0)%Z; [injection H as _ <-; eapply (IH st); [exact K|exact E1|exact N]|].
    assert (K0' : mokK (SDoWhile st c) = true) by exact K.
    pose proof (NA_grow _ _ (exec_grow prog vt FL [] HFLm' _ (SDoWhile st c) _ _ _ (mokK_mok _ K0') H) N) as N1.
    eapply KR_trans; [eapply (IH st); [exact K|exact E1|exact N1]|]. eapply (IH (SDoWhile st c)); [exact K0'|exact H|exact N].
  - injection H as _ <-. apply KR_refl.
  - destruct e; [bo H as v Ev|]; injection H as _ <-; apply KR_refl.
  - bo H as vs Evs. bo H as pfx Epf. eapply CALL; [apply inb_In, K|exact N|exact H].
  - bo H as vs Evs. bo H as pfx Epf.
    destruct (lget vt pfx) as [cls|].
    + destruct (lget prog (cls ++ "::" ++ m)) as [fn|] eqn:L; [|discriminate H]. eapply (CALL ret (cls ++ "::" ++ m)); [eapply fvirt_in; eassumption|exact N|rewrite L; exact H].
    + destruct (lget (ptrs s) (class_key pfx)) as [[z|cls off|]|]; try discriminate H.
      destruct (lget prog (cls ++ "::" ++ m)) as [fn|] eqn:L; [|discriminate H]. eapply (CALL ret (cls ++ "::" ++ m)); [eapply fvirt_in; eassumption|exact N|rewrite L; exact H].
  - bo H as dv Ed. bo H as sv Es. bo H as nv En. bo H as k Ek. bo H as s1 Em. injection H as _ <-.
    destruct (memcpy_keys _ _ _ _ _ Em) as (A & B & D). apply KR_same; assumption.
  - bo H as dv Ed. bo H as vv Ev. bo H as x Ex. bo H as nv En. bo H as k Ek. bo H as s1 Em. injection H as _ <-.
    destruct (memset_keys _ _ _ _ _ Em) as (A & B & D). apply KR_same; assumption.
  - (* SLocalArr *)
    injection H as _ <-. split; [cbn [with_mem fresh]; lia|]. split; [|exists []; split; [now rewrite app_nil_r|constructor]].
    cbn [with_mem mem fresh]. destruct (mget (mem s) ("%" ++ x)) as [ob|] eqn:Eo.
    + exists []. rewrite app_nil_r. split; [eapply mset_keys_some, Eo|constructor].
    + exists ["%" ++ x]. split; [apply mset_keys_none, Eo|]. constructor; [|constructor]. left. exists x. split; [reflexivity|apply inb_In, K].
  - (* SNew *)
    bo H as nv En. bo H as k Ek. destruct (k <? 0)%Z; [discriminate H|]. injection H as _ <-.
    split; [cbn [fresh]; lia|]. split; [|exists []; split; [now rewrite app_nil_r|constructor]].
    cbn [mem fresh]. change ("#" ++ nat_string (fresh s)) with (heap_name (fresh s)).
    destruct (mget (mem s) (heap_name (fresh s))) as [ob|] eqn:Eo.
    + exists []. rewrite app_nil_r. split; [eapply mset_keys_some, Eo|constructor].
    + exists [heap_name (fresh s)]. split; [apply mset_keys_none, Eo|]. constructor; [|constructor]. right. exists (fresh s). split; [apply hnum_heap|lia].
  - bo H as pv Ep. injection H as _ <-. apply KR_refl.
  - bo H as vs Evs. bo H as r Er. destruct r as [v s1]. bo H as s2 E2. injection H as _ <-.
    destruct (prim_ptrs _ _ _ _ _ K Er) as (A & B & _). destruct (set_ret_same _ _ _ _ E2) as (A2 & B2 & D2 & _).
    apply KR_same; [rewrite D2; eapply prim_keys; eassumption|congruence|congruence].
  - (* SNewObj *)
    bo H as vs Evs. rewrite (N0 cls) in H.
    match type of H with (if negb ?b then _ else _) = _ => destruct (negb b); [discriminate H|] end.
    change ("#" ++ nat_string (fresh s) ++ ".") with (hobj (fresh s)) in H.
    set (name := hobj (fresh s)) in *.
    assert (K0 : KR s {| mem := alloc_objs cls name objs (mem s); loc := lset (loc s) x (VPtr name 0); pre := pre s; files := files s;
                         ptrs := lset (ptrs s) (class_key name) (VPtr cls 0); fresh := Datatypes.S (fresh s) |}).
    { split; [cbn [fresh]; lia|]. cbn [mem ptrs fresh]. split.
      - destruct (alloc_keys cls name objs (mem s)) as (ks & E & F). exists ks. split; [exact E|].
        eapply Forall_impl; [|exact F]. intros k [y ->]. right. exists (fresh s). split; [apply hnum_hobj'|lia].
      - destruct (lget (ptrs s) (class_key name)) as [w|] eqn:Ec.
        + exists []. rewrite app_nil_r. split; [eapply lset_keys, Ec|constructor].
        + exists [class_key name]. split; [apply lset_keys_none, Ec|]. constructor; [|constructor]. exists (fresh s). split; [reflexivity|lia]. }
    destruct ctor as [g|].
    + destruct (lget prog g) as [fn|] eqn:L; [|discriminate H]. bo H as l El. bo H as r1 E1. destruct r1 as [o1 s1]. injection H as _ <-.
      assert (N1 : NA s1) by (intro c0; apply (N c0)).
      pose proof (IH _ _ _ _ (HFLK g fn (proj1 (inb_In _ _) K) L) E1 N1) as Q.
      eapply KR_trans; [exact K0|]. unfold KR in *. cbn [mem ptrs fresh] in *. exact Q.
    + injection H as _ <-. exact K0.
Qed.

Lemma call_keys : forall fuel g pfx vs s v s', In g FL -> call prog vt fuel g pfx vs s = Ok (v, s') -> NA s' -> KR s s'.
Proof.
  intros fuel g pfx vs s v s' Hg H N. unfold call in H. destruct (lget prog g) as [fn|] eqn:L; [|discriminate H].
  bo H as l El. bo H as r1 E1. destruct r1 as [o1 s1]. injection H as _ <-.
  assert (N1 : NA s1) by (intro c0; apply (N c0)).
  pose proof (exec_keys _ _ _ _ _ (HFLK g fn Hg L) E1 N1) as Q. unfold KR in *. cbn [mem ptrs fresh] in *. exact Q.
Qed.
End Keys.

(* ---------------- the spine from the names ---------------- *)
Lemma mget_in' : forall (m : memory) k o, mget m k = Some o -> In k (map fst m).
Proof.
  induction m as [|[k' o'] r IH]; intros k o Hk; cbn [mget] in Hk; [discriminate|].
  cbn [map fst]. destruct (String.eqb_spec k k') as [->|]; [left; reflexivity|right; eapply IH, Hk].
Qed.
Lemma spine_mem : forall (m m' : memory) ks, map fst m' = (map fst m ++ ks)%list -> NoDup (map fst m) ->
  (forall k o, mget m k = Some o -> mget m' k = Some o) -> m' = (m ++ skipn (List.length m) m')%list.
Proof.
  induction m as [|[k o] m IH]; intros m' ks Hk Hn Hv; [reflexivity|].
  destruct m' as [|[k' o'] m']; [discriminate Hk|]. cbn [map fst app] in Hk. injection Hk as -> Hk.
  cbn [List.length skipn app]. inversion Hn as [|? ? Hni Hn']; subst.
  assert (E : o' = o).
  { pose proof (Hv k o) as Q. cbn [mget] in Q. rewrite String.eqb_refl in Q. specialize (Q eq_refl). congruence. }
  subst o'. f_equal. apply (IH m' ks Hk Hn').
  intros k1 o1 H1. pose proof (Hv k1 o1) as Q. cbn [mget] in Q.
  destruct (String.eqb_spec k1 k) as [->|N]; [exfalso; apply Hni; eapply mget_in', H1|]. apply Q, H1.
Qed.
Lemma lget_in' : forall A (l : list (string * A)) k v, lget l k = Some v -> In k (map fst l).
Proof.
  induction l as [|[k' v'] r IH]; intros k v Hk; cbn [lget] in Hk; [discriminate|].
  cbn [map fst]. destruct (String.eqb_spec k k') as [->|]; [left; reflexivity|right; eapply IH, Hk].
Qed.
Lemma spine_locs : forall A (m m' : list (string * A)) ks, map fst m' = (map fst m ++ ks)%list -> NoDup (map fst m) ->
  (forall k o, lget m k = Some o -> lget m' k = Some o) -> m' = (m ++ skipn (List.length m) m')%list.
Proof.
  intros A. induction m as [|[k o] m IH]; intros m' ks Hk Hn Hv; [reflexivity|].
  destruct m' as [|[k' o'] m']; [discriminate Hk|]. cbn [map fst app] in Hk. injection Hk as -> Hk.
  cbn [List.length skipn app]. inversion Hn as [|? ? Hni Hn']; subst.
  assert (E : o' = o).
  { pose proof (Hv k o) as Q. cbn [lget] in Q. rewrite String.eqb_refl in Q. specialize (Q eq_refl). congruence. }
  subst o'. f_equal. apply (IH m' ks Hk Hn').
  intros k1 o1 H1. pose proof (Hv k1 o1) as Q. cbn [lget] in Q.
  destruct (String.eqb_spec k1 k) as [->|N]; [exfalso; apply Hni; eapply lget_in', H1|]. apply Q, H1.
Qed.
Lemma skipn_keys : forall A (m m' : list (string * A)) ks, map fst m' = (map fst m ++ ks)%list -> map fst (skipn (List.length m) m') = ks.
Proof.
  intros A m m' ks H. rewrite <- skipn_map, H. rewrite <- (map_length fst m). rewrite skipn_app, skipn_all, Nat.sub_diag. reflexivity.
Qed.
