(* C14 -- chunk buffers are handed over exclusively between worker and I/O thread.
   Over the transition system PipeConc (all T >= 1, all inputs, all schedules, any cipher
   stream object).  Only statements; proofs are [exact]s of lemmas of PipeProofs. *)
From Wencry Require Import Bytes FileModel PipeConc PipeProps PipeProofs.
From Wencry Require PipeSync.
From Wencry.Gen Require Sync.
Local Open Scope nat_scope.

Section C14.
Variable S : Type.
Variable tr : S -> list N -> S * list N.
Variable tr_event : nat -> S -> list event.
Variable c : nat.
Variable ispadding : bool.

(* ownership token: whenever worker i is about to touch buffer i the buffer is READY (handed to
   it) or INV (retired for good, nothing left in it); whenever the I/O thread is flushing or
   refilling buffer i it is EMPTY or UPDATING (handed back); hence never both *)
Theorem C14_exclusive_hand_over : forall T sigma0 ls s i,
  1 <= T -> length sigma0 = T -> wf_loads ls -> reachable S tr tr_event c ispadding T sigma0 ls s -> i < T ->
  (worker_touches S s i -> b_st (getb S s i) = READY \/ (b_st (getb S s i) = INV /\ b_now (getb S s i) = b_total (getb S s i))) /\
  (io_owns S s i -> b_st (getb S s i) = EMPTY \/ b_st (getb S s i) = UPDATING) /\
  ~ (worker_touches S s i /\ io_owns S s i).
Proof. exact (C14_exclusive_hand_over_proof S tr tr_event c ispadding). Qed.

(* the token moves only as documented: READY -> UPDATING by the owning worker only,
   EMPTY/UPDATING -> READY/INV by the I/O thread only, INV is terminal; a worker never
   changes another worker's buffer *)
Theorem C14_token_moves : forall T sigma0 ls s tid s' evs i,
  1 <= T -> length sigma0 = T -> wf_loads ls -> reachable S tr tr_event c ispadding T sigma0 ls s -> i < T ->
  step S tr tr_event c ispadding s tid = Some (s', evs) ->
  b_st (getb S s' i) <> b_st (getb S s i) ->
  (tid = Datatypes.S i /\ b_st (getb S s i) = READY /\ b_st (getb S s' i) = UPDATING) \/
  (tid = 0 /\ turn S s = i /\ (b_st (getb S s i) = EMPTY \/ b_st (getb S s i) = UPDATING) /\
   (b_st (getb S s' i) = READY \/ b_st (getb S s' i) = INV)).
Proof. exact (C14_token_moves_proof S tr tr_event c ispadding). Qed.

Theorem C14_workers_touch_only_their_buffer : forall s i s' evs j,
  step_worker S tr tr_event s i = Some (s', evs) -> j <> i -> getb S s' j = getb S s j.
Proof. exact (C14_workers_touch_only_their_buffer_proof S tr tr_event). Qed.
End C14.
Print Assumptions C14_exclusive_hand_over.
Print Assumptions C14_token_moves.
Print Assumptions C14_workers_touch_only_their_buffer.

(* the functions of the hand-over protocol, as clang reads the CURRENT sources, are textually the ones the transition system
   was written from (regenerated on every run; see PipeSync.v) *)
Theorem C14_protocol_text_is_the_modelled_one : Sync.sync_skeleton = PipeSync.expected_skeleton.
Proof. exact PipeSync.skeleton_unchanged. Qed.
Print Assumptions C14_protocol_text_is_the_modelled_one.
