(* SNewObj under the relation of RefineE2EfXRel.v: the first run takes the new object's prefix from its allocation plan
   ("" for the hasher of class cls0, "buf." for the filebuffer64) or, without plan entry, "#<fresh>."; the second run always "#<fresh>.".
   The world grows accordingly. *)
From Coq Require Import ZArith NArith List String Bool Lia Ascii Arith.
From Wencry Require Import MiniC MiniCLemmas RefineE2EfXNames RefineE2EfXRel RefineE2EfXEval.
Import ListNotations.
Local Open Scope list_scope.
Local Open Scope string_scope.

Section Alloc.
Variable cls0 : string.
Variable E : list string.
Hypothesis HE : forall e, In e E -> exists r, e = "sizeof:" ++ r.
Hypothesis Hcls0 : In cls0 hashcls.
Notation Rel := (Rel cls0 E).

Definition MemR (W : world) (m M : memory) : Prop :=
  (forall k, nm W k -> ~ In k E -> mget M (tau W k) = mget m k) /\ (forall e, In e E -> mget m e = None) /\
  (forall k o, mget m k = Some o -> nm W k) /\ (forall n y, (wf W <= n)%nat -> mget M (hobj n ++ y) = None).
Definition PtrR (W : world) (ps PS : list (string * value)) : Prop :=
  (forall k, nm W k -> lget PS (tau W k) = option_map (rv W) (lget ps k)) /\
  (forall r, clsp W r -> lget PS ("class:" ++ tau W r) = lget ps ("class:" ++ r)) /\
  (forall k v, lget ps k = Some v -> pkey_ok cls0 W k v) /\
  (forall c, lget PS ("alloc:" ++ c) = None) /\
  (forall n y, (wf W <= n)%nat -> lget PS (hobj n ++ y) = None /\ lget PS ("class:" ++ hobj n ++ y) = None).

Lemma rel_memr : forall W s S, Rel W s S -> MemR W (mem s) (mem S).
Proof. intros W s S R. destruct R. repeat split; assumption. Qed.
Lemma rel_ptrr : forall W s S, Rel W s S -> PtrR W (ptrs s) (ptrs S).
Proof. intros W s S R. destruct R. repeat split; try assumption; apply r_belowP; assumption. Qed.

Definition newnm (W W' : world) : Prop := forall k, nm W' k -> nm W k \/ (~ nm W k /\ exists y, tau W' k = hobj (wf W) ++ y).
Definition newcl (W W' : world) : Prop := forall r, clsp W' r -> clsp W r \/ (~ clsp W r /\ tau W' r = hobj (wf W)).

Lemma memr_world : forall W W' m M, ext W W' -> newnm W W' -> MemR W m M -> MemR W' m M.
Proof.
  intros W W' m M X NEW (A & B & C & D). split; [|split; [|split]].
  - intros k Hn HnE. destruct (NEW k Hn) as [Hk|[Hk [y Ey]]].
    + rewrite (proj2 (nm_mono W W' k X Hk)). apply A; assumption.
    + rewrite Ey, D by lia. destruct (mget m k) as [o|] eqn:Eo; [|reflexivity]. exfalso. apply Hk. eapply C, Eo.
  - exact B.
  - intros k o H. apply (nm_mono W W' k X). eapply C, H.
  - intros n y Hn. apply D. destruct X as (F & _). lia.
Qed.
Lemma ptrr_world : forall W W' ps PS, ext W W' -> newnm W W' -> newcl W W' -> PtrR W ps PS -> PtrR W' ps PS.
Proof.
  intros W W' ps PS X NEW NEWC (A & B & C & D & F). split; [|split; [|split; [|split]]].
  - intros k Hn. destruct (NEW k Hn) as [Hk|[Hk [y Ey]]].
    + rewrite (proj2 (nm_mono W W' k X Hk)). rewrite A by exact Hk.
      destruct (lget ps k) as [v|] eqn:Ev; [|reflexivity]. cbn [option_map]. apply f_equal. symmetry.
      destruct (C k v Ev) as [[_ G]|[(r & c & -> & _)|[[-> _]|[-> _]]]].
      * apply (gv_mono W W' v X G).
      * exfalso. eapply nm_not_class; [exact Hk|reflexivity].
      * exfalso. eapply nm_not_alloc; [exact Hk|reflexivity].
      * exfalso. eapply (nm_not_alloc W _ "filebuffer64"); [exact Hk|reflexivity].
    + rewrite Ey. rewrite (proj1 (F (wf W) y (le_n _))).
      destruct (lget ps k) as [v|] eqn:Ev; [|reflexivity]. exfalso.
      destruct (C k v Ev) as [[G _]|[(r & c & -> & _)|[[-> _]|[-> _]]]].
      * exact (Hk G).
      * eapply nm_not_class; [exact Hn|reflexivity].
      * eapply nm_not_alloc; [exact Hn|reflexivity].
      * eapply (nm_not_alloc W' _ "filebuffer64"); [exact Hn|reflexivity].
  - intros r Cr. destruct (NEWC r Cr) as [Ck|[Ck Ey]].
    + rewrite (proj2 (nm_mono W W' r X (clsp_nm W r Ck))). apply B, Ck.
    + rewrite Ey. rewrite <- (append_nil_r (hobj (wf W))). rewrite (proj2 (F (wf W) "" (le_n _))).
      destruct (lget ps ("class:" ++ r)) as [v|] eqn:Ev; [|reflexivity]. exfalso.
      destruct (C _ v Ev) as [[G _]|[(r' & c & Ek & C' & _)|[[Ek _]|[Ek _]]]]; try discriminate Ek.
      * eapply nm_not_class; [exact G|reflexivity].
      * apply append_inj_l in Ek. subst r'. exact (Ck C').
  - intros k v H. destruct (C k v H) as [[G1 G2]|[(r & c & -> & Cr & Hc)|[Al|Al]]].
    + left. split; [apply (nm_mono W W' k X G1)|apply (gv_mono W W' v X G2)].
    + right. left. exists r, c. split; [reflexivity|]. split; [eapply clsp_mono; eassumption|exact Hc].
    + right. right. left. exact Al.
    + right. right. right. exact Al.
  - exact D.
  - intros n y Hn. apply F. destruct X as (F0 & _). lia.
Qed.

Lemma memr_mset_new : forall W m M k ob, wfW W -> MemR W m M -> nm W k -> ~ In k E -> MemR W (mset m k ob) (mset M (tau W k) ob).
Proof.
  intros W m M k ob HW (A & B & C & D) Hn HnE. split; [|split; [|split]].
  - intros k' Hn' HE'. destruct (String.eqb_spec k k') as [<-|Hne].
    + rewrite !mget_mset_same. reflexivity.
    + rewrite !mget_mset_other; [apply A; assumption|congruence|]. intro Et. apply Hne. eapply tau_inj_nm; eassumption.
  - intros e He. rewrite mget_mset_other; [apply B, He|]. intro Ee. subst e. contradiction.
  - intros k' o' H'. destruct (String.eqb_spec k k') as [<-|Hne]; [exact Hn|]. rewrite mget_mset_other in H' by exact Hne. eapply C, H'.
  - intros n y Hny. rewrite mget_mset_other; [apply D, Hny|]. apply tau_nm_below; assumption.
Qed.

Lemma coh_not_E : forall W p f, preok W p -> (p = "" -> In f five) -> ~ In (p ++ f) E.
Proof.
  intros W p f Hp H0 HinE. destruct (HE _ HinE) as [r Er].
  destruct Hp as [H|[(n & g & -> & H)|[[H ->]|[H (g & ->)]]]].
  - destruct (ordb_cases p H) as [(c & r0 & -> & Oc)|(d & r0 & -> & Hd)].
    + apply okc_cases in Oc. cbn in Er. injection Er as -> _. destruct Oc as (_ & _ & _ & _ & _ & X & _). discriminate.
    + cbn in Er. injection Er as -> _. discriminate Hd.
  - rewrite append_assoc_s, hobj_app in Er. discriminate.
  - specialize (H0 eq_refl). cbn [append] in Er. subst f. cbn in H0. intuition discriminate.
  - discriminate.
Qed.

Lemma memr_alloc : forall W cls pfx objs m M, wfW W -> MemR W m M -> preok W pfx ->
  (pfx = "" -> forall x, In x objs -> In (fst (fst x)) five) ->
  (forall x, In x objs -> ~ In ("sizeof:" ++ cls ++ "." ++ fst (fst x)) E) ->
  MemR W (alloc_objs cls pfx objs m) (alloc_objs cls (tau W pfx) objs M).
Proof.
  intros W cls pfx objs. induction objs as [|[[name t] n] objs IH]; intros m M HW R Hp H5 HsE; [exact R|].
  cbn [alloc_objs].
  assert (Esz : mget M ("sizeof:" ++ cls ++ "." ++ name) = mget m ("sizeof:" ++ cls ++ "." ++ name)).
  { assert (X : mget M (tau W ("sizeof:" ++ cls ++ "." ++ name)) = mget m ("sizeof:" ++ cls ++ "." ++ name)).
    { apply (proj1 R); [right; left; eauto|]. apply (HsE (name, t, n)). left. reflexivity. }
    exact X. }
  rewrite Esz.
  destruct (coh W pfx name Hp) as [Ec Hn]. { intro E0. apply (H5 E0 (name, t, n)). left. reflexivity. }
  rewrite <- Ec. apply IH; try assumption.
  - apply memr_mset_new; try assumption. apply (coh_not_E W); [exact Hp|]. intro E0. apply (H5 E0 (name, t, n)). left. reflexivity.
  - intros E0 x Hx. apply (H5 E0). right. exact Hx.
  - intros x Hx. apply HsE. right. exact Hx.
Qed.

(* what alloc_objs leaves alone / creates *)
Lemma alloc_other : forall cls pfx objs m k, (forall x, In x objs -> k <> pfx ++ fst (fst x)) -> mget (alloc_objs cls pfx objs m) k = mget m k.
Proof.
  intros cls pfx objs. induction objs as [|[[name t] n] objs IH]; intros m k H; [reflexivity|]. cbn [alloc_objs].
  rewrite IH by (intros x Hx; apply H; right; exact Hx). apply mget_mset_other. intro E0. apply (H (name, t, n)); [left; reflexivity|]. symmetry. exact E0.
Qed.
Lemma alloc_some : forall cls pfx objs m k, mget m k <> None -> mget (alloc_objs cls pfx objs m) k <> None.
Proof.
  intros cls pfx objs. induction objs as [|[[name t] n] objs IH]; intros m k H; [exact H|]. cbn [alloc_objs]. apply IH.
  destruct (String.eqb_spec (pfx ++ name) k) as [<-|Hne]; [rewrite mget_mset_same; discriminate|]. rewrite mget_mset_other by exact Hne. exact H.
Qed.
Lemma alloc_in : forall cls pfx objs m name, In name (map (fun x => fst (fst x)) objs) -> mget (alloc_objs cls pfx objs m) (pfx ++ name) <> None.
Proof.
  intros cls pfx objs. induction objs as [|[[nm0 t] n] objs IH]; intros m name H; [destruct H|]. cbn [alloc_objs]. cbn [map fst In] in H.
  destruct H as [<-|H]; [apply alloc_some; rewrite mget_mset_same; discriminate|apply IH, H].
Qed.

Lemma ptrr_lset_class : forall W ps PS r c, wfW W -> PtrR W ps PS -> clsp W r -> In c regcls ->
  PtrR W (lset ps ("class:" ++ r) (VPtr c 0)) (lset PS ("class:" ++ tau W r) (VPtr c 0)).
Proof.
  intros W ps PS r c HW (A & B & C & D & F) Cr Hc. split; [|split; [|split; [|split]]].
  - intros k Hn. rewrite !lget_lset_other; [apply A, Hn| |].
    + intro E0. symmetry in E0. eapply nm_not_class; eassumption.
    + rewrite <- (t1_clsp W r Cr). intro E0. symmetry in E0. eapply tau_nm_not_class; eassumption.
  - intros r' Cr'. destruct (String.eqb_spec r r') as [<-|Hne].
    + rewrite !lget_lset_same. reflexivity.
    + rewrite !lget_lset_other; [apply B, Cr'| |].
      * intro E0. apply append_inj_l in E0. congruence.
      * intro E0. apply append_inj_l in E0. apply Hne. eapply tau_inj_nm; try eassumption; apply clsp_nm; assumption.
  - intros k v H. destruct (String.eqb_spec k ("class:" ++ r)) as [->|Hne].
    + rewrite lget_lset_same in H. injection H as <-. right. left. exists r, c. auto.
    + rewrite lget_lset_other in H by congruence. eapply C, H.
  - intros c'. rewrite lget_lset_other; [apply D|]. discriminate.
  - intros n y Hn. destruct (F n y Hn) as [F1 F2]. split.
    + rewrite lget_lset_other; [exact F1|]. rewrite hobj_app. discriminate.
    + rewrite lget_lset_other; [exact F2|]. intro E0. apply append_inj_l in E0.
      eapply (tau_nm_below W r n y HW (clsp_nm W r Cr) Hn). exact E0.
Qed.

(* ---------------- the three new worlds ---------------- *)
Lemma not_nm_hobj_new : forall W y, ~ nm W (hobj (wf W) ++ y).
Proof.
  intros W y [H|[[r Er]|[[n En]|[(n & x & En & (Hn1 & _))|[[_ H]|[_ [x Ex]]]]]]].
  - rewrite hobj_app in H. discriminate.
  - rewrite hobj_app in Er. discriminate.
  - symmetry in En. eapply heap_not_hobj, En.
  - apply hobj_inj in En. destruct En as [<- _]. lia.
  - destruct H as [H|H]; [rewrite hobj_app in H; discriminate|]. rewrite hobj_app in H. cbn in H. intuition discriminate.
  - rewrite hobj_app in Ex. discriminate.
Qed.
Lemma not_nm_lit : forall W k, (k = "" \/ In k five) -> wa W = None -> ~ nm W k.
Proof.
  intros W k Hk Hnone Hn.
  assert (K : k = "" \/ k = "hashblock" \/ k = "totalsize" \/ k = "h" \/ k = "w" \/ k = "s").
  { destruct Hk as [->|Hk]; [auto|]. cbn in Hk. intuition auto. }
  destruct Hn as [H1|[[r Er]|[[n En]|[(n & x & En & _)|[[Ha' _]|[_ [x Ex]]]]]]]; try congruence;
  repeat (destruct K as [->|K]); subst; try discriminate.
  all: try (match goal with X : _ = heap_name _ |- _ => unfold heap_name in X; discriminate X end).
  all: try (match goal with X : _ = hobj _ ++ _ |- _ => rewrite hobj_app in X; discriminate X end).
Qed.
Lemma not_nm_buf : forall W x, wb W = None -> ~ nm W ("buf." ++ x).
Proof.
  intros W x Hnone [H1|[[r Er]|[[n En]|[(n & y & En & _)|[[_ H]|[Hb' _]]]]]]; try congruence; try discriminate.
  all: try (match goal with X : _ = hobj _ ++ _ |- _ => rewrite hobj_app in X; discriminate X end).
  all: try (destruct H as [H|H]; [discriminate|]; cbn in H; intuition discriminate).
Qed.
Lemma newnm_Wn : forall W, newnm W (Wn W).
Proof.
  intros W k [H|[[r ->]|[[n ->]|[(n & x & -> & (Hn & Ha & Hb))|[[Ha H]|[Hb H]]]]]].
  - left. left. exact H.
  - left. right. left. eauto.
  - left. right. right. left. eauto.
  - cbn in Hn, Ha, Hb. destruct (Nat.eq_dec n (wf W)) as [->|Hne].
    + right. split; [apply not_nm_hobj_new|]. exists x. apply tau_hobj.
    + left. right. right. right. left. exists n, x. split; [reflexivity|]. repeat split; [lia|exact Ha|exact Hb].
  - left. right. right. right. right. left. auto.
  - left. right. right. right. right. right. auto.
Qed.
Lemma newcl_Wn : forall W, newcl W (Wn W).
Proof.
  intros W r [[H ->]|[[H ->]|(n & -> & (Hn & Ha & Hb))]].
  - left. left. auto.
  - left. right. left. auto.
  - cbn in Hn, Ha, Hb. destruct (Nat.eq_dec n (wf W)) as [->|Hne].
    + right. split.
      * intros [[_ Er]|[[_ Er]|(n & En & (Hn1 & _))]]; try (unfold hobj, heap_name in Er; discriminate Er).
        rewrite <- (append_nil_r (hobj (wf W))), <- (append_nil_r (hobj n)) in En. apply hobj_inj in En. destruct En as [<- _]. lia.
      * rewrite <- (append_nil_r (hobj (wf W))) at 1. rewrite tau_hobj. apply append_nil_r.
    + left. right. right. exists n. split; [reflexivity|]. repeat split; [lia|exact Ha|exact Hb].
Qed.
Lemma newnm_Wa : forall W, wa W = None -> newnm W (Wa W).
Proof.
  intros W Hnone k [H|[[r ->]|[[n ->]|[(n & x & -> & (Hn & Ha & Hb))|[[Ha H]|[Hb H]]]]]].
  - left. left. exact H.
  - left. right. left. eauto.
  - left. right. right. left. eauto.
  - cbn in Hn, Ha, Hb. left. right. right. right. left. exists n, x. split; [reflexivity|]. repeat split; [|congruence|exact Hb].
    assert (n <> wf W) by congruence. lia.
  - right. split.
    + apply not_nm_lit; assumption.
    + destruct H as [->|H].
      * exists "". rewrite tau_empty, append_nil_r. reflexivity.
      * exists k. rewrite tau_five by exact H. reflexivity.
  - left. right. right. right. right. right. auto.
Qed.
Lemma newcl_Wa : forall W, wa W = None -> newcl W (Wa W).
Proof.
  intros W Hnone r [[H ->]|[[H ->]|(n & -> & (Hn & Ha & Hb))]].
  - right. split; [|reflexivity]. intros [[H1 _]|[[_ Er]|(n & En & _)]]; try congruence; try discriminate; try (unfold hobj, heap_name in En; discriminate En).
  - left. right. left. auto.
  - cbn in Hn, Ha, Hb. left. right. right. exists n. split; [reflexivity|]. repeat split; [|congruence|exact Hb]. assert (n <> wf W) by congruence. lia.
Qed.
Lemma newnm_Wb : forall W, wb W = None -> newnm W (Wb W).
Proof.
  intros W Hnone k [H|[[r ->]|[[n ->]|[(n & x & -> & (Hn & Ha & Hb))|[[Ha H]|[Hb [x ->]]]]]]].
  - left. left. exact H.
  - left. right. left. eauto.
  - left. right. right. left. eauto.
  - cbn in Hn, Ha, Hb. left. right. right. right. left. exists n, x. split; [reflexivity|]. repeat split; [|exact Ha|congruence].
    assert (n <> wf W) by congruence. lia.
  - left. right. right. right. right. left. auto.
  - right. split.
    + apply not_nm_buf; assumption.
    + exists x. rewrite tau_buf. reflexivity.
Qed.
Lemma newcl_Wb : forall W, wb W = None -> newcl W (Wb W).
Proof.
  intros W Hnone r [[H ->]|[[H ->]|(n & -> & (Hn & Ha & Hb))]].
  - left. left. auto.
  - right. split.
    + intros [[_ Er]|[[H1 _]|(n & En & _)]]; try congruence; try discriminate; try (unfold hobj, heap_name in En; discriminate En).
    + change "buf." with ("buf." ++ ""). rewrite tau_buf. apply append_nil_r.
  - cbn in Hn, Ha, Hb. left. right. right. exists n. split; [reflexivity|]. repeat split; [|exact Ha|congruence]. assert (n <> wf W) by congruence. lia.
Qed.

Definition onames (objs : list (string * ity * Z)) : list string := map (fun x => fst (fst x)) objs.

Lemma rel_alloc_gen : forall W W' s S cls name objs,
  Rel W s S -> ext W W' -> wfW W' -> wf W' = Datatypes.S (wf W) -> newnm W W' -> newcl W W' ->
  preok W' name -> clsp W' name -> tau W' name = hobj (wf W) -> In cls regcls ->
  (name = "" -> forall x, In x objs -> In (fst (fst x)) five) ->
  (forall x, In x objs -> ~ In ("sizeof:" ++ cls ++ "." ++ fst (fst x)) E) ->
  (wa W' <> None -> (wa W <> None /\ name <> "") \/ (name = "" /\ cls = cls0 /\ In "hashblock" (onames objs))) ->
  (wb W' <> None -> (wb W <> None /\ name <> "buf.") \/ (name = "buf." /\ cls = "filebuffer64" /\ In "b" (onames objs))) ->
  Rel W' {| mem := alloc_objs cls name objs (mem s); loc := loc s; pre := pre s; files := files s;
            ptrs := lset (ptrs s) (class_key name) (VPtr cls 0); fresh := Datatypes.S (fresh s) |}
         {| mem := alloc_objs cls (hobj (wf W)) objs (mem S); loc := loc S; pre := pre S; files := files S;
            ptrs := lset (ptrs S) (class_key (hobj (wf W))) (VPtr cls 0); fresh := Datatypes.S (fresh S) |}.
Proof.
  intros W W' s S cls name objs R X HW' Hf NEW NEWC Hp Hc Et Hcls H5 HsE HrH HrB.
  pose proof (memr_alloc W' cls name objs _ _ HW' (memr_world W W' _ _ X NEW (rel_memr W s S R)) Hp H5 HsE) as MR.
  rewrite Et in MR. destruct MR as (M1 & M2 & M3 & M4).
  pose proof (ptrr_lset_class W' _ _ name cls HW' (ptrr_world W W' _ _ X NEW NEWC (rel_ptrr W s S R)) Hc Hcls) as PR.
  rewrite Et in PR. destruct PR as (P1 & P2 & P3 & P4 & P5).
  constructor; cbn [mem loc pre files ptrs fresh].
  - rewrite (r_fresh _ _ _ _ _ R). symmetry. exact Hf.
  - rewrite (r_freshS _ _ _ _ _ R). symmetry. exact Hf.
  - exact HW'.
  - rewrite (r_pre _ _ _ _ _ R). symmetry. apply (nm_mono W W' _ X). apply preok_nm, (r_preok _ _ _ _ _ R).
  - eapply preok_mono; [exact X|apply (r_preok _ _ _ _ _ R)].
  - rewrite (r_loc _ _ _ _ _ R). symmetry. apply (gl_mono W W' _ X (r_gl _ _ _ _ _ R)).
  - apply (gl_mono W W' _ X (r_gl _ _ _ _ _ R)).
  - apply (r_files _ _ _ _ _ R).
  - apply (r_fk _ _ _ _ _ R).
  - exact M1.
  - exact M2.
  - exact M3.
  - exact M4.
  - exact P1.
  - exact P2.
  - exact P3.
  - exact P4.
  - exact P5.
  - intro Ha. destruct (HrH Ha) as [[Ha0 Hne]|(-> & -> & Hin)].
    + destruct (r_regH _ _ _ _ _ R Ha0) as [A B]. split; [|apply alloc_some, B].
      unfold class_key. rewrite lget_lset_other; [exact A|]. intro E0. apply Hne. change "class:" with ("class:" ++ "") in E0. apply append_inj_l in E0. exact E0.
    + split; [unfold class_key; apply lget_lset_same|]. apply (alloc_in _ "" objs (mem s) "hashblock" Hin).
  - intro Hb. destruct (HrB Hb) as [[Hb0 Hne]|(-> & -> & Hin)].
    + destruct (r_regB _ _ _ _ _ R Hb0) as [A B]. split; [|apply alloc_some, B].
      unfold class_key. rewrite lget_lset_other; [exact A|]. intro E0. apply Hne. change "class:buf." with ("class:" ++ "buf.") in E0. apply append_inj_l in E0. exact E0.
    + split; [unfold class_key; apply lget_lset_same|]. apply (alloc_in "filebuffer64" "buf." objs (mem s) "b" Hin).
Qed.

Lemma forallb_free : forall (m : memory) pfx objs name,
  forallb (fun x : string * ity * Z => match mget m (pfx ++ fst (fst x)) with None => true | Some _ => false end) objs = true ->
  In name (onames objs) -> mget m (pfx ++ name) = None.
Proof.
  intros m pfx objs name H Hin. unfold onames in Hin. apply in_map_iff in Hin. destruct Hin as (x & <- & Hx).
  rewrite forallb_forall in H. specialize (H x Hx). destruct (mget m (pfx ++ fst (fst x))); [discriminate|reflexivity].
Qed.

Lemma rel_alloc : forall W s S cls objs,
  Rel W s S -> In cls regcls ->
  (In cls hashcls -> (forall x, In x objs -> In (fst (fst x)) five) /\ In "hashblock" (onames objs)) ->
  (cls = "filebuffer64" -> In "b" (onames objs)) ->
  (forall x, In x objs -> ~ In ("sizeof:" ++ cls ++ "." ++ fst (fst x)) E) ->
  forall name, name = match lget (ptrs s) ("alloc:" ++ cls) with Some (VPtr p _) => p | _ => ("#" ++ nat_string (fresh s) ++ ".")%string end ->
  forallb (fun x : string * ity * Z => match mget (mem s) (name ++ fst (fst x)) with None => true | Some _ => false end) objs = true ->
  exists W', ext W W' /\ tau W' name = hobj (wf W) /\ preok W' name /\ nm W' name /\ (name = "" -> In cls hashcls) /\
    lget (ptrs S) ("alloc:" ++ cls) = None /\
    forallb (fun x : string * ity * Z => match mget (mem S) (hobj (wf W) ++ fst (fst x)) with None => true | Some _ => false end) objs = true /\
    Rel W' {| mem := alloc_objs cls name objs (mem s); loc := loc s; pre := pre s; files := files s;
              ptrs := lset (ptrs s) (class_key name) (VPtr cls 0); fresh := Datatypes.S (fresh s) |}
           {| mem := alloc_objs cls (hobj (wf W)) objs (mem S); loc := loc S; pre := pre S; files := files S;
              ptrs := lset (ptrs S) (class_key (hobj (wf W))) (VPtr cls 0); fresh := Datatypes.S (fresh S) |}.
Proof.
  intros W s S cls objs R Hcls Hh Hb HsE name Ename Hfree.
  pose proof (r_wf _ _ _ _ _ R) as HW.
  assert (HfreeS : forallb (fun x : string * ity * Z => match mget (mem S) (hobj (wf W) ++ fst (fst x)) with None => true | Some _ => false end) objs = true).
  { apply forallb_forall. intros x _. rewrite (r_belowM _ _ _ _ _ R) by lia. reflexivity. }
  assert (Plan : (name = "" /\ cls = cls0) \/ (name = "buf." /\ cls = "filebuffer64") \/ name = hobj (wf W)).
  { destruct (lget (ptrs s) ("alloc:" ++ cls)) as [v|] eqn:Ev.
    - destruct (r_ptrsnm _ _ _ _ _ R _ v Ev) as [[G _]|[(r & c & Ek & _)|[[Ek ->]|[Ek ->]]]].
      + exfalso. eapply nm_not_alloc; [exact G|reflexivity].
      + discriminate Ek.
      + apply append_inj_l in Ek. left. auto.
      + change "alloc:filebuffer64" with ("alloc:" ++ "filebuffer64") in Ek. apply append_inj_l in Ek. right. left. auto.
    - right. right. rewrite Ename, (r_fresh _ _ _ _ _ R). reflexivity. }
  clear Ename. destruct Plan as [[En Ec]|[[En Ec]|En]]; [subst name cls|subst name cls|subst name].
  - (* the hasher, at "" *)
    destruct (Hh Hcls0) as [H5 Hhb].
    assert (Hnone : wa W = None).
    { destruct (wa W) as [a|] eqn:Ea; [|reflexivity]. exfalso.
      destruct (r_regH _ _ _ _ _ R) as [_ B]; [congruence|]. apply B. apply (forallb_free (mem s) "" objs "hashblock" Hfree Hhb). }
    exists (Wa W). split; [apply ext_Wa, Hnone|]. split; [reflexivity|].
    assert (Hp : preok (Wa W) "") by (right; right; left; split; [discriminate|reflexivity]).
    split; [exact Hp|]. split; [apply preok_nm, Hp|]. split; [intros _; exact Hcls0|]. split; [apply (r_noalloc _ _ _ _ _ R)|]. split; [exact HfreeS|].
    apply (rel_alloc_gen W (Wa W) s S cls0 "" objs R (ext_Wa W Hnone) (wf_Wa W HW) eq_refl (newnm_Wa W Hnone) (newcl_Wa W Hnone) Hp).
    + left. split; [discriminate|reflexivity].
    + reflexivity.
    + exact Hcls.
    + intros _. exact H5.
    + exact HsE.
    + intros _. right. auto.
    + intros Hb0. left. split; [exact Hb0|discriminate].
  - (* the filebuffer64, at "buf." *)
    specialize (Hb eq_refl).
    assert (Hnone : wb W = None).
    { destruct (wb W) as [b|] eqn:Eb; [|reflexivity]. exfalso.
      destruct (r_regB _ _ _ _ _ R) as [_ B]; [congruence|]. apply B. apply (forallb_free (mem s) "buf." objs "b" Hfree Hb). }
    exists (Wb W). split; [apply ext_Wb, Hnone|].
    assert (Et : tau (Wb W) "buf." = hobj (wf W)) by (change "buf." with ("buf." ++ ""); rewrite tau_buf; apply append_nil_r).
    split; [exact Et|].
    assert (Hp : preok (Wb W) "buf.") by (right; right; right; split; [discriminate|exists ""; reflexivity]).
    split; [exact Hp|]. split; [apply preok_nm, Hp|]. split; [discriminate|]. split; [apply (r_noalloc _ _ _ _ _ R)|]. split; [exact HfreeS|].
    apply (rel_alloc_gen W (Wb W) s S "filebuffer64" "buf." objs R (ext_Wb W Hnone) (wf_Wb W HW) eq_refl (newnm_Wb W Hnone) (newcl_Wb W Hnone) Hp).
    + right. left. split; [discriminate|reflexivity].
    + exact Et.
    + exact Hcls.
    + discriminate.
    + exact HsE.
    + intros Ha0. left. split; [exact Ha0|discriminate].
    + intros _. right. auto.
  - (* no plan entry: "#<fresh>." in both runs *)
    exists (Wn W). split; [apply ext_Wn|].
    assert (Et : tau (Wn W) (hobj (wf W)) = hobj (wf W)) by (rewrite <- (append_nil_r (hobj (wf W))) at 1; rewrite tau_hobj; apply append_nil_r).
    split; [exact Et|].
    assert (Hp : preok (Wn W) (hobj (wf W))).
    { right. left. exists (wf W), "". split; [now rewrite append_nil_r|apply natidx_new, HW]. }
    split; [exact Hp|]. split; [apply preok_nm, Hp|]. split; [unfold hobj, heap_name; discriminate|]. split; [apply (r_noalloc _ _ _ _ _ R)|]. split; [exact HfreeS|].
    apply (rel_alloc_gen W (Wn W) s S cls (hobj (wf W)) objs R (ext_Wn W) (wf_Wn W HW) eq_refl (newnm_Wn W) (newcl_Wn W) Hp).
    + right. right. exists (wf W). split; [reflexivity|apply natidx_new, HW].
    + exact Et.
    + exact Hcls.
    + unfold hobj, heap_name. discriminate.
    + exact HsE.
    + intros Ha0. left. split; [exact Ha0|unfold hobj, heap_name; discriminate].
    + intros Hb0. left. split; [exact Hb0|unfold hobj, heap_name; discriminate].
Qed.
End Alloc.
