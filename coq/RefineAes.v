(* Refinement: translated aes.cpp (Gen/Src_aes.v) under MiniC = AesModel.
   Part 2: rounds, key schedule, runaes_128bit and the theorem SRC_aes_block_proof. *)
From Coq Require Import ZArith NArith List String Bool Lia.
From Wencry Require Import Bytes AesModel MiniC MiniCRun MiniCLemmas SrcRun AesProofs RefineAesLib RefineAesOps RefineAesKey.
From Wencry Require ModesProofs.
From Wencry.Gen Require Import AesTab AesCoef.
From Wencry.Gen Require Src_aes Src_aesmode.
Import ListNotations.
Local Open Scope Z_scope.
Local Open Scope string_scope.

(* ---------------- blocks are preserved by the model's steps ---------------- *)
Lemma addroundkey_block : forall w k, block16 w -> block16 k -> block16 (addroundkey w k).
Proof. intros. apply ModesProofs.block16_xorl; assumption. Qed.
Lemma enc_subbytes_block : forall w, block16 w -> block16 (enc_subbytes w).
Proof. intros w Hw. blk w Hw. cbv [enc_subbytes map]. apply block16_intro; apply sbox_lt. Qed.
Lemma dec_subbytes_block : forall w, block16 w -> block16 (dec_subbytes w).
Proof. intros w Hw. blk w Hw. cbv [dec_subbytes map]. apply block16_intro; apply rsbox_lt. Qed.
Lemma enc_rowshift_block : forall w, block16 w -> block16 (enc_rowshift w).
Proof. intros w Hw. blk w Hw. cbv [enc_rowshift mperm map nth]. apply block16_intro; assumption. Qed.
Lemma dec_rowshift_block : forall w, block16 w -> block16 (dec_rowshift w).
Proof. intros w Hw. blk w Hw. cbv [dec_rowshift mperm map nth]. apply block16_intro; assumption. Qed.
Lemma columnmix_block : forall rows w, block16 (columnmix rows w).
Proof.
  intros rows w. unfold columnmix. cbn [map]. apply block16_intro; unfold mumline; repeat apply lxor_lt256; apply Gmul_lt.
Qed.
Lemma transpose_block' : forall w, block16 w -> block16 (transpose w).
Proof. intros w Hw. blk w Hw. cbv [transpose mperm map nth]. apply block16_intro; assumption. Qed.

Lemma tabs_ok_mset : forall m o x, ~ is_tab o -> tabs_ok m -> tabs_ok (mset m o x).
Proof.
  intros m o x Hnt (H1 & H2 & H3 & H4 & H5). unfold is_tab in Hnt.
  unfold tabs_ok. rewrite !mget_mset_other by tauto. auto.
Qed.

Local Notation P := aes_prog.

Ltac blocks_tac :=
  lazymatch goal with
  | |- block16 (addroundkey _ _) => apply addroundkey_block; blocks_tac
  | |- block16 (enc_subbytes _) => apply enc_subbytes_block; blocks_tac
  | |- block16 (dec_subbytes _) => apply dec_subbytes_block; blocks_tac
  | |- block16 (enc_rowshift _) => apply enc_rowshift_block; blocks_tac
  | |- block16 (dec_rowshift _) => apply dec_rowshift_block; blocks_tac
  | |- block16 (columnmix _ _) => apply columnmix_block
  | |- block16 (transpose _) => apply transpose_block'; blocks_tac
  | |- _ => assumption
  end.
Ltac side :=
  lazymatch goal with
  | |- (_ <= _)%nat => lia
  | |- (_ <= _)%Z => first [assumption | lia]
  | |- block16 _ => solve [blocks_tac]
  | |- tabs_ok _ => cbn [mem]; repeat apply tabs_ok_mset; assumption
  | |- mget _ _ = _ => cbn [mem]; mget_tac
  | |- _ => eassumption
  end.
Ltac xcall spec := st_norm; eapply x_call; [evl | reflexivity | eapply spec; side | reflexivity].

Lemma enc_commonround_spec : forall vt s pfx fuel o ok offk w kc k,
  (40 <= fuel)%nat -> tabs_ok (mem s) -> ~ is_tab o ->
  mget (mem s) o = Some (bytes_object w) -> block16 w ->
  mget (mem s) ok = Some (bobj kc) -> 0 <= offk -> offk + 16 <= Z.of_nat (List.length kc) ->
  firstn 16 (skipn (Z.to_nat offk) kc) = map Z.of_N k -> block16 k -> o <> ok ->
  call P vt fuel "encryaes_commonround/2" pfx [VPtr o 0; VPtr ok offk] s
  = Ok (None, with_mem s (mset (mem s) o (bytes_object (enc_commonround w k)))).
Proof.
  intros vt s pfx fuel o ok offk w kc k Hf Ht Hnt Hw Bw Hk H0 Hlen Hkk Bk Hne.
  eapply call_mono; [|exact Hf].
  eapply call_normal; [reflexivity | reflexivity | | | | | ].
  - cbn [f_body Src_aes.f_encryaes_commonround_2].
    eapply x_seq; [xcall addroundkey_spec|].
    eapply x_seq; [xcall enc_subbytes_spec|].
    eapply x_seq; [xcall enc_rowshift_spec|].
    xcall enc_columnmix_spec.
  - reflexivity.
  - reflexivity.
  - reflexivity.
  - st_norm. unfold enc_commonround. reflexivity.
Qed.

Lemma dec_commonround_spec : forall vt s pfx fuel o ok offk w kc k,
  (40 <= fuel)%nat -> tabs_ok (mem s) -> ~ is_tab o ->
  mget (mem s) o = Some (bytes_object w) -> block16 w ->
  mget (mem s) ok = Some (bobj kc) -> 0 <= offk -> offk + 16 <= Z.of_nat (List.length kc) ->
  firstn 16 (skipn (Z.to_nat offk) kc) = map Z.of_N k -> block16 k -> o <> ok ->
  call P vt fuel "decryaes_commonround/2" pfx [VPtr o 0; VPtr ok offk] s
  = Ok (None, with_mem s (mset (mem s) o (bytes_object (dec_commonround w k)))).
Proof.
  intros vt s pfx fuel o ok offk w kc k Hf Ht Hnt Hw Bw Hk H0 Hlen Hkk Bk Hne.
  eapply call_mono; [|exact Hf].
  eapply call_normal; [reflexivity | reflexivity | | | | | ].
  - cbn [f_body Src_aes.f_decryaes_commonround_2].
    eapply x_seq; [xcall dec_columnmix_spec|].
    eapply x_seq; [xcall dec_rowshift_spec|].
    eapply x_seq; [xcall dec_subbytes_spec|].
    xcall addroundkey_spec.
  - reflexivity.
  - reflexivity.
  - reflexivity.
  - st_norm. unfold dec_commonround. reflexivity.
Qed.

Lemma enc_specround_spec : forall vt s pfx fuel o ok offk1 offk2 w kc k1 k2,
  (40 <= fuel)%nat -> tabs_ok (mem s) -> ~ is_tab o ->
  mget (mem s) o = Some (bytes_object w) -> block16 w ->
  mget (mem s) ok = Some (bobj kc) ->
  0 <= offk1 -> offk1 + 16 <= Z.of_nat (List.length kc) ->
  firstn 16 (skipn (Z.to_nat offk1) kc) = map Z.of_N k1 -> block16 k1 ->
  0 <= offk2 -> offk2 + 16 <= Z.of_nat (List.length kc) ->
  firstn 16 (skipn (Z.to_nat offk2) kc) = map Z.of_N k2 -> block16 k2 -> o <> ok ->
  call P vt fuel "encryaes_specround/3" pfx [VPtr o 0; VPtr ok offk1; VPtr ok offk2] s
  = Ok (None, with_mem s (mset (mem s) o (bytes_object (enc_specround w k1 k2)))).
Proof.
  intros vt s pfx fuel o ok offk1 offk2 w kc k1 k2 Hf Ht Hnt Hw Bw Hk H01 Hlen1 Hkk1 Bk1 H02 Hlen2 Hkk2 Bk2 Hne.
  eapply call_mono; [|exact Hf].
  eapply call_normal; [reflexivity | reflexivity | | | | | ].
  - cbn [f_body Src_aes.f_encryaes_specround_3].
    eapply x_seq; [xcall addroundkey_spec|].
    eapply x_seq; [xcall enc_subbytes_spec|].
    eapply x_seq; [xcall enc_rowshift_spec|].
    xcall addroundkey_spec.
  - reflexivity.
  - reflexivity.
  - reflexivity.
  - st_norm. unfold enc_specround. reflexivity.
Qed.

Lemma dec_specround_spec : forall vt s pfx fuel o ok offk1 offk2 w kc k1 k2,
  (40 <= fuel)%nat -> tabs_ok (mem s) -> ~ is_tab o ->
  mget (mem s) o = Some (bytes_object w) -> block16 w ->
  mget (mem s) ok = Some (bobj kc) ->
  0 <= offk1 -> offk1 + 16 <= Z.of_nat (List.length kc) ->
  firstn 16 (skipn (Z.to_nat offk1) kc) = map Z.of_N k1 -> block16 k1 ->
  0 <= offk2 -> offk2 + 16 <= Z.of_nat (List.length kc) ->
  firstn 16 (skipn (Z.to_nat offk2) kc) = map Z.of_N k2 -> block16 k2 -> o <> ok ->
  call P vt fuel "decryaes_specround/3" pfx [VPtr o 0; VPtr ok offk1; VPtr ok offk2] s
  = Ok (None, with_mem s (mset (mem s) o (bytes_object (dec_specround w k1 k2)))).
Proof.
  intros vt s pfx fuel o ok offk1 offk2 w kc k1 k2 Hf Ht Hnt Hw Bw Hk H01 Hlen1 Hkk1 Bk1 H02 Hlen2 Hkk2 Bk2 Hne.
  eapply call_mono; [|exact Hf].
  eapply call_normal; [reflexivity | reflexivity | | | | | ].
  - cbn [f_body Src_aes.f_decryaes_specround_3].
    eapply x_seq; [xcall addroundkey_spec|].
    eapply x_seq; [xcall dec_rowshift_spec|].
    eapply x_seq; [xcall dec_subbytes_spec|].
    xcall addroundkey_spec.
  - reflexivity.
  - reflexivity.
  - reflexivity.
  - st_norm. unfold dec_specround. reflexivity.
Qed.


(* ---------------- the expanded key in memory ---------------- *)
Lemma concat_len : forall ks, Forall block16 ks ->
  List.length (concat (map (map Z.of_N) ks)) = (16 * List.length ks)%nat.
Proof.
  induction 1 as [|k ks Hk _ IH]; [reflexivity|]. cbn [map concat List.length].
  rewrite app_length, map_length, IH, (block16_length _ Hk). lia.
Qed.
Lemma key_at : forall ks i, Forall block16 ks -> (i < List.length ks)%nat ->
  firstn 16 (skipn (16 * i) (concat (map (map Z.of_N) ks))) = map Z.of_N (nth i ks []).
Proof.
  intros ks i H. revert i. induction H as [|k ks Hk _ IH]; intros i Hi; [cbn in Hi; lia|].
  cbn [map concat]. destruct i as [|i].
  - rewrite Nat.mul_0_r. cbn [skipn nth]. rewrite firstn_app, map_length, (block16_length _ Hk).
    rewrite firstn_all2 by (rewrite map_length, (block16_length _ Hk); lia).
    cbn [Nat.sub firstn]. apply app_nil_r.
  - replace (16 * S i)%nat with (List.length (map Z.of_N k) + 16 * i)%nat by (rewrite map_length, (block16_length _ Hk); lia).
    rewrite skipn_add. rewrite skipn_app, skipn_all, Nat.sub_diag. cbn [app skipn nth]. apply IH. cbn in Hi. lia.
Qed.
Lemma block16_nth : forall ks i, Forall block16 ks -> (i < List.length ks)%nat -> block16 (nth i ks []).
Proof. intros ks i H Hi. rewrite Forall_forall in H. apply H. apply nth_In. exact Hi. Qed.
Lemma block16_nth_lt : forall w k, block16 w -> (nth k w 0 < 256)%N.
Proof.
  intros w k [_ Hb]. unfold bytesb in Hb. rewrite forallb_forall in Hb.
  destruct (nth_in_or_default k w 0%N) as [Hin|Hd]; [apply N.ltb_lt; apply (Hb _ Hin)|rewrite Hd; reflexivity].
Qed.
Lemma map_nth_B : forall (w : list N) k, nth k (map Z.of_N w) 0 = Z.of_N (nth k w 0%N).
Proof. intros. change 0 with (Z.of_N 0%N) at 1. apply map_nth. Qed.

Lemma genall_from_length : forall n r k, List.length (genall_from r n k) = S n.
Proof. induction n as [|n IH]; intros r k; cbn [genall_from List.length]; auto. Qed.
Lemma genall_from_blocks : forall n r k, block16 k -> Forall block16 (genall_from r n k).
Proof.
  induction n as [|n IH]; intros r k Hk; cbn [genall_from]; constructor; auto.
  apply IH. apply genkey_block. exact Hk.
Qed.
Lemma genall_length : forall key, List.length (genall key) = 11%nat.
Proof. intros. unfold genall. rewrite genall_from_length. reflexivity. Qed.
Lemma genall_blocks : forall key, block16 key -> Forall block16 (genall key).
Proof.
  intros key Hk. unfold genall. apply genall_from_blocks. apply transpose_block'.
  revert Hk. clear. intros Hk. blk key Hk. cbn [firstn]. apply block16_intro; assumption.
Qed.

(* ---------------- runaes_128bit ---------------- *)
Definition enc_state (ks : list (list N)) (blk : list N) : list N :=
  enc_specround (fold_left (fun w i => enc_commonround w (getkey ks i)) (Nseq (nth 0 enc_round_struct 0%N)) (transpose blk))
                (getkey ks (nth 1 enc_round_struct 0%N)) (getkey ks (nth 2 enc_round_struct 0%N)).
Definition dec_state (ks : list (list N)) (blk : list N) : list N :=
  fold_left (fun w i => dec_commonround w (getkey ks i)) (rev (Nseq (nth 2 dec_round_struct 0%N + 1)))
            (dec_specround (transpose blk) (getkey ks (nth 0 dec_round_struct 0%N)) (getkey ks (nth 1 dec_round_struct 0%N))).

Lemma aes_enc_with_state : forall ks blk, aes_enc_with ks blk = transpose (enc_state ks blk).
Proof. reflexivity. Qed.
Lemma aes_dec_with_state : forall ks blk, aes_dec_with ks blk = transpose (dec_state ks blk).
Proof. reflexivity. Qed.
Lemma enc_state_unfold : forall ks blk, enc_state ks blk =
  enc_specround (enc_commonround (enc_commonround (enc_commonround (enc_commonround (enc_commonround
    (enc_commonround (enc_commonround (enc_commonround (enc_commonround (transpose blk)
    (nth 0 ks [])) (nth 1 ks [])) (nth 2 ks [])) (nth 3 ks [])) (nth 4 ks [])) (nth 5 ks []))
    (nth 6 ks [])) (nth 7 ks [])) (nth 8 ks [])) (nth 9 ks []) (nth 10 ks []).
Proof. reflexivity. Qed.
Lemma dec_state_unfold : forall ks blk, dec_state ks blk =
  dec_commonround (dec_commonround (dec_commonround (dec_commonround (dec_commonround
    (dec_commonround (dec_commonround (dec_commonround (dec_commonround
    (dec_specround (transpose blk) (nth 9 ks []) (nth 10 ks []))
    (nth 8 ks [])) (nth 7 ks [])) (nth 6 ks [])) (nth 5 ks [])) (nth 4 ks [])) (nth 3 ks []))
    (nth 2 ks [])) (nth 1 ks [])) (nth 0 ks []).
Proof. reflexivity. Qed.

Ltac zlit_norm :=
  repeat match goal with
  | |- context [?a + ?b * ?c] => is_lit a; is_lit b; is_lit c;
      let r := eval vm_compute in (a + b * c) in change (a + b * c) with r
  end.

Ltac blocks_tac ::=
  lazymatch goal with
  | |- block16 (addroundkey _ _) => apply addroundkey_block; blocks_tac
  | |- block16 (enc_subbytes _) => apply enc_subbytes_block; blocks_tac
  | |- block16 (dec_subbytes _) => apply dec_subbytes_block; blocks_tac
  | |- block16 (enc_rowshift _) => apply enc_rowshift_block; blocks_tac
  | |- block16 (dec_rowshift _) => apply dec_rowshift_block; blocks_tac
  | |- block16 (columnmix _ _) => apply columnmix_block
  | |- block16 (transpose _) => apply transpose_block'; blocks_tac
  | |- block16 (enc_commonround _ _) => unfold enc_commonround; blocks_tac
  | |- block16 (dec_commonround _ _) => unfold dec_commonround; blocks_tac
  | |- block16 (enc_specround _ _ _) => unfold enc_specround; blocks_tac
  | |- block16 (dec_specround _ _ _) => unfold dec_specround; blocks_tac
  | |- block16 (nth ?i _ []) =>
      match goal with Hb : forall i, (i < 11)%nat -> block16 (nth i _ []) |- _ => apply Hb; lia end
  | |- _ => assumption
  end.
Ltac side ::=
  lazymatch goal with
  | |- (_ <= _)%nat => lia
  | |- (_ <= _)%Z => first [assumption | lia | range_tac]
  | |- block16 _ => solve [blocks_tac]
  | |- tabs_ok _ => cbn [mem]; repeat apply tabs_ok_mset; assumption
  | |- mget _ _ = _ => cbn [mem]; mget_tac
  | |- firstn 16 (skipn (Z.to_nat ?off) _) = map Z.of_N _ =>
      let n := eval vm_compute in (Z.to_nat off / 16)%nat in
      match goal with Hk : forall i, (i < 11)%nat -> firstn 16 _ = _ |- _ => exact (Hk n ltac:(lia)) end
  | |- _ => eassumption
  end.

Ltac store_hook ::=
  rewrite ?map_nth_B; rewrite ?wrap_U8_B by first [assumption | apply block16_nth_lt; assumption];
  apply pack4; first [assumption | apply block16_nth_lt; assumption].

Ltac get_key_call vt := st_norm; eapply x_call; [evl | reflexivity | eapply (get_key_spec vt); lia | reflexivity].
Ltac enc_iter vt :=
  st_norm;
  eapply x_loop_iter;
  [ solve [ev] | discriminate
  | eapply x_seq; [ get_key_call vt | st_norm; zlit_norm; xcall (enc_commonround_spec vt) ]
  | xs
  | ].

Lemma enc_runaes_spec : forall vt s p fuel o blk wc kc ks,
  (150 <= fuel)%nat -> tabs_ok (mem s) ->
  ~ is_tab (p ++ "w") -> ~ is_tab o -> p ++ "w" <> o -> p ++ "w" <> (p ++ "key.") ++ "key" -> o <> (p ++ "key.") ++ "key" ->
  mget (mem s) (p ++ "w") = Some (bobj wc) -> List.length wc = 16%nat ->
  mget (mem s) ((p ++ "key.") ++ "key") = Some (bobj kc) -> kc = concat (map (map Z.of_N) ks) ->
  List.length ks = 11%nat -> Forall block16 ks ->
  mget (mem s) o = Some (bytes_object blk) -> block16 blk ->
  call P vt fuel "encryaes::runaes_128bit/1" p [VPtr o 0] s
  = Ok (None, with_mem s (mset (mset (mem s) (p ++ "w") (bytes_object (enc_state ks blk))) o (bytes_object (aes_enc_with ks blk)))).
Proof.
  intros vt s p fuel o blk wc kc ks Hf Ht Hntw Hnto Hwo Hwk Hok Hw Hlw Hk Ekc Hlks Bks Ho Bb.
  eapply call_mono; [|exact Hf].
  assert (Hkat : forall i, (i < 11)%nat -> firstn 16 (skipn (16 * i) kc) = map Z.of_N (nth i ks [])).
  { intros i Hi. subst kc. apply key_at; [assumption | lia]. }
  assert (Hkb : forall i, (i < 11)%nat -> block16 (nth i ks [])).
  { intros i Hi. apply block16_nth; [assumption | lia]. }
  assert (Hlkc : List.length kc = 176%nat) by (subst kc; rewrite concat_len by assumption; lia).
  clear Ekc.
  do 16 (destruct wc as [|? wc]; [discriminate Hlw|]). destruct wc; [|discriminate Hlw]. clear Hlw.
  revert Ho. pose proof Bb as Bb'. revert Bb'. blk blk Bb. intros Bb' Ho.
  set (W0 := transpose [v0; v1; v2; v3; v4; v5; v6; v7; v8; v9; v10; v11; v12; v13; v14; v15]).
  assert (BW0 : block16 W0) by (apply transpose_block'; assumption).
  eapply call_normal; [reflexivity | reflexivity | | | | | ].
  - cbn [f_body Src_aes.f_encryaes_runaes_128bit_1].
    eapply x_seq; [xs|]. eapply x_seq; [xs|]. eapply x_seq; [xs|]. st_norm.
    match goal with |- context [mset _ _ (bobj (?x :: ?l))] => change (bobj (x :: l)) with (bytes_object W0) end.
    assert (EW0 : W0 = transpose [v0; v1; v2; v3; v4; v5; v6; v7; v8; v9; v10; v11; v12; v13; v14; v15]) by reflexivity.
    clearbody W0.
    eapply x_seq.
    { do 9 enc_iter vt. st_norm. eapply x_loop_end. solve [ev]. }
    eapply x_seq; [get_key_call vt|]. eapply x_seq; [get_key_call vt|].
    eapply x_seq; [st_norm; zlit_norm; xcall (enc_specround_spec vt)|].
    st_norm.
    match goal with |- context [mset _ (p ++ "w") (bytes_object ?Wf)] =>
      assert (BWf : block16 Wf) by blocks_tac;
      assert (LWf : List.length (map Z.of_N Wf) = 16%nat) by (rewrite map_length; apply block16_length; exact BWf) end.
    xs.
  - reflexivity.
  - reflexivity.
  - reflexivity.
  - st_norm. rewrite aes_enc_with_state, enc_state_unfold. subst W0.
    unfold bytes_object, transpose at 1, mperm at 1. cbn [map]. reflexivity.
Qed.

Ltac dec_iter vt :=
  st_norm;
  eapply x_loop_iter;
  [ solve [ev] | discriminate
  | eapply x_seq; [ get_key_call vt | st_norm; zlit_norm; xcall (dec_commonround_spec vt) ]
  | xs
  | ].

Lemma dec_runaes_spec : forall vt s p fuel o blk wc kc ks,
  (150 <= fuel)%nat -> tabs_ok (mem s) ->
  ~ is_tab (p ++ "w") -> ~ is_tab o -> p ++ "w" <> o -> p ++ "w" <> (p ++ "key.") ++ "key" -> o <> (p ++ "key.") ++ "key" ->
  mget (mem s) (p ++ "w") = Some (bobj wc) -> List.length wc = 16%nat ->
  mget (mem s) ((p ++ "key.") ++ "key") = Some (bobj kc) -> kc = concat (map (map Z.of_N) ks) ->
  List.length ks = 11%nat -> Forall block16 ks ->
  mget (mem s) o = Some (bytes_object blk) -> block16 blk ->
  call P vt fuel "decryaes::runaes_128bit/1" p [VPtr o 0] s
  = Ok (None, with_mem s (mset (mset (mem s) (p ++ "w") (bytes_object (dec_state ks blk))) o (bytes_object (aes_dec_with ks blk)))).
Proof.
  intros vt s p fuel o blk wc kc ks Hf Ht Hntw Hnto Hwo Hwk Hok Hw Hlw Hk Ekc Hlks Bks Ho Bb.
  eapply call_mono; [|exact Hf].
  assert (Hkat : forall i, (i < 11)%nat -> firstn 16 (skipn (16 * i) kc) = map Z.of_N (nth i ks [])).
  { intros i Hi. subst kc. apply key_at; [assumption | lia]. }
  assert (Hkb : forall i, (i < 11)%nat -> block16 (nth i ks [])).
  { intros i Hi. apply block16_nth; [assumption | lia]. }
  assert (Hlkc : List.length kc = 176%nat) by (subst kc; rewrite concat_len by assumption; lia).
  clear Ekc.
  do 16 (destruct wc as [|? wc]; [discriminate Hlw|]). destruct wc; [|discriminate Hlw]. clear Hlw.
  revert Ho. pose proof Bb as Bb'. revert Bb'. blk blk Bb. intros Bb' Ho.
  set (W0 := transpose [v0; v1; v2; v3; v4; v5; v6; v7; v8; v9; v10; v11; v12; v13; v14; v15]).
  assert (BW0 : block16 W0) by (apply transpose_block'; assumption).
  eapply call_normal; [reflexivity | reflexivity | | | | | ].
  - cbn [f_body Src_aes.f_decryaes_runaes_128bit_1].
    eapply x_seq; [xs|]. eapply x_seq; [xs|]. st_norm.
    match goal with |- context [mset _ _ (bobj (?x :: ?l))] => change (bobj (x :: l)) with (bytes_object W0) end.
    assert (EW0 : W0 = transpose [v0; v1; v2; v3; v4; v5; v6; v7; v8; v9; v10; v11; v12; v13; v14; v15]) by reflexivity.
    clearbody W0.
    eapply x_seq; [get_key_call vt|]. eapply x_seq; [get_key_call vt|].
    eapply x_seq; [st_norm; zlit_norm; xcall (dec_specround_spec vt)|].
    eapply x_seq; [xs|].
    eapply x_seq.
    { do 9 dec_iter vt. st_norm. eapply x_loop_end. solve [ev]. }
    st_norm.
    match goal with |- context [mset _ (p ++ "w") (bytes_object ?Wf)] =>
      assert (BWf : block16 Wf) by blocks_tac;
      assert (LWf : List.length (map Z.of_N Wf) = 16%nat) by (rewrite map_length; apply block16_length; exact BWf) end.
    xs.
  - reflexivity.
  - reflexivity.
  - reflexivity.
  - st_norm. rewrite aes_dec_with_state, dec_state_unfold. subst W0.
    unfold bytes_object, transpose at 1, mperm at 1. cbn [map]. reflexivity.
Qed.

(* ---------------- the entry point src_aes ---------------- *)
Lemma object_bytes_bytes_object : forall l, object_bytes (bytes_object l) = l.
Proof.
  intros l. unfold object_bytes, bytes_object. cbn [o_cells]. rewrite map_map.
  rewrite (map_ext _ (fun x => x)) by (intros; apply N2Z.id). apply map_id.
Qed.

Ltac nt_tac := unfold is_tab; intuition discriminate.

Theorem SRC_aes_block_proof : forall (enc : bool) key blk,
  block16 key -> block16 blk ->
  src_aes enc key blk = SOk (if enc then aes_enc key blk else aes_dec key blk).
Proof.
  intros enc key blk Bk Bb. unfold src_aes.
  pose proof (genall_length key) as Lks. pose proof (genall_blocks key Bk) as Bks.
  destruct enc.
  - set (m := (Src_aes.globals ++ mk_objects "" Src_aes.objects_encryaes ++ [("k", bytes_object key); ("blk", bytes_object blk)])%list).
    rewrite (keyhandle_spec [] (init_state m) "key." 200 "k" key (repeat 0 20) (repeat 0 176));
      [ | lia | repeat split; reflexivity | nt_tac | nt_tac | discriminate | reflexivity | assumption
        | reflexivity | reflexivity | reflexivity | reflexivity ].
    cbn [of_res snd].
    rewrite (enc_runaes_spec [] _ "" 200 "blk" blk (repeat 0 16) (concat (map (map Z.of_N) (genall key))) (genall key));
      [ | lia | | nt_tac | nt_tac | discriminate | discriminate | discriminate | reflexivity | reflexivity
        | reflexivity | reflexivity | assumption | assumption | reflexivity | assumption ].
    + cbn [of_res snd]. unfold out_bytes, get_bytes. cbn [mem with_mem]. rewrite mget_mset_same.
      rewrite object_bytes_bytes_object. reflexivity.
    + cbn [mem with_mem]. repeat apply tabs_ok_mset; try nt_tac. repeat split; reflexivity.
  - set (m := (Src_aes.globals ++ mk_objects "" Src_aes.objects_decryaes ++ [("k", bytes_object key); ("blk", bytes_object blk)])%list).
    rewrite (keyhandle_spec [] (init_state m) "key." 200 "k" key (repeat 0 20) (repeat 0 176));
      [ | lia | repeat split; reflexivity | nt_tac | nt_tac | discriminate | reflexivity | assumption
        | reflexivity | reflexivity | reflexivity | reflexivity ].
    cbn [of_res snd].
    rewrite (dec_runaes_spec [] _ "" 200 "blk" blk (repeat 0 16) (concat (map (map Z.of_N) (genall key))) (genall key));
      [ | lia | | nt_tac | nt_tac | discriminate | discriminate | discriminate | reflexivity | reflexivity
        | reflexivity | reflexivity | assumption | assumption | reflexivity | assumption ].
    + cbn [of_res snd]. unfold out_bytes, get_bytes. cbn [mem with_mem]. rewrite mget_mset_same.
      rewrite object_bytes_bytes_object. reflexivity.
    + cbn [mem with_mem]. repeat apply tabs_ok_mset; try nt_tac. repeat split; reflexivity.
Qed.
Print Assumptions SRC_aes_block_proof.

(* non-vacuity: the hypotheses hold of the FIPS-197 Appendix B vectors *)
Example SRC_aes_block_nonvacuous :
  block16 kat_B_key /\ block16 kat_B_pt /\ src_aes true kat_B_key kat_B_pt = SOk kat_B_ct.
Proof. repeat split; vm_compute; reflexivity. Qed.
