(* Model of valget/base64/base64.cpp (hex_to_base64, base64_to_hex, is_valid_b64) and of
   the fixed-size key decode in getopts.cpp/getval1.cpp, written from the C++.
   Tables from Gen (regenerated from /repo). *)
From Wencry Require Import Bytes.
From Wencry.Gen Require Import B64Tab.
Local Open Scope N_scope.

Definition tab64 (i : N) : N := nthN b64_tab i 0.

(* hex_to_base64: loop state (h_in, j, out) *)
Definition enc_step (st : N * N * list N) (x : N) : N * N * list N :=
  match st with
  | (h, j, out) =>
      let h := N.lor h (N.shiftl x (8 * (2 - j))) in
      let j := (j + 1) mod 3 in
      if j =? 0
      then (0, j, out ++ map (fun q => tab64 (N.land (N.shiftr h (6 * (3 - q))) 63)) [0; 1; 2; 3])
      else (h, j, out)
  end.
Definition hex_to_base64 (hex_in : list N) : list N :=
  match fold_left enc_step hex_in (0, 0, []) with
  | (h, j, out) =>
      let sym q := tab64 (N.land (N.shiftr h (6 * (3 - q))) 63) in
      let out := if j =? 1 then out ++ [sym 0; sym 1; 61; 61]
                 else if j =? 2 then out ++ [sym 0; sym 1; sym 2; 61]
                 else out in
      out ++ [0]                     (* base64_out[idx] = '\0' *)
  end.

(* base64_to_hex: result of the call *)
Inductive dec_result :=
| DecOk (out : list N)      (* returned true; bytes written to hex_out *)
| DecFalse                  (* returned false (input byte 255) *)
| DecOOB.                   (* hex_tab read outside its 128 entries: undefined behaviour *)

Definition dec_step (st : option (N * N * N * list N)) (c : N) : option (N * N * N * list N) :=
  match st with
  | None => None
  | Some (tail, j, h, out) =>
      if c =? 61 then Some (tail + 1, j, h, out)
      else
        let h := N.lor h (N.shiftl (nthN hex_tab c 0) (6 * (3 - j))) in
        let j := (j + 1) mod 4 in
        if j =? 0
        then Some (tail, j, 0, out ++ map (fun q => N.land (N.shiftr h (8 * (2 - q))) 255) [0; 1; 2])
        else Some (tail, j, h, out)
  end.
Definition base64_to_hex (s : list N) : dec_result :=
  if existsb (fun c => c =? 255) s then DecFalse   (* (the bytes before it are still written) *)
  else if existsb (fun c => (128 <=? c) && negb (c =? 61)) s then DecOOB
  else match fold_left dec_step s (Some (0, 0, 0, [])) with
       | Some (tail, j, h, out) =>
           DecOk (if tail =? 2 then out ++ [N.land (N.shiftr h 16) 255]
                  else if tail =? 1 then out ++ [N.land (N.shiftr h 16) 255; N.land (N.shiftr h 8) 255]
                  else out)
       | None => DecOOB
       end.

(* is_base64: isalnum in the "C" locale (the program never calls setlocale) *)
Definition is_base64 (c : N) : bool :=
  ((48 <=? c) && (c <=? 57)) || ((65 <=? c) && (c <=? 90)) || ((97 <=? c) && (c <=? 122))
  || (c =? 43) || (c =? 47).

(* is_valid_b64: None = rejected inside the loop, Some tail = loop finished *)
Definition valid_step (st : option N) (c : N) : option N :=
  match st with
  | None => None
  | Some tail =>
      if negb (c =? 61) && negb (is_base64 c) then None
      else if c =? 61 then (if 3 <=? tail + 1 then None else Some (tail + 1))
      else if negb (tail =? 0) then None
      else Some tail
  end.
Definition is_valid_b64 (s : list N) : bool :=
  let len := N.of_nat (length s) in
  if negb (len mod 4 =? 0) then false
  else if negb ((len / 4) * 3 - 2 =? 16) || ((len / 4) * 3 <? 2) then false
  else match fold_left valid_step s (Some 0) with
       | None => false
       | Some tail => tail =? 2
       end.

(* getArgsKey / getInputKey: base64_to_hex(arg, 24, new u8_t[16]).
   Result: the 16-byte key buffer, or an overflow of it. *)
Inductive key_result := KeyOk (k : list N) | KeyOverflow (n : nat) | KeyBad.
Definition get_key (arg : list N) : key_result :=
  match base64_to_hex (firstn 24 arg) with
  | DecOk out => if (length out <=? 16)%nat then KeyOk (out ++ zeros (16 - length out))
                 else KeyOverflow (length out)
  | _ => KeyBad
  end.
