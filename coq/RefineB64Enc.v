(* hex_to_base64 (translated) = Base64Model.hex_to_base64 *)
From Coq Require Import ZArith NArith List String Bool Lia.
From Wencry Require Import Bytes Base64Model Base64Proofs MiniC MiniCRun MiniCLemmas SrcRun RefineB64Lib.
From Wencry.Gen Require Import B64Tab.
From Wencry.Gen Require Src_base64.
Import ListNotations.
Local Open Scope Z_scope.
Local Open Scope string_scope.
Local Open Scope list_scope.

Local Ltac Zify.zify_post_hook ::= Z.to_euclidean_division_equations.

Definition enc_st (data : list N) (n i j idx h : Z) (cells : list Z) (extra : list (string * value)) : state :=
  {| mem := [("b64_tab", Src_base64.g_b64_tab); ("hex_tab", Src_base64.g_hex_tab);
             ("in", bytes_object data); ("out", {| o_ty := U8; o_cells := cells |})];
     loc := [("hex_in", VPtr "in" 0); ("len", VInt n); ("base64_out", VPtr "out" 0);
             ("j", VInt j); ("idx", VInt idx); ("h_in", VInt h); ("i", VInt i)] ++ extra;
     pre := ""; files := []; ptrs := []; fresh := 0 |}.

Definition enc_loop : stmt :=
  match f_body Src_base64.f_hex_to_base64_3 with
  | SSeq _ (SSeq _ (SSeq _ (SSeq _ (SSeq l _)))) => l
  | _ => SSkip
  end.
Definition enc_body : stmt := match enc_loop with SLoop _ b _ => b | _ => SSkip end.
Definition enc_stepst : stmt := match enc_loop with SLoop _ _ s => s | _ => SSkip end.


Definition extra_ok (extra : list (string * value)) : Prop :=
  extra = [] \/ exists a b, extra = [("j'1", VInt a); ("$t1", VInt b)].

Local Open Scope N_scope.
Lemma shl_byte_lt x s : x < 256 -> s <= 16 -> N.shiftl x s < 2 ^ 24.
Proof.
  intros Hx Hs. rewrite N.shiftl_mul_pow2.
  assert (2 ^ s <= 2 ^ 16) by (apply N.pow_le_mono_r; lia).
  change (2 ^ 16) with 65536 in H. change (2 ^ 24) with 16777216. nia.
Qed.
Local Open Scope Z_scope.

(* h_in | (u32)x << s, for the model's values *)
Lemma z_pack hN xN s sz : (hN < 2 ^ 24)%N -> (xN < 256)%N -> (s <= 16)%N -> sz = Z.of_N s ->
  wrap U32 (Z.lor (Z.of_N hN) (Z.shiftl (wrap U32 (Z.of_N xN)) sz mod 2 ^ 32)) = Z.of_N (N.lor hN (N.shiftl xN s)).
Proof.
  intros Hh Hx Hs ->. pose proof (shl_byte_lt xN s Hx Hs) as B.
  pose proof (N_lor_lt _ _ _ Hh B) as B2.
  change (2 ^ 24)%N with 16777216%N in *.
  rewrite (wrap_U32_small (Z.of_N xN)) by lia.
  rewrite <- of_N_shiftl. rewrite Z.mod_small by lia. rewrite <- of_N_lor.
  apply wrap_U32_small. lia.
Qed.

Lemma enc_body_0 : forall data n done x rest hN out tail extra,
  data = done ++ x :: rest -> bytesb data = true -> (hN < 2 ^ 24)%N ->
  exec b64_prog [] 40 enc_body
    (enc_st data n (Z.of_nat (List.length done)) 0 (Z.of_nat (List.length out)) (Z.of_N hN) (map Z.of_N out ++ tail) extra)
  = Ok (Normal, enc_st data n (Z.of_nat (List.length done)) 1 (Z.of_nat (List.length out)) (Z.of_N (N.lor hN (N.shiftl x 16))) (map Z.of_N out ++ tail) extra).
Proof.
  intros data n done x rest hN out tail extra Hd Hb Hh.
  assert (Hx : (x < 256)%N).
  { subst data. unfold bytesb in Hb. rewrite forallb_app in Hb. apply andb_true_iff in Hb. destruct Hb as [_ Hb].
    cbn [forallb] in Hb. apply andb_true_iff in Hb. destruct Hb as [Hb _]. apply N.ltb_lt, Hb. }
  pose proof (load_mid done x rest) as Hl. rewrite <- Hd in Hl. specialize (Hl Hb).
  unfold enc_body, enc_loop. cbn [f_body Src_base64.f_hex_to_base64_3].
  unfold enc_st.
  eapply x_seq.
  { eapply x_set; [|stnorm].
    evr ltac:(rewrite Hl). rewrite (z_pack hN x 16%N) by (assumption || lia || reflexivity). reflexivity. }
  eapply x_seq.
  { eapply x_set; [|stnorm]. evr fail. reflexivity. }
  eapply x_if_false.
  { evr fail. reflexivity. }
  reflexivity.
Qed.

Lemma enc_body_1 : forall data n done x rest hN out tail extra,
  data = done ++ x :: rest -> bytesb data = true -> (hN < 2 ^ 24)%N ->
  exec b64_prog [] 40 enc_body
    (enc_st data n (Z.of_nat (List.length done)) 1 (Z.of_nat (List.length out)) (Z.of_N hN) (map Z.of_N out ++ tail) extra)
  = Ok (Normal, enc_st data n (Z.of_nat (List.length done)) 2 (Z.of_nat (List.length out)) (Z.of_N (N.lor hN (N.shiftl x 8))) (map Z.of_N out ++ tail) extra).
Proof.
  intros data n done x rest hN out tail extra Hd Hb Hh.
  assert (Hx : (x < 256)%N) by (subst data; eapply bytes_mid; eauto).
  pose proof (load_mid done x rest) as Hl. rewrite <- Hd in Hl. specialize (Hl Hb).
  unfold enc_body, enc_loop. cbn [f_body Src_base64.f_hex_to_base64_3].
  unfold enc_st.
  eapply x_seq.
  { eapply x_set; [|stnorm].
    evr ltac:(rewrite Hl). rewrite (z_pack hN x 8%N) by (assumption || lia || reflexivity). reflexivity. }
  eapply x_seq.
  { eapply x_set; [|stnorm]. evr fail. reflexivity. }
  eapply x_if_false.
  { evr fail. reflexivity. }
  reflexivity.
Qed.

Ltac emit_store hh pfx s :=
  eapply x_store;
  [ evr fail; reflexivity
  | evr ltac:(first [ rewrite (z_sym hh s) by reflexivity
                    | rewrite (wrap_U32_small 63) by lia
                    | rewrite (wrap_U32_small (Z.of_N (N.land (N.shiftr hh s) 63))) by (pose proof (sym_lt hh s); lia)
                    | rewrite (load_tab64 _ (sym_lt hh s)) ]); reflexivity
  | reflexivity
  | eapply (store_u8 _ pfx);
    [ rewrite <- ?app_assoc; reflexivity
    | rewrite ?app_length, map_length; cbn [List.length]; lia
    | pose proof (tab64_lt256 (N.land (N.shiftr hh s) 63)); lia ]
  | stnorm ].
Ltac emit_iter hh pfx s :=
  eapply x_loop_iter;
  [ evr fail; reflexivity | discriminate
  | eapply x_seq; [eapply x_set; [evr fail; reflexivity | stnorm] |];
    eapply x_seq; [eapply x_set; [evr fail; reflexivity | stnorm] |];
    emit_store hh pfx s
  | eapply x_set; [evr fail; reflexivity | stnorm]
  | ].

Lemma enc_body_2 : forall data n done x rest hN out a b c d tail extra,
  data = done ++ x :: rest -> bytesb data = true -> (hN < 2 ^ 24)%N ->
  Z.of_nat (List.length out) < 2 ^ 30 -> extra_ok extra ->
  let hh := N.lor hN (N.shiftl x 0) in
  exists extra', extra_ok extra' /\
  exec b64_prog [] 40 enc_body
    (enc_st data n (Z.of_nat (List.length done)) 2 (Z.of_nat (List.length out)) (Z.of_N hN) (map Z.of_N out ++ a :: b :: c :: d :: tail) extra)
  = Ok (Normal, enc_st data n (Z.of_nat (List.length done)) 0 (Z.of_nat (List.length out) + 1 + 1 + 1 + 1) 0
          (map Z.of_N (out ++ [tab64 (N.land (N.shiftr hh 18) 63); tab64 (N.land (N.shiftr hh 12) 63);
                               tab64 (N.land (N.shiftr hh 6) 63); tab64 (N.land (N.shiftr hh 0) 63)]) ++ tail) extra').
Proof.
  intros data n done x rest hN out a b c d tail extra Hd Hb Hh Hidx Hex hh.
  assert (Hx : (x < 256)%N) by (subst data; eapply bytes_mid; eauto).
  pose proof (load_mid done x rest) as Hl. rewrite <- Hd in Hl. specialize (Hl Hb).
  exists [("j'1", VInt 4); ("$t1", VInt (Z.of_nat (List.length out) + 1 + 1 + 1))].
  split; [right; eauto|].
  unfold enc_body, enc_loop. cbn [f_body Src_base64.f_hex_to_base64_3].
  unfold enc_st.
  destruct Hex as [-> | (ea & eb & ->)].
  all: (eapply x_seq;
    [ eapply x_set; [|stnorm];
      evr ltac:(rewrite Hl); rewrite (z_pack hN x 0%N) by (assumption || lia || reflexivity); reflexivity |]).
  all: fold hh.
  all: (eapply x_seq; [eapply x_set; [evr fail; reflexivity | stnorm] |]).
  all: (eapply x_if_true; [evr fail; reflexivity | discriminate |]).
  all: (eapply x_seq; [eapply x_set; [evr fail; reflexivity | stnorm] |]).
  all: (eapply x_seq;
    [ emit_iter hh (map Z.of_N out) 18%N;
      emit_iter hh (map Z.of_N out ++ [Z.of_N (tab64 (N.land (N.shiftr hh 18) 63))]) 12%N;
      emit_iter hh ((map Z.of_N out ++ [Z.of_N (tab64 (N.land (N.shiftr hh 18) 63))]) ++ [Z.of_N (tab64 (N.land (N.shiftr hh 12) 63))]) 6%N;
      emit_iter hh (((map Z.of_N out ++ [Z.of_N (tab64 (N.land (N.shiftr hh 18) 63))]) ++ [Z.of_N (tab64 (N.land (N.shiftr hh 12) 63))]) ++ [Z.of_N (tab64 (N.land (N.shiftr hh 6) 63))]) 0%N;
      eapply x_loop_end; evr fail; reflexivity
    | ]).
  all: (eapply x_set; [evr fail; reflexivity|]).
  all: unfold with_loc; cbn [lset mset loc mem pre files ptrs fresh String.eqb Ascii.eqb Bool.eqb andb app].
  all: rewrite map_app; cbn [map]; rewrite <- !app_assoc; cbn [app]; reflexivity.
Qed.

Ltac emit_body hh pfx s := eapply x_seq; [set_step|]; eapply x_seq; [set_step|]; emit_store hh pfx s.
Ltac pad_store pfx :=
  eapply x_store;
  [ evr fail; reflexivity
  | evr ltac:(rewrite wrap_U8_small by lia); reflexivity
  | reflexivity
  | eapply (store_u8 _ pfx);
    [ rewrite <- ?app_assoc; reflexivity
    | rewrite ?app_length, map_length; cbn [List.length]; lia
    | lia ]
  | stnorm ].
Ltac pad_body pfx := eapply x_seq; [set_step|]; eapply x_seq; [set_step|]; pad_store pfx.
Ltac fin_iter_emit hh pfx s :=
  eapply x_loop_iter;
  [ evr fail; reflexivity | discriminate
  | eapply x_if_true; [evr fail; reflexivity | discriminate | emit_body hh pfx s]
  | set_step | ].
Ltac fin_iter_pad pfx :=
  eapply x_loop_iter;
  [ evr fail; reflexivity | discriminate
  | eapply x_if_false; [evr fail; reflexivity | pad_body pfx]
  | set_step | ].

Definition enc_rest : stmt :=
  match f_body Src_base64.f_hex_to_base64_3 with
  | SSeq _ (SSeq _ (SSeq _ (SSeq _ (SSeq _ r)))) => r
  | _ => SSkip
  end.

Section Encode.
Variable data : list N.
Variable n : Z.
Hypothesis Hb : bytesb data = true.
Hypothesis Hn : n = Z.of_nat (List.length data).
Hypothesis Hlen : n < 2 ^ 28.

Definition enc_inv (done : nat) (hN jN : N) (out : list N) (tail : list Z) (extra : list (string * value)) : Prop :=
  (jN < 3)%N /\ (hN < 2 ^ 24)%N /\ (3 * List.length out + 4 * N.to_nat jN = 4 * done)%nat /\
  Z.of_nat (List.length out + List.length tail) = 4 * ((n + 2) / 3) + 1 /\ extra_ok extra.

Lemma enc_step_inv : forall done x rest hN jN out tail extra h' j' out',
  data = done ++ x :: rest -> enc_inv (List.length done) hN jN out tail extra ->
  enc_step (hN, jN, out) x = (h', j', out') ->
  exists tail' extra', enc_inv (S (List.length done)) h' j' out' tail' extra' /\
    exec b64_prog [] 40 enc_body
      (enc_st data n (Z.of_nat (List.length done)) (Z.of_N jN) (Z.of_nat (List.length out)) (Z.of_N hN) (map Z.of_N out ++ tail) extra)
    = Ok (Normal, enc_st data n (Z.of_nat (List.length done)) (Z.of_N j') (Z.of_nat (List.length out')) (Z.of_N h') (map Z.of_N out' ++ tail') extra').
Proof.
  intros done x rest hN jN out tail extra h' j' out' Hd (Hj & Hh & Hcnt & Hcap & Hex) Hs.
  assert (Hx : (x < 256)%N) by (subst data; eapply bytes_mid; eauto).
  assert (Hdl : List.length data = (List.length done + S (List.length rest))%nat) by (rewrite Hd, app_length; reflexivity).
  assert (Hj3 : jN = 0%N \/ jN = 1%N \/ jN = 2%N) by lia.
  destruct Hj3 as [-> | [-> | ->]].
  - rewrite enc_step_0 in Hs. apply pair_equal_spec in Hs; destruct Hs as [Hs <-]; apply pair_equal_spec in Hs; destruct Hs as [<- <-].
    exists tail, extra. split.
    + unfold enc_inv. repeat split; try assumption; try lia.
      apply N_lor_lt; [assumption|apply shl_byte_lt; [assumption|lia]].
    + eapply enc_body_0; eauto.
  - rewrite enc_step_1 in Hs. apply pair_equal_spec in Hs; destruct Hs as [Hs <-]; apply pair_equal_spec in Hs; destruct Hs as [<- <-].
    exists tail, extra. split.
    + unfold enc_inv. repeat split; try assumption; try lia.
      apply N_lor_lt; [assumption|apply shl_byte_lt; [assumption|lia]].
    + eapply enc_body_1; eauto.
  - rewrite enc_step_2 in Hs. apply pair_equal_spec in Hs; destruct Hs as [Hs <-]; apply pair_equal_spec in Hs; destruct Hs as [<- <-].
    change (N.to_nat 2) with 2%nat in Hcnt.
    destruct tail as [|a [|b [|c [|d tail]]]]; cbn [List.length] in Hcap; try lia.
    destruct (enc_body_2 data n done x rest hN out a b c d tail extra Hd Hb Hh ltac:(lia) Hex) as (extra' & Hex' & E).
    exists tail, extra'. split.
    + unfold enc_inv. rewrite app_length. cbn [List.length]. repeat split; try assumption; try lia.
    + refine (eq_trans E _). unfold enc_st. repeat f_equal. rewrite app_length. cbn [List.length]. lia.
Qed.

Lemma enc_loop_ok : forall rest done hN jN out tail extra fuel h' j' out',
  data = done ++ rest -> enc_inv (List.length done) hN jN out tail extra -> (40 + List.length rest <= fuel)%nat ->
  fold_left enc_step rest (hN, jN, out) = (h', j', out') ->
  exists tail' extra', enc_inv (List.length data) h' j' out' tail' extra' /\
    exec b64_prog [] (S fuel) enc_loop
      (enc_st data n (Z.of_nat (List.length done)) (Z.of_N jN) (Z.of_nat (List.length out)) (Z.of_N hN) (map Z.of_N out ++ tail) extra)
    = Ok (Normal, enc_st data n n (Z.of_N j') (Z.of_nat (List.length out')) (Z.of_N h') (map Z.of_N out' ++ tail') extra').
Proof.
  induction rest as [|x rest IH]; intros done hN jN out tail extra fuel h' j' out' Hd Hinv Hf Hfold.
  - cbn [fold_left] in Hfold. inversion Hfold; subst h' j' out'; clear Hfold.
    rewrite app_nil_r in Hd. subst done.
    exists tail, extra. split; [exact Hinv|].
    rewrite <- Hn. unfold enc_loop. cbn [f_body Src_base64.f_hex_to_base64_3].
    eapply x_loop_end. unfold enc_st. evr fail. rewrite Z.ltb_irrefl. reflexivity.
  - cbn [fold_left] in Hfold.
    destruct (enc_step (hN, jN, out) x) as [[h1 j1] out1] eqn:Hs.
    destruct (enc_step_inv done x rest hN jN out tail extra h1 j1 out1 Hd Hinv Hs) as (tail1 & extra1 & Hinv1 & Hbody).
    assert (Hd1 : data = (done ++ [x]) ++ rest) by (rewrite <- app_assoc; exact Hd).
    assert (Hl1 : List.length (done ++ [x]) = S (List.length done)) by (rewrite app_length; cbn; lia).
    rewrite <- Hl1 in Hinv1.
    destruct fuel as [|fuel]; [cbn in Hf; lia|].
    destruct (IH (done ++ [x]) h1 j1 out1 tail1 extra1 fuel h' j' out' Hd1 Hinv1 ltac:(cbn [List.length] in Hf; lia) Hfold)
      as (tail' & extra' & Hinv' & Hloop).
    exists tail', extra'. split; [exact Hinv'|].
    assert (Hdl : List.length data = (List.length done + S (List.length rest))%nat) by (rewrite Hd, app_length; reflexivity).
    unfold enc_loop in *. cbn [f_body Src_base64.f_hex_to_base64_3] in *.
    eapply x_loop_iter.
    + unfold enc_st. evr fail. reflexivity.
    + destruct (Z.of_nat (List.length done) <? n) eqn:E; [discriminate|]. apply Z.ltb_ge in E. lia.
    + eapply exec_mono; [exact Hbody|cbn [List.length] in Hf; lia].
    + unfold enc_st. eapply x_set; [evr fail; reflexivity|stnorm].
    + rewrite <- Hloop. unfold enc_st. rewrite Hl1. replace (Z.of_nat (S (List.length done))) with (Z.of_nat (List.length done) + 1) by lia. reflexivity.
Qed.

Lemma enc_rest_ok : forall h' j' out' tail' extra',
  enc_inv (List.length data) h' j' out' tail' extra' ->
  exists s', exec b64_prog [] 60 enc_rest
      (enc_st data n n (Z.of_N j') (Z.of_nat (List.length out')) (Z.of_N h') (map Z.of_N out' ++ tail') extra')
    = Ok (Returned (Some (VInt 1)), s') /\
    mget (mem s') "out" = Some {| o_ty := U8; o_cells := map Z.of_N (enc_fin (h', j', out')) |}.
Proof.
  intros h' j' out' tail' extra' (Hj & Hh & Hcnt & Hcap & Hex).
  assert (Hidx : Z.of_nat (List.length out') < 2 ^ 30) by lia.
  assert (Hj3 : j' = 0%N \/ j' = 1%N \/ j' = 2%N) by lia.
  unfold enc_rest. cbn [f_body Src_base64.f_hex_to_base64_3]. unfold enc_st.
  destruct Hj3 as [-> | [-> | ->]].
  - assert (Ht : List.length tail' = 1%nat) by (change (N.to_nat 0) with 0%nat in Hcnt; lia).
    destruct tail' as [|r [|? ?]]; try discriminate Ht. clear Hcnt Hcap Ht.
    eexists. split.
    + eapply x_seq.
      { eapply x_if_false; [evr fail; reflexivity|]. eapply x_if_false; [evr fail; reflexivity|]. reflexivity. }
      eapply x_seq; [pad_store (map Z.of_N out')|].
      eapply x_return. evr fail. reflexivity.
    + cbn [mget mem String.eqb Ascii.eqb Bool.eqb andb]. rewrite enc_fin_0, map_app. reflexivity.
  - assert (Ht : List.length tail' = 5%nat) by (change (N.to_nat 1) with 1%nat in Hcnt; lia).
    destruct tail' as [|a [|b [|c [|d [|e [|? ?]]]]]]; try discriminate Ht. clear Hcnt Hcap Ht.
    destruct Hex as [-> | (ea & eb & ->)].
    all: eexists; split;
      [ eapply x_seq;
        [ eapply x_if_true; [evr fail; reflexivity | discriminate |];
          eapply x_seq; [set_step|];
          fin_iter_emit h' (map Z.of_N out') 18%N;
          fin_iter_emit h' (map Z.of_N out' ++ [Z.of_N (tab64 (N.land (N.shiftr h' 18) 63))]) 12%N;
          fin_iter_pad ((map Z.of_N out' ++ [Z.of_N (tab64 (N.land (N.shiftr h' 18) 63))]) ++ [Z.of_N (tab64 (N.land (N.shiftr h' 12) 63))]);
          fin_iter_pad (((map Z.of_N out' ++ [Z.of_N (tab64 (N.land (N.shiftr h' 18) 63))]) ++ [Z.of_N (tab64 (N.land (N.shiftr h' 12) 63))]) ++ [61]);
          eapply x_loop_end; evr fail; reflexivity
        | eapply x_seq;
          [ pad_store ((((map Z.of_N out' ++ [Z.of_N (tab64 (N.land (N.shiftr h' 18) 63))]) ++ [Z.of_N (tab64 (N.land (N.shiftr h' 12) 63))]) ++ [61]) ++ [61])
          | eapply x_return; evr fail; reflexivity ] ]
      | cbn [mget mem String.eqb Ascii.eqb Bool.eqb andb]; rewrite enc_fin_1, !map_app; cbn [map]; rewrite <- !app_assoc; reflexivity ].
  - assert (Ht : List.length tail' = 5%nat) by (change (N.to_nat 2) with 2%nat in Hcnt; lia).
    destruct tail' as [|a [|b [|c [|d [|e [|? ?]]]]]]; try discriminate Ht. clear Hcnt Hcap Ht.
    destruct Hex as [-> | (ea & eb & ->)].
    all: eexists; split;
      [ eapply x_seq;
        [ eapply x_if_false; [evr fail; reflexivity |];
          eapply x_if_true; [evr fail; reflexivity | discriminate |];
          eapply x_seq; [set_step|];
          fin_iter_emit h' (map Z.of_N out') 18%N;
          fin_iter_emit h' (map Z.of_N out' ++ [Z.of_N (tab64 (N.land (N.shiftr h' 18) 63))]) 12%N;
          fin_iter_emit h' ((map Z.of_N out' ++ [Z.of_N (tab64 (N.land (N.shiftr h' 18) 63))]) ++ [Z.of_N (tab64 (N.land (N.shiftr h' 12) 63))]) 6%N;
          fin_iter_pad (((map Z.of_N out' ++ [Z.of_N (tab64 (N.land (N.shiftr h' 18) 63))]) ++ [Z.of_N (tab64 (N.land (N.shiftr h' 12) 63))]) ++ [Z.of_N (tab64 (N.land (N.shiftr h' 6) 63))]);
          eapply x_loop_end; evr fail; reflexivity
        | eapply x_seq;
          [ pad_store ((((map Z.of_N out' ++ [Z.of_N (tab64 (N.land (N.shiftr h' 18) 63))]) ++ [Z.of_N (tab64 (N.land (N.shiftr h' 12) 63))]) ++ [Z.of_N (tab64 (N.land (N.shiftr h' 6) 63))]) ++ [61])
          | eapply x_return; evr fail; reflexivity ] ]
      | cbn [mget mem String.eqb Ascii.eqb Bool.eqb andb]; rewrite enc_fin_2, !map_app; cbn [map]; rewrite <- !app_assoc; reflexivity ].
Qed.
End Encode.

Lemma SRC_b64_encode_proof : forall data,
  bytesb data = true -> (N.of_nat (List.length data) < 2 ^ 28)%N ->
  src_b64_encode data = SOk (hex_to_base64 data).
Proof.
  intros data Hb Hlen0. unfold src_b64_encode.
  set (n := zlen data).
  assert (Hn : n = Z.of_nat (List.length data)) by reflexivity.
  assert (Hlen : n < 2 ^ 28) by (change (2 ^ 28)%N with 268435456%N in Hlen0; lia).
  rewrite hex_to_base64_fin.
  destruct (fold_left enc_step data (0, 0, [])%N) as [[h' j'] out'] eqn:Hfold.
  assert (Hinv0 : enc_inv n 0 0 0 [] (repeat 0 (Z.to_nat (4 * ((n + 2) / 3) + 1))) []).
  { unfold enc_inv. repeat split; try reflexivity; try lia.
    - cbn [List.length]. rewrite repeat_length. lia.
    - left; reflexivity. }
  destruct (enc_loop_ok data n Hb Hn Hlen data [] 0 0 [] _ [] (List.length data + 94)%nat h' j' out' eq_refl Hinv0 ltac:(lia) Hfold)
    as (tail' & extra' & Hinv' & Hloop).
  destruct (enc_rest_ok data n Hn Hlen h' j' out' tail' extra' Hinv') as (s' & Hrest & Hout).
  assert (E : exec b64_prog [] (S (S (S (S (S (S (List.length data + 94)))))))
                (f_body Src_base64.f_hex_to_base64_3)
                {| mem := Src_base64.globals ++ [("in", bytes_object data); ("out", mk_object U8 (4 * ((n + 2) / 3) + 1))];
                   loc := [("hex_in", VPtr "in" 0); ("len", VInt n); ("base64_out", VPtr "out" 0)];
                   pre := ""; files := []; ptrs := []; fresh := 0 |} = Ok (Returned (Some (VInt 1)), s')).
  { cbn [f_body Src_base64.f_hex_to_base64_3].
    eapply x_seq; [set_step|]. eapply x_seq; [set_step|]. eapply x_seq; [set_step|]. eapply x_seq; [set_step|].
    eapply x_seq; [exact Hloop|].
    eapply exec_mono; [exact Hrest|lia]. }
  unfold call. change (lget b64_prog "hex_to_base64/3") with (Some Src_base64.f_hex_to_base64_3).
  cbn [bind bind_params f_params Src_base64.f_hex_to_base64_3 init_state mem loc pre files ptrs fresh].
  replace (List.length data + 100)%nat with (S (S (S (S (S (S (List.length data + 94))))))) by lia.
  rewrite E. cbn [bind of_res snd]. unfold out_bytes, get_bytes. cbn [mem]. rewrite Hout.
  unfold object_bytes. cbn [o_cells]. rewrite map_to_of_N. reflexivity.
Qed.
Print Assumptions SRC_b64_encode_proof.

