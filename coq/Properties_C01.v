(* C01 -- decrypt(encrypt(P)) = P for every length, mode, hash, key, seed, thread count and
   chunk size.  Only statements; every proof is one [exact] of a lemma of FileProofsDec. *)
From Wencry Require Import Bytes FileModel FileSpec FileProps FileProofsDec.
Local Open Scope N_scope.

Theorem C01_roundtrip : forall c hbuf T P key seed cm hm,
  enc_params c hbuf T P key seed cm hm ->
  exists F, enc c hbuf T P key cm hm seed = Ok F /\
            dec c hbuf T F key = Ok P /\
            ver hbuf F key = Ok true.
Proof. exact C01_roundtrip_proof. Qed.
Print Assumptions C01_roundtrip.
