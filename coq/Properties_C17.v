(* C17 -- command line: no crash on any option vector; exit 0 iff the operation succeeded;
   otherwise a diagnostic and a non-zero status.  Over the model of getopts.cpp/main.cpp
   (CliModel): all finite sequences of delivered options with valid, invalid and missing values.
   Only statements; proofs are [exact]s of lemmas of CliProofs. *)
From Coq Require Import ZArith List Bool.
From Wencry Require Import CliModel CliProofs.
Import ListNotations.
Local Open Scope Z_scope.

(* no option vector reaches one of the crash sites (NULL key, NULL output stream) *)
Theorem C17_never_crashes : forall ts, cli ts <> Crash.
Proof. exact C17_never_crashes_proof. Qed.
Print Assumptions C17_never_crashes.

(* exit status 0 exactly when the requested operation (or -V/-h) was carried out successfully *)
Theorem C17_exit_zero_iff_success : forall ts c d op,
  cli ts = Exit c d op -> (c = 0 <-> exists m, op = Some (m, true)).
Proof. exact C17_exit_zero_iff_success_proof. Qed.
Print Assumptions C17_exit_zero_iff_success.

(* every non-zero exit comes with a diagnostic, except an operation-level failure whose result
   line the user silenced with -n *)
Theorem C17_failure_is_diagnosed : forall ts c d op,
  cli ts = Exit c d op -> c <> 0 ->
  d = true \/ (has_no_echo ts = true /\ exists m, op = Some (m, false)).
Proof. exact C17_failure_is_diagnosed_proof. Qed.
Print Assumptions C17_failure_is_diagnosed.

(* what success requires: exactly one mode; an openable input; for decryption and verification a
   valid key text; for decryption an output *)
Theorem C17_success_requirements : forall ts d m,
  cli ts = Exit 0 d (Some (m, true)) ->
  count_modes ts = 1%nat /\
  (m = 101 \/ m = 100 \/ m = 118 -> has_input ts = true) /\
  (m = 100 \/ m = 118 -> has_valid_key ts = true) /\
  (m = 100 -> has_output ts = true).
Proof. exact C17_success_requirements_proof. Qed.
Print Assumptions C17_success_requirements.

(* in particular: no mode or two modes, missing input, missing key or output for decryption,
   malformed key text, out-of-range mode numbers, and a too long path without -o all end with
   status 1 and a diagnostic *)
Theorem C17_documented_failures : forall ts,
  (count_modes ts <> 1%nat \/
   In (T_k KInvalid) ts \/
   (~ In T_V ts /\ ~ In T_h ts /\ exists n, (In (T_cmode n) ts /\ (n < 0 \/ 4 < n)) \/ (In (T_hmode n) ts /\ (n < 0 \/ 2 < n))) \/
   (In T_d ts /\ (has_valid_key ts = false \/ has_output ts = false \/ has_input ts = false)) \/
   (In T_v ts /\ (has_valid_key ts = false \/ has_input ts = false)) \/
   (In T_e ts /\ has_input ts = false)) ->
  exists c, cli ts = Exit c true None /\ c = 1.
Proof. exact C17_documented_failures_proof. Qed.
Print Assumptions C17_documented_failures.

(* defaults: `-e -i F` writes F.wenc and prints a key K; `-d -i F.wenc -o G -k K` is then accepted
   (that G then equals F is C01 with C16) *)
Theorem C17_defaults : forall g,
  cli [T_e; T_i false true FPlain] = Exit 0 false (Some (101, true)) /\
  cli [T_d; T_i false g (FWenc RANDOM_KEY); T_o true; T_k (KValid RANDOM_KEY)] = Exit 0 false (Some (100, true)).
Proof. exact C17_defaults_proof. Qed.
Print Assumptions C17_defaults.
