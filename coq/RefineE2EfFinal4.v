(* Stage 5: execute_encrypt end to end modulo TWO big-step premises about sequential code on explicit states (RefineE2EfSetup2Spec):
     gi_if_spec   : `if (!instance) instance = new buffergroup` inside the lock of get_instance;
     pa_rest_spec : prepare_AES after get_instance (set_buffergroup, mode array, loadiv, T x createCryMaster, return).
   The machine part of the second set-up step (lock, unlock, returns, the call of run_multicry, the spawn loop, run_buffer / wait_update up to
   its lock = the canonical state) is proved in RefineE2EfSetup2.v. *)
From Coq Require Import ZArith NArith List String Bool.
From Wencry Require Import Bytes AesModel ModesModel HashModel FileModel FileProps MiniC MiniCRun MiniCLemmas MiniCConc SrcRun SrcRun2 SrcRun5.
From Wencry Require Import RefineE2EfLay RefineE2EfEncDefs RefineE2EfHashSpec RefineE2EfHashB3 RefineE2EfSetup2Spec.
From Wencry Require RefineE2EfSetup2 RefineE2EfFinal2 RefineE2EfFinal3.
Import ListNotations.

(* the two stretches, for every state the first step can end in *)
Definition second_step_seq_spec (c hbuf T : nat) (P key seed : list N) (cm hm : N) (ke : mkind) : Prop :=
  enc_params c hbuf T P key seed cm hm -> (N.of_nat (16 * c) < 2 ^ 32)%N -> create true cm = Some ke ->
  forall (h n : nat) (ivo : object) (extra : memory) (pextra : locs),
    (n < h)%nat -> mget extra (heap_name n) = Some ivo -> o_ty ivo = U8 -> (16 <= List.length (o_cells ivo))%nat ->
    firstn 16 (o_cells ivo) = map Z.of_N (firstn 16 (iv_chain seed T)) ->
    ext_mem_ok h extra = true -> ext_ptr_ok h pextra = true ->
    (forall k o, mget (M1e c hbuf T key seed (Z.of_N cm) (Z.of_N hm)) k = Some o -> mget extra k = None) ->
    no_sizeof_names extra = true -> no_alloc_keys pextra = true ->
    gi_if_spec c hbuf T P key seed cm hm h n extra pextra ke /\ pa_rest_spec c hbuf T P key seed cm hm h n extra pextra ke.

Lemma setup2_from_seq : forall c hbuf T P key seed cm hm ke,
  second_step_seq_spec c hbuf T P key seed cm hm ke -> RefineE2EfFinal2.setup2_enc_spec c hbuf T P key seed cm hm ke.
Proof.
  intros c hbuf T P key seed cm hm ke S EP Hc32 Hke h n ivo extra pextra Hn Hivo Hty Hlen Hiv Hext Hpext Hdis Hnsz Hnal.
  destruct (S EP Hc32 Hke h n ivo extra pextra Hn Hivo Hty Hlen Hiv Hext Hpext Hdis Hnsz Hnal) as [GI PA].
  exact (RefineE2EfSetup2.second_step c hbuf T P key seed cm hm h n extra pextra ke EP Hn Hext Hpext GI PA).
Qed.

Theorem encrypt_modulo_second_step_seq :
  forall (c hbuf T : nat) (P key seed : list N) (cm hm : N),
  enc_params c hbuf T P key seed cm hm ->
  forallb (fun b => (0 <? b)%N && (b <? 256)%N) seed = true -> (N.of_nat (List.length seed) < 2 ^ 32)%N ->
  (N.of_nat (16 * c) < 2 ^ 32)%N -> (N.of_nat (64 * hbuf) < 2 ^ 32)%N ->
  forall ke, create true cm = Some ke ->
  second_step_seq_spec c hbuf T P key seed cm hm ke ->
  forall rnd,
  match src_encrypt_file c hbuf T cm hm P key seed rnd with
  | SOk (b, o, i, _) => b = true /\ enc c hbuf T P key cm hm seed = FileModel.Ok o /\ i = P
  | SErr w => w = "out of fuel"%string \/ w = "step bound reached"%string
  end.
Proof.
  intros c hbuf T P key seed cm hm EP Hseed HsL Hc32 Hh32 ke Hke S.
  exact (RefineE2EfFinal3.encrypt_modulo_second_step c hbuf T P key seed cm hm EP Hseed HsL Hc32 Hh32 ke Hke (setup2_from_seq _ _ _ _ _ _ _ _ _ S)).
Qed.
Print Assumptions encrypt_modulo_second_step_seq.
