(* Definitions used to STATE the concurrency properties C03 / C04 / C14 over PipeConc. *)
From Wencry Require Import Bytes FileModel PipeConc.
Local Open Scope nat_scope.

Section Props.
Variable S : Type.
Variable tr : S -> list N -> S * list N.
Variable tr_event : nat -> S -> list event.
Variable c : nat.
Variable ispadding : bool.

Notation state := (state S).
Notation step := (step S tr tr_event c ispadding).
Notation run := (run S tr tr_event c ispadding).

(* the list of load_buffer results an input yields: only the last one can be FINAL, every load carries
   at least one block, and the block list matches the count (what loads_of produces, see C01/C02).
   The list may be empty (decryption of an empty body: the first load is NODATA) and may end without a
   FINAL load (decryption of a body that is not a whole number of blocks: the fragment is NODATA) *)
Definition wf_load (l : load) : Prop :=
  1 <= ld_total l /\ length (blocks16_of (ld_data l)) = ld_total l.
Definition wf_loads (ls : list load) : Prop :=
  Forall wf_load ls /\
  (forall i, i < length ls -> ld_final (nth i ls {| ld_data := []; ld_total := 0; ld_final := false |}) = true ->
             Datatypes.S i = length ls).

Definition reachable (T : nat) (sigma0 : list S) (ls : list load) (s : state) : Prop :=
  exists sched, run (init S T sigma0 ls) sched = Some s.

(* the next step of worker i reads or writes the cursor / data of buffer i without a lock *)
Definition worker_touches (s : state) (i : nat) : Prop :=
  getw S s i = W_Get \/ (getw S s i = W_Cmp /\ b_st (getb S s i) = READY).
(* the I/O thread is between finding buffer i EMPTY/UPDATING and handing it over again
   (it flushes and refills it in this window) *)
Definition io_owns (s : state) (i : nat) : Prop :=
  turn S s = i /\
  match io S s with I_Cmp | I_Export | I_Load | I_SetReady _ => True | _ => False end.

(* ---- sequential reference: chunk j is transformed block by block by stream j mod T ---- *)
Fixpoint tr_blocks (x : S) (bs : list (list N)) : S * list (list N) :=
  match bs with
  | [] => (x, [])
  | b :: r => let (x', b') := tr x b in
              let (x'', r') := tr_blocks x' r in (x'', b' :: r')
  end.
(* per chunk: the export result; together with the final stream states *)
Fixpoint seq_chunks (T : nat) (sts : list S) (j : nat) (ls : list load) : list S * list (result (list N)) :=
  match ls with
  | [] => (sts, [])
  | l :: r =>
      let i := j mod T in
      match nth_error sts i with
      | None => (sts, [])
      | Some x =>
          let (x', out) := tr_blocks x (blocks16_of (ld_data l)) in
          let (sts', rest) := seq_chunks T (set_nth i x' sts) (Datatypes.S j) r in
          (sts', export c ispadding {| ld_data := []; ld_total := ld_total l; ld_final := ld_final l |} (concat out) :: rest)
      end
  end.
Definition all_ok (rs : list (result (list N))) : Prop := Forall (fun r => exists b, r = Ok b) rs.
Definition ok_bytes (rs : list (result (list N))) : list (list N) :=
  map (fun r => match r with Ok b => b | _ => [] end) rs.
End Props.

(* number of spurious wake-ups in a schedule of a system with T workers (thread ids 0..T are the real
   threads, id T+1+j is "thread j returns from cv.wait without a notification", see PipeConc.step) *)
Definition spurious_count (T : nat) (sched : list nat) : nat := length (filter (fun t => T <? t) sched).

(* a stream object that does not change the data and records every block it is given:
   instantiating the generic theorems with it states "every block is handed to exactly one
   stream -- the one owning its chunk -- exactly once and in file order" *)
Definition hist_tr (h : list (list N)) (blk : list N) : list (list N) * list N := (h ++ [blk], blk).
(* the blocks of the chunks with index = i (mod T), in file order *)
Definition owned_blocks (T i : nat) (ls : list load) : list (list N) :=
  concat (map (fun j => if (j mod T =? i) then blocks16_of (ld_data (nth j ls {| ld_data := []; ld_total := 0; ld_final := false |})) else [])
              (seq 0 (length ls))).
