(* What SRC_protocol_follows_PipeConc buys: the theorems about the hand-written transition system PipeConc (C03 schedule
   independence, C04 deadlock freedom) hold for the TRANSLATED hand-over protocol run on the thread machine MiniCConc, in the set-up of
   the harness' pipe operation (SrcRun4: T tagging stream objects - they write the worker's id and its running block count into every
   block, so the output shows which worker transformed which chunk, in which order).

   [SRC_protocol_machine_is_followed_by_PipeConc] is the converse direction of the simulation: every schedule the MACHINE runs (it
   refuses a step of a thread that is not enabled: blocked, asleep, joined on a running worker, finished, out of range, and a spurious
   wake-up of a thread that is not asleep) is a schedule of PipeConc with the same observation - possibly followed by ONE step of the
   main thread (thread 0) taken after PipeConc has reached its terminal state: at PipeConc's I_Done the translated op_pipe has not
   returned yet, the main thread is stopped at the lock of buffergroup::del_instance and takes one more step (lock; delete; unlock;
   thread exit, event 14), which PipeConc does not model; after it the machine refuses every entry.  So the statements below
   quantify over the executions of the translated code, not over those of the model.
   [SRC_protocol_machine_is_followed_by_PipeConc_while_main_runs]: the plain statement, for the runs whose main thread has not returned.
   [SRC_protocol_machine_is_followed_by_PipeConc_refuted_as_first_stated]: the plain statement without that hypothesis is false.
   [SRC_protocol_output_is_schedule_independent]: whenever the translated protocol has run to the end (all worker threads finished)
   under ANY schedule, spurious wake-ups included, its output stream holds exactly the bytes of the sequential reference: chunk j
   transformed block by block by stream j mod T, chunks in load order.
   [SRC_protocol_never_stuck]: in every state the translated protocol reaches, either all workers are finished or some REAL thread
   (not a spurious wake-up) can take a step: no deadlock, no lost wake-up in the translated code. *)
From Coq Require Import ZArith NArith List String Bool.
From Wencry Require Import Bytes FileModel PipeConc PipeProps MiniC MiniCConc SrcRun SrcRun4 RefineConc RefineConc2.
Import ListNotations.

Definition norm_ev (e : MiniCConc.event) : PipeConc.event :=
  match e with (k, o, v) => (Z.to_nat k, if (o <? 0)%Z then NOOBJ else Z.to_nat o, Z.to_nat v) end.
Definition is_marker (e : MiniCConc.event) : bool := match e with (k, _, _) => (k =? 20)%Z || (k =? 21)%Z end.
Definition norm_log (l : list (nat * nat * list MiniCConc.event)) : list (nat * nat * list PipeConc.event) :=
  map (fun x => match x with (tid, ne, evs) => (tid, ne, map norm_ev (filter (fun e => negb (is_marker e)) evs)) end) l.

Theorem SRC_protocol_machine_is_followed_by_PipeConc : forall c T (ispadding : bool) input sched cs log',
  (1 <= c)%nat -> (N.of_nat (16 * c) < 2 ^ 32)%N -> (1 <= T <= 16)%nat -> bytesb input = true ->
  (N.of_nat (length input) < 2 ^ 36)%N ->
  conc_src_run c T ispadding input sched = SOk (cs, log') ->
  (exists s log, tag_run c T ispadding input sched = Some (s, log) /\ norm_log log' = log /\ thread_done cs 0 = false) \/
  (exists sched0 s log log0 ne,
     sched = sched0 ++ [0%nat] /\ tag_run c T ispadding input sched0 = Some (s, log) /\ terminal (N * N) s = true /\
     log' = log0 ++ [(0%nat, ne, [(14, 0, 0)]%Z)] /\ norm_log log0 = log /\ thread_done cs 0 = true).
Proof. exact SRC_protocol_machine_runs_characterised_proof. Qed.
Print Assumptions SRC_protocol_machine_is_followed_by_PipeConc.

Theorem SRC_protocol_machine_is_followed_by_PipeConc_while_main_runs : forall c T (ispadding : bool) input sched cs log',
  (1 <= c)%nat -> (N.of_nat (16 * c) < 2 ^ 32)%N -> (1 <= T <= 16)%nat -> bytesb input = true ->
  (N.of_nat (length input) < 2 ^ 36)%N ->
  conc_src_run c T ispadding input sched = SOk (cs, log') -> thread_done cs 0 = false ->
  exists s log, tag_run c T ispadding input sched = Some (s, log) /\ norm_log log' = log.
Proof. exact SRC_protocol_machine_is_followed_by_PipeConc_proof. Qed.
Print Assumptions SRC_protocol_machine_is_followed_by_PipeConc_while_main_runs.

Example SRC_protocol_machine_is_followed_by_PipeConc_refuted_as_first_stated :
  ~ (forall c T (ispadding : bool) input sched cs log',
      (1 <= c)%nat -> (N.of_nat (16 * c) < 2 ^ 32)%N -> (1 <= T <= 16)%nat -> bytesb input = true ->
      (N.of_nat (length input) < 2 ^ 36)%N ->
      conc_src_run c T ispadding input sched = SOk (cs, log') ->
      exists s log, tag_run c T ispadding input sched = Some (s, log) /\ norm_log log' = log).
Proof. exact SRC_protocol_machine_is_followed_by_PipeConc_refuted_as_first_stated_proof. Qed.
Print Assumptions SRC_protocol_machine_is_followed_by_PipeConc_refuted_as_first_stated.

Theorem SRC_protocol_output_is_schedule_independent : forall c T (ispadding : bool) input sched cs log',
  (1 <= c)%nat -> (N.of_nat (16 * c) < 2 ^ 32)%N -> (1 <= T <= 16)%nat -> bytesb input = true ->
  (N.of_nat (length input) < 2 ^ 36)%N ->
  conc_src_run c T ispadding input sched = SOk (cs, log') -> all_done cs = true ->
  conc_output cs = concat (ok_bytes (snd (seq_chunks (N * N) tag_tr c ispadding T (tag_init T) 0 (loads_of c ispadding input)))).
Proof. exact SRC_protocol_output_is_schedule_independent_proof. Qed.
Print Assumptions SRC_protocol_output_is_schedule_independent.

Theorem SRC_protocol_never_stuck : forall c T (ispadding : bool) input sched cs log',
  (1 <= c)%nat -> (N.of_nat (16 * c) < 2 ^ 32)%N -> (1 <= T <= 16)%nat -> bytesb input = true ->
  (N.of_nat (length input) < 2 ^ 36)%N ->
  conc_src_run c T ispadding input sched = SOk (cs, log') ->
  all_done cs = true \/
  exists tid cs' evs, (tid <= T)%nat /\ cstep conc_prog [] (5000 + 400 * c) cs tid = MiniC.Ok (cs', evs).
Proof. exact SRC_protocol_never_stuck_proof. Qed.
Print Assumptions SRC_protocol_never_stuck.
