(* The SOURCE-LEVEL ROUND TRIP: the translated runcrypt::execute_encrypt, run on the thread machine MiniCConc under ANY scheduler seed, writes a file
   that the translated runcrypt::execute_decrypt (any other scheduler seed) accepts and turns back into the original plaintext, leaving the file as it
   was; and the translated runcrypt::execute_verify accepts that file.  Corollaries of SRC_execute_encrypt_is_model, SRC_execute_decrypt_is_model_on_accepted_files
   (Properties_SrcE2Ef.v), SRC_execute_verify_is_model (Properties_SrcE2E.v), C01 and C02. *)
From Coq Require Import ZArith NArith List String Bool.
From Wencry Require Import Bytes HashModel FileModel FileProps MiniC MiniCRun MiniCConc SrcRun SrcRun2 SrcRun5 RefineE2EfRound.
Import ListNotations.
Local Open Scope N_scope.

Theorem SRC_roundtrip : forall c hbuf T P key seed cm hm rnd rnd',
  enc_params c hbuf T P key seed cm hm ->
  forallb (fun b => (0 <? b) && (b <? 256)) seed = true ->           (* the C code takes strlen of the seed *)
  N.of_nat (length seed) < 2 ^ 32 ->                                 (* and casts it to u32 *)
  N.of_nat (16 * c) < 2 ^ 32 -> N.of_nat (64 * hbuf) < 2 ^ 32 ->
  N.of_nat (length P) + 1000 < 2 ^ 36 ->                             (* so that the encrypted file is shorter than 2^36 bytes (theorem 2's bound) *)
  match src_encrypt_file c hbuf T cm hm P key seed rnd with
  | SOk (_, o, _, _) =>
      match src_decrypt_file c hbuf T o key rnd' with
      | SOk (b, o', i', _) => b = true /\ o' = P /\ i' = o
      | SErr w => w = "out of fuel"%string \/ w = "step bound reached"%string
      end
  | SErr w => w = "out of fuel"%string \/ w = "step bound reached"%string     (* the budgets of SrcRun5.run_from were too small *)
  end.
Proof. exact SRC_roundtrip_proof. Qed.
Print Assumptions SRC_roundtrip.

Theorem SRC_encrypted_file_verifies : forall c hbuf T P key seed cm hm rnd rnd',
  enc_params c hbuf T P key seed cm hm ->
  forallb (fun b => (0 <? b) && (b <? 256)) seed = true ->
  N.of_nat (length seed) < 2 ^ 32 ->
  N.of_nat (16 * c) < 2 ^ 32 -> N.of_nat (64 * hbuf) < 2 ^ 32 ->
  N.of_nat (length P) + 1000 < 2 ^ 56 ->                             (* so that the encrypted file is shorter than 2^56 bytes (SRC_execute_verify_is_model's bound) *)
  match src_encrypt_file c hbuf T cm hm P key seed rnd with
  | SOk (_, o, _, _) =>
      match src_verify_file c hbuf T o key rnd' with
      | SOk (b, o', i', _) => b = true /\ o' = [] /\ i' = o
      | SErr w => w = "out of fuel"%string
      end
  | SErr w => w = "out of fuel"%string \/ w = "step bound reached"%string
  end.
Proof. exact SRC_encrypted_file_verifies_proof. Qed.
Print Assumptions SRC_encrypted_file_verifies.
