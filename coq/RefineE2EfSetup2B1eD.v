(* PARALLEL4 (H1): decrypt copy (layout instance PWd, pad = false) of the instance part (Section B1End) of RefineE2EfSetup2B1e.v;
   the generic parts (build_ctrl, ctrl_loop_w, sb_end ...) are imported from there. *)
From Coq Require Import ZArith NArith List String Bool Lia PeanoNat Ascii.
From Wencry Require Import Bytes MiniC MiniCRun MiniCLemmas SrcRun SrcRun2 SrcRun5 RefineE2ENames RefineE2EfLay RefineE2EfWNames RefineE2EfWStream RefineE2EfSetup2B3.
From Wencry Require RefineFileBase RefineConcMem RefineConcSim.
From Wencry.Gen Require Src_conc.
From Wencry Require Import ModesModel HashModel FileModel FileProps RefineE2EWhole RefineE2EfWLay RefineE2EfGen RefineE2EfEncDefs RefineE2EfHashSpec RefineE2EfEnc2
     RefineE2EfHashB2 RefineE2EfHashB3 RefineE2EfSetup1 RefineE2EfSetup2Spec RefineE2EfDecSpec RefineE2EfDecInst RefineE2EfSetup2B1e RefineE2EfSetup2TailD.
Import ListNotations.
Local Open Scope list_scope.
Local Open Scope string_scope.
Local Open Scope Z_scope.

Section B1End.
Variables (c hbuf T : nat) (F key : list N) (h n : nat) (extra : memory) (pextra : locs) (ke : mkind).
Hypothesis HT : (1 <= T <= 16)%nat.
Hypothesis Hkey : block16 key.
Hypothesis Hivb : block16 (firstn 16 (skipn 48 F)).
Hypothesis Hn : (n < h)%nat.
Hypothesis Hext : ext_mem_ok h extra = true.
Hypothesis Hpext : ext_ptr_ok h pextra = true.
Hypothesis Hnosz : no_sizeof_names extra = true.
Notation PW := (PWd hbuf T F key h n extra pextra ke).
Let OKW : wpar_ok PW := PWdec_ok hbuf T F key HT Hkey Hivb h n extra pextra ke Hn Hext Hpext.
Notation d0 := (dz c hbuf T F key h n extra pextra ke []).
Notation bufs0 := (repeat (mb_init c) T).

Definition MRc : memory := (wp_memB PW c T ++ w_seg3 PW T false d0 ++ flat_map (w_iob PW bufs0) (seq 0 T))%list.
Definition MC0 : memory := (wp_memA PW c T ++ [("live_num", cell U8 0)] ++ MRc)%list.
Definition core5c : locs :=
  [(class_key (wGP PW), VPtr "buffergroup" 0); ((wGP PW ++ "buflst")%string, VPtr (wBL PW) 0); ((wGP PW ++ "ctrl")%string, VNull);
   ((wGP PW ++ "fin")%string, VPtr "fin" 0); ((wGP PW ++ "fout")%string, VPtr "fout" 0)].
Definition PtC0 : locs :=
  (wp_pA PW T ++ [("instance", VPtr (wGP PW) 0)] ++ wp_pB PW T ++ core5c ++ map (fun i => (class_key (wbp PW i), VPtr "iobuffer" 0)) (seq 0 T))%list.

Lemma wcp_cp : forall i, wcp PW i = cp (h + 2) i.
Proof. reflexivity. Qed.

Lemma MRc_cp : forall i x, mget MRc (cp (h + 2) i ++ x) = None.
Proof.
  intros i x. rewrite <- wcp_cp. pose proof (hnum_cp PW i x) as E. unfold MRc. rewrite !RefineConcMem.mget_app.
  rewrite (frame_none PW _ _ _ (wo_memB PW OKW c T) E) by (cbn [wp_h PWd PWdec]; lia).
  rewrite (allnum_none (wp_h PW) _ _ _ (allnum_seg3 PW T false d0) E) by (cbn [wp_h PWd PWdec]; lia).
  rewrite (allnum_none (wp_h PW + 1) _ _ _ (allnum_flat _ _ _ (allnum_iob PW _)) E) by (cbn [wp_h PWd PWdec]; lia). reflexivity.
Qed.
Lemma MA_cp : forall i x, mget (wp_memA PW c T) (cp (h + 2) i ++ x) = None.
Proof. intros i x. rewrite <- wcp_cp. apply (frame_none PW _ _ _ (wo_memA PW OKW c T) (hnum_cp PW i x)). cbn [wp_h PWd PWdec]. lia. Qed.

Lemma Fm_C0 : Fm (h + 2) MC0 0.
Proof.
  split.
  - intros i x _. unfold MC0. rewrite !RefineConcMem.mget_app, MA_cp. cbn [mget]. destruct (cp_hash (h + 2) i x) as [r Er]. rewrite Er at 1.
    cbn [String.eqb Ascii.eqb Bool.eqb andb]. apply MRc_cp.
  - intros name. assert (E : hnum ("sizeof:bufferctrl." ++ name) = None) by reflexivity.
    unfold MC0, MRc. cbn [wp_memA wp_memB PWd PWdec]. rewrite !RefineConcMem.mget_app.
    assert (EA : mget (memA_d hbuf F key c T) ("sizeof:bufferctrl." ++ name) = None).
    { destruct (mget (memA_d hbuf F key c T) ("sizeof:bufferctrl." ++ name)) eqn:Q; [|reflexivity]. exfalso.
      pose proof (keysAd_all c hbuf T F key (fun k => negb (pfxb "sizeof:bufferctrl." k)) _ _ eq_refl Q) as X. cbn beta in X.
      rewrite pfxb_app in X. discriminate X. }
    rewrite EA.
    assert (E1 : String.eqb ("sizeof:bufferctrl." ++ name) "live_num" = false) by reflexivity.
    assert (E2 : String.eqb ("sizeof:bufferctrl." ++ name) "#0" = false) by reflexivity.
    pose proof (mget_nopfx "sizeof:" extra ("bufferctrl." ++ name) Hnosz) as E3. change ("sizeof:" ++ "bufferctrl." ++ name) with ("sizeof:bufferctrl." ++ name) in E3.
    set (k := "sizeof:bufferctrl." ++ name) in *. cbn [mget]. rewrite E1, E2, E3. subst k.
    rewrite (allnum_none' (wp_h PW) _ _ (allnum_seg3 PW T false d0) E).
    rewrite (allnum_none' (wp_h PW + 1) _ _ (allnum_flat _ _ _ (allnum_iob PW _)) E). reflexivity.
Qed.
Lemma Fp_C0 : Fp (h + 2) PtC0 0.
Proof.
  intros i _. rewrite <- wcp_cp. pose proof (hnum_cp PW i "") as E. rewrite append_nil_r in E.
  unfold PtC0. rewrite !RefineConcMem.lget_app.
  rewrite (pframe_class PW _ _ _ (wo_pA PW OKW T) E) by (cbn [wp_h PWd PWdec]; lia). cbn [lget].
  change (String.eqb (class_key (wcp PW i)) "instance") with false. cbv iota.
  rewrite (pframe_class PW _ _ _ (wo_pB PW OKW T) E) by (cbn [wp_h PWd PWdec]; lia).
  assert (C5 : lget core5c (class_key (wcp PW i)) = None).
  { unfold core5c. cbn [lget]. rewrite class_eqb. pose proof (hnum_GP PW "") as Hg. rewrite append_nil_r in Hg.
    rewrite (hnum_neq _ _ _ _ E Hg) by (cbn [wp_h PWd PWdec]; lia).
    rewrite !(String.eqb_sym (class_key (wcp PW i)) (wGP PW ++ _)), !(hnum_none_neq _ _ _ (hnum_GP PW _) (hnum_class (wcp PW i))). reflexivity. }
  rewrite C5.
  apply RefineConcMem.lget_map_none. intros j. rewrite class_eqb. pose proof (hnum_bp PW j "") as Hb. rewrite append_nil_r in Hb.
  apply (hnum_neq _ _ _ _ E Hb). cbn [wp_h PWd PWdec]. lia.
Qed.

Lemma ctrl_objs_eq : flat_map (ctrl0 (h + 2)) (seq 0 T) = flat_map (w_ctrl PW bufs0) (seq 0 T).
Proof.
  apply RefineConcMem.flat_map_ext_seq. intros j Hj. unfold w_ctrl, ctrl0. rewrite nth_repeat_lt by lia. reflexivity.
Qed.

Theorem sb_end_ok : forall l fs, lget l "size" = Some (VInt (Z.of_nat T)) ->
  exists l', exec whole_prog [] (40 + T) sb_end {| mem := MC0; loc := l; pre := wGP PW; files := fs; ptrs := PtC0; fresh := (h + 2)%nat |} =
    MiniC.Ok (Normal, {| mem := MB1 c hbuf T F key h n extra pextra ke; loc := l'; pre := wGP PW; files := fs;
                   ptrs := PtB1 hbuf T F key h n extra pextra ke; fresh := (h + 3)%nat |}).
Proof.
  intros l fs Ls.
  set (l1 := lset l "$t6" (VInt (Z.of_nat T))).
  set (l2 := lset l1 "$t4" (VPtr (heap_name (h + 2)) 0)).
  set (l3 := lset l2 "$t5" (VInt 0)).
  set (PtC1 := (PtC0 ++ map (fun i => (class_key (cp (h + 2) i), VPtr "bufferctrl" 0)) (seq 0 T))%list).
  destruct (ctrl_loop_w (h + 2) (wp_memA PW c T) MRc T ltac:(lia) (frame_live PW _ (wo_memA PW OKW c T)) MA_cp MRc_cp T 0 l3 (wGP PW) fs PtC1 (S (h + 2)) eq_refl) as (l' & EL & L4).
  { unfold l3. apply lget_lset_same. }
  { unfold l3, l2, l1. rewrite !lget_lset_other by discriminate. apply lget_lset_same. }
  { unfold l3, l2. rewrite lget_lset_other by discriminate. apply lget_lset_same. }
  exists l'.
  replace (40 + T)%nat with (S (S (S (S (S (35 + T)))))) by lia.
  unfold sb_end, s_snd. cbn [f_body Src_conc.f_buffergroup_set_buffergroup_4].
  (* $t6 = size *)
  rewrite exec_seq, exec_set. cbn [eval bind as_int loc]. rewrite Ls. cbn [bind as_int]. rewrite (wrap_U64_small (Z.of_nat T)) by lia.
  unfold with_loc. cbn [bind mem loc pre files ptrs fresh]. fold l1.
  (* $t4 = new bufferctrl[$t6] *)
  rewrite exec_seq, x_newobjarr. cbn [eval bind as_int loc]. unfold l1 at 1. rewrite lget_lset_same. cbn [bind as_int].
  destruct (Z.ltb_spec (Z.of_nat T) 0) as [|_]; [lia|]. destruct (Z.ltb_spec 4096 (Z.of_nat T)) as [|_]; [lia|]. cbn [orb mem ptrs fresh loc pre files].
  change ("#" ++ nat_string (h + 2)) with (heap_name (h + 2)). rewrite Nat2Z.id.
  change [("state", U32, 1); ("lock._M_mutex", U8, 40); ("cv_ready._M_cond._M_cond", U8, 48); ("cv_update._M_cond._M_cond", U8, 48)] with objs_ctrl.
  change 0%Z with (Z.of_nat 0) at 1. rewrite (build_ctrl (h + 2) T 0 MC0 PtC0 Fm_C0 Fp_C0). cbn [bind]. fold l2. fold PtC1.
  (* $t5 = 0 *)
  rewrite exec_seq, exec_set. cbn [eval bind]. unfold with_loc. cbn [mem loc pre files ptrs fresh]. fold l3.
  (* the constructor loop *)
  rewrite exec_seq. fold ctrl_loop.
  assert (EM : (MC0 ++ flat_map (ctrl0 (h + 2)) (seq 0 T))%list = Mem (h + 2) (wp_memA PW c T) MRc T 0).
  { unfold MC0, Mem, Cobjs. rewrite <- !app_assoc. reflexivity. }
  rewrite EM. rewrite (exec_mono _ _ _ _ _ _ EL) by lia. cbn [bind].
  (* ctrl = $t4 *)
  rewrite (RefineFileBase.x_setptr whole_prog []). cbn [eval bind loc pre]. rewrite L4. cbn [bind]. unfold with_ptrs. cbn [mem loc pre files ptrs fresh].
  f_equal. f_equal. f_equal.
  - unfold Mem, Cobjs, MB1, MRc. rewrite ctrl_objs_eq. rewrite <- !app_assoc. reflexivity.
  - pose proof (hnum_GP PW "ctrl") as E.
    unfold PtC1, PtC0. rewrite <- !app_assoc.
    rewrite lset_app_r by (apply (pframe_num PW _ _ _ (wo_pA PW OKW T) E); cbn [wp_h PWd PWdec]; lia).
    rewrite (lset_app_r _ [("instance", VPtr (wGP PW) 0)]) by (cbn [lget]; rewrite (hnum_none_neq _ "instance" _ E eq_refl); reflexivity).
    rewrite lset_app_r by (apply (pframe_num PW _ _ _ (wo_pB PW OKW T) E); cbn [wp_h PWd PWdec]; lia).
    unfold PtB1. do 3 f_equal. unfold core5c, core5. cbn [app lset].
    rewrite (hnum_none_neq _ _ _ E (hnum_class (wGP PW))). rewrite !append_eqb_l. cbn [String.eqb Ascii.eqb Bool.eqb andb].
    reflexivity.
  - lia.
Qed.
End B1End.
Print Assumptions sb_end_ok.
