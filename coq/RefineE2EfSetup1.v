(* Stage 5, set-up of execute_encrypt, FIRST step of the main thread: from the initial state of the whole program through the two
   constructors, the entry of execute_encrypt, prepare_IV (NAMED premise prepare_IV_enc_spec2: the big-step statement of
   RefineE2EfHashSpec.prepare_IV_enc_spec with the name conditions of RefineE2EfHashB3), Settings::get_ctype, the entry of prepare_AES
   and of buffergroup::get_instance, up to the lock of get_instance: the machine stops there in the explicit state cs1_enc. *)
From Coq Require Import ZArith NArith List String Bool Lia Ascii Arith.
From Wencry Require Import Bytes AesModel ModesModel HashModel FileModel FileProps PipeConc MiniC MiniCLemmas MiniCRun MiniCConc SrcRun SrcRun2 SrcRun5 PipeLemmas RefineE2EWhole.
From Wencry Require Import RefineSeqDefs RefineSeqA RefineSeqB.
From Wencry Require RefineSeq RefineAesLib.
From Wencry Require Import RefineE2EfLay RefineE2EfMach RefineE2EfMem RefineE2EfTac RefineE2EfWNames RefineE2EfWLay RefineE2EfWStream RefineE2EfWOk
     RefineE2EfTail RefineE2EfEncDefs RefineE2EfHashSpec RefineE2EfHashB3.
From Wencry.Gen Require Src_conc Src_whole.
Import ListNotations.
Local Open Scope list_scope.
Local Open Scope string_scope.

(* ---------------- the named premise about prepare_IV ---------------- *)
Definition prepare_IV_enc_spec2 : Prop :=
  forall (c hbuf T : nat) (P key seed : list N) (cm hm : N) (l : locs),
    enc_params c hbuf T P key seed cm hm ->
    forallb (fun b => (0 <? b)%N && (b <? 256)%N) seed = true -> (N.of_nat (List.length seed) < 2 ^ 32)%N ->
    (N.of_nat (64 * hbuf) < 2 ^ 32)%N ->
    let hdr := file_header cm hm (iv_chain seed T) T in
    let m1 := M1e c hbuf T key seed (Z.of_N cm) (Z.of_N hm) in
    exists (fuel h n : nat) (ivo : object) (extra : memory) (pextra : locs),
      call whole_prog [] fuel "runcrypt::prepare_IV/1" "rc." [VPtr "seed" 0]
           {| mem := m1; loc := l; pre := "rc."; files := FS0 P; ptrs := PS1; fresh := 1 |} =
      Ok (Some (VPtr (heap_name n) 0),
          {| mem := (m1 ++ extra)%list; loc := l; pre := "rc.";
             files := [("fin", stream P 0); ("fout", {| cf_data := map Z.of_N hdr; cf_pos := List.length hdr; cf_eof := false |})];
             ptrs := (PS1 ++ pextra)%list; fresh := h |}) /\
      (n < h)%nat /\ mget extra (heap_name n) = Some ivo /\ o_ty ivo = U8 /\ (16 <= List.length (o_cells ivo))%nat /\
      firstn 16 (o_cells ivo) = map Z.of_N (firstn 16 (iv_chain seed T)) /\
      ext_mem_ok h extra = true /\ ext_ptr_ok h pextra = true /\
      (forall k o, mget m1 k = Some o -> mget extra k = None) /\
      no_sizeof_names extra = true /\ no_alloc_keys pextra = true.

(* ---------------- the pieces of the code ---------------- *)
Definition s_snd (s : stmt) : stmt := match s with SSeq _ b => b | _ => SSkip end.
Definition s_fst (s : stmt) : stmt := match s with SSeq a _ => a | _ => SSkip end.
Definition s_then (s : stmt) : stmt := match s with SIf _ a _ => a | _ => SSkip end.

Definition ee_body : stmt := f_body Src_whole.f_runcrypt_execute_encrypt_2.
Definition pa_body : stmt := f_body Src_whole.f_runcrypt_prepare_AES_3.
Definition gi_body : stmt := f_body Src_conc.f_buffergroup_get_instance_0.
(* execute_encrypt after the call of prepare_AES; prepare_AES after the call of get_instance; get_instance after its lock *)
Definition ee_rest : stmt := s_snd (s_snd (s_snd (s_snd (s_snd ee_body)))).
Definition pa_rest : stmt := s_snd (s_snd pa_body).
Definition gi_rest : stmt := s_snd (s_then (s_fst gi_body)).
Definition gi_ret : stmt := s_snd gi_body.

Definition ee_locs1 (P : list N) (cm : N) (ivn : string) : locs :=
  [("fsize", VInt (Z.of_nat (List.length P))); ("r_buf", VPtr "seed" 0); ("$t2", VPtr ivn 0); ("iv", VPtr ivn 0); ("$t4", VInt (Z.of_N cm))].
Definition pa_locs1 (cm : N) (ivn : string) : locs := [("ctype", VInt (Z.of_N cm)); ("iv", VPtr ivn 0); ("cmode", VInt 1)].

(* the main thread at the lock of get_instance *)
Definition t1_enc (P : list N) (cm : N) (ivn : string) : cthread :=
  RefineE2EfLay.mk (SPrim None "lock" [EGlobal "mtx"])
    (KSeq gi_rest (KSeq gi_ret (KCall (Some "$t1") (pa_locs1 cm ivn) "rc."
      (KSeq pa_rest (KCall (Some "$t3") (ee_locs1 P cm ivn) "rc."
        (KSeq ee_rest (KCall (Some "result") [] "" KStop)))))))
    [] "rc." TRun.
Definition sh1_enc (c hbuf T : nat) (P key seed : list N) (cm hm : N) (h : nat) (extra : memory) (pextra : locs) : state :=
  let hdr := file_header cm hm (iv_chain seed T) T in
  {| mem := (M1e c hbuf T key seed (Z.of_N cm) (Z.of_N hm) ++ extra)%list; loc := []; pre := "";
     files := [("fin", stream P 0); ("fout", {| cf_data := map Z.of_N hdr; cf_pos := List.length hdr; cf_eof := false |})];
     ptrs := (PS1 ++ pextra)%list; fresh := h |}.
Definition cs1_enc (c hbuf T : nat) (P key seed : list N) (cm hm : N) (h n : nat) (extra : memory) (pextra : locs) : cstate :=
  C (sh1_enc c hbuf T P key seed cm hm h extra pextra) [t1_enc P cm (heap_name n)] [].

Lemma construct_wf : forall T cm hm, wf_ok whole_prog 40 (construct T cm hm true) = true.
Proof. intros. vm_compute. reflexivity. Qed.
Definition piv_call : stmt := SCall (Some "$t2") "runcrypt::prepare_IV/1" None [EVar "r_buf"].
Lemma piv_wf : wf_ok whole_prog 40 piv_call = true.
Proof. vm_compute. reflexivity. Qed.

Section First.
Variables (c hbuf T : nat) (P key seed : list N) (cm hm : N).
Hypothesis EP : enc_params c hbuf T P key seed cm hm.
Hypothesis Hseed : forallb (fun b => (0 <? b)%N && (b <? 256)%N) seed = true.
Hypothesis HseedL : (N.of_nat (List.length seed) < 2 ^ 32)%N.
Hypothesis Hh32 : (N.of_nat (64 * hbuf) < 2 ^ 32)%N.
Hypothesis PIV : prepare_IV_enc_spec2.

Local Instance LYS : Layout := wlayout (PWenc hbuf T P key seed cm hm 0 "" [] [] CBC_Enc).
Let cs0 := whole_init WEnc c hbuf T (Z.of_N cm) (Z.of_N hm) P key seed.

Lemma enc_first_exr : exists (h n : nat) (ivo : object) (extra : memory) (pextra : locs),
  (n < h)%nat /\ mget extra (heap_name n) = Some ivo /\ o_ty ivo = U8 /\ (16 <= List.length (o_cells ivo))%nat /\
  firstn 16 (o_cells ivo) = map Z.of_N (firstn 16 (iv_chain seed T)) /\
  ext_mem_ok h extra = true /\ ext_ptr_ok h pextra = true /\
  (forall k o, mget (M1e c hbuf T key seed (Z.of_N cm) (Z.of_N hm)) k = Some o -> mget extra k = None) /\
  no_sizeof_names extra = true /\ no_alloc_keys pextra = true /\
  exists F, cstep whole_prog [] F cs0 0 = Ok (cs1_enc c hbuf T P key seed cm hm h n extra pextra, []).
Proof.
  pose proof EP as [Hc Hh1 HT HP Hkey Hsd Hcm Hhm HsP HsT HsS].
  set (l2 := [("fsize", VInt (Z.of_nat (List.length P))); ("r_buf", VPtr "seed" 0)]).
  destruct (PIV c hbuf T P key seed cm hm l2 EP Hseed HseedL Hh32) as (fuel & h & n & ivo & extra & pextra & Hcall & Hn & Hivo & Hty & Hlen & Hiv & Hext & Hpext & Hdis & Hnsz & Hnal).
  exists h, n, ivo, extra, pextra.
  repeat (split; [assumption|]).
  set (s1 := S1e c hbuf T P key seed (Z.of_N cm) (Z.of_N hm)).
  pose proof (construct_enc_run c hbuf T P key seed cm hm Hcm Hhm) as Ecs.
  set (fsz := Z.of_nat (List.length P)).
  set (callee := SCall (Some "result") "runcrypt::execute_encrypt/2" (Some (EField "rc.")) [EConst fsz; EGlobal "seed"]).
  set (s0 := whole_state c hbuf T (Z.of_N cm) (Z.of_N hm) true P key seed) in *.
  destruct (RefineSeq.sim whole_prog [] _ _ _ _ _ _ (construct_wf T (Z.of_N cm) (Z.of_N hm)) Ecs (KSeq callee KStop) TRun ltac:(discriminate)) as [n0 MS0].
  set (hdr := file_header cm hm (iv_chain seed T) T) in *.
  set (ivn := heap_name n) in *.
  set (sA := {| mem := M1e c hbuf T key seed (Z.of_N cm) (Z.of_N hm); loc := l2; pre := "rc."; files := FS0 P; ptrs := PS1; fresh := 1 |}) in *.
  set (l3 := lset l2 "$t2" (VPtr ivn 0)).
  set (sB := {| mem := (M1e c hbuf T key seed (Z.of_N cm) (Z.of_N hm) ++ extra)%list; loc := l3; pre := "rc.";
                files := [("fin", stream P 0); ("fout", {| cf_data := map Z.of_N hdr; cf_pos := List.length hdr; cf_eof := false |})];
                ptrs := (PS1 ++ pextra)%list; fresh := h |}).
  assert (Eex : exec whole_prog [] (S fuel) piv_call sA = Ok (Normal, sB)).
  { unfold piv_call. eapply (RefineAesLib.x_call whole_prog [] fuel (Some "$t2") "runcrypt::prepare_IV/1" None [EVar "r_buf"] sA [VPtr "seed" 0] "rc.").
    - reflexivity.
    - reflexivity.
    - exact Hcall.
    - reflexivity. }
  set (Kee := KSeq (s_snd (s_snd ee_body)) (KCall (Some "result") [] "" KStop)).
  destruct (RefineSeq.sim whole_prog [] _ _ _ _ _ _ piv_wf Eex Kee TRun ltac:(discriminate)) as [nP MSP].
  set (t0 := RefineE2EfLay.mk (SSeq (construct T (Z.of_N cm) (Z.of_N hm) true) callee) KStop [] "" TRun).
  assert (HX : exists B, exr 0 B true t0 (C (shared_of s0) [t0] []) [] (cs1_enc c hbuf T P key seed cm hm h n extra pextra, [])).
  { exists (S (n0 + (5 + (nP + 60))))%nat.
    eapply r_none; [discriminate | left; reflexivity | apply m_seq | ].
    eapply (@leads_mstar LYS 0 _ _ _ _ _ [t0] [] [] MS0).
    cbn [cont_conf next_of loc pre S1e]. change (pre s0) with "".
    eapply r_none; [discriminate | right; reflexivity | | ].
    { eapply (m_call _ _ _ _ _ (Some "result") "runcrypt::execute_encrypt/2" (Some (EField "rc.")) [EConst fsz; EGlobal "seed"]
                [VInt fsz; VPtr "seed" 0] "rc." Src_whole.f_runcrypt_execute_encrypt_2 l2); reflexivity. }
    cbn [f_body Src_whole.f_runcrypt_execute_encrypt_2].
    eapply r_none; [discriminate | right; reflexivity | apply m_seq | ].
    eapply r_none; [discriminate | right; reflexivity | eapply m_if with (x := 0%Z); reflexivity | cbn [Z.eqb]].
    eapply r_none; [discriminate | right; reflexivity | apply m_skip | cbn [cont_conf next_of]].
    eapply r_none; [discriminate | right; reflexivity | apply m_seq | ].
    eapply (@leads_mstar LYS 0 _ _ _ _ _ [t0] [] [] MSP).
    cbv [Kee s_snd ee_body f_body Src_whole.f_runcrypt_execute_encrypt_2]. cbn [cont_conf next_of loc pre sA sB].
    eapply r_none; [discriminate | right; reflexivity | apply m_seq | ].
    eapply r_none; [discriminate | right; reflexivity | eapply m_set with (v := VPtr ivn 0); reflexivity | cbn [cont_conf next_of]].
    eapply r_none; [discriminate | right; reflexivity | apply m_seq | ].
    eapply r_none; [discriminate | right; reflexivity | | ].
    { eapply (m_call _ _ _ _ _ (Some "$t4") "Settings::get_ctype/0" (Some (EField "settings.")) [] [] "rc.settings." Src_whole.f_Settings_get_ctype_0 []); reflexivity. }
    cbn [f_body Src_whole.f_Settings_get_ctype_0].
    eapply r_none; [discriminate | right; reflexivity | | ].
    { eapply m_return with (v := VInt (Z.of_N cm)); [ | reflexivity | reflexivity].
      cbn [eval tst pre mem shared_of append bind].
      replace (mget (mem sB) "rc.settings.ctype") with (Some (RefineE2EfLay.cell I8 (Z.of_N cm))) by reflexivity.
      rewrite load_cell. cbn [bind].
      replace (wrap I8 (Z.of_N cm)) with (Z.of_N cm); [reflexivity|].
      unfold wrap. cbn [ity_bits ity_signed]. change (2 ^ 8)%Z with 256%Z. change (256 / 2)%Z with 128%Z. rewrite Z.mod_small by lia. lia. }
    cbn [loc with_loc tst set_ret lset].
    assert (Hw8 : wrap U8 (Z.of_N cm) = Z.of_N cm).
    { unfold wrap. cbn [ity_bits ity_signed]. change (2 ^ 8)%Z with 256%Z. rewrite Z.mod_small by lia. reflexivity. }
    eapply r_none; [discriminate | right; reflexivity | apply m_skip | cbn [cont_conf next_of]].
    eapply r_none; [discriminate | right; reflexivity | apply m_seq | ].
    eapply r_none; [discriminate | right; reflexivity | | ].
    { eapply (m_call _ _ _ _ _ (Some "$t3") "runcrypt::prepare_AES/3" None [ECast U8 (EVar "$t4"); EVar "iv"; EConst 1]
                [VInt (wrap U8 (Z.of_N cm)); VPtr ivn 0; VInt 1] "rc." Src_whole.f_runcrypt_prepare_AES_3
                [("ctype", VInt (wrap U8 (Z.of_N cm))); ("iv", VPtr ivn 0); ("cmode", VInt 1)]); reflexivity. }
    rewrite Hw8. cbn [f_body Src_whole.f_runcrypt_prepare_AES_3].
    eapply r_none; [discriminate | right; reflexivity | apply m_seq | ].
    eapply r_none; [discriminate | right; reflexivity | eapply m_if with (x := 0%Z); reflexivity | cbn [Z.eqb]].
    eapply r_none; [discriminate | right; reflexivity | apply m_skip | cbn [cont_conf next_of]].
    eapply r_none; [discriminate | right; reflexivity | apply m_seq | ].
    eapply r_none; [discriminate | right; reflexivity | | ].
    { eapply (m_call _ _ _ _ _ (Some "$t1") "buffergroup::get_instance/0" None [] [] "rc." Src_conc.f_buffergroup_get_instance_0 []); reflexivity. }
    cbn [f_body Src_conc.f_buffergroup_get_instance_0].
    eapply r_none; [discriminate | right; reflexivity | apply m_seq | ].
    eapply r_none; [discriminate | right; reflexivity | eapply m_if with (x := 1%Z); reflexivity | cbn [Z.eqb]].
    eapply r_none; [discriminate | right; reflexivity | apply m_seq | ].
    eapply r_stop; [discriminate | reflexivity | ].
    reflexivity. }
  destruct HX as [B HX].
  destruct (cstep_run B (shared_of s0) [t0] 0 t0 _ eq_refl eq_refl eq_refl HX) as (F & _ & HF).
  exists F. exact HF.
Qed.

Lemma enc_first_step : exists (h n : nat) (ivo : object) (extra : memory) (pextra : locs),
  (n < h)%nat /\ mget extra (heap_name n) = Some ivo /\ o_ty ivo = U8 /\ (16 <= List.length (o_cells ivo))%nat /\
  firstn 16 (o_cells ivo) = map Z.of_N (firstn 16 (iv_chain seed T)) /\
  ext_mem_ok h extra = true /\ ext_ptr_ok h pextra = true /\
  (forall k o, mget (M1e c hbuf T key seed (Z.of_N cm) (Z.of_N hm)) k = Some o -> mget extra k = None) /\
  no_sizeof_names extra = true /\ no_alloc_keys pextra = true /\
  let cs1 := cs1_enc c hbuf T P key seed cm hm h n extra pextra in
  enabled_list cs0 = [O] /\ enabled_list cs1 = [O] /\
  forall fuel, cstep whole_prog [] fuel cs0 0 = NoFuel \/ cstep whole_prog [] fuel cs0 0 = Ok (cs1, []).
Proof.
  destruct enc_first_exr as (h & n & ivo & extra & pextra & H1 & H2 & H3 & H4 & H5 & H6 & H7 & H8 & H9 & H10 & F & HF).
  exists h, n, ivo, extra, pextra. repeat (split; [assumption|]). cbv zeta.
  split; [reflexivity|]. split; [reflexivity|].
  intros fuel. exact (@cstep_total LYS F cs0 0 _ HF fuel).
Qed.
End First.

Check enc_first_step.
Print Assumptions enc_first_step.
