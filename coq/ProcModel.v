(* L5: process-wide state that survives between operations in one process image
   (kernel/multi_aes/multi_buffergroup.cpp: static bufferctrl::live_num and the buffergroup
   singleton; valget/getopts.cpp: the getopt scanner and the global default-output name), and the
   three operations as state transformers.  The pipeline itself is PipeConc/FileModel; here only
   what it leaves behind matters. *)
From Wencry Require Import Bytes FileModel.
From Wencry.Gen Require Import Opts.
Local Open Scope N_scope.

Record proc := {
  p_live : N;            (* bufferctrl::live_num, u8 *)
  p_instance : bool;     (* buffergroup::instance != NULL *)
  p_scanner : bool;      (* glibc getopt has leftover state from an earlier parse (cluster position, permutation bounds) *)
  p_fout : bool }.       (* fout[] holds a name from an earlier parse *)
Definition proc0 : proc := {| p_live := 0; p_instance := false; p_scanner := false; p_fout := false |}.

(* one pipeline run with T buffers: set_buffergroup constructs T bufferctrl objects (live_num++ each);
   the I/O loop ends when live_num reaches 0 after every buffer became INV (live_num-- each, C04);
   del_instance afterwards.  With a non-zero leftover the counter never reaches 0: turn_iter spins
   over INV buffers for ever. *)
Definition run_pipeline (p : proc) (T : N) : option proc :=
  let start := (p_live p + T) mod 256 in
  let at_end := (start + 256 - T mod 256) mod 256 in       (* T decrements *)
  if at_end =? 0 then Some {| p_live := 0; p_instance := false; p_scanner := p_scanner p; p_fout := p_fout p |}
  else None.

Inductive op :=
| OpEncrypt (T : N)                 (* execute_encrypt: always runs the pipeline *)
| OpDecrypt (T : N) (accepted : bool) (* execute_decrypt: pipeline only if verify() = 0 *)
| OpVerify                          (* execute_verify: never runs the pipeline *)
| OpParse (aborted_in_cluster : bool). (* get_v_opt on some argv; may stop inside a clustered option *)

(* result of an operation as far as the process state can influence it:
   Some true = behaves as in a fresh process, Some false = influenced by history, None = hangs *)
Definition step_op (p : proc) (o : op) : proc * option bool :=
  match o with
  | OpEncrypt T | OpDecrypt T true =>
      match run_pipeline p T with
      | Some p' => (p', Some true)
      | None => (p, None)
      end
  | OpDecrypt _ false | OpVerify => (p, Some true)
  | OpParse aborted =>
      (* get_v_opt: memset(fout), optind = optind_reset; glibc reinitialises its scanner iff optind = 0 *)
      let stale := p_scanner p && negb (optind_reset =? 0) in
      ({| p_live := p_live p; p_instance := p_instance p; p_scanner := negb (optind_reset =? 0) && (stale || aborted) || (optind_reset =? 0) && false;
          p_fout := false |},
       Some (negb stale))
  end.

Definition observably_fresh (p : proc) : Prop :=
  p_live p = 0 /\ p_instance p = false /\ (p_scanner p = true -> optind_reset = 0).

Fixpoint run_history (p : proc) (h : list op) : proc :=
  match h with [] => p | o :: r => run_history (fst (step_op p o)) r end.
