(* parseOpts on each option record *)
From Coq Require Import ZArith NArith List String Bool Lia.
From Wencry Require Import Bytes CliModel MiniC MiniCRun MiniCLemmas SrcRun SrcRun3 CliConc RefineB64Lib RefineCliSim RefineCliLib RefineCliTac RefineCliKey.
From Wencry.Gen Require Src_cli Src_base64.
Import ListNotations.
Local Open Scope string_scope.
Local Open Scope list_scope.
Local Open Scope Z_scope.
Local Arguments heap_name : simpl never.

Definition po_body : stmt := f_body Src_cli.f_parseOpts_2.
Definition po_loc (code : Z) : list (string * value) := [("c", VInt code); ("res", VPtr "#0" 0)].

Lemma wrap_I8_small : forall z, -128 <= z < 128 -> wrap I8 z = z.
Proof. intros z H. unfold wrap. cbn [ity_bits ity_signed]. change (2 ^ 8) with 256. change (256 / 2) with 128. rewrite Z.mod_small by lia. lia. Qed.

(* -e -d -v -V -h *)
Lemma po_mode : forall code m fs ps fr md ct ht ne,
  In code [101; 100; 118; 86; 104] ->
  mget m "#0" = Some (res_obj md ct ht ne) -> 0 <= md < 128 ->
  exists l',
  exec cli_prog [] 40 po_body (mk m (po_loc code) fs ps fr) =
  if md =? 117 then Ok (Returned (Some (VInt 1)), mk (mset m "#0" (res_obj code ct ht ne)) l' fs ps fr)
  else Ok (Returned (Some (VInt 0)), mk m l' fs ps fr).
Proof.
  intros code m fs ps fr md ct ht ne Hc Hres Hmd.
  unfold po_body. cbn [f_body Src_cli.f_parseOpts_2]. unfold mk, po_loc.
  pose proof (wrap_I8_small md ltac:(lia)) as W8. pose proof (wrap_I32_small md ltac:(lia)) as W32.
  cbn [In] in Hc.
  destruct (md =? 117) eqn:E.
  - destruct Hc as [<-|[<-|[<-|[<-|[<-|[]]]]]]; eexists.
    all: xrun ltac:(first [rewrite Hres | rewrite res_load_mode | rewrite res_store_mode | rewrite W8 | rewrite W32 | rewrite E]).
  - destruct Hc as [<-|[<-|[<-|[<-|[<-|[]]]]]]; eexists.
    all: xrun ltac:(first [rewrite Hres | rewrite res_load_mode | rewrite res_store_mode | rewrite W8 | rewrite W32 | rewrite E]).
Qed.

Definition pps (oa fpv outv keyv : value) (pe : list (string * value)) : list (string * value) :=
  [("optarg", oa); ("#0", fpv); ("#0@8", outv); ("#0@16", keyv)] ++ pe.

(* closeFiles(res): fclose is dropped by the translator, the state is unchanged *)
Lemma closeFiles_ok : forall m fs oa fpv outv keyv pe fr,
  pv fpv -> pv outv ->
  exec cli_prog [] 10 (f_body Src_cli.f_closeFiles_1) (mk m [("res", VPtr "#0" 0)] fs (pps oa fpv outv keyv pe) fr) =
  Ok (Normal, mk m [("res", VPtr "#0" 0)] fs (pps oa fpv outv keyv pe) fr).
Proof.
  intros m fs oa fpv outv keyv pe fr Hf Ho. cbn [f_body Src_cli.f_closeFiles_1]. unfold mk, pps.
  destruct fpv as [z|nf of|]; [contradiction| |]; (destruct outv as [z|no oo|]; [contradiction| |]); xrun fail.
Qed.
Lemma closeFiles_call : forall fuel m l fs oa fpv outv keyv pe fr,
  lget l "res" = Some (VPtr "#0" 0) -> (11 <= fuel)%nat -> pv fpv -> pv outv ->
  exec cli_prog [] fuel (SCall None "closeFiles/1" None [EVar "res"]) (mk m l fs (pps oa fpv outv keyv pe) fr) =
  Ok (Normal, mk m l fs (pps oa fpv outv keyv pe) fr).
Proof.
  intros fuel m l fs oa fpv outv keyv pe fr Hl Hf Hpf Hpo.
  destruct fuel as [|fuel]; [lia|].
  eapply x_call.
  - cbn [eval_list eval loc mk]. rewrite Hl. reflexivity.
  - reflexivity.
  - reflexivity.
  - eapply exec_mono; [apply closeFiles_ok; assumption|lia].
  - reflexivity.
Qed.

Ltac neq := first [ discriminate | (let HH := fresh in intro HH; discriminate HH) | assumption | (apply not_eq_sym; assumption)
                  | apply argname_not_heap | (apply not_eq_sym; apply argname_not_heap)
                  | (apply heap_ne0; lia) | (apply not_eq_sym; apply heap_ne0; lia) | (apply heap_ne; lia) ].
Ltac mgo := repeat first [rewrite mget_mset_same | rewrite mget_mset_other by neq].

(* -n *)
Lemma po_n : forall m fs ps fr md ct ht ne,
  mget m "#0" = Some (res_obj md ct ht ne) ->
  exists l', exec cli_prog [] 40 po_body (mk m (po_loc 110) fs ps fr) =
  Ok (Returned (Some (VInt 1)), mk (mset m "#0" (res_obj md ct ht 1)) l' fs ps fr).
Proof.
  intros m fs ps fr md ct ht ne Hres.
  unfold po_body. cbn [f_body Src_cli.f_parseOpts_2]. unfold mk, po_loc. eexists.
  xrun ltac:(first [rewrite Hres | rewrite res_store_ne]).
Qed.

(* '?' *)
Lemma po_other : forall m fs ps fr,
  exists l', exec cli_prog [] 40 po_body (mk m (po_loc 63) fs ps fr) = Ok (Returned (Some (VInt 0)), mk m l' fs ps fr).
Proof.
  intros m fs ps fr.
  unfold po_body. cbn [f_body Src_cli.f_parseOpts_2]. unfold mk, po_loc. eexists.
  xrun fail.
Qed.

(* -o *)
Lemma po_o : forall m D gp F fp oa fpv outv keyv pe fr fdone (b : bool) ftodo,
  F = fdone ++ b2z b :: ftodo -> fp = List.length fdone -> pv outv ->
  exists l', exec cli_prog [] 40 po_body (mk m (po_loc 111) (gfiles D gp F fp) (pps oa fpv outv keyv pe) fr) =
  if b then Ok (Returned (Some (VInt 1)), mk m l' (gfiles D gp F (S fp)) (pps oa fpv (VPtr (streamname fp) 0) keyv pe) fr)
  else Ok (Returned (Some (VInt 0)), mk m l' (gfiles D gp F (S fp)) (pps oa fpv VNull keyv pe) fr).
Proof.
  intros m D gp F fp oa fpv outv keyv pe fr fdone b ftodo HF Hfp Hpo.
  unfold po_body. cbn [f_body Src_cli.f_parseOpts_2]. unfold mk, po_loc, pps.
  destruct b; cbn [b2z] in HF; eexists.
  - xrun fail. { xprim prim_fopen_ok. } all: xrun fail. all: xrun fail. all: xrun fail.
  - xrun fail. { xprim prim_fopen_null. } all: xrun fail. all: xrun fail. all: xrun fail.
Qed.

Lemma store_tbool : forall x v, store_obj {| o_ty := TBool; o_cells := [x] |} TBool 0 v = Ok {| o_ty := TBool; o_cells := [wrap TBool v] |}.
Proof. intros. reflexivity. Qed.

(* -i *)
Lemma po_i : forall m D gp F fp a fpv outv keyv pe fr fdone (b : bool) ftodo md ct ht ne text fc x,
  F = fdone ++ b2z b :: ftodo -> fp = List.length fdone ->
  mget m "#0" = Some (res_obj md ct ht ne) ->
  mget m a = Some (txt_obj text) -> Forall (fun c => c <> 0) text ->
  mget m "fout" = Some {| o_ty := U8; o_cells := fc |} -> List.length fc = 128%nat ->
  mget m "fout_too_long" = Some {| o_ty := TBool; o_cells := [x] |} ->
  a <> "fout" -> a <> "fout_too_long" -> a <> "#0" ->
  Z.of_nat (List.length text) < 2 ^ 30 -> pv fpv ->
  exists l' fc', List.length fc' = 128%nat /\
  let m1 := mset (mset m "fout" {| o_ty := U8; o_cells := fc' |}) "fout_too_long"
                 {| o_ty := TBool; o_cells := [if 128 <=? Z.of_nat (List.length text) + 5 then 1 else 0] |} in
  exec cli_prog [] 40 po_body (mk m (po_loc 105) (gfiles D gp F fp) (pps (VPtr a 0) fpv outv keyv pe) fr) =
  if b then Ok (Returned (Some (VInt 1)), mk (mset m1 "#0" (res_obj md ct ht ne)) l' (gfiles D gp F (S fp)) (pps (VPtr a 0) (VPtr (streamname fp) 0) outv keyv pe) fr)
  else Ok (Returned (Some (VInt 0)), mk m1 l' (gfiles D gp F (S fp)) (pps (VPtr a 0) VNull outv keyv pe) fr).
Proof.
  intros m D gp F fp a fpv outv keyv pe fr fdone b ftodo md ct ht ne text fc x HF Hfp Hres Ha Hnz Hfo Hfl Hftl N1 N2 N3 Hlen Hpf.
  unfold po_body. cbn [f_body Src_cli.f_parseOpts_2]. unfold mk, po_loc, pps.
  assert (Hsn : forall l ps0 fp0, exists fc', List.length fc' = 128%nat /\
     do_prim {| mem := m; loc := l; pre := ""; files := gfiles D gp F fp0; ptrs := ps0; fresh := fr |} "snprintf" [VPtr "fout" 0; VInt 128; VPtr a 0] =
     Ok (Some (VInt (Z.of_nat (List.length text) + 5)),
         {| mem := mset m "fout" {| o_ty := U8; o_cells := fc' |}; loc := l; pre := ""; files := gfiles D gp F fp0; ptrs := ps0; fresh := fr |})).
  { intros l ps0 fp0.
    destruct (prim_snprintf {| mem := m; loc := l; pre := ""; files := gfiles D gp F fp0; ptrs := ps0; fresh := fr |} a text fc Ha Hnz Hfo Hfl) as (fc' & L & E).
    exists fc'. split; [exact L|exact E]. }
  assert (W : wrap I32 (Z.of_nat (List.length text) + 5) = Z.of_nat (List.length text) + 5) by (apply wrap_I32_small; lia).
  assert (WB : forall c : bool, wrap TBool (if c then 1 else 0) = if c then 1 else 0) by (intros [|]; reflexivity).
  destruct b; cbn [b2z] in HF.
  - destruct (Hsn [("c", VInt 105); ("res", VPtr "#0" 0); ("fsize", VInt 0); ("$t1", VInt 105); ("$t2", VPtr (streamname fp) 0)]
                  (("optarg", VPtr a 0) :: ("#0", VPtr (streamname fp) 0) :: ("#0@8", outv) :: ("#0@16", keyv) :: pe) (S fp)) as (fc' & L & E).
    eexists. exists fc'. split; [exact L|]. cbv zeta.
    xrun fail. { xprim prim_fopen_ok. } all: xrun fail.
    { eapply x_prim; [evr2 fail; reflexivity | exact E | stn]. }
    all: xrun ltac:(first [rewrite Hftl | rewrite store_tbool | rewrite W | rewrite WB | rewrite mget_mset_other by neq | rewrite Hres | rewrite res_store_size]).
    { eapply x_prim; [evr2 fail; reflexivity | reflexivity | stn]. }
    all: xrun ltac:(first [rewrite Hftl | rewrite store_tbool | rewrite W | rewrite WB | rewrite mget_mset_other by neq | rewrite Hres | rewrite res_store_size]).
    all: xrun ltac:(first [rewrite Hftl | rewrite store_tbool | rewrite W | rewrite WB | rewrite mget_mset_other by neq | rewrite Hres | rewrite res_store_size]).
    all: xrun ltac:(first [rewrite Hftl | rewrite store_tbool | rewrite W | rewrite WB | rewrite mget_mset_other by neq | rewrite Hres | rewrite res_store_size]).
  - destruct (Hsn [("c", VInt 105); ("res", VPtr "#0" 0); ("fsize", VInt 0); ("$t1", VInt 105); ("$t2", VNull)]
                  (("optarg", VPtr a 0) :: ("#0", VNull) :: ("#0@8", outv) :: ("#0@16", keyv) :: pe) (S fp)) as (fc' & L & E).
    eexists. exists fc'. split; [exact L|]. cbv zeta.
    xrun fail. { xprim prim_fopen_null. } all: xrun fail.
    { eapply x_prim; [evr2 fail; reflexivity | exact E | stn]. }
    all: xrun ltac:(first [rewrite Hftl | rewrite store_tbool | rewrite W | rewrite WB | rewrite mget_mset_other by neq | rewrite Hres | rewrite res_store_size]).
    { eapply x_prim; [evr2 fail; reflexivity | reflexivity | stn]. }
    all: xrun ltac:(first [rewrite Hftl | rewrite store_tbool | rewrite W | rewrite WB | rewrite mget_mset_other by neq | rewrite Hres | rewrite res_store_size]).
    all: xrun ltac:(first [rewrite Hftl | rewrite store_tbool | rewrite W | rewrite WB | rewrite mget_mset_other by neq | rewrite Hres | rewrite res_store_size]).
    all: xrun ltac:(first [rewrite Hftl | rewrite store_tbool | rewrite W | rewrite WB | rewrite mget_mset_other by neq | rewrite Hres | rewrite res_store_size]).
Qed.

(* parseModeNumber on a decimal text *)
Definition pmn_res (n : Z) : Z := if (n <? 0) || (127 <? n) then -1 else n.
Lemma pmn_ok : forall m a fs oa fpv outv keyv pe fr n,
  - 2 ^ 31 < n < 2 ^ 31 ->
  mget m a = Some {| o_ty := U8; o_cells := dcells n ++ [0] |} ->
  exists l' pe',
  exec cli_prog [] 30 (f_body Src_cli.f_parseModeNumber_1) (mk m [("arg", VPtr a 0)] fs (pps oa fpv outv keyv pe) fr) =
  Ok (Returned (Some (VInt (pmn_res n))), mk m l' fs (pps oa fpv outv keyv pe') fr).
Proof.
  intros m a fs oa fpv outv keyv pe fr n Hn Ha.
  cbn [f_body Src_cli.f_parseModeNumber_1]. unfold mk, pps.
  set (ps1 := [("optarg", oa); ("#0", fpv); ("#0@8", outv); ("#0@16", keyv)] ++ lset pe "%end" VNull).
  set (s1 := {| mem := m; loc := [("arg", VPtr a 0)]; pre := ""; files := fs; ptrs := ps1; fresh := fr |}).
  destruct (prim_strtol s1 a n Hn Ha) as [Hst Hlen].
  set (len := Z.of_nat (List.length (dcells n))) in *.
  assert (Hl0 : (len =? 0) = false) by (apply Z.eqb_neq; lia).
  assert (W : wrap I32 n = n) by (apply wrap_I32_small; lia).
  pose proof (load_nul (dcells n)) as LN. fold len in LN.
  eexists. eexists.
  xrun fail.
  { eapply x_prim; [evr2 fail; reflexivity | exact Hst | stn]. }
  unfold pmn_res.
  destruct (n <? 0) eqn:E1; [|destruct (127 <? n) eqn:E2]; cbn [orb].
  all: xrun ltac:(first [rewrite lget_lset_same | rewrite String.eqb_refl | rewrite Hl0 | rewrite Ha | rewrite LN | rewrite E1 | rewrite E2 | rewrite W]).
  all: xrun ltac:(first [rewrite lget_lset_same | rewrite String.eqb_refl | rewrite Hl0 | rewrite Ha | rewrite LN | rewrite E1 | rewrite E2 | rewrite W]).
  all: xrun ltac:(first [rewrite lget_lset_same | rewrite String.eqb_refl | rewrite Hl0 | rewrite Ha | rewrite LN | rewrite E1 | rewrite E2 | rewrite W]).
Qed.

Lemma wrap_U8_I8_small : forall n, 0 <= n <= 127 -> wrap U8 (wrap I8 n) = n.
Proof. intros n H. rewrite wrap_I8_small by lia. apply wrap_U8_small. lia. Qed.

(* --cmode / --hmode *)
Lemma po_cmode : forall m a fs fpv outv keyv pe fr md ct ht ne n,
  - 2 ^ 31 < n < 2 ^ 31 ->
  mget m "#0" = Some (res_obj md ct ht ne) -> -1 <= wrap I8 ct < 128 ->
  mget m a = Some {| o_ty := U8; o_cells := dcells n ++ [0] |} ->
  exists l' pe',
  exec cli_prog [] 40 po_body (mk m (po_loc 1) fs (pps (VPtr a 0) fpv outv keyv pe) fr) =
  if (wrap I8 ct =? -1) && negb ((n <? 0) || (127 <? n))
  then Ok (Returned (Some (VInt 1)), mk (mset m "#0" (res_obj md n ht ne)) l' fs (pps (VPtr a 0) fpv outv keyv pe') fr)
  else Ok (Returned (Some (VInt 0)), mk m l' fs (pps (VPtr a 0) fpv outv keyv pe') fr).
Proof.
  intros m a fs fpv outv keyv pe fr md ct ht ne n Hn Hres Hct Ha.
  unfold po_body. cbn [f_body Src_cli.f_parseOpts_2].
  pose proof (wrap_I32_small (wrap I8 ct) ltac:(lia)) as W32.
  destruct (wrap I8 ct =? -1) eqn:E; cbn [andb].
  - destruct (pmn_ok m a fs (VPtr a 0) fpv outv keyv pe fr n Hn Ha) as (l1 & pe' & Hp).
    unfold pmn_res in Hp. unfold mk, po_loc, pps in *.
    destruct ((n <? 0) || (127 <? n)) eqn:E2; cbn [negb].
    + eexists. exists pe'.
      xrun ltac:(first [rewrite Hres | rewrite res_load_ctype | rewrite W32 | rewrite E]).
      { eapply x_call; [evr2 fail; reflexivity | reflexivity | reflexivity | exact Hp | stn]. }
      all: xrun fail. all: xrun fail. all: xrun fail.
    + apply orb_false_iff in E2. destruct E2 as [E2 E3].
      assert (Hr : 0 <= n <= 127) by lia.
      pose proof (wrap_U8_I8_small n Hr) as WS.
      eexists. exists pe'.
      xrun ltac:(first [rewrite Hres | rewrite res_load_ctype | rewrite W32 | rewrite E]).
      { eapply x_call; [evr2 fail; reflexivity | reflexivity | reflexivity | exact Hp | stn]. }
      all: xrun ltac:(first [rewrite E2 | rewrite E3 | rewrite Hres | rewrite res_store_ctype | rewrite WS]).
      all: xrun ltac:(first [rewrite E2 | rewrite E3 | rewrite Hres | rewrite res_store_ctype | rewrite WS]).
      all: xrun ltac:(first [rewrite E2 | rewrite E3 | rewrite Hres | rewrite res_store_ctype | rewrite WS]).
  - unfold mk, po_loc, pps. eexists. exists pe.
    xrun ltac:(first [rewrite Hres | rewrite res_load_ctype | rewrite W32 | rewrite E]).
Qed.

Lemma po_hmode : forall m a fs fpv outv keyv pe fr md ct ht ne n,
  - 2 ^ 31 < n < 2 ^ 31 ->
  mget m "#0" = Some (res_obj md ct ht ne) -> -1 <= wrap I8 ht < 128 ->
  mget m a = Some {| o_ty := U8; o_cells := dcells n ++ [0] |} ->
  exists l' pe',
  exec cli_prog [] 40 po_body (mk m (po_loc 2) fs (pps (VPtr a 0) fpv outv keyv pe) fr) =
  if (wrap I8 ht =? -1) && negb ((n <? 0) || (127 <? n))
  then Ok (Returned (Some (VInt 1)), mk (mset m "#0" (res_obj md ct n ne)) l' fs (pps (VPtr a 0) fpv outv keyv pe') fr)
  else Ok (Returned (Some (VInt 0)), mk m l' fs (pps (VPtr a 0) fpv outv keyv pe') fr).
Proof.
  intros m a fs fpv outv keyv pe fr md ct ht ne n Hn Hres Hct Ha.
  unfold po_body. cbn [f_body Src_cli.f_parseOpts_2].
  pose proof (wrap_I32_small (wrap I8 ht) ltac:(lia)) as W32.
  destruct (wrap I8 ht =? -1) eqn:E; cbn [andb].
  - destruct (pmn_ok m a fs (VPtr a 0) fpv outv keyv pe fr n Hn Ha) as (l1 & pe' & Hp).
    unfold pmn_res in Hp. unfold mk, po_loc, pps in *.
    destruct ((n <? 0) || (127 <? n)) eqn:E2; cbn [negb].
    + eexists. exists pe'.
      xrun ltac:(first [rewrite Hres | rewrite res_load_htype | rewrite W32 | rewrite E]).
      { eapply x_call; [evr2 fail; reflexivity | reflexivity | reflexivity | exact Hp | stn]. }
      all: xrun fail. all: xrun fail. all: xrun fail.
    + apply orb_false_iff in E2. destruct E2 as [E2 E3].
      assert (Hr : 0 <= n <= 127) by lia.
      pose proof (wrap_U8_I8_small n Hr) as WS.
      eexists. exists pe'.
      xrun ltac:(first [rewrite Hres | rewrite res_load_htype | rewrite W32 | rewrite E]).
      { eapply x_call; [evr2 fail; reflexivity | reflexivity | reflexivity | exact Hp | stn]. }
      all: xrun ltac:(first [rewrite E2 | rewrite E3 | rewrite Hres | rewrite res_store_htype | rewrite WS]).
      all: xrun ltac:(first [rewrite E2 | rewrite E3 | rewrite Hres | rewrite res_store_htype | rewrite WS]).
      all: xrun ltac:(first [rewrite E2 | rewrite E3 | rewrite Hres | rewrite res_store_htype | rewrite WS]).
  - unfold mk, po_loc, pps. eexists. exists pe.
    xrun ltac:(first [rewrite Hres | rewrite res_load_htype | rewrite W32 | rewrite E]).
Qed.
