(* Stage 5: the layout of the whole program satisfies LayoutOk (given the conditions on the frames and the description of
   what follows run_multicry); hence the generic results of RefineE2EfGen / RefineE2EfRun hold for it. *)
From Coq Require Import ZArith NArith List String Bool Lia Ascii Arith.
From Wencry Require Import Bytes AesModel ModesModel FileModel PipeConc MiniC MiniCLemmas MiniCRun MiniCConc SrcRun SrcRun2 SrcRun5 PipeLemmas.
From Wencry Require Import RefineE2EfLay RefineE2EfMach RefineE2EfMem RefineE2EfWNames RefineE2EfWLay RefineE2EfWStream.
Import ListNotations.
Local Open Scope list_scope.
Local Open Scope string_scope.

Record wdone_ok (P : wpar) : Prop := {
  wd_st : forall T pad, ct_st (wp_tdone P T pad) = TRun;
  wd_sp : forall T pad, is_sched_point (ct_cur (wp_tdone P T pad)) = true;
  wd_leads : forall c T pad input0 d thr evs R,
    R = (put 0 (wp_tdone P T pad) (C (@sh_of (wlayout P) c T pad input0 d) thr []), evs) ->
    exists B, @exr (wlayout P) 0 B false (RefineE2EfLay.mk SSkip (wp_kb P T pad) (wp_blocs P T pad) (wp_bpre P) TRun)
                   (C (@sh_of (wlayout P) c T pad input0 d) thr []) evs R }.

Lemma wlayout_ok : forall P, wpar_ok P -> wdone_ok P -> @LayoutOk (wlayout P).
Proof.
  intros P OK DK. constructor.
  - exact conc_in_whole.
  - intros T. apply repeat_length.
  - apply (wo_out0 P OK).
  - apply (w_mget_sum P OK).
  - apply (w_mget_live P OK).
  - apply (w_mget_threads P OK).
  - apply (w_mget_turn P OK).
  - apply (w_mget_size P OK).
  - apply (w_mget_pad P OK).
  - apply (w_mget_over P OK).
  - apply (w_mget_b P OK).
  - apply (w_mget_tot P OK).
  - apply (w_mget_now P OK).
  - apply (w_mget_tail P OK).
  - apply (w_mget_fin P OK).
  - apply (w_mget_st P OK).
  - apply (w_mem_out P).
  - apply (w_mem_fin P).
  - apply (w_mset_live P OK).
  - apply (w_mset_turn P OK).
  - apply (w_mset_over P OK).
  - apply (w_mset_b P OK).
  - apply (w_mset_tot P OK).
  - apply (w_mset_now P OK).
  - apply (w_mset_tail P OK).
  - apply (w_mset_fin P OK).
  - apply (w_mset_st P OK).
  - apply (w_lget_instance P OK).
  - apply (w_lget_buflst P OK).
  - apply (w_lget_ctrl P OK).
  - apply (w_lget_fin P OK).
  - apply (w_lget_fout P OK).
  - apply (w_lget_thread_cell P OK).
  - apply (wd_st P DK).
  - apply (wd_sp P DK).
  - reflexivity.
  - intros c T pad input0 d thr evs R HR. apply (wd_leads P DK). cbn [ev_done wlayout] in HR. rewrite app_nil_r in HR. exact HR.
  - apply (w_stream_call P OK).
Qed.
