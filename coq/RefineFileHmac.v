(* hmac::getres / gethmac / cmphmac (fheader.cpp) as translated into MiniC refine HashModel.hmac_model / cmphmac. *)
From Coq Require Import ZArith NArith List String Bool Lia PeanoNat.
From Wencry Require Import Bytes HashModel HashProofs ModesProofs MiniC MiniCRun MiniCLemmas SrcRun SrcRun2 RefineHashDefs RefineHashDriver RefineFileBase.
From Wencry.Gen Require Layout Src_sha256 Src_sha1 Src_md5 Src_hashmaster Src_hashbuffer Src_hashfactory Src_fheader Src_cry.
Import ListNotations.
Local Open Scope list_scope.
Local Open Scope string_scope.
Local Open Scope Z_scope.

(* ------------------------------------------------------------------------------------ *)
(** * 1. Byte loads and stores, locals                                                   *)
(* ------------------------------------------------------------------------------------ *)
Lemma load_u8 : forall cells off, 0 <= off < Z.of_nat (List.length cells) ->
  load_obj {| o_ty := U8; o_cells := cells |} U8 off = Ok (wrap U8 (nth (Z.to_nat off) cells 0)).
Proof.
  intros cells off Ho. unfold load_obj. cbn [o_ty o_cells]. change (ity_bytes U8) with 1.
  destruct (off <? 0) eqn:E1; [apply Z.ltb_lt in E1; lia|].
  change (1 =? 1) with true. cbv iota. rewrite Z.mod_1_r, Z.div_1_r. change (0 =? 0) with true. cbv iota.
  destruct (off <? Z.of_nat (List.length cells)) eqn:E2; [reflexivity|apply Z.ltb_ge in E2; lia].
Qed.
Lemma store_u8 : forall cells off v, 0 <= off < Z.of_nat (List.length cells) ->
  store_obj {| o_ty := U8; o_cells := cells |} U8 off v = Ok {| o_ty := U8; o_cells := upd_nth (Z.to_nat off) (wrap U8 v) cells |}.
Proof.
  intros cells off v Ho. unfold store_obj. cbn [o_ty o_cells]. change (ity_bytes U8) with 1.
  destruct (off <? 0) eqn:E1; [apply Z.ltb_lt in E1; lia|].
  change (1 =? 1) with true. cbv iota. rewrite Z.mod_1_r, Z.div_1_r. change (0 =? 0) with true. cbv iota.
  destruct (off <? Z.of_nat (List.length cells)) eqn:E2; [reflexivity|apply Z.ltb_ge in E2; lia].
Qed.

Lemma lset_lset : forall A (l : list (string * A)) k v v', lset (lset l k v) k v' = lset l k v'.
Proof.
  induction l as [|[k0 v0] r IH]; intros k v v'; cbn [lset].
  - rewrite String.eqb_refl. reflexivity.
  - destruct (String.eqb k k0) eqn:E; cbn [lset]; rewrite ?String.eqb_refl, ?E; [reflexivity|]. rewrite IH. reflexivity.
Qed.

Lemma firstn_S_nth : forall (A : list Z) k d, (k < List.length A)%nat -> firstn (S k) A = (firstn k A ++ [nth k A d])%list.
Proof.
  induction A as [|x A IH]; intros k d Hk; cbn [List.length] in Hk; [lia|].
  destruct k as [|k]; [reflexivity|]. cbn [firstn nth app]. rewrite <- (IH k d) by lia. reflexivity.
Qed.

Lemma upd_nth_step : forall (A dc : list Z) k, (k < List.length A)%nat -> (k < List.length dc)%nat ->
  upd_nth k (nth k A 0) (firstn k A ++ skipn k dc)%list = (firstn (S k) A ++ skipn (S k) dc)%list.
Proof.
  intros A dc k Ha Hd.
  assert (Hl : List.length (firstn k A) = k) by (apply firstn_length_le; lia).
  change (upd_nth k (nth k A 0) (firstn k A ++ skipn k dc)%list) with (upd_range k [nth k A 0] (firstn k A ++ skipn k dc)%list).
  rewrite <- Hl at 1. rewrite upd_range_app by (rewrite skipn_length; cbn; lia).
  cbn [List.length]. rewrite <- (skipn_add 1 k dc). cbn [Nat.add].
  rewrite (firstn_S_nth A k 0 Ha) at 1. rewrite <- app_assoc. reflexivity.
Qed.

(* ------------------------------------------------------------------------------------ *)
(** * 2. The two xor loops of getres: d[i] = key1[i] ^ pad for i < block                  *)
(* ------------------------------------------------------------------------------------ *)
Lemma bytesb_nth : forall (bs : list N) i, bytesb bs = true -> (nth i bs 0 < 256)%N.
Proof.
  unfold bytesb. induction bs as [|b bs IH]; intros i Hb; [destruct i; cbn; lia|].
  cbn [forallb] in Hb. apply andb_true_iff in Hb. destruct Hb as [Hb1 Hb2].
  destruct i as [|i]; cbn [nth]; [|apply IH, Hb2]. unfold byte_ok in Hb1. apply N.ltb_lt in Hb1. exact Hb1.
Qed.

Section XorLoop.
Variable prog : program.
Variable vt : list (string * string).
Variables ivar dvar gname k1n dn : string.
Variable g : N.
Variable kb : list N.
Variable l : list (string * value).
Variable p : string.
Variable fs : list (string * cfile).
Variable ps : list (string * value).
Variable fr : nat.
Variable dc : list Z.
Hypothesis Hi1 : ivar <> "block".
Hypothesis Hi2 : ivar <> "key1".
Hypothesis Hi3 : ivar <> dvar.
Hypothesis Hlb : lget l "block" = Some (VInt 64).
Hypothesis Hlk : lget l "key1" = Some (VPtr k1n 0).
Hypothesis Hld : lget l dvar = Some (VPtr dn 0).
Hypothesis Hkb : List.length kb = 64%nat.
Hypothesis Hkbb : bytesb kb = true.
Hypothesis Hg : (g < 256)%N.
Hypothesis Hdc : (64 <= List.length dc)%nat.
Hypothesis Hn1 : k1n <> dn.
Hypothesis Hn2 : gname <> dn.

Definition xcond : expr := EBin TBool Lt (EVar ivar) (ECast I32 (EVar "block")).
Definition xbody : stmt :=
  SStore U8 (EPtrAdd (EVar dvar) 1 (EVar ivar))
    (ECast U8 (EBin I32 BXor (ECast I32 (ELoad U8 (EPtrAdd (EVar "key1") 1 (EVar ivar)))) (ECast I32 (ELoad U8 (EGlobal gname))))).
Definition xstep : stmt := SSet ivar (EBin I32 Add (EVar ivar) (EConst 1)).

Let A : list Z := map Z.of_N (map (fun x => N.lxor x g) kb).

Lemma xor_loop : forall fuel m, (67 <= fuel)%nat ->
  mget m k1n = Some (bytes_object kb) -> mget m gname = Some (cell1 U8 (Z.of_N g)) ->
  mget m dn = Some {| o_ty := U8; o_cells := dc |} ->
  exists M', exec prog vt fuel (SLoop xcond xbody xstep) (St m (lset l ivar (VInt 0)) p fs ps fr)
             = Ok (Normal, St M' (lset l ivar (VInt 64)) p fs ps fr) /\
    mget M' dn = Some {| o_ty := U8; o_cells := (A ++ skipn 64 dc)%list |} /\
    forall k, k <> dn -> mget M' k = mget m k.
Proof.
  intros fuel m Hfuel Hmk Hmg Hmd.
  assert (HlenA : List.length A = 64%nat) by (unfold A; rewrite !map_length; exact Hkb).
  pose (Inv := fun (k : nat) (s : state) => exists M, s = St M (lset l ivar (VInt (Z.of_nat k))) p fs ps fr /\
      mget M dn = Some {| o_ty := U8; o_cells := (firstn k A ++ skipn k dc)%list |} /\ forall k', k' <> dn -> mget M k' = mget m k').
  destruct (loop_inv prog vt xcond xbody xstep Inv 64 2) with (k := 0%nat) (s := St m (lset l ivar (VInt 0)) p fs ps fr)
    as (s' & E & (M' & -> & HM'd & HM'o)).
  - (* one iteration *)
    intros k s Hk (M & -> & HMd & HMo).
    set (zk := Z.of_nat k).
    assert (Evi : forall M0, eval (St M0 (lset l ivar (VInt zk)) p fs ps fr) (EVar ivar) = Ok (VInt zk)).
    { intro M0. cbn [eval loc]. rewrite lget_lset_same. reflexivity. }
    exists 1. split; [|split; [lia|]].
    { unfold xcond. cbn [eval loc bind as_int]. rewrite lget_lset_same, lget_lset_other, Hlb by exact Hi1.
      cbn [bind as_int eval_bin]. change (wrap I32 64) with 64. destruct (Z.ltb_spec zk 64); [reflexivity|unfold zk in *; lia]. }
    (* the value stored *)
    set (x := nth k kb 0%N).
    assert (Hx : (x < 256)%N) by (apply bytesb_nth, Hkbb).
    pose proof (lxor_byte x g Hx Hg) as Hxg.
    assert (Ev : eval (St M (lset l ivar (VInt zk)) p fs ps fr)
                   (ECast U8 (EBin I32 BXor (ECast I32 (ELoad U8 (EPtrAdd (EVar "key1") 1 (EVar ivar)))) (ECast I32 (ELoad U8 (EGlobal gname)))))
                 = Ok (VInt (Z.of_N (N.lxor x g)))).
    { cbn [eval loc mem bind as_int]. rewrite lget_lset_same, lget_lset_other, Hlk by exact Hi2. cbn [bind as_int].
      rewrite (HMo k1n Hn1), Hmk, (HMo gname Hn2), Hmg.
      unfold bytes_object. rewrite load_u8 by (rewrite map_length; unfold zk; lia).
      replace (Z.to_nat (0 + zk * 1)) with k by (unfold zk; lia).
      change 0 with (Z.of_N 0%N) at 1. rewrite map_nth. fold x.
      unfold cell1. rewrite load_u8 by (cbn; lia). change (Z.to_nat 0) with 0%nat. cbn [nth bind as_int eval_bin].
      rewrite (wrap_U8_small (Z.of_N x)), (wrap_U8_small (Z.of_N g)) by lia.
      rewrite (wrap_I32_small (Z.of_N x)), (wrap_I32_small (Z.of_N g)) by lia.
      rewrite <- of_N_lxor. rewrite wrap_I32_small by lia. rewrite wrap_U8_small by lia. reflexivity. }
    eexists. eexists. split; [|split].
    + unfold xbody. rewrite x_store. rewrite Ev.
      cbn [eval loc mem bind as_int]. rewrite lget_lset_same, lget_lset_other, Hld by exact Hi3. cbn [bind as_int].
      rewrite HMd. rewrite store_u8.
      2:{ rewrite app_length, firstn_length, skipn_length. unfold zk. lia. }
      cbn [bind]. reflexivity.
    + unfold xstep. rewrite exec_set. unfold with_mem. cbn [eval loc mem pre files ptrs fresh bind as_int].
      rewrite lget_lset_same. cbn [bind as_int eval_bin]. rewrite arith_I32_small by (unfold zk; lia). cbn [bind].
      unfold with_loc. cbn [loc mem pre files ptrs fresh]. rewrite lset_lset. reflexivity.
    + eexists. split; [do 2 f_equal; f_equal; lia|]. split.
      * rewrite mget_mset_same. do 2 f_equal.
        replace (Z.to_nat (0 + zk * 1)) with k by (unfold zk; lia).
        rewrite wrap_U8_small by lia.
        replace (Z.of_N (N.lxor x g)) with (nth k A 0).
        { apply upd_nth_step; lia. }
        unfold A. rewrite (nth_indep _ 0 (Z.of_N (N.lxor 0 g))) by (rewrite !map_length; lia).
        rewrite (map_nth Z.of_N), (map_nth (fun x => N.lxor x g)). reflexivity.
      * intros k' Hk'. rewrite mget_mset_other by congruence. apply HMo, Hk'.
  - intros s (M & -> & _). unfold xcond. cbn [eval loc bind as_int]. rewrite lget_lset_same, lget_lset_other, Hlb by exact Hi1.
    cbn [bind as_int eval_bin]. reflexivity.
  - lia.
  - exists m. split; [reflexivity|]. split; [cbn [firstn skipn app]; exact Hmd|auto].
  - exists M'. split; [|split].
    + apply (exec_mono _ _ _ _ _ _ E). lia.
    + rewrite HM'd. rewrite <- HlenA at 1. rewrite firstn_all. reflexivity.
    + exact HM'o.
Qed.
End XorLoop.

(* ------------------------------------------------------------------------------------ *)
(** * 3. hmac::getres                                                                    *)
(* ------------------------------------------------------------------------------------ *)
Lemma append_inj_l : forall p x y, p ++ x = p ++ y -> x = y.
Proof. induction p as [|c p IH]; cbn; intros x y E; [exact E|]. injection E as E. auto. Qed.
Lemma heap_not_sizeof : forall n, is_prefix "sizeof:" (heap_name n) = false.
Proof. intro n. reflexivity. Qed.
Lemma heap_is_hash : forall n, is_prefix "#" (heap_name n) = true.
Proof. intro n. unfold heap_name. generalize (nat_string n). intro x. unfold is_prefix. cbn. destruct x; reflexivity. Qed.
Lemma heap_neq : forall n k, is_prefix "#" k = false -> heap_name n <> k.
Proof. intros n k Hk E. subst k. rewrite heap_is_hash in Hk. discriminate. Qed.
Lemma heap_neq' : forall n k, is_prefix "#" k = false -> k <> heap_name n.
Proof. intros n k Hk E. subst k. rewrite heap_is_hash in Hk. discriminate. Qed.
Lemma heap_ne : forall n m, n <> m -> heap_name n <> heap_name m.
Proof. intros n m Hne E. apply Hne, heap_name_inj, E. Qed.

Tactic Notation "stp" ident(fuel) := rewrite exec_seq; destruct fuel as [|fuel]; [lia|].

Definition key1_of (key : list N) : list N := (firstn 16 key ++ zeros 48)%list.

Lemma memset_u8 : forall s od offd v n bd,
  mget (mem s) od = Some bd -> o_ty bd = U8 -> 0 <= n -> 0 <= offd -> offd + n <= Z.of_nat (List.length (o_cells bd)) ->
  do_memset s (VPtr od offd) v n =
  Ok (with_mem s (mset (mem s) od {| o_ty := U8; o_cells := upd_range (Z.to_nat offd) (repeat (v mod 256) (Z.to_nat n)) (o_cells bd) |})).
Proof.
  intros s od offd v n bd Hd Hty Hn Ho Hb. unfold do_memset. rewrite Hd, Hty. change (ity_bytes U8) with 1.
  rewrite !Z.mod_1_r, !Z.div_1_r. change (negb (0 =? 0)) with false. change (1 =? 1) with true.
  destruct (n <? 0) eqn:E1; [apply Z.ltb_lt in E1; lia|]. destruct (offd <? 0) eqn:E2; [apply Z.ltb_lt in E2; lia|].
  cbn [orb negb]. destruct (Z.of_nat (List.length (o_cells bd)) <? offd + n) eqn:E3; [apply Z.ltb_lt in E3; lia|]. reflexivity.
Qed.

Lemma map_of_N_zeros : forall n, map Z.of_N (zeros n) = repeat 0 n.
Proof. unfold zeros. induction n as [|n IH]; cbn [repeat map]; [reflexivity|]. rewrite IH. reflexivity. Qed.

Lemma key1_cells : forall key, (16 <= List.length key)%nat ->
  upd_range 0 (firstn 16 (map Z.of_N key)) (repeat 0 64) = map Z.of_N (key1_of key).
Proof.
  intros key Hk.
  assert (Hl : List.length (firstn 16 (map Z.of_N key)) = 16%nat) by (rewrite firstn_length, map_length; lia).
  rewrite upd_range_split by (rewrite Hl, repeat_length; lia). rewrite Hl.
  change (firstn 0 (repeat 0 64)) with (@nil Z). change (skipn (0 + 16) (repeat 0 64)) with (repeat 0 48).
  unfold key1_of. rewrite map_app, <- firstn_map, map_of_N_zeros. reflexivity.
Qed.

Lemma key1_len : forall key, (16 <= List.length key)%nat -> List.length (key1_of key) = 64%nat.
Proof. intros key Hk. unfold key1_of, zeros. rewrite app_length, firstn_length, repeat_length. lia. Qed.
Lemma bytesb_app : forall a b, bytesb a = true -> bytesb b = true -> bytesb (a ++ b)%list = true.
Proof. unfold bytesb. intros a b Ha Hb. rewrite forallb_app, Ha, Hb. reflexivity. Qed.
Lemma bytesb_zeros : forall n, bytesb (zeros n) = true.
Proof. unfold zeros, bytesb. induction n; cbn [repeat forallb]; [reflexivity|]. rewrite IHn. reflexivity. Qed.
Lemma key1_bytes : forall key, bytesb key = true -> bytesb (key1_of key) = true.
Proof. intros key Hk. unfold key1_of. apply bytesb_app; [apply bytesb_firstn, Hk|apply bytesb_zeros]. Qed.
Lemma bytesb_xor : forall g l, (g < 256)%N -> bytesb l = true -> bytesb (map (fun x => N.lxor x g) l) = true.
Proof.
  unfold bytesb. intros g l Hg. induction l as [|x l IH]; cbn [map forallb]; intro Hl; [reflexivity|].
  apply andb_true_iff in Hl. destruct Hl as [Hx Hl]. rewrite (IH Hl), andb_true_r.
  unfold byte_ok in *. apply N.ltb_lt. apply N.ltb_lt in Hx. apply lxor_byte; assumption.
Qed.

Lemma prefix_split : forall p k, String.prefix p k = true -> exists r, k = p ++ r.
Proof.
  induction p as [|c p IH]; intros k Hk; [exists k; reflexivity|].
  destruct k as [|d k]; cbn [String.prefix] in Hk; [discriminate|].
  destruct (Ascii.ascii_dec c d) as [->|]; [|discriminate]. destruct (IH k Hk) as [r ->]. exists r. reflexivity.
Qed.
Lemma sizeof_not_owned : forall k, is_prefix "sizeof:" k = true -> file_owned k = false.
Proof. intros k Hk. destruct (prefix_split _ _ Hk) as [r ->]. reflexivity. Qed.
Lemma buf_not_owned : forall k, is_prefix "buf." k = true -> hash_owned k = false.
Proof. intros k Hk. destruct (prefix_split _ _ Hk) as [r ->]. reflexivity. Qed.

Lemma sizeof_not_hash : forall k, is_prefix "sizeof:" k = true -> is_prefix "#" k = false.
Proof. intros k Hk. destruct (prefix_split _ _ Hk) as [r ->]. reflexivity. Qed.
Lemma buf_not_hash : forall k, is_prefix "buf." k = true -> is_prefix "#" k = false.
Proof. intros k Hk. destruct (prefix_split _ _ Hk) as [r ->]. reflexivity. Qed.
Lemma skipn_repeat : forall (x : Z) k n, skipn k (repeat x (k + n)) = repeat x n.
Proof. induction k as [|k IH]; intro n; cbn [Nat.add repeat skipn]; [reflexivity|apply IH]. Qed.
Lemma bytes_at_zero_range : forall m o cells (off n : nat),
  mget m o = Some {| o_ty := U8; o_cells := cells |} -> cells = repeat 0 (off + n) ->
  bytes_at m o (Z.of_nat off) (repeat 0%N n).
Proof.
  intros m o cells off n Hm ->. exists {| o_ty := U8; o_cells := repeat 0 (off + n) |}. split; [exact Hm|]. split; [reflexivity|].
  split; [lia|]. cbn [o_cells]. rewrite Nat2Z.id, !repeat_length, skipn_repeat. split; [|lia].
  rewrite <- (repeat_length 0 n) at 1. rewrite firstn_all. symmetry. apply (map_of_N_zeros n).
Qed.

Lemma fo_not_hash : forall k, file_owned k = false -> is_prefix "#" k = false.
Proof. intros k Hk. apply file_owned_hash_owned in Hk. unfold hash_owned in Hk. apply orb_false_iff in Hk. apply Hk. Qed.
Lemma fo_not_buf : forall k, file_owned k = false -> is_prefix "buf." k = false.
Proof. intros k Hk. unfold file_owned in Hk. apply orb_false_iff in Hk. destruct Hk as [Hx _]. apply orb_false_iff in Hx. apply Hx. Qed.

Section Getres.
Variable cls : string.
Variable a : halg.
Variable objs : list (string * ity * Z).
Variable globs : memory.
Variable vt : list (string * string).
Variable F : nat.
Variable hmz : Z.
Hypothesis Hspec : class_spec cls a objs globs vt F.
Hypothesis Hfac : factory_spec cls a objs globs vt F hmz.
Hypothesis Hvtb : lget vt "buf." = Some "filebuffer64".
Hypothesis Hblock : In ("hashblock", U8, 64) objs.
Hypothesis Hglobs : forall k o, mget globs k = Some o -> is_prefix "buf." k = false /\ k <> "hashblock".
Hypothesis Hnames : Forall (fun k => is_prefix "#" k = false /\ is_prefix "buf." k = false /\ is_prefix "sizeof:" k = false) (hasher_names objs globs).
Hypothesis Hmemb : forall name t n, In (name, t, n) objs -> file_owned name = true.
Hypothesis Hhlen : (ha_hlen a <= 64)%nat.
Hypothesis Hout_len : forall h, List.length h = List.length (ha_init a) -> List.length (ha_out a h) = ha_hlen a.
Hypothesis Hout_bytes : forall h, bytesb (ha_out a h) = true.
Variable hbuf : nat.
Hypothesis Hh1 : (1 <= hbuf)%nat.
Hypothesis Hh2 : Z.of_nat (64 * hbuf) < 2 ^ 32.
Variable fpn : string.
Variable pfx : string.
Let lenk := pfx ++ "length".
Hypothesis Hp1 : file_owned lenk = false.
Hypothesis Hp2 : ~ In lenk (hasher_names objs globs).
Hypothesis Hp3 : is_prefix "sizeof:" lenk = false.
Hypothesis Hp4 : "ipad" <> lenk.
Hypothesis Hp5 : "opad" <> lenk.
Hypothesis Hp6 : "HBUF_SZ" <> lenk.
Hypothesis Hq1 : pfx ++ "hmac_res" <> "buf.fp".
Hypothesis Hq2 : pfx ++ "hmac_res" <> "class:buf.".
Hypothesis Hq3 : pfx ++ "buf" <> "buf.fp".
Hypothesis Hq4 : "alloc:filebuffer64" <> pfx ++ "hmac_res".

Let hok := hasher_ok a objs globs.

Lemma getres_refines : forall fuel m l0 p0 fs ps fr0 keyo key fz f stream n st',
  (F + n + 120 <= fuel)%nat ->
  lget ps ("alloc:" ++ cls) = Some (VPtr "" 0) -> lget ps "alloc:filebuffer64" = Some (VPtr "buf." 0) ->
  no_sizeof m -> mget m "sizeof:filebuffer64.b" = Some (cell1 U32 (64 * Z.of_nat hbuf)) ->
  mget m "HBUF_SZ" = Some (cell1 U32 (Z.of_nat hbuf)) ->
  mget m "ipad" = Some (cell1 U8 54) -> mget m "opad" = Some (cell1 U8 92) ->
  globals_ok globs m ->
  (forall name t n, In (name, t, n) objs -> mget m name = None) ->
  (forall k, is_prefix "buf." k = true -> mget m k = None) ->
  (exists x, mget m lenk = Some (cell1 U8 x)) ->
  mget m keyo = Some (bytes_object key) -> (16 <= List.length key)%nat -> bytesb key = true -> file_owned keyo = false -> keyo <> lenk ->
  lget fs fpn = Some f -> skipn (cf_pos f) (cf_data f) = map Z.of_N stream -> bytesb stream = true ->
  file_loop hbuf a n (reset a) (fb_new hbuf (Some (map (fun x => N.lxor x 54) (key1_of key))) stream) = Some st' ->
  let tag := getStringHash a (map (fun x => N.lxor x 92) (key1_of key) ++ ha_out a (hs_h st'))%list in
  exists s' nres,
    call file_prog vt fuel "hmac::getres/4" pfx [VInt hmz; VPtr keyo 0; VPtr fpn 0; VInt fz] (St m l0 p0 fs ps fr0) = Ok (None, s') /\
    loc s' = l0 /\ pre s' = p0 /\
    lget (ptrs s') (pfx ++ "hmac_res") = Some (VPtr nres 0) /\ is_prefix "#" nres = true /\
    bytes_at (mem s') nres 0 tag /\ List.length tag = ha_hlen a /\
    mget (mem s') lenk = Some (cell1 U8 (Z.of_nat (ha_hlen a))) /\
    (forall k, file_owned k = false -> k <> lenk -> mget (mem s') k = mget m k) /\
    (forall k, k <> fpn -> lget (files s') k = lget fs k).
Proof.
  intros fuel m l0 p0 fs ps fr0 keyo key fz f stream n st' Hfuel Hal1 Hal2 Hsz Hszb Hhb Hip Hop Hgl Habs1 Habs2 (xl & Hlen)
         Hkey Hkl Hkb Hko Hkne Hf Hrest Hsb Hfl tag.
  unfold call. change (lget file_prog "hmac::getres/4") with (Some Src_fheader.f_hmac_getres_4).
  cbn [f_params f_body Src_fheader.f_hmac_getres_4 bind_params bind mem loc pre files ptrs fresh].
  destruct fuel as [|fuel]; [lia|].
  set (L0 := [("hashtype", VInt hmz); ("key", VPtr keyo 0); ("fp", VPtr fpn 0); ("fsize", VInt fz)]).
  (* 1. $t2 = hf.getType(hashtype) *)
  stp fuel.
  rewrite (x_scall file_prog vt fuel (Some "$t2") "HashFactory::getType/1" (Some (EField "hf.")) [EVar "hashtype"]
             (St m L0 pfx fs ps fr0) [VInt hmz] (pfx ++ "hf.") (Some (VInt hmz)) (St m L0 pfx fs ps fr0)
             (St m (lset L0 "$t2" (VInt hmz)) pfx fs ps fr0) eq_refl eq_refl (fa_type _ _ _ _ _ _ _ Hfac fuel _ _ _ _ _ _ _ ltac:(lia)) eq_refl).
  cbn [bind].
  (* 2. $t1 = hf.getHasher($t2) *)
  stp fuel.
  destruct (fa_hasher _ _ _ _ _ _ _ Hfac fuel m (lset L0 "$t2" (VInt hmz)) pfx fs ps fr0 (pfx ++ "hf.")
              ltac:(lia) Hal1 Hsz Hgl Habs1) as (m1 & fr1 & Ec1 & Hok1 & Hfr1 & Hoth1).
  rewrite (x_scall file_prog vt fuel (Some "$t1") "HashFactory::getHasher/1" (Some (EField "hf.")) [EVar "$t2"]
             (St m (lset L0 "$t2" (VInt hmz)) pfx fs ps fr0) [VInt hmz] (pfx ++ "hf.") _ _ _ eq_refl eq_refl Ec1 eq_refl).
  cbn [bind]. unfold with_loc. cbn [mem loc pre files ptrs fresh L0 lset String.eqb Ascii.eqb Bool.eqb].
  set (ps1 := lset ps (class_key "") (VPtr cls 0)).
  (* facts about the length member *)
  assert (Hl_ho : hash_owned lenk = false) by (apply file_owned_hash_owned, Hp1).
  assert (Hl_h : is_prefix "#" lenk = false).
  { unfold hash_owned in Hl_ho. apply orb_false_iff in Hl_ho. apply Hl_ho. }
  assert (Hnm : forall k, file_owned k = false -> not_member objs k).
  { intros k Hk name t n0 Hin E. subst k. rewrite (Hmemb name t n0 Hin) in Hk. discriminate. }
  assert (Hlen1 : mget m1 lenk = Some (cell1 U8 xl)).
  { rewrite Hoth1; [exact Hlen|left; exact Hl_ho|apply Hnm, Hp1]. }
  (* 3. hashmaster = $t1 *)
  stp fuel. rewrite exec_set. cbn [eval bind loc lget String.eqb Ascii.eqb Bool.eqb].
  unfold with_loc. cbn [mem loc pre files ptrs fresh lset String.eqb Ascii.eqb Bool.eqb].
  (* 4. $t3 = hashmaster->getblen() *)
  stp fuel.
  match goal with |- context [exec file_prog vt (S fuel) (SCallVirt (Some "$t3") "getblen/0" (Some (EVar "hashmaster")) []) ?s] =>
    rewrite (exec_callvirt file_prog vt fuel (Some "$t3") "getblen/0" (Some (EVar "hashmaster")) [] s [] "" cls (Some (VInt 64)) s
               (with_loc s (lset (loc s) "$t3" (VInt 64))) eq_refl eq_refl (cs_vt _ _ _ _ _ _ Hspec)
               (fa_blen _ _ _ _ _ _ _ Hfac fuel _ _ _ _ _ _ ltac:(lia)) eq_refl)
  end.
  cbn [bind]. unfold with_loc. cbn [mem loc pre files ptrs fresh lset String.eqb Ascii.eqb Bool.eqb].
  (* 5. block = $t3 *)
  stp fuel. rewrite exec_set. cbn [eval bind loc lget String.eqb Ascii.eqb Bool.eqb].
  unfold with_loc. cbn [mem loc pre files ptrs fresh lset String.eqb Ascii.eqb Bool.eqb].
  (* 6. $t4 = hashmaster->gethlen() *)
  stp fuel.
  set (hl := Z.of_nat (ha_hlen a)).
  match goal with |- context [exec file_prog vt (S fuel) (SCallVirt (Some "$t4") "gethlen/0" (Some (EVar "hashmaster")) []) ?s] =>
    rewrite (exec_callvirt file_prog vt fuel (Some "$t4") "gethlen/0" (Some (EVar "hashmaster")) [] s [] "" cls (Some (VInt hl)) s
               (with_loc s (lset (loc s) "$t4" (VInt hl))) eq_refl eq_refl (cs_vt _ _ _ _ _ _ Hspec)
               (fa_hlen _ _ _ _ _ _ _ Hfac fuel _ _ _ _ _ _ ltac:(lia)) eq_refl)
  end.
  cbn [bind]. unfold with_loc. cbn [mem loc pre files ptrs fresh lset String.eqb Ascii.eqb Bool.eqb].
  (* 7. length = $t4 *)
  stp fuel. rewrite x_store. cbn [eval bind as_int loc pre mem lget String.eqb Ascii.eqb Bool.eqb].
  fold lenk. rewrite Hlen1. unfold cell1 at 1. rewrite store_u8 by (cbn; lia). cbn [bind upd_nth Z.to_nat].
  rewrite (wrap_U8_small hl) by (unfold hl; lia).
  unfold with_mem. cbn [mem loc pre files ptrs fresh].
  set (m2 := mset m1 lenk {| o_ty := U8; o_cells := [hl] |}).
  assert (Hhl : 0 <= hl <= 64) by (unfold hl; lia).
  assert (Hlen2 : mget m2 lenk = Some {| o_ty := U8; o_cells := [hl] |}) by apply mget_mset_same.
  (* 8. $t5 = new u8_t[length] *)
  stp fuel. rewrite x_new. cbn [eval bind as_int loc pre mem]. fold lenk. rewrite Hlen2.
  rewrite load_u8 by (cbn; lia). cbn [bind as_int nth Z.to_nat]. rewrite (wrap_U8_small hl), (wrap_U64_small hl) by lia.
  rewrite (proj2 (Z.ltb_ge hl 0)) by lia. cbn [bind mem loc pre files ptrs fresh lset String.eqb Ascii.eqb Bool.eqb].
  set (nres := heap_name fr1).
  set (m3 := mset m2 nres {| o_ty := U8; o_cells := repeat 0 (Z.to_nat hl) |}).
  (* 9. hmac_res = $t5 *)
  stp fuel. rewrite x_setptr. cbn [eval bind loc pre lget String.eqb Ascii.eqb Bool.eqb].
  unfold with_ptrs. cbn [mem loc pre files ptrs fresh].
  set (ps2 := lset ps1 (pfx ++ "hmac_res") (VPtr nres 0)).
  (* 10. key1 = new u8_t[block] *)
  stp fuel. rewrite x_new. cbn [eval bind as_int loc lget String.eqb Ascii.eqb Bool.eqb]. change (wrap U64 64) with 64.
  change (64 <? 0) with false. cbv iota. cbn [bind mem loc pre files ptrs fresh lset String.eqb Ascii.eqb Bool.eqb].
  set (nk1 := heap_name (S fr1)).
  set (m4 := mset m3 nk1 {| o_ty := U8; o_cells := repeat 0 (Z.to_nat 64) |}).
  (* 11. h1 = new u8_t[block] *)
  stp fuel. rewrite x_new. cbn [eval bind as_int loc lget String.eqb Ascii.eqb Bool.eqb]. change (wrap U64 64) with 64.
  change (64 <? 0) with false. cbv iota. cbn [bind mem loc pre files ptrs fresh lset String.eqb Ascii.eqb Bool.eqb].
  set (nh1 := heap_name (S (S fr1))).
  set (m5 := mset m4 nh1 {| o_ty := U8; o_cells := repeat 0 (Z.to_nat 64) |}).
  (* 12. h2 = new u8_t[block + length] *)
  assert (Hne_l : forall j, heap_name j <> lenk) by (intro j; apply heap_neq, Hl_h).
  assert (Hlen5 : mget m5 lenk = Some {| o_ty := U8; o_cells := [hl] |}).
  { unfold m5, m4, m3. rewrite !mget_mset_other by apply Hne_l. exact Hlen2. }
  stp fuel. rewrite x_new. cbn [eval bind as_int loc pre mem lget String.eqb Ascii.eqb Bool.eqb]. fold lenk. rewrite Hlen5.
  rewrite load_u8 by (cbn; lia). cbn [bind as_int nth Z.to_nat eval_bin]. rewrite (wrap_U8_small hl) by lia.
  change (wrap I32 64) with 64. rewrite (wrap_I32_small hl) by lia. rewrite arith_I32_small by lia. cbn [bind as_int].
  rewrite (wrap_U64_small (64 + hl)) by lia. rewrite (proj2 (Z.ltb_ge (64 + hl) 0)) by lia.
  cbn [bind mem loc pre files ptrs fresh lset String.eqb Ascii.eqb Bool.eqb].
  set (nh2 := heap_name (S (S (S fr1)))).
  set (m6 := mset m5 nh2 {| o_ty := U8; o_cells := repeat 0 (Z.to_nat (64 + hl)) |}).
  (* heap names are distinct *)
  assert (D12 : nres <> nk1) by (apply heap_ne; lia). assert (D13 : nres <> nh1) by (apply heap_ne; lia).
  assert (D14 : nres <> nh2) by (apply heap_ne; lia). assert (D23 : nk1 <> nh1) by (apply heap_ne; lia).
  assert (D24 : nk1 <> nh2) by (apply heap_ne; lia). assert (D34 : nh1 <> nh2) by (apply heap_ne; lia).
  (* 13. memset(key1, 0, block) *)
  assert (Hk1_6 : mget m6 nk1 = Some {| o_ty := U8; o_cells := repeat 0 64 |}).
  { unfold m6, m5. rewrite !mget_mset_other by congruence. apply mget_mset_same. }
  stp fuel. rewrite x_memset. cbn [eval bind as_int loc lget String.eqb Ascii.eqb Bool.eqb eval_bin]. change (wrap U64 64) with 64.
  rewrite arith_U64. change (1 * 64 mod 2 ^ 64) with 64. cbn [bind as_int].
  match goal with |- context [do_memset ?s _ _ _] =>
    rewrite (memset_u8 s nk1 0 0 64 _ Hk1_6 eq_refl ltac:(lia) ltac:(lia) ltac:(cbn; lia)) end.
  cbn [bind o_cells]. change (upd_range (Z.to_nat 0) (repeat (0 mod 256) (Z.to_nat 64)) (repeat 0 64)) with (repeat 0 64).
  unfold with_mem. cbn [mem loc pre files ptrs fresh].
  set (m7 := mset m6 nk1 {| o_ty := U8; o_cells := repeat 0 64 |}).
  (* 14. memcpy(key1, key, 16) *)
  assert (Hko_h : is_prefix "#" keyo = false).
  { apply file_owned_hash_owned in Hko. unfold hash_owned in Hko. apply orb_false_iff in Hko. apply Hko. }
  assert (Hkey1 : mget m1 keyo = Some (bytes_object key)).
  { rewrite Hoth1; [exact Hkey|left; apply file_owned_hash_owned, Hko|apply Hnm, Hko]. }
  assert (Hkey7 : mget m7 keyo = Some (bytes_object key)).
  { unfold m7, m6, m5, m4, m3, m2. rewrite !mget_mset_other by (first [apply heap_neq, Hko_h|congruence]). exact Hkey1. }
  stp fuel. rewrite x_memcpy. cbn [eval bind as_int loc lget String.eqb Ascii.eqb Bool.eqb]. change (wrap U64 16) with 16.
  match goal with |- context [do_memcpy ?s _ _ _] =>
    rewrite (memcpy_u8 s nk1 0 keyo 0 16 {| o_ty := U8; o_cells := repeat 0 64 |} (bytes_object key)
               (mget_mset_same _ _ _) Hkey7 eq_refl eq_refl ltac:(lia) ltac:(lia) ltac:(lia)
               ltac:(cbn [bytes_object o_cells]; rewrite map_length; lia) ltac:(cbn; lia)) end.
  cbn [bind o_cells bytes_object]. change (Z.to_nat 0) with 0%nat. change (Z.to_nat 16) with 16%nat. cbn [skipn].
  rewrite (key1_cells key Hkl). unfold with_mem. cbn [mem loc pre files ptrs fresh].
  set (m8 := mset m7 nk1 {| o_ty := U8; o_cells := map Z.of_N (key1_of key) |}).
  (* 15. i = 0 *)
  stp fuel. rewrite exec_set. cbn [eval bind]. unfold with_loc. cbn [mem loc pre files ptrs fresh].
  (* 16. for (i < block) h1[i] = key1[i] ^ ipad *)
  assert (Hmemn : forall name t n0, In (name, t, n0) objs -> In name (hasher_names objs globs)).
  { intros name t n0 Hin. unfold hasher_names. right. right. apply in_or_app. left. apply in_map_iff. exists (name, t, n0). auto. }
  assert (Hnm2 : forall k, (is_prefix "#" k = true \/ is_prefix "buf." k = true \/ is_prefix "sizeof:" k = true) -> not_member objs k).
  { intros k Hk name t n0 Hin E. subst k. rewrite Forall_forall in Hnames. destruct (Hnames name (Hmemn _ _ _ Hin)) as (A1 & A2 & A3).
    rewrite A1, A2, A3 in Hk. intuition discriminate. }
  assert (Hm8 : forall k, k <> lenk -> is_prefix "#" k = false -> mget m8 k = mget m1 k).
  { intros k Hk1 Hk2. unfold m8, m7, m6, m5, m4, m3, m2. rewrite !mget_mset_other by (first [apply heap_neq, Hk2|congruence]). reflexivity. }
  assert (Hm1 : forall k, file_owned k = false -> mget m1 k = mget m k).
  { intros k Hk. apply Hoth1; [left; apply file_owned_hash_owned, Hk|apply Hnm, Hk]. }
  assert (Hip8 : mget m8 "ipad" = Some (cell1 U8 (Z.of_N 54))).
  { rewrite Hm8 by (first [reflexivity|exact Hp4]). rewrite Hm1 by reflexivity. exact Hip. }
  assert (Hk1_8 : mget m8 nk1 = Some (bytes_object (key1_of key))) by apply mget_mset_same.
  assert (Hh1_8 : mget m8 nh1 = Some {| o_ty := U8; o_cells := repeat 0 64 |}).
  { unfold m8, m7, m6. rewrite !mget_mset_other by congruence. apply mget_mset_same. }
  stp fuel.
  match goal with |- context [exec file_prog vt (S fuel) (SLoop _ _ _) (St m8 (lset ?L "i" (VInt 0)) pfx fs ps2 ?fr)] =>
    destruct (xor_loop file_prog vt "i" "h1" "ipad" nk1 nh1 54%N (key1_of key) L pfx fs ps2 fr (repeat 0 64)
                ltac:(discriminate) ltac:(discriminate) ltac:(discriminate) eq_refl eq_refl eq_refl (key1_len key Hkl) (key1_bytes key Hkb)
                ltac:(lia) ltac:(cbn; lia) D23 ltac:(apply heap_neq'; reflexivity) (S fuel) m8 ltac:(lia) Hk1_8 Hip8 Hh1_8) as (m9 & E9 & Hh1_9 & Hoth9)
  end.
  unfold xcond, xbody, xstep in E9. rewrite E9. clear E9. cbn [bind lset String.eqb Ascii.eqb Bool.eqb].
  change (skipn 64 (repeat 0 64)) with (@nil Z) in Hh1_9. rewrite app_nil_r in Hh1_9.
  set (h1b := map (fun x => N.lxor x 54) (key1_of key)) in *.
  (* 17. buf = new filebuffer64(fp, h1) *)
  assert (Hl_b : is_prefix "buf." lenk = false).
  { unfold file_owned in Hp1. apply orb_false_iff in Hp1. destruct Hp1 as [Hx _]. apply orb_false_iff in Hx. apply Hx. }
  assert (Hm9 : forall k, k <> lenk -> is_prefix "#" k = false -> mget m9 k = mget m1 k).
  { intros k A1 A2. rewrite Hoth9 by (apply heap_neq', A2). apply Hm8; assumption. }
  assert (Hsz9 : no_sizeof m9).
  { intros k A1 A2. rewrite Hm9; [|intro E; rewrite E, Hp3 in A1; discriminate|apply sizeof_not_hash, A1].
    rewrite Hm1 by (apply sizeof_not_owned, A1). apply Hsz; assumption. }
  assert (Hszb9 : mget m9 "sizeof:filebuffer64.b" = Some (cell1 U32 (64 * Z.of_nat hbuf))).
  { rewrite Hm9; [|intro E; rewrite <- E in Hp3; discriminate|reflexivity]. rewrite Hm1 by reflexivity. exact Hszb. }
  assert (Hhb9 : mget m9 "HBUF_SZ" = Some (cell1 U32 (Z.of_nat hbuf))).
  { rewrite Hm9; [|exact Hp6|reflexivity]. rewrite Hm1 by reflexivity. exact Hhb. }
  assert (Hbuf9 : forall k, is_prefix "buf." k = true -> mget m9 k = None).
  { intros k A1. rewrite Hm9; [|intro E; rewrite E, Hl_b in A1; discriminate|apply buf_not_hash, A1].
    rewrite Hoth1; [apply Habs2, A1|left; apply buf_not_owned, A1|apply Hnm2; auto]. }
  destruct (fb_alloc hbuf m9 Hsz9 Hszb9 Hhb9) as [Hshape Hall].
  stp fuel.
  set (fr4 := S (S (S (S fr1)))).
  set (ps3 := lset ps2 (class_key "buf.") (VPtr "filebuffer64" 0)).
  set (s0 := St (alloc_objs "filebuffer64" "buf." fb_objs m9) [] "" fs ps3 (S fr4)).
  destruct (fb_ctor_refines vt fpn hbuf Hh1 Hh2 fuel s0 (VPtr nh1 0) (Some h1b) stream f ltac:(lia) Hshape Hf Hrest Hsb)
    as (s1 & Ector & Hwf1 & Hrep1 & Hfrb & Hhk1 & Hshp1 & Hloc1 & Hpre1 & Hfresh1 & Hfiles1 & Hptrs1).
  { exists nh1, 0. split; [reflexivity|]. split; [apply buf_not_heap|]. split; [|split].
    - exists {| o_ty := U8; o_cells := map Z.of_N h1b |}. cbn [s0 mem]. rewrite Hall by apply buf_not_heap. split; [exact Hh1_9|].
      split; [reflexivity|]. split; [lia|]. cbn [o_cells]. change (Z.to_nat 0) with 0%nat. cbn [skipn]. rewrite map_length.
      split; [|lia]. rewrite <- (map_length Z.of_N h1b). apply firstn_all.
    - unfold h1b. rewrite map_length, key1_len by exact Hkl. lia.
    - unfold h1b. apply bytesb_xor; [lia|apply key1_bytes, Hkb]. }
  apply call_file_prog in Ector.
  assert (Hal9 : lget ps2 ("alloc:" ++ "filebuffer64") = Some (VPtr "buf." 0)).
  { unfold ps2, ps1. rewrite lget_lset_other by (intro E; apply Hq4; symmetry; exact E). rewrite lget_lset_other by discriminate. exact Hal2. }
  match goal with |- context [exec file_prog vt (S fuel) (SNewObj "$t6" "filebuffer64" ?ol (Some ?ct) ?args) ?s] =>
    rewrite (x_newobj_call file_prog vt fuel "$t6" "filebuffer64" ol ct args s [VPtr fpn 0; VPtr nh1 0] "buf." None s1 [] "" eq_refl Hal9)
  end.
  2:{ cbn [forallb fst mem append]. rewrite !Hbuf9 by reflexivity. reflexivity. }
  2:{ exact Ector. }
  cbn [bind mem loc pre files ptrs fresh lset String.eqb Ascii.eqb Bool.eqb].
  (* 18. this->buf = $t6 *)
  stp fuel. rewrite x_setptr. cbn [eval bind loc pre lget String.eqb Ascii.eqb Bool.eqb].
  unfold with_ptrs. cbn [mem loc pre files ptrs fresh].
  set (ps4 := lset (ptrs s1) (pfx ++ "buf") (VPtr "buf." 0)).
  (* 19. hashmaster->getFileHash(buf, h2 + block) *)
  assert (Hs1 : forall k, is_prefix "buf." k = false -> mget (mem s1) k = mget m9 k).
  { intros k A1. rewrite (Hfrb k A1). cbn [s0 mem]. apply Hall, A1. }
  assert (Hnm_in : forall k, In k (hasher_names objs globs) -> is_prefix "#" k = false /\ is_prefix "buf." k = false /\ k <> lenk).
  { intros k A1. rewrite Forall_forall in Hnames. destruct (Hnames k A1) as (B1 & B2 & _). split; [exact B1|]. split; [exact B2|].
    intro E. subst k. exact (Hp2 A1). }
  assert (Hoks1 : hok (reset a) (mem s1)).
  { apply (hok_same a objs globs (reset a) m1); [exact Hok1|]. intros k A1. destruct (Hnm_in k A1) as (B1 & B2 & B3).
    rewrite Hs1 by exact B2. apply Hm9; assumption. }
  assert (Hh2_6 : mget m6 nh2 = Some {| o_ty := U8; o_cells := repeat 0 (64 + ha_hlen a) |}).
  { unfold m6. rewrite mget_mset_same. do 3 f_equal. unfold hl. lia. }
  assert (Hh2_9 : mget m9 nh2 = Some {| o_ty := U8; o_cells := repeat 0 (64 + ha_hlen a) |}).
  { rewrite Hoth9 by congruence. unfold m8, m7. rewrite !mget_mset_other by congruence. exact Hh2_6. }
  set (sc := St (mem s1) [] "" (files s1) ps4 (fresh s1)).
  assert (Hfr_s1 : fresh s1 = S fr4) by exact Hfresh1.
  stp fuel.
  destruct (getFileHash_refines cls a objs globs vt F Hspec fpn hbuf Hh1 Hh2 Hvtb Hblock Hglobs sc (reset a) fuel
              (fb_new hbuf (Some h1b) stream) n st' nh2 (0 + 64 * 1) (repeat 0%N (ha_hlen a)) ltac:(lia) eq_refl Hoks1 Hwf1)
    as (s2 & Ec2 & Hok2 & Hby2 & Hoth2 & Hhk2 & Hkept2 & Hloc2 & Hpre2 & Hptrs2 & Hfresh2 & Hfiles2).
  { destruct Hrep1 as [A1 (A2 & A3)]. split; [exact A1|]. split; [|exact A3].
    cbn [sc ptrs]. unfold ps4. rewrite lget_lset_other by exact Hq3. exact A2. }
  { exact Hfl. }
  { right. exists (S (S (S fr1))). split; [cbn [sc fresh]; rewrite Hfr_s1; unfold fr4; lia|reflexivity]. }
  { change (0 + 64 * 1) with (Z.of_nat 64). apply (bytes_at_zero_range (mem s1) nh2 (repeat 0 (64 + ha_hlen a)) 64 (ha_hlen a)); [|reflexivity].
    rewrite Hs1 by apply buf_not_heap. exact Hh2_9. }
  { apply repeat_length. }
  apply call_file_prog in Ec2.
  match goal with |- context [exec file_prog vt (S fuel) (SCall None "Hashmaster::getFileHash/3" ?th ?args) (St _ ?L pfx _ _ _)] =>
    rewrite (x_scall file_prog vt fuel None "Hashmaster::getFileHash/3" th args (St (mem s1) L pfx (files s1) ps4 (fresh s1))
               [VPtr "buf." 0; VPtr nh2 (0 + 64 * 1)] "" None
               (St (mem s2) L pfx (files s2) (ptrs s2) (fresh s2)) (St (mem s2) L pfx (files s2) (ptrs s2) (fresh s2)))
  end.
  2:{ cbn [eval_list eval bind loc pre ptrs as_int lget String.eqb Ascii.eqb Bool.eqb]. unfold ps4. rewrite lget_lset_same. reflexivity. }
  2:{ reflexivity. }
  2:{ apply (call_any_caller file_prog vt fuel "Hashmaster::getFileHash/3" "" _ (mem s1) _ pfx (files s1) ps4 (fresh s1) None s2 Ec2). }
  2:{ reflexivity. }
  cbn [bind].
  cbn [sc mem loc pre files ptrs fresh] in Hoth2, Hhk2, Hkept2, Hloc2, Hpre2, Hptrs2, Hfresh2, Hfiles2, Hby2.
  rewrite Hptrs2.
  (* 20. i'1 = 0 *)
  stp fuel. rewrite exec_set. cbn [eval bind]. unfold with_loc. cbn [mem loc pre files ptrs fresh].
  (* 21. for (i < block) h2[i] = key1[i] ^ opad *)
  set (inner := ha_out a (hs_h st')) in *.
  assert (Hinner_len : List.length inner = ha_hlen a).
  { apply Hout_len. destruct Hok2 as (_ & _ & _ & A & _). exact A. }
  destruct Hby2 as (ob2 & Hg2 & Hty2 & _ & Hc2 & Hl2). destruct ob2 as [ty2 c2]. cbn [o_ty o_cells] in Hty2, Hc2, Hl2. subst ty2.
  change (Z.to_nat (0 + 64 * 1)) with 64%nat in Hc2, Hl2. rewrite Hinner_len in Hc2, Hl2.
  assert (Hk1_s2 : mget (mem s2) nk1 = Some (bytes_object (key1_of key))).
  { transitivity (mget (mem s1) nk1); [apply (Hhk2 (S fr1)); [cbn [sc fresh]; rewrite Hfr_s1; unfold fr4; lia|exact D24]|]. rewrite Hs1 by apply buf_not_heap.
    rewrite Hoth9 by congruence. exact Hk1_8. }
  assert (Hm_s2 : forall k, file_owned k = false -> k <> lenk -> mget (mem s2) k = mget m k).
  { intros k A1 A2. rewrite Hoth2; [|exact A1|apply heap_neq', fo_not_hash, A1]. rewrite Hs1 by apply fo_not_buf, A1.
    rewrite Hm9; [|exact A2|apply fo_not_hash, A1]. apply Hm1, A1. }
  assert (Hop_s2 : mget (mem s2) "opad" = Some (cell1 U8 (Z.of_N 92))).
  { rewrite Hm_s2; [exact Hop|reflexivity|exact Hp5]. }
  stp fuel.
  match goal with |- context [exec file_prog vt (S fuel) (SLoop _ _ _) (St (mem s2) (lset ?L "i'1" (VInt 0)) pfx ?fs2 ?ps2' ?fr)] =>
    destruct (xor_loop file_prog vt "i'1" "h2" "opad" nk1 nh2 92%N (key1_of key) L pfx fs2 ps2' fr c2
                ltac:(discriminate) ltac:(discriminate) ltac:(discriminate) eq_refl eq_refl eq_refl (key1_len key Hkl) (key1_bytes key Hkb)
                ltac:(lia) ltac:(lia) D24 ltac:(apply heap_neq'; reflexivity) (S fuel) (mem s2) ltac:(lia) Hk1_s2 Hop_s2 Hg2) as (m10 & E10 & Hh2_10 & Hoth10)
  end.
  unfold xcond, xbody, xstep in E10. rewrite E10. clear E10. cbn [bind lset String.eqb Ascii.eqb Bool.eqb].
  set (okey := map (fun x => N.lxor x 92) (key1_of key)) in *.
  assert (Hokl : List.length okey = 64%nat) by (unfold okey; rewrite map_length; apply key1_len, Hkl).
  set (msg := (okey ++ inner)%list).
  assert (Hmsg_len : List.length msg = (64 + ha_hlen a)%nat) by (unfold msg; rewrite app_length, Hokl, Hinner_len; reflexivity).
  assert (Hmsg_at : bytes_at m10 nh2 0 msg).
  { eexists. split; [exact Hh2_10|]. split; [reflexivity|]. split; [lia|]. cbn [o_cells]. change (Z.to_nat 0) with 0%nat.
    match goal with |- context [skipn 0 ?l] => change (skipn 0 l) with l end.
    rewrite Hmsg_len. rewrite app_length, map_length, Hokl, skipn_length. split; [|lia].
    rewrite firstn_app, map_length, Hokl. rewrite firstn_all2 by (rewrite map_length, Hokl; lia).
    replace (64 + ha_hlen a - 64)%nat with (ha_hlen a) by lia. rewrite Hc2. unfold msg. rewrite map_app. reflexivity. }
  (* 22. hashmaster->getStringHash(h2, block + length, hmac_res) *)
  assert (Hlen10 : mget m10 lenk = Some {| o_ty := U8; o_cells := [hl] |}).
  { rewrite Hoth10 by apply not_eq_sym, Hne_l. rewrite Hoth2; [|exact Hp1|apply not_eq_sym, Hne_l]. rewrite Hs1 by exact Hl_b.
    rewrite Hoth9 by apply not_eq_sym, Hne_l. unfold m8, m7, m6. rewrite !mget_mset_other by apply Hne_l. exact Hlen5. }
  assert (Hok10 : hok st' m10).
  { apply (hok_same a objs globs st' (mem s2)); [exact Hok2|]. intros k A1. destruct (Hnm_in k A1) as (B1 & _). apply Hoth10, heap_neq', B1. }
  assert (Hres10 : mget m10 nres = Some {| o_ty := U8; o_cells := repeat 0 (0 + ha_hlen a) |}).
  { rewrite Hoth10 by congruence. transitivity (mget (mem s1) nres); [apply (Hhk2 fr1); [cbn [sc fresh]; rewrite Hfr_s1; unfold fr4; lia|exact D14]|]. rewrite Hs1 by apply buf_not_heap.
    rewrite Hoth9 by congruence. unfold m8, m7, m6, m5, m4. rewrite !mget_mset_other by congruence. unfold m3. rewrite mget_mset_same.
    do 3 f_equal. unfold hl. lia. }
  set (sd := St m10 [] "" (files s2) ps4 (fresh s2)).
  assert (Hfr_s2 : (S fr4 <= fresh s2)%nat) by (rewrite <- Hfr_s1; exact Hfresh2).
  stp fuel.
  destruct (getStringHash_refines cls a objs globs vt F Hspec sd st' fuel nh2 0 msg nres 0 (repeat 0%N (ha_hlen a)))
    as (s3 & stf & Ec3 & Hd3 & Hok3 & Hby3 & Hoth3 & Hhk3 & _ & Hio3).
  { rewrite Hmsg_len. pose proof (Nat.div_le_upper_bound (64 + ha_hlen a) 64 2 ltac:(lia) ltac:(lia)). lia. }
  { reflexivity. }
  { exact Hok10. }
  { right. exists (S (S (S fr1))). split; [cbn [sd fresh]; unfold fr4 in Hfr_s2; lia|reflexivity]. }
  { exact Hmsg_at. }
  { unfold msg. apply bytesb_app; [unfold okey; apply bytesb_xor; [lia|apply key1_bytes, Hkb]|apply Hout_bytes]. }
  { rewrite Hmsg_len. lia. }
  { right. exists fr1. split; [cbn [sd fresh]; unfold fr4 in Hfr_s2; lia|reflexivity]. }
  { change 0 with (Z.of_nat 0) at 1. apply (bytes_at_zero_range m10 nres _ 0 (ha_hlen a) Hres10 eq_refl). }
  { apply repeat_length. }
  apply call_file_prog in Ec3. rewrite Hmsg_len in Ec3.
  destruct Hio3 as (_ & _ & Hfiles3 & Hptrs3 & Hfresh3). cbn [sd files ptrs fresh] in Hfiles3, Hptrs3, Hfresh3.
  assert (Hres_ptr : lget ps4 (pfx ++ "hmac_res") = Some (VPtr nres 0)).
  { unfold ps4. rewrite lget_lset_other by (intro E; apply append_inj_l in E; discriminate E).
    rewrite Hptrs1 by exact Hq1. cbn [s0 ptrs]. unfold ps3. rewrite lget_lset_other by (apply not_eq_sym, Hq2).
    unfold ps2. apply lget_lset_same. }
  match goal with |- context [exec file_prog vt (S fuel) (SCall None "Hashmaster::getStringHash/3" ?th ?args) (St _ ?L pfx _ _ _)] =>
    rewrite (x_scall file_prog vt fuel None "Hashmaster::getStringHash/3" th args (St m10 L pfx (files s2) ps4 (fresh s2))
               [VPtr nh2 0; VInt (Z.of_nat (64 + ha_hlen a)); VPtr nres 0] "" None
               (St (mem s3) L pfx (files s3) (ptrs s3) (fresh s3)) (St (mem s3) L pfx (files s3) (ptrs s3) (fresh s3)))
  end.
  2:{ cbn [eval_list eval bind loc pre mem ptrs as_int lget String.eqb Ascii.eqb Bool.eqb]. fold lenk. rewrite Hlen10, Hres_ptr.
      rewrite load_u8 by (cbn; lia). cbn [bind as_int nth Z.to_nat eval_bin]. rewrite (wrap_U8_small hl) by lia.
      change (wrap I32 64) with 64. rewrite (wrap_I32_small hl) by lia. rewrite arith_I32_small by lia. cbn [bind as_int].
      rewrite (wrap_U32_small (64 + hl)) by lia. do 4 f_equal. unfold hl. lia. }
  2:{ reflexivity. }
  2:{ apply (call_any_caller file_prog vt fuel "Hashmaster::getStringHash/3" "" _ m10 _ pfx (files s2) ps4 (fresh s2) None s3 Ec3). }
  2:{ reflexivity. }
  cbn [bind]. rewrite Hptrs3, Hfiles3.
  (* 23-25. delete[] key1; delete buf; buf = NULL *)
  stp fuel. rewrite x_delete. cbn [eval bind loc lget String.eqb Ascii.eqb Bool.eqb].
  stp fuel. rewrite x_delete. cbn [eval bind loc pre ptrs]. unfold ps4 at 1. rewrite lget_lset_same. cbn [bind].
  destruct fuel as [|fuel]; [lia|]. rewrite x_setptr. cbn [eval bind loc pre]. unfold with_ptrs. cbn [mem loc pre files ptrs fresh].
  eexists. exists nres. split; [reflexivity|]. cbn [mem loc pre files ptrs fresh].
  split; [reflexivity|]. split; [reflexivity|]. split.
  { rewrite lget_lset_other by (intro E; apply append_inj_l in E; discriminate E). exact Hres_ptr. }
  split; [apply heap_is_hash|]. split; [exact Hby3|]. split.
  { unfold tag. fold okey. fold msg. rewrite <- Hd3. apply Hout_len. destruct Hok3 as (_ & _ & _ & A & _). exact A. }
  split.
  { rewrite Hoth3; [exact Hlen10|exact Hl_ho|apply not_eq_sym, Hne_l]. }
  split.
  { intros k A1 A2. rewrite Hoth3; [|apply file_owned_hash_owned, A1|apply heap_neq', fo_not_hash, A1].
    rewrite Hoth10 by (apply heap_neq', fo_not_hash, A1). apply Hm_s2; assumption. }
  { intros k A1. rewrite Hfiles2 by exact A1. apply Hfiles1, A1. }
Qed.
End Getres.

(* the hypotheses of Section Getres, bundled *)
Record hctx (cls : string) (a : halg) (objs : list (string * ity * Z)) (globs : memory) (vt : list (string * string)) (F : nat)
            (hmz : Z) (hbuf : nat) (pfx : string) : Prop := {
  hc_spec : class_spec cls a objs globs vt F;
  hc_fac : factory_spec cls a objs globs vt F hmz;
  hc_vtb : lget vt "buf." = Some "filebuffer64";
  hc_block : In ("hashblock", U8, 64) objs;
  hc_globs : forall k o, mget globs k = Some o -> is_prefix "buf." k = false /\ k <> "hashblock";
  hc_names : Forall (fun k => is_prefix "#" k = false /\ is_prefix "buf." k = false /\ is_prefix "sizeof:" k = false) (hasher_names objs globs);
  hc_memb : forall name t n, In (name, t, n) objs -> file_owned name = true;
  hc_hlen : (ha_hlen a <= 64)%nat;
  hc_out_len : forall h, List.length h = List.length (ha_init a) -> List.length (ha_out a h) = ha_hlen a;
  hc_out_bytes : forall h, bytesb (ha_out a h) = true;
  hc_h1 : (1 <= hbuf)%nat;
  hc_h2 : Z.of_nat (64 * hbuf) < 2 ^ 32;
  hc_p1 : file_owned (pfx ++ "length") = false;
  hc_p2 : ~ In (pfx ++ "length") (hasher_names objs globs);
  hc_p3 : is_prefix "sizeof:" (pfx ++ "length") = false;
  hc_p4 : "ipad" <> pfx ++ "length";
  hc_p5 : "opad" <> pfx ++ "length";
  hc_p6 : "HBUF_SZ" <> pfx ++ "length";
  hc_q1 : pfx ++ "hmac_res" <> "buf.fp";
  hc_q2 : pfx ++ "hmac_res" <> "class:buf.";
  hc_q3 : pfx ++ "buf" <> "buf.fp";
  hc_q4 : "alloc:filebuffer64" <> pfx ++ "hmac_res" }.

Lemma getres_ctx : forall cls a objs globs vt F hmz hbuf pfx (C : hctx cls a objs globs vt F hmz hbuf pfx) fpn
    fuel m l0 p0 fs ps fr0 keyo key fz f stream n st',
  (F + n + 120 <= fuel)%nat ->
  lget ps ("alloc:" ++ cls) = Some (VPtr "" 0) -> lget ps "alloc:filebuffer64" = Some (VPtr "buf." 0) ->
  no_sizeof m -> mget m "sizeof:filebuffer64.b" = Some (cell1 U32 (64 * Z.of_nat hbuf)) ->
  mget m "HBUF_SZ" = Some (cell1 U32 (Z.of_nat hbuf)) ->
  mget m "ipad" = Some (cell1 U8 54) -> mget m "opad" = Some (cell1 U8 92) ->
  globals_ok globs m ->
  (forall name t n, In (name, t, n) objs -> mget m name = None) ->
  (forall k, is_prefix "buf." k = true -> mget m k = None) ->
  (exists x, mget m (pfx ++ "length") = Some (cell1 U8 x)) ->
  mget m keyo = Some (bytes_object key) -> (16 <= List.length key)%nat -> bytesb key = true -> file_owned keyo = false -> keyo <> pfx ++ "length" ->
  lget fs fpn = Some f -> skipn (cf_pos f) (cf_data f) = map Z.of_N stream -> bytesb stream = true ->
  file_loop hbuf a n (reset a) (fb_new hbuf (Some (map (fun x => N.lxor x 54) (key1_of key))) stream) = Some st' ->
  let tag := getStringHash a (map (fun x => N.lxor x 92) (key1_of key) ++ ha_out a (hs_h st'))%list in
  exists s' nres,
    call file_prog vt fuel "hmac::getres/4" pfx [VInt hmz; VPtr keyo 0; VPtr fpn 0; VInt fz] (St m l0 p0 fs ps fr0) = Ok (None, s') /\
    loc s' = l0 /\ pre s' = p0 /\
    lget (ptrs s') (pfx ++ "hmac_res") = Some (VPtr nres 0) /\ is_prefix "#" nres = true /\
    bytes_at (mem s') nres 0 tag /\ List.length tag = ha_hlen a /\
    mget (mem s') (pfx ++ "length") = Some (cell1 U8 (Z.of_nat (ha_hlen a))) /\
    (forall k, file_owned k = false -> k <> pfx ++ "length" -> mget (mem s') k = mget m k) /\
    (forall k, k <> fpn -> lget (files s') k = lget fs k).
Proof.
  intros cls a objs globs vt F hmz hbuf pfx C fpn. destruct C.
  intros. eapply getres_refines; eassumption.
Qed.
