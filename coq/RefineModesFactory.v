(* Refinement: AesFactory::createCryMaster and the constructor chain of the eight stream classes
   (Gen/Src_aesmode.v) under MiniC create the stream object that ModesModel.create names; feeding it blocks
   through the virtual runcry gives ModesModel.run.  Thin layer over RefineAesKey (keyhandle) and RefineModes (runcry). *)
From Coq Require Import ZArith NArith List String Bool Lia.
From Wencry Require Import Bytes AesModel ModesModel MiniC MiniCRun MiniCLemmas SrcRun SrcRun2 AesProofs
     RefineAesLib RefineAesOps RefineAesKey RefineAes RefineModesOps RefineModes.
From Wencry Require ModesProofs.
From Wencry.Gen Require Src_aes Src_aesmode.
Import ListNotations.
Local Open Scope Z_scope.
Local Open Scope string_scope.

Local Notation P := aes_prog.

Ltac mget_tac ::=
  cbn [append];
  first [ rewrite mget_mset_same; reflexivity
        | rewrite mget_mset_other by neq_tac; mget_tac
        | eassumption
        | match goal with H : mget ?m ?k = Some _ |- mget ?m ?k = _ => exact H end
        | reflexivity ].
Ltac st_norm_hook ::= cbn [append].

(* ---------------- statements that change ptrs / fresh ---------------- *)
Lemma call_ret_gen : forall prog vt fuel fname pfx vs s fn l v s1,
  lget prog fname = Some fn -> bind_params (f_params fn) vs = Ok l ->
  exec prog vt fuel (f_body fn) {| mem := mem s; loc := l; pre := pfx; files := files s; ptrs := ptrs s; fresh := fresh s |} = Ok (Returned v, s1) ->
  call prog vt fuel fname pfx vs s =
  Ok (v, {| mem := mem s1; loc := loc s; pre := pre s; files := files s1; ptrs := ptrs s1; fresh := fresh s1 |}).
Proof. intros until s1. intros Hf Hb He. unfold call. rewrite Hf, Hb. cbn [bind]. rewrite He. reflexivity. Qed.

Lemma x_newobj : forall prog vt fuel x cls objs fname args s vs name off fn l o s1,
  eval_list s args = Ok vs ->
  lget (ptrs s) ("alloc:" ++ cls) = Some (VPtr name off) ->
  forallb (fun x : string * ity * Z => match mget (mem s) (name ++ fst (fst x)) with None => true | Some _ => false end) objs = true ->
  lget prog fname = Some fn -> bind_params (f_params fn) vs = Ok l ->
  exec prog vt fuel (f_body fn)
       {| mem := alloc_objs cls name objs (mem s); loc := l; pre := name; files := files s;
          ptrs := lset (ptrs s) (class_key name) (VPtr cls 0); fresh := S (fresh s) |} = Ok (o, s1) ->
  exec prog vt (S fuel) (SNewObj x cls objs (Some fname) args) s =
  Ok (Normal, {| mem := mem s1; loc := lset (loc s) x (VPtr name 0); pre := pre s; files := files s1; ptrs := ptrs s1; fresh := fresh s1 |}).
Proof.
  intros until s1. intros Hv Ha Hfr Hf Hb He. cbn [exec]. rewrite Hv. cbn [bind]. rewrite Ha, Hfr. cbn [negb].
  rewrite Hf, Hb. cbn [bind mem loc pre files ptrs fresh]. rewrite He. reflexivity.
Qed.

(* ---------------- the constructor chain ---------------- *)
Lemma aesmode_ctor_spec : forall s fuel iv ivc initc,
  (10 <= fuel)%nat ->
  mget (mem s) "iv0" = Some (bytes_object iv) -> block16 iv ->
  mget (mem s) "iv" = Some (bobj ivc) -> List.length ivc = 16%nat ->
  mget (mem s) "initiv" = Some (bobj initc) -> List.length initc = 16%nat ->
  call P [] fuel "Aesmode::Aesmode/1" "" [VPtr "iv0" 0] s
  = Ok (None, with_mem s (mset (mset (mem s) "initiv" (bytes_object iv)) "iv" (bytes_object iv))).
Proof.
  intros s fuel iv ivc initc Hf H0 Biv Hiv Hliv Hini Hlini.
  eapply call_mono; [|exact Hf].
  eapply call_normal; [reflexivity | reflexivity | | | | | ].
  - cbn [f_body Src_aesmode.f_Aesmode_Aesmode_1].
    eapply x_seq.
    + st_norm. eapply x_memcpy16; [ev | ev | cbn [mem]; mget_tac | eassumption | cbn [mem]; mget_tac | assumption].
    + st_norm. eapply x_memcpy16; [ev | ev | cbn [mem]; mget_tac | eassumption | cbn [mem]; mget_tac | assumption].
  - reflexivity.
  - reflexivity.
  - reflexivity.
  - st_norm. reflexivity.
Qed.

Definition key_mem (m : memory) (key : list N) (ik : list Z) : memory :=
  mset (mset m "crypt.key.init_key" (bobj (map Z.of_N key ++ skipn 16 ik)))
       "crypt.key.key" (bobj (concat (map (map Z.of_N) (genall key)))).

Lemma aeshandle_spec : forall s fuel key ik kc,
  (130 <= fuel)%nat -> tabs_ok (mem s) ->
  mget (mem s) "k" = Some (bytes_object key) -> block16 key ->
  mget (mem s) "crypt.key.init_key" = Some (bobj ik) -> List.length ik = 20%nat ->
  mget (mem s) "crypt.key.key" = Some (bobj kc) -> List.length kc = 176%nat ->
  call P [] fuel "aeshandle::aeshandle/1" "crypt." [VPtr "k" 0] s = Ok (None, with_mem s (key_mem (mem s) key ik)).
Proof.
  intros s fuel key ik kc Hf Ht Hk Bk Hik Hlik Hkc Hlkc.
  eapply call_mono; [|exact Hf].
  eapply call_normal; [reflexivity | reflexivity | | | | | ].
  - cbn [f_body Src_aesmode.f_aeshandle_aeshandle_1].
    st_norm. eapply x_call; [evl | reflexivity | | reflexivity].
    eapply (keyhandle_spec [] _ "crypt.key." _ "k" key ik kc);
      first [ lia | assumption | nt_tac | discriminate | (cbn [mem append]; assumption) ].
  - reflexivity.
  - reflexivity.
  - reflexivity.
  - st_norm. reflexivity.
Qed.

Lemma cipher_ctor_spec : forall (enc : bool) s fuel key ik kc,
  (140 <= fuel)%nat -> tabs_ok (mem s) ->
  mget (mem s) "k" = Some (bytes_object key) -> block16 key ->
  mget (mem s) "crypt.key.init_key" = Some (bobj ik) -> List.length ik = 20%nat ->
  mget (mem s) "crypt.key.key" = Some (bobj kc) -> List.length kc = 176%nat ->
  call P [] fuel (if enc then "encryaes::encryaes/1" else "decryaes::decryaes/1") "crypt." [VPtr "k" 0] s
  = Ok (None, with_mem s (key_mem (mem s) key ik)).
Proof.
  intros enc s fuel key ik kc Hf Ht Hk Bk Hik Hlik Hkc Hlkc.
  eapply call_mono; [|exact Hf].
  destruct enc.
  - eapply call_normal; [reflexivity | reflexivity | | | | | ].
    + cbn [f_body Src_aesmode.f_encryaes_encryaes_1].
      st_norm. eapply x_call; [evl | reflexivity | | reflexivity].
      eapply (aeshandle_spec _ _ key ik kc); first [ lia | assumption ].
    + reflexivity.
    + reflexivity.
    + reflexivity.
    + st_norm. reflexivity.
  - eapply call_normal; [reflexivity | reflexivity | | | | | ].
    + cbn [f_body Src_aesmode.f_decryaes_decryaes_1].
      st_norm. eapply x_call; [evl | reflexivity | | reflexivity].
      eapply (aeshandle_spec _ _ key ik kc); first [ lia | assumption ].
    + reflexivity.
    + reflexivity.
    + reflexivity.
    + st_norm. reflexivity.
Qed.

Definition chain_mem (m : memory) (key iv : list N) (ik : list Z) : memory :=
  key_mem (mset (mset m "initiv" (bytes_object iv)) "iv" (bytes_object iv)) key ik.

Lemma base_ctor_spec : forall (enc : bool) s fuel key iv ivc initc ik kc,
  (160 <= fuel)%nat -> tabs_ok (mem s) ->
  mget (mem s) "k" = Some (bytes_object key) -> block16 key ->
  mget (mem s) "iv0" = Some (bytes_object iv) -> block16 iv ->
  mget (mem s) "iv" = Some (bobj ivc) -> List.length ivc = 16%nat ->
  mget (mem s) "initiv" = Some (bobj initc) -> List.length initc = 16%nat ->
  mget (mem s) "crypt.key.init_key" = Some (bobj ik) -> List.length ik = 20%nat ->
  mget (mem s) "crypt.key.key" = Some (bobj kc) -> List.length kc = 176%nat ->
  call P [] fuel (if enc then "AesEncrypt::AesEncrypt/2" else "AesDecrypt::AesDecrypt/2") "" [VPtr "k" 0; VPtr "iv0" 0] s
  = Ok (None, with_mem s (chain_mem (mem s) key iv ik)).
Proof.
  intros enc s fuel key iv ivc initc ik kc Hf Ht Hk Bk H0 Biv Hiv Hliv Hini Hlini Hik Hlik Hkc Hlkc.
  eapply call_mono; [|exact Hf].
  assert (Ht' : tabs_ok (mset (mset (mem s) "initiv" (bytes_object iv)) "iv" (bytes_object iv)))
    by (repeat (apply tabs_ok_mset; [nt_tac|]); exact Ht).
  destruct enc.
  - eapply call_normal; [reflexivity | reflexivity | | | | | ].
    + cbn [f_body Src_aesmode.f_AesEncrypt_AesEncrypt_2].
      eapply x_seq.
      * st_norm. eapply x_call; [evl | reflexivity | | reflexivity].
        eapply (aesmode_ctor_spec _ _ iv ivc initc); first [ lia | assumption ].
      * st_norm. eapply x_call; [evl | reflexivity | | reflexivity].
        eapply (cipher_ctor_spec true _ _ key ik kc);
          first [ lia | assumption | (cbn [mem]; exact Ht') | (cbn [mem]; mget_tac) ].
    + reflexivity.
    + reflexivity.
    + reflexivity.
    + st_norm. reflexivity.
  - eapply call_normal; [reflexivity | reflexivity | | | | | ].
    + cbn [f_body Src_aesmode.f_AesDecrypt_AesDecrypt_2].
      eapply x_seq.
      * st_norm. eapply x_call; [evl | reflexivity | | reflexivity].
        eapply (aesmode_ctor_spec _ _ iv ivc initc); first [ lia | assumption ].
      * st_norm. eapply x_call; [evl | reflexivity | | reflexivity].
        eapply (cipher_ctor_spec false _ _ key ik kc);
          first [ lia | assumption | (cbn [mem]; exact Ht') | (cbn [mem]; mget_tac) ].
    + reflexivity.
    + reflexivity.
    + reflexivity.
    + st_norm. reflexivity.
Qed.

Lemma chain_rep : forall m key iv ik wc,
  tabs_ok m -> mget m "crypt.w" = Some (bobj wc) -> List.length wc = 16%nat -> block16 iv ->
  mode_rep (genall key) iv (chain_mem m key iv ik).
Proof.
  intros m key iv ik wc Ht Hw Hlw Biv. unfold mode_rep, chain_mem, key_mem.
  split; [repeat (apply tabs_ok_mset; [nt_tac|]); exact Ht|].
  split; [mget_tac|]. split; [assumption|].
  split; [exists wc; split; [mget_tac | assumption] | mget_tac].
Qed.

(* ---------------- the virtual runcry loop ---------------- *)
Lemma run_blocks_virt_spec : forall ks, List.length ks = 11%nat -> Forall block16 ks ->
  forall kind blks s acc iv off,
  lget (ptrs s) (class_key "") = Some (VPtr (cls_of kind) off) ->
  mode_rep ks iv (mem s) -> Forall block16 blks ->
  run_blocks_virt blks s acc = SOk (rev acc ++ snd (run (aes_enc_with ks) (aes_dec_with ks) kind iv blks))%list.
Proof.
  intros ks Hlks Bks kind blks. induction blks as [|b r IH]; intros s acc iv off Hcls Hrep Hbs.
  - cbn [run_blocks_virt run snd]. now rewrite app_nil_r.
  - inversion Hbs as [|? ? Bb Br]; subst. cbn [run_blocks_virt].
    set (s1 := with_mem s (mset (mem s) "blk" (bytes_object b))).
    change (ptrs s1) with (ptrs s). rewrite Hcls.
    destruct (runcry_all ks Hlks Bks kind s1 300 iv b) as (m' & Hcall & Hrep' & Hblk').
    + lia.
    + unfold s1. cbn [mem with_mem]. apply mode_rep_set_blk. exact Hrep.
    + unfold s1. cbn [mem with_mem]. apply mget_mset_same.
    + exact Bb.
    + change mode_prog with aes_prog. rewrite Hcall. cbn [of_res snd]. unfold get_bytes. cbn [mem with_mem]. rewrite Hblk'.
      rewrite object_bytes_bytes_object.
      rewrite (IH (with_mem s1 m') (snd (runcry (aes_enc_with ks) (aes_dec_with ks) kind iv b) :: acc)
                  (fst (runcry (aes_enc_with ks) (aes_dec_with ks) kind iv b)) off Hcls Hrep' Br).
      f_equal. rewrite ModesProofs.snd_run_cons. cbn [rev]. rewrite <- app_assoc. reflexivity.
Qed.

(* ---------------- the factory ---------------- *)
Definition factory_state (key iv : list N) : state :=
  {| mem := (Src_aes.globals ++ [("k", bytes_object key); ("iv0", bytes_object iv); ("blk", mk_object U8 16)])%list;
     loc := []; pre := ""; files := [];
     ptrs := (mode_alloc_plan ++ [("af.key", VPtr "k" 0); ("af.iv", VPtr "iv0" 0)])%list; fresh := 0 |}.

Ltac ctor_unfold :=
  cbn [f_body Src_aesmode.f_AesECB_Enc_AesECB_Enc_2 Src_aesmode.f_AesECB_Dec_AesECB_Dec_2
       Src_aesmode.f_AesCBC_Enc_AesCBC_Enc_2 Src_aesmode.f_AesCBC_Dec_AesCBC_Dec_2 Src_aesmode.f_AesCTR_AesCTR_2
       Src_aesmode.f_AesCFB_Enc_AesCFB_Enc_2 Src_aesmode.f_AesCFB_Dec_AesCFB_Dec_2 Src_aesmode.f_AesOFB_AesOFB_2].
Ltac hyp_tac := first [ lia | assumption | reflexivity | (repeat split; reflexivity) ].
Ltac factory_exec enc :=
  cbn [f_body Src_aesmode.f_AesFactory_createCryMaster_2];
  eapply x_if; [ev|]; cbn [Z.eqb Pos.eqb];
  eapply x_seq; [xs|];
  repeat (st_norm; eapply x_if; [ev | cbn [Z.eqb Pos.eqb]]);
  eapply x_seq;
  [ st_norm; eapply x_newobj; [reflexivity | reflexivity | reflexivity | reflexivity | reflexivity | ];
    ctor_unfold; eapply x_call; [evl | reflexivity | eapply (base_ctor_spec enc); hyp_tac | reflexivity]
  | st_norm; eapply x_return_some; ev ].

Ltac fcase enc :=
  eexists; split;
  [ eapply call_ret_gen; [reflexivity | reflexivity | factory_exec enc]
  | split; [ cbn [mem]; eapply chain_rep; hyp_tac | reflexivity ] ].

Lemma factory_ok : forall isenc type kind key iv,
  create isenc type = Some kind -> block16 key -> block16 iv ->
  exists s', call P [] 300 "AesFactory::createCryMaster/2" "af." [VInt (if isenc then 1 else 0); VInt (Z.of_N type)] (factory_state key iv)
             = Ok (Some (VPtr "" 0), s') /\
             mode_rep (genall key) iv (mem s') /\
             lget (ptrs s') (class_key "") = Some (VPtr (cls_of kind) 0).
Proof.
  intros isenc type kind key iv Hc Bk Biv.
  assert (Hm : (type <= 4)%N).
  { destruct (N.le_gt_cases type 4) as [Hle|Hgt]; [exact Hle|].
    apply (proj2 (ModesProofs.C10_factory_domain_proof isenc type)) in Hgt. rewrite Hgt in Hc. discriminate. }
  destruct (ModesProofs.mode_cases type Hm) as [->|[->|[->|[->| ->]]]]; destruct isenc; cbn in Hc;
    injection Hc as <-; cbn [Z.of_N cls_of].
  - fcase true.
  - fcase false.
  - fcase true.
  - fcase false.
  - fcase true.
  - fcase true.
  - fcase true.
  - fcase true.
  - fcase true.
  - fcase true.
Qed.

(* type >= 5: both switches fall through to `return NULL` *)
Lemma factory_null : forall (isenc : bool) (type : N) (key iv : list N), (5 <= type < 256)%N ->
  exists s', call P [] 300 "AesFactory::createCryMaster/2" "af." [VInt (if isenc then 1 else 0); VInt (Z.of_N type)] (factory_state key iv)
             = Ok (Some VNull, s').
Proof.
  intros isenc type key iv Hty.
  assert (Hw : wrap I32 (Z.of_N type) = Z.of_N type) by (apply wrap_I32_small; lia).
  assert (E0 : (Z.of_N type =? 0)%Z = false) by (apply Z.eqb_neq; lia).
  assert (E1 : (Z.of_N type =? 1)%Z = false) by (apply Z.eqb_neq; lia).
  assert (E2 : (Z.of_N type =? 2)%Z = false) by (apply Z.eqb_neq; lia).
  assert (E3 : (Z.of_N type =? 3)%Z = false) by (apply Z.eqb_neq; lia).
  assert (E4 : (Z.of_N type =? 4)%Z = false) by (apply Z.eqb_neq; lia).
  destruct isenc; eexists; (eapply call_ret_gen; [reflexivity | reflexivity | ]);
    cbn [f_body Src_aesmode.f_AesFactory_createCryMaster_2];
    (eapply x_if; [ev|]); cbn [Z.eqb Pos.eqb];
    (eapply x_seq; [xs|]);
    do 5 (st_norm; eapply x_if; [ev | rewrite ?Hw, ?E0, ?E1, ?E2, ?E3, ?E4; cbn [Z.eqb]]);
    st_norm; eapply x_return_some; reflexivity.
Qed.

Theorem SRC_mode_factory_proof : forall (isenc : bool) type key iv blks,
  (type < 256)%N -> block16 key -> block16 iv -> Forall block16 blks ->
  src_mode_factory isenc type key iv blks =
  match create isenc type with
  | Some kind => SOk (snd (run (aes_enc_with (genall key)) (aes_dec_with (genall key)) kind iv blks))
  | None => SErr "NULL"%string
  end.
Proof.
  intros isenc type key iv blks Hty Bk Biv Bbs.
  unfold src_mode_factory. change mode_prog with aes_prog.
  fold (factory_state key iv).
  destruct (create isenc type) as [kind|] eqn:Hc.
  - destruct (factory_ok isenc type kind key iv Hc Bk Biv) as (s' & Hcall & Hrep & Hcls).
    rewrite Hcall. cbn [of_res fst snd].
    rewrite (run_blocks_virt_spec (genall key) (genall_length key) (genall_blocks key Bk) kind blks s' [] iv 0 Hcls Hrep Bbs).
    reflexivity.
  - assert (Hgt : (4 < type)%N) by (apply (proj1 (ModesProofs.C10_factory_domain_proof isenc type)); exact Hc).
    destruct (factory_null isenc type key iv ltac:(lia)) as (s' & Hcall).
    rewrite Hcall. reflexivity.
Qed.
Print Assumptions SRC_mode_factory_proof.

(* non-vacuity: a CTR object created by the factory over two blocks of the SP 800-38A vectors, and a NULL *)
Example SRC_mode_factory_nonvacuous :
  (2 < 256)%N /\ block16 ModesProofs.ex_key /\ block16 ModesProofs.ex_ctr /\
  Forall block16 [ModesProofs.ex_p1; ModesProofs.ex_p2] /\
  src_mode_factory true 7 ModesProofs.ex_key ModesProofs.ex_ctr [ModesProofs.ex_p1] = SErr "NULL".
Proof. repeat split; try (vm_compute; reflexivity); repeat constructor; vm_compute; reflexivity. Qed.
