(* Stage 5 (generalisation of RefineConcSim): the canonical machine states of the buffer hand-over protocol for an ARBITRARY
   layout -- names of the heap objects, program, frames of the main thread below run_multicry, the rest of the memory,
   and an arbitrary stream object (class with a runcry method) specified by a relation to a PipeConc stream state.
   [Layout] is the data, [LayoutOk] the properties the generic layers M and R use. *)
From Coq Require Import ZArith NArith List String Bool Ascii.
From Wencry Require Import Bytes FileModel PipeConc MiniC MiniCConc SrcRun.
From Wencry Require RefineConcSim.
From Wencry.Gen Require Src_conc.
Import ListNotations.
Local Open Scope string_scope.
Local Open Scope list_scope.

Definition locs := list (string * value).
Notation elem_pfx := RefineConcSim.elem_pfx.      (* (o ++ "[" ++ z_string i ++ "].") *)

(* ================= the data of a machine state, and the thread ghost ================= *)
Record mbuf := { mb_cells : list Z; mb_tot : Z; mb_now : Z; mb_tail : Z; mb_fin : bool; mb_st : nat }.
Record mdata := {
  d_turn : nat; d_over : bool; d_live : nat;
  d_sm : memory;                               (* the part of the memory that belongs to the stream objects *)
  d_bufs : list mbuf;
  d_pos : nat; d_eof : bool;
  d_out : list Z }.
Record tghost := {
  g_rb : list (string * value);
  g_bu : list (string * value);
  g_wl : list (list (string * value)) }.

Definition cell (t : ity) (v : Z) : object := {| o_ty := t; o_cells := [v] |}.
Definition b2z (b : bool) : Z := if b then 1 else 0.
Definition zeros_obj (n : nat) : object := {| o_ty := U8; o_cells := repeat 0%Z n |}.
Definition mb0 : mbuf := {| mb_cells := []; mb_tot := 0; mb_now := 0; mb_tail := 0; mb_fin := false; mb_st := 0 |}.

(* the normalisation of the machine's events (the definitions of Properties_SrcConc.v) *)
Definition norm_ev (e : MiniCConc.event) : PipeConc.event :=
  match e with (k, o, v) => (Z.to_nat k, if (o <? 0)%Z then NOOBJ else Z.to_nat o, Z.to_nat v) end.
Definition is_marker (e : MiniCConc.event) : bool := match e with (k, _, _) => (k =? 20)%Z || (k =? 21)%Z end.
Definition nev (evs : list MiniCConc.event) : list PipeConc.event := map norm_ev (filter (fun e => negb (is_marker e)) evs).

Class Layout : Type := {
  LS : Type;                                        (* the model's stream state *)
  Ltr : LS -> list N -> LS * list N;
  Lev : nat -> LS -> list PipeConc.event;
  LdS : LS;
  Lsig0 : nat -> list LS;                           (* the initial stream states of the model *)
  Lprog : program;
  GP : string;                                      (* prefix of the buffergroup object: "#0." *)
  BL : string; CT : string;                         (* the arrays buflst, ctrl: "#1", "#2" *)
  MA : string;                                      (* the array of stream-object pointers: "modes" *)
  CP : string;                                      (* prefix of the multicry_master object: "crym." *)
  mp : nat -> string;                               (* prefix of stream object i *)
  bot_locs : nat -> bool -> locs;                   (* the frame that called run_multicry: locals, prefix, continuation *)
  bot_pre : string;
  Kbot : nat -> bool -> kont;
  Tdone : nat -> bool -> cthread;                   (* the main thread at the lock of del_instance *)
  ev_done : nat -> list event;                      (* events between the last join and that lock *)
  Lfresh : nat -> nat;
  Lpos0 : nat;                                      (* position of the input stream when the protocol starts *)
  Lout0 : list Z;                                   (* what the output stream holds when the protocol starts *)
  mem_of : nat -> nat -> bool -> mdata -> memory;
  ptrs_of : nat -> locs;
  srep : nat -> nat -> LS -> memory -> Prop;        (* srep T i x sm: in sm stream object i represents the model state x *)
}.

Section Defs.
Context {LY : Layout}.

Definition bpfx (i : nat) : string := elem_pfx BL i.
Definition cpfx (i : nat) : string := elem_pfx CT i.
Definition inst : value := VPtr GP 0.
Definition pstate := PipeConc.state LS.

(* ================= program points ================= *)
Fixpoint seq_at (n : nat) (s : stmt) (k : kont) : stmt * kont :=
  match n, s with
  | O, SSeq a b => (a, KSeq b k)
  | O, _ => (s, k)
  | S n', SSeq _ b => seq_at n' b k
  | S _, _ => (s, k)
  end.
Definition if_then (s : stmt) : stmt := match s with SIf _ a _ => a | _ => SSkip end.
Definition loop_step (s : stmt) : stmt := match s with SLoop _ _ st => st | _ => SSkip end.
Definition kloopstep (s : stmt) (k : kont) : kont := match s with SLoop c b st => KLoopStep c b st k | _ => k end.
Definition kdobody (s : stmt) (k : kont) : kont := match s with SDoWhile b c => KDoBody b c k | _ => k end.
Definition do_body (s : stmt) : stmt := match s with SDoWhile b _ => b | _ => SSkip end.

Definition B_mf := f_body Src_conc.f_multiruncrypt_file_2.
Definition B_wr := f_body Src_conc.f_bufferctrl_wait_ready_0.
Definition B_wu := f_body Src_conc.f_bufferctrl_wait_update_0.
Definition B_sr := f_body Src_conc.f_bufferctrl_set_ready_1.
Definition B_su := f_body Src_conc.f_bufferctrl_set_update_0.
Definition B_rbe := f_body Src_conc.f_buffergroup_require_buffer_entry_1.
Definition B_bu := f_body Src_conc.f_buffergroup_buffer_update_1.
Definition B_rb := f_body Src_conc.f_buffergroup_run_buffer_1.
Definition B_ti := f_body Src_conc.f_buffergroup_turn_iter_0.
Definition B_rm := f_body Src_conc.f_multicry_master_run_multicry_2.
Definition B_di := f_body Src_conc.f_buffergroup_del_instance_0.

Definition mk (st : stmt) (k : kont) (l : locs) (p : string) (stt : tstatus) : cthread :=
  {| ct_cur := st; ct_k := k; ct_loc := l; ct_pre := p; ct_st := stt |}.
Definition mk2 (sk : stmt * kont) (l : locs) (p : string) (stt : tstatus) : cthread := mk (fst sk) (snd sk) l p stt.

(* ---- worker i ---- *)
Definition wl0 (i : nat) : locs := [("id", VInt (Z.of_nat i)); ("mode", VPtr (mp i) 0)].
Definition wl1 (i : nat) : locs := wl0 i ++ [("$t1", inst); ("iobuffer", inst)].
Definition rbe_locs (i : nat) : locs := [("id", VInt (Z.of_nat i)); ("$t1", VNull); ("result", VNull)].
Definition mf_loop : stmt := fst (seq_at 5 B_mf KStop).
Definition rbe_ctx (wl : locs) : kont :=
  if Nat.eqb (List.length wl) 4 then KCall (Some "$t2") wl "" (snd (seq_at 3 B_mf KStop))
  else KCall (Some "$t3") wl "" (snd (seq_at 0 (loop_step mf_loop) (kloopstep mf_loop KStop))).
Definition rbe_kA (wl : locs) : kont := snd (seq_at 4 B_rbe (rbe_ctx wl)).
Definition rbe_A : stmt := if_then (fst (seq_at 4 B_rbe KStop)).
Definition wr_frame (i : nat) (wl : locs) (from_start : bool) : kont :=
  if from_start then KCall None [("id", VInt (Z.of_nat i))] GP (KCall None wl "" (snd (seq_at 2 B_mf KStop)))
  else KCall None (rbe_locs i) GP (snd (seq_at 1 rbe_A (rbe_kA wl))).
Definition wr_loop : stmt := fst (seq_at 1 B_wr KStop).
Definition wr_sleep_k (fr : kont) : kont := kloopstep wr_loop (snd (seq_at 1 B_wr fr)).

Definition worker_thread (i : nat) (p : wpc) (wl : locs) : cthread :=
  match p with
  | W_New => mk B_mf KStop wl "" TRun
  | W_Start => mk2 (seq_at 0 B_wr (wr_frame i wl true)) [] (cpfx i) TRun
  | W_Get => mk2 (seq_at 0 B_rbe (rbe_ctx wl)) [("id", VInt (Z.of_nat i))] GP TRun
  | W_SetUpdate => mk2 (seq_at 0 B_su (KCall None (rbe_locs i) GP (snd (seq_at 0 rbe_A (rbe_kA wl))))) [] (cpfx i) TRun
  | W_WaitReady => mk2 (seq_at 0 B_wr (wr_frame i wl false)) [] (cpfx i) TRun
  | W_Asleep f => mk SSkip (wr_sleep_k (wr_frame i wl f)) [] (cpfx i) (TSleep ((cpfx i ++ "cv_ready")%string) ((cpfx i ++ "lock")%string))
  | W_Awake f => mk SSkip (wr_sleep_k (wr_frame i wl f)) [] (cpfx i) (TAwake ((cpfx i ++ "lock")%string))
  | W_Cmp => mk2 (seq_at 2 rbe_A (rbe_kA wl)) (rbe_locs i) GP TRun
  | W_Done => mk SSkip KStop wl "" TDone
  end.

(* ---- the I/O (main) thread ---- *)
Definition rm_locs (T : nat) : locs := [("mode", VPtr MA 0); ("i", VInt (Z.of_nat T)); ("$t1", inst)].
Definition F_rm (T : nat) (pad : bool) : kont := KCall None (bot_locs T pad) bot_pre (Kbot T pad).
Definition F_rb (T : nat) (pad : bool) : kont := KCall None (rm_locs T) CP (snd (seq_at 3 B_rm (F_rm T pad))).
Definition K_do (T : nat) (pad : bool) : kont := kdobody B_rb (F_rb T pad).
Definition rb_body : stmt := do_body B_rb.
Definition wu_loop : stmt := fst (seq_at 1 B_wu KStop).
Definition F_wu (T : nat) (pad : bool) (rb : locs) : kont := KCall None rb GP (snd (seq_at 0 rb_body (K_do T pad))).
Definition F_bu (T : nat) (pad : bool) (rb : locs) : kont := KCall None rb GP (snd (seq_at 1 rb_body (K_do T pad))).
Definition bu_if : stmt := if_then (fst (seq_at 5 B_bu KStop)).
Definition join_loop : stmt := fst (seq_at 5 B_rm KStop).

Definition io_thread (T : nat) (pad : bool) (p : ipc) (turn : nat) (g : tghost) : cthread :=
  let rb := g_rb g in
  match p with
  | I_WaitUpdate => mk2 (seq_at 0 B_wu (F_wu T pad rb)) [] (cpfx turn) TRun
  | I_Asleep => mk SSkip (kloopstep wu_loop (snd (seq_at 1 B_wu (F_wu T pad rb)))) [] (cpfx turn)
                   (TSleep ((cpfx turn ++ "cv_update")%string) ((cpfx turn ++ "lock")%string))
  | I_Awake => mk SSkip (kloopstep wu_loop (snd (seq_at 1 B_wu (F_wu T pad rb)))) [] (cpfx turn) (TAwake ((cpfx turn ++ "lock")%string))
  | I_Cmp => mk2 (seq_at 1 B_bu (F_bu T pad rb)) (g_bu g) GP TRun
  | I_Export => mk2 (seq_at 1 bu_if (snd (seq_at 5 B_bu (F_bu T pad rb)))) (g_bu g) GP TRun
  | I_Load => mk2 (seq_at 7 B_bu (F_bu T pad rb)) (g_bu g) GP TRun
  | I_SetReady ls => mk2 (seq_at 0 B_sr (KCall None (g_bu g) GP (F_bu T pad rb)))
                         [("load", VInt (if Nat.eqb ls 2 then 0 else 1))] (cpfx turn) TRun
  | I_Turn => mk2 (seq_at 0 B_ti (KCall (Some "$t1") rb GP (snd (seq_at 2 rb_body (K_do T pad))))) [] GP TRun
  | I_Join k => mk (loop_step join_loop) (kloopstep join_loop (F_rm T pad)) (rm_locs T ++ [("i'1", VInt (Z.of_nat k))]) CP
                   (TJoin (S k))
  | I_Done => Tdone T pad
  end.

(* ================= shared state ================= *)
Definition files_of (input0 : list N) (d : mdata) : list (string * cfile) :=
  [("fin", {| cf_data := map Z.of_N input0; cf_pos := d_pos d; cf_eof := d_eof d |});
   ("fout", {| cf_data := d_out d; cf_pos := List.length (d_out d); cf_eof := false |})].

Definition sh_of (c T : nat) (pad : bool) (input0 : list N) (d : mdata) : state :=
  {| mem := mem_of c T pad d; loc := []; pre := ""; files := files_of input0 d; ptrs := ptrs_of T; fresh := Lfresh T |}.

Definition threads_of (T : nat) (pad : bool) (p : ipc) (ws : list wpc) (turn : nat) (g : tghost) : list cthread :=
  io_thread T pad p turn g :: map (fun i => worker_thread i (nth i ws W_Done) (nth i (g_wl g) [])) (seq 0 T).

Definition cstate_md (c T : nat) (pad : bool) (input0 : list N) (p : ipc) (ws : list wpc) (d : mdata) (g : tghost) : cstate :=
  {| cs_sh := sh_of c T pad input0 d; cs_thr := threads_of T pad p ws (d_turn d) g; cs_mx := [] |}.

(* ================= updates of the data ================= *)
Definition upd_buf (i : nat) (f : mbuf -> mbuf) (bs : list mbuf) : list mbuf := set_nth i (f (nth i bs mb0)) bs.
Definition with_live (d : mdata) (v : nat) : mdata :=
  {| d_turn := d_turn d; d_over := d_over d; d_live := v; d_sm := d_sm d; d_bufs := d_bufs d; d_pos := d_pos d; d_eof := d_eof d; d_out := d_out d |}.
Definition with_turn (d : mdata) (v : nat) : mdata :=
  {| d_turn := v; d_over := d_over d; d_live := d_live d; d_sm := d_sm d; d_bufs := d_bufs d; d_pos := d_pos d; d_eof := d_eof d; d_out := d_out d |}.
Definition with_over (d : mdata) (v : bool) : mdata :=
  {| d_turn := d_turn d; d_over := v; d_live := d_live d; d_sm := d_sm d; d_bufs := d_bufs d; d_pos := d_pos d; d_eof := d_eof d; d_out := d_out d |}.
Definition with_sm (d : mdata) (v : memory) : mdata :=
  {| d_turn := d_turn d; d_over := d_over d; d_live := d_live d; d_sm := v; d_bufs := d_bufs d; d_pos := d_pos d; d_eof := d_eof d; d_out := d_out d |}.
Definition with_bufs (d : mdata) (v : list mbuf) : mdata :=
  {| d_turn := d_turn d; d_over := d_over d; d_live := d_live d; d_sm := d_sm d; d_bufs := v; d_pos := d_pos d; d_eof := d_eof d; d_out := d_out d |}.
Definition with_fin (d : mdata) (p : nat) (e : bool) : mdata :=
  {| d_turn := d_turn d; d_over := d_over d; d_live := d_live d; d_sm := d_sm d; d_bufs := d_bufs d; d_pos := p; d_eof := e; d_out := d_out d |}.
Definition with_out (d : mdata) (v : list Z) : mdata :=
  {| d_turn := d_turn d; d_over := d_over d; d_live := d_live d; d_sm := d_sm d; d_bufs := d_bufs d; d_pos := d_pos d; d_eof := d_eof d; d_out := v |}.

Definition mb_with_cells (v : list Z) (b : mbuf) : mbuf :=
  {| mb_cells := v; mb_tot := mb_tot b; mb_now := mb_now b; mb_tail := mb_tail b; mb_fin := mb_fin b; mb_st := mb_st b |}.
Definition mb_with_tot (v : Z) (b : mbuf) : mbuf :=
  {| mb_cells := mb_cells b; mb_tot := v; mb_now := mb_now b; mb_tail := mb_tail b; mb_fin := mb_fin b; mb_st := mb_st b |}.
Definition mb_with_now (v : Z) (b : mbuf) : mbuf :=
  {| mb_cells := mb_cells b; mb_tot := mb_tot b; mb_now := v; mb_tail := mb_tail b; mb_fin := mb_fin b; mb_st := mb_st b |}.
Definition mb_with_tail (v : Z) (b : mbuf) : mbuf :=
  {| mb_cells := mb_cells b; mb_tot := mb_tot b; mb_now := mb_now b; mb_tail := v; mb_fin := mb_fin b; mb_st := mb_st b |}.
Definition mb_with_fin (v : bool) (b : mbuf) : mbuf :=
  {| mb_cells := mb_cells b; mb_tot := mb_tot b; mb_now := mb_now b; mb_tail := mb_tail b; mb_fin := v; mb_st := mb_st b |}.
Definition mb_with_st (v : nat) (b : mbuf) : mbuf :=
  {| mb_cells := mb_cells b; mb_tot := mb_tot b; mb_now := mb_now b; mb_tail := mb_tail b; mb_fin := mb_fin b; mb_st := v |}.

Definition with_wl (g : tghost) (i : nat) (wl : locs) : tghost := {| g_rb := g_rb g; g_bu := g_bu g; g_wl := set_nth i wl (g_wl g) |}.
Definition with_rb (g : tghost) (l : locs) : tghost := {| g_rb := l; g_bu := g_bu g; g_wl := g_wl g |}.
Definition with_bu (g : tghost) (l : locs) : tghost := {| g_rb := g_rb g; g_bu := l; g_wl := g_wl g |}.
Definition dset (d : mdata) (i : nat) (B : mbuf) : mdata := with_bufs d (set_nth i B (d_bufs d)).

End Defs.
