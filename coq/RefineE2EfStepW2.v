(* Layer M, the workers (2): W_Get and W_Cmp -- iobuffer::get_entry, TagMode::runcry on the block, thread exit. *)
From Coq Require Import ZArith NArith List String Bool Lia Arith.
From Wencry Require Import Bytes FileModel PipeConc PipeLemmas MiniC MiniCLemmas MiniCConc SrcRun RefineSeqDefs RefineSeqA RefineSeqB.
From Wencry Require Import RefineE2EfLay RefineE2EfMach RefineE2EfMem RefineE2EfTac RefineE2EfStepW.
From Wencry.Gen Require Src_conc.
Import ListNotations.
Local Open Scope string_scope.
Local Open Scope list_scope.

Lemma load_byte : forall cells off, (0 <= off < Z.of_nat (List.length cells))%Z ->
  load_obj {| o_ty := U8; o_cells := cells |} U8 off = Ok (wrap U8 (nth (Z.to_nat off) cells 0%Z)).
Proof.
  intros cells off H. unfold load_obj. cbn [o_ty o_cells]. change (ity_bytes U8) with 1%Z.
  destruct (off <? 0)%Z eqn:E; [apply Z.ltb_lt in E; lia|]. change (1 =? 1)%Z with true. cbv iota.
  rewrite Z.mod_1_r, Z.div_1_r. change (0 =? 0)%Z with true. cbv iota.
  destruct (off <? Z.of_nat (List.length cells))%Z eqn:E2; [reflexivity|apply Z.ltb_ge in E2; lia].
Qed.
Lemma store_byte : forall cells off v, (0 <= off < Z.of_nat (List.length cells))%Z ->
  store_obj {| o_ty := U8; o_cells := cells |} U8 off v = Ok {| o_ty := U8; o_cells := upd_nth (Z.to_nat off) (wrap U8 v) cells |}.
Proof.
  intros cells off v H. unfold store_obj. cbn [o_ty o_cells]. change (ity_bytes U8) with 1%Z.
  destruct (off <? 0)%Z eqn:E; [apply Z.ltb_lt in E; lia|]. change (1 =? 1)%Z with true. cbv iota.
  rewrite Z.mod_1_r, Z.div_1_r. change (0 =? 0)%Z with true. cbv iota.
  destruct (off <? Z.of_nat (List.length cells))%Z eqn:E2; [reflexivity|apply Z.ltb_ge in E2; lia].
Qed.
Lemma lxor_byte : forall a b, (0 <= a < 256)%Z -> (0 <= b < 256)%Z -> (0 <= Z.lxor a b < 256)%Z.
Proof.
  intros a b Ha Hb. split; [apply Z.lxor_nonneg; lia|].
  destruct (Z.eq_dec (Z.lxor a b) 0) as [->|N]; [lia|].
  apply Z.log2_lt_cancel. change (Z.log2 256) with 8%Z.
  eapply Z.le_lt_trans; [apply Z.log2_lxor; lia|].
  apply Z.max_lub_lt; (destruct (Z.eq_dec a 0); destruct (Z.eq_dec b 0); subst; try (cbn; lia));
    apply Z.log2_lt_pow2; lia.
Qed.

Lemma Forall_upd_nth : forall (P : Z -> Prop) l n v, Forall P l -> P v -> Forall P (upd_nth n v l).
Proof.
  intros P l. induction l as [|x l IH]; intros n v H Hv; [destruct n; constructor|].
  inversion H; subst. destruct n; cbn [upd_nth]; constructor; auto.
Qed.

Section W2.
Context {LY : Layout} {LO : LayoutOk}.
Variables (c T : nat) (pad : bool) (input0 : list N).
Notation cst := (cstate_md c T pad input0).
Notation sho := (sh_of c T pad input0).

Lemma rd_now : forall d i l, (i < T)%nat -> (0 <= mb_now (nth i (d_bufs d) mb0) < 2 ^ 32)%Z ->
  eval (tst (sho d) l (bpfx i)) (ELoad U32 (EField "now")) = Ok (VInt (mb_now (nth i (d_bufs d) mb0))).
Proof. intros d i l Hi H. evs. rewrite mget_now by exact Hi. rewrite load_cell. rewrite wrap_U32_small by lia. reflexivity. Qed.
Lemma rd_tot : forall d i l, (i < T)%nat -> (0 <= mb_tot (nth i (d_bufs d) mb0) < 2 ^ 32)%Z ->
  eval (tst (sho d) l (bpfx i)) (ELoad U32 (EField "total")) = Ok (VInt (mb_tot (nth i (d_bufs d) mb0))).
Proof. intros d i l Hi H. evs. rewrite mget_tot by exact Hi. rewrite load_cell. rewrite wrap_U32_small by lia. reflexivity. Qed.
(* the locals of multiruncrypt_file once `block` is set *)
Definition wl_loop (i : nat) (v2 vb : value) (tl : locs) : locs := wl1 i ++ ("$t2", v2) :: ("block", vb) :: tl.

(* ---- the loop of multiruncrypt_file, entered with a block: runcry on it and the next call of require_buffer_entry, up to its yield ---- *)
Definition kloopbody (s : stmt) (k : kont) : kont := match s with SLoop c b st => KLoopBody c b st k | _ => k end.
Definition loop_body (s : stmt) : stmt := match s with SLoop _ b _ => b | _ => SSkip end.

Lemma loop_ptr_fin : forall p ws d g i B now v2 tl evs,
  (i < T)%nat -> (1 <= T <= 255)%nat -> (1 <= c)%nat -> (16 * Z.of_nat c < 2 ^ 32)%Z ->
  List.length (d_bufs d) = T -> List.length ws = T -> List.length (g_wl g) = T ->
  (16 * now + 16 <= List.length (mb_cells B))%nat -> List.length (mb_cells B) = (16 * c)%nat -> Forall (fun z => 0 <= z < 256)%Z (mb_cells B) ->
  (exists x, srep T i x (d_sm d)) ->
  let wl := wl_loop i v2 (VPtr (bpfx i ++ "b") (Z.of_nat (16 * now))) tl in
  exists sm' cells' sevs,
    stream_post T i (d_sm d) (mb_cells B) (16 * now) sm' cells' sevs /\
    forall R, R = (cst p (set_nth i W_Get ws) (with_sm (dset d i (mb_with_cells cells' B)) sm') (with_wl g i wl), evs ++ sevs) ->
    exists N, exr (S i) N false (mk mf_loop KStop wl "" TRun) (C (sho (dset d i B)) (threads_of T pad p ws (d_turn d) g) []) evs R.
Proof.
  intros p ws d g i B now v2 tl evs Hi HT Hc1 Hc Lb Lw Lg Hoff Hlen Hbytes Hx wl.
  destruct (stream_call c T pad input0 d i B now (kloopbody mf_loop KStop) wl (threads_of T pad p ws (d_turn d) g) [] evs
              Hi HT Hc1 Hc Lb Hoff Hlen Hbytes eq_refl eq_refl Hx) as (sm' & cells' & sevs & N & HL & HP).
  exists sm', cells', sevs. split; [exact HP|]. intros R HR. exists (S (N + 70)).
  unfold mk, wl, wl_loop, wl1, wl0, mf_loop in *. unf. cbn [app]. cbv [kloopbody mf_loop fst seq_at B_mf f_body Src_conc.f_multiruncrypt_file_2] in HL. cbn [app] in HL.
  mstep.
  apply HL.
  unfold mk. msteps. subst R.
  eapply r_stop; [discriminate | reflexivity | ].
  eapply (fin_worker _ _ _ _ _ _ _ _ _ _ W_Get (wl_loop i v2 (VPtr (bpfx i ++ "b") (Z.of_nat (16 * now))) tl)); try assumption; try reflexivity.
Qed.


Lemma loop_null_fin : forall p ws d g i v2 tl evs R,
  (i < T)%nat -> List.length ws = T -> List.length (g_wl g) = T ->
  let wl := wl_loop i v2 VNull tl in
  R = (cst p (set_nth i W_Done ws) d (with_wl g i wl), evs ++ [(14, 0, 0)]%Z) ->
  exr (S i) 5 false (mk mf_loop KStop wl "" TRun) (C (sho d) (threads_of T pad p ws (d_turn d) g) []) evs R.
Proof.
  intros p ws d g i v2 tl evs R Hi Lw Lg wl HR. unfold mk, wl, wl_loop, wl1, wl0, mf_loop. unf. cbn [app].
  mstep. subst R. eapply r_done; [reflexivity|].
  eapply (fin_worker _ _ _ _ _ _ _ _ _ _ W_Done (wl_loop i v2 VNull tl)); try assumption; try reflexivity.
Qed.

(* the shapes of the locals of multiruncrypt_file while require_buffer_entry runs *)
Definition wl_rbe (i : nat) (wl : locs) : Prop :=
  wl = wl1 i \/ (exists v2 vb, wl = wl_loop i v2 vb []) \/ (exists v2 vb v3, wl = wl_loop i v2 vb [("$t3", v3)]).
(* ... and after it returned v *)
Definition wl_ret (i : nat) (wl : locs) (v : value) : locs :=
  if Nat.eqb (List.length wl) 4 then wl_loop i v v []
  else match wl with
       | _ :: _ :: _ :: _ :: (_, v2) :: _ => wl_loop i v2 v [("$t3", v)]
       | _ => wl
       end.

(* ---- W_Get ---- *)
Lemma cstep_run_u : forall sh thr tid t R, nth_error thr tid = Some t -> ct_st t = TRun ->
  match first_is_lock t sh with Some m => mx_free [] m | None => true end = true ->
  (exists B, exr tid B true t (C sh thr []) [] R) ->
  exists n, cstep prog vt n (C sh thr []) tid = Ok R.
Proof. intros sh thr tid t R N S E (B & H). destruct (cstep_run B sh thr tid t R N S E H) as (n & _ & Hn). exists n. exact Hn. Qed.

Lemma M_get_some : forall p ws d g i,
  (i < T)%nat -> dwf c T d -> List.length ws = T -> List.length (g_wl g) = T -> nth i ws W_Done = W_Get -> wl_rbe i (nth i (g_wl g) []) ->
  let b := nth i (d_bufs d) mb0 in
  (mb_now b < mb_tot b)%Z ->
  let now := Z.to_nat (mb_now b) in
  exists sm' cells' sevs,
    stream_post T i (d_sm d) (mb_cells b) (16 * now) sm' cells' sevs /\
    exists k, cstep prog vt k (cst p ws d g) (S i) =
     Ok (cst p (set_nth i W_Get ws) (with_sm (dset d i (mb_with_cells cells' (mb_with_now (mb_now b + 1) b))) sm')
             (with_wl g i (wl_ret i (nth i (g_wl g) []) (VPtr (bpfx i ++ "b") (Z.of_nat (16 * now))))),
         [(1, Z.of_nat i, 1)]%Z ++ sevs).
Proof.
  intros p ws d g i Hi Hd Lw Lg Hw Hwl b Hlt now.
  destruct Hd as (Lb & Ln & Ht & Hl & HT & Hc1 & Hc & Hb & Hn). destruct (Hb i Hi) as (Hst & Htot & Hnow & Hlen & Hbytes).
  pose proof (fun l => rd_now d i l Hi Hnow) as RN. pose proof (fun l => rd_tot d i l Hi ltac:(lia)) as RT.
  fold b in Hst, Htot, Hnow, Hlen, Hbytes, RN, RT.
  assert (Hlt' : (mb_now b <? mb_tot b)%Z = true) by (apply Z.ltb_lt; lia).
  assert (Hoff : (16 * now + 16 <= List.length (mb_cells (mb_with_now (mb_now b + 1) b)))%nat) by (cbn [mb_with_now mb_cells]; rewrite Hlen; unfold now; lia).
  destruct Hwl as [E|[(v2 & vb & E)|(v2 & vb & v3 & E)]].
  - destruct (loop_ptr_fin p ws d g i (mb_with_now (mb_now b + 1) b) now (VPtr (bpfx i ++ "b") (Z.of_nat (16 * now))) [] [(1, Z.of_nat i, 1)]%Z
                Hi HT Hc1 Hc Lb Lw Lg Hoff Hlen Hbytes (Hn i Hi)) as (sm' & cells' & sevs & HP & HX).
    exists sm', cells', sevs. split; [exact HP|].
    unfold cstate_md at 1.
    eapply cstep_run_u; [apply nth_thread_worker; exact Hi | rewrite Hw; reflexivity | rewrite Hw; unf; reflexivity | ].
    destruct (HX _ eq_refl) as (N & HN). exists (150 + N)%nat. cbn [Nat.add].
    rewrite Hw. unf. rewrite E in *; unfold wl_ret, wl_loop, wl1, wl0 in *; cbn [app List.length Nat.eqb] in *.
    msteps; change (elem_pfx BL i) with (bpfx i); rewrite ?Hlt'; evs; msteps;
    (mstep; [rewrite mget_now by exact Hi; reflexivity | apply store_cell | ]);
    rewrite Z.mod_small by (cbn [ity_bits]; lia); rewrite wrap_U32_small by lia;
    (erewrite (sho_mset _ _ _ _ d); [ | apply mset_now; assumption | reflexivity]); rewrite dset_upd; fold b;
    msteps; unf; cbn [cont_conf next_of]; rewrite (wrap_I64_nat (Z.of_nat i)) by lia;
    replace (0 + mb_now b * 16)%Z with (Z.of_nat (16 * now)) by (unfold now; lia);
    msteps.
    eapply exr_weaken; [exact HN | lia].
  - destruct (loop_ptr_fin p ws d g i (mb_with_now (mb_now b + 1) b) now v2 [("$t3", VPtr (bpfx i ++ "b") (Z.of_nat (16 * now)))] [(1, Z.of_nat i, 1)]%Z
                Hi HT Hc1 Hc Lb Lw Lg Hoff Hlen Hbytes (Hn i Hi)) as (sm' & cells' & sevs & HP & HX).
    exists sm', cells', sevs. split; [exact HP|].
    unfold cstate_md at 1.
    eapply cstep_run_u; [apply nth_thread_worker; exact Hi | rewrite Hw; reflexivity | rewrite Hw; unf; reflexivity | ].
    destruct (HX _ eq_refl) as (N & HN). exists (150 + N)%nat. cbn [Nat.add].
    rewrite Hw. unf. rewrite E in *; unfold wl_ret, wl_loop, wl1, wl0 in *; cbn [app List.length Nat.eqb] in *.
    msteps; change (elem_pfx BL i) with (bpfx i); rewrite ?Hlt'; evs; msteps;
    (mstep; [rewrite mget_now by exact Hi; reflexivity | apply store_cell | ]);
    rewrite Z.mod_small by (cbn [ity_bits]; lia); rewrite wrap_U32_small by lia;
    (erewrite (sho_mset _ _ _ _ d); [ | apply mset_now; assumption | reflexivity]); rewrite dset_upd; fold b;
    msteps; unf; cbn [cont_conf next_of]; rewrite (wrap_I64_nat (Z.of_nat i)) by lia;
    replace (0 + mb_now b * 16)%Z with (Z.of_nat (16 * now)) by (unfold now; lia);
    msteps.
    eapply exr_weaken; [exact HN | lia].
  - destruct (loop_ptr_fin p ws d g i (mb_with_now (mb_now b + 1) b) now v2 [("$t3", VPtr (bpfx i ++ "b") (Z.of_nat (16 * now)))] [(1, Z.of_nat i, 1)]%Z
                Hi HT Hc1 Hc Lb Lw Lg Hoff Hlen Hbytes (Hn i Hi)) as (sm' & cells' & sevs & HP & HX).
    exists sm', cells', sevs. split; [exact HP|].
    unfold cstate_md at 1.
    eapply cstep_run_u; [apply nth_thread_worker; exact Hi | rewrite Hw; reflexivity | rewrite Hw; unf; reflexivity | ].
    destruct (HX _ eq_refl) as (N & HN). exists (150 + N)%nat. cbn [Nat.add].
    rewrite Hw. unf. rewrite E in *; unfold wl_ret, wl_loop, wl1, wl0 in *; cbn [app List.length Nat.eqb] in *.
    msteps; change (elem_pfx BL i) with (bpfx i); rewrite ?Hlt'; evs; msteps;
    (mstep; [rewrite mget_now by exact Hi; reflexivity | apply store_cell | ]);
    rewrite Z.mod_small by (cbn [ity_bits]; lia); rewrite wrap_U32_small by lia;
    (erewrite (sho_mset _ _ _ _ d); [ | apply mset_now; assumption | reflexivity]); rewrite dset_upd; fold b;
    msteps; unf; cbn [cont_conf next_of]; rewrite (wrap_I64_nat (Z.of_nat i)) by lia;
    replace (0 + mb_now b * 16)%Z with (Z.of_nat (16 * now)) by (unfold now; lia);
    msteps.
    eapply exr_weaken; [exact HN | lia].
Qed.


Lemma M_get_none : forall p ws d g i,
  (i < T)%nat -> dwf c T d -> List.length ws = T -> List.length (g_wl g) = T -> nth i ws W_Done = W_Get -> wl_rbe i (nth i (g_wl g) []) ->
  let b := nth i (d_bufs d) mb0 in
  (mb_tot b <= mb_now b)%Z ->
  exists k, (k <= 150)%nat /\ cstep prog vt k (cst p ws d g) (S i) =
     Ok (cst p (set_nth i W_SetUpdate ws) d (with_wl g i (nth i (g_wl g) [])), [(1, Z.of_nat i, 0)]%Z).
Proof.
  intros p ws d g i Hi Hd Lw Lg Hw Hwl b Hlt.
  destruct Hd as (Lb & Ln & Ht & Hl & HT & Hc1 & Hc & Hb & Hn). destruct (Hb i Hi) as (Hst & Htot & Hnow & Hlen & Hbytes).
  pose proof (fun l => rd_now d i l Hi Hnow) as RN. pose proof (fun l => rd_tot d i l Hi ltac:(lia)) as RT.
  fold b in Hst, Htot, Hnow, Hlen, Hbytes, RN, RT.
  assert (Hlt' : (mb_now b <? mb_tot b)%Z = false) by (apply Z.ltb_ge; lia).
  unfold cstate_md at 1.
  eapply (cstep_run 150); [apply nth_thread_worker; exact Hi | rewrite Hw; reflexivity | rewrite Hw; unf; reflexivity | ].
  rewrite Hw. unf.
  msteps; change (elem_pfx BL i) with (bpfx i); rewrite ?Hlt'; evs; msteps.
  rewrite (wrap_I64_nat (Z.of_nat i)) by lia.
  stop_worker W_SetUpdate (nth i (g_wl g) []). reflexivity.
Qed.


(* ---- W_Cmp ---- *)
Ltac start_cmp Hi Hw :=
  unfold cstate_md at 1;
  eapply (cstep_run 150); [apply nth_thread_worker; exact Hi | rewrite Hw; reflexivity | rewrite Hw; unf; reflexivity | ];
  rewrite Hw; unf; unfold rbe_locs.

Lemma M_cmp_done : forall p ws d g i,
  (i < T)%nat -> dwf c T d -> List.length ws = T -> List.length (g_wl g) = T -> nth i ws W_Done = W_Cmp -> wl_rbe i (nth i (g_wl g) []) ->
  let b := nth i (d_bufs d) mb0 in
  (mb_st b <> 2%nat \/ (mb_tot b <= mb_now b)%Z) ->
  exists k, (k <= 150)%nat /\ cstep prog vt k (cst p ws d g) (S i) =
     Ok (cst p (set_nth i W_Done ws) d (with_wl g i (wl_ret i (nth i (g_wl g) []) VNull)), [(2, Z.of_nat i, 0); (14, 0, 0)]%Z).
Proof.
  intros p ws d g i Hi Hd Lw Lg Hw Hwl b Hcase.
  destruct Hd as (Lb & Ln & Ht & Hl & HT & Hc1 & Hc & Hb & Hn). destruct (Hb i Hi) as (Hst & Htot & Hnow & Hlen & Hbytes).
  pose proof (fun l => rd_now d i l Hi Hnow) as RN. pose proof (fun l => rd_tot d i l Hi ltac:(lia)) as RT.
  pose proof (fun l => rd_state c T pad input0 d i l Hi Hst) as RD.
  fold b in Hst, Htot, Hnow, Hlen, Hbytes, RN, RT, RD.
  assert (Est : (mb_st b = 0 \/ mb_st b = 1 \/ mb_st b = 2 \/ mb_st b = 3)%nat) by lia.
  destruct Est as [E|[E|[E|E]]]; rewrite E in RD.
  1,2,4: start_cmp Hi Hw; msteps; change (elem_pfx CT i) with (cpfx i); msteps; rewrite (wrap_I64_nat (Z.of_nat i)) by lia;
    (destruct Hwl as [E'|[(v2 & vb & E')|(v2 & vb & v3 & E')]]; rewrite E'; unfold wl_ret, wl_loop, wl1, wl0; cbn [app List.length Nat.eqb];
     msteps; unf; cbn [cont_conf next_of]; msteps;
     (eapply exr_weaken; [eapply loop_null_fin; try assumption; reflexivity | lia])).
  destruct Hcase as [N|Hlt]; [congruence|].
  assert (Hlt' : (mb_now b <? mb_tot b)%Z = false) by (apply Z.ltb_ge; lia).
  start_cmp Hi Hw; msteps; change (elem_pfx CT i) with (cpfx i); msteps; change (elem_pfx BL i) with (bpfx i); rewrite ?Hlt'; evs; msteps;
    rewrite (wrap_I64_nat (Z.of_nat i)) by lia;
    (destruct Hwl as [E'|[(v2 & vb & E')|(v2 & vb & v3 & E')]]; rewrite E'; unfold wl_ret, wl_loop, wl1, wl0; cbn [app List.length Nat.eqb];
     msteps; unf; cbn [cont_conf next_of]; msteps;
     (eapply exr_weaken; [eapply loop_null_fin; try assumption; reflexivity | lia])).
Qed.


Lemma M_cmp_some : forall p ws d g i,
  (i < T)%nat -> dwf c T d -> List.length ws = T -> List.length (g_wl g) = T -> nth i ws W_Done = W_Cmp -> wl_rbe i (nth i (g_wl g) []) ->
  let b := nth i (d_bufs d) mb0 in
  mb_st b = 2%nat -> (mb_now b < mb_tot b)%Z ->
  let now := Z.to_nat (mb_now b) in
  exists sm' cells' sevs,
    stream_post T i (d_sm d) (mb_cells b) (16 * now) sm' cells' sevs /\
    exists k, cstep prog vt k (cst p ws d g) (S i) =
     Ok (cst p (set_nth i W_Get ws) (with_sm (dset d i (mb_with_cells cells' (mb_with_now (mb_now b + 1) b))) sm')
             (with_wl g i (wl_ret i (nth i (g_wl g) []) (VPtr (bpfx i ++ "b") (Z.of_nat (16 * now))))),
         [(2, Z.of_nat i, 1)]%Z ++ sevs).
Proof.
  intros p ws d g i Hi Hd Lw Lg Hw Hwl b E Hlt now.
  destruct Hd as (Lb & Ln & Ht & Hl & HT & Hc1 & Hc & Hb & Hn). destruct (Hb i Hi) as (Hst & Htot & Hnow & Hlen & Hbytes).
  pose proof (fun l => rd_now d i l Hi Hnow) as RN. pose proof (fun l => rd_tot d i l Hi ltac:(lia)) as RT.
  pose proof (fun l => rd_state c T pad input0 d i l Hi Hst) as RD.
  fold b in Hst, Htot, Hnow, Hlen, Hbytes, RN, RT, RD. rewrite E in RD.
  assert (Hlt' : (mb_now b <? mb_tot b)%Z = true) by (apply Z.ltb_lt; lia).
  assert (Hoff : (16 * now + 16 <= List.length (mb_cells (mb_with_now (mb_now b + 1) b)))%nat) by (cbn [mb_with_now mb_cells]; rewrite Hlen; unfold now; lia).
  destruct Hwl as [E'|[(v2 & vb & E')|(v2 & vb & v3 & E')]].
  - destruct (loop_ptr_fin p ws d g i (mb_with_now (mb_now b + 1) b) now (VPtr (bpfx i ++ "b") (Z.of_nat (16 * now))) [] [(2, Z.of_nat i, 1)]%Z
                Hi HT Hc1 Hc Lb Lw Lg Hoff Hlen Hbytes (Hn i Hi)) as (sm' & cells' & sevs & HP & HX).
    exists sm', cells', sevs. split; [exact HP|].
    unfold cstate_md at 1.
    eapply cstep_run_u; [apply nth_thread_worker; exact Hi | rewrite Hw; reflexivity | rewrite Hw; unf; reflexivity | ].
    destruct (HX _ eq_refl) as (N & HN). exists (150 + N)%nat. cbn [Nat.add].
    rewrite Hw. unf. unfold rbe_locs.
    msteps; change (elem_pfx CT i) with (cpfx i); msteps; change (elem_pfx BL i) with (bpfx i); rewrite ?Hlt'; evs; msteps;
    (mstep; [rewrite mget_now by exact Hi; reflexivity | apply store_cell | ]);
    rewrite Z.mod_small by (cbn [ity_bits]; lia); rewrite wrap_U32_small by lia;
    (erewrite (sho_mset _ _ _ _ d); [ | apply mset_now; assumption | reflexivity]); rewrite dset_upd; fold b;
    msteps; rewrite (wrap_I64_nat (Z.of_nat i)) by lia;
    replace (0 + mb_now b * 16)%Z with (Z.of_nat (16 * now)) by (unfold now; lia).
    rewrite E' in *; unfold wl_ret, wl_loop, wl1, wl0 in *; cbn [app List.length Nat.eqb] in *;
    msteps; unf; cbn [cont_conf next_of]; msteps.
    eapply exr_weaken; [exact HN | lia].
  - destruct (loop_ptr_fin p ws d g i (mb_with_now (mb_now b + 1) b) now v2 [("$t3", VPtr (bpfx i ++ "b") (Z.of_nat (16 * now)))] [(2, Z.of_nat i, 1)]%Z
                Hi HT Hc1 Hc Lb Lw Lg Hoff Hlen Hbytes (Hn i Hi)) as (sm' & cells' & sevs & HP & HX).
    exists sm', cells', sevs. split; [exact HP|].
    unfold cstate_md at 1.
    eapply cstep_run_u; [apply nth_thread_worker; exact Hi | rewrite Hw; reflexivity | rewrite Hw; unf; reflexivity | ].
    destruct (HX _ eq_refl) as (N & HN). exists (150 + N)%nat. cbn [Nat.add].
    rewrite Hw. unf. unfold rbe_locs.
    msteps; change (elem_pfx CT i) with (cpfx i); msteps; change (elem_pfx BL i) with (bpfx i); rewrite ?Hlt'; evs; msteps;
    (mstep; [rewrite mget_now by exact Hi; reflexivity | apply store_cell | ]);
    rewrite Z.mod_small by (cbn [ity_bits]; lia); rewrite wrap_U32_small by lia;
    (erewrite (sho_mset _ _ _ _ d); [ | apply mset_now; assumption | reflexivity]); rewrite dset_upd; fold b;
    msteps; rewrite (wrap_I64_nat (Z.of_nat i)) by lia;
    replace (0 + mb_now b * 16)%Z with (Z.of_nat (16 * now)) by (unfold now; lia).
    rewrite E' in *; unfold wl_ret, wl_loop, wl1, wl0 in *; cbn [app List.length Nat.eqb] in *;
    msteps; unf; cbn [cont_conf next_of]; msteps.
    eapply exr_weaken; [exact HN | lia].
  - destruct (loop_ptr_fin p ws d g i (mb_with_now (mb_now b + 1) b) now v2 [("$t3", VPtr (bpfx i ++ "b") (Z.of_nat (16 * now)))] [(2, Z.of_nat i, 1)]%Z
                Hi HT Hc1 Hc Lb Lw Lg Hoff Hlen Hbytes (Hn i Hi)) as (sm' & cells' & sevs & HP & HX).
    exists sm', cells', sevs. split; [exact HP|].
    unfold cstate_md at 1.
    eapply cstep_run_u; [apply nth_thread_worker; exact Hi | rewrite Hw; reflexivity | rewrite Hw; unf; reflexivity | ].
    destruct (HX _ eq_refl) as (N & HN). exists (150 + N)%nat. cbn [Nat.add].
    rewrite Hw. unf. unfold rbe_locs.
    msteps; change (elem_pfx CT i) with (cpfx i); msteps; change (elem_pfx BL i) with (bpfx i); rewrite ?Hlt'; evs; msteps;
    (mstep; [rewrite mget_now by exact Hi; reflexivity | apply store_cell | ]);
    rewrite Z.mod_small by (cbn [ity_bits]; lia); rewrite wrap_U32_small by lia;
    (erewrite (sho_mset _ _ _ _ d); [ | apply mset_now; assumption | reflexivity]); rewrite dset_upd; fold b;
    msteps; rewrite (wrap_I64_nat (Z.of_nat i)) by lia;
    replace (0 + mb_now b * 16)%Z with (Z.of_nat (16 * now)) by (unfold now; lia).
    rewrite E' in *; unfold wl_ret, wl_loop, wl1, wl0 in *; cbn [app List.length Nat.eqb] in *;
    msteps; unf; cbn [cont_conf next_of]; msteps.
    eapply exr_weaken; [exact HN | lia].
Qed.

End W2.
