From Coq Require Import ZArith NArith List String Bool Lia Ascii.
From Wencry Require Import Bytes HashModel MiniC MiniCLemmas MiniCRun SrcRun RefineHashDefs RefineSha1Lib RefineSha1A RefineSha1B RefineSha1C RefineSha1D.
From Wencry.Gen Require Import HashConst.
From Wencry.Gen Require Src_sha1.
Import ListNotations.
Local Open Scope string_scope.
Local Open Scope list_scope.
Local Open Scope Z_scope.

Lemma store_u8_at : forall cells j z, 0 <= j < Z.of_nat (List.length cells) ->
  store_obj {| o_ty := U8; o_cells := cells |} U8 (0 + j * 1) z =
  Ok {| o_ty := U8; o_cells := upd_nth (Z.to_nat j) (wrap U8 z) cells |}.
Proof.
  intros cells j z Hj. unfold store_obj. cbn [o_ty o_cells]. change (ity_bytes U8) with 1. rewrite Z.eqb_refl.
  replace (0 + j * 1) with j by lia. rewrite Z.mod_1_r, Z.div_1_r. cbn [Z.eqb].
  destruct (j <? 0) eqn:A; [apply Z.ltb_lt in A; lia|].
  destruct (j <? Z.of_nat (List.length cells)) eqn:B; [|apply Z.ltb_ge in B; lia]. reflexivity.
Qed.
Lemma zn_byte : forall a s, wrap U8 (Z.shiftr (Z.of_N a) (Z.of_N s)) = Z.of_N (N.shiftr a s mod 256).
Proof. intros. rewrite wrapU8, zn_shr, N2Z.inj_mod. reflexivity. Qed.
Lemma skipn_repeat : forall (A : Type) (x : A) n k, skipn k (repeat x n) = repeat x (n - k).
Proof. intros A x. induction n as [|n IH]; intros [|k]; cbn; auto. Qed.
Lemma map_zeros : forall n, map Z.of_N (zeros n) = repeat 0 n.
Proof. induction n; cbn; auto. unfold zeros in IHn. now rewrite IHn. Qed.
Lemma bytesb_app : forall a b, bytesb (a ++ b) = bytesb a && bytesb b.
Proof. intros. unfold bytesb. apply forallb_app. Qed.
Lemma bytesb_zeros : forall n, bytesb (zeros n) = true.
Proof. induction n; cbn; auto. Qed.
Lemma bytesb_firstn : forall n l, bytesb l = true -> bytesb (firstn n l) = true.
Proof.
  induction n as [|n IH]; intros [|x l] Hb; cbn; auto. cbn in Hb. apply andb_prop in Hb. destruct Hb as [A B].
  rewrite A. cbn. apply IH. exact B.
Qed.
Lemma bytesb_be64 : forall x, bytesb (be64_bytes x) = true.
Proof.
  intros x. unfold be64_bytes. cbn [map bytesb forallb]. unfold byte_ok.
  repeat (rewrite (proj2 (N.ltb_lt _ 256)) by (apply N.mod_lt; discriminate)). reflexivity.
Qed.

Lemma final_unfold : forall st inp, (List.length inp < 64)%nat ->
  getHash_final alg_sha1 st inp =
  let fl := List.length inp in
  let T1 := tot_add (hs_total st) (N.of_nat fl) in
  let temp := inp ++ [128%N] ++ zeros (63 - fl) in
  if (56 <=? fl)%nat
  then {| hs_h := m_sha1_block (m_sha1_block (hs_h st) temp) (firstn 56 (zeros 64) ++ be64_bytes T1);
          hs_total := tot_add (tot_add T1 64) 64 |}
  else {| hs_h := m_sha1_block (hs_h st) (firstn 56 temp ++ be64_bytes T1); hs_total := tot_add T1 64 |}.
Proof.
  intros st inp Hl. unfold getHash_final. cbv zeta.
  change (N.to_nat (nth 0 (ha_final alg_sha1) 0%N)) with 56%nat.
  change (N.to_nat (nth 1 (ha_final alg_sha1) 0%N)) with 56%nat.
  change (nth 2 (ha_final alg_sha1) 0%N =? 0)%N with true. cbv iota.
  destruct (56 <=? List.length inp)%nat; reflexivity.
Qed.

Definition gh2_tail : stmt := Eval cbv [f_body Src_sha1.f_sha1hash_getHash_2] in
  match f_body Src_sha1.f_sha1hash_getHash_2 with
  | SSeq _ (SSeq _ (SSeq _ (SSeq _ (SSeq _ (SSeq _ (SSeq _ (SSeq _ (SSeq _ t)))))))) => t | _ => SSkip end.

Section Tail.
Variable vt : list (string * string).
Hypothesis Hvt : lget vt "" = Some "sha1hash".
Notation exec := (MiniC.exec hash_prog vt).
Variables (X : memory) (fs : list (string * cfile)) (ps : list (string * value)) (fr : nat).
Variables (nm : string) (t2 : list N) (bl : N) (H : list N) (T : N).
Hypothesis HX : sha1_mem X H T.
Hypothesis Hnm : mget X nm = Some (bytes_object t2).
Hypothesis Ht2l : List.length t2 = 64%nat.
Hypothesis Ht2b : bytesb t2 = true.
Hypothesis N1 : nm <> "s".
Hypothesis N2 : nm <> "w".
Hypothesis N3 : nm <> "h".
Hypothesis N4 : nm <> "totalsize".
Hypothesis N5 : nm <> "%temph".
Let lenb := be64_bytes bl.
Let blk2 := firstn 56 t2 ++ lenb.

Definition InvL (k : nat) (s : state) : Prop :=
  exists l, s = ST (mset X nm {| o_ty := U8; o_cells := (map Z.of_N (firstn 56 t2) ++ map Z.of_N (firstn k lenb)) ++ skipn (56 + k) (map Z.of_N t2) |}) l fs ps fr /\
            lget l "i" = Some (VInt (Z.of_nat k)) /\ lget l "temp" = Some (VPtr nm 0) /\ lget l "bitlen" = Some (VInt (Z.of_N bl)).

Lemma blk2_length : List.length blk2 = 64%nat.
Proof. unfold blk2, lenb. rewrite app_length, firstn_length, Ht2l. reflexivity. Qed.
Lemma blk2_bytes : bytesb blk2 = true.
Proof. unfold blk2, lenb. rewrite bytesb_app, bytesb_firstn, bytesb_be64 by exact Ht2b. reflexivity. Qed.

Lemma gh2_tail_ok : forall l, lget l "temp" = Some (VPtr nm 0) -> lget l "bitlen" = Some (VInt (Z.of_N bl)) ->
  exists l', exec 330 gh2_tail (ST X l fs ps fr) =
             Ok (Normal, ST (gh1_result (mset X nm (bytes_object blk2)) blk2 H T) l' fs ps fr).
Proof.
  intros l0 Ltemp Lbit. unfold gh2_tail.
  match goal with |- context [SLoop ?c ?b ?st] =>
    assert (ITL : forall k s, (k < 8)%nat -> InvL k s ->
     exists x, eval s c = Ok (VInt x) /\ x <> 0 /\
     exists s1' s2', exec 5 b s = Ok (Normal, s1') /\ exec 5 st s1' = Ok (Normal, s2') /\ InvL (S k) s2') end.
  { intros k s Hk [l [-> [Hi [Ht Hb]]]].
    eexists. split; [ev|]. split.
    { destruct (Z.ltb_spec (Z.of_nat k) 8); lia. }
    assert (C : (k = 0 \/ k = 1 \/ k = 2 \/ k = 3 \/ k = 4 \/ k = 5 \/ k = 6 \/ k = 7)%nat) by lia.
    assert (L56 : List.length (map Z.of_N (firstn 56 t2)) = 56%nat) by (rewrite map_length, firstn_length, Ht2l; reflexivity).
    assert (W8 : forall z, wrap U8 (wrap U8 z) = wrap U8 z) by (intro z; rewrite !wrapU8; apply Z.mod_mod; lia).
    destruct C as [C|[C|[C|[C|[C|[C|[C|C]]]]]]]; subst k; cbn [Z.of_nat Pos.of_succ_nat Pos.succ] in Hi;
    (eexists; eexists; split; [|split];
     [ eapply store_ok; [ev | ev | mg | apply store_u8_at | lia];
       rewrite !app_length, L56, skipn_length, !map_length, Ht2l; cbn [lenb be64_bytes map firstn List.length]; lia
     | nrm; eapply set_ok; [ev|lia]
     | nrm; rewrite mset_mset_same; cbn [Nat.add];
       match goal with |- context [upd_nth (Z.to_nat ?j) ?v ?c] =>
         let n := eval cbv in (Z.to_nat j) in change (Z.to_nat j) with n end;
       rewrite upd_nth_mid by (rewrite ?app_length, ?L56, ?map_length, ?Ht2l; cbn [lenb be64_bytes map firstn List.length]; lia);
       rewrite W8;
       match goal with |- context [Z.shiftr (Z.of_N bl) (Zpos ?p)] =>
         change (Z.shiftr (Z.of_N bl) (Zpos p)) with (Z.shiftr (Z.of_N bl) (Z.of_N (Npos p)))
       | |- context [Z.shiftr (Z.of_N bl) 0] =>
         change (Z.shiftr (Z.of_N bl) 0) with (Z.shiftr (Z.of_N bl) (Z.of_N 0)) end;
       rewrite zn_byte; rewrite <- (app_assoc (map Z.of_N (firstn 56 t2)));
       unfold InvL; eexists; split; [reflexivity | split; [lg | split; lg]] ]). }
  match goal with |- context [SLoop ?c ?b ?st] =>
    destruct (loop_inv hash_prog vt c b st InvL 8 5 ITL) with (d := 8%nat) (k := 0%nat) (s := ST X (lset l0 "i" (VInt 0)) fs ps fr)
      as [sA [EA [lA [-> [HiA [HtA HbA]]]]]] end.
  { intros s [l [-> [Hi _]]]. ev. }
  { reflexivity. }
  { eexists. split; [|split; [|split]].
    - cbn [Nat.add]. change (firstn 0 lenb) with (@nil N). cbn [map]. rewrite app_nil_r, skipn_map, <- map_app, firstn_skipn.
      pose proof Hnm as Hnm'. unfold bytes_object in Hnm'. rewrite (mset_same X nm _ Hnm'). reflexivity.
    - lg. - lg. - lg. }
  assert (EQ : (map Z.of_N (firstn 56 t2) ++ map Z.of_N (firstn 8 lenb)) ++ skipn (56 + 8) (map Z.of_N t2) = map Z.of_N blk2).
  { rewrite skipn_all2 by (rewrite map_length, Ht2l; lia). rewrite app_nil_r.
    rewrite (@firstn_all2 _ 8 lenb) by (unfold lenb; cbn [be64_bytes map List.length]; lia). unfold blk2. rewrite map_app. reflexivity. }
  rewrite EQ in EA. fold (bytes_object blk2) in EA.
  exists lA.
  eapply seq_ok with (f1 := 1%nat) (f2 := 320%nat); [ | | lia | lia].
  { eapply set_ok; [ev|lia]. }
  nrm.
  eapply seq_ok with (f1 := 14%nat) (f2 := 310%nat); [ exact EA | | lia | lia].
  eapply seq_ok with (f1 := 302%nat) (f2 := 1%nat); [ | | lia | lia].
  { apply (getHash1_stmt vt Hvt) with (o := nm) (off := 0) (blk := blk2) (H := H) (T := T); [ | | | | | | exact N1 | exact N2 | exact N3 | exact N4 | exact N5].
    - lia.
    - apply eval_var. exact HtA.
    - apply sha1_mem_mset_other; assumption.
    - exists (bytes_object blk2). split; [apply mget_mset_same|]. split; [reflexivity|]. split; [lia|].
      unfold bytes_object. cbn [o_cells Z.to_nat skipn]. rewrite map_length. split; [|lia].
      rewrite <- (map_length Z.of_N blk2). apply firstn_all.
    - apply blk2_length.
    - apply blk2_bytes. }
  eapply delete_ok; [apply eval_var; exact HtA|lia].
Qed.
End Tail.

Lemma sha1_mem_set_total : forall m H T T', sha1_mem m H T -> (T' < 2 ^ 64)%N -> sha1_mem (mset m "totalsize" (u64_cell T')) H T'.
Proof.
  intros m H T T' [[so [Es X1]] [[wo [Ew X2]] [Eh [X3 [X4 [Et X5]]]]]] HT'.
  unfold sha1_mem. rewrite !mget_mset_other by (intro Q; discriminate Q). rewrite mget_mset_same. repeat split; eauto.
Qed.

Section GH2.
Variable vt : list (string * string).
Hypothesis Hvt : lget vt "" = Some "sha1hash".
Notation exec := (MiniC.exec hash_prog vt).

Definition gh2_post (m : memory) (fs : list (string * cfile)) (ps : list (string * value)) (fr : nat) (st : hstate) (inp : list N) (s2 : state) : Prop :=
  exists l' m', s2 = ST m' l' fs ps (S fr) /\
    sha1_mem m' (hs_h (getHash_final alg_sha1 st inp)) (hs_total (getHash_final alg_sha1 st inp)) /\
    (forall k, k <> "s" -> k <> "w" -> k <> "h" -> k <> "totalsize" -> k <> "%temph" -> k <> heap_name fr -> mget m' k = mget m k).

Lemma getHash2_body : forall m fs ps fr o off inp st,
  sha1_mem m (hs_h st) (hs_total st) -> bytes_at m o off inp -> (List.length inp < 64)%nat -> bytesb inp = true ->
  o <> "s" -> o <> "w" -> o <> "h" -> o <> "totalsize" -> o <> "%temph" -> o <> heap_name fr ->
  exists s2, exec 700 (f_body Src_sha1.f_sha1hash_getHash_2)
                 (ST m [("input", VPtr o off); ("final_loadsize", VInt (Z.of_nat (List.length inp)))] fs ps fr) = Ok (Normal, s2) /\
             gh2_post m fs ps fr st inp s2.
Proof.
  intros m fs ps fr o off inp st Hm Hin Hfl Hbb O1 O2 O3 O4 O5 O6.
  set (fl := List.length inp) in *. set (n := N.of_nat fl).
  assert (En : Z.of_nat fl = Z.of_N n) by (unfold n; rewrite nat_N_Z; reflexivity). rewrite En.
  assert (Un : u32 n) by (unfold u32, n; change (2 ^ 32)%N with 4294967296%N; lia).
  set (H := hs_h st) in *. set (T := hs_total st) in *. set (T1 := tot_add T n).
  assert (HT1 : (T1 < 2 ^ 64)%N) by apply tot_add_lt.
  set (temp := inp ++ [128%N] ++ zeros (63 - fl)).
  assert (Ltemp : List.length temp = 64%nat) by (unfold temp, zeros; rewrite !app_length, repeat_length; cbn [List.length]; fold fl; lia).
  assert (Btemp : bytesb temp = true) by (unfold temp; rewrite !bytesb_app, Hbb, bytesb_zeros; reflexivity).
  set (nm := heap_name fr) in *.
  assert (NM : nm <> "s" /\ nm <> "w" /\ nm <> "h" /\ nm <> "totalsize" /\ nm <> "%temph").
  { unfold nm, heap_name. repeat split; intro Q; discriminate Q. }
  destruct NM as [M1 [M2 [M3 [M4 M5]]]].
  pose proof Hm as Hm0.
  destruct Hm as [_ [_ [_ [_ [_ [Et HT]]]]]].
  destruct Hin as [ob [Hob [Hobt [Hoff [Hfn Hlen']]]]]. fold fl in Hfn, Hlen'.
  assert (Wn : wrap U64 (Z.of_N n) = Z.of_nat fl).
  { rewrite wrapU64, <- En. apply Z.mod_small. lia. }
  cbn [f_body Src_sha1.f_sha1hash_getHash_2].
  (* 1: addtotal *)
  eapply seq_ok_ex with (f1 := 5%nat) (f2 := 690%nat); [ | | lia | lia].
  { apply addtotal_stmt with (n := n) (T := T); [lia | ev | exact Un | exact Et | exact HT]. }
  fold T1.
  (* 2: bitlen *)
  eapply seq_ok_ex with (f1 := 1%nat) (f2 := 680%nat); [ | | lia | lia].
  { eapply set_ok; [ev; apply load_u64; exact HT1|lia]. }
  nrm.
  (* 3: getblen *)
  eapply seq_ok_ex with (f1 := 3%nat) (f2 := 670%nat); [ | | lia | lia].
  { apply (getblen_stmt vt Hvt). lia. }
  (* 4: new *)
  eapply seq_ok_ex with (f1 := 1%nat) (f2 := 660%nat); [ | | lia | lia].
  { eapply new_ok; [ev| |lia]. change (wrap U64 64) with 64. lia. }
  nrm. change (wrap U64 64) with 64. change (String "#"%char (nat_string fr)) with nm.
  (* 5: getblen *)
  eapply seq_ok_ex with (f1 := 3%nat) (f2 := 650%nat); [ | | lia | lia].
  { apply (getblen_stmt vt Hvt). lia. }
  (* 6: memset *)
  eapply seq_ok_ex with (f1 := 1%nat) (f2 := 640%nat); [ | | lia | lia].
  { eapply memset_ok; [ev | ev | ev | | lia]. change (wrap U64 64) with 64.
    eapply do_memset_u8; [mg | reflexivity | lia | reflexivity]. }
  nrm. rewrite mset_mset_same.
  (* 7: memcpy *)
  eapply seq_ok_ex with (f1 := 1%nat) (f2 := 630%nat); [ | | lia | lia].
  { eapply memcpy_ok; [ev | ev | ev | | lia]. rewrite Wn.
    eapply do_memcpy_u8; [mg | mg | reflexivity | exact Hobt | exact Hoff | lia | rewrite Nat2Z.id; exact Hfn | rewrite Nat2Z.id; exact Hlen' | ].
    cbn [o_cells]. rewrite repeat_length, Nat2Z.id. change (Z.to_nat 64) with 64%nat. lia. }
  nrm. rewrite mset_mset_same. cbn [o_cells]. change (Z.to_nat 64) with 64%nat.
  rewrite upd_range_prefix by (rewrite map_length, repeat_length; fold fl; lia). rewrite map_length. fold fl.
  (* 8: store 0x80 *)
  eapply seq_ok_ex with (f1 := 1%nat) (f2 := 620%nat); [ | | lia | lia].
  { eapply store_ok; [ev | ev | mg | apply store_u8_at | lia].
    rewrite app_length, map_length, skipn_length, repeat_length. fold fl. lia. }
  nrm. rewrite mset_mset_same.
  assert (EC : upd_nth (Z.to_nat (Z.of_N n)) (wrap U8 (wrap U8 128)) (map Z.of_N inp ++ skipn fl (repeat 0 64)) = map Z.of_N temp).
  { rewrite <- En, Nat2Z.id. rewrite upd_nth_mid by (rewrite ?map_length, ?repeat_length; fold fl; lia).
    unfold temp. rewrite !map_app, skipn_repeat, map_zeros. cbn [map]. rewrite <- app_assoc.
    replace (64 - S fl)%nat with (63 - fl)%nat by lia. reflexivity. }
  rewrite EC. fold (bytes_object temp).
  set (M8 := mset (mset m "totalsize" (u64_cell T1)) nm (bytes_object temp)).
  match goal with |- context [ST M8 ?l _ _ _] => set (l8 := l) end.
  assert (L8t : lget l8 "temp" = Some (VPtr nm 0)) by (unfold l8; lg).
  assert (L8b : lget l8 "bitlen" = Some (VInt (Z.of_N T1))) by (unfold l8; lg).
  assert (L8f : lget l8 "final_loadsize" = Some (VInt (Z.of_N n))) by (unfold l8; lg).
  assert (SM8 : sha1_mem M8 H T1).
  { unfold M8. apply sha1_mem_mset_other; try assumption. apply sha1_mem_set_total with (T := T); assumption. }
  assert (BA8 : bytes_at M8 nm 0 temp).
  { exists (bytes_object temp). split; [unfold M8; apply mget_mset_same|]. split; [reflexivity|]. split; [lia|].
    unfold bytes_object. cbn [o_cells Z.to_nat skipn]. rewrite map_length. split; [|lia].
    rewrite <- (map_length Z.of_N temp). apply firstn_all. }
  unfold gh2_post. rewrite (final_unfold st inp Hfl). cbv zeta. fold fl H T n T1 temp.
  destruct (Nat.leb_spec 56 fl) as [Hge|Hlt].
  - (* two blocks *)
    set (H1 := m_sha1_block H temp). set (T2 := tot_add T1 64).
    set (XB := mset (gh1_result M8 temp H T1) nm (bytes_object (zeros 64))).
    assert (SXB : sha1_mem XB H1 T2).
    { unfold XB. apply sha1_mem_mset_other; try assumption. apply gh1_mem; assumption. }
    destruct (gh2_tail_ok vt Hvt XB fs ps (S fr) nm (zeros 64) T1 H1 T2 SXB) with (l := lset l8 "$t3" (VInt 64)) as [lT ET].
    { unfold XB. apply mget_mset_same. } { reflexivity. } { reflexivity. }
    { exact M1. } { exact M2. } { exact M3. } { exact M4. } { exact M5. } { lg. } { lg. }
    eapply seq_ok_ex with (f1 := 320%nat) (f2 := 340%nat); [ | | lia | lia].
    { eapply if_ok with (f1 := 315%nat); [ev | | lia].
      change (wrap U32 56) with 56. destruct (Z.leb_spec 56 (Z.of_N n)); [|lia]. cbn [Z.eqb].
      eapply seq_ok with (f1 := 302%nat) (f2 := 10%nat); [ | | lia | lia].
      { apply (getHash1_stmt vt Hvt) with (o := nm) (off := 0) (blk := temp) (H := H) (T := T1);
          [lia | apply eval_var; exact L8t | exact SM8 | exact BA8 | exact Ltemp | exact Btemp | exact M1 | exact M2 | exact M3 | exact M4 | exact M5]. }
      eapply seq_ok with (f1 := 3%nat) (f2 := 1%nat); [ | | lia | lia].
      { apply (getblen_stmt vt Hvt). lia. }
      eapply memset_ok; [ev | ev | ev | | lia]. change (wrap U64 64) with 64.
      eapply do_memset_u8; [nrm; rewrite gh1_other by assumption; unfold M8; apply mget_mset_same | reflexivity | lia | ].
      unfold bytes_object. cbn [o_cells]. rewrite map_length, Ltemp. reflexivity. }
    nrm. change (Z.to_nat 64) with 64%nat. rewrite <- (map_zeros 64). fold (bytes_object (zeros 64)). fold XB.
    eexists. split; [eapply (exec_mono hash_prog vt _ _ _ _ ET); lia|].
    eexists. eexists. split; [reflexivity|]. split.
    + cbn [hs_h hs_total]. apply gh1_mem; [|apply blk2_length; reflexivity].
      apply sha1_mem_mset_other; assumption.
    + intros k K1 K2 K3 K4 K5 K6. rewrite gh1_other by assumption. rewrite mget_mset_other by (apply not_eq_sym; exact K6).
      unfold XB. rewrite mget_mset_other by (apply not_eq_sym; exact K6). rewrite gh1_other by assumption.
      unfold M8. rewrite mget_mset_other by (apply not_eq_sym; exact K6). rewrite mget_mset_other by (apply not_eq_sym; exact K4). reflexivity.
  - (* one block *)
    destruct (gh2_tail_ok vt Hvt M8 fs ps (S fr) nm temp T1 H T1 SM8) with (l := l8) as [lT ET].
    { unfold M8. apply mget_mset_same. } { exact Ltemp. } { exact Btemp. }
    { exact M1. } { exact M2. } { exact M3. } { exact M4. } { exact M5. } { exact L8t. } { exact L8b. }
    eapply seq_ok_ex with (f1 := 3%nat) (f2 := 340%nat); [ | | lia | lia].
    { eapply if_ok with (f1 := 1%nat); [ev | | lia].
      change (wrap U32 56) with 56. destruct (Z.leb_spec 56 (Z.of_N n)); [lia|]. cbn [Z.eqb].
      apply skip_ok. lia. }
    eexists. split; [eapply (exec_mono hash_prog vt _ _ _ _ ET); lia|].
    eexists. eexists. split; [reflexivity|]. split.
    + cbn [hs_h hs_total]. apply gh1_mem; [|apply blk2_length; exact Ltemp].
      apply sha1_mem_mset_other; assumption.
    + intros k K1 K2 K3 K4 K5 K6. rewrite gh1_other by assumption. rewrite mget_mset_other by (apply not_eq_sym; exact K6).
      unfold M8. rewrite mget_mset_other by (apply not_eq_sym; exact K6). rewrite mget_mset_other by (apply not_eq_sym; exact K4). reflexivity.
Qed.
End GH2.
