(* Stage 5, second set-up step of execute_encrypt: the two SEQUENTIAL stretches of it as NAMED big-step premises over `exec whole_prog`
   on explicit states (work package PARALLEL3.md):
     gi_if_spec   : inside the lock of buffergroup::get_instance: `if (!instance) instance = new buffergroup` (allocation + constructor);
     pa_rest_spec : prepare_AES after get_instance returned: set_buffergroup (2T array elements + constructors), the mode array,
                    loadiv, T x createCryMaster (cipher-mode objects incl. key expansion), return mode.
   The machine glue between them (lock / unlock / returns), the call of run_multicry and its spawn loop up to the lock of
   wait_update are proved in RefineE2EfSetup2.v. *)
From Coq Require Import ZArith NArith List String Bool Lia.
From Wencry Require Import Bytes AesModel ModesModel HashModel FileModel FileProps PipeConc MiniC MiniCRun MiniCLemmas MiniCConc SrcRun SrcRun2 SrcRun5 RefineE2EWhole.
From Wencry Require Import RefineE2EfLay RefineE2EfWNames RefineE2EfWLay RefineE2EfGen RefineE2EfTail RefineE2EfEncDefs RefineE2EfHashSpec RefineE2EfSetup1.
Import ListNotations.
Local Open Scope list_scope.
Local Open Scope string_scope.

Definition gi_if2 : stmt := s_fst gi_rest.
Definition gi_unlock : stmt := s_snd gi_rest.

Section S2.
Variables (c hbuf T : nat) (P key seed : list N) (cm hm : N) (h n : nat) (extra : memory) (pextra : locs) (ke : mkind).
Definition PW2 : wpar := PWenc hbuf T P key seed cm hm h (heap_name n) extra pextra ke.
Notation PW := PW2.
Definition ivn2 : string := heap_name n.

Definition F1 : list (string * cfile) :=
  let hdr := file_header cm hm (iv_chain seed T) T in
  [("fin", stream P 0); ("fout", {| cf_data := map Z.of_N hdr; cf_pos := List.length hdr; cf_eof := false |})].
Definition A0 : memory := (M1e c hbuf T key seed (Z.of_N cm) (Z.of_N hm) ++ extra)%list.
Definition Pt0 : locs := (PS1 ++ pextra)%list.
(* the state at the lock of get_instance (= shared state of cs1_enc), seen from inside get_instance *)
Definition s_lock : state := {| mem := A0; loc := []; pre := "rc."; files := F1; ptrs := Pt0; fresh := h |}.

Definition seg3z : memory :=
  [((wGP PW ++ "turn")%string, RefineE2EfLay.cell U32 0); ((wGP PW ++ "size")%string, RefineE2EfLay.cell U32 0);
   ((wGP PW ++ "ispadding")%string, RefineE2EfLay.cell TBool 0); ((wGP PW ++ "over")%string, RefineE2EfLay.cell TBool 0)].
Definition PtG : locs :=
  lset (Pt0 ++ [(class_key (wGP PW), VPtr "buffergroup" 0); ((wGP PW ++ "buflst")%string, VNull); ((wGP PW ++ "ctrl")%string, VNull)])%list "instance" (VPtr (wGP PW) 0).
(* after `if (!instance) instance = new buffergroup` *)
Definition s_new : state := {| mem := (A0 ++ seg3z)%list; loc := [("$t1", VPtr (wGP PW) 0)]; pre := "rc."; files := F1; ptrs := PtG; fresh := S h |}.

Definition gi_if_spec : Prop := exists fuel, exec whole_prog [] fuel gi_if2 s_lock = Ok (Normal, s_new).

(* the pointer table of the canonical state without the thread handles *)
Definition ptrs_base : locs :=
  (wp_pA PW T ++ [("instance", VPtr (wGP PW) 0)] ++ wp_pB PW T ++ core5 PW
  ++ map (fun i => (class_key (wbp PW i), VPtr "iobuffer" 0)) (seq 0 T)
  ++ map (fun i => (class_key (wcp PW i), VPtr "bufferctrl" 0)) (seq 0 T)
  ++ wp_pC PW T ++ flat_map (stream_ptrs PW) (seq 0 T))%list.
Lemma ptrs_base_eq : w_ptrs_of PW T = (ptrs_base ++ map (fun i => (ptr_key (wp_cp PW ++ "threads")%string (8 * Z.of_nat i), VInt (Z.of_nat (S i)))) (seq 0 T))%list.
Proof. unfold w_ptrs_of, ptrs_base. rewrite <- !app_assoc. reflexivity. Qed.

(* prepare_AES after the call of get_instance: the frame's locals, the state before and after *)
Definition pa_locs2 : locs := lset (pa_locs1 cm ivn2) "$t1" (VPtr (wGP PW) 0).
Definition s_pa0 : state := {| mem := (A0 ++ seg3z)%list; loc := pa_locs2; pre := "rc."; files := F1; ptrs := PtG; fresh := S h |}.
Definition s_pa1 (sm0 : memory) (lY : locs) : state :=
  {| mem := w_mem_of PW c T true (@d_init0 (wlayout PW) c T sm0); loc := lY; pre := "rc."; files := F1; ptrs := ptrs_base; fresh := h + 4 + T |}.

Definition pa_rest_spec : Prop :=
  exists (fuel : nat) (sm0 : memory) (lY : locs),
    (forall i, (i < T)%nat -> w_srep PW T i (firstn 16 (iv_chain seed T)) sm0) /\
    exec whole_prog [] fuel pa_rest s_pa0 = Ok (Returned (Some (VPtr (wMA PW) 0)), s_pa1 sm0 lY).
End S2.
