(* Stage 5: what the generic layers use of a layout ([LayoutOk]), and the canonical thread list. *)
From Coq Require Import ZArith NArith List String Bool Lia Ascii Arith.
From Wencry Require Import Bytes FileModel PipeConc MiniC MiniCLemmas MiniCConc SrcRun PipeLemmas RefineSeqDefs RefineSeqA RefineSeqB.
From Wencry Require Import RefineE2EfLay RefineE2EfMach.
From Wencry Require RefineConcMem.
From Wencry.Gen Require Src_conc.
Import ListNotations.
Local Open Scope string_scope.
Local Open Scope list_scope.

Notation vt := (@nil (string * string)).
Notation prog := Lprog.

(* what one call of runcry on the block at offset off of a buffer with bytes cells does: new stream memory, new bytes, events *)
Definition stream_post {LY : Layout} (T i : nat) (sm : memory) (cells : list Z) (off : nat) (sm' : memory) (cells' : list Z) (sevs : list MiniCConc.event) : Prop :=
  List.length cells' = List.length cells /\ Forall (fun z => 0 <= z < 256)%Z cells' /\
  (forall j, j <> i -> (exists y, srep T j y sm) -> exists y, srep T j y sm') /\
  forall x, srep T i x sm ->
    let blk := map Z.to_N (firstn 16 (skipn off cells)) in
    srep T i (fst (Ltr x blk)) sm' /\
    cells' = firstn off cells ++ map Z.of_N (snd (Ltr x blk)) ++ skipn (off + 16) cells /\
    nev sevs = Lev i x /\
    (forall j y, j <> i -> srep T j y sm -> srep T j y sm').

Class LayoutOk {LY : Layout} : Prop := {
  prog_conc : forall f fn, lget Src_conc.functions f = Some fn -> lget Lprog f = Some fn;
  sig0_length : forall T, List.length (Lsig0 T) = T;
  out0_bytes : Forall (fun z => 0 <= z < 256)%Z Lout0;
  (* ---- reads ---- *)
  mget_sum : forall c T pad d, mget (mem_of c T pad d) "sum" = Some (cell U32 (16 * Z.of_nat c));
  mget_live : forall c T pad d, mget (mem_of c T pad d) "live_num" = Some (cell U8 (Z.of_nat (d_live d)));
  mget_threads : forall c T pad d, mget (mem_of c T pad d) (CP ++ "THREADS_NUM") = Some (cell U8 (Z.of_nat T));
  mget_turn : forall c T pad d, mget (mem_of c T pad d) (GP ++ "turn") = Some (cell U32 (Z.of_nat (d_turn d)));
  mget_size : forall c T pad d, mget (mem_of c T pad d) (GP ++ "size") = Some (cell U32 (Z.of_nat T));
  mget_pad : forall c T pad d, mget (mem_of c T pad d) (GP ++ "ispadding") = Some (cell TBool (b2z pad));
  mget_over : forall c T pad d, mget (mem_of c T pad d) (GP ++ "over") = Some (cell TBool (b2z (d_over d)));
  mget_b : forall c T pad d i, (i < T)%nat -> mget (mem_of c T pad d) (bpfx i ++ "b") = Some {| o_ty := U8; o_cells := mb_cells (nth i (d_bufs d) mb0) |};
  mget_tot : forall c T pad d i, (i < T)%nat -> mget (mem_of c T pad d) (bpfx i ++ "total") = Some (cell U32 (mb_tot (nth i (d_bufs d) mb0)));
  mget_now : forall c T pad d i, (i < T)%nat -> mget (mem_of c T pad d) (bpfx i ++ "now") = Some (cell U32 (mb_now (nth i (d_bufs d) mb0)));
  mget_tail : forall c T pad d i, (i < T)%nat -> mget (mem_of c T pad d) (bpfx i ++ "tail") = Some (cell U32 (mb_tail (nth i (d_bufs d) mb0)));
  mget_fin : forall c T pad d i, (i < T)%nat -> mget (mem_of c T pad d) (bpfx i ++ "isfinal") = Some (cell TBool (b2z (mb_fin (nth i (d_bufs d) mb0))));
  mget_st : forall c T pad d i, (i < T)%nat -> mget (mem_of c T pad d) (cpfx i ++ "state") = Some (cell U32 (Z.of_nat (mb_st (nth i (d_bufs d) mb0))));
  mem_out : forall c T pad d v, mem_of c T pad (with_out d v) = mem_of c T pad d;
  mem_fin : forall c T pad d p e, mem_of c T pad (with_fin d p e) = mem_of c T pad d;
  (* ---- writes ---- *)
  mset_live : forall c T pad d v, mset (mem_of c T pad d) "live_num" (cell U8 (Z.of_nat v)) = mem_of c T pad (with_live d v);
  mset_turn : forall c T pad d v, mset (mem_of c T pad d) (GP ++ "turn") (cell U32 (Z.of_nat v)) = mem_of c T pad (with_turn d v);
  mset_over : forall c T pad d v, mset (mem_of c T pad d) (GP ++ "over") (cell TBool (b2z v)) = mem_of c T pad (with_over d v);
  mset_b : forall c T pad d i v, (i < T)%nat -> List.length (d_bufs d) = T ->
    mset (mem_of c T pad d) (bpfx i ++ "b") {| o_ty := U8; o_cells := v |} = mem_of c T pad (with_bufs d (upd_buf i (mb_with_cells v) (d_bufs d)));
  mset_tot : forall c T pad d i v, (i < T)%nat -> List.length (d_bufs d) = T ->
    mset (mem_of c T pad d) (bpfx i ++ "total") (cell U32 v) = mem_of c T pad (with_bufs d (upd_buf i (mb_with_tot v) (d_bufs d)));
  mset_now : forall c T pad d i v, (i < T)%nat -> List.length (d_bufs d) = T ->
    mset (mem_of c T pad d) (bpfx i ++ "now") (cell U32 v) = mem_of c T pad (with_bufs d (upd_buf i (mb_with_now v) (d_bufs d)));
  mset_tail : forall c T pad d i v, (i < T)%nat -> List.length (d_bufs d) = T ->
    mset (mem_of c T pad d) (bpfx i ++ "tail") (cell U32 v) = mem_of c T pad (with_bufs d (upd_buf i (mb_with_tail v) (d_bufs d)));
  mset_fin : forall c T pad d i v, (i < T)%nat -> List.length (d_bufs d) = T ->
    mset (mem_of c T pad d) (bpfx i ++ "isfinal") (cell TBool (b2z v)) = mem_of c T pad (with_bufs d (upd_buf i (mb_with_fin v) (d_bufs d)));
  mset_st : forall c T pad d i v, (i < T)%nat -> List.length (d_bufs d) = T ->
    mset (mem_of c T pad d) (cpfx i ++ "state") (cell U32 (Z.of_nat v)) = mem_of c T pad (with_bufs d (upd_buf i (mb_with_st v) (d_bufs d)));
  (* ---- the pointer table ---- *)
  lget_instance : forall T, lget (ptrs_of T) "instance" = Some inst;
  lget_buflst : forall T, lget (ptrs_of T) (GP ++ "buflst") = Some (VPtr BL 0);
  lget_ctrl : forall T, lget (ptrs_of T) (GP ++ "ctrl") = Some (VPtr CT 0);
  lget_fin : forall T, lget (ptrs_of T) (GP ++ "fin") = Some (VPtr "fin" 0);
  lget_fout : forall T, lget (ptrs_of T) (GP ++ "fout") = Some (VPtr "fout" 0);
  lget_thread_cell : forall T k, (k < T)%nat -> lget (ptrs_of T) (ptr_key (CP ++ "threads") (8 * Z.of_nat k)) = Some (VInt (Z.of_nat (S k)));
  (* ---- the end of run_multicry: back in the calling frame, up to the lock of del_instance ---- *)
  Tdone_st : forall T pad, ct_st (Tdone T pad) = TRun;
  Tdone_sp : forall T pad, is_sched_point (ct_cur (Tdone T pad)) = true;
  ev_done_nev : forall T, nev (ev_done T) = [];
  done_leads : forall c T pad input0 d thr evs R,
    R = (put 0 (Tdone T pad) (C (sh_of c T pad input0 d) thr []), evs ++ ev_done T) ->
    exists B, exr 0 B false (mk SSkip (Kbot T pad) (bot_locs T pad) bot_pre TRun) (C (sh_of c T pad input0 d) thr []) evs R;
  (* ---- the stream object: one call of runcry on a block of worker i's buffer ---- *)
  stream_call : forall c T pad input0 d i B now K wl thr mx evs,
    (i < T)%nat -> (1 <= T <= 255)%nat -> (1 <= c)%nat -> (16 * Z.of_nat c < 2 ^ 32)%Z -> List.length (d_bufs d) = T ->
    (16 * now + 16 <= List.length (mb_cells B))%nat -> List.length (mb_cells B) = (16 * c)%nat -> Forall (fun z => 0 <= z < 256)%Z (mb_cells B) ->
    lget wl "mode" = Some (VPtr (mp i) 0) -> lget wl "block" = Some (VPtr (bpfx i ++ "b") (Z.of_nat (16 * now))) ->
    (exists x, srep T i x (d_sm d)) ->
    exists sm' cells' sevs N,
      leads (S i) N
        (mk (SCallVirt None "runcry/1" (Some (EVar "mode")) [EVar "block"]) K wl "" TRun)
        (C (sh_of c T pad input0 (dset d i B)) thr mx) evs
        (mk SSkip K wl "" TRun)
        (C (sh_of c T pad input0 (with_sm (dset d i (mb_with_cells cells' B)) sm')) thr mx) (evs ++ sevs) /\
      stream_post T i (d_sm d) (mb_cells B) (16 * now) sm' cells' sevs
}.

Definition elem_pfx_inj := RefineConcMem.elem_pfx_inj.
Definition elem_pfx_eqb := RefineConcMem.elem_pfx_eqb.
Definition elem_pfx_eqb_other := RefineConcMem.elem_pfx_eqb_other.
Definition elem_pfx_eqb_same := RefineConcMem.elem_pfx_eqb_same.

Section Threads.
Context {LY : Layout} {LO : LayoutOk}.

Lemma nth_upd_buf_same : forall i f bs, (i < List.length bs)%nat -> nth i (upd_buf i f bs) mb0 = f (nth i bs mb0).
Proof. intros. unfold upd_buf. apply nth_set_nth_eq. assumption. Qed.
Lemma nth_upd_buf_other : forall i j f bs, i <> j -> nth j (upd_buf i f bs) mb0 = nth j bs mb0.
Proof. intros. unfold upd_buf. apply nth_set_nth_neq. congruence. Qed.
Lemma upd_buf_length : forall i f bs, List.length (upd_buf i f bs) = List.length bs.
Proof. intros. unfold upd_buf. apply set_nth_length. Qed.

(* ================= the thread list ================= *)
Lemma threads_length : forall T pad p ws turn g, List.length (threads_of T pad p ws turn g) = S T.
Proof. intros. unfold threads_of. cbn [List.length]. now rewrite map_length, seq_length. Qed.
Lemma nth_thread_io : forall T pad p ws turn g, nth_error (threads_of T pad p ws turn g) 0 = Some (io_thread T pad p turn g).
Proof. reflexivity. Qed.
Lemma nth_error_map_seq : forall A (f : nat -> A) n a i, (i < n)%nat -> nth_error (map f (seq a n)) i = Some (f (a + i)%nat).
Proof.
  intros A f. induction n as [|n IH]; intros a i H; [lia|]. cbn [seq map]. destruct i as [|i]; cbn [nth_error].
  - now rewrite Nat.add_0_r.
  - rewrite IH by lia. f_equal. f_equal. lia.
Qed.
Lemma nth_thread_worker : forall T pad p ws turn g i, (i < T)%nat ->
  nth_error (threads_of T pad p ws turn g) (S i) = Some (worker_thread i (nth i ws W_Done) (nth i (g_wl g) [])).
Proof. intros. unfold threads_of. cbn [nth_error]. rewrite nth_error_map_seq by assumption. reflexivity. Qed.

Lemma set_nth_t_map_seq : forall (f f' : nat -> cthread) n a i x, (i < n)%nat -> x = f' (a + i)%nat ->
  (forall j, j <> (a + i)%nat -> f' j = f j) ->
  set_nth_t i x (map f (seq a n)) = map f' (seq a n).
Proof.
  intros f f'. induction n as [|n IH]; intros a i x H E O; [lia|]. cbn [seq map]. destruct i as [|i]; cbn [set_nth_t].
  - rewrite Nat.add_0_r in *. subst x. f_equal. apply map_ext_in. intros j Hj. apply in_seq in Hj. symmetry. apply O. lia.
  - rewrite (O a) by lia. f_equal. apply IH; [lia|rewrite E; f_equal; lia|intros j Hj; apply O; lia].
Qed.

Lemma put_worker : forall T pad p ws turn g i w' wl', (i < T)%nat -> List.length ws = T -> List.length (g_wl g) = T ->
  set_nth_t (S i) (worker_thread i w' wl') (threads_of T pad p ws turn g) = threads_of T pad p (set_nth i w' ws) turn (with_wl g i wl').
Proof.
  intros T pad p ws turn g i w' wl' Hi Lw Lg. unfold threads_of. cbn [set_nth_t]. f_equal.
  apply set_nth_t_map_seq; [exact Hi| |].
  - cbn [Nat.add g_wl with_wl]. rewrite !nth_set_nth_eq by lia. reflexivity.
  - intros j N. cbn [Nat.add g_wl with_wl] in *. rewrite !nth_set_nth_neq by congruence. reflexivity.
Qed.
Lemma put_io : forall T pad p ws turn g p' turn' g', g_wl g' = g_wl g ->
  set_nth_t 0 (io_thread T pad p' turn' g') (threads_of T pad p ws turn g) = threads_of T pad p' ws turn' g'.
Proof. intros. unfold threads_of. cbn [set_nth_t]. now rewrite H. Qed.

(* ================= notify_all on the canonical thread list ================= *)
Definition wake_io_pc (p : ipc) : ipc := match p with I_Asleep => I_Awake | _ => p end.
Definition wake_w_pc (w : wpc) : wpc := match w with W_Asleep f => W_Awake f | _ => w end.
Definition wake1 (cv : string) (t : cthread) : cthread :=
  match ct_st t with
  | TSleep c m => if String.eqb c cv then {| ct_cur := ct_cur t; ct_k := ct_k t; ct_loc := ct_loc t; ct_pre := ct_pre t; ct_st := TAwake m |} else t
  | _ => t
  end.
Lemma wake_all_map : forall cv l, wake_all cv l = map (wake1 cv) l.
Proof. reflexivity. Qed.

Lemma wake1_worker : forall cv i w wl, wake1 cv (worker_thread i w wl) =
  worker_thread i (if String.eqb (cpfx i ++ "cv_ready") cv then wake_w_pc w else w) wl.
Proof.
  intros cv i w wl. destruct w; try (destruct (String.eqb (cpfx i ++ "cv_ready") cv); reflexivity).
  unfold wake1. cbn [worker_thread RefineE2EfLay.mk ct_st ct_cur ct_k ct_loc ct_pre]. destruct (String.eqb (cpfx i ++ "cv_ready") cv); reflexivity.
Qed.
Lemma wake1_io : forall cv T pad p turn g, wake1 cv (io_thread T pad p turn g) =
  io_thread T pad (if String.eqb (cpfx turn ++ "cv_update") cv then wake_io_pc p else p) turn g.
Proof.
  intros cv T pad p turn g. destruct p; try (destruct (String.eqb (cpfx turn ++ "cv_update") cv); reflexivity).
  - unfold wake1. cbn [io_thread RefineE2EfLay.mk ct_st ct_cur ct_k ct_loc ct_pre]. destruct (String.eqb (cpfx turn ++ "cv_update") cv); reflexivity.
  - unfold wake1. cbn [io_thread wake_io_pc]. rewrite Tdone_st. destruct (String.eqb (cpfx turn ++ "cv_update") cv); reflexivity.
Qed.

Lemma wake_all_update : forall T pad p ws turn g i,
  wake_all (cpfx i ++ "cv_update") (threads_of T pad p ws turn g) =
  threads_of T pad (if Nat.eqb turn i then wake_io_pc p else p) ws turn g.
Proof.
  intros T pad p ws turn g i. rewrite wake_all_map. unfold threads_of. cbn [map]. rewrite wake1_io. unfold cpfx at 1 2.
  rewrite elem_pfx_eqb, String.eqb_refl, andb_true_r. f_equal.
  rewrite map_map. apply map_ext. intros j. rewrite wake1_worker. unfold cpfx. rewrite elem_pfx_eqb.
  replace (String.eqb "cv_ready" "cv_update") with false by reflexivity. rewrite andb_false_r. reflexivity.
Qed.
Lemma wake_all_ready : forall T pad p ws turn g i, (i < T)%nat -> List.length ws = T ->
  wake_all (cpfx i ++ "cv_ready") (threads_of T pad p ws turn g) =
  threads_of T pad p (set_nth i (wake_w_pc (nth i ws W_Done)) ws) turn g.
Proof.
  intros T pad p ws turn g i Hi HL. rewrite wake_all_map. unfold threads_of. cbn [map]. rewrite wake1_io. unfold cpfx at 1 2.
  rewrite elem_pfx_eqb. replace (String.eqb "cv_update" "cv_ready") with false by reflexivity. rewrite andb_false_r. f_equal.
  rewrite map_map. apply map_ext_in. intros j Hj. apply in_seq in Hj. rewrite wake1_worker. unfold cpfx. rewrite elem_pfx_eqb, String.eqb_refl, andb_true_r.
  destruct (Nat.eqb_spec j i) as [->|N].
  - rewrite nth_set_nth_eq by lia. reflexivity.
  - rewrite nth_set_nth_neq by congruence. reflexivity.
Qed.
End Threads.
