(* The base64 routines as called from parseOpts / getArgsKey: the key texts of CliConc are finitely many
   (key_of depends on kid = 0 and kid mod 16 only), so the translated is_valid_b64 / base64_to_hex are run on each of them
   in a four-object memory and the run is transported into the front end's memory by RefineCliSim.exec_sim. *)
From Coq Require Import ZArith NArith List String Bool Lia Arith.
From Wencry Require Import Bytes Base64Spec CliModel MiniC MiniCRun MiniCLemmas SrcRun SrcRun3 CliConc RefineCliSim RefineCliLib.
From Wencry.Gen Require Src_cli Src_base64.
Import ListNotations.
Local Open Scope Z_scope.
Local Open Scope string_scope.
Local Open Scope list_scope.

Definition canon (kid : nat) : nat := if Nat.eqb kid 0 then 0%nat else (16 + kid mod 16)%nat.
Definition canon_list : list nat := 0%nat :: seq 16 16.
Lemma canon_in : forall kid, In (canon kid) canon_list.
Proof.
  intros kid. unfold canon, canon_list. destruct (Nat.eqb kid 0); [left; reflexivity|right].
  apply in_seq. pose proof (Nat.mod_upper_bound kid 16 ltac:(lia)). lia.
Qed.
Lemma key_of_canon : forall kid, key_of kid = key_of (canon kid).
Proof.
  intros kid. unfold key_of, canon. destruct (Nat.eqb_spec kid 0) as [->|Hk]; [reflexivity|].
  destruct (Nat.eqb_spec (16 + kid mod 16) 0) as [E|_]; [lia|].
  apply map_ext_in. intros i Hi. apply in_seq in Hi. f_equal.
  pose proof (Nat.div_mod kid 16 ltac:(lia)) as D. pose proof (Nat.mod_upper_bound kid 16 ltac:(lia)) as B.
  set (q := (kid / 16)%nat) in *. set (r := (kid mod 16)%nat) in *.
  replace (kid * 16 + i)%nat with ((16 * r + i) + q * 256)%nat by lia.
  replace ((16 + r) * 16 + i)%nat with ((16 * r + i) + 1 * 256)%nat by lia.
  rewrite !Nat.mod_add by lia. reflexivity.
Qed.

Definition ktext (kid : nat) : list Z := map Z.of_N (encode (key_of kid)).
Definition badtext : list Z := map Z.of_N (str "notakey").
Definition txt_obj (t : list Z) : object := {| o_ty := U8; o_cells := t ++ [0] |}.
Definition key0_obj : object := {| o_ty := U8; o_cells := repeat 0 16 |}.
Definition optind_obj : object := {| o_ty := I32; o_cells := [0] |}.

Definition sm (t : list Z) (o4 : object) (l : list (string * value)) : state :=
  {| mem := mem4 Src_base64.g_b64_tab Src_base64.g_hex_tab (txt_obj t) o4; loc := l; pre := ""; files := []; ptrs := []; fresh := 0 |}.
Definition loc_valid (n : Z) : list (string * value) := [("base64_in", VPtr "in" 0); ("len", VInt n)].
Definition loc_dec : list (string * value) := [("base64_in", VPtr "in" 0); ("len", VInt 24); ("hex_out", VPtr "out" 0)].

Definition kfacts (c : nat) : Prop :=
  List.length (ktext c) = 24%nat /\ forallb (fun x => negb (x =? 0)%Z) (ktext c) = true /\
  (exists s', exec cli_prog [] 120 (f_body Src_base64.f_is_valid_b64_2) (sm (ktext c) optind_obj (loc_valid 24)) = Ok (Returned (Some (VInt 1)), s') /\
              mem s' = mem (sm (ktext c) optind_obj [])) /\
  (exists o s', exec cli_prog [] 120 (f_body Src_base64.f_base64_to_hex_3) (sm (ktext c) key0_obj loc_dec) = Ok (o, s') /\
              mem s' = mem (sm (ktext c) (bytes_object (key_of c)) [])).

Ltac run_small :=
  lazymatch goal with
  | |- exists s', ?e = Ok (?o, s') /\ _ =>
      let r := eval vm_compute in e in
      lazymatch r with Ok (_, ?s) => exists s; split; vm_compute; reflexivity end
  | |- exists o s', ?e = Ok (o, s') /\ _ =>
      let r := eval vm_compute in e in
      lazymatch r with Ok (?o, ?s) => exists o, s; split; vm_compute; reflexivity end
  end.

Lemma kfacts_canon : forall c, In c canon_list -> kfacts c.
Proof.
  intros c H. unfold canon_list in H. cbn [seq In] in H.
  repeat (destruct H as [<-|H]; [unfold kfacts; split; [reflexivity|split; [vm_compute; reflexivity|split; run_small]]|]).
  contradiction.
Qed.
Lemma kfacts_all : forall kid, kfacts (canon kid).
Proof. intros kid. apply kfacts_canon, canon_in. Qed.

Lemma bad_facts :
  List.length badtext = 7%nat /\ forallb (fun x => negb (x =? 0)%Z) badtext = true /\
  (exists s', exec cli_prog [] 120 (f_body Src_base64.f_is_valid_b64_2) (sm badtext optind_obj (loc_valid 7)) = Ok (Returned (Some (VInt 0)), s') /\
              mem s' = mem (sm badtext optind_obj [])).
Proof. split; [reflexivity|split; [vm_compute; reflexivity|run_small]]. Qed.

Lemma forallb_nonzero : forall l, forallb (fun x => negb (x =? 0)%Z) l = true -> Forall (fun c => c <> 0) l.
Proof.
  intros l H. apply Forall_forall. intros x Hx. rewrite forallb_forall in H. specialize (H x Hx).
  apply negb_true_iff, Z.eqb_neq in H. exact H.
Qed.

Lemma sim_fns_ok : forall g, In g sim_fns -> exists fn, lget cli_prog g = Some fn /\ ok_s (f_body fn) = true.
Proof.
  intros g H. unfold sim_fns in H. cbn [In] in H.
  destruct H as [<-|[<-|[<-|[]]]]; eexists; (split; [reflexivity|vm_compute; reflexivity]).
Qed.

(* transport of a small run into a big state *)
Lemma transport : forall a b t o4 l fuel body o s' S o4',
  a <> b -> a <> "b64_tab" -> a <> "hex_tab" -> b <> "b64_tab" -> b <> "hex_tab" ->
  ok_s body = true ->
  exec cli_prog [] fuel body (sm t o4 l) = Ok (o, s') -> mem s' = mem (sm t o4' []) ->
  mget (mem S) "b64_tab" = Some Src_base64.g_b64_tab -> mget (mem S) "hex_tab" = Some Src_base64.g_hex_tab ->
  mget (mem S) a = Some (txt_obj t) -> mget (mem S) b = Some o4 -> loc S = lmap a b l ->
  exists S', exec cli_prog [] fuel body S = Ok (omap a b o, S') /\
    pre S' = pre S /\ files S' = files S /\ ptrs S' = ptrs S /\ fresh S' = fresh S /\
    mget (mem S') b = Some o4' /\ (forall K, K <> b -> mget (mem S') K = mget (mem S) K).
Proof.
  intros a b t o4 l fuel body o s' S o4' Hab Ha1 Ha2 Hb1 Hb2 Hok Hrun Hmem M1 M2 M3 M4 HL.
  assert (HR : SRel a b (sm t o4 l) S).
  { split; [exact HL|]. exists Src_base64.g_b64_tab, Src_base64.g_hex_tab, (txt_obj t), o4. auto. }
  destruct (exec_sim cli_prog [] a b Hab Ha1 Ha2 Hb1 Hb2 sim_fns_ok _ _ _ _ _ _ Hok HR Hrun) as (S' & X & [RL RM] & (P1 & P2 & P3 & P4 & P5)).
  exists S'. split; [exact X|]. repeat split; try assumption.
  - destruct RM as (o1 & o2 & o3 & o4'' & E & G1 & G2 & G3 & G4). rewrite Hmem in E. unfold sm, mem4 in E. cbn [mem] in E.
    inversion E; subst. exact G4.
  - intros K HK. destruct RM as (o1 & o2 & o3 & o4'' & E & G1 & G2 & G3 & G4). rewrite Hmem in E. unfold sm, mem4 in E. cbn [mem] in E.
    inversion E; subst.
    destruct (String.eqb_spec K "b64_tab") as [->|N1]; [congruence|].
    destruct (String.eqb_spec K "hex_tab") as [->|N2]; [congruence|].
    destruct (String.eqb_spec K a) as [->|N3]; [congruence|].
    apply P5. unfold is4. intros [?|[?|[?|?]]]; contradiction.
Qed.
