(* End to end, for verification: runcrypt::execute_verify as TRANSLATED (with everything below it: verify, FileHeader, hmac, the
   hash factory, the file buffer, the three hash classes), run on the thread machine under ANY scheduler seed, on ANY byte string
   as input file, returns exactly the verdict of the hand model FileModel.verify (result code 0 = accepted), writes nothing to its
   output stream and leaves its input stream's bytes as they were.  Composes SRC_verify (translated verify = model, big-step
   semantics), SRC_seq_machine_agrees (the thread machine agrees with the big-step semantics on code that does not synchronise) and
   the constructor / execute_verify glue. *)
From Coq Require Import ZArith NArith List String Bool.
From Wencry Require Import Bytes HashModel FileModel MiniC MiniCRun MiniCConc SrcRun SrcRun2 SrcRun5 RefineE2E.
Import ListNotations.
Local Open Scope N_scope.

Theorem SRC_execute_verify_is_model : forall c hbuf T F key rnd,
  (1 <= c)%nat -> (1 <= hbuf)%nat -> N.of_nat (64 * hbuf) < 2 ^ 32 -> (1 <= T < 256)%nat ->
  block16 key -> bytesb F = true -> N.of_nat (length F) < 2 ^ 56 ->
  match src_verify_file c hbuf T F key rnd with
  | SOk (b, o, i, _) =>
      exists code, verify hbuf F key = FileModel.Ok code /\ b = (code =? 0) /\ o = [] /\ i = F
  | SErr w => w = "out of fuel"%string          (* the machine's step budget (SrcRun5.run_from) was too small for this input *)
  end.
Proof. exact SRC_execute_verify_is_model_proof. Qed.
Print Assumptions SRC_execute_verify_is_model.
