(* Stage 5, execute_decrypt (accepting path): the whole-program layout instance PWdec, the explicit state cs1_dec after the first step of the
   main thread, and the second-step targets (the two sequential stretches) as big-step Props -- the decrypt counterparts of
   RefineE2EfHashSpec.PWenc / RefineE2EfSetup1.cs1_enc / RefineE2EfSetup2Spec.  Definitions only. *)
From Coq Require Import ZArith NArith List String Bool Lia.
From Wencry Require Import Bytes AesModel ModesModel HashModel FileSpec FileModel FileProps PipeConc MiniC MiniCRun MiniCLemmas MiniCConc SrcRun SrcRun2 SrcRun5 RefineE2EWhole.
From Wencry Require Import RefineE2EfLay RefineE2EfMach RefineE2EfWNames RefineE2EfWLay RefineE2EfGen RefineE2EfTail RefineE2EfEncDefs RefineE2EfHashSpec RefineE2EfSetup1 RefineE2EfSetup2Spec.
From Wencry.Gen Require Src_aes Src_whole Src_conc.
Import ListNotations.
Local Open Scope list_scope.
Local Open Scope string_scope.

Section DecInstance.
Variables (hbuf T0 : nat) (F key : list N).
Variables (h : nat) (ivn : string) (extra : memory) (pextra : locs) (kd : mkind).

(* M1 c hbuf T key after an accepting runcrypt::verify: header cells and hmachandle.length written; without live_num / "#0" *)
Definition memA_d (c T : nat) : memory :=
  ([("rc.settings.ctype", oc I8 (-1)); ("rc.settings.htype", oc I8 (-1)); ("rc.settings.no_echo", oc TBool 1);
   ("rc.threads_num", oc U8 (Z.of_nat T)); ("rc.mode", oc TBool 0); ("rc.header.hash", bytes_object (firstn 64 (skipn 10 F)));
   ("rc.header.num", oc U8 (Z.of_nat T)); ("rc.header.ctype", oc U8 (Z.of_N (nth 8 F 0%N))); ("rc.header.htype", oc U8 (Z.of_N (nth 9 F 0%N)));
   ("rc.crym.THREADS_NUM", oc U8 (Z.of_nat T)); ("rc.hmachandle.length", oc U8 (Z.of_nat (hlen (nth 9 F 0%N))));
   ("st.ctype", oc I8 (-1)); ("st.htype", oc I8 (-1)); ("st.no_echo", oc TBool 1);
   ("key", bytes_object key); ("seed", bytes_object [0%N])]
  ++ file_globals hbuf ++ Src_aes.globals
  ++ [("sum", RefineE2EfLay.cell U32 (16 * Z.of_nat c)); ("sizeof:iobuffer.b", RefineE2EfLay.cell U32 (16 * Z.of_nat c))])%list.
(* the calling frame: execute_decrypt at the call of run_multicry *)
Definition d_locs : locs :=
  [("fsize", VInt (Z.of_nat (List.length F))); ("$t2", VInt 0); ("res", VInt 0); ("$t3", VPtr ivn 0); ("iv", VPtr ivn 0);
   ("$t5", VInt (Z.of_N (nth 8 F 0%N))); ("$t4", VPtr (heap_name (h + 3)) 0); ("mode", VPtr (heap_name (h + 3)) 0)].
Definition PWdec : wpar := {|
  wp_h := h;
  wp_memA := memA_d;
  wp_memB := fun _ _ => ([("#0", mk_object U8 32)] ++ extra)%list;
  wp_pA := fun _ => [("rc.fin", VPtr "fin" 0); ("rc.out", VPtr "fout" 0); ("rc.key", VPtr "key" 0)];
  wp_pB := fun _ => ([("rc.header.key", VPtr "key" 0); ("rc.header.fp", VPtr "fin" 0); ("rc.header.out", VPtr "fout" 0);
                     ("rc.aesfactory.key", VPtr "key" 0); ("rc.resultprint", VPtr "#0" 0)] ++ pextra)%list;
  wp_pC := fun _ => [("rc.aesfactory.iv", VPtr ivn 0)];
  wp_cp := "rc.crym.";
  wp_blocs := fun _ _ => d_locs; wp_bpre := "rc."; wp_kb := fun _ _ => kbot_of release_call dec_K1;
  wp_tdone := fun _ _ => tdone_of release_call dec_K1 d_locs "rc.";
  wp_kind := kd; wp_ks := genall key; wp_iv := firstn 16 (skipn 48 F);
  wp_out0 := []; wp_pos0 := text_mark T0 |}.
End DecInstance.

(* ---------------- the pieces of the code ---------------- *)
Definition ed_body : stmt := f_body Src_whole.f_runcrypt_execute_decrypt_1.
(* the accepting branch of execute_decrypt; what follows the call of prepare_AES in it; what follows the branch *)
Definition ed_then : stmt := s_then (s_fst (s_snd (s_snd (s_snd ed_body)))).
Definition ed_rest : stmt := s_snd (s_snd (s_snd (s_snd ed_then))).
Definition ed_after : stmt := s_snd (s_snd (s_snd (s_snd ed_body))).

Definition ed_locs1 (F : list N) (ivn : string) : locs :=
  [("fsize", VInt (Z.of_nat (List.length F))); ("$t2", VInt 0); ("res", VInt 0); ("$t3", VPtr ivn 0); ("iv", VPtr ivn 0); ("$t5", VInt (Z.of_N (nth 8 F 0%N)))].
Definition pa_locs1d (F : list N) (ivn : string) : locs := [("ctype", VInt (Z.of_N (nth 8 F 0%N))); ("iv", VPtr ivn 0); ("cmode", VInt 0)].
Definition Ked (F : list N) (ivn : string) : kont :=
  KCall (Some "$t4") (ed_locs1 F ivn) "rc." (KSeq ed_rest (KSeq ed_after (KCall (Some "result") [] "" KStop))).
(* the main thread at the lock of get_instance *)
Definition t1_dec (F : list N) (ivn : string) : cthread :=
  RefineE2EfLay.mk (SPrim None "lock" [EGlobal "mtx"])
    (KSeq gi_rest (KSeq gi_ret (KCall (Some "$t1") (pa_locs1d F ivn) "rc." (KSeq pa_rest (Ked F ivn))))) [] "rc." TRun.

Section S2D.
Variables (c hbuf T : nat) (F key : list N) (h n : nat) (extra : memory) (pextra : locs) (kd : mkind).
Definition PWd : wpar := PWdec hbuf T F key h (heap_name n) extra pextra kd.
Notation PW := PWd.
(* the files after the first step: the input positioned at the text, nothing written yet *)
Definition F1d : list (string * cfile) :=
  [("fin", {| cf_data := map Z.of_N F; cf_pos := text_mark T; cf_eof := false |}); ("fout", stream [] 0)].
Definition A0d : memory := (memA_d hbuf F key c T ++ [("live_num", RefineE2EfLay.cell U8 0)] ++ [("#0", mk_object U8 32)] ++ extra)%list.
Definition Pt0d : locs := (PS1 ++ pextra)%list.
Definition sh1_dec : state := {| mem := A0d; loc := []; pre := ""; files := F1d; ptrs := Pt0d; fresh := h |}.
Definition cs1_dec : cstate := C sh1_dec [t1_dec F (heap_name n)] [].

Definition s_lockd : state := {| mem := A0d; loc := []; pre := "rc."; files := F1d; ptrs := Pt0d; fresh := h |}.
Definition seg3zd : memory :=
  [((wGP PW ++ "turn")%string, RefineE2EfLay.cell U32 0); ((wGP PW ++ "size")%string, RefineE2EfLay.cell U32 0);
   ((wGP PW ++ "ispadding")%string, RefineE2EfLay.cell TBool 0); ((wGP PW ++ "over")%string, RefineE2EfLay.cell TBool 0)].
Definition PtGd : locs :=
  lset (Pt0d ++ [(class_key (wGP PW), VPtr "buffergroup" 0); ((wGP PW ++ "buflst")%string, VNull); ((wGP PW ++ "ctrl")%string, VNull)])%list "instance" (VPtr (wGP PW) 0).
Definition s_newd : state := {| mem := (A0d ++ seg3zd)%list; loc := [("$t1", VPtr (wGP PW) 0)]; pre := "rc."; files := F1d; ptrs := PtGd; fresh := S h |}.
Definition gi_if_spec_d : Prop := exists fuel, exec whole_prog [] fuel gi_if2 s_lockd = Ok (Normal, s_newd).

Definition ptrs_based : locs :=
  (wp_pA PW T ++ [("instance", VPtr (wGP PW) 0)] ++ wp_pB PW T ++ core5 PW
  ++ map (fun i => (class_key (wbp PW i), VPtr "iobuffer" 0)) (seq 0 T)
  ++ map (fun i => (class_key (wcp PW i), VPtr "bufferctrl" 0)) (seq 0 T)
  ++ wp_pC PW T ++ flat_map (stream_ptrs PW) (seq 0 T))%list.
Lemma ptrs_based_eq : w_ptrs_of PW T = (ptrs_based ++ map (fun i => (ptr_key (wp_cp PW ++ "threads")%string (8 * Z.of_nat i), VInt (Z.of_nat (S i)))) (seq 0 T))%list.
Proof. unfold w_ptrs_of, ptrs_based. rewrite <- !app_assoc. reflexivity. Qed.

Definition pa_locs2d : locs := lset (pa_locs1d F (heap_name n)) "$t1" (VPtr (wGP PW) 0).
Definition s_pa0d : state := {| mem := (A0d ++ seg3zd)%list; loc := pa_locs2d; pre := "rc."; files := F1d; ptrs := PtGd; fresh := S h |}.
Definition s_pa1d (sm0 : memory) (lY : locs) : state :=
  {| mem := w_mem_of PW c T false (@d_init0 (wlayout PW) c T sm0); loc := lY; pre := "rc."; files := F1d; ptrs := ptrs_based; fresh := h + 4 + T |}.
Definition pa_rest_spec_d : Prop :=
  exists (fuel : nat) (sm0 : memory) (lY : locs),
    (forall i, (i < T)%nat -> w_srep PW T i (firstn 16 (skipn 48 F)) sm0) /\
    exec whole_prog [] fuel pa_rest s_pa0d = Ok (Returned (Some (VPtr (wMA PW) 0)), s_pa1d sm0 lY).
End S2D.
