(* Symbolic-execution helpers for the MiniC refinement proofs of base64.cpp *)
From Coq Require Import ZArith NArith List String Bool Lia.
From Wencry Require Import Bytes Base64Model Base64Proofs MiniC MiniCRun MiniCLemmas SrcRun.
From Wencry.Gen Require Import B64Tab.
From Wencry.Gen Require Src_base64.
Import ListNotations.
Local Open Scope Z_scope.
Local Open Scope string_scope.
Local Open Scope list_scope.

Section X.
Variable prog : program.
Variable vt : list (string * string).
Lemma x_seq fuel a b s s1 r :
  exec prog vt fuel a s = Ok (Normal, s1) -> exec prog vt fuel b s1 = r -> exec prog vt (S fuel) (SSeq a b) s = r.
Proof. intros H1 H2. rewrite exec_seq, H1. exact H2. Qed.
Lemma x_seq_ret fuel a b s s1 v :
  exec prog vt fuel a s = Ok (Returned v, s1) -> exec prog vt (S fuel) (SSeq a b) s = Ok (Returned v, s1).
Proof. intros H1. rewrite exec_seq, H1. reflexivity. Qed.
Lemma x_set fuel x e s v s' :
  eval s e = Ok v -> s' = with_loc s (lset (loc s) x v) -> exec prog vt (S fuel) (SSet x e) s = Ok (Normal, s').
Proof. intros H1 H2. rewrite exec_set, H1, H2. reflexivity. Qed.
Lemma x_if_true fuel c a b s x r :
  eval s c = Ok (VInt x) -> x <> 0 -> exec prog vt fuel a s = r -> exec prog vt (S fuel) (SIf c a b) s = r.
Proof. intros H1 H2 H3. rewrite exec_if, H1. cbn [bind as_int]. apply Z.eqb_neq in H2. rewrite H2. exact H3. Qed.
Lemma x_if_false fuel c a b s r :
  eval s c = Ok (VInt 0) -> exec prog vt fuel b s = r -> exec prog vt (S fuel) (SIf c a b) s = r.
Proof. intros H1 H3. rewrite exec_if, H1. exact H3. Qed.
Lemma x_loop_end fuel c body step s :
  eval s c = Ok (VInt 0) -> exec prog vt (S fuel) (SLoop c body step) s = Ok (Normal, s).
Proof. intros H. rewrite exec_loop, H. reflexivity. Qed.
Lemma x_loop_iter fuel c body step s x s1 s2 r :
  eval s c = Ok (VInt x) -> x <> 0 -> exec prog vt fuel body s = Ok (Normal, s1) ->
  exec prog vt fuel step s1 = Ok (Normal, s2) -> exec prog vt fuel (SLoop c body step) s2 = r ->
  exec prog vt (S fuel) (SLoop c body step) s = r.
Proof.
  intros H1 H2 H3 H4 H5. rewrite exec_loop, H1. cbn [bind as_int]. apply Z.eqb_neq in H2. rewrite H2.
  rewrite H3. cbn [bind]. rewrite H4. exact H5.
Qed.
Lemma x_loop_ret fuel c body step s x s1 v :
  eval s c = Ok (VInt x) -> x <> 0 -> exec prog vt fuel body s = Ok (Returned v, s1) ->
  exec prog vt (S fuel) (SLoop c body step) s = Ok (Returned v, s1).
Proof.
  intros H1 H2 H3. rewrite exec_loop, H1. cbn [bind as_int]. apply Z.eqb_neq in H2. rewrite H2.
  rewrite H3. reflexivity.
Qed.
Lemma x_store fuel t p e s o off z ob ob' s' :
  eval s p = Ok (VPtr o off) -> eval s e = Ok (VInt z) -> mget (mem s) o = Some ob ->
  store_obj ob t off z = Ok ob' -> s' = with_mem s (mset (mem s) o ob') ->
  exec prog vt (S fuel) (SStore t p e) s = Ok (Normal, s').
Proof. intros H1 H2 H3 H4 H5. cbn [exec]. rewrite H1, H2. cbn [bind as_int]. rewrite H3, H4, H5. reflexivity. Qed.
Lemma x_return fuel e s v :
  eval s e = Ok v -> exec prog vt (S fuel) (SReturn (Some e)) s = Ok (Returned (Some v), s).
Proof. intros H. cbn [exec]. rewrite H. reflexivity. Qed.
End X.

Ltac ev := cbn -[tab64 nthN arith wrap load_obj store_obj Z.shiftl Z.shiftr Z.land Z.lor Z.modulo Z.pow Z.of_nat N.lor N.land N.shiftl N.shiftr].
Lemma wrap_TBool_0 : wrap TBool 0 = 0. Proof. reflexivity. Qed.
Lemma wrap_TBool_1 : wrap TBool 1 = 1. Proof. reflexivity. Qed.
Ltac evr tac := repeat first [progress ev | (rewrite arith_I32_small by lia) | rewrite Z.mul_1_r
                             | rewrite wrap_TBool_0 | rewrite wrap_TBool_1 | (rewrite wrap_I32_small by lia) | tac].
Ltac stnorm := unfold with_loc, with_mem; cbn [lset mset loc mem pre files ptrs fresh String.eqb Ascii.eqb Bool.eqb andb app]; reflexivity.

Local Open Scope N_scope.
Lemma N_lor_lt a b k : a < 2 ^ k -> b < 2 ^ k -> N.lor a b < 2 ^ k.
Proof.
  intros Ha Hb. assert (P : 2 ^ k <> 0) by (apply N.pow_nonzero; discriminate).
  apply N.div_small_iff; [exact P|].
  rewrite <- N.shiftr_div_pow2, N.shiftr_lor, !N.shiftr_div_pow2.
  rewrite (N.div_small a), (N.div_small b) by assumption. reflexivity.
Qed.
Local Open Scope Z_scope.

Lemma load_bytes : forall bs k, bytesb bs = true -> (k < List.length bs)%nat ->
  load_obj (bytes_object bs) U8 (Z.of_nat k) = Ok (Z.of_N (nth k bs 0%N)).
Proof.
  intros bs k Hb Hk. unfold load_obj, bytes_object. cbn [o_ty o_cells ity_bytes ity_bits].
  change (8 / 8) with 1. rewrite Z.div_1_r, Z.mod_1_r. cbn [Z.eqb].
  destruct (Z.of_nat k <? 0) eqn:E; [apply Z.ltb_lt in E; lia|].
  rewrite map_length. destruct (Z.of_nat k <? Z.of_nat (List.length bs)) eqn:E2; [|apply Z.ltb_ge in E2; lia].
  rewrite Nat2Z.id. change 0 with (Z.of_N 0). rewrite map_nth. rewrite wrap_U8_small; [reflexivity|].
  assert (nth k bs 0%N < 256)%N.
  { unfold bytesb in Hb. rewrite forallb_forall in Hb. apply N.ltb_lt. apply (Hb (nth k bs 0%N)). apply nth_In. exact Hk. }
  lia.
Qed.

Lemma load_mid : forall done x rest, bytesb (done ++ x :: rest) = true ->
  load_obj (bytes_object (done ++ x :: rest)) U8 (Z.of_nat (List.length done)) = Ok (Z.of_N x).
Proof.
  intros done x rest Hb. rewrite load_bytes; [|exact Hb|rewrite app_length; cbn; lia].
  rewrite nth_middle. reflexivity.
Qed.

Lemma b64_tab_obj : Src_base64.g_b64_tab = bytes_object b64_tab.
Proof. reflexivity. Qed.
Lemma hex_tab_obj : Src_base64.g_hex_tab = bytes_object hex_tab.
Proof. reflexivity. Qed.

Lemma load_tab64 : forall q, (q < 64)%N -> load_obj Src_base64.g_b64_tab U8 (Z.of_N q) = Ok (Z.of_N (tab64 q)).
Proof.
  intros q Hq. rewrite b64_tab_obj. rewrite <- (N2Nat.id q) at 1. rewrite nat_N_Z.
  rewrite load_bytes; [reflexivity|vm_compute; reflexivity|].
  change (List.length b64_tab) with 64%nat. lia.
Qed.

Lemma z_sym hh s sz : sz = Z.of_N s -> Z.land (Z.shiftr (Z.of_N hh) sz) 63 = Z.of_N (N.land (N.shiftr hh s) 63).
Proof. intros ->. rewrite of_N_land, of_N_shiftr. reflexivity. Qed.
Lemma sym_lt hh s : (N.land (N.shiftr hh s) 63 < 64)%N.
Proof. change 63%N with (N.ones 6). rewrite N.land_ones. apply N.mod_lt. discriminate. Qed.

Lemma store_u8 : forall cells pfx c post off v, cells = pfx ++ c :: post -> off = Z.of_nat (List.length pfx) -> 0 <= v < 256 ->
  store_obj {| o_ty := U8; o_cells := cells |} U8 off v = Ok {| o_ty := U8; o_cells := pfx ++ v :: post |}.
Proof.
  intros cells pfx c post off v -> -> Hv. unfold store_obj. cbn [o_ty o_cells]. change (ity_bytes U8) with 1. rewrite Z.div_1_r, Z.mod_1_r. cbn [Z.eqb Pos.eqb].
  destruct (Z.of_nat (List.length pfx) <? 0) eqn:E; [apply Z.ltb_lt in E; lia|].
  rewrite app_length. cbn [List.length].
  destruct (Z.of_nat (List.length pfx) <? Z.of_nat (List.length pfx + S (List.length post))) eqn:E2; [|apply Z.ltb_ge in E2; lia].
  rewrite Nat2Z.id, wrap_U8_small by exact Hv. f_equal. f_equal.
  clear. induction pfx as [|p pfx IH]; cbn; [reflexivity|]. now rewrite IH.
Qed.

Lemma bytes_mid : forall done x rest, bytesb (done ++ x :: rest) = true -> (x < 256)%N.
Proof.
  intros done x rest Hb. unfold bytesb in Hb. rewrite forallb_app in Hb. apply andb_true_iff in Hb. destruct Hb as [_ Hb].
  cbn [forallb] in Hb. apply andb_true_iff in Hb. destruct Hb as [Hb _]. apply N.ltb_lt, Hb.
Qed.

Lemma tab64_lt256 : forall q, (tab64 q < 256)%N.
Proof.
  intros q. unfold tab64, nthN.
  destruct (nth_in_or_default (N.to_nat q) b64_tab 0%N) as [H|H]; [|rewrite H; reflexivity].
  assert (F : forallb (fun v => (v <? 256)%N) b64_tab = true) by (vm_compute; reflexivity).
  rewrite forallb_forall in F. apply N.ltb_lt, F, H.
Qed.

(* one iteration of an emission loop: store the symbol for shift s at offset idx, pfx = cells before idx *)
Ltac set_step := eapply x_set; [evr fail; reflexivity | stnorm].

Lemma map_to_of_N : forall l, map Z.to_N (map Z.of_N l) = l.
Proof. induction l as [|x l IH]; cbn [map]; [reflexivity|]. now rewrite N2Z.id, IH. Qed.

Lemma sweep_res (F : N -> res value) (G : N -> Z) :
  forallb (fun c => match F c with Ok (VInt r) => (r =? G c)%Z | _ => false end) all_bytes = true ->
  forall c, (c < 256)%N -> F c = Ok (VInt (G c)).
Proof.
  intros H c Hc. pose proof (sweep_bytes _ H c Hc) as E. cbv beta in E.
  destruct (F c) as [[r| |]| |]; try discriminate. apply Z.eqb_eq in E. now subst.
Qed.

Section XCall.
Variable prog : program.
Variable vt : list (string * string).
Lemma x_call fuel ret fname args s vs f l o s1 s2 :
  eval_list s args = Ok vs -> lget prog fname = Some f -> bind_params (f_params f) vs = Ok l ->
  exec prog vt fuel (f_body f) {| mem := mem s; loc := l; pre := pre s; files := files s; ptrs := ptrs s; fresh := fresh s |} = Ok (o, s1) ->
  set_ret {| mem := mem s1; loc := loc s; pre := pre s; files := files s1; ptrs := ptrs s1; fresh := fresh s1 |} ret
          (match o with Returned v => v | _ => None end) = Ok s2 ->
  exec prog vt (S fuel) (SCall ret fname None args) s = Ok (Normal, s2).
Proof.
  intros H1 H2 H3 H4 H5. cbn [exec]. rewrite H1. cbn [bind this_prefix]. rewrite H2, H3. cbn [bind].
  rewrite H4. cbn [bind]. rewrite H5. reflexivity.
Qed.
Lemma x_prim fuel ret name args s vs v s1 s2 :
  eval_list s args = Ok vs -> do_prim s name vs = Ok (v, s1) -> set_ret s1 ret v = Ok s2 ->
  exec prog vt (S fuel) (SPrim ret name args) s = Ok (Normal, s2).
Proof. intros H1 H2 H3. cbn [exec]. rewrite H1. cbn [bind]. rewrite H2. cbn [bind]. rewrite H3. reflexivity. Qed.
End XCall.

(* the call is_base64(c): $t1 := is_base64 c, nothing else changes *)
Lemma x_is_base64 : forall fuel s e c s',
  eval s e = Ok (VInt (Z.of_N c)) -> (c < 256)%N ->
  s' = with_loc s (lset (loc s) "$t1" (VInt (if is_base64 c then 1 else 0))) ->
  exec b64_prog [] (S (S (S fuel))) (SCall (Some "$t1") "is_base64/1" None [e]) s = Ok (Normal, s').
Proof.
  intros fuel s e c s' He Hc ->.
  eapply x_call.
  - cbn [eval_list]. rewrite He. reflexivity.
  - reflexivity.
  - reflexivity.
  - cbn [f_body Src_base64.f_is_base64_1].
    eapply x_seq.
    + eapply x_prim; [cbn -[wrap]; reflexivity | cbn -[wrap Z.leb]; reflexivity | cbn -[wrap Z.leb]; reflexivity].
    + eapply x_return.
      match goal with |- eval ?st ?ex = _ =>
        assert (EV : eval st ex = Ok (VInt (if is_base64 c then 1 else 0))) end.
      { clear He. revert c Hc. refine (sweep_res _ (fun c => if is_base64 c then 1 else 0) _).
        vm_compute. reflexivity. }
      exact EV.
  - reflexivity.
Qed.
