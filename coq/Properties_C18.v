(* C18 -- each cipher stream in a file starts from its own seed-dependent IV.
   Proved part: the IV every stream starts from is the first 16 bytes of SHA-1(seed), and the
   T stored IV slots are the chained SHA-1 values.  Refuted part: all T streams are started
   from slot 0, so for T >= 2 two streams share the IV and in CTR the same keystream block
   enciphers two different plaintext blocks (known finding K2: using slot i would change the
   file format that C02 fixes). *)
From Wencry Require Import Bytes HashSpec ModesModel FileModel FileSpec FileProps FileProofsSec.
Local Open Scope N_scope.

Theorem C18_stored_ivs_are_the_sha1_chain : forall c hbuf T P key seed cm hm F,
  enc_params c hbuf T P key seed cm hm ->
  enc c hbuf T P key cm hm seed = Ok F ->
  firstn (20 * T) (skipn 48 F) = spec_ivs seed T /\
  firstn 20 (skipn 48 F) = sha1 seed.
Proof. exact C18_stored_ivs_are_the_sha1_chain_proof. Qed.
Print Assumptions C18_stored_ivs_are_the_sha1_chain.

(* the property as stated is false of the faithful model (T = 2, CTR, 64-byte chunks): chunk 0
   and chunk 1 belong to different streams, yet their ciphertext xor equals their plaintext xor,
   i.e. both streams used the same keystream *)
Theorem C18_distinct_stream_ivs_refuted : exists c hbuf T P key seed hm F,
  enc_params c hbuf T P key seed 2 hm /\ (2 <= T)%nat /\
  enc c hbuf T P key 2 hm seed = Ok F /\
  let body := skipn (text_mark T) F in
  xorb_bytes (firstn (16 * c) body) (firstn (16 * c) (skipn (16 * c) body)) =
  xorb_bytes (firstn (16 * c) P) (firstn (16 * c) (skipn (16 * c) P)) /\
  firstn (16 * c) P <> firstn (16 * c) (skipn (16 * c) P).
Proof. exact C18_distinct_stream_ivs_refuted_proof. Qed.
Print Assumptions C18_distinct_stream_ivs_refuted.
