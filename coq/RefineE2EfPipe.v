(* PipeConc-side facts for the generic layer R: RefineConcPipe.v part (b)/(c) for an ARBITRARY stream object
   (state type, transformer, events, initial states). *)
From Coq Require Import ZArith NArith List Bool Lia Arith PeanoNat ZifyNat ZifyN ZifyBool.
From Wencry Require Import Bytes FileModel ModesProofs FileProofsDec PipeConc PipeProps PipeLemmas PipeInv FileConcGlue RefineConcPipe.
Import ListNotations.
Local Open Scope nat_scope.
Local Ltac Zify.zify_post_hook ::= Z.to_euclidean_division_equations.

Section ReachG.
Variables (c T : nat) (pad : bool) (input0 : list N).
Hypothesis Hc : 1 <= c.
Hypothesis HT : 1 <= T.
Hypothesis Hbytes : bytesb input0 = true.
Variable St : Type.
Variable tag_tr : St -> list N -> St * list N.
Variable tag_event : nat -> St -> list event.
Variable dS : St.
Variable sig0 : list St.
Hypothesis Hsig : length sig0 = T.
Local Notation ls := (loads_of c pad input0).
Local Notation step := (PipeConc.step St tag_tr tag_event c pad).
Local Notation run := (PipeConc.run St tag_tr tag_event c pad).
Local Notation getb := (getb St).
Local Notation getw := (getw St).
Local Notation InvQR := (InvQR St tag_tr c pad T sig0 ls dS).

Definition reach (s : state St) : Prop := exists sched, run (init St T sig0 ls) sched = Some s.

(* P5 *)
Lemma reach_init : reach (init St T sig0 ls).
Proof using Hc HT Hbytes Hsig dS tag_event. exists []. reflexivity. Qed.

Lemma reach_step : forall s tid s' evs, reach s -> step s tid = Some (s', evs) -> reach s'.
Proof using Hc HT Hbytes Hsig dS tag_event.
  intros s tid s' evs [sched H] Hs. exists (sched ++ [tid]).
  rewrite run_app, H. cbn [PipeConc.run]. rewrite Hs. reflexivity.
Qed.

Lemma reach_Inv : forall s, reach s -> Inv St tag_tr c pad T sig0 ls dS s.
Proof using Hc HT Hbytes Hsig dS tag_event.
  intros s Hr.
  apply (inv_reachable St tag_tr tag_event c pad T sig0 ls dS HT (Hsig)
           (wf_loads_of c pad input0 Hc Hbytes) s Hr).
Qed.

Lemma all_ok_tag : all_ok (outs St tag_tr c pad T sig0 ls (m ls)).
Proof using. unfold outs. apply seq_chunks_all_ok. Qed.

(* P6: shape *)
Lemma reach_shape : forall s, reach s ->
  length (bufs St s) = T /\ length (wpcs St s) = T /\ length (wsts St s) = T /\ turn St s < T /\ live St s <= T /\
  crashed St s = None.
Proof using Hc HT Hbytes Hsig dS tag_event.
  intros s Hr. destruct (reach_Inv s Hr) as (q & r & Lb & Lw & Lx & Hrt & Ht & Hio & Hbuf).
  destruct Hio as (HV & Hin & Hov & Hlv & Hex & Hout).
  destruct (Hout all_ok_tag) as [_ Hcr].
  repeat split; try assumption; lia.
Qed.

(* P8: the remaining loads are a suffix of ls *)
Lemma reach_input_suffix : forall s, reach s -> exists k, input St s = skipn k ls.
Proof using Hc HT Hbytes Hsig dS tag_event.
  intros s Hr. destruct (reach_Inv s Hr) as (q & r & Lb & Lw & Lx & Hrt & Ht & Hio & Hbuf).
  destruct Hio as (HV & Hin & _). eexists. exact Hin.
Qed.

(* P9: read-offs per pc *)
Lemma reach_get : forall s i, reach s -> i < T -> getw s i = W_Get ->
  b_st (getb s i) = READY \/ (b_st (getb s i) = INV /\ b_now (getb s i) = b_total (getb s i)).
Proof using Hc HT Hbytes Hsig dS tag_event.
  intros s i Hr Hi Hw. destruct (reach_Inv s Hr) as (q & r & Lb & Lw & Lx & Hrt & Ht & Hio & Hbuf).
  specialize (Hbuf i Hi).
  eapply BufInv_touch; [exact Hbuf|left; exact Hw].
Qed.

Lemma reach_setupdate : forall s i, reach s -> i < T -> getw s i = W_SetUpdate ->
  b_st (getb s i) = READY \/ b_st (getb s i) = INV.
Proof using Hc HT Hbytes Hsig dS tag_event.
  intros s i Hr Hi Hw. destruct (reach_Inv s Hr) as (q & r & Lb & Lw & Lx & Hrt & Ht & Hio & Hbuf).
  specialize (Hbuf i Hi). rewrite Hw in Hbuf. eapply BufInv_setupdate. exact Hbuf.
Qed.

Lemma reach_io_own : forall s, reach s ->
  match io St s with I_Cmp | I_Export | I_Load | I_SetReady _ => True | _ => False end ->
  b_st (getb s (turn St s)) = EMPTY \/ b_st (getb s (turn St s)) = UPDATING.
Proof using Hc HT Hbytes Hsig dS tag_event.
  intros s Hr Hp. destruct (reach_Inv s Hr) as (q & r & Lb & Lw & Lx & Hrt & Ht & Hio & Hbuf).
  specialize (Hbuf r Hrt). rewrite Ht. rewrite iot_self in Hbuf.
  eapply BufInv_own_st; [exact Hbuf|]. destruct (io St s); try contradiction; reflexivity.
Qed.

Lemma reach_export : forall s, reach s -> io St s = I_Export ->
  let b := getb s (turn St s) in
  b_st b = UPDATING /\ b_now b = b_total b /\ 1 <= b_total b /\ (b_final b = false -> b_total b = c).
Proof using Hc HT Hbytes Hsig dS tag_event.
  intros s Hr Hp. cbv zeta. destruct (reach_Inv s Hr) as (q & r & Lb & Lw & Lx & Hrt & Ht & Hio & Hbuf).
  specialize (Hbuf r Hrt). rewrite Ht. unfold IoInv in Hio. rewrite Hp in Hio, Hbuf.
  rewrite nvis_self, iot_self in Hbuf. cbn [post_fin] in Hbuf. unfold BufInv in Hbuf.
  destruct Hbuf as (_ & Hctl & Hq & Hn & _ & Hold). destruct Hio as (HV & _).
  destruct q as [|n']; [lia|]. destruct Hctl as [Hst _]. destruct Hold as (Htot & Hfin & _).
  assert (Hj : n' * T + r < length ls) by (unfold m in HV; lia).
  assert (Hin : In (chunk ls (n' * T + r)) ls) by (unfold chunk; apply nth_In; exact Hj).
  destruct (loads_of_shape c pad input0 _ Hc Hbytes Hin) as (H1 & _ & _ & H4).
  rewrite Htot, Hfin. repeat split; try assumption; lia.
Qed.

Lemma reach_load : forall s, reach s -> io St s = I_Load -> b_now (getb s (turn St s)) = b_total (getb s (turn St s)).
Proof using Hc HT Hbytes Hsig dS tag_event.
  intros s Hr Hp. destruct (reach_Inv s Hr) as (q & r & Lb & Lw & Lx & Hrt & Ht & Hio & Hbuf).
  specialize (Hbuf r Hrt). rewrite Ht. rewrite Hp in Hbuf.
  rewrite nvis_self, iot_self in Hbuf. cbn [post_fin] in Hbuf. unfold BufInv in Hbuf.
  destruct Hbuf as (_ & _ & Hn & _). exact Hn.
Qed.

Lemma reach_setready : forall s x, reach s -> io St s = I_SetReady x ->
  x <= 2 /\ (x = 2 -> 1 <= live St s /\ b_now (getb s (turn St s)) = b_total (getb s (turn St s))).
Proof using Hc HT Hbytes Hsig dS tag_event.
  intros s x Hr Hp. destruct (reach_Inv s Hr) as (q & r & Lb & Lw & Lx & Hrt & Ht & Hio & Hbuf).
  specialize (Hbuf r Hrt). rewrite Ht. unfold IoInv in Hio. rewrite Hp in Hio, Hbuf.
  rewrite nvis_self, iot_self in Hbuf. cbn [post_fin] in Hbuf. unfold BufInv in Hbuf.
  destruct Hbuf as (_ & _ & Hb). destruct Hio as (HV & _ & _ & Hlv & Hex & _).
  cbn [io_extra] in Hex. cbn [visits_done post_fin] in Hlv.
  destruct (m ls <=? q * T + r) eqn:E.
  - apply Nat.leb_le in E. assert (E' : (q * T + r <? m ls) = false) by (apply Nat.ltb_ge; exact E).
    rewrite E' in Hb. split; [lia|]. intros _. split; [lia|exact Hb].
  - split; [destruct (ld_final (chunk ls (q * T + r))); lia|].
    intros ->. destruct (ld_final (chunk ls (q * T + r))); discriminate.
Qed.

(* after the I/O thread retired a buffer, the next one in the cycle is not yet retired unless all are *)
Lemma reach_turn : forall s, reach s -> io St s = I_Turn -> live St s <> 0 ->
  b_st (getb s ((turn St s + 1) mod T)) <> INV.
Proof using Hc HT Hbytes Hsig dS tag_event.
  intros s Hr Hp Hl. destruct (reach_Inv s Hr) as (q & r & Lb & Lw & Lx & Hrt & Ht & Hio & Hbuf).
  rewrite Ht. unfold IoInv in Hio. rewrite Hp in Hio.
  destruct Hio as (HV & _ & _ & Hlv & _). cbn [visits_done post_fin] in Hlv.
  assert (HV1 : q * T + r + 1 < m ls + T) by lia.
  assert (Hlt : (r + 1) mod T < T) by (apply Nat.mod_upper_bound; lia).
  pose proof (Hbuf _ Hlt) as Hb'. rewrite Hp in Hb'.
  assert (Eo : iot r I_Turn ((r + 1) mod T) = None)
    by (unfold iot; cbn [post_fin negb]; rewrite Bool.andb_false_r; reflexivity).
  rewrite Eo in Hb'. destruct Hb' as [Hb' _].
  apply (not_dead_not_inv St tag_tr tag_event c pad T sig0 ls dS HT (Hsig) _ _ _ _ _ Hb').
  unfold nvis. cbn [post_fin]. rewrite Bool.andb_true_r.
  destruct (Nat.eq_dec (r + 1) T) as [E|E].
  - rewrite E, Nat.mod_same by lia.
    assert (E' : ((0 <? r) || (0 =? r)) = true) by (destruct r; reflexivity). rewrite E'. lia.
  - rewrite Nat.mod_small by lia.
    assert (E' : ((r + 1 <? r) || (r + 1 =? r)) = false).
    { apply Bool.orb_false_iff. split; [apply Nat.ltb_ge|apply Nat.eqb_neq]; lia. }
    rewrite E'. lia.
Qed.

End ReachG.
