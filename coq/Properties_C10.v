(* C10 -- the five mode stream objects equal NIST SP 800-38A; decryptors invert encryptors.
   Only statements; every proof is one [exact] of a lemma of ModesProofs. *)
From Wencry Require Import Bytes AesSpec AesModel ModesSpec ModesModel ModesProofs.
Local Open Scope N_scope.

(* each of the five encryptors, fed any sequence of blocks, produces the SP 800-38A output *)
Theorem C10_encryptors_are_sp80038a : forall m k iv bs,
  m <= 4 -> block16 k -> block16 iv -> blocks16 bs ->
  exists kind, create true m = Some kind /\
    Some (snd (run (aes_enc k) (aes_dec k) kind iv bs)) = mode_enc (Cipher k) m iv bs.
Proof. exact C10_encryptors_are_sp80038a_proof. Qed.
Print Assumptions C10_encryptors_are_sp80038a.

Theorem C10_decryptors_are_sp80038a : forall m k iv cs,
  m <= 4 -> block16 k -> block16 iv -> blocks16 cs ->
  exists kind, create false m = Some kind /\
    Some (snd (run (aes_enc k) (aes_dec k) kind iv cs)) = mode_dec (Cipher k) (InvCipher k) m iv cs.
Proof. exact C10_decryptors_are_sp80038a_proof. Qed.
Print Assumptions C10_decryptors_are_sp80038a.

(* the matching decryptor restores the input when fed the same stream in the same order *)
Theorem C10_decryptor_inverts_encryptor : forall m k iv bs,
  m <= 4 -> block16 k -> block16 iv -> blocks16 bs ->
  exists ke kd, create true m = Some ke /\ create false m = Some kd /\
    snd (run (aes_enc k) (aes_dec k) kd iv (snd (run (aes_enc k) (aes_dec k) ke iv bs))) = bs.
Proof. exact C10_decryptor_inverts_encryptor_proof. Qed.
Print Assumptions C10_decryptor_inverts_encryptor.

(* CTR increments the whole 128-bit big-endian counter, with carries through all 16 bytes *)
Theorem C10_ctr_counter_is_128_bit : forall iv j,
  block16 iv ->
  Nat.iter j ctrInc iv = be_bytes 16 ((be_val iv + N.of_nat j) mod 2 ^ 128).
Proof. exact C10_ctr_counter_is_128_bit_proof. Qed.
Print Assumptions C10_ctr_counter_is_128_bit.

(* the factory is defined exactly on the documented mode numbers 0..4 *)
Theorem C10_factory_domain : forall isenc m, create isenc m = None <-> 4 < m.
Proof. exact C10_factory_domain_proof. Qed.
Print Assumptions C10_factory_domain.

(* a stream object is continuous: processing a ++ b equals processing a, then b with the
   register it left behind (used for the chunk-to-stream striping of the file format) *)
Theorem C10_stream_is_continuous : forall E D kind iv a b,
  run E D kind iv (a ++ b) =
  (fst (run E D kind (fst (run E D kind iv a)) b),
   snd (run E D kind iv a) ++ snd (run E D kind (fst (run E D kind iv a)) b)).
Proof. exact C10_stream_is_continuous_proof. Qed.
Print Assumptions C10_stream_is_continuous.
