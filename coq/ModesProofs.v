(* Proofs for C10: the model of aesmode.cpp (ModesModel) equals NIST SP 800-38A (ModesSpec).

   Layout:
   1. byte / xorl facts on lists of N;
   2. the CTR carry loop [ctrInc] is the standard incrementing function [incr128]
      (positional little-endian value of the reversed register);
   3. a Section generic over the block functions E D (model) and Es Ds (spec) with the five
      facts about single-block AES as hypotheses; every mode is an induction on the block list
      with the iv register generalised;
   4. the six C10 lemmas, instantiating the section with aes_enc/aes_dec/Cipher/InvCipher through
      the lemmas of AesProofs (C09), used by name;
   5. examples: non-vacuity, SP 800-38A F.5.1 / F.2.1 vectors, counter carry. *)
From Coq Require Import NArith List Bool Arith Lia.
From Wencry Require Import Bytes AesSpec AesModel ModesSpec ModesModel AesProofs.
Import ListNotations.
Local Open Scope N_scope.

(* ------------------------------------------------------------------------------------------ *)
(* 1. bytes and xorl                                                                           *)
(* ------------------------------------------------------------------------------------------ *)

Definition bytes (l : list N) : Prop := Forall (fun x => x < 256) l.

Lemma bytesb_bytes : forall l, bytesb l = true <-> bytes l.
Proof.
  intros l. unfold bytesb, bytes. rewrite forallb_forall, Forall_forall.
  split; intros H x Hx; specialize (H x Hx); unfold byte_ok in *; apply N.ltb_lt; exact H.
Qed.

Lemma block16_iff : forall b, block16 b <-> length b = 16%nat /\ bytes b.
Proof. intros b. unfold block16. rewrite bytesb_bytes. reflexivity. Qed.

Lemma log2_byte : forall a, a < 256 -> N.log2 a < 8.
Proof.
  intros a Ha. destruct (N.eq_dec a 0) as [-> | Hn].
  - cbn. lia.
  - apply N.log2_lt_pow2; [lia | exact Ha].
Qed.

Lemma lxor_byte : forall a b, a < 256 -> b < 256 -> N.lxor a b < 256.
Proof.
  intros a b Ha Hb. destruct (N.eq_dec (N.lxor a b) 0) as [-> | Hn]; [lia |].
  change (N.lxor a b < 2 ^ 8). apply N.log2_lt_pow2; [lia |].
  pose proof (N.log2_lxor a b) as Hl.
  pose proof (log2_byte a Ha) as Hla. pose proof (log2_byte b Hb) as Hlb. lia.
Qed.

Lemma xorl_nil_l : forall b, xorl [] b = [].
Proof. reflexivity. Qed.
Lemma xorl_nil_r : forall a, xorl a [] = [].
Proof. intros [| x a]; reflexivity. Qed.
Lemma xorl_cons : forall x a y b, xorl (x :: a) (y :: b) = N.lxor x y :: xorl a b.
Proof. reflexivity. Qed.

Lemma xorl_length : forall a b, length (xorl a b) = Nat.min (length a) (length b).
Proof.
  induction a as [| x a IH]; intros [| y b]; try reflexivity.
  rewrite xorl_cons. cbn [length Nat.min]. rewrite IH. reflexivity.
Qed.

Lemma xorl_bytes : forall a b, bytes a -> bytes b -> bytes (xorl a b).
Proof.
  intros a b Ha. revert b. induction Ha as [| x a Hx Ha IH]; intros b Hb.
  - constructor.
  - destruct Hb as [| y b Hy Hb]; [rewrite xorl_nil_r; constructor |].
    rewrite xorl_cons. constructor; [apply lxor_byte; assumption | apply IH; assumption].
Qed.

Lemma xorl_comm : forall a b, xorl a b = xorl b a.
Proof.
  induction a as [| x a IH]; intros [| y b]; try reflexivity.
  rewrite !xorl_cons, IH, N.lxor_comm. reflexivity.
Qed.

Lemma xorl_cancel : forall a b, (length a <= length b)%nat -> xorl (xorl a b) b = a.
Proof.
  induction a as [| x a IH]; intros [| y b] Hl; try reflexivity.
  - cbn [length] in Hl. lia.
  - cbn [length] in Hl. rewrite !xorl_cons, IH by lia.
    rewrite N.lxor_assoc, N.lxor_nilpotent, N.lxor_0_r. reflexivity.
Qed.

Lemma block16_xorl : forall a b, block16 a -> block16 b -> block16 (xorl a b).
Proof.
  intros a b Ha Hb. apply block16_iff in Ha. apply block16_iff in Hb. apply block16_iff.
  destruct Ha as [La Ba]. destruct Hb as [Lb Bb]. split.
  - rewrite xorl_length, La, Lb. reflexivity.
  - apply xorl_bytes; assumption.
Qed.

Lemma xorl_cancel16 : forall a b, block16 a -> block16 b -> xorl (xorl a b) b = a.
Proof.
  intros a b [La _] [Lb _]. apply xorl_cancel. rewrite La, Lb. apply le_n.
Qed.

(* ------------------------------------------------------------------------------------------ *)
(* 2. the CTR carry loop is X + 1 mod 2^128 on the big-endian value                            *)
(* ------------------------------------------------------------------------------------------ *)

(* little-endian positional value of the reversed register *)
Definition le_val (r : list N) : N := fold_right (fun x acc => x + 256 * acc) 0 r.

Lemma le_val_cons : forall x t, le_val (x :: t) = x + 256 * le_val t.
Proof. reflexivity. Qed.

Lemma pow256_cons : forall (A : Type) (x : A) t,
  256 ^ N.of_nat (length (x :: t)) = 256 * 256 ^ N.of_nat (length t).
Proof. intros A x t. cbn [length]. rewrite Nat2N.inj_succ, N.pow_succ_r'. reflexivity. Qed.

Lemma pow256_pos : forall n, 0 < 256 ^ n.
Proof. intros n. apply N.neq_0_lt_0. apply N.pow_nonzero. discriminate. Qed.

Lemma le_val_bound : forall r, bytes r -> le_val r < 256 ^ N.of_nat (length r).
Proof.
  induction 1 as [| x t Hx Ht IH].
  - cbn. lia.
  - rewrite le_val_cons, pow256_cons.
    set (P := 256 ^ N.of_nat (length t)) in *. lia.
Qed.

Lemma inc_rev_length : forall r, length (inc_rev r) = length r.
Proof.
  induction r as [| x t IH]; [reflexivity |].
  cbn [inc_rev]. destruct ((x + 1) mod 256 =? 0); cbn [length]; congruence.
Qed.

Lemma inc_rev_bytes : forall r, bytes r -> bytes (inc_rev r).
Proof.
  induction 1 as [| x t Hx Ht IH]; [constructor |].
  assert (Hy : (x + 1) mod 256 < 256) by (apply N.mod_lt; discriminate).
  cbn [inc_rev]. destruct ((x + 1) mod 256 =? 0); constructor; assumption.
Qed.

Lemma inc_rev_val : forall r, bytes r ->
  le_val (inc_rev r) = (le_val r + 1) mod 256 ^ N.of_nat (length r).
Proof.
  induction 1 as [| x t Hx Ht IH]; [reflexivity |].
  pose proof (le_val_bound t Ht) as Hb.
  rewrite pow256_cons. cbn [inc_rev].
  destruct ((x + 1) mod 256 =? 0) eqn:Hy; rewrite !le_val_cons.
  - (* carry: x = 255 *)
    apply N.eqb_eq in Hy. rewrite Hy, IH.
    assert (Hx255 : x = 255).
    { pose proof (N.div_mod (x + 1) 256 ltac:(discriminate)) as Hdm.
      rewrite Hy in Hdm. generalize dependent ((x + 1) / 256). intros q Hq. lia. }
    subst x.
    set (P := 256 ^ N.of_nat (length t)) in *.
    replace (255 + 256 * le_val t + 1) with (256 * (le_val t + 1)) by lia.
    rewrite N.mul_mod_distr_l by lia. lia.
  - (* no carry: x < 255 *)
    assert (Hx255 : x <> 255).
    { intros ->. vm_compute in Hy. discriminate. }
    set (P := 256 ^ N.of_nat (length t)) in *.
    rewrite (N.mod_small (x + 1) 256) by lia.
    rewrite N.mod_small by lia. lia.
Qed.

Lemma be_val_snoc : forall l x, be_val (l ++ [x]) = be_val l * 256 + x.
Proof. intros l x. unfold be_val. rewrite fold_left_app. reflexivity. Qed.

Lemma be_val_le_val : forall l, be_val l = le_val (rev l).
Proof.
  induction l as [| x l IH] using rev_ind; [reflexivity |].
  rewrite be_val_snoc, rev_unit, le_val_cons, IH. lia.
Qed.

Lemma divmod256 : forall x v, x < 256 ->
  (x + 256 * v) / 256 = v /\ (x + 256 * v) mod 256 = x.
Proof.
  intros x v Hx.
  pose proof (N.div_mod (x + 256 * v) 256 ltac:(discriminate)) as Hdm.
  pose proof (N.mod_lt (x + 256 * v) 256 ltac:(discriminate)) as Hlt.
  generalize dependent ((x + 256 * v) / 256). generalize dependent ((x + 256 * v) mod 256).
  intros r Hr q Hq. lia.
Qed.

Lemma be_bytes_le_val : forall r, bytes r -> be_bytes (length r) (le_val r) = rev r.
Proof.
  induction 1 as [| x t Hx Ht IH]; [reflexivity |].
  cbn [length be_bytes rev]. rewrite le_val_cons.
  destruct (divmod256 x (le_val t) Hx) as [-> ->]. rewrite IH. reflexivity.
Qed.

Lemma bytes_rev : forall l, bytes l -> bytes (rev l).
Proof. intros l H. unfold bytes in *. apply Forall_rev. exact H. Qed.

(* injectivity of the positional encoding, in the form needed below *)
Lemma be_bytes_be_val : forall l, bytes l -> be_bytes (length l) (be_val l) = l.
Proof.
  intros l Hl. rewrite be_val_le_val, <- (rev_length l).
  rewrite be_bytes_le_val by (apply bytes_rev; exact Hl). apply rev_involutive.
Qed.

Lemma pow256_16 : 256 ^ N.of_nat 16 = 2 ^ 128.
Proof. reflexivity. Qed.

Lemma block16_ctrInc : forall iv, block16 iv -> block16 (ctrInc iv).
Proof.
  intros iv Hiv. apply block16_iff in Hiv. destruct Hiv as [Hl Hb]. apply block16_iff.
  unfold ctrInc. split.
  - rewrite rev_length, inc_rev_length, rev_length. exact Hl.
  - apply bytes_rev, inc_rev_bytes, bytes_rev. exact Hb.
Qed.

Lemma be_val_ctrInc : forall iv, block16 iv ->
  be_val (ctrInc iv) = (be_val iv + 1) mod 2 ^ 128.
Proof.
  intros iv Hiv. apply block16_iff in Hiv. destruct Hiv as [Hl Hb].
  unfold ctrInc. rewrite be_val_le_val, rev_involutive.
  rewrite inc_rev_val by (apply bytes_rev; exact Hb).
  rewrite rev_length, Hl, pow256_16, <- be_val_le_val. reflexivity.
Qed.

Lemma be_val_bound16 : forall iv, block16 iv -> be_val iv < 2 ^ 128.
Proof.
  intros iv Hiv. apply block16_iff in Hiv. destruct Hiv as [Hl Hb].
  rewrite be_val_le_val, <- pow256_16, <- Hl, <- (rev_length iv).
  apply le_val_bound, bytes_rev. exact Hb.
Qed.

Lemma be_bytes_be_val16 : forall iv, block16 iv -> be_bytes 16 (be_val iv) = iv.
Proof.
  intros iv Hiv. apply block16_iff in Hiv. destruct Hiv as [Hl Hb].
  rewrite <- Hl. apply be_bytes_be_val. exact Hb.
Qed.

(* the code's counter increment is SP 800-38A B.1 on all 128 bits *)
Lemma ctrInc_is_incr128 : forall iv, block16 iv -> ctrInc iv = incr128 iv.
Proof.
  intros iv Hiv. unfold incr128. rewrite <- be_val_ctrInc by exact Hiv.
  symmetry. apply be_bytes_be_val16, block16_ctrInc. exact Hiv.
Qed.

Lemma iter_ctrInc_inv : forall iv j, block16 iv ->
  block16 (Nat.iter j ctrInc iv) /\
  be_val (Nat.iter j ctrInc iv) = (be_val iv + N.of_nat j) mod 2 ^ 128.
Proof.
  intros iv j Hiv. induction j as [| j [IHb IHv]].
  - cbn [Nat.iter nat_rect]. split; [exact Hiv |].
    rewrite N.add_0_r. symmetry. apply N.mod_small, be_val_bound16. exact Hiv.
  - change (Nat.iter (S j) ctrInc iv) with (ctrInc (Nat.iter j ctrInc iv)).
    split; [apply block16_ctrInc; exact IHb |].
    rewrite be_val_ctrInc by exact IHb. rewrite IHv.
    rewrite N.add_mod_idemp_l by discriminate.
    rewrite Nat2N.inj_succ, <- N.add_1_r, N.add_assoc. reflexivity.
Qed.

(* ------------------------------------------------------------------------------------------ *)
(* 3. the modes, generic in the block functions                                                *)
(* ------------------------------------------------------------------------------------------ *)

Lemma snd_run_cons : forall E D k iv b r,
  snd (run E D k iv (b :: r)) =
  snd (runcry E D k iv b) :: snd (run E D k (fst (runcry E D k iv b)) r).
Proof.
  intros E D k iv b r. cbn [run].
  destruct (runcry E D k iv b) as [iv' b']. cbn [fst snd].
  destruct (run E D k iv' r) as [iv'' r']. reflexivity.
Qed.

Lemma fst_run_cons : forall E D k iv b r,
  fst (run E D k iv (b :: r)) = fst (run E D k (fst (runcry E D k iv b)) r).
Proof.
  intros E D k iv b r. cbn [run].
  destruct (runcry E D k iv b) as [iv' b']. cbn [fst snd].
  destruct (run E D k iv' r) as [iv'' r']. reflexivity.
Qed.

Lemma blocks16_cons : forall b r, blocks16 (b :: r) -> block16 b /\ blocks16 r.
Proof. intros b r H. inversion H; subst. split; assumption. Qed.

Section Generic.
Variables E D Es Ds : list N -> list N.
Hypothesis E_spec  : forall b, block16 b -> E b = Es b.
Hypothesis D_spec  : forall b, block16 b -> D b = Ds b.
Hypothesis D_E     : forall b, block16 b -> D (E b) = b.
Hypothesis E_block : forall b, block16 b -> block16 (E b).
Hypothesis D_block : forall b, block16 b -> block16 (D b).

(* --- model = spec, encrypt direction --- *)

Lemma run_ecb_enc : forall bs iv, blocks16 bs ->
  snd (run E D ECB_Enc iv bs) = ecb_enc Es bs.
Proof.
  induction bs as [| b r IH]; intros iv Hbs; [reflexivity |].
  apply blocks16_cons in Hbs. destruct Hbs as [Hb Hr].
  rewrite snd_run_cons. cbn [runcry fst snd]. unfold ecb_enc in *. cbn [map].
  rewrite E_spec by exact Hb. f_equal. apply IH. exact Hr.
Qed.

Lemma run_cbc_enc : forall bs iv, block16 iv -> blocks16 bs ->
  snd (run E D CBC_Enc iv bs) = cbc_enc Es iv bs.
Proof.
  induction bs as [| b r IH]; intros iv Hiv Hbs; [reflexivity |].
  apply blocks16_cons in Hbs. destruct Hbs as [Hb Hr].
  assert (Hx : block16 (xorl b iv)) by (apply block16_xorl; assumption).
  rewrite snd_run_cons. cbn [runcry fst snd cbc_enc].
  rewrite <- (E_spec (xorl b iv)) by exact Hx. f_equal.
  apply IH; [apply E_block; exact Hx | exact Hr].
Qed.

Lemma run_ctr : forall bs iv, block16 iv -> blocks16 bs ->
  snd (run E D CTRm iv bs) = ctr Es iv bs.
Proof.
  induction bs as [| b r IH]; intros iv Hiv Hbs; [reflexivity |].
  apply blocks16_cons in Hbs. destruct Hbs as [Hb Hr].
  rewrite snd_run_cons. cbn [runcry fst snd ctr].
  rewrite <- (E_spec iv) by exact Hiv.
  rewrite <- ctrInc_is_incr128 by exact Hiv. f_equal.
  apply IH; [apply block16_ctrInc; exact Hiv | exact Hr].
Qed.

Lemma run_cfb_enc : forall bs iv, block16 iv -> blocks16 bs ->
  snd (run E D CFB_Enc iv bs) = cfb_enc Es iv bs.
Proof.
  induction bs as [| b r IH]; intros iv Hiv Hbs; [reflexivity |].
  apply blocks16_cons in Hbs. destruct Hbs as [Hb Hr].
  rewrite snd_run_cons. cbn [runcry fst snd cfb_enc].
  rewrite <- (E_spec iv) by exact Hiv. f_equal.
  apply IH; [apply block16_xorl; [exact Hb | apply E_block; exact Hiv] | exact Hr].
Qed.

Lemma run_ofb : forall bs iv, block16 iv -> blocks16 bs ->
  snd (run E D OFBm iv bs) = ofb Es iv bs.
Proof.
  induction bs as [| b r IH]; intros iv Hiv Hbs; [reflexivity |].
  apply blocks16_cons in Hbs. destruct Hbs as [Hb Hr].
  rewrite snd_run_cons. cbn [runcry fst snd ofb].
  rewrite <- (E_spec iv) by exact Hiv. f_equal.
  apply IH; [apply E_block; exact Hiv | exact Hr].
Qed.

(* --- model = spec, decrypt direction --- *)

Lemma run_ecb_dec : forall cs iv, blocks16 cs ->
  snd (run E D ECB_Dec iv cs) = ecb_dec Ds cs.
Proof.
  induction cs as [| c r IH]; intros iv Hcs; [reflexivity |].
  apply blocks16_cons in Hcs. destruct Hcs as [Hc Hr].
  rewrite snd_run_cons. cbn [runcry fst snd]. unfold ecb_dec in *. cbn [map].
  rewrite D_spec by exact Hc. f_equal. apply IH. exact Hr.
Qed.

Lemma run_cbc_dec : forall cs iv, block16 iv -> blocks16 cs ->
  snd (run E D CBC_Dec iv cs) = cbc_dec Ds iv cs.
Proof.
  induction cs as [| c r IH]; intros iv Hiv Hcs; [reflexivity |].
  apply blocks16_cons in Hcs. destruct Hcs as [Hc Hr].
  rewrite snd_run_cons. cbn [runcry fst snd cbc_dec].
  rewrite D_spec by exact Hc. f_equal. apply IH; assumption.
Qed.

Lemma run_cfb_dec : forall cs iv, block16 iv -> blocks16 cs ->
  snd (run E D CFB_Dec iv cs) = cfb_dec Es iv cs.
Proof.
  induction cs as [| c r IH]; intros iv Hiv Hcs; [reflexivity |].
  apply blocks16_cons in Hcs. destruct Hcs as [Hc Hr].
  rewrite snd_run_cons. cbn [runcry fst snd cfb_dec].
  rewrite E_spec by exact Hiv. f_equal. apply IH; assumption.
Qed.

(* --- decryptor after encryptor --- *)

Lemma inv_ecb : forall bs iv, blocks16 bs ->
  snd (run E D ECB_Dec iv (snd (run E D ECB_Enc iv bs))) = bs.
Proof.
  induction bs as [| b r IH]; intros iv Hbs; [reflexivity |].
  apply blocks16_cons in Hbs. destruct Hbs as [Hb Hr].
  rewrite snd_run_cons. cbn [runcry fst snd].
  rewrite snd_run_cons. cbn [runcry fst snd].
  rewrite D_E by exact Hb. f_equal. apply IH. exact Hr.
Qed.

Lemma inv_cbc : forall bs iv, block16 iv -> blocks16 bs ->
  snd (run E D CBC_Dec iv (snd (run E D CBC_Enc iv bs))) = bs.
Proof.
  induction bs as [| b r IH]; intros iv Hiv Hbs; [reflexivity |].
  apply blocks16_cons in Hbs. destruct Hbs as [Hb Hr].
  assert (Hx : block16 (xorl b iv)) by (apply block16_xorl; assumption).
  rewrite snd_run_cons. cbn [runcry fst snd].
  rewrite snd_run_cons. cbn [runcry fst snd].
  rewrite D_E by exact Hx. rewrite xorl_cancel16 by assumption. f_equal.
  apply IH; [apply E_block; exact Hx | exact Hr].
Qed.

Lemma inv_ctr : forall bs iv, block16 iv -> blocks16 bs ->
  snd (run E D CTRm iv (snd (run E D CTRm iv bs))) = bs.
Proof.
  induction bs as [| b r IH]; intros iv Hiv Hbs; [reflexivity |].
  apply blocks16_cons in Hbs. destruct Hbs as [Hb Hr].
  rewrite snd_run_cons. cbn [runcry fst snd].
  rewrite snd_run_cons. cbn [runcry fst snd].
  rewrite xorl_cancel16 by (try apply E_block; assumption). f_equal.
  apply IH; [apply block16_ctrInc; exact Hiv | exact Hr].
Qed.

Lemma inv_cfb : forall bs iv, block16 iv -> blocks16 bs ->
  snd (run E D CFB_Dec iv (snd (run E D CFB_Enc iv bs))) = bs.
Proof.
  induction bs as [| b r IH]; intros iv Hiv Hbs; [reflexivity |].
  apply blocks16_cons in Hbs. destruct Hbs as [Hb Hr].
  assert (He : block16 (E iv)) by (apply E_block; exact Hiv).
  rewrite snd_run_cons. cbn [runcry fst snd].
  rewrite snd_run_cons. cbn [runcry fst snd].
  rewrite xorl_cancel16 by assumption. f_equal.
  apply IH; [apply block16_xorl; assumption | exact Hr].
Qed.

Lemma inv_ofb : forall bs iv, block16 iv -> blocks16 bs ->
  snd (run E D OFBm iv (snd (run E D OFBm iv bs))) = bs.
Proof.
  induction bs as [| b r IH]; intros iv Hiv Hbs; [reflexivity |].
  apply blocks16_cons in Hbs. destruct Hbs as [Hb Hr].
  assert (He : block16 (E iv)) by (apply E_block; exact Hiv).
  rewrite snd_run_cons. cbn [runcry fst snd].
  rewrite snd_run_cons. cbn [runcry fst snd].
  rewrite xorl_cancel16 by assumption. f_equal.
  apply IH; assumption.
Qed.

(* --- the mode numbers 0..4 --- *)

Lemma mode_cases : forall m, m <= 4 -> m = 0 \/ m = 1 \/ m = 2 \/ m = 3 \/ m = 4.
Proof. intros m Hm. lia. Qed.

Theorem generic_encryptors : forall m iv bs,
  m <= 4 -> block16 iv -> blocks16 bs ->
  exists kind, create true m = Some kind /\
    Some (snd (run E D kind iv bs)) = mode_enc Es m iv bs.
Proof.
  intros m iv bs Hm Hiv Hbs.
  destruct (mode_cases m Hm) as [-> | [-> | [-> | [-> | ->]]]];
    cbn [create mode_enc]; eexists; (split; [reflexivity |]); f_equal.
  - apply run_ecb_enc; assumption.
  - apply run_cbc_enc; assumption.
  - apply run_ctr; assumption.
  - apply run_cfb_enc; assumption.
  - apply run_ofb; assumption.
Qed.

Theorem generic_decryptors : forall m iv cs,
  m <= 4 -> block16 iv -> blocks16 cs ->
  exists kind, create false m = Some kind /\
    Some (snd (run E D kind iv cs)) = mode_dec Es Ds m iv cs.
Proof.
  intros m iv cs Hm Hiv Hcs.
  destruct (mode_cases m Hm) as [-> | [-> | [-> | [-> | ->]]]];
    cbn [create mode_dec]; eexists; (split; [reflexivity |]); f_equal.
  - apply run_ecb_dec; assumption.
  - apply run_cbc_dec; assumption.
  - apply run_ctr; assumption.
  - apply run_cfb_dec; assumption.
  - apply run_ofb; assumption.
Qed.

Theorem generic_inverts : forall m iv bs,
  m <= 4 -> block16 iv -> blocks16 bs ->
  exists ke kd, create true m = Some ke /\ create false m = Some kd /\
    snd (run E D kd iv (snd (run E D ke iv bs))) = bs.
Proof.
  intros m iv bs Hm Hiv Hbs.
  destruct (mode_cases m Hm) as [-> | [-> | [-> | [-> | ->]]]];
    cbn [create]; do 2 eexists; (split; [reflexivity |]); (split; [reflexivity |]).
  - apply inv_ecb; assumption.
  - apply inv_cbc; assumption.
  - apply inv_ctr; assumption.
  - apply inv_cfb; assumption.
  - apply inv_ofb; assumption.
Qed.

End Generic.

(* ------------------------------------------------------------------------------------------ *)
(* 4. the C10 lemmas                                                                           *)
(* ------------------------------------------------------------------------------------------ *)

Lemma C10_encryptors_are_sp80038a_proof : forall m k iv bs,
  m <= 4 -> block16 k -> block16 iv -> blocks16 bs ->
  exists kind, create true m = Some kind /\
    Some (snd (run (aes_enc k) (aes_dec k) kind iv bs)) = mode_enc (Cipher k) m iv bs.
Proof.
  intros m k iv bs Hm Hk Hiv Hbs.
  apply (generic_encryptors (aes_enc k) (aes_dec k) (Cipher k)
           (fun b Hb => C09_encrypt_is_fips197_proof k b Hk Hb)
           (fun b Hb => proj1 (C09_outputs_are_blocks_proof k b Hk Hb))); assumption.
Qed.

Lemma C10_decryptors_are_sp80038a_proof : forall m k iv cs,
  m <= 4 -> block16 k -> block16 iv -> blocks16 cs ->
  exists kind, create false m = Some kind /\
    Some (snd (run (aes_enc k) (aes_dec k) kind iv cs)) = mode_dec (Cipher k) (InvCipher k) m iv cs.
Proof.
  intros m k iv cs Hm Hk Hiv Hcs.
  apply (generic_decryptors (aes_enc k) (aes_dec k) (Cipher k) (InvCipher k)
           (fun b Hb => C09_encrypt_is_fips197_proof k b Hk Hb)
           (fun b Hb => C09_decrypt_is_fips197_proof k b Hk Hb)
           (fun b Hb => proj1 (C09_outputs_are_blocks_proof k b Hk Hb))); assumption.
Qed.

Lemma C10_decryptor_inverts_encryptor_proof : forall m k iv bs,
  m <= 4 -> block16 k -> block16 iv -> blocks16 bs ->
  exists ke kd, create true m = Some ke /\ create false m = Some kd /\
    snd (run (aes_enc k) (aes_dec k) kd iv (snd (run (aes_enc k) (aes_dec k) ke iv bs))) = bs.
Proof.
  intros m k iv bs Hm Hk Hiv Hbs.
  apply (generic_inverts (aes_enc k) (aes_dec k)
           (fun b Hb => C09_decrypt_inverts_encrypt_proof k b Hk Hb)
           (fun b Hb => proj1 (C09_outputs_are_blocks_proof k b Hk Hb))); assumption.
Qed.

Lemma C10_ctr_counter_is_128_bit_proof : forall iv j,
  block16 iv ->
  Nat.iter j ctrInc iv = be_bytes 16 ((be_val iv + N.of_nat j) mod 2 ^ 128).
Proof.
  intros iv j Hiv. destruct (iter_ctrInc_inv iv j Hiv) as [Hb Hv].
  rewrite <- Hv. symmetry. apply be_bytes_be_val16. exact Hb.
Qed.

Lemma C10_factory_domain_proof : forall isenc m, create isenc m = None <-> 4 < m.
Proof.
  intros isenc m.
  destruct isenc; (destruct m as [| [[[p | p |] | [p | p |] |] | [[p | p |] | [p | p |] |] |]]);
    cbn [create]; (split; intros H; [try discriminate H; lia | try reflexivity; lia]).
Qed.

Lemma C10_stream_is_continuous_proof : forall E D kind iv a b,
  run E D kind iv (a ++ b) =
  (fst (run E D kind (fst (run E D kind iv a)) b),
   snd (run E D kind iv a) ++ snd (run E D kind (fst (run E D kind iv a)) b)).
Proof.
  intros E D kind iv a b. revert iv. induction a as [| x a IH]; intros iv.
  - cbn [app run fst snd]. destruct (run E D kind iv b) as [iv' r']. reflexivity.
  - rewrite fst_run_cons, snd_run_cons. cbn [app run].
    destruct (runcry E D kind iv x) as [iv1 x']. cbn [fst snd].
    rewrite IH. destruct (run E D kind iv1 a) as [iv2 a']. cbn [fst snd app].
    reflexivity.
Qed.

(* ------------------------------------------------------------------------------------------ *)
(* 5. examples                                                                                 *)
(* ------------------------------------------------------------------------------------------ *)

(* SP 800-38A Appendix F test data (AES-128) *)
Definition ex_key : list N := [43;126;21;22;40;174;210;166;171;247;21;136;9;207;79;60].
Definition ex_ctr : list N := [240;241;242;243;244;245;246;247;248;249;250;251;252;253;254;255].
Definition ex_iv  : list N := [0;1;2;3;4;5;6;7;8;9;10;11;12;13;14;15].
Definition ex_p1  : list N := [107;193;190;226;46;64;159;150;233;61;126;17;115;147;23;42].
Definition ex_p2  : list N := [174;45;138;87;30;3;172;156;158;183;111;172;69;175;142;81].

(* non-vacuity of the hypotheses of the three stream lemmas (m <= 4, block16 k, block16 iv,
   blocks16 bs) and of the counter lemma (block16 iv) *)
Example C10_hypotheses_satisfiable :
  2 <= 4 /\ block16 ex_key /\ block16 ex_ctr /\ block16 ex_iv /\ blocks16 [ex_p1; ex_p2].
Proof.
  split; [discriminate |].
  repeat split; try (repeat constructor; fail); vm_compute; reflexivity.
Qed.

(* F.5.1 CTR-AES128.Encrypt, blocks 1-2, through the model object *)
Example C10_ctr_f51 :
  create true 2 = Some CTRm /\
  snd (run (aes_enc ex_key) (aes_dec ex_key) CTRm ex_ctr [ex_p1; ex_p2]) =
    [[135;77;97;145;182;32;227;38;27;239;104;100;153;13;182;206];
     [152;6;246;107;121;112;253;255;134;23;24;123;185;255;253;255]].
Proof. split; vm_compute; reflexivity. Qed.

(* F.5.2 CTR-AES128.Decrypt: the same object restores the plaintext *)
Example C10_ctr_f52 :
  snd (run (aes_enc ex_key) (aes_dec ex_key) CTRm ex_ctr
        [[135;77;97;145;182;32;227;38;27;239;104;100;153;13;182;206];
         [152;6;246;107;121;112;253;255;134;23;24;123;185;255;253;255]]) = [ex_p1; ex_p2].
Proof. vm_compute; reflexivity. Qed.

(* F.2.1 / F.2.2 CBC-AES128, blocks 1-2 *)
Example C10_cbc_f21 :
  snd (run (aes_enc ex_key) (aes_dec ex_key) CBC_Enc ex_iv [ex_p1; ex_p2]) =
    [[118;73;171;172;129;25;178;70;206;233;142;155;18;233;25;125];
     [80;134;203;155;80;114;25;238;149;219;17;58;145;118;120;178]] /\
  snd (run (aes_enc ex_key) (aes_dec ex_key) CBC_Dec ex_iv
        [[118;73;171;172;129;25;178;70;206;233;142;155;18;233;25;125];
         [80;134;203;155;80;114;25;238;149;219;17;58;145;118;120;178]]) = [ex_p1; ex_p2].
Proof. split; vm_compute; reflexivity. Qed.

(* counter carry: ff..ff fe, three increments: -> ff..ff -> 00..00 (wraps mod 2^128) -> 00..01 *)
Definition ex_carry : list N := [255;255;255;255;255;255;255;255;255;255;255;255;255;255;255;254].
Example C10_ctr_carry :
  block16 ex_carry /\
  Nat.iter 1 ctrInc ex_carry = repeat 255 16 /\
  Nat.iter 2 ctrInc ex_carry = repeat 0 16 /\
  Nat.iter 3 ctrInc ex_carry = repeat 0 15 ++ [1] /\
  Nat.iter 3 ctrInc ex_carry = be_bytes 16 ((be_val ex_carry + 3) mod 2 ^ 128).
Proof. repeat split; vm_compute; reflexivity. Qed.

(* carry out of the low 64 bits into the high half (a 64-bit-only counter would wrap here) *)
Example C10_ctr_carry_across_64 :
  ctrInc [0;0;0;0;0;0;0;7;255;255;255;255;255;255;255;255] =
         [0;0;0;0;0;0;0;8;0;0;0;0;0;0;0;0].
Proof. vm_compute; reflexivity. Qed.

(* the factory on both sides of the boundary *)
Example C10_factory_boundary :
  create true 4 = Some OFBm /\ create false 4 = Some OFBm /\
  create true 5 = None /\ create false 5 = None.
Proof. repeat split. Qed.
