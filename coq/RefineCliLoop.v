(* the getopt loop of get_v_opt: one iteration per token, then induction over the token list *)
From Coq Require Import ZArith NArith List String Bool Lia.
From Wencry Require Import Bytes Base64Spec CliModel MiniC MiniCRun MiniCLemmas SrcRun SrcRun3 CliConc RefineB64Lib RefineCliSim RefineCliLib RefineCliTac RefineCliKey RefineCliTok RefineCliTokK.
From Wencry.Gen Require Src_cli Src_base64.
Import ListNotations.
Local Open Scope string_scope.
Local Open Scope list_scope.
Local Open Scope Z_scope.
Local Arguments heap_name : simpl never.

Fixpoint seq_drop (n : nat) (st : stmt) : stmt :=
  match n, st with O, _ => st | S k, SSeq _ b => seq_drop k b | _, _ => SSkip end.
Definition gv_body : stmt := f_body Src_cli.f_get_v_opt_2.
Definition gv_loop : stmt := match seq_drop 13 gv_body with SSeq l _ => l | _ => SSkip end.
Definition gv_post : stmt := match seq_drop 13 gv_body with SSeq _ r => r | _ => SSkip end.
Definition loop_body : stmt := match gv_loop with SLoop _ b _ => b | _ => SSkip end.
Definition gl (extra : list (string * value)) : list (string * value) :=
  [("argc", VInt 0); ("argv", VNull); ("res", VPtr "#0" 0)] ++ extra.

Lemma body_ok : forall m extra fs ps fr code mg fsg psg M1 l1 fs1 ps1 fr1,
  do_prim (mk m (gl extra) fs ps fr) "getopt_long" [] = Ok (Some (VInt code), mk mg (gl extra) fsg psg fr) ->
  0 <= code < 128 ->
  exec cli_prog [] 170 po_body (mk mg (po_loc code) fsg psg fr) = Ok (Returned (Some (VInt 1)), mk M1 l1 fs1 ps1 fr1) ->
  exists extra', exec cli_prog [] 180 loop_body (mk m (gl extra) fs ps fr) = Ok (Normal, mk M1 (gl extra') fs1 ps1 fr1).
Proof.
  intros m extra fs ps fr code mg fsg psg M1 l1 fs1 ps1 fr1 Hprim Hcode Hpo.
  assert (E1 : (code =? -1) = false) by (apply Z.eqb_neq; lia).
  assert (W : wrap I8 code = code) by (apply wrap_I8_small; lia).
  eexists. unfold loop_body, gv_loop. cbn [seq_drop gv_body f_body Src_cli.f_get_v_opt_2]. unfold mk, gl in *.
  xrun fail.
  { eapply x_prim; [reflexivity | exact Hprim | stn]. }
  all: xrun ltac:(first [rewrite lget_lset_same | rewrite lget_lset_other by discriminate | rewrite E1 | rewrite W]).
  { eapply x_call; [evr2 ltac:(first [rewrite lget_lset_same | rewrite lget_lset_other by discriminate | rewrite W]); reflexivity
                   | reflexivity | reflexivity | eapply exec_mono; [exact Hpo|lia] | stn]. }
  all: xrun ltac:(first [rewrite lget_lset_same | rewrite lget_lset_other by discriminate]).
  all: xrun ltac:(first [rewrite lget_lset_same | rewrite lget_lset_other by discriminate]).
  all: xrun ltac:(first [rewrite lget_lset_same | rewrite lget_lset_other by discriminate]).
Qed.

Lemma body_fail : forall m extra fs ps fr code mg fsg psg M1 l1 fs1 oa1 fpv1 outv1 keyv1 pe1 fr1,
  do_prim (mk m (gl extra) fs ps fr) "getopt_long" [] = Ok (Some (VInt code), mk mg (gl extra) fsg psg fr) ->
  0 <= code < 128 ->
  exec cli_prog [] 170 po_body (mk mg (po_loc code) fsg psg fr) = Ok (Returned (Some (VInt 0)), mk M1 l1 fs1 (pps oa1 fpv1 outv1 keyv1 pe1) fr1) ->
  pv fpv1 -> pv outv1 ->
  exists s', exec cli_prog [] 180 loop_body (mk m (gl extra) fs ps fr) = Ok (Returned (Some VNull), s').
Proof.
  intros m extra fs ps fr code mg fsg psg M1 l1 fs1 oa1 fpv1 outv1 keyv1 pe1 fr1 Hprim Hcode Hpo Hpf Hpo1.
  assert (E1 : (code =? -1) = false) by (apply Z.eqb_neq; lia).
  assert (W : wrap I8 code = code) by (apply wrap_I8_small; lia).
  eexists. unfold loop_body, gv_loop. cbn [seq_drop gv_body f_body Src_cli.f_get_v_opt_2]. unfold mk, gl in *.
  xrun fail.
  { eapply x_prim; [reflexivity | exact Hprim | stn]. }
  all: xrun ltac:(first [rewrite lget_lset_same | rewrite lget_lset_other by discriminate | rewrite E1 | rewrite W]).
  { eapply x_call; [evr2 ltac:(first [rewrite lget_lset_same | rewrite lget_lset_other by discriminate | rewrite W]); reflexivity
                   | reflexivity | reflexivity | eapply exec_mono; [exact Hpo|lia] | stn]. }
  all: xrun ltac:(first [rewrite lget_lset_same | rewrite lget_lset_other by discriminate]).
  { apply (closeFiles_call _ M1 _ fs1 oa1 fpv1 outv1 keyv1 pe1 fr1); [reflexivity | lia | assumption | assumption]. }
  all: xrun ltac:(first [rewrite lget_lset_same | rewrite lget_lset_other by discriminate]).
  all: xrun ltac:(first [rewrite lget_lset_same | rewrite lget_lset_other by discriminate]).
  all: xrun ltac:(first [rewrite lget_lset_same | rewrite lget_lset_other by discriminate]).
Qed.

(* ---------------- the representation invariant ---------------- *)
Definition vrel (v : value) (b : bool) : Prop := if b then exists nm, v = VPtr nm 0 else v = VNull.
Definition is_some {A} (o : option A) : bool := match o with Some _ => true | None => false end.
Definition krel (m : memory) (keyv : value) (k : option nat) (fr : nat) : Prop :=
  match k with
  | None => keyv = VNull
  | Some kid => exists j, keyv = VPtr (heap_name j) 0 /\ (1 <= j < fr)%nat /\ mget m (heap_name j) = Some (bytes_object (key_of kid))
  end.

Record Inv (p : pak) (lng dl : bool) (m : memory) (fpv outv keyv : value) (fr : nat) : Prop := {
  i_mode : 0 <= mode p < 128;
  i_ct : -1 <= ctype p < 128;
  i_ht : -1 <= htype p < 128;
  i_res : mget m "#0" = Some (res_obj (mode p) (ctype p mod 256) (htype p mod 256) (b2z (no_echo p)));
  i_fout : exists fc, mget m "fout" = Some {| o_ty := U8; o_cells := fc |} /\ List.length fc = 128%nat;
  i_ftl : mget m "fout_too_long" = Some {| o_ty := TBool; o_cells := [b2z lng] |};
  i_b64 : mget m "b64_tab" = Some Src_base64.g_b64_tab;
  i_hex : mget m "hex_tab" = Some Src_base64.g_hex_tab;
  i_optind : mget m "optind" = Some optind_obj;
  i_fp : vrel fpv (is_some (fp p));
  i_out : vrel outv (out p);
  i_key : krel m keyv (key p) fr;
  i_fr : (1 <= fr)%nat;
  i_dflt : dflt_ok p = negb lng && dl }.

Definition tok_ok (t : tok) : Prop :=
  match t with T_cmode n | T_hmode n => - 2 ^ 31 < n < 2 ^ 31 | _ => True end.
Definition dl_next (dl : bool) (t : tok) : bool := match t with T_i _ d _ => d | _ => dl end.
Definition trec (t : tok) : list Z := opt_record (fst (conc_tok t)).
Definition tfop (t : tok) : list Z := map b2z (snd (conc_tok t)).

Definition step_goal (t : tok) (p : pak) (lng dl : bool) (m : memory) (fpv outv keyv : value) (fr : nat)
  (done todo fdone ftodo : list Z) (extra : list (string * value)) (oa : value) (pe : list (string * value)) : Prop :=
  let D := done ++ trec t ++ todo in
  let F := fdone ++ tfop t ++ ftodo in
  let s := mk m (gl extra) (gfiles D (List.length done) F (List.length fdone)) (pps oa fpv outv keyv pe) fr in
  match parse_one p t with
  | Some p' => exists lng' m' oa' fpv' outv' keyv' pe' fr' extra',
      exec cli_prog [] 180 loop_body s =
      Ok (Normal, mk m' (gl extra') (gfiles D (List.length (done ++ trec t)) F (List.length (fdone ++ tfop t))) (pps oa' fpv' outv' keyv' pe') fr') /\
      Inv p' lng' (dl_next dl t) m' fpv' outv' keyv' fr'
  | None => exists s', exec cli_prog [] 180 loop_body s = Ok (Returned (Some VNull), s')
  end.

Lemma krel_frame : forall m m' keyv k fr fr',
  krel m keyv k fr -> (fr <= fr')%nat -> (forall j, (1 <= j < fr)%nat -> mget m' (heap_name j) = mget m (heap_name j)) -> krel m' keyv k fr'.
Proof.
  intros m m' keyv [kid|] fr fr' H Hle Hm; cbn [krel] in *; [|exact H].
  destruct H as (j & E & Hj & G). exists j. split; [exact E|]. split; [lia|]. rewrite Hm by exact Hj. exact G.
Qed.

Lemma vrel_pv : forall v b, vrel v b -> pv v.
Proof. intros v [|] H; cbn [vrel] in H; [destruct H as (nm & ->)|subst v]; exact Logic.I. Qed.

Ltac pvs I := first [exact Logic.I | exact (vrel_pv _ _ (i_fp _ _ _ _ _ _ _ _ I)) | exact (vrel_pv _ _ (i_out _ _ _ _ _ _ _ _ I))].

(* mode tokens *)
Lemma step_mode : forall t code p lng dl m fpv outv keyv fr done todo fdone ftodo extra oa pe,
  In (t, code) [(T_e, 101); (T_d, 100); (T_v, 118); (T_V, 86); (T_h, 104)] ->
  Inv p lng dl m fpv outv keyv fr ->
  step_goal t p lng dl m fpv outv keyv fr done todo fdone ftodo extra oa pe.
Proof.
  intros t code p lng dl m fpv outv keyv fr done todo fdone ftodo extra oa pe Hin I.
  assert (Hrec : trec t = [code; 0] /\ tfop t = [] /\ parse_one p t = set_mode p code /\ dl_next dl t = dl /\ In code [101; 100; 118; 86; 104]).
  { cbn [In] in Hin. destruct Hin as [E|[E|[E|[E|[E|[]]]]]]; inversion E; subst; cbn; auto 10. }
  destruct Hrec as (Hrec & Hfop & Hpo & Hdl & Hc).
  unfold step_goal. rewrite Hrec, Hfop, Hpo, Hdl. cbn [app]. rewrite !app_nil_r.
  assert (Hcr : 0 <= code < 128) by (cbn [In] in Hc; lia).
  pose proof (prim_getopt_noarg m (gl extra) (done ++ code :: 0 :: todo) (List.length done) (fdone ++ ftodo) (List.length fdone) oa
                ([("#0", fpv); ("#0@8", outv); ("#0@16", keyv)] ++ pe) fr done code todo eq_refl eq_refl) as Hg.
  destruct (po_mode code m (gfiles (done ++ code :: 0 :: todo) (List.length done + 2) (fdone ++ ftodo) (List.length fdone))
              (pps VNull fpv outv keyv pe) fr _ _ _ _ Hc (i_res _ _ _ _ _ _ _ _ I) (i_mode _ _ _ _ _ _ _ _ I)) as (l' & Hp).
  unfold set_mode. destruct (mode p =? 117) eqn:E.
  - destruct (body_ok _ _ _ _ _ _ _ _ _ _ _ _ _ _ Hg Hcr (exec_mono _ _ _ _ _ _ Hp 170%nat ltac:(lia))) as (extra' & Hb).
    exists lng. do 8 eexists. split.
    + rewrite app_length. cbn [List.length]. exact Hb.
    + destruct I. constructor; cbn [mode ctype htype fp out key no_echo dflt_ok]; mgo; auto.
      eapply krel_frame; [eassumption|lia|]. intros j Hj. mgo. reflexivity.
  - destruct (body_fail _ _ _ _ _ _ _ _ _ _ _ _ _ _ _ _ _ _ Hg Hcr (exec_mono _ _ _ _ _ _ Hp 170%nat ltac:(lia))) as (s' & Hb); try solve [pvs I].
    exists s'. exact Hb.
Qed.

Ltac inv_tac I :=
  destruct I; constructor; cbn [mode ctype htype fp out key no_echo dflt_ok is_some vrel]; mgo; auto;
  try (eapply krel_frame; [eassumption|lia|]; intros j Hj; mgo; reflexivity).

Lemma step_n : forall p lng dl m fpv outv keyv fr done todo fdone ftodo extra oa pe,
  Inv p lng dl m fpv outv keyv fr ->
  step_goal T_n p lng dl m fpv outv keyv fr done todo fdone ftodo extra oa pe.
Proof.
  intros p lng dl m fpv outv keyv fr done todo fdone ftodo extra oa pe I.
  unfold step_goal. cbn [trec tfop conc_tok fst snd opt_record map parse_one dl_next app]. rewrite !app_nil_r.
  pose proof (prim_getopt_noarg m (gl extra) (done ++ 110 :: 0 :: todo) (List.length done) (fdone ++ ftodo) (List.length fdone) oa
                ([("#0", fpv); ("#0@8", outv); ("#0@16", keyv)] ++ pe) fr done 110 todo eq_refl eq_refl) as Hg.
  destruct (po_n m (gfiles (done ++ 110 :: 0 :: todo) (List.length done + 2) (fdone ++ ftodo) (List.length fdone))
              (pps VNull fpv outv keyv pe) fr _ _ _ _ (i_res _ _ _ _ _ _ _ _ I)) as (l' & Hp).
  destruct (body_ok _ _ _ _ _ _ _ _ _ _ _ _ _ _ Hg ltac:(lia) (exec_mono _ _ _ _ _ _ Hp 170%nat ltac:(lia))) as (extra' & Hb).
  exists lng. do 8 eexists. split.
  - rewrite app_length. cbn [List.length]. exact Hb.
  - inv_tac I.
Qed.

Lemma step_other : forall p lng dl m fpv outv keyv fr done todo fdone ftodo extra oa pe,
  Inv p lng dl m fpv outv keyv fr ->
  step_goal T_other p lng dl m fpv outv keyv fr done todo fdone ftodo extra oa pe.
Proof.
  intros p lng dl m fpv outv keyv fr done todo fdone ftodo extra oa pe I.
  unfold step_goal. cbn [trec tfop conc_tok fst snd opt_record map parse_one dl_next app].
  pose proof (prim_getopt_noarg m (gl extra) (done ++ 63 :: 0 :: todo) (List.length done) (fdone ++ ftodo) (List.length fdone) oa
                ([("#0", fpv); ("#0@8", outv); ("#0@16", keyv)] ++ pe) fr done 63 todo eq_refl eq_refl) as Hg.
  destruct (po_other m (gfiles (done ++ 63 :: 0 :: todo) (List.length done + 2) (fdone ++ ftodo) (List.length fdone))
              (pps VNull fpv outv keyv pe) fr) as (l' & Hp).
  destruct (body_fail _ _ _ _ _ _ _ _ _ _ _ _ _ _ _ _ _ _ Hg ltac:(lia) (exec_mono _ _ _ _ _ _ Hp 170%nat ltac:(lia))) as (s' & Hb); try solve [pvs I].
  exists s'. exact Hb.
Qed.

(* tokens with an argument: the state after getopt_long *)
Lemma getopt_arg_tok : forall m extra done code arg todo F fp oa fpv outv keyv pe fr,
  do_prim (mk m (gl extra) (gfiles (done ++ opt_record (code, Some arg) ++ todo) (List.length done) F fp) (pps oa fpv outv keyv pe) fr) "getopt_long" [] =
  Ok (Some (VInt code),
      mk (mset m (argname (List.length done)) (txt_obj (map Z.of_N arg))) (gl extra)
         (gfiles (done ++ opt_record (code, Some arg) ++ todo) (List.length (done ++ opt_record (code, Some arg))) F fp)
         (pps (VPtr (argname (List.length done)) 0) fpv outv keyv pe) fr).
Proof.
  intros. unfold pps. cbn [app].
  erewrite (prim_getopt_arg m (gl extra) _ (List.length done) F fp oa _ fr done code (map Z.of_N arg) todo); [|
    cbn [opt_record app]; rewrite map_length; reflexivity | reflexivity].
  unfold txt_obj. do 4 f_equal. rewrite app_length. cbn [opt_record app List.length]. rewrite !map_length. lia.
Qed.

Lemma step_o : forall b p lng dl m fpv outv keyv fr done todo fdone ftodo extra oa pe,
  Inv p lng dl m fpv outv keyv fr ->
  step_goal (T_o b) p lng dl m fpv outv keyv fr done todo fdone ftodo extra oa pe.
Proof.
  intros b p lng dl m fpv outv keyv fr done todo fdone ftodo extra oa pe I.
  unfold step_goal. cbn [trec tfop conc_tok fst snd map parse_one dl_next].
  pose proof (getopt_arg_tok m extra done 111 (str "o") todo (fdone ++ [b2z b] ++ ftodo) (List.length fdone) oa fpv outv keyv pe fr) as Hg.
  set (D := done ++ opt_record (111, Some (str "o")) ++ todo) in *.
  set (a := argname (List.length done)) in *.
  set (m1 := mset m a (txt_obj (map Z.of_N (str "o")))) in *.
  destruct (po_o m1 D (List.length (done ++ opt_record (111, Some (str "o")))) (fdone ++ [b2z b] ++ ftodo) (List.length fdone)
              (VPtr a 0) fpv outv keyv pe fr fdone b ftodo eq_refl eq_refl (vrel_pv _ _ (i_out _ _ _ _ _ _ _ _ I))) as (l' & Hp).
  destruct b.
  - destruct (body_ok _ _ _ _ _ _ _ _ _ _ _ _ _ _ Hg ltac:(lia) (exec_mono _ _ _ _ _ _ Hp 170%nat ltac:(lia))) as (extra' & Hb).
    exists lng. do 8 eexists. split.
    + rewrite (app_length fdone). cbn [List.length]. rewrite Nat.add_1_r. exact Hb.
    + unfold m1, a. inv_tac I. eexists; reflexivity.
  - destruct (body_fail _ _ _ _ _ _ _ _ _ _ _ _ _ _ _ _ _ _ Hg ltac:(lia) (exec_mono _ _ _ _ _ _ Hp 170%nat ltac:(lia))) as (s' & Hb); try solve [pvs I].
    exists s'. exact Hb.
Qed.

Lemma step_i : forall long d f p lng dl m fpv outv keyv fr done todo fdone ftodo extra oa pe,
  Inv p lng dl m fpv outv keyv fr ->
  step_goal (T_i long d f) p lng dl m fpv outv keyv fr done todo fdone ftodo extra oa pe.
Proof.
  intros long d f p lng dl m fpv outv keyv fr done todo fdone ftodo extra oa pe I.
  unfold step_goal. cbn [trec tfop conc_tok fst snd map parse_one dl_next].
  set (arg := if long then repeat 97%N 123 else str "in").
  set (bf := match f with FMissing => false | _ => true end).
  pose proof (getopt_arg_tok m extra done 105 arg todo (fdone ++ [b2z bf] ++ ftodo) (List.length fdone) oa fpv outv keyv pe fr) as Hg.
  set (D := done ++ opt_record (105, Some arg) ++ todo) in *.
  set (a := argname (List.length done)) in *.
  set (text := map Z.of_N arg) in *.
  set (m1 := mset m a (txt_obj text)) in *.
  assert (Hnz : Forall (fun c => c <> 0) text) by (apply forallb_nonzero; unfold text, arg; destruct long; vm_compute; reflexivity).
  assert (Hlz : (if 128 <=? Z.of_nat (List.length text) + 5 then 1 else 0) = b2z long) by (unfold text, arg; destruct long; vm_compute; reflexivity).
  assert (Hlen : Z.of_nat (List.length text) < 2 ^ 30) by (unfold text, arg; destruct long; vm_compute; reflexivity).
  destruct (i_fout _ _ _ _ _ _ _ _ I) as (fc & Hfo & Hfl).
  destruct (po_i m1 D (List.length (done ++ opt_record (105, Some arg))) (fdone ++ [b2z bf] ++ ftodo) (List.length fdone)
              a fpv outv keyv pe fr fdone bf ftodo (mode p) (ctype p mod 256) (htype p mod 256) (b2z (no_echo p)) text fc (b2z lng)
              eq_refl eq_refl) as (l' & fc' & Hfl' & Hp); try assumption.
  1-5: unfold m1, a; mgo; try (apply (i_res _ _ _ _ _ _ _ _ I)); try (apply (i_ftl _ _ _ _ _ _ _ _ I)); auto.
  1-3: unfold a; neq.
  1: exact (vrel_pv _ _ (i_fp _ _ _ _ _ _ _ _ I)).
  cbv zeta in Hp. rewrite Hlz in Hp.
  destruct f as [|  |kid]; cbn [bf] in *.
  - destruct (body_fail _ _ _ _ _ _ _ _ _ _ _ _ _ _ _ _ _ _ Hg ltac:(lia) (exec_mono _ _ _ _ _ _ Hp 170%nat ltac:(lia))) as (s' & Hb); try solve [pvs I].
    exists s'. exact Hb.
  - destruct (body_ok _ _ _ _ _ _ _ _ _ _ _ _ _ _ Hg ltac:(lia) (exec_mono _ _ _ _ _ _ Hp 170%nat ltac:(lia))) as (extra' & Hb).
    exists long. do 8 eexists. split.
    + rewrite (app_length fdone). cbn [List.length]. rewrite Nat.add_1_r. exact Hb.
    + unfold m1, a. inv_tac I. { eexists. split; [reflexivity|exact Hfl']. } eexists; reflexivity.
  - destruct (body_ok _ _ _ _ _ _ _ _ _ _ _ _ _ _ Hg ltac:(lia) (exec_mono _ _ _ _ _ _ Hp 170%nat ltac:(lia))) as (extra' & Hb).
    exists long. do 8 eexists. split.
    + rewrite (app_length fdone). cbn [List.length]. rewrite Nat.add_1_r. exact Hb.
    + unfold m1, a. inv_tac I. { eexists. split; [reflexivity|exact Hfl']. } eexists; reflexivity.
Qed.

Lemma step_k_bad : forall p lng dl m fpv outv keyv fr done todo fdone ftodo extra oa pe,
  Inv p lng dl m fpv outv keyv fr ->
  step_goal (T_k KInvalid) p lng dl m fpv outv keyv fr done todo fdone ftodo extra oa pe.
Proof.
  intros p lng dl m fpv outv keyv fr done todo fdone ftodo extra oa pe I.
  unfold step_goal. cbn [trec tfop conc_tok fst snd map parse_one dl_next app].
  pose proof (getopt_arg_tok m extra done 107 (str "notakey") todo (fdone ++ ftodo) (List.length fdone) oa fpv outv keyv pe fr) as Hg.
  set (D := done ++ opt_record (107, Some (str "notakey")) ++ todo) in *.
  set (a := argname (List.length done)) in *.
  set (m1 := mset m a (txt_obj (map Z.of_N (str "notakey")))) in *.
  destruct (po_k_bad m1 a (gfiles D (List.length (done ++ opt_record (107, Some (str "notakey")))) (fdone ++ ftodo) (List.length fdone))
              fpv outv keyv pe fr) as (M' & l' & Hp & HM).
  1-4: unfold m1, a; mgo; destruct I; auto.
  1-3: unfold a; neq.
  destruct (body_fail _ _ _ _ _ _ _ _ _ _ _ _ _ _ _ _ _ _ Hg ltac:(lia) (exec_mono _ _ _ _ _ _ Hp 170%nat ltac:(lia))) as (s' & Hb); try solve [pvs I].
  exists s'. exact Hb.
Qed.

Lemma step_k_valid : forall kid p lng dl m fpv outv keyv fr done todo fdone ftodo extra oa pe,
  Inv p lng dl m fpv outv keyv fr ->
  step_goal (T_k (KValid kid)) p lng dl m fpv outv keyv fr done todo fdone ftodo extra oa pe.
Proof.
  intros kid p lng dl m fpv outv keyv fr done todo fdone ftodo extra oa pe I.
  unfold step_goal. cbn [trec tfop conc_tok fst snd map parse_one dl_next app]. rewrite !app_nil_r.
  pose proof (getopt_arg_tok m extra done 107 (encode (key_of kid)) todo (fdone ++ ftodo) (List.length fdone) oa fpv outv keyv pe fr) as Hg.
  set (D := done ++ opt_record (107, Some (encode (key_of kid))) ++ todo) in *.
  set (a := argname (List.length done)) in *.
  assert (Et : map Z.of_N (encode (key_of kid)) = ktext (canon kid)) by (unfold ktext; rewrite <- key_of_canon; reflexivity).
  rewrite Et in Hg.
  set (m1 := mset m a (txt_obj (ktext (canon kid)))) in *.
  destruct (po_k_valid (canon kid) m1 a (gfiles D (List.length (done ++ opt_record (107, Some (encode (key_of kid))))) (fdone ++ ftodo) (List.length fdone))
              fpv outv keyv pe fr) as (M' & l' & Hp & HK & HM).
  1-4: unfold m1, a; mgo; destruct I; auto.
  1: apply kfacts_all.
  1-4: unfold a; neq.
  destruct (body_ok _ _ _ _ _ _ _ _ _ _ _ _ _ _ Hg ltac:(lia) (exec_mono _ _ _ _ _ _ Hp 170%nat ltac:(lia))) as (extra' & Hb).
  exists lng. do 8 eexists. split; [exact Hb|].
  rewrite <- key_of_canon in HK.
  assert (HM1 : forall K, K <> heap_name fr -> K <> a -> mget M' K = mget m K).
  { intros K N1 N2. rewrite HM by exact N1. unfold m1. apply mget_mset_other. auto. }
  destruct I. constructor; cbn [mode ctype htype fp out key no_echo dflt_ok is_some vrel krel]; auto.
  - rewrite HM1 by (unfold a; neq). assumption.
  - rewrite HM1 by (unfold a; neq). assumption.
  - rewrite HM1 by (unfold a; neq). assumption.
  - rewrite HM1 by (unfold a; neq). assumption.
  - rewrite HM1 by (unfold a; neq). assumption.
  - rewrite HM1 by (unfold a; neq). assumption.
  - exists fr. split; [reflexivity|]. split; [lia|exact HK].
Qed.

Lemma step_cmode : forall n p lng dl m fpv outv keyv fr done todo fdone ftodo extra oa pe,
  - 2 ^ 31 < n < 2 ^ 31 ->
  Inv p lng dl m fpv outv keyv fr ->
  step_goal (T_cmode n) p lng dl m fpv outv keyv fr done todo fdone ftodo extra oa pe.
Proof.
  intros n p lng dl m fpv outv keyv fr done todo fdone ftodo extra oa pe Hn I.
  unfold step_goal. cbn [trec tfop conc_tok fst snd map parse_one dl_next app]. rewrite !app_nil_r.
  pose proof (getopt_arg_tok m extra done 1 (decimal n) todo (fdone ++ ftodo) (List.length fdone) oa fpv outv keyv pe fr) as Hg.
  set (D := done ++ opt_record (1, Some (decimal n)) ++ todo) in *.
  set (a := argname (List.length done)) in *.
  set (m1 := mset m a (txt_obj (map Z.of_N (decimal n)))) in *.
  pose proof (wrap_I8_byte (ctype p) ltac:(destruct I; lia)) as WB.
  destruct (po_cmode m1 a (gfiles D (List.length (done ++ opt_record (1, Some (decimal n)))) (fdone ++ ftodo) (List.length fdone))
              fpv outv keyv pe fr (mode p) (ctype p mod 256) (htype p mod 256) (b2z (no_echo p)) n Hn) as (l' & pe' & Hp).
  { unfold m1, a; mgo. apply (i_res _ _ _ _ _ _ _ _ I). }
  { rewrite WB. destruct I; lia. }
  { unfold m1. mgo. reflexivity. }
  rewrite WB in Hp.
  destruct (ctype p =? -1) eqn:E1; cbn [andb] in Hp.
  - destruct ((n <? 0) || (127 <? n)) eqn:E2; cbn [negb] in Hp.
    + destruct (body_fail _ _ _ _ _ _ _ _ _ _ _ _ _ _ _ _ _ _ Hg ltac:(lia) (exec_mono _ _ _ _ _ _ Hp 170%nat ltac:(lia))) as (s' & Hb); try solve [pvs I].
      exists s'. exact Hb.
    + destruct (body_ok _ _ _ _ _ _ _ _ _ _ _ _ _ _ Hg ltac:(lia) (exec_mono _ _ _ _ _ _ Hp 170%nat ltac:(lia))) as (extra' & Hb).
      apply orb_false_iff in E2. destruct E2 as [E2 E3].
      exists lng. do 8 eexists. split; [exact Hb|].
      unfold m1, a. inv_tac I; try lia. rewrite (Z.mod_small n 256) by lia. reflexivity.
  - destruct (body_fail _ _ _ _ _ _ _ _ _ _ _ _ _ _ _ _ _ _ Hg ltac:(lia) (exec_mono _ _ _ _ _ _ Hp 170%nat ltac:(lia))) as (s' & Hb); try solve [pvs I].
    exists s'. exact Hb.
Qed.

Lemma step_hmode : forall n p lng dl m fpv outv keyv fr done todo fdone ftodo extra oa pe,
  - 2 ^ 31 < n < 2 ^ 31 ->
  Inv p lng dl m fpv outv keyv fr ->
  step_goal (T_hmode n) p lng dl m fpv outv keyv fr done todo fdone ftodo extra oa pe.
Proof.
  intros n p lng dl m fpv outv keyv fr done todo fdone ftodo extra oa pe Hn I.
  unfold step_goal. cbn [trec tfop conc_tok fst snd map parse_one dl_next app]. rewrite !app_nil_r.
  pose proof (getopt_arg_tok m extra done 2 (decimal n) todo (fdone ++ ftodo) (List.length fdone) oa fpv outv keyv pe fr) as Hg.
  set (D := done ++ opt_record (2, Some (decimal n)) ++ todo) in *.
  set (a := argname (List.length done)) in *.
  set (m1 := mset m a (txt_obj (map Z.of_N (decimal n)))) in *.
  pose proof (wrap_I8_byte (htype p) ltac:(destruct I; lia)) as WB.
  destruct (po_hmode m1 a (gfiles D (List.length (done ++ opt_record (2, Some (decimal n)))) (fdone ++ ftodo) (List.length fdone))
              fpv outv keyv pe fr (mode p) (ctype p mod 256) (htype p mod 256) (b2z (no_echo p)) n Hn) as (l' & pe' & Hp).
  { unfold m1, a; mgo. apply (i_res _ _ _ _ _ _ _ _ I). }
  { rewrite WB. destruct I; lia. }
  { unfold m1. mgo. reflexivity. }
  rewrite WB in Hp.
  destruct (htype p =? -1) eqn:E1; cbn [andb] in Hp.
  - destruct ((n <? 0) || (127 <? n)) eqn:E2; cbn [negb] in Hp.
    + destruct (body_fail _ _ _ _ _ _ _ _ _ _ _ _ _ _ _ _ _ _ Hg ltac:(lia) (exec_mono _ _ _ _ _ _ Hp 170%nat ltac:(lia))) as (s' & Hb); try solve [pvs I].
      exists s'. exact Hb.
    + destruct (body_ok _ _ _ _ _ _ _ _ _ _ _ _ _ _ Hg ltac:(lia) (exec_mono _ _ _ _ _ _ Hp 170%nat ltac:(lia))) as (extra' & Hb).
      apply orb_false_iff in E2. destruct E2 as [E2 E3].
      exists lng. do 8 eexists. split; [exact Hb|].
      unfold m1, a. inv_tac I; try lia. rewrite (Z.mod_small n 256) by lia. reflexivity.
  - destruct (body_fail _ _ _ _ _ _ _ _ _ _ _ _ _ _ _ _ _ _ Hg ltac:(lia) (exec_mono _ _ _ _ _ _ Hp 170%nat ltac:(lia))) as (s' & Hb); try solve [pvs I].
    exists s'. exact Hb.
Qed.

Lemma step_all : forall t p lng dl m fpv outv keyv fr done todo fdone ftodo extra oa pe,
  tok_ok t -> Inv p lng dl m fpv outv keyv fr ->
  step_goal t p lng dl m fpv outv keyv fr done todo fdone ftodo extra oa pe.
Proof.
  intros t p lng dl m fpv outv keyv fr done todo fdone ftodo extra oa pe Hok I.
  destruct t as [| | | | | |long d f|b|[|kid]|n|n|].
  - eapply step_mode; [left; reflexivity|exact I].
  - eapply step_mode; [right; left; reflexivity|exact I].
  - eapply step_mode; [right; right; left; reflexivity|exact I].
  - eapply step_mode; [right; right; right; left; reflexivity|exact I].
  - eapply step_mode; [right; right; right; right; left; reflexivity|exact I].
  - apply step_n, I.
  - apply step_i, I.
  - apply step_o, I.
  - apply step_k_bad, I.
  - apply step_k_valid, I.
  - apply step_cmode; [exact Hok|exact I].
  - apply step_hmode; [exact Hok|exact I].
  - apply step_other, I.
Qed.

(* getopt_long at the end of the stream: the loop is left *)
Lemma body_end : forall m extra D F fp ps fr,
  exists extra', exec cli_prog [] 180 loop_body (mk m (gl extra) (gfiles D (List.length D) F fp) ps fr) =
  Ok (Broke, mk m (gl extra') (gfiles D (List.length D) F fp) ps fr).
Proof.
  intros m extra D F fp ps fr.
  pose proof (prim_getopt_end m (gl extra) D F fp ps fr) as Hg.
  eexists. unfold loop_body, gv_loop. cbn [seq_drop gv_body f_body Src_cli.f_get_v_opt_2]. unfold mk, gl in *.
  xrun fail.
  { eapply x_prim; [reflexivity | exact Hg | stn]. }
  all: xrun ltac:(first [rewrite lget_lset_same | rewrite lget_lset_other by discriminate]).
  all: xrun ltac:(first [rewrite lget_lset_same | rewrite lget_lset_other by discriminate]).
  all: xrun ltac:(first [rewrite lget_lset_same | rewrite lget_lset_other by discriminate]).
Qed.

Lemma loop_ok : forall ts p lng dl m fpv outv keyv fr done fdone ftail extra oa pe fuel,
  Forall tok_ok ts -> Inv p lng dl m fpv outv keyv fr -> (182 + List.length ts <= fuel)%nat ->
  let D := done ++ flat_map trec ts in
  let F := fdone ++ flat_map tfop ts ++ ftail in
  let s := mk m (gl extra) (gfiles D (List.length done) F (List.length fdone)) (pps oa fpv outv keyv pe) fr in
  match parse_all p ts with
  | Some p' => exists lng' m' oa' fpv' outv' keyv' pe' fr' extra',
      exec cli_prog [] fuel gv_loop s =
      Ok (Normal, mk m' (gl extra') (gfiles D (List.length D) F (List.length (fdone ++ flat_map tfop ts))) (pps oa' fpv' outv' keyv' pe') fr') /\
      Inv p' lng' (fold_left dl_next ts dl) m' fpv' outv' keyv' fr'
  | None => exists s', exec cli_prog [] fuel gv_loop s = Ok (Returned (Some VNull), s')
  end.
Proof.
  induction ts as [|t ts IH]; intros p lng dl m fpv outv keyv fr done fdone ftail extra oa pe fuel Hok I Hf; cbv zeta.
  - cbn [parse_all flat_map fold_left app]. rewrite !app_nil_r.
    destruct (body_end m extra done (fdone ++ ftail) (List.length fdone) (pps oa fpv outv keyv pe) fr) as (extra' & Hb).
    exists lng, m, oa, fpv, outv, keyv, pe, fr, extra'. split; [|exact I].
    destruct fuel as [|fuel]; [lia|].
    unfold gv_loop. cbn [seq_drop gv_body f_body Src_cli.f_get_v_opt_2].
    eapply x_loop_break; [reflexivity | discriminate |].
    eapply exec_mono; [exact Hb|cbn in Hf; lia].
  - inversion Hok as [|? ? Ht Hts]; subst.
    cbn [parse_all flat_map fold_left List.length] in *.
    pose proof (step_all t p lng dl m fpv outv keyv fr done (flat_map trec ts) fdone (flat_map tfop ts ++ ftail) extra oa pe Ht I) as HS.
    unfold step_goal in HS. cbv zeta in HS.
    replace (fdone ++ (tfop t ++ flat_map tfop ts) ++ ftail) with (fdone ++ tfop t ++ flat_map tfop ts ++ ftail) by (now rewrite <- !app_assoc).
    destruct fuel as [|fuel]; [lia|].
    destruct (parse_one p t) as [p1|].
    + destruct HS as (lng1 & m1 & oa1 & fpv1 & outv1 & keyv1 & pe1 & fr1 & extra1 & Hb & I1).
      specialize (IH p1 lng1 (dl_next dl t) m1 fpv1 outv1 keyv1 fr1 (done ++ trec t) (fdone ++ tfop t) ftail extra1 oa1 pe1 fuel Hts I1 ltac:(lia)).
      cbv zeta in IH.
      replace ((done ++ trec t) ++ flat_map trec ts) with (done ++ trec t ++ flat_map trec ts) in IH by (now rewrite <- app_assoc).
      replace ((fdone ++ tfop t) ++ flat_map tfop ts ++ ftail) with (fdone ++ tfop t ++ flat_map tfop ts ++ ftail) in IH by (now rewrite <- !app_assoc).
      replace ((fdone ++ tfop t) ++ flat_map tfop ts) with (fdone ++ tfop t ++ flat_map tfop ts) in IH by (now rewrite <- app_assoc).
      destruct (parse_all p1 ts) as [p'|].
      * destruct IH as (lng' & m' & oa' & fpv' & outv' & keyv' & pe' & fr' & extra' & Hl & I').
        exists lng', m', oa', fpv', outv', keyv', pe', fr', extra'. split; [|exact I'].
        unfold gv_loop in *. cbn [seq_drop gv_body f_body Src_cli.f_get_v_opt_2] in *.
        eapply x_loop_iter; [reflexivity | discriminate | eapply exec_mono; [exact Hb|lia] | destruct fuel; [lia|reflexivity] | exact Hl].
      * destruct IH as (s' & Hl). exists s'.
        unfold gv_loop in *. cbn [seq_drop gv_body f_body Src_cli.f_get_v_opt_2] in *.
        eapply x_loop_iter; [reflexivity | discriminate | eapply exec_mono; [exact Hb|lia] | destruct fuel; [lia|reflexivity] | exact Hl].
    + destruct HS as (s' & Hb). exists s'.
      unfold gv_loop. cbn [seq_drop gv_body f_body Src_cli.f_get_v_opt_2].
      eapply x_loop_ret; [reflexivity | discriminate | eapply exec_mono; [exact Hb|lia]].
Qed.
