(* The text FileModel.enc / enc_writes / dec / ver (and ProcModel's view of the process-wide state) were written from.

   The sequential pieces of a whole-file operation are TRANSLATED (hash, HMAC, header, IV chain, verify, chunk buffer, cipher
   streams: Gen/Src_xxx.v, refinement theorems SRC_xxx); what composes them -- runcrypt::execute_encrypt / execute_decrypt /
   execute_verify, prepare_AES, release, over, the constructor, Settings, the buffergroup singleton -- starts threads and
   prints, and is hand-modelled: enc_writes = header and IVs; pipeline over the plaintext; tag patched in at offset 10;
   dec = verify, then IVs, pipeline over the body; ver = verify.  tools/cgen.py regenerates Gen/Orch.v (canonical text of
   those functions from clang's AST) on every run and [orchestration_unchanged] compares it with the text recorded here.
   An edit to any of them breaks this lemma, hence FileProps.vo and every file-level property file (C01, C02, C05, C06,
   C08b, C11, C12, C13, C18) and C15: the checks then report the property as no longer shown and look for a failing input. *)
From Coq Require Import List String.
From Wencry.Gen Require Import Orch.
Import ListNotations.
Local Open Scope string_scope.

Definition expected_orchestration_text : list (string * string) :=
  [("Settings::Settings/3",
    "(char ctype, char htype, bool no_echo) : ctype(ctype), htype(htype), no_echo(no_echo) { if (ctype < -1 || ctype > 4) { fprintf(stderr, ""Invalid crypt type: %d\n"", ctype); exit(1); } if (htype < -1 || htype > 2) { fprintf(stderr, ""Invalid hash type: %d\n"", htype); exit(1); } }");
   ("Settings::set_ctype/1",
    "(char c) { if (ctype < -1 || ctype > 4) { fprintf(stderr, ""Invalid crypt type: %d\n"", ctype); exit(1); } else ctype = c; }");
   ("Settings::set_htype/1",
    "(char h) { if (htype < -1 || htype > 2) { fprintf(stderr, ""Invalid hash type: %d\n"", htype); exit(1); } else htype = h; }");
   ("runcrypt::runcrypt/5",
    "(FILE * fin, FILE * out, u8_t * key, Settings settings, u8_t threads_num) : fin(fin), out(out), key(key), settings(Settings(settings)), threads_num(threads_num), mode(false), header(FileHeader(fin, out, key, settings.get_ctype(), settings.get_htype(), threads_num)), aesfactory(AesFactory(key)), crym(multicry_master(threads_num)) { if (settings.get_no_echo()) resultprint = new NullResPrint *(NullResPrint()) else resultprint = new ResultPrint *(ResultPrint()); hmachandle.loadprinter(resultprint); }");
   ("runcrypt::prepare_AES/3",
    "(u8_t ctype, u8_t * iv, bool cmode) { if (!cmode) fseek(fin, (48 + (20 * threads_num)), 0); buffergroup * iobuffer = get_instance(); iobuffer->set_buffergroup(threads_num, fin, out, cmode); Aesmode ** mode = new Aesmode **(threads_num); aesfactory.loadiv(iv); for (int i = 0; i < threads_num; i++) mode[i] = aesfactory.createCryMaster(cmode, ctype); return mode; }");
   ("runcrypt::release/2",
    "(u8_t * iv, Aesmode ** mode) { delete iv; for (int i = 0; i < threads_num; i++) delete mode[i]; delete mode; }");
   ("runcrypt::over/0",
    "() { if (fin != NULL) fclose(fin); if (out != NULL) fclose(out); }");
   ("runcrypt::execute_encrypt/2",
    "(size_t fsize, u8_t * r_buf) { if (fin == NULL) return resultprint->printinv(0); Timer * t_Total_Time = resultprint->createTimer(std::string(""Total_Time"", CXXDefaultArgExpr<>)); ; resultprint->printtask(std::string(""Preparing encrypt"", CXXDefaultArgExpr<>)); u8_t * iv = prepare_IV(r_buf); Aesmode ** mode = prepare_AES(settings.get_ctype(), iv, true); Timer * t_AES_Encryption_Time = resultprint->createTimer(std::string(""AES_Encryption_Time"", CXXDefaultArgExpr<>)); resultprint->printtask(std::string(""Encrypting"", CXXDefaultArgExpr<>)); typename _Bind_helper<__is_socketlike<void (AbsResultPrint::*)(basic_string<char>, unsigned long, unsigned long)>::value, void (AbsResultPrint::*)(basic_string<char>, unsigned long, unsigned long), AbsResultPrint *&, const _Placeholder<1> &, const _Placeholder<2> &, unsigned long>::type boundfunc = bind(&printpercentage, resultprint, _1, _2, fsize == 0 ? 1 : fsize); crym.run_multicry(mode, std::function<void (std::string, size_t)>(boundfunc)); resultprint->resetPercentage(); del_instance(); resultprint->printTimer(t_AES_Encryption_Time); Timer * t_Hashing_Time = resultprint->createTimer(std::string(""Hashing_Time"", CXXDefaultArgExpr<>)); resultprint->printtask(std::string(""Calculating hmac"", CXXDefaultArgExpr<>)); hmachandle.writeFileHmac(settings.get_htype(), out, key, 48, 10, fsize); resultprint->resetPercentage(); resultprint->printTimer(t_Hashing_Time); resultprint->printtask(std::string(""Releasing allocated memory"", CXXDefaultArgExpr<>)); release(iv, mode); resultprint->printenc(); over(); resultprint->printTimer(t_Total_Time); ; return true; }");
   ("runcrypt::execute_decrypt/1",
    "(size_t fsize) { if (fin == NULL) return resultprint->printinv(0); Timer * t_Total_Time = resultprint->createTimer(std::string(""Total_Time"", CXXDefaultArgExpr<>)); ; Timer * t_Verify_Time = resultprint->createTimer(std::string(""Verify_Time"", CXXDefaultArgExpr<>)); ; int res = verify(fsize); resultprint->resetPercentage(); resultprint->printTimer(t_Verify_Time); ; if (res == 0) { resultprint->printtask(std::string(""Preparing decrypt"", CXXDefaultArgExpr<>)); u8_t * iv = prepare_IV(); Aesmode ** mode = prepare_AES(header.getctype(), iv, false); Timer * t_AES_Decryption_Time = resultprint->createTimer(std::string(""AES_Decryption_Time"", CXXDefaultArgExpr<>)); resultprint->printtask(std::string(""Decrypting"", CXXDefaultArgExpr<>)); typename _Bind_helper<__is_socketlike<void (AbsResultPrint::*)(basic_string<char>, unsigned long, unsigned long)>::value, void (AbsResultPrint::*)(basic_string<char>, unsigned long, unsigned long), AbsResultPrint *&, const _Placeholder<1> &, const _Placeholder<2> &, unsigned long>::type boundfunc = bind(&printpercentage, resultprint, _1, _2, fsize == 0 ? 1 : fsize); crym.run_multicry(mode, std::function<void (std::string, size_t)>(boundfunc)); resultprint->resetPercentage(); resultprint->printTimer(t_AES_Decryption_Time); resultprint->printtask(std::string(""Releasing allocated memory"", CXXDefaultArgExpr<>)); del_instance(); release(iv, mode); } resultprint->printresd(res); over(); resultprint->printTimer(t_Total_Time); ; return res == 0; }");
   ("runcrypt::execute_verify/1",
    "(size_t fsize) { if (fin == NULL) return resultprint->printinv(0); Timer * t_Total_Time = resultprint->createTimer(std::string(""Total_Time"", CXXDefaultArgExpr<>)); ; Timer * t_Verify_Time = resultprint->createTimer(std::string(""Verify_Time"", CXXDefaultArgExpr<>)); ; int res = verify(fsize); resultprint->resetPercentage(); resultprint->printTimer(t_Verify_Time); ; resultprint->printresv(res); over(); resultprint->printTimer(t_Total_Time); ; return res == 0; }");
   ("buffergroup::get_instance/0",
    "() { if (instance == NULL) { std::lock_guard<std::mutex> lock = std::lock_guard<std::mutex>(mtx); if (instance == NULL) instance = new buffergroup *(buffergroup()); } return instance; }");
   ("buffergroup::del_instance/0",
    "() { if (instance != NULL) { std::lock_guard<std::mutex> lock = std::lock_guard<std::mutex>(mtx); if (instance != NULL) { delete instance; instance = NULL; } } }")].

Lemma orchestration_unchanged : orchestration_text = expected_orchestration_text.
Proof. reflexivity. Qed.
