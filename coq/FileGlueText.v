(* The text SrcRun5.construct (the set-up of a runcrypt object for the translated whole-file runs) and the Settings part of the
   file-level model were written from.

   Everything a whole-file operation executes is TRANSLATED from /repo on every run: runcrypt::execute_encrypt / execute_decrypt /
   execute_verify, prepare_AES, release, over (Gen/Src_whole.v), the buffergroup singleton, the hand-over protocol and the worker
   threads (Gen/Src_conc.v), cipher streams, header, HMAC, hashes; SrcRun5.v runs them together under the thread semantics and the
   checks compare those runs with the implementation.  Two things are not: runcrypt's constructor (a by-value class parameter, which
   MiniC does not express; its member initialisers are issued by SrcRun5.construct) and class Settings (range checks that exit).
   tools/cgen.py regenerates Gen/Orch.v (their canonical text from clang's AST) on every run and [orchestration_unchanged]
   compares it with the text recorded here.  An edit to them breaks this lemma, hence FileProps.vo and every file-level property
   file: the checks then report the property as no longer shown and look for a failing input. *)
From Coq Require Import List String.
From Wencry.Gen Require Import Orch.
Import ListNotations.
Local Open Scope string_scope.

Definition expected_orchestration_text : list (string * string) :=
  [("Settings::Settings/3",
    "(char ctype, char htype, bool no_echo) : ctype(ctype), htype(htype), no_echo(no_echo) { if (ctype < -1 || ctype > 4) { fprintf(stderr, ""Invalid crypt type: %d\n"", ctype); exit(1); } if (htype < -1 || htype > 2) { fprintf(stderr, ""Invalid hash type: %d\n"", htype); exit(1); } }");
   ("Settings::set_ctype/1",
    "(char c) { if (ctype < -1 || ctype > 4) { fprintf(stderr, ""Invalid crypt type: %d\n"", ctype); exit(1); } else ctype = c; }");
   ("Settings::set_htype/1",
    "(char h) { if (htype < -1 || htype > 2) { fprintf(stderr, ""Invalid hash type: %d\n"", htype); exit(1); } else htype = h; }");
   ("runcrypt::runcrypt/5",
    "(FILE * fin, FILE * out, u8_t * key, Settings settings, u8_t threads_num) : fin(fin), out(out), key(key), settings(Settings(settings)), threads_num(threads_num), mode(false), header(FileHeader(fin, out, key, settings.get_ctype(), settings.get_htype(), threads_num)), aesfactory(AesFactory(key)), crym(multicry_master(threads_num)) { if (settings.get_no_echo()) resultprint = new NullResPrint *(NullResPrint()) else resultprint = new ResultPrint *(ResultPrint()); hmachandle.loadprinter(resultprint); }")].

Lemma orchestration_unchanged : orchestration_text = expected_orchestration_text.
Proof. reflexivity. Qed.
