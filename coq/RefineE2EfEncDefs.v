(* Stage 5: the state of the whole program after the two constructors, for an encryption with modes cm, hm and seed `seed`
   (RefineE2EWhole.S1 is the instance cm = hm = -1, seed = [] of the verify / decrypt entry points). *)
From Coq Require Import ZArith NArith List String Bool Lia.
From Wencry Require Import Bytes MiniC MiniCRun MiniCLemmas SrcRun SrcRun2 SrcRun5 RefineE2EWhole.
From Wencry.Gen Require Src_aes.
Import ListNotations.
Local Open Scope list_scope.
Local Open Scope string_scope.
Local Open Scope Z_scope.

Definition M1e (c hbuf T : nat) (key seed : list N) (cm hm : Z) : memory :=
  ([("rc.settings.ctype", oc I8 cm); ("rc.settings.htype", oc I8 hm); ("rc.settings.no_echo", oc TBool 1);
   ("rc.threads_num", oc U8 (wrap U8 (Z.of_nat T))); ("rc.mode", oc TBool 0); ("rc.header.hash", mk_object U8 64);
   ("rc.header.num", oc U8 (wrap U8 (Z.of_nat T))); ("rc.header.ctype", oc U8 (wrap U8 cm)); ("rc.header.htype", oc U8 (wrap U8 hm));
   ("rc.crym.THREADS_NUM", oc U8 (wrap U8 (Z.of_nat T))); ("rc.hmachandle.length", oc U8 0);
   ("st.ctype", oc I8 cm); ("st.htype", oc I8 hm); ("st.no_echo", oc TBool 1);
   ("key", bytes_object key); ("seed", bytes_object (seed ++ [0%N]))]
  ++ file_globals hbuf ++ Src_aes.globals
  ++ [("sum", cell U32 (16 * Z.of_nat c)); ("sizeof:iobuffer.b", cell U32 (16 * Z.of_nat c)); ("live_num", cell U8 0); ("#0", mk_object U8 32)])%list.
Definition S1e (c hbuf T : nat) (P key seed : list N) (cm hm : Z) : state :=
  {| mem := M1e c hbuf T key seed cm hm; loc := []; pre := ""; files := FS0 P; ptrs := PS1; fresh := 1 |}.

Lemma construct_enc_run : forall c hbuf T P key seed cm hm, (cm <= 4)%N -> (hm <= 2)%N ->
  exec whole_prog [] 30 (construct T (Z.of_N cm) (Z.of_N hm) true) (whole_state c hbuf T (Z.of_N cm) (Z.of_N hm) true P key seed)
  = Ok (Normal, S1e c hbuf T P key seed (Z.of_N cm) (Z.of_N hm)).
Proof.
  intros c hbuf T P key seed cm hm Hcm Hhm.
  assert (Ecm : (cm = 0 \/ cm = 1 \/ cm = 2 \/ cm = 3 \/ cm = 4)%N) by lia.
  assert (Ehm : (hm = 0 \/ hm = 1 \/ hm = 2)%N) by lia.
  destruct Ecm as [-> |[-> |[-> |[-> | ->]]]]; destruct Ehm as [-> |[-> | ->]]; vm_compute; reflexivity.
Qed.
