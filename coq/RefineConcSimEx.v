(* The simulation relation of RefineConcSim.v holds along concrete runs (vm_compute): non-vacuity of simb / sim_run.
   Kept apart from the definitions so that the extraction (Extract.v imports RefineConcSim) does not depend on these evaluations:
   a change to the protocol functions makes THIS file fail, which concerns C03 / C04 / C14 only. *)
From Coq Require Import ZArith NArith List String Bool Ascii.
From Wencry Require Import Bytes FileModel PipeConc MiniC MiniCConc SrcRun SrcRun4.
From Wencry.Gen Require Src_conc.
Import ListNotations.
Local Open Scope string_scope.
Local Open Scope list_scope.
From Wencry Require Import RefineConcSim.

(* T = 1, padding, empty input; spurious wake-ups (id 3 = worker 0) *)
Example sim_ex1 : let sc := [0; 0; 1; 1; 0; 3; 0; 1; 1; 1; 0; 0; 1; 1; 0; 3; 1; 0; 0; 0; 3; 0; 1; 1; 0] in
  sim_run 1 1 true (ex_bytes 0) sc = None /\ complete 1 1 true (ex_bytes 0) sc = true.
Proof. vm_compute. split; reflexivity. Qed.
(* T = 1, no padding, empty input (the first load is NODATA) *)
Example sim_ex2 : let sc := [0; 1; 1; 0; 0; 0; 0; 1; 1; 1; 1; 1; 0] in
  sim_run 1 1 false (ex_bytes 0) sc = None /\ complete 1 1 false (ex_bytes 0) sc = true.
Proof. vm_compute. split; reflexivity. Qed.
(* T = 2, c = 2, padding, exact multiple of the chunk (64 = 2 * 32): a last chunk of padding only; spurious wake-ups 4, 5 *)
Example sim_ex3 : let sc :=
  [0; 1; 1; 4; 1; 2; 4; 2; 0; 0; 5; 2; 0; 0; 0; 1; 1; 0; 0; 5; 1; 2; 5; 2; 1; 0; 2; 1; 0; 2; 1; 0; 2; 4;
   0; 0; 0; 1; 0; 1; 1; 0; 2; 2; 0; 0; 1; 2; 1; 1; 0; 0; 0; 0; 0; 2; 2; 0; 0; 0; 0; 0; 1; 1; 0] in
  sim_run 2 2 true (ex_bytes 64) sc = None /\ complete 2 2 true (ex_bytes 64) sc = true.
Proof. vm_compute. split; reflexivity. Qed.
(* T = 2, c = 2, no padding, exact multiple of the chunk (the peek for end-of-file) *)
Example sim_ex4 : let sc :=
  [0; 0; 2; 0; 1; 2; 1; 0; 1; 0; 0; 5; 0; 1; 0; 0; 0; 0; 3; 2; 2; 1; 0; 2; 3; 0; 2; 1; 2; 3; 1; 0; 2; 0;
   0; 1; 0; 0; 1; 0; 5; 0; 1; 0; 0; 0; 2; 5; 0; 0; 2; 2; 0] in
  sim_run 2 2 false (ex_bytes 64) sc = None /\ complete 2 2 false (ex_bytes 64) sc = true.
Proof. vm_compute. split; reflexivity. Qed.
(* T = 3, c = 1, padding, 100 bytes: 7 chunks, more chunks than workers; spurious wake-ups 5, 6, 7 *)
Example sim_ex5 : let sc :=
  [1; 3; 1; 5; 0; 1; 0; 3; 0; 7; 3; 2; 5; 2; 0; 0; 6; 2; 1; 1; 1; 0; 1; 0; 1; 0; 5; 0; 0; 1; 0; 2; 0; 7;
   5; 3; 2; 2; 2; 2; 0; 1; 0; 3; 3; 3; 0; 3; 0; 0; 5; 3; 1; 5; 0; 0; 1; 5; 1; 0; 1; 7; 0; 6; 1; 2; 1; 1;
   0; 6; 2; 0; 1; 6; 5; 3; 1; 7; 2; 3; 0; 0; 0; 2; 5; 2; 7; 1; 0; 2; 0; 3; 0; 2; 2; 7; 0; 6; 5; 3; 1; 0;
   2; 7; 3; 0; 5; 0; 1; 3; 0; 6; 0; 2; 5; 1; 0; 0; 0; 0; 1; 6; 0; 2; 3; 1; 1; 1; 3; 3; 1; 0; 0; 0; 0; 0;
   2; 5; 3; 1; 2; 0; 5; 7; 3; 1; 0; 0; 0; 0; 3; 0; 3; 0; 0; 0; 5; 0; 1; 0; 0; 1; 1; 0] in
  sim_run 1 3 true (ex_bytes 100) sc = None /\ complete 1 3 true (ex_bytes 100) sc = true.
Proof. vm_compute. split; reflexivity. Qed.
(* T = 3, c = 1, no padding, ragged input (37 = 2 * 16 + 5): the last load is NODATA after reading 5 bytes *)
Example sim_ex6 : let sc :=
  [1; 0; 3; 0; 0; 1; 3; 7; 5; 3; 1; 2; 2; 0; 0; 1; 0; 1; 0; 1; 6; 0; 1; 7; 1; 0; 3; 7; 0; 0; 3; 2; 2; 0;
   2; 2; 0; 7; 0; 0; 2; 6; 5; 1; 0; 3; 5; 3; 0; 3; 2; 6; 0; 1; 2; 0; 0; 0; 1; 1; 0; 0; 0; 3; 0; 3; 6; 0;
   0; 2; 2; 0] in
  sim_run 1 3 false (ex_bytes 37) sc = None /\ complete 1 3 false (ex_bytes 37) sc = true.
Proof. vm_compute. split; reflexivity. Qed.
(* T = 2, c = 1, no padding, 5 chunks *)
Example sim_ex7 : let sc :=
  [1; 1; 2; 0; 0; 2; 0; 0; 1; 0; 0; 5; 1; 0; 2; 1; 5; 1; 2; 0; 1; 0; 0; 0; 0; 2; 4; 1; 4; 1; 0; 0; 2; 0;
   0; 0; 1; 1; 1; 2; 1; 1; 4; 1; 2; 2; 0; 0; 0; 0; 5; 2; 0; 0; 2; 2; 2; 2; 0; 0; 4; 1; 2; 0; 5; 0; 2; 0;
   5; 1; 1; 1; 1; 2; 0; 0; 1; 0; 0; 0; 0; 0; 4; 2; 2; 0; 1; 0; 0; 4; 1; 4; 0; 0; 1; 1; 0] in
  sim_run 1 2 false (ex_bytes 80) sc = None /\ complete 1 2 false (ex_bytes 80) sc = true.
Proof. vm_compute. split; reflexivity. Qed.
(* T = 1, c = 3, padding, 50 bytes: a full chunk and a padded one *)
Example sim_ex8 : let sc :=
  [1; 0; 1; 3; 1; 0; 0; 0; 0; 0; 1; 1; 1; 1; 1; 1; 1; 0; 0; 0; 0; 0; 1; 0; 1; 1; 0; 1; 0; 1; 0; 0; 0; 0;
   0; 1; 1; 0] in
  sim_run 3 1 true (ex_bytes 50) sc = None /\ complete 3 1 true (ex_bytes 50) sc = true.
Proof. vm_compute. split; reflexivity. Qed.
(* generated schedules, T = 4 *)
Example sim_ex9 : forallb (fun rnd => match sim_run 2 4 true (ex_bytes 150) (mksched 2 4 true (ex_bytes 150) rnd) with None => true | _ => false end)
                          [1%N; 2%N; 3%N] = true.
Proof. vm_compute. reflexivity. Qed.
(* the relation is not trivial: a model state with another pc, other input or padding flag is rejected *)
Example sim_ex_neg :
  let cs0 := match run_to_marker 20 (run_fuel 1) (conc_init 1 2 true (ex_bytes 20)) with MiniC.Ok cs => cs | _ => conc_init 1 2 true (ex_bytes 20) end in
  let s0 n := init (N * N) 2 (tag_init 2) (loads_of 1 true (ex_bytes n)) in
  (simb 1 2 true (s0 20) cs0, simb 1 2 true (s0 21) cs0, simb 1 2 true (set_io _ (s0 20) I_Cmp) cs0,
   simb 1 2 true (set_wpc _ (s0 20) 1 W_Start) cs0, simb 1 2 false (s0 20) cs0) = (true, false, false, false, false).
Proof. vm_compute. reflexivity. Qed.
