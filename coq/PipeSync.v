(* The text the transition system PipeConc.v was written from.

   tools/cgen.py regenerates Gen/Sync.v (the canonical text of every function of the buffer hand-over protocol, from clang's
   AST of the current sources, verification guard off) on every run; [skeleton_unchanged] below compares it with the text
   recorded here when the model was written / last reviewed.  If a function of the protocol is edited -- a lock dropped, a
   `while` around cv.wait turned into an `if`, notify moved out of the critical section, the state test of turn_iter changed,
   a worker allowed to look at its buffer before wait_buffer_ready -- this lemma no longer holds, the theorems of
   Properties_C03 / C04 / C14 (which import this file) no longer build, and the checks fall back to searching for a failing
   schedule with the scheduler shim.  A harmless rewrite breaks it too: then PipeConc.v has to be re-read against the new text
   and [expected_skeleton] updated.

   Reading guide (function -> PipeConc transitions):
     bufferctrl::wait_ready      W_Start / W_WaitReady / W_Awake -> w_wait (lock; while (state != READY && state != INV) wait)
     bufferctrl::wait_update     I_WaitUpdate / I_Awake -> i_wait
     bufferctrl::set_ready       I_SetReady ls: state := READY | INV (and live_num--), notify_all under the lock -> wake_worker
     bufferctrl::set_update      W_SetUpdate: if READY then UPDATING + notify_all under the lock -> wake_io
     iobuffer::get_entry         take_entry (now < total ? b[now++] : NULL)
     require_buffer_entry        W_Get -> (entry | W_SetUpdate -> W_WaitReady -> ... -> W_Cmp -> entry | W_Done)
     multiruncrypt_file          W_New -> W_Start (wait_buffer_ready first), loop until NULL
     buffer_update               I_Cmp -> I_Export -> I_Load -> I_SetReady
     turn_iter                   I_Turn: haslive, do turn = (turn+1) % size while INV
     run_buffer                  do { wait_update; buffer_update } while (turn_iter())
     run_multicry                thread creation, run_buffer on the calling thread, joins in index order (I_Join k)
     (cv.wait may also return without a notification: PipeConc.spurious, schedule ids T+1+j) *)
From Coq Require Import List String.
From Wencry.Gen Require Import Sync.
Import ListNotations.
Local Open Scope string_scope.

Definition expected_skeleton : list (string * string) :=
  [("bufferctrl::bufferctrl/0",
    "() : state(EMPTY) { live_num++; }");
   ("bufferctrl::cmpstate/1",
    "(const enum bufstate_t state) { return state == state; }");
   ("bufferctrl::haslive/0",
    "() { return live_num != 0; }");
   ("bufferctrl::wait_ready/0",
    "() { std::unique_lock<std::mutex> locker = std::unique_lock<std::mutex>(lock); while (state != READY && state != INV) cv_ready.wait(locker); ; locker.unlock(); }");
   ("bufferctrl::wait_update/0",
    "() { std::unique_lock<std::mutex> locker = std::unique_lock<std::mutex>(lock); while (state != UPDATING && state != EMPTY) cv_update.wait(locker); ; locker.unlock(); }");
   ("bufferctrl::set_ready/1",
    "(bool load) { std::unique_lock<std::mutex> locker = std::unique_lock<std::mutex>(lock); if (load) state = READY else { state = INV; live_num--; } cv_ready.notify_all(); ; locker.unlock(); }");
   ("bufferctrl::set_update/0",
    "() { std::unique_lock<std::mutex> locker = std::unique_lock<std::mutex>(lock); if (state == READY) { state = UPDATING; cv_update.notify_all(); } ; locker.unlock(); }");
   ("iobuffer::get_entry/0",
    "() { return (now < total) ? b[now++] : NULL; }");
   ("buffergroup::turn_iter/0",
    "() { ; ; if (!haslive()) return false; do turn = (turn + 1) % size while (ctrl[turn].cmpstate(INV)); ; return true; }");
   ("buffergroup::require_buffer_entry/1",
    "(const u8_t id) { ; u8_t * result = buflst[id].get_entry(); ; if (result == NULL) { ctrl[id].set_update(); ctrl[id].wait_ready(); ; if (ctrl[id].cmpstate(READY)) result = buflst[id].get_entry(); ; } return result; }");
   ("buffergroup::wait_buffer_ready/1",
    "(const u8_t id) { ctrl[id].wait_ready(); }");
   ("buffergroup::buffer_update/1",
    "(const std::function<void (std::string, size_t)> & printload) { loadstate_t loadstate = NODATA; ; ; if (ctrl[turn].cmpstate(UPDATING)) { ; ; buflst[turn].export_buffer(fout, ispadding); ; operator()(printload, operator+(""Tid "", to_string(turn)), buflst[turn].get_size()); } ; ; if (!over) loadstate = buflst[turn].load_buffer(fin, ispadding); ; over = loadstate != FULL; ctrl[turn].set_ready(loadstate != NODATA); }");
   ("buffergroup::run_buffer/1",
    "(const std::function<void (std::string, size_t)> & printload) { do { ctrl[turn].wait_update(); buffer_update(printload); } while (turn_iter()); }");
   ("buffergroup::set_buffergroup/4",
    "(u32_t size, FILE * fin, FILE * fout, bool ispadding) { size = size; fin = fin; fout = fout; ispadding = ispadding; buflst = new iobuffer *(size, iobuffer[]()); ctrl = new bufferctrl *(size, bufferctrl[]()); }");
   ("multiruncrypt_file/2",
    "(u8_t id, Aesmode & mode) { buffergroup * iobuffer = get_instance(); iobuffer->wait_buffer_ready(id); for (u8_t * block = iobuffer->require_buffer_entry(id); block != NULL; block = iobuffer->require_buffer_entry(id)) mode.runcry(block); }");
   ("multicry_master::run_multicry/2",
    "(Aesmode ** mode, const std::function<void (std::string, size_t)> & printload) { for (u8_t i = 0; i < THREADS_NUM; ++i) operator=(threads[i], std::thread(multiruncrypt_file, i, ref((*mode[i])))); get_instance()->run_buffer(printload); for (u8_t i = 0; i < THREADS_NUM; ++i) threads[i].join(); }")].

Lemma skeleton_unchanged : sync_skeleton = expected_skeleton.
Proof. reflexivity. Qed.
