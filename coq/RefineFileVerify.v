(* FileHeader::checkMn / checkType / getHmac / getctype / gethtype (fheader.cpp) and runcrypt::verify (cry.cpp):
   SRC_verify: the translated verify returns the result code of FileModel.verify, for any input file. *)
From Coq Require Import ZArith NArith List String Bool Lia PeanoNat.
From Wencry Require Import Bytes HashModel HashProofs HmacProofs FileModel MiniC MiniCRun MiniCLemmas SrcRun SrcRun2 RefineHashDefs RefineHashDriver
     RefineSha256 RefineSha1 RefineMd5 RefineHash RefineFileBase RefineFileHmac RefineFileHmac2 RefineFileHmac3.
From Wencry.Gen Require Layout Src_sha256 Src_sha1 Src_md5 Src_hashmaster Src_hashbuffer Src_hashfactory Src_fheader Src_cry.
Import ListNotations.
Local Open Scope list_scope.
Local Open Scope string_scope.
Local Open Scope Z_scope.

(* ------------------------------------------------------------------------------------ *)
(** * 1. Little-endian words, the magic number                                           *)
(* ------------------------------------------------------------------------------------ *)
Lemma le_bytes_le_val : forall b, Forall (fun x => 0 <= x < 256) b -> le_bytes (List.length b) (le_val b) = b.
Proof.
  induction b as [|x r IH]; intro Hb; [reflexivity|]. inversion Hb as [|? ? Hx Hr]; subst.
  cbn [List.length le_bytes le_val].
  assert (E1 : (x + 256 * le_val r) mod 256 = x).
  { rewrite (Z.mul_comm 256), Z.mod_add by lia. apply Z.mod_small, Hx. }
  assert (E2 : (x + 256 * le_val r) / 256 = le_val r).
  { rewrite (Z.mul_comm 256), Z.div_add by lia. rewrite (Z.div_small x 256) by lia. lia. }
  rewrite E1, E2, (IH Hr). reflexivity.
Qed.
Lemma le_val_bound : forall b, Forall (fun x => 0 <= x < 256) b -> 0 <= le_val b < 256 ^ Z.of_nat (List.length b).
Proof.
  induction b as [|x r IH]; intro Hb; [cbn; lia|]. inversion Hb as [|? ? Hx Hr]; subst.
  cbn [List.length le_val]. rewrite Nat2Z.inj_succ, Z.pow_succ_r by lia. specialize (IH Hr). lia.
Qed.
Lemma bytes_Forall : forall b, bytesb b = true -> Forall (fun x => 0 <= x < 256) (map Z.of_N b).
Proof.
  unfold bytesb. induction b as [|x b IH]; cbn [forallb map]; intro Hb; constructor.
  - apply andb_true_iff in Hb. destruct Hb as [Hx _]. unfold byte_ok in Hx. apply N.ltb_lt in Hx. lia.
  - apply IH. apply andb_true_iff in Hb. apply Hb.
Qed.
Lemma map_of_N_inj : forall a b, map Z.of_N a = map Z.of_N b -> a = b.
Proof.
  induction a as [|x a IH]; intros [|y b] E; cbn [map] in E; try discriminate; [reflexivity|].
  injection E as E1 E2. apply N2Z.inj in E1. rewrite E1, (IH b E2). reflexivity.
Qed.

Definition MAGIC : Z := Z.of_N Layout.Magic_Num.
Lemma magic_test : forall b, List.length b = 8%nat -> bytesb b = true ->
  (wrap U64 (le_val (map Z.of_N b)) =? wrap U64 MAGIC) = list_eqb b magic_bytes.
Proof.
  intros b Hl Hb. pose proof (bytes_Forall b Hb) as HF. pose proof (le_val_bound _ HF) as Hbd.
  rewrite map_length, Hl in Hbd. change (256 ^ Z.of_nat 8) with (2 ^ 64) in Hbd.
  rewrite (wrap_U64_small (le_val (map Z.of_N b))) by lia. change (wrap U64 MAGIC) with MAGIC.
  destruct (list_eqb b magic_bytes) eqn:E.
  - apply list_eqb_eq in E. subst b. reflexivity.
  - apply Z.eqb_neq. intro Ev. assert (b = magic_bytes); [|subst b; rewrite (proj2 (list_eqb_eq _ _) eq_refl) in E; discriminate].
    apply map_of_N_inj. rewrite <- (le_bytes_le_val _ HF). rewrite map_length, Hl, Ev. reflexivity.
Qed.

Lemma mset_mset : forall m k o o', mset (mset m k o) k o' = mset m k o'.
Proof.
  induction m as [|[k0 o0] r IH]; intros k o o'; cbn [mset].
  - rewrite String.eqb_refl. reflexivity.
  - destruct (String.eqb k k0) eqn:E; cbn [mset]; rewrite ?String.eqb_refl, ?E; [reflexivity|]. rewrite IH. reflexivity.
Qed.

(* ------------------------------------------------------------------------------------ *)
(** * 2. Primitives on the input stream "fin"                                            *)
(* ------------------------------------------------------------------------------------ *)
Notation FS D pos e fo := [("fin", {| cf_data := D; cf_pos := pos; cf_eof := e |}); ("fout", fo)].

Lemma got_min : forall (D : list Z) pos n, 0 <= n ->
  firstn (Z.to_nat (Z.min n (Z.of_nat (List.length D) - Z.of_nat pos))) (skipn pos D) = firstn (Z.to_nat n) (skipn pos D).
Proof.
  intros D pos n Hn. assert (Hl : List.length (skipn pos D) = (List.length D - pos)%nat) by apply skipn_length.
  destruct (Z.le_ge_cases n (Z.of_nat (List.length D) - Z.of_nat pos)) as [Hc|Hc].
  - rewrite Z.min_l by lia. reflexivity.
  - rewrite Z.min_r by lia. rewrite !firstn_all2 by lia. reflexivity.
Qed.

Lemma fread_wide_mn : forall m l p D pos e fo ps fr,
  exists v e', do_prim (St (mset m "%mn" {| o_ty := U64; o_cells := [0] |}) l p (FS D pos e fo) ps fr) "fread" [VPtr "%mn" 0; VInt 1; VInt 8; VPtr "fin" 0] =
     Ok (Some (VInt (Z.of_nat (List.length (firstn 8 (skipn pos D))))),
         St (mset m "%mn" {| o_ty := U64; o_cells := [v] |}) l p (FS D (pos + List.length (firstn 8 (skipn pos D))) e' fo) ps fr) /\
     (List.length (firstn 8 (skipn pos D)) = 8%nat -> v = le_val (firstn 8 (skipn pos D))).
Proof.
  intros m l p D pos e fo ps fr. unfold do_prim. change (String.eqb "fread" "fread") with true. cbv iota.
  cbn [stream_of bind files mem lget String.eqb Ascii.eqb Bool.eqb]. rewrite mget_mset_same. cbn [o_ty o_cells cf_data cf_pos cf_eof].
  change (ity_bytes U64) with 8. change (negb (8 =? 1)) with true. cbv iota.
  change ((8 <? 0) || (0 <? 0) || negb (8 mod 8 =? 0) || negb (0 mod 8 =? 0)) with false. cbv iota.
  change (Z.of_nat (List.length [0]) <? 0 / 8 + 8 / 8) with false. cbv iota.
  rewrite (got_min D pos 8) by lia. change (Z.to_nat 8) with 8%nat.
  set (got := firstn 8 (skipn pos D)).
  change (Z.to_nat (8 / 8)) with 1%nat. change (Z.to_nat (0 / 8)) with 0%nat.
  change (firstn 1 (skipn 0 [0])) with [0]. cbn [bytes_cells upd_range upd_nth]. unfold with_files, with_mem. cbn [mem loc pre files ptrs fresh lset String.eqb Ascii.eqb Bool.eqb].
  rewrite mset_mset. eexists. eexists. split; [reflexivity|].
  intro Hl. f_equal. rewrite firstn_app, Hl, Nat.sub_diag, firstn_O, app_nil_r. apply firstn_all2. lia.
Qed.

Lemma fread_bytes : forall m l p D pos e fo ps fr od offd n bd,
  mget m od = Some bd -> o_ty bd = U8 -> 0 <= n -> 0 <= offd ->
  let got := firstn (Z.to_nat n) (skipn pos D) in
  offd + Z.of_nat (List.length got) <= Z.of_nat (List.length (o_cells bd)) ->
  exists e', do_prim (St m l p (FS D pos e fo) ps fr) "fread" [VPtr od offd; VInt 1; VInt n; VPtr "fin" 0] =
    Ok (Some (VInt (Z.of_nat (List.length got))),
        St (mset m od {| o_ty := U8; o_cells := upd_range (Z.to_nat offd) got (o_cells bd) |}) l p (FS D (pos + List.length got) e' fo) ps fr).
Proof.
  intros m l p D pos e fo ps fr od offd n bd Hd Hty Hn Ho got Hfit.
  destruct (fread_u8 (St m l p (FS D pos e fo) ps fr) od offd n "fin" 0 {| cf_data := D; cf_pos := pos; cf_eof := e |} bd eq_refl Hd Hty Hn Ho Hfit) as [e' E].
  exists e'. rewrite E. reflexivity.
Qed.

Lemma fseek_fin : forall m l p D pos e fo ps fr off, 0 <= off <= 2 ^ 40 ->
  do_prim (St m l p (FS D pos e fo) ps fr) "fseek" [VPtr "fin" 0; VInt off; VInt 0] =
  Ok (Some (VInt 0), St m l p (FS D (Z.to_nat off) false fo) ps fr).
Proof.
  intros m l p D pos e fo ps fr off Ho. unfold do_prim.
  change (String.eqb "fseek" "fread") with false. change (String.eqb "fseek" "feof") with false. change (String.eqb "fseek" "fgetc") with false.
  change (String.eqb "fseek" "ungetc") with false. change (String.eqb "fseek" "fwrite") with false. change (String.eqb "fseek" "isalnum") with false.
  change (String.eqb "fseek" "fseek") with true. cbv iota.
  cbn [stream_of bind files lget String.eqb Ascii.eqb Bool.eqb].
  destruct (off <? 0) eqn:E1; [apply Z.ltb_lt in E1; lia|]. destruct (2 ^ 40 <? off) eqn:E2; [apply Z.ltb_lt in E2; lia|].
  cbn [orb]. reflexivity.
Qed.

(* ------------------------------------------------------------------------------------ *)
(** * 3. The FileHeader methods verify() uses; the header object lives at "rc.header."    *)
(* ------------------------------------------------------------------------------------ *)
Definition magic_ok (F : list N) : bool := (8 <=? List.length F)%nat && list_eqb (firstn 8 F) magic_bytes.

Tactic Notation "nf" ident(fuel) := destruct fuel as [|fuel]; [lia|].

Section Header.
Variable vt : list (string * string).

Lemma checkMn_call : forall fuel m l p F pos e fo ps fr, (12 <= fuel)%nat ->
  lget ps "rc.header.fp" = Some (VPtr "fin" 0) -> mget m "Magic_Num" = Some (cell1 U64 MAGIC) -> bytesb F = true ->
  exists mn pos' e', call file_prog vt fuel "FileHeader::checkMn/0" "rc.header." [] (St m l p (FS (map Z.of_N F) pos e fo) ps fr) =
    Ok (Some (VInt (if magic_ok F then 1 else 0)), St (mset m "%mn" mn) l p (FS (map Z.of_N F) pos' e' fo) ps fr).
Proof.
  intros fuel m l p F pos e fo ps fr Hfuel Hfp Hmg HFb.
  unfold call. change (lget file_prog "FileHeader::checkMn/0") with (Some Src_fheader.f_FileHeader_checkMn_0).
  cbn [f_params f_body Src_fheader.f_FileHeader_checkMn_0 bind_params bind mem loc pre files ptrs fresh].
  set (D := map Z.of_N F).
  (* fseek(fp, 0) *)
  nf fuel. rewrite exec_seq. nf fuel. rewrite x_prim. cbn [eval_list eval bind pre ptrs append as_int]. rewrite Hfp. cbn [bind as_int].
  change (wrap I64 0) with 0. rewrite fseek_fin by lia. cbn [bind set_ret]. change (Z.to_nat 0) with 0%nat.
  (* u64_t mn = 0 *)
  rewrite exec_seq. nf fuel. rewrite x_localarr. unfold with_mem. cbn [bind mem loc pre files ptrs fresh append]. change (repeat 0 (Z.to_nat 1)) with [0].
  rewrite exec_seq. nf fuel. rewrite x_store. cbn [eval bind as_int mem append]. rewrite mget_mset_same.
  change (store_obj {| o_ty := U64; o_cells := [0] |} U64 0 (wrap U64 0)) with (Ok {| o_ty := U64; o_cells := [0] |} : res object).
  unfold with_mem. cbn [bind mem loc pre files ptrs fresh]. rewrite mset_mset.
  (* fread(&mn, 1, 8, fp) *)
  rewrite exec_seq. nf fuel. rewrite x_prim. cbn [eval_list eval bind pre ptrs append as_int]. rewrite Hfp. cbn [bind as_int].
  change (wrap U64 1) with 1. change (wrap U64 8) with 8.
  destruct (fread_wide_mn m [] "rc.header." D 0 false fo ps fr) as (v & e' & Efr & Hv). rewrite Efr. clear Efr.
  cbn [bind set_ret]. unfold with_loc. cbn [mem loc pre files ptrs fresh lset]. change (skipn 0 D) with D in *.
  set (k := List.length (firstn 8 D)) in *.
  assert (Hk : k = Nat.min 8 (List.length F)) by (unfold k, D; rewrite firstn_length, map_length; reflexivity).
  (* sum = (int) ... *)
  rewrite exec_seq. nf fuel. rewrite exec_set. cbn [eval bind as_int loc lget String.eqb Ascii.eqb Bool.eqb].
  rewrite (wrap_I32_small (Z.of_nat k)) by lia. unfold with_loc. cbn [mem loc pre files ptrs fresh lset String.eqb Ascii.eqb Bool.eqb].
  (* if (sum != 8) return false *)
  rewrite exec_seq. nf fuel. rewrite exec_if. cbn [eval bind as_int loc lget String.eqb Ascii.eqb Bool.eqb eval_bin].
  unfold magic_ok.
  destruct (Nat.leb_spec 8 (List.length F)) as [H8|H8].
  - assert (Ek : k = 8%nat) by lia. rewrite Ek. change (Z.of_nat 8 =? 8) with true. cbv iota. change (0 =? 0) with true. cbv iota.
    nf fuel. rewrite exec_skip. cbn [bind]. rewrite x_return. cbn [eval bind as_int mem append]. rewrite mget_mset_same.
    rewrite mget_mset_other by discriminate. rewrite Hmg.
    change (load_obj {| o_ty := U64; o_cells := [v] |} U64 0) with (Ok (wrap U64 v) : res Z).
    change (load_obj (cell1 U64 MAGIC) U64 0) with (Ok (wrap U64 MAGIC) : res Z). cbn [bind as_int eval_bin].
    rewrite (Hv Ek). unfold D. rewrite firstn_map.
    rewrite (magic_test (firstn 8 F)) by (first [rewrite firstn_length; lia|apply bytesb_firstn, HFb]).
    cbn [andb]. eexists. eexists. eexists. reflexivity.
  - destruct (Z.eqb_spec (Z.of_nat k) 8) as [E8|_]; [lia|]. cbv iota. change (1 =? 0) with false. cbv iota.
    nf fuel. rewrite x_return. cbn [eval bind andb]. eexists. eexists. eexists. reflexivity.
Qed.

Lemma skipn_nth_consZ : forall (l : list Z) k, (k < List.length l)%nat -> skipn k l = nth k l 0 :: skipn (S k) l.
Proof.
  induction l as [|x l IH]; intros k Hk; cbn [List.length] in Hk; [lia|].
  destruct k as [|k]; [reflexivity|]. cbn [skipn nth]. apply IH. lia.
Qed.
Lemma len1 : forall (l : list Z), List.length l = 1%nat -> l = [nth 0 l 0].
Proof. intros [|x [|y r]] Hl; cbn in Hl; try lia. reflexivity. Qed.
Lemma nth_map_N : forall (F : list N) k, nth k (map Z.of_N F) 0 = Z.of_N (nth k F 0%N).
Proof. intros F k. change 0 with (Z.of_N 0%N) at 1. apply map_nth. Qed.

Lemma checkType_call : forall fuel m l p F pos e fo ps fr c0 h0, (8 <= fuel)%nat ->
  lget ps "rc.header.fp" = Some (VPtr "fin" 0) ->
  mget m "rc.header.ctype" = Some {| o_ty := U8; o_cells := [c0] |} -> mget m "rc.header.htype" = Some {| o_ty := U8; o_cells := [h0] |} ->
  exists c h pos' e', call file_prog vt fuel "FileHeader::checkType/0" "rc.header." [] (St m l p (FS (map Z.of_N F) pos e fo) ps fr) =
     Ok (None, St (mset (mset m "rc.header.ctype" {| o_ty := U8; o_cells := [c] |}) "rc.header.htype" {| o_ty := U8; o_cells := [h] |})
                  l p (FS (map Z.of_N F) pos' e' fo) ps fr) /\
     ((10 <= List.length F)%nat -> c = Z.of_N (nth 8 F 0%N) /\ h = Z.of_N (nth 9 F 0%N)).
Proof.
  intros fuel m l p F pos e fo ps fr c0 h0 Hfuel Hfp Hc Hh.
  unfold call. change (lget file_prog "FileHeader::checkType/0") with (Some Src_fheader.f_FileHeader_checkType_0).
  cbn [f_params f_body Src_fheader.f_FileHeader_checkType_0 bind_params bind mem loc pre files ptrs fresh].
  set (D := map Z.of_N F).
  nf fuel. rewrite exec_seq. nf fuel. rewrite x_prim. cbn [eval_list eval bind pre ptrs append as_int]. rewrite Hfp. cbn [bind as_int].
  change (wrap I64 8) with 8. rewrite fseek_fin by lia. cbn [bind set_ret]. change (Z.to_nat 8) with 8%nat.
  (* fread(&ctype, 1, 1, fp) *)
  rewrite exec_seq. nf fuel. rewrite x_prim. cbn [eval_list eval bind pre ptrs append as_int]. rewrite Hfp. cbn [bind as_int].
  change (wrap U64 1) with 1.
  set (g1 := firstn (Z.to_nat 1) (skipn 8 D)).
  assert (Hg1 : (List.length g1 <= 1)%nat) by (unfold g1; rewrite firstn_length; change (Z.to_nat 1) with 1%nat; lia).
  destruct (fread_bytes m [] "rc.header." D 8 false fo ps fr "rc.header.ctype" 0 1 _ Hc eq_refl ltac:(lia) ltac:(lia)) as [e1 E1].
  { fold g1. cbn [o_cells List.length]. lia. }
  fold g1 in E1. rewrite E1. clear E1. cbn [bind set_ret o_cells]. change (Z.to_nat 0) with 0%nat.
  set (cc := upd_range 0 g1 [c0]).
  assert (Hcc : cc = [nth 0 cc 0]) by (apply len1; unfold cc; rewrite upd_range_length; reflexivity).
  (* fread(&htype, 1, 1, fp) *)
  nf fuel. rewrite x_prim. cbn [eval_list eval bind pre ptrs append as_int]. rewrite Hfp. cbn [bind as_int].
  set (g2 := firstn (Z.to_nat 1) (skipn (8 + List.length g1) D)).
  assert (Hg2 : (List.length g2 <= 1)%nat) by (unfold g2; rewrite firstn_length; change (Z.to_nat 1) with 1%nat; lia).
  destruct (fread_bytes (mset m "rc.header.ctype" {| o_ty := U8; o_cells := cc |}) [] "rc.header." D (8 + List.length g1) e1 fo ps fr "rc.header.htype" 0 1
              {| o_ty := U8; o_cells := [h0] |}) as [e2 E2]; try reflexivity; try lia.
  { rewrite mget_mset_other by discriminate. exact Hh. }
  { fold g2. cbn [o_cells List.length]. lia. }
  fold g2 in E2. change (wrap U64 1) with 1. rewrite E2. clear E2. cbn [bind set_ret o_cells]. change (Z.to_nat 0) with 0%nat.
  set (hh := upd_range 0 g2 [h0]).
  assert (Hhh : hh = [nth 0 hh 0]) by (apply len1; unfold hh; rewrite upd_range_length; reflexivity).
  rewrite Hcc, Hhh. eexists. eexists. eexists. eexists. split; [reflexivity|].
  intro H10. assert (HD : List.length D = List.length F) by apply map_length.
  assert (G1 : g1 = [nth 8 D 0]).
  { unfold g1. rewrite (skipn_nth_consZ D 8) by lia. reflexivity. }
  assert (G2 : g2 = [nth 9 D 0]).
  { unfold g2. rewrite G1. cbn [List.length Nat.add]. rewrite (skipn_nth_consZ D 9) by lia. reflexivity. }
  unfold cc, hh. rewrite G1, G2. cbn [upd_range upd_nth nth]. unfold D. rewrite !nth_map_N. split; reflexivity.
Qed.

Lemma getHmac_call : forall fuel m l p F pos e fo ps fr hc, (10 <= fuel)%nat ->
  lget ps "rc.header.fp" = Some (VPtr "fin" 0) ->
  mget m "rc.header.hash" = Some {| o_ty := U8; o_cells := hc |} -> List.length hc = 64%nat ->
  exists ho pos' e', call file_prog vt fuel "FileHeader::getHmac/1" "rc.header." [VInt 64] (St m l p (FS (map Z.of_N F) pos e fo) ps fr) =
     Ok (Some (if (74 <=? List.length F)%nat then VPtr "rc.header.hash" 0 else VNull),
         St (mset m "rc.header.hash" ho) l p (FS (map Z.of_N F) pos' e' fo) ps fr) /\
     ((74 <= List.length F)%nat -> ho = bytes_object (firstn 64 (skipn 10 F))).
Proof.
  intros fuel m l p F pos e fo ps fr hc Hfuel Hfp Hh Hl.
  unfold call. change (lget file_prog "FileHeader::getHmac/1") with (Some Src_fheader.f_FileHeader_getHmac_1).
  cbn [f_params f_body Src_fheader.f_FileHeader_getHmac_1 bind_params bind mem loc pre files ptrs fresh].
  set (D := map Z.of_N F).
  nf fuel. rewrite exec_seq. nf fuel. rewrite x_prim. cbn [eval_list eval bind pre ptrs append as_int]. rewrite Hfp. cbn [bind as_int].
  change (wrap I64 10) with 10. rewrite fseek_fin by lia. cbn [bind set_ret]. change (Z.to_nat 10) with 10%nat.
  rewrite exec_seq. nf fuel. rewrite x_prim. cbn [eval_list eval bind pre ptrs loc append as_int lget String.eqb Ascii.eqb Bool.eqb]. rewrite Hfp. cbn [bind as_int].
  change (wrap U64 1) with 1. change (wrap U64 64) with 64.
  set (g := firstn (Z.to_nat 64) (skipn 10 D)).
  assert (Hg : List.length g = Nat.min 64 (List.length F - 10)).
  { unfold g, D. rewrite firstn_length, skipn_length, map_length. reflexivity. }
  destruct (fread_bytes m [("len", VInt 64)] "rc.header." D 10 false fo ps fr "rc.header.hash" 0 64 _ Hh eq_refl ltac:(lia) ltac:(lia)) as [e1 E1].
  { fold g. cbn [o_cells]. lia. }
  fold g in E1. rewrite E1. clear E1. cbn [bind set_ret o_cells]. change (Z.to_nat 0) with 0%nat.
  unfold with_loc. cbn [mem loc pre files ptrs fresh lset String.eqb Ascii.eqb Bool.eqb].
  rewrite exec_seq. nf fuel. rewrite exec_set. cbn [eval bind as_int loc lget String.eqb Ascii.eqb Bool.eqb].
  rewrite (wrap_I32_small (Z.of_nat (List.length g))) by lia. unfold with_loc. cbn [mem loc pre files ptrs fresh lset String.eqb Ascii.eqb Bool.eqb].
  rewrite exec_seq. nf fuel. rewrite exec_if. cbn [eval bind as_int loc lget String.eqb Ascii.eqb Bool.eqb eval_bin]. change (wrap I32 64) with 64.
  destruct (Nat.leb_spec 74 (List.length F)) as [H74|H74].
  - assert (Eg : List.length g = 64%nat) by lia. rewrite Eg. change (Z.of_nat 64 =? 64) with true. cbv iota. change (0 =? 0) with true. cbv iota.
    nf fuel. rewrite exec_skip. cbn [bind]. rewrite x_return. cbn [eval bind pre append].
    eexists. eexists. eexists. split; [reflexivity|]. intros _. unfold bytes_object. f_equal.
    rewrite upd_range_split by lia. rewrite Eg. change (firstn 0 hc) with (@nil Z). change (0 + 64)%nat with 64%nat.
    rewrite skipn_all2 by lia. rewrite app_nil_r. change ([] ++ g)%list with g.
    unfold g, D. change (Z.to_nat 64) with 64%nat. rewrite skipn_map, firstn_map. reflexivity.
  - destruct (Z.eqb_spec (Z.of_nat (List.length g)) 64) as [E|_]; [lia|]. cbv iota. change (1 =? 0) with false. cbv iota.
    nf fuel. rewrite x_return. cbn [eval bind]. eexists. eexists. eexists. split; [reflexivity|]. intro. lia.
Qed.

Lemma getctype_call : forall fuel m l p fs ps fr c, (2 <= fuel)%nat ->
  mget m "rc.header.ctype" = Some {| o_ty := U8; o_cells := [c] |} ->
  call file_prog vt fuel "FileHeader::getctype/0" "rc.header." [] (St m l p fs ps fr) = Ok (Some (VInt (wrap U8 c)), St m l p fs ps fr).
Proof.
  intros fuel m l p fs ps fr c Hfuel Hc. unfold call. change (lget file_prog "FileHeader::getctype/0") with (Some Src_fheader.f_FileHeader_getctype_0).
  cbn [f_params f_body Src_fheader.f_FileHeader_getctype_0 bind_params bind mem loc pre files ptrs fresh].
  nf fuel. rewrite x_return. cbn [eval bind mem pre append]. rewrite Hc. reflexivity.
Qed.
Lemma gethtype_call : forall fuel m l p fs ps fr c, (2 <= fuel)%nat ->
  mget m "rc.header.htype" = Some {| o_ty := U8; o_cells := [c] |} ->
  call file_prog vt fuel "FileHeader::gethtype/0" "rc.header." [] (St m l p fs ps fr) = Ok (Some (VInt (wrap U8 c)), St m l p fs ps fr).
Proof.
  intros fuel m l p fs ps fr c Hfuel Hc. unfold call. change (lget file_prog "FileHeader::gethtype/0") with (Some Src_fheader.f_FileHeader_gethtype_0).
  cbn [f_params f_body Src_fheader.f_FileHeader_gethtype_0 bind_params bind mem loc pre files ptrs fresh].
  nf fuel. rewrite x_return. cbn [eval bind mem pre append]. rewrite Hc. reflexivity.
Qed.
End Header.

(* ------------------------------------------------------------------------------------ *)
(** * 4. The runcrypt object after its constructor, and verify()                          *)
(* ------------------------------------------------------------------------------------ *)
Definition rc_mem0 (hbuf : nat) (key : list N) : memory :=
  (file_globals hbuf ++ mk_objects "rc." Src_cry.objects_runcrypt ++ [("key", bytes_object key)])%list.
Definition u8cell (x : Z) : object := {| o_ty := U8; o_cells := [x] |}.
Definition rc_mem1 (hbuf T : nat) (key : list N) (cm hm : Z) : memory :=
  mset (mset (mset (rc_mem0 hbuf key) "rc.header.num" (u8cell (wrap U8 (Z.of_nat T)))) "rc.header.ctype" (u8cell (wrap U8 cm))) "rc.header.htype" (u8cell (wrap U8 hm)).
Definition rc_ptrs0 : list (string * value) :=
  (alloc_plan ++ [("rc.fin", VPtr "fin" 0); ("rc.out", VPtr "fout" 0); ("rc.key", VPtr "key" 0)])%list.
Definition rc_ptrs1 : list (string * value) :=
  lset (lset (lset rc_ptrs0 "rc.header.key" (VPtr "key" 0)) "rc.header.fp" (VPtr "fin" 0)) "rc.header.out" (VPtr "fout" 0).

Lemma ctor_call : forall vt fuel m l p fs fr T cm hm, (10 <= fuel)%nat ->
  (exists x, mget m "rc.header.num" = Some (u8cell x)) -> (exists x, mget m "rc.header.ctype" = Some (u8cell x)) ->
  (exists x, mget m "rc.header.htype" = Some (u8cell x)) ->
  call file_prog vt fuel "FileHeader::FileHeader/6" "rc.header." [VPtr "fin" 0; VPtr "fout" 0; VPtr "key" 0; VInt cm; VInt hm; VInt (Z.of_nat T)]
       (St m l p fs rc_ptrs0 fr) =
  Ok (None, St (mset (mset (mset m "rc.header.num" (u8cell (wrap U8 (Z.of_nat T)))) "rc.header.ctype" (u8cell (wrap U8 cm))) "rc.header.htype" (u8cell (wrap U8 hm)))
               l p fs rc_ptrs1 fr).
Proof.
  intros vt fuel m l p fs fr T cm hm Hfuel (x1 & H1) (x2 & H2) (x3 & H3).
  unfold call. change (lget file_prog "FileHeader::FileHeader/6") with (Some Src_fheader.f_FileHeader_FileHeader_6).
  cbn [f_params f_body Src_fheader.f_FileHeader_FileHeader_6 bind_params bind mem loc pre files ptrs fresh].
  nf fuel. rewrite exec_seq. nf fuel. rewrite x_setptr. cbn [eval bind loc pre append lget String.eqb Ascii.eqb Bool.eqb]. unfold with_ptrs. cbn [mem loc pre files ptrs fresh].
  rewrite exec_seq. nf fuel. rewrite x_store. cbn [eval bind as_int loc pre mem append lget String.eqb Ascii.eqb Bool.eqb]. rewrite H1.
  unfold u8cell at 1. rewrite store_u8 by (cbn; lia). cbn [bind upd_nth Z.to_nat]. unfold with_mem. cbn [mem loc pre files ptrs fresh].
  rewrite exec_seq. nf fuel. rewrite x_store. cbn [eval bind as_int loc pre mem append lget String.eqb Ascii.eqb Bool.eqb].
  rewrite mget_mset_other by discriminate. rewrite H2.
  unfold u8cell at 1. rewrite store_u8 by (cbn; lia). cbn [bind upd_nth Z.to_nat]. unfold with_mem. cbn [mem loc pre files ptrs fresh].
  rewrite exec_seq. nf fuel. rewrite x_store. cbn [eval bind as_int loc pre mem append lget String.eqb Ascii.eqb Bool.eqb].
  rewrite !mget_mset_other by discriminate. rewrite H3.
  unfold u8cell at 1. rewrite store_u8 by (cbn; lia). cbn [bind upd_nth Z.to_nat]. unfold with_mem. cbn [mem loc pre files ptrs fresh].
  rewrite exec_seq. nf fuel. rewrite x_setptr. cbn [eval bind loc pre append lget String.eqb Ascii.eqb Bool.eqb]. unfold with_ptrs. cbn [mem loc pre files ptrs fresh].
  rewrite x_setptr. cbn [eval bind loc pre append lget String.eqb Ascii.eqb Bool.eqb]. unfold with_ptrs. cbn [mem loc pre files ptrs fresh].
  reflexivity.
Qed.

