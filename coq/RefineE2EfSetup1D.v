(* Stage 5, set-up of execute_decrypt (accepting path), FIRST step of the main thread: constructors, entry of execute_decrypt, verify (NAMED premise
   dec_verify_spec), res = 0, prepare_IV/0 (NAMED premise dec_prepare_IV0_spec), FileHeader::getctype, entry of prepare_AES with its fseek, entry of
   buffergroup::get_instance up to its lock: the machine stops in RefineE2EfDecSpec.cs1_dec. *)
From Coq Require Import ZArith NArith List String Bool Lia Ascii Arith.
From Wencry Require Import Bytes AesModel ModesModel HashModel FileSpec FileModel FileProps PipeConc MiniC MiniCLemmas MiniCRun MiniCConc SrcRun SrcRun2 SrcRun5 PipeLemmas RefineE2EWhole.
From Wencry Require Import RefineSeqDefs RefineSeqA RefineSeqB.
From Wencry Require RefineSeq RefineAesLib RefineConcMem.
From Wencry Require Import RefineE2EfLay RefineE2EfMach RefineE2EfMem RefineE2EfTac RefineE2EfWNames RefineE2EfWLay RefineE2EfWStream RefineE2EfWOk
     RefineE2EfTail RefineE2EfEncDefs RefineE2EfHashSpec RefineE2EfHashB3 RefineE2EfSetup1 RefineE2EfSetup2Spec RefineE2EfDecSpec.
From Wencry.Gen Require Src_conc Src_whole Src_fheader.
Import ListNotations.
Local Open Scope list_scope.
Local Open Scope string_scope.

Definition M1dd (c hbuf T : nat) (F key : list N) : memory :=
  (memA_d hbuf F key c T ++ [("live_num", RefineE2EfLay.cell U8 0)] ++ [("#0", mk_object U8 32)])%list.
Definition fs_d (F : list N) (p : nat) (e : bool) : list (string * cfile) :=
  [("fin", {| cf_data := map Z.of_N F; cf_pos := p; cf_eof := e |}); ("fout", stream [] 0)].

(* ---------------- the two named premises (big-step, over call whole_prog) ---------------- *)
Definition dec_verify_spec : Prop :=
  forall (c hbuf T : nat) (F key : list N) (l : locs),
    (1 <= hbuf)%nat -> (N.of_nat (64 * hbuf) < 2 ^ 32)%N -> (1 <= T <= 16)%nat -> block16 key -> bytesb F = true ->
    verify hbuf F key = FileModel.Ok 0%N ->
    exists (fuel h1 : nat) (extra1 : memory) (pextra1 : locs) (p1 : nat) (e1 : bool),
      call whole_prog [] fuel "runcrypt::verify/1" "rc." [VInt (Z.of_nat (List.length F))]
           {| mem := M1 c hbuf T key; loc := l; pre := "rc."; files := FS0 F; ptrs := PS1; fresh := 1 |} =
      Ok (Some (VInt 0), {| mem := (M1dd c hbuf T F key ++ extra1)%list; loc := l; pre := "rc."; files := fs_d F p1 e1; ptrs := (PS1 ++ pextra1)%list; fresh := h1 |}) /\
      (1 <= h1)%nat /\ ext_mem_ok h1 extra1 = true /\ ext_ptr_ok h1 pextra1 = true /\ no_sizeof_names extra1 = true /\ no_alloc_keys pextra1 = true.

Definition dec_prepare_IV0_spec : Prop :=
  forall (c hbuf T : nat) (F key : list N) (l : locs) (h1 : nat) (extra1 : memory) (pextra1 : locs) (p1 : nat) (e1 : bool),
    (1 <= T <= 16)%nat -> bytesb F = true -> (hmac_mark + 64 <= List.length F)%nat ->
    (1 <= h1)%nat -> ext_mem_ok h1 extra1 = true -> ext_ptr_ok h1 pextra1 = true -> no_sizeof_names extra1 = true -> no_alloc_keys pextra1 = true ->
    exists (fuel : nat) (ivo : object) (p2 : nat) (e2 : bool),
      call whole_prog [] fuel "runcrypt::prepare_IV/0" "rc." []
           {| mem := (M1dd c hbuf T F key ++ extra1)%list; loc := l; pre := "rc."; files := fs_d F p1 e1; ptrs := (PS1 ++ pextra1)%list; fresh := h1 |} =
      Ok (Some (VPtr (heap_name h1) 0),
          {| mem := ((M1dd c hbuf T F key ++ extra1) ++ [(heap_name h1, ivo)])%list; loc := l; pre := "rc."; files := fs_d F p2 e2;
             ptrs := (PS1 ++ pextra1)%list; fresh := S h1 |}) /\
      o_ty ivo = U8 /\ (16 <= List.length (o_cells ivo))%nat /\ firstn 16 (o_cells ivo) = map Z.of_N (firstn 16 (skipn 48 F)).

Lemma decmain_wf : forall T, wf_ok whole_prog 40 (construct T (-1) (-1) true) = true.
Proof. intros. vm_compute. reflexivity. Qed.
Definition ver_call : stmt := SCall (Some "$t2") "runcrypt::verify/1" None [EVar "fsize"].
Definition piv0_call : stmt := SCall (Some "$t3") "runcrypt::prepare_IV/0" None [].
Lemma ver_wf : wf_ok whole_prog 40 ver_call = true.
Proof. vm_compute. reflexivity. Qed.
Lemma piv0_wf : wf_ok whole_prog 40 piv0_call = true.
Proof. vm_compute. reflexivity. Qed.

Section PrimStep.
Context {LY : Layout}.
(* a primitive that is not a synchronisation primitive: one big step *)
Lemma m_prim_plain : forall sh l p k stt name args o s1, is_sync_prim name = false ->
  exec prog vt 1 (SPrim None name args) (tst sh l p) = Ok (o, s1) ->
  micro prog vt (mk (SPrim None name args) k l p stt) sh = Ok (cont_conf k (loc s1) p stt, shared_of s1, RNone).
Proof.
  intros sh l p k stt name args o s1 NS H. unfold RefineE2EfLay.mk, micro, cont_conf. cbn [ct_cur ct_k ct_loc ct_pre ct_st].
  change (thread_state sh {| ct_cur := SPrim None name args; ct_k := k; ct_loc := l; ct_pre := p; ct_st := stt |}) with (tst sh l p).
  rewrite NS. rewrite H. cbn [bind]. destruct (next_of k (loc s1) p) as [[[[st' k'] l'] p']|]; reflexivity.
Qed.
End PrimStep.

Lemma below_mono : forall h h' k, (h <= h')%nat -> below h k = true -> below h' k = true.
Proof. intros h h' k L. unfold below. destruct (hnum k) as [m|]; [|reflexivity]. intros H. apply Nat.ltb_lt in H. apply Nat.ltb_lt. lia. Qed.
Lemma ext_mem_ok_mono : forall h h' m, (h <= h')%nat -> ext_mem_ok h m = true -> ext_mem_ok h' m = true.
Proof.
  intros h h' m L H. unfold ext_mem_ok in *. rewrite forallb_forall in *. intros x Hx. specialize (H x Hx).
  rewrite !andb_true_iff in *. destruct H as [[[H1 H2] H3] H4]. repeat split; try assumption. eapply below_mono; eassumption.
Qed.
Lemma ext_ptr_ok_mono : forall h h' m, (h <= h')%nat -> ext_ptr_ok h m = true -> ext_ptr_ok h' m = true.
Proof.
  intros h h' m L H. unfold ext_ptr_ok in *. rewrite forallb_forall in *. intros x Hx. specialize (H x Hx).
  rewrite !andb_true_iff in *. destruct H as [[[[H1 H2] H3] H4] H5]. repeat split; try assumption.
  - eapply below_mono; eassumption.
  - destruct (RefineE2ENames.strip "class:" (fst x)); [eapply below_mono; eassumption|reflexivity].
Qed.

Section FirstD.
Variables (c hbuf T : nat) (F key : list N).
Hypothesis Hh1 : (1 <= hbuf)%nat.
Hypothesis Hh32 : (N.of_nat (64 * hbuf) < 2 ^ 32)%N.
Hypothesis HT : (1 <= T <= 16)%nat.
Hypothesis Hkey : block16 key.
Hypothesis HF : bytesb F = true.
Hypothesis Hver : verify hbuf F key = FileModel.Ok 0%N.
Hypothesis Hlen : (hmac_mark + 64 <= List.length F)%nat.
Hypothesis Hct : (nth 8 F 0%N < 256)%N.
Hypothesis D1 : dec_verify_spec.
Hypothesis D2 : dec_prepare_IV0_spec.

Local Instance LYD : Layout := wlayout (PWdec hbuf T F key 0 "" [] [] CBC_Dec).
Let cs0 := whole_init WDec c hbuf T (-1) (-1) F key [].

Lemma dec_first_exr : exists (h n : nat) (ivo : object) (extra : memory) (pextra : locs),
  (n < h)%nat /\ (1 <= n)%nat /\ mget extra (heap_name n) = Some ivo /\ o_ty ivo = U8 /\ (16 <= List.length (o_cells ivo))%nat /\
  firstn 16 (o_cells ivo) = map Z.of_N (firstn 16 (skipn 48 F)) /\
  ext_mem_ok h extra = true /\ ext_ptr_ok h pextra = true /\ no_sizeof_names extra = true /\ no_alloc_keys pextra = true /\
  exists Fu, cstep whole_prog [] Fu cs0 0 = Ok (cs1_dec c hbuf T F key h n extra pextra, []).
Proof.
  set (fsz := Z.of_nat (List.length F)).
  set (l1 := [("fsize", VInt fsz)]).
  destruct (D1 c hbuf T F key l1 Hh1 Hh32 HT Hkey HF Hver) as (fV & h1 & extra1 & pextra1 & p1 & e1 & EV & Hh1' & Hx1 & Hp1 & Hs1 & Ha1).
  set (l2 := lset (lset l1 "$t2" (VInt 0)) "res" (VInt 0)).
  destruct (D2 c hbuf T F key l2 h1 extra1 pextra1 p1 e1 HT HF Hlen Hh1' Hx1 Hp1 Hs1 Ha1) as (fI & ivo & p2 & e2 & EI & Hty & Hl16 & Hiv16).
  exists (S h1), h1, ivo, (extra1 ++ [(heap_name h1, ivo)])%list, pextra1.
  split; [lia|]. split; [exact Hh1'|].
  split. { rewrite RefineConcMem.mget_app. unfold ext_mem_ok in Hx1.
           assert (Hb : forallb (fun kv => below h1 (fst kv)) extra1 = true).
           { rewrite forallb_forall in *. intros x Hx. specialize (Hx1 x Hx). rewrite !andb_true_iff in Hx1. tauto. }
           rewrite (mget_below h1 extra1 (heap_name h1) h1 Hb (hnum_heap h1) (le_n _)). cbn [mget]. rewrite String.eqb_refl. reflexivity. }
  split; [exact Hty|]. split; [exact Hl16|]. split; [exact Hiv16|].
  split. { unfold ext_mem_ok. rewrite forallb_app. apply andb_true_iff. split; [apply (ext_mem_ok_mono h1 (S h1)); [lia|exact Hx1]|].
           cbn [forallb fst]. unfold below. rewrite hnum_heap. replace (h1 <? S h1)%nat with true by (symmetry; apply Nat.ltb_lt; lia). reflexivity. }
  split; [apply (ext_ptr_ok_mono h1 (S h1)); [lia|exact Hp1]|].
  split. { unfold no_sizeof_names in *. rewrite forallb_app. apply andb_true_iff. split; [exact Hs1|]. reflexivity. }
  split; [exact Ha1|].
  set (ivn := heap_name h1) in *.
  set (MV := (M1dd c hbuf T F key ++ extra1)%list) in *.
  set (PV := (PS1 ++ pextra1)%list) in *.
  pose proof (construct_run c hbuf T F key) as Ecs.
  set (callee := SCall (Some "result") "runcrypt::execute_decrypt/1" (Some (EField "rc.")) [EConst fsz]).
  set (s0 := whole_state c hbuf T (-1) (-1) true F key []) in *.
  destruct (RefineSeq.sim whole_prog [] _ _ _ _ _ _ (decmain_wf T) Ecs (KSeq callee KStop) TRun ltac:(discriminate)) as [n0 MS0].
  (* verify *)
  set (sA := {| mem := M1 c hbuf T key; loc := l1; pre := "rc."; files := FS0 F; ptrs := PS1; fresh := 1 |}) in *.
  set (sB := {| mem := MV; loc := lset l1 "$t2" (VInt 0); pre := "rc."; files := fs_d F p1 e1; ptrs := PV; fresh := h1 |}).
  assert (EexV : exec whole_prog [] (S fV) ver_call sA = Ok (Normal, sB)).
  { unfold ver_call. eapply (RefineAesLib.x_call whole_prog [] fV (Some "$t2") "runcrypt::verify/1" None [EVar "fsize"] sA [VInt fsz] "rc."); [reflexivity | reflexivity | exact EV | reflexivity]. }
  set (Kres := KCall (Some "result") [] "" KStop).
  set (Kv := KSeq (s_snd (s_snd ed_body)) Kres).
  destruct (RefineSeq.sim whole_prog [] _ _ _ _ _ _ ver_wf EexV Kv TRun ltac:(discriminate)) as [nV MSV].
  (* prepare_IV/0 *)
  set (sC := {| mem := MV; loc := l2; pre := "rc."; files := fs_d F p1 e1; ptrs := PV; fresh := h1 |}) in *.
  set (l3 := lset l2 "$t3" (VPtr ivn 0)).
  set (sD := {| mem := (MV ++ [(ivn, ivo)])%list; loc := l3; pre := "rc."; files := fs_d F p2 e2; ptrs := PV; fresh := S h1 |}).
  assert (EexI : exec whole_prog [] (S fI) piv0_call sC = Ok (Normal, sD)).
  { unfold piv0_call. eapply (RefineAesLib.x_call whole_prog [] fI (Some "$t3") "runcrypt::prepare_IV/0" None [] sC [] "rc."); [reflexivity | reflexivity | exact EI | reflexivity]. }
  set (Kt := KSeq (s_snd ed_then) (KSeq ed_after Kres)).
  destruct (RefineSeq.sim whole_prog [] _ _ _ _ _ _ piv0_wf EexI Kt TRun ltac:(discriminate)) as [nI MSI].
  set (t0 := RefineE2EfLay.mk (SSeq (construct T (-1) (-1) true) callee) KStop [] "" TRun).
  assert (HX : exists B, exr 0 B true t0 (C (shared_of s0) [t0] []) [] (cs1_dec c hbuf T F key (S h1) h1 (extra1 ++ [(ivn, ivo)])%list pextra1, [])).
  { exists (S (n0 + (5 + (nV + (5 + (nI + 60))))))%nat.
    eapply r_none; [discriminate | left; reflexivity | apply m_seq | ].
    eapply (@leads_mstar LYD 0 _ _ _ _ _ [t0] [] [] MS0).
    cbn [cont_conf next_of loc pre S1]. change (pre s0) with "".
    eapply r_none; [discriminate | right; reflexivity | | ].
    { eapply (m_call _ _ _ _ _ (Some "result") "runcrypt::execute_decrypt/1" (Some (EField "rc.")) [EConst fsz] [VInt fsz] "rc." Src_whole.f_runcrypt_execute_decrypt_1 l1); reflexivity. }
    cbn [f_body Src_whole.f_runcrypt_execute_decrypt_1].
    eapply r_none; [discriminate | right; reflexivity | apply m_seq | ].
    eapply r_none; [discriminate | right; reflexivity | eapply m_if with (x := 0%Z); reflexivity | cbn [Z.eqb]].
    eapply r_none; [discriminate | right; reflexivity | apply m_skip | cbn [cont_conf next_of]].
    eapply r_none; [discriminate | right; reflexivity | apply m_seq | ].
    eapply (@leads_mstar LYD 0 _ _ _ _ _ [t0] [] [] MSV).
    cbv [Kv s_snd ed_body f_body Src_whole.f_runcrypt_execute_decrypt_1]. cbn [cont_conf next_of loc pre sA sB].
    eapply r_none; [discriminate | right; reflexivity | apply m_seq | ].
    eapply r_none; [discriminate | right; reflexivity | eapply m_set with (v := VInt 0); reflexivity | cbn [cont_conf next_of]].
    eapply r_none; [discriminate | right; reflexivity | apply m_seq | ].
    eapply r_none; [discriminate | right; reflexivity | eapply m_if with (x := 1%Z); reflexivity | cbn [Z.eqb]].
    eapply r_none; [discriminate | right; reflexivity | apply m_seq | ].
    eapply (@leads_mstar LYD 0 _ _ _ _ _ [t0] [] [] MSI).
    cbv [Kt s_snd s_fst s_then ed_then ed_body f_body Src_whole.f_runcrypt_execute_decrypt_1]. cbn [cont_conf next_of loc pre sC sD].
    eapply r_none; [discriminate | right; reflexivity | apply m_seq | ].
    eapply r_none; [discriminate | right; reflexivity | eapply m_set with (v := VPtr ivn 0); reflexivity | cbn [cont_conf next_of]].
    eapply r_none; [discriminate | right; reflexivity | apply m_seq | ].
    eapply r_none; [discriminate | right; reflexivity | | ].
    { eapply (m_call _ _ _ _ _ (Some "$t5") "FileHeader::getctype/0" (Some (EField "header.")) [] [] "rc.header." Src_fheader.f_FileHeader_getctype_0 []); reflexivity. }
    cbn [f_body Src_fheader.f_FileHeader_getctype_0].
    eapply r_none; [discriminate | right; reflexivity | | ].
    { eapply m_return with (v := VInt (Z.of_N (nth 8 F 0%N))); [ | reflexivity | reflexivity].
      cbn [eval tst pre mem shared_of append bind sD].
      replace (mget (MV ++ [(ivn, ivo)])%list "rc.header.ctype") with (Some (RefineE2EfLay.cell U8 (Z.of_N (nth 8 F 0%N)))) by reflexivity.
      rewrite load_cell. cbn [bind]. rewrite wrap_U8_small by lia. reflexivity. }
    cbn [loc with_loc tst set_ret lset].
    eapply r_none; [discriminate | right; reflexivity | apply m_skip | cbn [cont_conf next_of]].
    eapply r_none; [discriminate | right; reflexivity | apply m_seq | ].
    eapply r_none; [discriminate | right; reflexivity | | ].
    { eapply (m_call _ _ _ _ _ (Some "$t4") "runcrypt::prepare_AES/3" None [EVar "$t5"; EVar "iv"; EConst 0]
                [VInt (Z.of_N (nth 8 F 0%N)); VPtr ivn 0; VInt 0] "rc." Src_whole.f_runcrypt_prepare_AES_3 (pa_locs1d F ivn)); reflexivity. }
    cbn [f_body Src_whole.f_runcrypt_prepare_AES_3].
    eapply r_none; [discriminate | right; reflexivity | apply m_seq | ].
    eapply r_none; [discriminate | right; reflexivity | eapply m_if with (x := 1%Z); reflexivity | cbn [Z.eqb]].
    set (sE := {| mem := (MV ++ [(ivn, ivo)])%list; loc := pa_locs1d F ivn; pre := "rc."; files := F1d T F; ptrs := PV; fresh := S h1 |}).
    eapply r_none; [discriminate | right; reflexivity | | ].
    { eapply (m_prim_plain _ _ _ _ _ "fseek" _ Normal sE); [reflexivity|].
      cbn [exec eval_list eval tst loc pre mem ptrs shared_of sD append bind].
      replace (lget PV "rc.fin") with (Some (VPtr "fin" 0)) by reflexivity.
      replace (mget (MV ++ [(ivn, ivo)])%list "rc.threads_num") with (Some (RefineE2EfLay.cell U8 (Z.of_nat T))) by reflexivity.
      rewrite load_cell. cbn [bind as_int]. rewrite wrap_U8_small by lia. rewrite wrap_I32_small by lia.
      cbn [eval_bin bind]. rewrite arith_I32_small by lia. cbn [bind as_int]. rewrite arith_I32_small by lia. cbn [bind as_int].
      rewrite wrap_I64_small by lia. cbn [bind].
      unfold do_prim. cbn [String.eqb Ascii.eqb Bool.eqb].
      replace ((48 + 20 * Z.of_nat T <? 0)%Z || (2 ^ 40 <? 48 + 20 * Z.of_nat T)%Z) with false
        by (symmetry; apply orb_false_iff; split; apply Z.ltb_ge; lia).
      cbn [stream_of bind files tst shared_of sD fs_d lget String.eqb Ascii.eqb Bool.eqb lset cf_data set_ret with_files mem loc pre ptrs fresh].
      unfold sE, F1d. assert (Etm : text_mark T = (48 + 20 * T)%nat) by reflexivity. rewrite Etm. replace (Z.to_nat (48 + 20 * Z.of_nat T)) with (48 + 20 * T)%nat by lia. reflexivity. }
    cbn [cont_conf next_of loc sE].
    eapply r_none; [discriminate | right; reflexivity | apply m_seq | ].
    eapply r_none; [discriminate | right; reflexivity | | ].
    { eapply (m_call _ _ _ _ _ (Some "$t1") "buffergroup::get_instance/0" None [] [] "rc." Src_conc.f_buffergroup_get_instance_0 []); reflexivity. }
    cbn [f_body Src_conc.f_buffergroup_get_instance_0].
    eapply r_none; [discriminate | right; reflexivity | apply m_seq | ].
    eapply r_none; [discriminate | right; reflexivity | eapply m_if with (x := 1%Z); reflexivity | cbn [Z.eqb]].
    eapply r_none; [discriminate | right; reflexivity | apply m_seq | ].
    eapply r_stop; [discriminate | reflexivity | ].
    assert (Emem : (MV ++ [(ivn, ivo)])%list = A0d c hbuf T F key (extra1 ++ [(ivn, ivo)])%list)
      by (unfold MV, M1dd, A0d; rewrite <- !app_assoc; reflexivity).
    unfold sE. rewrite Emem. reflexivity. }
  destruct HX as [B HX].
  destruct (cstep_run B (shared_of s0) [t0] 0 t0 _ eq_refl eq_refl eq_refl HX) as (Fu & _ & HFu).
  exists Fu. exact HFu.
Qed.

Lemma dec_first_step : exists (h n : nat) (ivo : object) (extra : memory) (pextra : locs),
  (n < h)%nat /\ (1 <= n)%nat /\ mget extra (heap_name n) = Some ivo /\ o_ty ivo = U8 /\ (16 <= List.length (o_cells ivo))%nat /\
  firstn 16 (o_cells ivo) = map Z.of_N (firstn 16 (skipn 48 F)) /\
  ext_mem_ok h extra = true /\ ext_ptr_ok h pextra = true /\ no_sizeof_names extra = true /\ no_alloc_keys pextra = true /\
  let cs1 := cs1_dec c hbuf T F key h n extra pextra in
  enabled_list cs0 = [O] /\ enabled_list cs1 = [O] /\
  forall fuel, cstep whole_prog [] fuel cs0 0 = NoFuel \/ cstep whole_prog [] fuel cs0 0 = Ok (cs1, []).
Proof.
  destruct dec_first_exr as (h & n & ivo & extra & pextra & H1 & H1b & H2 & H3 & H4 & H5 & H6 & H7 & H8 & H9 & Fu & HFu).
  exists h, n, ivo, extra, pextra. repeat (split; [assumption|]). cbv zeta.
  split; [reflexivity|]. split; [reflexivity|].
  intros fuel. exact (@cstep_total LYD Fu cs0 0 _ HFu fuel).
Qed.
End FirstD.

Check dec_first_step.
Print Assumptions dec_first_step.
