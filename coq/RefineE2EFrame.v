(* Two general facts about [exec]:
   - functions linked IN FRONT of a program do not change a run that never looks them up (SrcRun5.whole_prog = ... ++ file_prog);
   - code that (with everything it can call) contains no fwrite and sets only pointer members whose names are not suffixes of the
     given keys leaves the data of every stream and the given pointer members unchanged. *)
From Coq Require Import ZArith NArith List String Bool Lia Ascii Arith.
From Wencry Require Import MiniC MiniCLemmas RefineE2ENames RefineE2ERel RefineE2EEval.
Import ListNotations.
Local Open Scope list_scope.
Local Open Scope string_scope.

(* ---------------- linking in front ---------------- *)
Section Front.
Variable front prog : program.
Variable vtab : list (string * string).
Hypothesis Hdisj : forall g fn, lget prog g = Some fn -> lget front g = None.

Lemma lget_front : forall g fn, lget prog g = Some fn -> lget (front ++ prog)%list g = Some fn.
Proof. intros g fn H. rewrite lget_app, (Hdisj g fn H). exact H. Qed.

Lemma exec_prog_front : forall fuel st s r, exec prog vtab fuel st s = Ok r -> exec (front ++ prog)%list vtab fuel st s = Ok r.
Proof.
  induction fuel as [|fuel IH]; intros st s r H; [discriminate|].
  assert (CALL : forall ret fname pfx vs r0,
    match lget prog fname with
    | None => UB ("no function " ++ fname)%string
    | Some f => do l <- bind_params (f_params f) vs;
                do r1 <- exec prog vtab fuel (f_body f) {| mem := mem s; loc := l; pre := pfx; files := files s; ptrs := ptrs s; fresh := fresh s |};
                let '(o, s1) := r1 in
                do s2 <- set_ret {| mem := mem s1; loc := loc s; pre := pre s; files := files s1; ptrs := ptrs s1; fresh := fresh s1 |} ret
                                 (match o with Returned v => v | _ => None end);
                Ok (Normal, s2)
    end = Ok r0 ->
    match lget (front ++ prog)%list fname with
    | None => UB ("no function " ++ fname)%string
    | Some f => do l <- bind_params (f_params f) vs;
                do r1 <- exec (front ++ prog)%list vtab fuel (f_body f) {| mem := mem s; loc := l; pre := pfx; files := files s; ptrs := ptrs s; fresh := fresh s |};
                let '(o, s1) := r1 in
                do s2 <- set_ret {| mem := mem s1; loc := loc s; pre := pre s; files := files s1; ptrs := ptrs s1; fresh := fresh s1 |} ret
                                 (match o with Returned v => v | _ => None end);
                Ok (Normal, s2)
    end = Ok r0).
  { intros ret fname pfx vs r0 Hc. destruct (lget prog fname) as [f|] eqn:L; [|discriminate]. rewrite (lget_front _ _ L).
    apply bind_Ok in Hc. destruct Hc as [l [Hl Hc]]. rewrite Hl. cbn [bind].
    apply bind_Ok in Hc. destruct Hc as [r1 [Hr1 Hc]]. rewrite (IH _ _ _ Hr1). cbn [bind]. exact Hc. }
  destruct st; cbn [exec] in H |- *; try exact H.
  - apply bind_Ok in H. destruct H as [[o s1] [H1 H2]]. rewrite (IH _ _ _ H1). cbn [bind]. destruct o; auto.
  - apply bind_Ok in H. destruct H as [cv [Hc H]]. rewrite Hc. cbn [bind].
    apply bind_Ok in H. destruct H as [x [Hx H]]. rewrite Hx. cbn [bind]. destruct (x =? 0)%Z; auto.
  - apply bind_Ok in H. destruct H as [cv [Hc H]]. rewrite Hc. cbn [bind].
    apply bind_Ok in H. destruct H as [x [Hx H]]. rewrite Hx. cbn [bind]. destruct (x =? 0)%Z; auto.
    apply bind_Ok in H. destruct H as [[o s1] [H1 H]]. rewrite (IH _ _ _ H1). cbn [bind].
    destruct o; auto.
    apply bind_Ok in H. destruct H as [[o2 s2] [H2 H]]. rewrite (IH _ _ _ H2). cbn [bind].
    destruct o2; auto.
  - apply bind_Ok in H. destruct H as [[o s1] [H1 H]]. rewrite (IH _ _ _ H1). cbn [bind].
    destruct o; auto.
    apply bind_Ok in H. destruct H as [cv [Hc H]]. rewrite Hc. cbn [bind].
    apply bind_Ok in H. destruct H as [x [Hx H]]. rewrite Hx. cbn [bind]. destruct (x =? 0)%Z; auto.
  - apply bind_Ok in H. destruct H as [vs [Hv H]]. rewrite Hv. cbn [bind].
    apply bind_Ok in H. destruct H as [pfx [Hp H]]. rewrite Hp. cbn [bind]. apply CALL. exact H.
  - apply bind_Ok in H. destruct H as [vs [Hv H]]. rewrite Hv. cbn [bind].
    apply bind_Ok in H. destruct H as [pfx [Hp H]]. rewrite Hp. cbn [bind].
    destruct (lget vtab pfx); [apply CALL; exact H|].
    destruct (lget (ptrs s) (class_key pfx)) as [[z|cls off|]|]; try discriminate. apply CALL. exact H.
  - apply bind_Ok in H. destruct H as [vs [Hv H]]. rewrite Hv. cbn [bind].
    match goal with |- context [negb ?b] => destruct (negb b) end; [exact H|].
    destruct ctor as [fname|]; [|exact H].
    destruct (lget prog fname) as [f|] eqn:L; [|discriminate]. rewrite (lget_front _ _ L).
    apply bind_Ok in H. destruct H as [l [Hl H]]. rewrite Hl. cbn [bind].
    apply bind_Ok in H. destruct H as [r1 [Hr1 H]]. rewrite (IH _ _ _ Hr1). cbn [bind]. exact H.
Qed.

Lemma call_prog_front : forall fuel f pfx vs s r, call prog vtab fuel f pfx vs s = Ok r -> call (front ++ prog)%list vtab fuel f pfx vs s = Ok r.
Proof.
  unfold call. intros fuel f pfx vs s r H. destruct (lget prog f) as [fn|] eqn:L; [|discriminate]. rewrite (lget_front _ _ L).
  apply bind_Ok in H. destruct H as [l [Hl H]]. rewrite Hl. cbn [bind].
  apply bind_Ok in H. destruct H as [r1 [H1 H]]. rewrite (exec_prog_front _ _ _ _ H1). cbn [bind]. exact H.
Qed.
End Front.

(* ---------------- what a run leaves alone ---------------- *)
Fixpoint has_suffix (sfx name : string) : bool :=
  String.eqb name sfx || match name with EmptyString => false | String _ r => has_suffix sfx r end.
Lemma has_suffix_app : forall p sfx, has_suffix sfx (p ++ sfx) = true.
Proof.
  induction p as [|c p IH]; intro sfx; cbn [append].
  - destruct sfx; cbn [has_suffix]; rewrite String.eqb_refl; reflexivity.
  - cbn [has_suffix]. rewrite IH. apply orb_true_r.
Qed.
Lemma lget_In : forall A (l : list (string * A)) k v, lget l k = Some v -> In (k, v) l.
Proof.
  induction l as [|[k' v'] r IH]; intros k v H; cbn in H; [discriminate|].
  destruct (String.eqb_spec k k') as [->|Hne]; [injection H as <-; left; reflexivity|right; apply IH, H].
Qed.

Section Frame.
Variable prog : program.
Variable vt : list (string * string).
Variable FL : list string.
Variable Keys : list string.

Definition fvirt (m : string) : bool := forallb (fun nf : string * func => if has_suffix ("::" ++ m) (fst nf) then inb (fst nf) FL else true) prog.
Fixpoint fok (st : stmt) : bool :=
  match st with
  | SSeq a b => fok a && fok b
  | SIf _ a b => fok a && fok b
  | SLoop _ a b => fok a && fok b
  | SDoWhile a _ => fok a
  | SCall _ g _ _ => inb g FL
  | SCallVirt _ m _ _ => fvirt m
  | SNewObj _ _ _ (Some g) _ => inb g FL
  | SPrim _ name _ => inb name ["fread"; "fseek"]
  | SSetPtr (EField f) _ => forallb (fun k => negb (has_suffix f k)) Keys
  | SSetPtr _ _ => false
  | SSetPtrCell _ _ | SNewObjArr _ _ _ _ => false
  | _ => true
  end.
Hypothesis HFL : forall g fn, In g FL -> lget prog g = Some fn -> fok (f_body fn) = true.
Hypothesis HK : forall k, In k Keys -> strip "class:" k = None.

Definition fdata (s : state) (n : string) : option (list Z) := option_map cf_data (lget (files s) n).
Definition Fr (s s' : state) : Prop := (forall n, fdata s' n = fdata s n) /\ (forall k, In k Keys -> lget (ptrs s') k = lget (ptrs s) k).
Lemma Fr_refl : forall s, Fr s s.
Proof. intro s. split; auto. Qed.
Lemma Fr_trans : forall a b c, Fr a b -> Fr b c -> Fr a c.
Proof. intros a b c [A1 A2] [B1 B2]. split; intros; [rewrite B1, A1|rewrite B2, A2]; auto. Qed.
Lemma Fr_same : forall s s', files s' = files s -> ptrs s' = ptrs s -> Fr s s'.
Proof. intros s s' Hf Hp. unfold Fr, fdata. rewrite Hf, Hp. split; auto. Qed.

Lemma memcpy_io : forall s d sr n s', do_memcpy s d sr n = Ok s' -> files s' = files s /\ ptrs s' = ptrs s.
Proof.
  intros s d sr n s' H. unfold do_memcpy in H. destruct d as [|od offd|]; try discriminate. destruct sr as [|os offs|]; try discriminate.
  destruct (mget (mem s) od); [|discriminate]. destruct (mget (mem s) os); [|discriminate].
  repeat match type of H with (if ?c then _ else _) = _ => destruct c; [discriminate|] end. injection H as <-. auto.
Qed.
Lemma memset_io : forall s d v n s', do_memset s d v n = Ok s' -> files s' = files s /\ ptrs s' = ptrs s.
Proof.
  intros s d v n s' H. unfold do_memset in H. destruct d as [|od offd|]; try discriminate.
  destruct (mget (mem s) od); [|discriminate].
  repeat match type of H with (if ?c then _ else _) = _ => destruct c; [discriminate|] end. injection H as <-. auto.
Qed.
Lemma fdata_lset : forall fs k f f', lget fs k = Some f -> cf_data f' = cf_data f ->
  forall n, option_map cf_data (lget (lset fs k f') n) = option_map cf_data (lget fs n).
Proof.
  intros fs k f f' H Hd n. destruct (String.eqb_spec n k) as [->|Hne].
  - rewrite lget_lset_same, H. cbn. now rewrite Hd.
  - rewrite lget_lset_other by congruence. reflexivity.
Qed.
Lemma prim_io : forall s name vs v s', inb name ["fread"; "fseek"] = true -> do_prim s name vs = Ok (v, s') -> Fr s s'.
Proof.
  intros s name vs v s' K H. unfold inb in K. cbn [existsb] in K. rewrite orb_false_r in K. apply orb_prop in K.
  destruct K as [K|K]; apply String.eqb_eq in K; subst name; unfold do_prim in H; cbn [String.eqb Ascii.eqb Bool.eqb andb] in H.
  - destruct vs as [|[z|od offd|] vs]; try discriminate H.
    destruct vs as [|[z1|?|] vs]; try discriminate H. destruct z1 as [|[p|p|]|]; try discriminate H.
    destruct vs as [|[n|?|] vs]; try discriminate H. destruct vs as [|fp vs]; try discriminate H. destruct vs; try discriminate H.
    apply bind_Ok in H. destruct H as [fname [E0 H]].
    destruct (lget (files s) fname) as [f|] eqn:Ef; [|discriminate]. destruct (mget (mem s) od) as [bd|]; [|discriminate].
    destruct (negb (ity_bytes (o_ty bd) =? 1)%Z).
    + repeat match type of H with (if ?c then _ else _) = _ => destruct c; [discriminate|] end. injection H as _ <-.
      split; [|reflexivity]. intro n0. unfold fdata. cbn [with_files with_mem files]. eapply fdata_lset; [exact Ef|reflexivity].
    + repeat match type of H with (if ?c then _ else _) = _ => destruct c; [discriminate|] end. injection H as _ <-.
      split; [|reflexivity]. intro n0. unfold fdata. cbn [with_files with_mem files]. eapply fdata_lset; [exact Ef|reflexivity].
  - destruct vs as [|fp vs]; try discriminate H. destruct vs as [|[off|?|] vs]; try discriminate H.
    destruct vs as [|[z|?|] vs]; try discriminate H. destruct z; try discriminate H. destruct vs; try discriminate H.
    apply bind_Ok in H. destruct H as [fname [E0 H]].
    destruct (lget (files s) fname) as [f|] eqn:Ef; [|discriminate].
    match type of H with (if ?c then _ else _) = _ => destruct c; [discriminate|] end. injection H as _ <-.
    split; [|reflexivity]. intro n0. unfold fdata. cbn [with_files files]. eapply fdata_lset; [exact Ef|reflexivity].
Qed.
Lemma set_ret_io : forall s ret v s2, set_ret s ret v = Ok s2 -> files s2 = files s /\ ptrs s2 = ptrs s.
Proof. intros s ret v s2 H. unfold set_ret in H. destruct ret; [destruct v; [|discriminate]|]; injection H as <-; auto. Qed.

Theorem frame : forall fuel st s o s', fok st = true -> exec prog vt fuel st s = Ok (o, s') -> Fr s s'.
Proof.
  induction fuel as [|fuel IH]; intros st s o s' K H; [discriminate H|].
  assert (CALL : forall ret g pfx vs o0 s0, In g FL ->
    match lget prog g with
    | None => UB ("no function " ++ g)%string
    | Some f => do l <- bind_params (f_params f) vs;
                do r1 <- exec prog vt fuel (f_body f) {| mem := mem s; loc := l; pre := pfx; files := files s; ptrs := ptrs s; fresh := fresh s |};
                let '(o, s1) := r1 in
                do s2 <- set_ret {| mem := mem s1; loc := loc s; pre := pre s; files := files s1; ptrs := ptrs s1; fresh := fresh s1 |} ret
                                 (match o with Returned v => v | _ => None end);
                Ok (Normal, s2)
    end = Ok (o0, s0) -> Fr s s0).
  { intros ret g pfx vs o0 s0 Hg Hc. destruct (lget prog g) as [fn|] eqn:L; [|discriminate Hc].
    bo Hc as l El. bo Hc as r1 E1. destruct r1 as [o1 s1]. bo Hc as s2 E2. injection Hc as _ <-.
    pose proof (IH _ _ _ _ (HFL g fn Hg L) E1) as F1. destruct (set_ret_io _ _ _ _ E2) as [A B]. cbn [files ptrs] in A, B.
    destruct F1 as [F1 F2]. unfold Fr, fdata in *. cbn [files ptrs] in F1, F2. rewrite A, B. split; assumption. }
  destruct st; cbn [fok] in K; try discriminate K; cbn [exec] in H.
  - injection H as _ <-. apply Fr_refl.
  - apply andb_prop in K. destruct K as [K1 K2]. bo H as r1 E1. destruct r1 as [o1 s1]. pose proof (IH _ _ _ _ K1 E1) as F1.
    destruct o1; [eapply Fr_trans; [exact F1|eapply IH; eassumption]|injection H as _ <-; exact F1|injection H as _ <-; exact F1].
  - bo H as v Ev. injection H as _ <-. apply Fr_same; reflexivity.
  - bo H as pv Ep. bo H as ev Ee. bo H as z Ez. destruct pv as [|ob off|]; try discriminate H. destruct (mget (mem s) ob); [|discriminate H].
    bo H as ob' Es. injection H as _ <-. apply Fr_same; reflexivity.
  - apply andb_prop in K. destruct K as [K1 K2]. bo H as cv Ec. bo H as x Ex. destruct (x =? 0)%Z; [eapply IH; [exact K2|exact H]|eapply IH; [exact K1|exact H]].
  - pose proof K as K0. apply andb_prop in K. destruct K as [K1 K2]. bo H as cv Ec. bo H as x Ex.
    destruct (x =? 0)%Z; [injection H as _ <-; apply Fr_refl|].
    bo H as r1 E1. destruct r1 as [o1 s1]. pose proof (IH _ _ _ _ K1 E1) as F1.
    destruct o1; [|injection H as _ <-; exact F1|injection H as _ <-; exact F1].
    bo H as r2 E2. destruct r2 as [o2 s2]. pose proof (IH _ _ _ _ K2 E2) as F2. destruct o2; try discriminate H.
    eapply Fr_trans; [exact F1|]. eapply Fr_trans; [exact F2|]. eapply (IH (SLoop c st1 st2)); [exact K0|exact H].
  - bo H as r1 E1. destruct r1 as [o1 s1]. pose proof (IH _ _ _ _ K E1) as F1.
    destruct o1; [|injection H as _ <-; exact F1|injection H as _ <-; exact F1].
    bo H as cv Ec. bo H as x Ex. destruct (x =? 0)%Z; [injection H as _ <-; exact F1|].
    eapply Fr_trans; [exact F1|]. eapply (IH (SDoWhile st c)); [exact K|exact H].
  - injection H as _ <-. apply Fr_refl.
  - destruct e; [bo H as v Ev|]; injection H as _ <-; apply Fr_refl.
  - bo H as vs Evs. bo H as pfx Epf. eapply CALL; [apply inb_In, K|exact H].
  - bo H as vs Evs. bo H as pfx Epf.
    assert (Hv : forall cls fn, lget prog (cls ++ "::" ++ m) = Some fn -> In (cls ++ "::" ++ m) FL).
    { intros cls fn L. unfold fvirt in K. rewrite forallb_forall in K. specialize (K _ (lget_In _ _ _ _ L)). cbn [fst] in K.
      rewrite (has_suffix_app cls ("::" ++ m)) in K. apply inb_In, K. }
    destruct (lget vt pfx) as [cls|].
    + destruct (lget prog (cls ++ "::" ++ m)) as [fn|] eqn:L; [|discriminate H]. eapply (CALL ret (cls ++ "::" ++ m)); [eapply Hv, L|rewrite L; exact H].
    + destruct (lget (ptrs s) (class_key pfx)) as [[z|cls off|]|]; try discriminate H.
      destruct (lget prog (cls ++ "::" ++ m)) as [fn|] eqn:L; [|discriminate H]. eapply (CALL ret (cls ++ "::" ++ m)); [eapply Hv, L|rewrite L; exact H].
  - bo H as dv Ed. bo H as sv Es. bo H as nv En. bo H as k Ek. bo H as s1 Em. injection H as _ <-.
    destruct (memcpy_io _ _ _ _ _ Em). apply Fr_same; assumption.
  - bo H as dv Ed. bo H as vv Ev. bo H as x Ex. bo H as nv En. bo H as k Ek. bo H as s1 Em. injection H as _ <-.
    destruct (memset_io _ _ _ _ _ Em). apply Fr_same; assumption.
  - injection H as _ <-. apply Fr_same; reflexivity.
  - bo H as nv En. bo H as k Ek. destruct (k <? 0)%Z; [discriminate H|]. injection H as _ <-. apply Fr_same; reflexivity.
  - bo H as pv Ep. injection H as _ <-. apply Fr_refl.
  - bo H as vs Evs. bo H as r Er. destruct r as [v s1]. bo H as s2 E2. injection H as _ <-.
    pose proof (prim_io _ _ _ _ _ K Er) as F1. destruct (set_ret_io _ _ _ _ E2) as [A B].
    eapply Fr_trans; [exact F1|apply Fr_same; assumption].
  - destruct p; try discriminate K. bo H as pv Ep. bo H as ev Ee. cbn [eval] in Ep. injection Ep as <-. injection H as _ <-.
    split; [intro n; reflexivity|]. intros k Hk. cbn [with_ptrs ptrs]. apply lget_lset_other.
    rewrite forallb_forall in K. specialize (K k Hk). apply negb_true_iff in K. intro E0. rewrite <- E0, has_suffix_app in K. discriminate.
  - bo H as vs Evs.
    match type of H with (if negb ?b then _ else _) = _ => destruct (negb b); [discriminate H|] end.
    assert (Hck : forall name k, In k Keys -> class_key name <> k).
    { intros name k Hk E0. unfold class_key in E0. pose proof (HK k Hk) as Hs. rewrite <- E0, strip_app in Hs. discriminate. }
    destruct ctor as [g|]; [|injection H as _ <-; split; [intro n; reflexivity|intros k Hk; cbn [ptrs]; apply lget_lset_other, Hck, Hk]].
    destruct (lget prog g) as [fn|] eqn:L; [|discriminate H]. bo H as l El. bo H as r1 E1. destruct r1 as [o1 s1]. injection H as _ <-.
    pose proof (IH _ _ _ _ (HFL g fn (proj1 (inb_In _ _) K) L) E1) as [F1 F2]. unfold Fr, fdata in *. cbn [files ptrs] in *.
    split; [exact F1|]. intros k Hk. rewrite (F2 k Hk). apply lget_lset_other, Hck, Hk.
Qed.
End Frame.
