(* Whole-file operations from TRANSLATED source only: runcrypt::execute_encrypt / execute_decrypt / execute_verify (Gen/Src_whole.v)
   linked with the translated buffer hand-over protocol and worker threads (Gen/Src_conc.v, hooks on), the cipher-mode classes and
   their factory (Gen/Src_aesmode.v, Src_aes.v), the header / HMAC code (Gen/Src_fheader.v, Src_cry.v) and the three hash classes,
   run under the thread semantics MiniCConc with a scheduler given as a function (a deterministic policy with a seed).

   Nothing of the operation is hand-written: the caller's part (what harness/drv.cpp op_enc / op_decver do) is two constructor
   calls, Settings st(cm, hm, no_echo); runcrypt rc(fin, fout, key, st, T); both constructors are translated (runcrypt's takes
   Settings by value: the callee receives the address of the caller's object and may only read it -- tools/cgen.py rejects anything
   else; its implicit member-wise copy goes through generated accessors). *)
From Coq Require Import ZArith NArith List String Bool.
From Wencry Require Import Bytes MiniC MiniCRun MiniCConc SrcRun SrcRun2.
From Wencry.Gen Require Src_aes Src_aesmode Src_conc Src_cry Src_fheader Src_whole.
Import ListNotations.
Local Open Scope Z_scope.
Local Open Scope string_scope.
Local Open Scope list_scope.

Definition whole_prog : program :=
  Src_whole.functions ++ Src_conc.functions ++ Src_aes.functions ++ Src_aesmode.functions ++ file_prog.

(* c = blocks per chunk buffer (BUF_SZ), hbuf = 64-byte blocks of the hash refill buffer (HBUF_SZ).
   The state has two layers.  The PROCESS layer is what a process image holds between operations: constants, the statics
   bufferctrl::live_num and buffergroup::instance, whatever heap objects are left, the heap counter.  The OPERATION layer is what a
   caller supplies for one operation: the runcrypt object, key, seed and the two streams (harness/drv.cpp op_enc / op_decver). *)
Definition process_init (c hbuf : nat) : state :=
  {| mem := file_globals hbuf ++ Src_aes.globals
            ++ [("sum", cell U32 (16 * Z.of_nat c)); ("sizeof:iobuffer.b", cell U32 (16 * Z.of_nat c)); ("live_num", cell U8 0)];
     loc := []; pre := ""; files := []; ptrs := [("instance", VNull)]; fresh := 0 |}.

Definition names_of {A} (l : list (string * A)) : list string := map fst l.
Definition without {A} (names : list string) (l : list (string * A)) : list (string * A) :=
  filter (fun kv => negb (existsb (String.eqb (fst kv)) names)) l.

Definition op_layer (prev : state) (F key extra : list N) : state :=
  let m := mk_objects "rc." Src_cry.objects_runcrypt ++ mk_objects "st." Src_whole.objects_Settings
           ++ [("key", bytes_object key); ("seed", bytes_object (extra ++ [0%N]))] in
  let ps := [("rc.fin", VNull); ("rc.out", VNull); ("rc.key", VNull)] in
  {| mem := m ++ without (names_of m) (mem prev);
     loc := []; pre := "";
     files := [("fin", stream F 0); ("fout", stream [] 0)];
     ptrs := ps ++ without (names_of ps) (ptrs prev);
     fresh := fresh prev |}.

Definition whole_state (c hbuf T : nat) (cm hm : Z) (no_echo : bool) (F key extra : list N) : state :=
  op_layer (process_init c hbuf) F key extra.

(* Settings st(cm, hm, no_echo); runcrypt rc(fin, fout, key, st, T); *)
Definition construct (T : nat) (cm hm : Z) (no_echo : bool) : stmt :=
  SSeq (SCall None "Settings::Settings/3" (Some (EField "st.")) [ECast I8 (EConst cm); ECast I8 (EConst hm); EConst (if no_echo then 1 else 0)])
       (SCall None "runcrypt::runcrypt/5" (Some (EField "rc."))
              [EGlobal "fin"; EGlobal "fout"; EGlobal "key"; EField "st."; EConst (Z.of_nat T)]).

Inductive whole_op := WEnc | WDec | WVer.
Definition whole_main (op : whole_op) (T : nat) (cm hm : Z) (no_echo : bool) (fsize : Z) : stmt :=
  SSeq (construct T cm hm no_echo)
       (match op with
        | WEnc => SCall (Some "result") "runcrypt::execute_encrypt/2" (Some (EField "rc.")) [EConst fsize; EGlobal "seed"]
        | WDec => SCall (Some "result") "runcrypt::execute_decrypt/1" (Some (EField "rc.")) [EConst fsize]
        | WVer => SCall (Some "result") "runcrypt::execute_verify/1" (Some (EField "rc.")) [EConst fsize]
        end).

Definition whole_init_from (prev : state) (op : whole_op) (T : nat) (cm hm : Z) (F key extra : list N) : cstate :=
  {| cs_sh := op_layer prev F key extra;
     cs_thr := [{| ct_cur := whole_main op T cm hm true (Z.of_nat (List.length F)); ct_k := KStop; ct_loc := []; ct_pre := ""; ct_st := TRun |}];
     cs_mx := [] |}.
Definition whole_init (op : whole_op) (c hbuf T : nat) (cm hm : Z) (F key extra : list N) : cstate :=
  whole_init_from (process_init c hbuf) op T cm hm F key extra.

(* ---- a scheduler as a function: at every scheduling point the (seed-dependent) k-th enabled thread; no spurious wake-ups ---- *)
Definition enabled_list (cs : cstate) : list nat := filter (enabled cs) (seq 0 (List.length (cs_thr cs))).
Definition lcg (x : N) : N := ((x * 6364136223846793005 + 1442695040888963407) mod 18446744073709551616)%N.

(* a unary number built by tail-recursive doubling: the extracted program must not recurse 10^5 deep to build its fuel *)
Fixpoint dbl_acc (n acc : nat) : nat := match n with O => acc | S m => dbl_acc m (S (S acc)) end.
Fixpoint nat_of_pos_tr (p : positive) : nat :=
  match p with xH => 1%nat | xO q => dbl_acc (nat_of_pos_tr q) O | xI q => S (dbl_acc (nat_of_pos_tr q) O) end.
Definition nat_of_N_tr (n : N) : nat := match n with N0 => O | Npos p => nat_of_pos_tr p end.

Inductive whole_res := WDone (cs : cstate) (steps : nat) | WDeadlock (steps : nat) | WSteps | WErr (w : string).

Fixpoint auto_run_with (prog : program) (n : nat) (fuel : nat) (rnd : N) (cs : cstate) (steps : nat) : whole_res :=
  match n with
  | O => WSteps
  | S n' =>
      match enabled_list cs with
      | [] => if forallb (fun t => match ct_st t with TDone => true | _ => false end) (cs_thr cs) then WDone cs steps else WDeadlock steps
      | l =>
          let rnd' := lcg rnd in
          let k := if N.eqb rnd 0 then O else N.to_nat ((rnd' / 4294967296) mod N.of_nat (List.length l))%N in
          let tid := nth k l O in
          match cstep prog [] fuel cs tid with
          | Ok (cs1, _) => auto_run_with prog n' fuel rnd' cs1 (S steps)
          | UB w => WErr ("UB: " ++ w)
          | NoFuel => WErr "out of fuel"
          end
      end
  end.

Definition auto_run := auto_run_with whole_prog.

Definition main_result (cs : cstate) : option Z :=
  match nth_error (cs_thr cs) 0 with
  | Some t => match lget (ct_loc t) "result" with Some (VInt z) => Some z | _ => None end
  | None => None
  end.
Definition out_bytes (cs : cstate) : list N :=
  match lget (files (cs_sh cs)) "fout" with Some f => map Z.to_N (cf_data f) | None => [] end.
Definition in_bytes (cs : cstate) : list N :=
  match lget (files (cs_sh cs)) "fin" with Some f => map Z.to_N (cf_data f) | None => [] end.

(* result of a whole-file operation: (returned bool, bytes of the output stream, bytes of the input stream afterwards, steps) *)
Definition run_from (prev : state) (op : whole_op) (c T : nat) (cm hm : Z) (F key extra : list N) (rnd : N)
  : sres (cstate * (bool * list N * list N * nat)) :=
  let n := List.length F in
  let fuel := nat_of_N_tr (400000 + 40000 * N.of_nat T + 3000 * N.of_nat c + 400 * N.of_nat n)%N in   (* statements of one thread step *)
  let steps := (2000 + 200 * T + 40 * (n / (16 * c) + 1) * (T + 2))%nat in
  match auto_run steps fuel rnd (whole_init_from prev op T cm hm F key extra) O with
  | WDone cs k =>
      match main_result cs with
      | Some z => SOk (cs, (negb (Z.eqb z 0), out_bytes cs, in_bytes cs, k))
      | None => SErr "no result"
      end
  | WDeadlock k => SErr "DEADLOCK"
  | WSteps => SErr "step bound reached"
  | WErr w => SErr w
  end.
Definition src_whole (op : whole_op) (c hbuf T : nat) (cm hm : Z) (F key extra : list N) (rnd : N)
  : sres (bool * list N * list N * nat) :=
  match run_from (process_init c hbuf) op c T cm hm F key extra rnd with SOk (_, r) => SOk r | SErr w => SErr w end.

(* a HISTORY of operations in one process image: every operation starts from the process layer the previous one left behind *)
Record hist_op := { h_op : whole_op; h_T : nat; h_cm : Z; h_hm : Z; h_F : list N; h_key : list N; h_extra : list N }.
Fixpoint src_history_from (prev : state) (c : nat) (ops : list hist_op) (rnd : N) : list (sres (bool * list N * list N * nat)) :=
  match ops with
  | [] => []
  | o :: r =>
      match run_from prev (h_op o) c (h_T o) (h_cm o) (h_hm o) (h_F o) (h_key o) (h_extra o) rnd with
      | SOk (cs, res) => SOk res :: src_history_from (cs_sh cs) c r (lcg rnd)
      | SErr w => [SErr w]                           (* the process image is gone (undefined behaviour, deadlock): the history ends *)
      end
  end.
Definition src_history (c hbuf : nat) (ops : list hist_op) (rnd : N) := src_history_from (process_init c hbuf) c ops rnd.

(* the successive contents of the output stream: one snapshot after every machine step that changed it (a crash can only leave
   what some moment of the run had written; the order of the writes is the program's) *)
Fixpoint auto_run_snap (prog : program) (n : nat) (fuel : nat) (rnd : N) (cs : cstate) (last : list N) (acc : list (list N))
  : sres (list (list N)) :=
  match n with
  | O => SErr "step bound reached"
  | S n' =>
      match enabled_list cs with
      | [] => if forallb (fun t => match ct_st t with TDone => true | _ => false end) (cs_thr cs) then SOk (rev acc) else SErr "DEADLOCK"
      | l =>
          let rnd' := lcg rnd in
          let k := if N.eqb rnd 0 then O else N.to_nat ((rnd' / 4294967296) mod N.of_nat (List.length l))%N in
          match cstep prog [] fuel cs (nth k l O) with
          | Ok (cs1, _) =>
              let now := out_bytes cs1 in
              if Nat.eqb (List.length now) (List.length last) && forallb (fun p : N * N => N.eqb (fst p) (snd p)) (combine now last)
              then auto_run_snap prog n' fuel rnd' cs1 last acc
              else auto_run_snap prog n' fuel rnd' cs1 now (now :: acc)
          | UB w => SErr ("UB: " ++ w)
          | NoFuel => SErr "out of fuel"
          end
      end
  end.
Definition src_encrypt_snapshots (c hbuf T : nat) (cm hm : N) (plain key seed : list N) (rnd : N) : sres (list (list N)) :=
  let n := List.length plain in
  let fuel := nat_of_N_tr (400000 + 40000 * N.of_nat T + 3000 * N.of_nat c + 400 * N.of_nat n)%N in
  let steps := (2000 + 200 * T + 40 * (n / (16 * c) + 1) * (T + 2))%nat in
  auto_run_snap whole_prog steps fuel rnd (whole_init WEnc c hbuf T (Z.of_N cm) (Z.of_N hm) plain key seed) [] [].

Definition src_encrypt_file (c hbuf T : nat) (cm hm : N) (plain key seed : list N) (rnd : N) :=
  src_whole WEnc c hbuf T (Z.of_N cm) (Z.of_N hm) plain key seed rnd.
(* decrypt / verify are constructed with Settings(-1, -1, .) : the modes come from the file *)
Definition src_decrypt_file (c hbuf T : nat) (F key : list N) (rnd : N) := src_whole WDec c hbuf T (-1) (-1) F key [] rnd.
Definition src_verify_file (c hbuf T : nat) (F key : list N) (rnd : N) := src_whole WVer c hbuf T (-1) (-1) F key [] rnd.
