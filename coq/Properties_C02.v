(* C02 -- the encrypted file equals the documented format built from standard primitives.
   Only statements; every proof is one [exact] of a lemma of FileProofsEnc. *)
From Wencry Require Import Bytes FileModel FileSpec FileProps FileProofsEnc.
Local Open Scope N_scope.

(* the file written by encryption is, byte for byte, the independent specification wenc_spec
   (magic, mode bytes, RFC 2104 tag at 10 zero-filled to 48, chained SHA-1 IVs, PKCS#7-padded
   plaintext in the NIST mode under the first 16 IV bytes, chunks dealt round-robin to T
   continuous streams) and has the documented length -- for every chunk size c >= 1 *)
Theorem C02_encrypted_file_is_documented_format : forall c hbuf T P key seed cm hm,
  enc_params c hbuf T P key seed cm hm ->
  exists F, enc c hbuf T P key cm hm seed = Ok F /\
            wenc_spec c T P key cm hm seed = Some F /\
            length F = wenc_length T (length P).
Proof. exact C02_encrypted_file_is_documented_format_proof. Qed.
Print Assumptions C02_encrypted_file_is_documented_format.

(* the write sequence of encryption: one sequential stream (header, IVs, body), then the tag *)
Theorem C02_write_sequence : forall c hbuf T P key seed cm hm,
  enc_params c hbuf T P key seed cm hm ->
  exists stream tag, enc_writes c hbuf T P key cm hm seed = Ok [(0%nat, stream); (10%nat, tag)] /\
    length tag = hlen hm /\ length stream = wenc_length T (length P) /\
    firstn (hlen hm) (skipn 10 stream) = zeros (hlen hm).
Proof. exact C02_write_sequence_proof. Qed.
Print Assumptions C02_write_sequence.
