(* A simulation lemma for the pointer-free fragment of MiniC the translated base64 routines live in:
   a run on a four-object memory ("b64_tab", "hex_tab", "in", "out") is reproduced on any memory that holds the same
   objects under the names "b64_tab", "hex_tab", a, b; everything else in the big memory is left alone. *)
From Coq Require Import ZArith NArith List String Bool Lia.
From Wencry Require Import MiniC MiniCLemmas.
Import ListNotations.
Local Open Scope Z_scope.
Local Open Scope string_scope.
Local Open Scope list_scope.

Definition sim_fns : list string := ["is_base64/1"; "is_valid_b64/2"; "base64_to_hex/3"].

Fixpoint ok_e (e : expr) : bool :=
  match e with
  | EConst _ | EVar _ | ENull => true
  | EGlobal g => negb (String.eqb g "in") && negb (String.eqb g "out")
  | ELoad _ p => ok_e p
  | EPtrAdd p _ i => ok_e p && ok_e i
  | EUn _ _ x => ok_e x
  | EBin _ _ x y => ok_e x && ok_e y
  | ECast _ x => ok_e x
  | ECond c x y => ok_e c && ok_e x && ok_e y
  | EAnd x y | EOr x y => ok_e x && ok_e y
  | EIsNull p => ok_e p
  | _ => false
  end.
Fixpoint ok_s (st : stmt) : bool :=
  match st with
  | SSkip | SBreak | SReturn None => true
  | SReturn (Some e) => ok_e e
  | SSeq x y => ok_s x && ok_s y
  | SSet _ e => ok_e e
  | SStore _ p e => ok_e p && ok_e e
  | SIf c x y => ok_e c && ok_s x && ok_s y
  | SLoop c x y => ok_e c && ok_s x && ok_s y
  | SCall _ g None args => existsb (String.eqb g) sim_fns && forallb ok_e args
  | SPrim _ name args => String.eqb name "isalnum" && forallb ok_e args
  | _ => false
  end.

Definition alnumz (c : Z) : Z := (if ((48 <=? c) && (c <=? 57)) || ((65 <=? c) && (c <=? 90)) || ((97 <=? c) && (c <=? 122)) then 1 else 0)%Z.
Definition mem4 (o1 o2 o3 o4 : object) : memory := [("b64_tab", o1); ("hex_tab", o2); ("in", o3); ("out", o4)].

Section Sim.
Variable prog : program.
Variable vt : list (string * string).
Variable a b : string.
Hypothesis Hab : a <> b.
Hypothesis Ha1 : a <> "b64_tab".
Hypothesis Ha2 : a <> "hex_tab".
Hypothesis Hb1 : b <> "b64_tab".
Hypothesis Hb2 : b <> "hex_tab".
Hypothesis Hfns : forall g, In g sim_fns -> exists fn, lget prog g = Some fn /\ ok_s (f_body fn) = true.

Definition rn (k : string) : string := if String.eqb k "in" then a else if String.eqb k "out" then b else k.
Definition vmap (v : value) : value := match v with VPtr o off => VPtr (rn o) off | _ => v end.
Definition lmap (l : list (string * value)) : list (string * value) := map (fun xv => (fst xv, vmap (snd xv))) l.

Definition MRel (m M : memory) : Prop :=
  exists o1 o2 o3 o4, m = mem4 o1 o2 o3 o4 /\ mget M "b64_tab" = Some o1 /\ mget M "hex_tab" = Some o2 /\ mget M a = Some o3 /\ mget M b = Some o4.
Definition SRel (s S : state) : Prop := loc S = lmap (loc s) /\ MRel (mem s) (mem S).
Definition omap (o : outcome) : outcome := match o with Returned (Some v) => Returned (Some (vmap v)) | _ => o end.
Definition is4 (K : string) : Prop := K = "b64_tab" \/ K = "hex_tab" \/ K = a \/ K = b.

Lemma lget_lmap : forall l x, lget (lmap l) x = option_map vmap (lget l x).
Proof. induction l as [|[k v] r IH]; intros x; cbn; [reflexivity|]. destruct (String.eqb x k); auto. Qed.
Lemma lset_lmap : forall l x v, lmap (lset l x v) = lset (lmap l) x (vmap v).
Proof. induction l as [|[k v0] r IH]; intros x v; cbn; [reflexivity|]. destruct (String.eqb x k); cbn; [reflexivity|]. now rewrite IH. Qed.

Lemma mem4_get : forall o1 o2 o3 o4 k o, mget (mem4 o1 o2 o3 o4) k = Some o ->
  (k = "b64_tab" /\ o = o1) \/ (k = "hex_tab" /\ o = o2) \/ (k = "in" /\ o = o3) \/ (k = "out" /\ o = o4).
Proof.
  intros o1 o2 o3 o4 k o H. unfold mem4 in H. cbn [mget] in H.
  destruct (String.eqb_spec k "b64_tab") as [->|N1]; [left; split; congruence|].
  destruct (String.eqb_spec k "hex_tab") as [->|N2]; [right; left; split; congruence|].
  destruct (String.eqb_spec k "in") as [->|N3]; [right; right; left; split; congruence|].
  destruct (String.eqb_spec k "out") as [->|N4]; [right; right; right; split; congruence|]. discriminate.
Qed.

Lemma mrel_get : forall m M k o, MRel m M -> mget m k = Some o -> mget M (rn k) = Some o /\ is4 (rn k).
Proof.
  intros m M k o (o1 & o2 & o3 & o4 & -> & H1 & H2 & H3 & H4) H.
  apply mem4_get in H. unfold is4. destruct H as [[-> ->]|[[-> ->]|[[-> ->]|[-> ->]]]]; cbn; auto 6.
Qed.
Lemma mrel_set : forall m M k o o', MRel m M -> mget m k = Some o -> MRel (mset m k o') (mset M (rn k) o').
Proof.
  intros m M k o o' (o1 & o2 & o3 & o4 & -> & H1 & H2 & H3 & H4) H.
  assert (Nba : b <> a) by congruence.
  assert (N1a : "b64_tab" <> a) by congruence. assert (N2a : "hex_tab" <> a) by congruence.
  assert (N1b : "b64_tab" <> b) by congruence. assert (N2b : "hex_tab" <> b) by congruence.
  apply mem4_get in H. destruct H as [[-> ->]|[[-> ->]|[[-> ->]|[-> ->]]]]; cbn.
  - exists o', o2, o3, o4. rewrite mget_mset_same, !mget_mset_other by (assumption || discriminate). auto.
  - exists o1, o', o3, o4. rewrite mget_mset_same, !mget_mset_other by (assumption || discriminate). auto.
  - exists o1, o2, o', o4. rewrite mget_mset_same, !mget_mset_other by (assumption || discriminate). auto.
  - exists o1, o2, o3, o'. rewrite mget_mset_same, !mget_mset_other by (assumption || discriminate). auto.
Qed.

Lemma as_int_vmap : forall v, as_int (vmap v) = as_int v.
Proof. destruct v; reflexivity. Qed.

Lemma eval_sim : forall s S e v, SRel s S -> ok_e e = true -> eval s e = Ok v -> eval S e = Ok (vmap v).
Proof.
  intros s S e v [HL HM]. revert v.
  induction e; intros v Hok H; cbn [ok_e] in Hok; try discriminate; cbn [eval] in H |- *;
    repeat match goal with Hk : _ && _ = true |- _ => apply andb_true_iff in Hk; destruct Hk end.
  - inversion H; reflexivity.
  - rewrite HL, lget_lmap. destruct (lget (loc s) x); [|discriminate]. inversion H; reflexivity.
  - inversion H; subst. cbn [vmap]. unfold rn.
    apply negb_true_iff in H0. apply negb_true_iff in H1. now rewrite H0, H1.
  - apply bind_Ok in H. destruct H as [pv [Hp H]]. rewrite (IHe _ Hok Hp). cbn [bind].
    destruct pv as [z|o off|]; try discriminate. cbn [vmap].
    destruct (mget (mem s) o) as [ob|] eqn:Hm; [|discriminate].
    destruct (mrel_get _ _ _ _ HM Hm) as [Hm' _]. rewrite Hm'.
    apply bind_Ok in H. destruct H as [z [Hz H]]. rewrite Hz. cbn [bind]. inversion H; reflexivity.
  - apply bind_Ok in H. destruct H as [pv [Hp H]]. rewrite (IHe1 _ H0 Hp). cbn [bind].
    apply bind_Ok in H. destruct H as [iv [Hi H]]. rewrite (IHe2 _ H1 Hi). cbn [bind]. rewrite as_int_vmap.
    apply bind_Ok in H. destruct H as [n [Hn H]]. rewrite Hn. cbn [bind].
    destruct pv as [z|o off|]; try discriminate. inversion H; reflexivity.
  - apply bind_Ok in H. destruct H as [av [Ha H]]. rewrite (IHe _ Hok Ha). cbn [bind]. rewrite as_int_vmap.
    apply bind_Ok in H. destruct H as [x [Hx H]]. rewrite Hx. cbn [bind].
    apply bind_Ok in H. destruct H as [z [Hz H]]. rewrite Hz. cbn [bind]. inversion H; reflexivity.
  - apply bind_Ok in H. destruct H as [av [Ha H]]. rewrite (IHe1 _ H0 Ha). cbn [bind]. rewrite as_int_vmap.
    apply bind_Ok in H. destruct H as [x [Hx H]]. rewrite Hx. cbn [bind].
    apply bind_Ok in H. destruct H as [bv [Hb H]]. rewrite (IHe2 _ H1 Hb). cbn [bind]. rewrite as_int_vmap.
    apply bind_Ok in H. destruct H as [y [Hy H]]. rewrite Hy. cbn [bind].
    apply bind_Ok in H. destruct H as [z [Hz H]]. rewrite Hz. cbn [bind]. inversion H; reflexivity.
  - apply bind_Ok in H. destruct H as [av [Ha H]]. rewrite (IHe _ Hok Ha). cbn [bind]. rewrite as_int_vmap.
    apply bind_Ok in H. destruct H as [x [Hx H]]. rewrite Hx. cbn [bind]. inversion H; reflexivity.
  - apply bind_Ok in H. destruct H as [cv [Hc H]]. rewrite (IHe1 _ H0 Hc). cbn [bind]. rewrite as_int_vmap.
    apply bind_Ok in H. destruct H as [x [Hx H]]. rewrite Hx. cbn [bind]. destruct (Z.eqb x 0); auto.
  - apply bind_Ok in H. destruct H as [av [Ha H]]. rewrite (IHe1 _ H0 Ha). cbn [bind]. rewrite as_int_vmap.
    apply bind_Ok in H. destruct H as [x [Hx H]]. rewrite Hx. cbn [bind]. destruct (Z.eqb x 0); [inversion H; reflexivity|].
    apply bind_Ok in H. destruct H as [bv [Hb H]]. rewrite (IHe2 _ H1 Hb). cbn [bind]. rewrite as_int_vmap.
    apply bind_Ok in H. destruct H as [y [Hy H]]. rewrite Hy. cbn [bind]. inversion H; reflexivity.
  - apply bind_Ok in H. destruct H as [av [Ha H]]. rewrite (IHe1 _ H0 Ha). cbn [bind]. rewrite as_int_vmap.
    apply bind_Ok in H. destruct H as [x [Hx H]]. rewrite Hx. cbn [bind]. destruct (Z.eqb x 0); [|inversion H; reflexivity].
    apply bind_Ok in H. destruct H as [bv [Hb H]]. rewrite (IHe2 _ H1 Hb). cbn [bind]. rewrite as_int_vmap.
    apply bind_Ok in H. destruct H as [y [Hy H]]. rewrite Hy. cbn [bind]. inversion H; reflexivity.
  - apply bind_Ok in H. destruct H as [pv [Hp H]]. rewrite (IHe _ Hok Hp). cbn [bind].
    destruct pv; cbn [vmap]; try discriminate; inversion H; reflexivity.
  - inversion H; reflexivity.
Qed.

Lemma eval_list_sim : forall s S es vs, SRel s S -> forallb ok_e es = true -> eval_list s es = Ok vs -> eval_list S es = Ok (map vmap vs).
Proof.
  intros s S es. induction es as [|e r IH]; intros vs HR Hok H; cbn [eval_list] in *.
  - inversion H; reflexivity.
  - cbn [forallb] in Hok. apply andb_true_iff in Hok. destruct Hok as [Ho1 Ho2].
    apply bind_Ok in H. destruct H as [v [Hv H]]. rewrite (eval_sim _ _ _ _ HR Ho1 Hv). cbn [bind].
    apply bind_Ok in H. destruct H as [vs' [Hvs H]]. rewrite (IH _ HR Ho2 Hvs). cbn [bind]. inversion H; reflexivity.
Qed.

Lemma bind_params_sim : forall ps vs l, bind_params ps vs = Ok l -> bind_params ps (map vmap vs) = Ok (lmap l).
Proof.
  induction ps as [|p ps IH]; intros [|v vs] l H; cbn [bind_params map] in *; try discriminate.
  - inversion H; reflexivity.
  - apply bind_Ok in H. destruct H as [r [Hr H]]. rewrite (IH _ _ Hr). cbn [bind]. inversion H; reflexivity.
Qed.

Definition Post (S S' : state) : Prop :=
  pre S' = pre S /\ files S' = files S /\ ptrs S' = ptrs S /\ fresh S' = fresh S /\
  (forall K, ~ is4 K -> mget (mem S') K = mget (mem S) K).
Lemma Post_refl : forall S, Post S S.
Proof. intros S. repeat split. Qed.
Lemma Post_trans : forall S1 S2 S3, Post S1 S2 -> Post S2 S3 -> Post S1 S3.
Proof.
  intros S1 S2 S3 (A1 & A2 & A3 & A4 & A5) (B1 & B2 & B3 & B4 & B5). repeat split; try congruence.
  intros K HK. rewrite B5, A5; auto.
Qed.

Lemma exec_sim : forall fuel st s S o s', ok_s st = true -> SRel s S -> exec prog vt fuel st s = Ok (o, s') ->
  exists S', exec prog vt fuel st S = Ok (omap o, S') /\ SRel s' S' /\ Post S S'.
Proof.
  induction fuel as [|fuel IH]; intros st s S o s' Hok HR H; [discriminate|].
  destruct st; cbn [ok_s] in Hok; try discriminate; cbn [exec] in H |- *;
    repeat match goal with Hk : _ && _ = true |- _ => apply andb_true_iff in Hk; destruct Hk end.
  - (* SSkip *) inversion H; subst. exists S. auto using Post_refl.
  - (* SSeq *)
    apply bind_Ok in H. destruct H as [[o1 s1] [E1 H]].
    destruct (IH _ _ _ _ _ H0 HR E1) as (S1 & X1 & R1 & P1). rewrite X1. cbn [bind].
    destruct o1 as [| |[v|]].
    + destruct (IH _ _ _ _ _ H1 R1 H) as (S2 & X2 & R2 & P2). cbn [omap]. exists S2. eauto using Post_trans.
    + inversion H; subst. exists S1. auto.
    + inversion H; subst. exists S1. auto.
    + inversion H; subst. exists S1. auto.
  - (* SSet *)
    apply bind_Ok in H. destruct H as [v [Hv H]]. rewrite (eval_sim _ _ _ _ HR Hok Hv). cbn [bind]. inversion H; subst.
    eexists. split; [reflexivity|]. split; [|repeat split].
    destruct HR as [HL HM]. split; [cbn [with_loc loc]; now rewrite HL, lset_lmap|exact HM].
  - (* SStore *)
    apply bind_Ok in H. destruct H as [pv [Hp H]]. rewrite (eval_sim _ _ _ _ HR H0 Hp). cbn [bind].
    apply bind_Ok in H. destruct H as [ev [He H]]. rewrite (eval_sim _ _ _ _ HR H1 He). cbn [bind]. rewrite as_int_vmap.
    apply bind_Ok in H. destruct H as [z [Hz H]]. rewrite Hz. cbn [bind].
    destruct pv as [z0|ob off|]; try discriminate. cbn [vmap].
    destruct (mget (mem s) ob) as [obj|] eqn:Hm; [|discriminate].
    destruct HR as [HL HM]. destruct (mrel_get _ _ _ _ HM Hm) as [Hm' H4]. rewrite Hm'.
    apply bind_Ok in H. destruct H as [obj' [Hst H]]. rewrite Hst. cbn [bind]. inversion H; subst.
    eexists. split; [reflexivity|]. split.
    + split; [exact HL|]. cbn [with_mem mem]. eapply mrel_set; eauto.
    + repeat split. intros K HK. cbn [with_mem mem]. apply mget_mset_other. intros E. apply HK. now rewrite <- E.
  - (* SIf *)
    apply bind_Ok in H. destruct H as [cv [Hc H]]. rewrite (eval_sim _ _ _ _ HR H0 Hc). cbn [bind]. rewrite as_int_vmap.
    apply bind_Ok in H. destruct H as [x [Hx H]]. rewrite Hx. cbn [bind]. destruct (Z.eqb x 0); eauto.
  - (* SLoop *)
    apply bind_Ok in H. destruct H as [cv [Hc H]]. rewrite (eval_sim _ _ _ _ HR H0 Hc). cbn [bind]. rewrite as_int_vmap.
    apply bind_Ok in H. destruct H as [x [Hx H]]. rewrite Hx. cbn [bind]. destruct (Z.eqb x 0).
    { inversion H; subst. exists S. auto using Post_refl. }
    apply bind_Ok in H. destruct H as [[o1 s1] [E1 H]].
    destruct (IH _ _ _ _ _ H2 HR E1) as (S1 & X1 & R1 & P1). rewrite X1. cbn [bind].
    destruct o1 as [| |[v|]].
    + apply bind_Ok in H. destruct H as [[o2 s2] [E2 H]].
      destruct (IH _ _ _ _ _ H1 R1 E2) as (S2 & X2 & R2 & P2). cbn [omap]. rewrite X2. cbn [bind].
      destruct o2; try discriminate. cbn [omap].
      assert (Hl : ok_s (SLoop c st1 st2) = true) by (cbn [ok_s]; now rewrite H0, H2, H1).
      destruct (IH _ _ _ _ _ Hl R2 H) as (S3 & X3 & R3 & P3). exists S3. eauto using Post_trans.
    + inversion H; subst. exists S1. auto.
    + inversion H; subst. exists S1. auto.
    + inversion H; subst. exists S1. auto.
  - (* SBreak *) inversion H; subst. exists S. auto using Post_refl.
  - (* SReturn *)
    destruct e as [e|].
    + apply bind_Ok in H. destruct H as [v [Hv H]]. rewrite (eval_sim _ _ _ _ HR Hok Hv). cbn [bind]. inversion H; subst.
      exists S. auto using Post_refl.
    + inversion H; subst. exists S. auto using Post_refl.
  - (* SCall *)
    destruct this; [discriminate|].
    apply andb_true_iff in Hok. destruct Hok as [Hg Ha].
    apply existsb_exists in Hg. destruct Hg as [g [Hin Hg]]. apply String.eqb_eq in Hg. subst g.
    destruct (Hfns _ Hin) as (fn & Hfn & Hbody).
    apply bind_Ok in H. destruct H as [vs [Hvs H]]. rewrite (eval_list_sim _ _ _ _ HR Ha Hvs). cbn [bind].
    cbn [this_prefix bind] in H |- *. rewrite Hfn in H |- *.
    apply bind_Ok in H. destruct H as [l [Hl H]]. rewrite (bind_params_sim _ _ _ Hl). cbn [bind].
    apply bind_Ok in H. destruct H as [[o1 s1] [E1 H]].
    destruct HR as [HL HM].
    assert (HRc : SRel {| mem := mem s; loc := l; pre := pre s; files := files s; ptrs := ptrs s; fresh := fresh s |}
                       {| mem := mem S; loc := lmap l; pre := pre S; files := files S; ptrs := ptrs S; fresh := fresh S |})
      by (split; [reflexivity|exact HM]).
    destruct (IH _ _ _ _ _ Hbody HRc E1) as (S1 & X1 & [RL1 RM1] & (P1 & P2 & P3 & P4 & P5)). rewrite X1. cbn [bind].
    apply bind_Ok in H. destruct H as [s2 [Hs2 H]]. inversion H; subst. clear H.
    cbn [pre files ptrs fresh mem] in *.
    destruct ret as [x|]; cbn [set_ret] in Hs2 |- *.
    + destruct o1 as [| |[v|]]; try discriminate; cbn [omap].
      inversion Hs2; subst. eexists. split; [reflexivity|].
      split; [split; [cbn [with_loc loc]; now rewrite HL, lset_lmap|exact RM1]|].
      repeat split; cbn [with_loc pre files ptrs fresh mem]; auto.
    + inversion Hs2; subst.
      assert (E : match omap o1 with Returned v => v | _ => None end = match omap o1 with Returned v => v | _ => None end) by reflexivity.
      eexists. split; [reflexivity|].
      split; [split; [exact HL|exact RM1]|]. repeat split; cbn [pre files ptrs fresh mem]; auto.
  - (* SPrim *)
    apply String.eqb_eq in H0. subst name.
    apply bind_Ok in H. destruct H as [vs [Hvs H]]. rewrite (eval_list_sim _ _ _ _ HR H1 Hvs). cbn [bind].
    apply bind_Ok in H. destruct H as [[v s1] [Hp H]].
    assert (Hp' : exists c, vs = [VInt c] /\ v = Some (VInt (alnumz c)) /\ s1 = s).
    { unfold do_prim in Hp. cbn [String.eqb Ascii.eqb Bool.eqb] in Hp.
      destruct vs as [|[c| |] [|]]; try discriminate. exists c. inversion Hp; subst. auto. }
    destruct Hp' as (c & -> & -> & ->). cbn [map vmap].
    assert (Hq : do_prim S "isalnum" [VInt c] = Ok (Some (VInt (alnumz c)), S)) by reflexivity.
    rewrite Hq. cbn [bind].
    apply bind_Ok in H. destruct H as [s2 [Hs2 H]]. inversion H; subst. clear H.
    destruct HR as [HL HM].
    destruct ret as [x|]; cbn [set_ret] in Hs2 |- *; inversion Hs2; subst.
    + eexists. split; [reflexivity|]. split; [split; [cbn [with_loc loc]; now rewrite HL, lset_lmap|exact HM]|repeat split].
    + exists S. split; [reflexivity|]. split; [split; assumption|apply Post_refl].
Qed.
End Sim.
