(* C08 (file part) -- in an encrypted file the tag at offset 10 is the RFC 2104 HMAC over
   everything from offset 48 to the end, and the bytes between the tag and offset 48 are zero. *)
From Wencry Require Import Bytes HashSpec FileModel FileSpec FileProps FileProofsEnc.
Local Open Scope N_scope.

Theorem C08_file_tag_is_hmac_of_body : forall c hbuf T P key seed cm hm F,
  enc_params c hbuf T P key seed cm hm ->
  enc c hbuf T P key cm hm seed = Ok F ->
  firstn (hlen hm) (skipn 10 F) = hmac_spec (hash_spec hm) key (skipn 48 F).
Proof. exact C08_file_tag_is_hmac_of_body_proof. Qed.
Print Assumptions C08_file_tag_is_hmac_of_body.

Theorem C08_tag_field_zero_filled : forall c hbuf T P key seed cm hm F,
  enc_params c hbuf T P key seed cm hm ->
  enc c hbuf T P key cm hm seed = Ok F ->
  skipn (10 + hlen hm) (firstn 48 F) = zeros (38 - hlen hm).
Proof. exact C08_tag_field_zero_filled_proof. Qed.
Print Assumptions C08_tag_field_zero_filled.
