(* Proofs for C17 (Properties_C17.v) over CliModel: an invariant relating the parser state after
   [parse_all pak0 ts = Some p] to the token list (proved by snoc-induction, so the start state
   stays pak0), then finite case analyses of post_checks / run_main. *)
From Coq Require Import ZArith List Bool Lia ZifyBool.
From Wencry Require Import CliModel.
From Wencry Require Export CliGlueText.
Import ListNotations.
Local Open Scope Z_scope.

(* ------------------------------------------------------------------ *)
(* vocabulary on [ts ++ [t]]                                            *)

Definition code (t : tok) : Z :=
  match t with T_e => 101 | T_d => 100 | T_v => 118 | T_V => 86 | T_h => 104 | _ => 117 end.

Definition isSome {A : Type} (o : option A) : bool := match o with Some _ => true | None => false end.

Lemma code_mode_tok : forall t, is_mode_tok t = true -> code t <> 117.
Proof. intros t Ht; destruct t; cbn in *; try discriminate; lia. Qed.

Lemma count_modes_snoc : forall ts t,
  count_modes (ts ++ [t]) = (count_modes ts + (if is_mode_tok t then 1 else 0))%nat.
Proof.
  intros ts t. unfold count_modes. rewrite filter_app, app_length.
  cbn [filter]. destruct (is_mode_tok t); reflexivity.
Qed.

Lemma existsb_snoc : forall (f : tok -> bool) ts t, existsb f (ts ++ [t]) = existsb f ts || f t.
Proof. intros f ts t. rewrite existsb_app. cbn [existsb]. rewrite orb_false_r. reflexivity. Qed.

Lemma in_snoc : forall (x t : tok) ts, In x (ts ++ [t]) <-> In x ts \/ x = t.
Proof.
  intros x t ts. rewrite in_app_iff. cbn [In]. split.
  - intros [H|[H|[]]]; [left; exact H | right; symmetry; exact H].
  - intros [H|H]; [left; exact H | right; left; symmetry; exact H].
Qed.

Lemma parse_all_snoc : forall ts p t,
  parse_all p (ts ++ [t]) = match parse_all p ts with Some p' => parse_one p' t | None => None end.
Proof.
  induction ts as [|a ts IH]; intros p t.
  - cbn [app parse_all]. destruct (parse_one p t); reflexivity.
  - cbn [app parse_all]. destruct (parse_one p a) as [p1|]; [apply IH | reflexivity].
Qed.

(* ------------------------------------------------------------------ *)
(* the invariant                                                        *)

Record Inv (ts : list tok) (p : pak) : Prop := {
  inv_m0  : mode p = 117 -> count_modes ts = 0%nat;
  inv_m1  : mode p <> 117 -> count_modes ts = 1%nat;
  inv_min : forall t, is_mode_tok t = true -> In t ts -> mode p = code t;
  inv_mex : mode p = 117 \/ exists t, is_mode_tok t = true /\ In t ts /\ mode p = code t;
  inv_key : has_valid_key ts = isSome (key p);
  inv_out : has_output ts = out p;
  inv_fp  : has_input ts = isSome (fp p);
  inv_ne  : has_no_echo ts = no_echo p;
  inv_kinv : ~ In (T_k KInvalid) ts;
  inv_c   : forall n, In (T_cmode n) ts -> ctype p = n /\ 0 <= n;
  inv_h   : forall n, In (T_hmode n) ts -> htype p = n /\ 0 <= n
}.

Lemma Inv_nil : Inv [] pak0.
Proof.
  constructor; cbn; try reflexivity; try tauto; try (intros; contradiction).
Qed.

(* a mode token: set_mode *)
Lemma Inv_step_mode : forall ts p t p',
  Inv ts p -> is_mode_tok t = true -> set_mode p (code t) = Some p' -> Inv (ts ++ [t]) p'.
Proof.
  intros ts p t p' [m0 m1 mi mex ik io ifp ine ikv ic ih] Ht Hs.
  unfold set_mode in Hs.
  destruct (Z.eqb_spec (mode p) 117) as [Hm|Hm]; [|discriminate Hs].
  injection Hs as <-.
  pose proof (code_mode_tok t Ht) as Hc.
  constructor; cbn [mode ctype htype fp out key no_echo dflt_ok].
  - intros H; contradiction.
  - intros _. rewrite count_modes_snoc, Ht, (m0 Hm). reflexivity.
  - intros t' Ht' Hin. apply in_snoc in Hin. destruct Hin as [Hin| ->]; [|reflexivity].
    exfalso. apply (code_mode_tok t' Ht'). rewrite <- (mi t' Ht' Hin). exact Hm.
  - right. exists t. split; [exact Ht|]. split; [|reflexivity]. apply in_snoc. right; reflexivity.
  - unfold has_valid_key. rewrite existsb_snoc. fold (has_valid_key ts). rewrite ik.
    destruct t; try discriminate Ht; apply orb_false_r.
  - unfold has_output. rewrite existsb_snoc. fold (has_output ts). rewrite io.
    destruct t; try discriminate Ht; apply orb_false_r.
  - unfold has_input. rewrite existsb_snoc. fold (has_input ts). rewrite ifp.
    destruct t; try discriminate Ht; apply orb_false_r.
  - unfold has_no_echo. rewrite existsb_snoc. fold (has_no_echo ts). rewrite ine.
    destruct t; try discriminate Ht; apply orb_false_r.
  - intros Hin. apply in_snoc in Hin. destruct Hin as [Hin|Hin]; [exact (ikv Hin)|].
    subst t; discriminate Ht.
  - intros n Hin. apply in_snoc in Hin. destruct Hin as [Hin|Hin]; [exact (ic n Hin)|].
    subst t; discriminate Ht.
  - intros n Hin. apply in_snoc in Hin. destruct Hin as [Hin|Hin]; [exact (ih n Hin)|].
    subst t; discriminate Ht.
Qed.

(* a non-mode token that is not --cmode/--hmode and leaves mode, ctype, htype alone *)
Lemma Inv_step_plain : forall ts p t p',
  Inv ts p -> is_mode_tok t = false ->
  (forall n, t <> T_cmode n) -> (forall n, t <> T_hmode n) -> t <> T_k KInvalid ->
  mode p' = mode p -> ctype p' = ctype p -> htype p' = htype p ->
  isSome (key p') = isSome (key p) || (match t with T_k (KValid _) => true | _ => false end) ->
  out p' = out p || (match t with T_o true => true | _ => false end) ->
  isSome (fp p') = isSome (fp p) || (match t with T_i _ _ FPlain | T_i _ _ (FWenc _) => true | _ => false end) ->
  no_echo p' = no_echo p || (match t with T_n => true | _ => false end) ->
  Inv (ts ++ [t]) p'.
Proof.
  intros ts p t p' [m0 m1 mi mex ik io ifp ine ikv ic ih] Ht Hnc Hnh Hnk Em Ec Eh Ek Eo Ef En.
  constructor.
  - rewrite Em. intros H. rewrite count_modes_snoc, Ht, (m0 H). reflexivity.
  - rewrite Em. intros H. rewrite count_modes_snoc, Ht, (m1 H). reflexivity.
  - rewrite Em. intros t' Ht' Hin. apply in_snoc in Hin. destruct Hin as [Hin| ->].
    + exact (mi t' Ht' Hin).
    + rewrite Ht in Ht'; discriminate Ht'.
  - rewrite Em. destruct mex as [H|[t' [Ht' [Hin H]]]]; [left; exact H|].
    right. exists t'. split; [exact Ht'|]. split; [|exact H]. apply in_snoc. left; exact Hin.
  - unfold has_valid_key. rewrite existsb_snoc. fold (has_valid_key ts). rewrite ik, Ek. reflexivity.
  - unfold has_output. rewrite existsb_snoc. fold (has_output ts). rewrite io, Eo. reflexivity.
  - unfold has_input. rewrite existsb_snoc. fold (has_input ts). rewrite ifp, Ef. reflexivity.
  - unfold has_no_echo. rewrite existsb_snoc. fold (has_no_echo ts). rewrite ine, En. reflexivity.
  - intros Hin. apply in_snoc in Hin. destruct Hin as [Hin|Hin]; [exact (ikv Hin)|].
    apply Hnk. symmetry; exact Hin.
  - rewrite Ec. intros n Hin. apply in_snoc in Hin. destruct Hin as [Hin|Hin]; [exact (ic n Hin)|].
    exfalso. apply (Hnc n). symmetry; exact Hin.
  - rewrite Eh. intros n Hin. apply in_snoc in Hin. destruct Hin as [Hin|Hin]; [exact (ih n Hin)|].
    exfalso. apply (Hnh n). symmetry; exact Hin.
Qed.

(* --cmode n accepted: ctype was -1, 0 <= n <= 127 *)
Lemma Inv_step_cmode : forall ts p n,
  Inv ts p -> ctype p = -1 -> 0 <= n ->
  Inv (ts ++ [T_cmode n])
      {| mode := mode p; ctype := n; htype := htype p; fp := fp p; out := out p; key := key p;
         no_echo := no_echo p; dflt_ok := dflt_ok p |}.
Proof.
  intros ts p n [m0 m1 mi mex ik io ifp ine ikv ic ih] Hc Hn.
  constructor; cbn [mode ctype htype fp out key no_echo dflt_ok].
  - intros H. rewrite count_modes_snoc, (m0 H). reflexivity.
  - intros H. rewrite count_modes_snoc, (m1 H). reflexivity.
  - intros t' Ht' Hin. apply in_snoc in Hin. destruct Hin as [Hin| ->].
    + exact (mi t' Ht' Hin).
    + discriminate Ht'.
  - destruct mex as [H|[t' [Ht' [Hin H]]]]; [left; exact H|].
    right. exists t'. split; [exact Ht'|]. split; [|exact H]. apply in_snoc. left; exact Hin.
  - unfold has_valid_key. rewrite existsb_snoc. fold (has_valid_key ts). rewrite ik. apply orb_false_r.
  - unfold has_output. rewrite existsb_snoc. fold (has_output ts). rewrite io. apply orb_false_r.
  - unfold has_input. rewrite existsb_snoc. fold (has_input ts). rewrite ifp. apply orb_false_r.
  - unfold has_no_echo. rewrite existsb_snoc. fold (has_no_echo ts). rewrite ine. apply orb_false_r.
  - intros Hin. apply in_snoc in Hin. destruct Hin as [Hin|Hin]; [exact (ikv Hin)|discriminate Hin].
  - intros n' Hin. apply in_snoc in Hin. destruct Hin as [Hin|Hin].
    + exfalso. destruct (ic n' Hin) as [E L]. lia.
    + injection Hin as ->. split; [reflexivity|exact Hn].
  - intros n' Hin. apply in_snoc in Hin. destruct Hin as [Hin|Hin]; [exact (ih n' Hin)|discriminate Hin].
Qed.

Lemma Inv_step_hmode : forall ts p n,
  Inv ts p -> htype p = -1 -> 0 <= n ->
  Inv (ts ++ [T_hmode n])
      {| mode := mode p; ctype := ctype p; htype := n; fp := fp p; out := out p; key := key p;
         no_echo := no_echo p; dflt_ok := dflt_ok p |}.
Proof.
  intros ts p n [m0 m1 mi mex ik io ifp ine ikv ic ih] Hc Hn.
  constructor; cbn [mode ctype htype fp out key no_echo dflt_ok].
  - intros H. rewrite count_modes_snoc, (m0 H). reflexivity.
  - intros H. rewrite count_modes_snoc, (m1 H). reflexivity.
  - intros t' Ht' Hin. apply in_snoc in Hin. destruct Hin as [Hin| ->].
    + exact (mi t' Ht' Hin).
    + discriminate Ht'.
  - destruct mex as [H|[t' [Ht' [Hin H]]]]; [left; exact H|].
    right. exists t'. split; [exact Ht'|]. split; [|exact H]. apply in_snoc. left; exact Hin.
  - unfold has_valid_key. rewrite existsb_snoc. fold (has_valid_key ts). rewrite ik. apply orb_false_r.
  - unfold has_output. rewrite existsb_snoc. fold (has_output ts). rewrite io. apply orb_false_r.
  - unfold has_input. rewrite existsb_snoc. fold (has_input ts). rewrite ifp. apply orb_false_r.
  - unfold has_no_echo. rewrite existsb_snoc. fold (has_no_echo ts). rewrite ine. apply orb_false_r.
  - intros Hin. apply in_snoc in Hin. destruct Hin as [Hin|Hin]; [exact (ikv Hin)|discriminate Hin].
  - intros n' Hin. apply in_snoc in Hin. destruct Hin as [Hin|Hin]; [exact (ic n' Hin)|discriminate Hin].
  - intros n' Hin. apply in_snoc in Hin. destruct Hin as [Hin|Hin].
    + exfalso. destruct (ih n' Hin) as [E L]. lia.
    + injection Hin as ->. split; [reflexivity|exact Hn].
Qed.

Lemma Inv_step : forall ts p t p', Inv ts p -> parse_one p t = Some p' -> Inv (ts ++ [t]) p'.
Proof.
  intros ts p t p' I Hp.
  destruct t as [ | | | | | | lg df f | op | k | n | n | ]; cbn [parse_one] in Hp.
  - apply (Inv_step_mode ts p T_e p' I eq_refl Hp).
  - apply (Inv_step_mode ts p T_d p' I eq_refl Hp).
  - apply (Inv_step_mode ts p T_v p' I eq_refl Hp).
  - apply (Inv_step_mode ts p T_V p' I eq_refl Hp).
  - apply (Inv_step_mode ts p T_h p' I eq_refl Hp).
  - injection Hp as <-.
    apply (Inv_step_plain ts p T_n _ I); cbn [mode ctype htype fp out key no_echo dflt_ok];
      try reflexivity; try (intros; discriminate); try (symmetry; apply orb_false_r); try (symmetry; apply orb_true_r).
  - destruct f as [ | | kid]; [discriminate Hp | | ]; injection Hp as <-.
    + apply (Inv_step_plain ts p (T_i lg df FPlain) _ I); cbn [mode ctype htype fp out key no_echo dflt_ok isSome];
        try reflexivity; try (intros; discriminate); try (symmetry; apply orb_false_r); try (symmetry; apply orb_true_r).
    + apply (Inv_step_plain ts p (T_i lg df (FWenc kid)) _ I); cbn [mode ctype htype fp out key no_echo dflt_ok isSome];
        try reflexivity; try (intros; discriminate); try (symmetry; apply orb_false_r); try (symmetry; apply orb_true_r).
  - destruct op; [|discriminate Hp]. injection Hp as <-.
    apply (Inv_step_plain ts p (T_o true) _ I); cbn [mode ctype htype fp out key no_echo dflt_ok isSome];
      try reflexivity; try (intros; discriminate); try (symmetry; apply orb_false_r); try (symmetry; apply orb_true_r).
  - destruct k as [|kid]; [discriminate Hp|]. injection Hp as <-.
    apply (Inv_step_plain ts p (T_k (KValid kid)) _ I); cbn [mode ctype htype fp out key no_echo dflt_ok isSome];
      try reflexivity; try (intros; discriminate); try (symmetry; apply orb_false_r); try (symmetry; apply orb_true_r).
  - destruct (Z.eqb_spec (ctype p) (-1)) as [Hc|Hc]; [|discriminate Hp].
    destruct ((n <? 0) || (127 <? n)) eqn:Hr; [discriminate Hp|]. injection Hp as <-.
    apply (Inv_step_cmode ts p n I Hc). lia.
  - destruct (Z.eqb_spec (htype p) (-1)) as [Hc|Hc]; [|discriminate Hp].
    destruct ((n <? 0) || (127 <? n)) eqn:Hr; [discriminate Hp|]. injection Hp as <-.
    apply (Inv_step_hmode ts p n I Hc). lia.
  - discriminate Hp.
Qed.

Lemma parse_Inv : forall ts p, parse_all pak0 ts = Some p -> Inv ts p.
Proof.
  induction ts as [|t ts IH] using rev_ind; intros p Hp.
  - cbn in Hp. injection Hp as <-. exact Inv_nil.
  - rewrite parse_all_snoc in Hp.
    destruct (parse_all pak0 ts) as [p1|] eqn:E; [|discriminate Hp].
    exact (Inv_step ts p1 t p (IH p1 eq_refl) Hp).
Qed.

(* ------------------------------------------------------------------ *)
(* consequences of the invariant                                        *)

Lemma Inv_mode_cases : forall ts p, Inv ts p ->
  mode p = 117 \/ mode p = 101 \/ mode p = 100 \/ mode p = 118 \/ mode p = 86 \/ mode p = 104.
Proof.
  intros ts p I. destruct (inv_mex ts p I) as [H|[t [Ht [_ H]]]]; [left; exact H|].
  rewrite H. destruct t; try discriminate Ht; cbn [code]; lia.
Qed.

Lemma Inv_mode_V : forall ts p, Inv ts p -> mode p = 86 -> In T_V ts.
Proof.
  intros ts p I Hm. destruct (inv_mex ts p I) as [H|[t [Ht [Hin H]]]]; [lia|].
  rewrite Hm in H. destruct t; try discriminate Ht; cbn [code] in H; try lia. exact Hin.
Qed.

Lemma Inv_mode_h : forall ts p, Inv ts p -> mode p = 104 -> In T_h ts.
Proof.
  intros ts p I Hm. destruct (inv_mex ts p I) as [H|[t [Ht [Hin H]]]]; [lia|].
  rewrite Hm in H. destruct t; try discriminate Ht; cbn [code] in H; try lia. exact Hin.
Qed.

(* ------------------------------------------------------------------ *)
(* post_checks and run_main                                             *)

Definition Good (q : pak) : Prop :=
  (mode q = 86 \/ mode q = 104) \/
  (mode q = 101 /\ isSome (fp q) = true /\ isSome (key q) = true /\ out q = true /\
   0 <= ctype q <= 4 /\ 0 <= htype q <= 2) \/
  (mode q = 100 /\ isSome (fp q) = true /\ isSome (key q) = true /\ out q = true) \/
  (mode q = 118 /\ isSome (fp q) = true /\ isSome (key q) = true).

Lemma post_good : forall p,
  (mode p = 117 \/ mode p = 101 \/ mode p = 100 \/ mode p = 118 \/ mode p = 86 \/ mode p = 104) ->
  match post_checks p with
  | None => True
  | Some q => Good q /\ mode q = mode p /\ mode p <> 117 /\ no_echo q = no_echo p /\
              isSome (fp q) = isSome (fp p) /\ (mode p <> 101 -> q = p)
  end.
Proof.
  intros p Hm. unfold post_checks, Good. cbv zeta.
  destruct (Z.eqb_spec (mode p) 117) as [E117|N117]; [exact I|].
  destruct (Z.eqb_spec (mode p) 101) as [E101|N101].
  - destruct (Z.eqb_spec (ctype p) (-1)) as [Ec1|Nc1];
    destruct ((0 <=? ctype p) && (ctype p <? 5)) eqn:Ec;
    destruct (Z.eqb_spec (htype p) (-1)) as [Eh1|Nh1];
    destruct ((0 <=? htype p) && (htype p <? 3)) eqn:Eh;
    cbv beta iota; try exact I;
    (destruct (fp p) as [f|] eqn:Ef; [|exact I]);
    (destruct (out p || dflt_ok p) eqn:Eo; [|exact I]);
    cbn [mode ctype htype fp out key no_echo dflt_ok isSome];
    repeat split; try reflexivity; try lia; try (intros; lia).
  - destruct ((mode p =? 100) || (mode p =? 118)) eqn:Edv.
    + destruct (fp p) as [f|] eqn:Ef; [|exact I].
      destruct (key p) as [k|] eqn:Ek; [|exact I].
      destruct ((mode p =? 100) && negb (out p)) eqn:Eo; [exact I|].
      rewrite Ef, Ek. cbn [isSome].
      repeat split; try reflexivity; try lia; try (intros; lia).
    + repeat split; try reflexivity; try lia; try (intros; lia).
Qed.

Lemma run_good : forall q, Good q ->
  run_main q = Exit 0 false (Some (mode q, true)) \/
  (run_main q = Exit 1 true None /\ (mode q = 100 \/ mode q = 118) /\ (4 < ctype q \/ 2 < htype q \/ ctype q < -1 \/ htype q < -1)) \/
  (run_main q = Exit 255 (negb (no_echo q)) (Some (mode q, false)) /\ (mode q = 100 \/ mode q = 118)).
Proof.
  intros q G. unfold run_main.
  destruct ((mode q =? 86) || (mode q =? 104)) eqn:EVh; [left; reflexivity|].
  destruct G as [G|[G|[G|G]]]; [lia| | |].
  - destruct G as [Hm [Hf [Hk [Ho [Hc Hh]]]]].
    destruct ((ctype q <? -1) || (4 <? ctype q) || (htype q <? -1) || (2 <? htype q)) eqn:Er; [lia|].
    destruct (fp q) as [f|]; [|discriminate Hf].
    destruct (key q) as [k|]; [|discriminate Hk].
    destruct (Z.eqb_spec (mode q) 101) as [_|N]; [|lia].
    rewrite Ho, Hm. left; reflexivity.
  - destruct G as [Hm [Hf [Hk Ho]]].
    destruct ((ctype q <? -1) || (4 <? ctype q) || (htype q <? -1) || (2 <? htype q)) eqn:Er.
    { right; left. split; [reflexivity|]. split; [left; exact Hm|]. lia. }
    destruct (fp q) as [f|]; [|discriminate Hf].
    destruct (key q) as [k|]; [|discriminate Hk].
    destruct (Z.eqb_spec (mode q) 101) as [E|_]; [lia|].
    destruct (Z.eqb_spec (mode q) 100) as [_|N]; [|lia].
    rewrite Ho, Hm.
    destruct (match f with FWenc k' => Nat.eqb k k' | _ => false end).
    + left; reflexivity.
    + right; right. split; [reflexivity|left; reflexivity].
  - destruct G as [Hm [Hf Hk]].
    destruct ((ctype q <? -1) || (4 <? ctype q) || (htype q <? -1) || (2 <? htype q)) eqn:Er.
    { right; left. split; [reflexivity|]. split; [right; exact Hm|]. lia. }
    destruct (fp q) as [f|]; [|discriminate Hf].
    destruct (key q) as [k|]; [|discriminate Hk].
    destruct (Z.eqb_spec (mode q) 101) as [E|_]; [lia|].
    destruct (Z.eqb_spec (mode q) 100) as [E|_]; [lia|].
    rewrite Hm.
    destruct (match f with FWenc k' => Nat.eqb k k' | _ => false end).
    + left; reflexivity.
    + right; right. split; [reflexivity|right; reflexivity].
Qed.

(* the three shapes of [cli ts] *)
Inductive cli_shape (ts : list tok) : Prop :=
| shape_early : cli ts = Exit 1 true None -> cli_shape ts
| shape_run : forall p q,
    parse_all pak0 ts = Some p -> Inv ts p -> post_checks p = Some q ->
    Good q -> mode q = mode p -> mode p <> 117 -> no_echo q = no_echo p ->
    isSome (fp q) = isSome (fp p) -> (mode p <> 101 -> q = p) ->
    cli ts = run_main q -> cli_shape ts.

Lemma cli_cases : forall ts, cli_shape ts.
Proof.
  intros ts. unfold cli.
  destruct (parse_all pak0 ts) as [p|] eqn:Ep.
  - pose proof (parse_Inv ts p Ep) as I.
    pose proof (post_good p (Inv_mode_cases ts p I)) as PG.
    destruct (post_checks p) as [q|] eqn:Eq.
    + destruct PG as [G [Hm [N117 [Hne [Hfp Hqp]]]]].
      apply (shape_run ts p q); try assumption.
      unfold cli. rewrite Ep, Eq. reflexivity.
    + apply shape_early. unfold cli. rewrite Ep, Eq. reflexivity.
  - apply shape_early. unfold cli. rewrite Ep. reflexivity.
Qed.

(* ------------------------------------------------------------------ *)
(* the six lemmas of Properties_C17                                     *)

Lemma C17_never_crashes_proof : forall ts, cli ts <> Crash.
Proof.
  intros ts. destruct (cli_cases ts) as [H | p q Ep I Eq G Hm N117 Hne Hfp Hqp H]; rewrite H.
  - discriminate.
  - destruct (run_good q G) as [R|[[R _]|[R _]]]; rewrite R; discriminate.
Qed.

Lemma C17_exit_zero_iff_success_proof : forall ts c d op,
  cli ts = Exit c d op -> (c = 0 <-> exists m, op = Some (m, true)).
Proof.
  intros ts c d op Hc.
  destruct (cli_cases ts) as [H | p q Ep I Eq G Hm N117 Hne Hfp Hqp H]; rewrite H in Hc.
  - injection Hc as <- <- <-. split; [intros E; discriminate E | intros [m E]; discriminate E].
  - destruct (run_good q G) as [R|[[R _]|[R _]]]; rewrite R in Hc; injection Hc as <- <- <-.
    + split; [intros _; exists (mode q); reflexivity | intros _; reflexivity].
    + split; [intros E; discriminate E | intros [m E]; discriminate E].
    + split; [intros E; discriminate E | intros [m E]; discriminate E].
Qed.

Lemma C17_failure_is_diagnosed_proof : forall ts c d op,
  cli ts = Exit c d op -> c <> 0 ->
  d = true \/ (has_no_echo ts = true /\ exists m, op = Some (m, false)).
Proof.
  intros ts c d op Hc Hnz.
  destruct (cli_cases ts) as [H | p q Ep I Eq G Hm N117 Hne Hfp Hqp H]; rewrite H in Hc.
  - injection Hc as <- <- <-. left; reflexivity.
  - destruct (run_good q G) as [R|[[R _]|[R _]]]; rewrite R in Hc; injection Hc as <- <- <-.
    + exfalso; apply Hnz; reflexivity.
    + left; reflexivity.
    + rewrite Hne, <- (inv_ne ts p I).
      destruct (has_no_echo ts).
      * right. split; [reflexivity|]. exists (mode q); reflexivity.
      * left; reflexivity.
Qed.

Example C17_failure_is_diagnosed_nonvacuous :
  cli [T_n; T_d; T_i false true FPlain; T_o true; T_k (KValid 3)] = Exit 255 false (Some (100, false)) /\ 255 <> 0 /\
  cli [T_d; T_i false true FPlain; T_o true; T_k (KValid 3)] = Exit 255 true (Some (100, false)) /\
  cli [T_d; T_d] = Exit 1 true None.
Proof. vm_compute. repeat split; discriminate. Qed.

Lemma C17_success_requirements_proof : forall ts d m,
  cli ts = Exit 0 d (Some (m, true)) ->
  count_modes ts = 1%nat /\
  (m = 101 \/ m = 100 \/ m = 118 -> has_input ts = true) /\
  (m = 100 \/ m = 118 -> has_valid_key ts = true) /\
  (m = 100 -> has_output ts = true).
Proof.
  intros ts d m Hc.
  destruct (cli_cases ts) as [H | p q Ep I Eq G Hm N117 Hne Hfp Hqp H]; rewrite H in Hc; [discriminate Hc|].
  destruct (run_good q G) as [R|[[R _]|[R _]]]; rewrite R in Hc; try discriminate Hc.
  injection Hc as _ Em.
  split; [exact (inv_m1 ts p I N117)|].
  rewrite (inv_fp ts p I), (inv_key ts p I), (inv_out ts p I), <- Hfp.
  split; [|split].
  - intros Hcase. destruct G as [G|[G|[G|G]]]; [lia| | |].
    + destruct G as [_ [Hf _]]; exact Hf.
    + destruct G as [_ [Hf _]]; exact Hf.
    + destruct G as [_ [Hf _]]; exact Hf.
  - intros Hcase. rewrite <- (Hqp ltac:(lia)).
    destruct G as [G|[G|[G|G]]]; [lia|lia| |].
    + destruct G as [_ [_ [Hk _]]]; exact Hk.
    + destruct G as [_ [_ Hk]]; exact Hk.
  - intros Hcase. rewrite <- (Hqp ltac:(lia)).
    destruct G as [G|[G|[G|G]]]; [lia|lia| |lia].
    destruct G as [_ [_ [_ Ho]]]; exact Ho.
Qed.

Example C17_success_requirements_nonvacuous :
  cli [T_k (KValid 7); T_o true; T_i true false (FWenc 7); T_cmode 3; T_d] = Exit 0 false (Some (100, true)) /\
  cli [T_v; T_i true false (FWenc 7); T_k (KValid 7)] = Exit 0 false (Some (118, true)) /\
  cli [T_i false true FPlain; T_hmode 2; T_e] = Exit 0 false (Some (101, true)) /\
  cli [T_V] = Exit 0 false (Some (86, true)).
Proof. vm_compute. repeat split. Qed.

(* no package from post_checks, or Settings' constructor exits, when a type number is out of range *)
Lemma bad_range_exit : forall p,
  (mode p = 117 \/ mode p = 101 \/ mode p = 100 \/ mode p = 118) ->
  4 < ctype p \/ 2 < htype p ->
  match post_checks p with None => Exit 1 true None | Some q => run_main q end = Exit 1 true None.
Proof.
  intros p Hm Hr. unfold post_checks. cbv zeta.
  destruct (Z.eqb_spec (mode p) 117) as [E117|N117]; [reflexivity|].
  destruct (Z.eqb_spec (mode p) 101) as [E101|N101].
  - destruct (Z.eqb_spec (ctype p) (-1)) as [Ec1|Nc1];
    destruct ((0 <=? ctype p) && (ctype p <? 5)) eqn:Ec;
    destruct (Z.eqb_spec (htype p) (-1)) as [Eh1|Nh1];
    destruct ((0 <=? htype p) && (htype p <? 3)) eqn:Eh;
    cbv beta iota; try reflexivity; exfalso; lia.
  - destruct ((mode p =? 100) || (mode p =? 118)) eqn:Edv; [|exfalso; lia].
    destruct (fp p) as [f|] eqn:Ef; [|reflexivity].
    destruct (key p) as [k|] eqn:Ek; [|reflexivity].
    destruct ((mode p =? 100) && negb (out p)) eqn:Eo; [reflexivity|].
    unfold run_main.
    destruct ((mode p =? 86) || (mode p =? 104)) eqn:EVh; [exfalso; lia|].
    destruct ((ctype p <? -1) || (4 <? ctype p) || (htype p <? -1) || (2 <? htype p)) eqn:Er; [reflexivity|].
    exfalso; lia.
Qed.

Lemma C17_documented_failures_proof : forall ts,
  (count_modes ts <> 1%nat \/
   In (T_k KInvalid) ts \/
   (~ In T_V ts /\ ~ In T_h ts /\ exists n, (In (T_cmode n) ts /\ (n < 0 \/ 4 < n)) \/ (In (T_hmode n) ts /\ (n < 0 \/ 2 < n))) \/
   (In T_d ts /\ (has_valid_key ts = false \/ has_output ts = false \/ has_input ts = false)) \/
   (In T_v ts /\ (has_valid_key ts = false \/ has_input ts = false)) \/
   (In T_e ts /\ has_input ts = false)) ->
  exists c, cli ts = Exit c true None /\ c = 1.
Proof.
  intros ts Hd. exists 1. split; [|reflexivity].
  destruct (cli_cases ts) as [H | p q Ep I Eq G Hm N117 Hne Hfp Hqp H]; [exact H|].
  destruct Hd as [D|[D|[D|[D|[D|D]]]]].
  - exfalso. apply D. exact (inv_m1 ts p I N117).
  - exfalso. exact (inv_kinv ts p I D).
  - destruct D as [NV [Nh [n Hn]]].
    assert (Hmodes : mode p = 117 \/ mode p = 101 \/ mode p = 100 \/ mode p = 118).
    { destruct (Inv_mode_cases ts p I) as [M|[M|[M|[M|[M|M]]]]]; try tauto.
      - exfalso. exact (NV (Inv_mode_V ts p I M)).
      - exfalso. exact (Nh (Inv_mode_h ts p I M)). }
    assert (Hr : 4 < ctype p \/ 2 < htype p).
    { destruct Hn as [[Hin Hn]|[Hin Hn]].
      - destruct (inv_c ts p I n Hin) as [Ec Ln]. left. lia.
      - destruct (inv_h ts p I n Hin) as [Eh Ln]. right. lia. }
    pose proof (bad_range_exit p Hmodes Hr) as B. rewrite Eq in B.
    rewrite H. exact B.
  - destruct D as [Hin Hmiss].
    pose proof (inv_min ts p I T_d eq_refl Hin) as M. cbn [code] in M.
    rewrite (inv_key ts p I), (inv_out ts p I), (inv_fp ts p I) in Hmiss.
    rewrite <- (Hqp ltac:(lia)) in Hmiss.
    exfalso. destruct G as [G|[G|[G|G]]]; [lia|lia| |lia].
    destruct G as [_ [Hf [Hk Ho]]]. rewrite Hf, Hk, Ho in Hmiss.
    destruct Hmiss as [X|[X|X]]; discriminate X.
  - destruct D as [Hin Hmiss].
    pose proof (inv_min ts p I T_v eq_refl Hin) as M. cbn [code] in M.
    rewrite (inv_key ts p I), (inv_fp ts p I) in Hmiss.
    rewrite <- (Hqp ltac:(lia)) in Hmiss.
    exfalso. destruct G as [G|[G|[G|G]]]; [lia|lia|lia| ].
    destruct G as [_ [Hf Hk]]. rewrite Hf, Hk in Hmiss.
    destruct Hmiss as [X|X]; discriminate X.
  - destruct D as [Hin Hmiss].
    pose proof (inv_min ts p I T_e eq_refl Hin) as M. cbn [code] in M.
    rewrite (inv_fp ts p I), <- Hfp in Hmiss.
    exfalso. destruct G as [G|[G|[G|G]]]; [lia| |lia|lia].
    destruct G as [_ [Hf _]]. rewrite Hf in Hmiss. discriminate Hmiss.
Qed.

(* every disjunct of the hypothesis is satisfiable, including the one that reaches Settings' exit(1) *)
Example C17_documented_failures_nonvacuous :
  (count_modes [T_e; T_i false true FPlain; T_d] <> 1%nat /\ count_modes [T_i false true FPlain] <> 1%nat) /\
  In (T_k KInvalid) [T_d; T_k KInvalid] /\
  (let ts := [T_d; T_i false true (FWenc 1); T_o true; T_k (KValid 1); T_cmode 9] in
   ~ In T_V ts /\ ~ In T_h ts /\ In (T_cmode 9) ts /\ 4 < 9 /\
   parse_all pak0 ts <> None /\ (exists p, parse_all pak0 ts = Some p /\ post_checks p <> None) /\
   cli ts = Exit 1 true None) /\
  (let ts := [T_v; T_i false true (FWenc 1); T_k (KValid 1); T_hmode 3] in
   ~ In T_V ts /\ ~ In T_h ts /\ In (T_hmode 3) ts /\ 2 < 3 /\ cli ts = Exit 1 true None) /\
  (let ts := [T_d; T_i false true (FWenc 1); T_k (KValid 1)] in In T_d ts /\ has_output ts = false) /\
  (let ts := [T_v; T_i false true (FWenc 1)] in In T_v ts /\ has_valid_key ts = false) /\
  (let ts := [T_e; T_o true] in In T_e ts /\ has_input ts = false).
Proof.
  cbv zeta. repeat split; try (vm_compute; reflexivity); try (cbn [In]; tauto);
    try (vm_compute; discriminate);
    try (cbn [In]; intros H; repeat (destruct H as [H|H]; [discriminate H|]); exact H).
  eexists; split; [vm_compute; reflexivity | vm_compute; discriminate].
Qed.

Example C17_exit_zero_iff_success_nonvacuous :
  cli [T_h] = Exit 0 false (Some (104, true)) /\
  cli [T_e] = Exit 1 true None /\
  cli [T_v; T_i false false (FWenc 2); T_k (KValid 5); T_n] = Exit 255 false (Some (118, false)).
Proof. vm_compute. repeat split. Qed.

Lemma C17_defaults_proof : forall g,
  cli [T_e; T_i false true FPlain] = Exit 0 false (Some (101, true)) /\
  cli [T_d; T_i false g (FWenc RANDOM_KEY); T_o true; T_k (KValid RANDOM_KEY)] = Exit 0 false (Some (100, true)).
Proof. intros g. split; [vm_compute; reflexivity | destruct g; vm_compute; reflexivity]. Qed.

Print Assumptions C17_never_crashes_proof.
Print Assumptions C17_exit_zero_iff_success_proof.
Print Assumptions C17_failure_is_diagnosed_proof.
Print Assumptions C17_success_requirements_proof.
Print Assumptions C17_documented_failures_proof.
Print Assumptions C17_defaults_proof.
