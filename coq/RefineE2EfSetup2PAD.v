(* PARALLEL4 (H1): decrypt copy (PWd, pad = false, cmode = 0) of RefineE2EfSetup2PA.v: pa_rest_ok_d : ... -> pa_rest_spec_d.
   PARALLEL3, (T-B): RefineE2EfSetup2Spec.pa_rest_spec -- prepare_AES after get_instance returned.
   = `iobuffer = $t1` + the call of buffergroup::set_buffergroup (front: RefineE2EfSetup2B1D.sb_front_ok of proof-conc; statements 7..:
   RefineE2EfSetup2B1m.sb_from7_ok) + the tail (RefineE2EfSetup2Tail.pa_tail_ok: mode array, loadiv, T x createCryMaster, return). *)
From Coq Require Import ZArith NArith List String Bool Lia PeanoNat Ascii.
From Wencry Require Import Bytes AesModel ModesModel HashModel FileModel FileProps MiniC MiniCRun MiniCLemmas SrcRun SrcRun2 SrcRun5 RefineE2EWhole RefineE2ENames
     RefineAesLib RefineE2EfLay RefineE2EfWNames RefineE2EfWLay RefineE2EfWStream RefineE2EfGen RefineE2EfTail RefineE2EfEncDefs RefineE2EfHashSpec RefineE2EfEnc2
     RefineE2EfHashB3 RefineE2EfSetup1 RefineE2EfSetup2Spec RefineE2EfDecSpec RefineE2EfDecInst.
From Wencry Require RefineFileBase RefineConcMem RefineE2EfSetup2AD RefineE2EfSetup2B1D.
From Wencry Require Import RefineE2EfSetup2B3 RefineE2EfSetup2B4 RefineE2EfSetup2B1e RefineE2EfSetup2B1m RefineE2EfSetup2TailD RefineE2EfSetup2B1eD RefineE2EfSetup2B1mD.
From Wencry.Gen Require Src_conc Src_whole.
Import ListNotations.
Local Open Scope list_scope.
Local Open Scope string_scope.

Section PA.
Variables (c hbuf T : nat) (F key : list N) (h n : nat) (extra : memory) (pextra : locs) (ke : mkind).
Hypothesis HT : (1 <= T <= 16)%nat.
Hypothesis Hkey : block16 key.
Hypothesis Hivb : block16 (firstn 16 (skipn 48 F)).
Hypothesis Hke : create false (nth 8 F 0%N) = Some ke.
Hypothesis Hn : (n < h)%nat.
Hypothesis Hn0 : n <> 0%nat.
Variable ivc : list Z.
Hypothesis Hivo : mget extra (heap_name n) = Some (bobj ivc).
Hypothesis Hivl : (16 <= List.length ivc)%nat.
Hypothesis Hiv16 : firstn 16 ivc = map Z.of_N (firstn 16 (skipn 48 F)).
Hypothesis Hext : ext_mem_ok h extra = true.
Hypothesis Hpext : ext_ptr_ok h pextra = true.
Hypothesis Hnosz : no_sizeof_names extra = true.
Hypothesis Hnoal : no_alloc_keys pextra = true.
Notation PW := (PWd hbuf T F key h n extra pextra ke).
Notation g := (wGP PW).
Notation F1' := (F1d T F).
Notation A0' := (A0d c hbuf T F key extra).

Lemma M6_MC0 : RefineE2EfSetup2B1D.M6 c hbuf T F key h n extra pextra ke = MC0 c hbuf T F key h n extra pextra ke.
Proof.
  unfold RefineE2EfSetup2B1D.M6, MC0, MRc, RefineE2EfSetup2B1D.seg3T. rewrite (RefineE2EfSetup2AD.A0_split c hbuf T F key h n extra pextra ke). rewrite <- !app_assoc. reflexivity.
Qed.

(* the call iobuffer->set_buffergroup(T, fin, out, 1) *)
Lemma set_buffergroup_call : forall l0 p0,
  call whole_prog [] (100 + 2 * T) "buffergroup::set_buffergroup/4" g [VInt (Z.of_nat T); VPtr "fin" 0; VPtr "fout" 0; VInt 0]
       {| mem := (A0' ++ seg3zd hbuf T F key h n extra pextra ke)%list; loc := l0; pre := p0; files := F1';
          ptrs := PtGd hbuf T F key h n extra pextra ke; fresh := S h |} =
  MiniC.Ok (None, {| mem := MB1 c hbuf T F key h n extra pextra ke; loc := l0; pre := p0; files := F1';
                     ptrs := PtB1 hbuf T F key h n extra pextra ke; fresh := (h + 3)%nat |}).
Proof.
  intros l0 p0.
  destruct (sb_from7_ok c hbuf T F key h n extra pextra ke HT Hkey Hivb Hn Hext Hpext Hnosz
              (RefineE2EfSetup2B1D.sb_l6 hbuf T F key h n extra pextra ke) F1' eq_refl eq_refl eq_refl) as (l' & E7).
  pose proof (RefineE2EfSetup2B1D.sb_front_ok_d c hbuf T F key h n extra pextra ke HT Hkey Hivb Hn Hext Hpext Hnosz F1' (80 + 2 * T)%nat
                (Normal, {| mem := MB1 c hbuf T F key h n extra pextra ke; loc := l'; pre := g; files := F1';
                            ptrs := PtB1 hbuf T F key h n extra pextra ke; fresh := (h + 3)%nat |}) ltac:(lia)) as FR.
  unfold RefineE2EfSetup2B1D.s_sb6 in FR. rewrite M6_MC0 in FR. specialize (FR E7).
  unfold call. rewrite (conc_in_whole _ _ (eq_refl : lget Src_conc.functions "buffergroup::set_buffergroup/4" = Some Src_conc.f_buffergroup_set_buffergroup_4)).
  change (f_params Src_conc.f_buffergroup_set_buffergroup_4) with ["size"; "fin"; "fout"; "ispadding"].
  cbn [bind_params bind mem loc pre files ptrs fresh].
  unfold RefineE2EfSetup2B1D.s_sb0, RefineE2EfSetup2B1D.sb_body, RefineE2EfSetup2B1D.sb_l0 in FR.
  rewrite (exec_mono _ _ _ _ _ _ FR) by lia. reflexivity.
Qed.
Theorem pa_rest_seq : pa_rest_spec_d c hbuf T F key h n extra pextra ke.
Proof.
  unfold pa_rest_spec_d.
  set (l1 := lset (pa_locs2d hbuf T F key h n extra pextra ke) "iobuffer" (VPtr g 0)).
  destruct (pa_tail_ok c hbuf T F key h n extra pextra ke HT Hkey Hivb Hke Hn Hn0 ivc Hivo Hivl Hext Hpext Hnosz Hnoal l1 eq_refl eq_refl eq_refl) as (lY & ET).
  exists (S (S (S (300 + 2 * T)))), (SMf key ivc (h + 4) T), lY.
  split; [intros i Hi; apply (srep_SM hbuf T F key h n extra pextra ke HT Hkey Hivb Hn Hn0 ivc Hivl Hiv16 Hext Hpext i Hi)|].
  unfold pa_rest, pa_body, s_snd, s_pa0d. cbn [f_body Src_whole.f_runcrypt_prepare_AES_3].
  (* iobuffer = $t1 *)
  rewrite exec_seq, exec_set. cbn [eval bind loc]. change (lget (pa_locs2d hbuf T F key h n extra pextra ke) "$t1") with (Some (VPtr g 0)).
  cbn [bind]. unfold with_loc. cbn [mem loc pre files ptrs fresh]. fold l1.
  (* iobuffer->set_buffergroup(threads_num, fin, out, cmode) *)
  rewrite exec_seq.
  assert (Ethr : mget (A0' ++ seg3zd hbuf T F key h n extra pextra ke)%list "rc.threads_num" = Some {| o_ty := U8; o_cells := [Z.of_nat T] |}).
  { unfold A0d. rewrite <- app_assoc, RefineConcMem.mget_app. reflexivity. }
  assert (Efin : lget (PtGd hbuf T F key h n extra pextra ke) "rc.fin" = Some (VPtr "fin" 0)).
  { unfold PtGd. rewrite lget_lset_other' by discriminate. unfold Pt0d. rewrite <- app_assoc, RefineConcMem.lget_app. reflexivity. }
  assert (Eout : lget (PtGd hbuf T F key h n extra pextra ke) "rc.out" = Some (VPtr "fout" 0)).
  { unfold PtGd. rewrite lget_lset_other' by discriminate. unfold Pt0d. rewrite <- app_assoc, RefineConcMem.lget_app. reflexivity. }
  rewrite (RefineFileBase.x_scall whole_prog [] (300 + 2 * T) None "buffergroup::set_buffergroup/4" (Some (EVar "iobuffer"))
             [ECast U32 (ELoad U8 (EField "threads_num")); EPtrVar (EField "fin"); EPtrVar (EField "out"); EVar "cmode"]
             {| mem := (A0' ++ seg3zd hbuf T F key h n extra pextra ke)%list; loc := l1; pre := "rc."; files := F1';
                ptrs := PtGd hbuf T F key h n extra pextra ke; fresh := S h |}
             [VInt (Z.of_nat T); VPtr "fin" 0; VPtr "fout" 0; VInt 0] g None
             {| mem := MB1 c hbuf T F key h n extra pextra ke; loc := l1; pre := "rc."; files := F1';
                ptrs := PtB1 hbuf T F key h n extra pextra ke; fresh := (h + 3)%nat |}
             {| mem := MB1 c hbuf T F key h n extra pextra ke; loc := l1; pre := "rc."; files := F1';
                ptrs := PtB1 hbuf T F key h n extra pextra ke; fresh := (h + 3)%nat |}).
  - cbn [bind set_ret]. replace (S (300 + 2 * T)) with (301 + 2 * T)%nat by lia.
    fold pa_body. change (s_snd (s_snd (s_snd (s_snd pa_body)))) with pa_tail.
    replace (h + 3)%nat with (h + 3)%nat in ET by reflexivity.
    apply (exec_mono _ _ _ _ _ _ ET). lia.
  - cbn [eval_list eval bind as_int loc pre mem ptrs append]. rewrite Ethr, Efin, Eout. cbn [bind].
    change (load_obj {| o_ty := U8; o_cells := [Z.of_nat T] |} U8 0) with (MiniC.Ok (wrap U8 (Z.of_nat T)) : res Z).
    cbn [bind as_int]. rewrite !(wrap_U8_small (Z.of_nat T)) by lia. rewrite (wrap_U32_small (Z.of_nat T)) by lia.
    change (lget l1 "cmode") with (Some (VInt 0)). reflexivity.
  - reflexivity.
  - apply (call_mono whole_prog [] (100 + 2 * T) _ _ _ _ _ (set_buffergroup_call l1 "rc.")). lia.
  - reflexivity.
Qed.
End PA.

(* the target: the decrypt copy of pa_rest_ok.  Extra hypothesis w.r.t. the list in PARALLEL4: n <> 0
   (the object "#0" of A0d would shadow heap_name 0; in the encrypt version this followed from the disjointness hypothesis). *)
Theorem pa_rest_ok_d : forall (c hbuf T : nat) (F key : list N) (h n : nat) (extra : memory) (pextra : locs) (kd : mkind) (ivo : object),
  (1 <= T <= 16)%nat -> block16 key -> block16 (firstn 16 (skipn 48 F)) ->
  create false (nth 8 F 0%N) = Some kd -> (n < h)%nat -> n <> 0%nat ->
  mget extra (heap_name n) = Some ivo -> o_ty ivo = U8 -> (16 <= List.length (o_cells ivo))%nat ->
  firstn 16 (o_cells ivo) = map Z.of_N (firstn 16 (skipn 48 F)) ->
  ext_mem_ok h extra = true -> ext_ptr_ok h pextra = true ->
  no_sizeof_names extra = true -> no_alloc_keys pextra = true ->
  pa_rest_spec_d c hbuf T F key h n extra pextra kd.
Proof.
  intros c hbuf T F key h n extra pextra kd [ty ivc] HT Hkey Hivb Hke Hn Hn0 Hivo Hty Hl H16 Hext Hpext Hnosz Hnoal.
  cbn [o_ty o_cells] in Hty, Hl, H16. subst ty.
  exact (pa_rest_seq c hbuf T F key h n extra pextra kd HT Hkey Hivb Hke Hn Hn0 ivc Hivo Hl H16 Hext Hpext Hnosz Hnoal).
Qed.
Print Assumptions pa_rest_ok_d.
