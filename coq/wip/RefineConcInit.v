(* The machine state after the set-up (get_instance, set_buffergroup, the spawn loop of run_multicry, up to the first lock of the
   main thread): for every T in 1..16 it is the canonical state of PipeConc's initial state.  By evaluation per T (c, the padding
   flag and the input stay symbolic: the set-up does not inspect them). *)
From Coq Require Import ZArith NArith List String Bool Lia Arith.
From Wencry Require Import Bytes FileModel PipeConc MiniC MiniCConc SrcRun SrcRun4 RefineConcSim.
Import ListNotations.

Definition mb_init (c : nat) : mbuf :=
  {| mb_cells := repeat 0%Z (Z.to_nat (16 * Z.of_nat c)); mb_tot := 0; mb_now := 0; mb_tail := 0; mb_fin := false; mb_st := 0 |}.
Definition d_init (c T : nat) : mdata :=
  {| d_turn := 0; d_over := false; d_live := T; d_ns := repeat 0%Z T; d_bufs := repeat (mb_init c) T; d_pos := 0; d_eof := false; d_out := [] |}.
Definition g_init (T : nat) : tghost := {| g_rb := []; g_bu := []; g_wl := map wl0 (seq 0 T) |}.

Lemma init_state : forall c T pad input, (1 <= T <= 16)%nat ->
  run_to_marker 20 (5000 + 400 * c) (conc_init c T pad input) =
  MiniC.Ok (cstate_md c T pad input I_WaitUpdate (repeat W_New T) (d_init c T) (g_init T)).
Proof.
  intros c T pad input HT.
  do 17 (destruct T as [|T]; [try lia; destruct pad; vm_compute; reflexivity|]). lia.
Qed.
