(* The translated buffer hand-over protocol (MiniCConc machine on Gen/Src_conc.v) follows PipeConc:
   SRC_protocol_follows_PipeConc_proof.  Layers: RefineConcStep*.v (machine side), RefineConcRel*.v (relation), this file (assembly). *)
From Coq Require Import ZArith NArith List String Bool Lia Arith.
From Wencry Require Import Bytes FileModel ModesProofs PipeConc PipeProps PipeLemmas MiniC MiniCLemmas MiniCConc SrcRun SrcRun4.
From Wencry Require Import RefineConcPipe RefineConcDone RefineConcInit.
From Wencry Require Import RefineConcSim RefineConcMem RefineConcMach RefineConcTac RefineConcStepW RefineConcStepI5
  RefineConcRel RefineConcRelW RefineConcRelI RefineConcRelIO.
Import ListNotations.
Local Open Scope list_scope.

Section Main.
Variables (c T : nat) (pad : bool) (input0 : list N).
Hypothesis Hc : (1 <= c)%nat.
Hypothesis Hc32 : (16 * Z.of_nat c < 2 ^ 32)%Z.
Hypothesis HT : (1 <= T <= 16)%nat.
Hypothesis Hbytes : bytesb input0 = true.
Hypothesis Hlen36 : (N.of_nat (List.length input0) < 2 ^ 36)%N.

Notation sim := (sim c T pad input0).
Notation step := (pstep c pad).
Notation cst := (cstate_md c T pad input0).

(* ---- one step ---- *)
Theorem sim_step : forall s cs tid s' evs, sim s cs -> step s tid = Some (s', evs) ->
  exists n cs' evs', (n <= 200)%nat /\ cstep prog vt n cs tid = Ok (cs', evs') /\ nev evs' = evs /\ sim s' cs'.
Proof.
  intros s cs tid s' evs Hsim Hst.
  assert (Lb : nT _ s = T) by (destruct Hsim as (d & g & _ & (L & _) & _); exact L).
  unfold PipeConc.step in Hst. rewrite Lb in Hst. destruct (Nat.leb_spec tid T) as [Le|Gt].
  - unfold step_real in Hst. destruct tid as [|i].
    + (* the I/O thread *)
      destruct (io _ s) eqn:Eio.
      * pose proof (sim_io_wait c T pad input0 Hc Hc32 HT Hbytes Hlen36 s cs false Hsim Eio) as G.
        unfold step_io in Hst. rewrite Eio in Hst. injection Hst as E. rewrite E in G. exact G.
      * unfold step_io in Hst. rewrite Eio in Hst. discriminate Hst.
      * pose proof (sim_io_wait c T pad input0 Hc Hc32 HT Hbytes Hlen36 s cs true Hsim Eio) as G.
        unfold step_io in Hst. rewrite Eio in Hst. injection Hst as E. rewrite E in G. exact G.
      * eapply sim_io_cmp; eassumption.
      * eapply sim_io_export; eassumption.
      * eapply sim_io_load; eassumption.
      * eapply sim_io_setready; eassumption.
      * eapply sim_io_turn; eassumption.
      * eapply sim_io_join; eassumption.
      * unfold step_io in Hst. rewrite Eio in Hst. discriminate Hst.
    + rewrite Lb in Hst. destruct (Nat.ltb_spec i T) as [Hi|Hi]; [|discriminate Hst].
      eapply sim_worker; eassumption.
  - replace tid with (S T + (tid - T - 1))%nat by lia.
    destruct (sim_spurious c T pad input0 Hc HT Hbytes Hlen36 s cs (tid - T - 1) s' evs Hsim Hst) as (cs' & evs' & H1 & H2 & H3).
    exists 0%nat, cs', evs'. split; [lia|]. split; [exact H1|]. split; assumption.
Qed.

(* ---- the number of enabled threads ---- *)
Lemma enabled_agree : forall s cs, sim s cs -> io _ s <> I_Done ->
  MiniCConc.enabled_count cs = PipeConc.enabled_count St tag_tr tag_event c pad s.
Proof.
  intros s cs (d & g & -> & Hdr & Htg & Hre) Hnd.
  pose proof Hdr as (Lb & Lw & Lx & _).
  unfold MiniCConc.enabled_count, PipeConc.enabled_count, nT. cbn [cstate_md cs_thr]. rewrite threads_length, Lb. f_equal.
  apply filter_ext_in. intros tid Hin. apply in_seq in Hin.
  unfold MiniCConc.enabled, nth_thread, PipeConc.enabled, step_real. cbn [cstate_md cs_thr cs_mx cs_sh].
  destruct tid as [|i].
  - rewrite nth_thread_io. unfold step_io. cbv zeta.
    destruct (io _ s) eqn:Eio; cbn [io_thread mk2 RefineConcSim.mk ct_st].
    + destruct (i_wait St s false). destruct (first_is_lock _ _); reflexivity.
    + reflexivity.
    + destruct (i_wait St s true). reflexivity.
    + destruct (b_st _); destruct (first_is_lock _ _); reflexivity.
    + destruct (first_is_lock _ _); reflexivity.
    + destruct (over _ s); [destruct (first_is_lock _ _); reflexivity|]. destruct (input _ s); destruct (first_is_lock _ _); reflexivity.
    + destruct (first_is_lock _ _); reflexivity.
    + destruct (live _ s =? 0)%nat; destruct (first_is_lock _ _); reflexivity.
    + pose proof (reach_join c T pad input0 Hc HT Hbytes s k Hre Eio) as Hk.
      unfold thread_done, nth_thread. cbn [cs_thr cstate_md]. rewrite nth_thread_worker by exact Hk. unfold getw. destruct (nth k (wpcs _ s) W_Done); reflexivity.
    + congruence.
  - assert (Hi : (i < T)%nat) by lia. rewrite nth_thread_worker by exact Hi. unfold nT. rewrite Lb.
    replace (i <? T)%nat with true by (symmetry; apply Nat.ltb_lt; exact Hi).
    unfold step_worker. fold (getw _ s i).
    assert (Hx : nth_error (wsts _ s) i = Some (nth i (wsts _ s) (0%N, 0%N))) by (apply nth_error_some_nth; lia).
    destruct (getw _ s i) eqn:Ew; cbn [worker_thread mk2 RefineConcSim.mk ct_st].
    + destruct (first_is_lock _ _); reflexivity.
    + destruct (w_wait St s i true false). destruct (first_is_lock _ _); reflexivity.
    + rewrite Hx. destruct (take_entry _ _ _ _ _ _) as [[[? ?] ?]|]; destruct (first_is_lock _ _); reflexivity.
    + destruct (first_is_lock _ _); reflexivity.
    + destruct (w_wait St s i false false). destruct (first_is_lock _ _); reflexivity.
    + reflexivity.
    + destruct (w_wait St s i from_start true). reflexivity.
    + rewrite Hx. destruct (b_st _); try (destruct (first_is_lock _ _); reflexivity).
      destruct (take_entry _ _ _ _ _ _) as [[[? ?] ?]|]; destruct (first_is_lock _ _); reflexivity.
    + reflexivity.
Qed.


(* ---- no step from a state whose I/O thread is done ---- *)
Notation inv_done := (inv_done St).
Lemma step_not_done : forall s tid s' evs, inv_done s -> List.length (wpcs _ s) = T -> List.length (bufs _ s) = T ->
  step s tid = Some (s', evs) -> io _ s <> I_Done.
Proof.
  intros s tid s' evs Hinv Lw Lb Hst Eio. unfold RefineConcDone.inv_done in Hinv. rewrite Eio in Hinv.
  unfold PipeConc.step, nT in Hst. rewrite Lb in Hst. destruct (tid <=? T)%nat.
  - unfold step_real in Hst. destruct tid as [|i].
    + unfold step_io in Hst. rewrite Eio in Hst. discriminate Hst.
    + unfold nT in Hst. rewrite Lb in Hst. destruct (Nat.ltb_spec i T) as [Hi|Hi]; [|discriminate Hst].
      unfold step_worker in Hst. rewrite (Hinv i) in Hst by lia. discriminate Hst.
  - unfold spurious in Hst. destruct (tid - T - 1)%nat as [|i].
    + rewrite Eio in Hst. discriminate Hst.
    + unfold nT in Hst. rewrite Lb in Hst. destruct (Nat.ltb_spec i T) as [Hi|Hi]; [|discriminate Hst].
      rewrite (Hinv i) in Hst by lia. discriminate Hst.
Qed.

(* ---- the whole schedule ---- *)
Definition norm_log (l : list (nat * nat * list MiniCConc.event)) : list (nat * nat * list PipeConc.event) :=
  map (fun x => match x with (tid, ne, evs) => (tid, ne, map norm_ev (filter (fun e => negb (is_marker e)) evs)) end) l.

Lemma run_sim : forall sched s cs s' log, sim s cs -> inv_done s ->
  run_events St tag_tr tag_event c pad s sched = Some (s', log) ->
  exists cs' log', crun prog vt (5000 + 400 * c) cs sched = Ok (cs', log') /\ norm_log log' = log /\ sim s' cs' /\ inv_done s'.
Proof.
  induction sched as [|tid sched IH]; intros s cs s' log Hsim Hinv Hrun.
  - cbn [run_events] in Hrun. injection Hrun as <- <-. exists cs, []. repeat split; assumption.
  - cbn [run_events] in Hrun. destruct (step s tid) as [[s1 evs]|] eqn:Est; [|discriminate Hrun].
    destruct (run_events St tag_tr tag_event c pad s1 sched) as [[s2 l]|] eqn:Er; [|discriminate Hrun]. injection Hrun as <- <-.
    destruct (sim_step s cs tid s1 evs Hsim Est) as (n & cs1 & evs1 & Hn & Hcs & Hev & Hsim1).
    assert (Hsh : List.length (wpcs _ s) = T /\ List.length (bufs _ s) = T /\ List.length (wsts _ s) = T).
    { destruct Hsim as (d & g & _ & (L1 & L2 & L3 & _) & _). auto. }
    destruct Hsh as (Lw & Lb & Lx).
    assert (Hinv1 : inv_done s1) by (eapply (inv_done_step St tag_tr tag_event c pad (0%N, 0%N)); [| |exact Hinv|exact Est]; lia).
    destruct (IH s1 cs1 s2 l Hsim1 Hinv1 Er) as (cs2 & l2 & Hcr & Hl & Hsim2 & Hinv2).
    exists cs2, ((tid, MiniCConc.enabled_count cs, evs1) :: l2).
    split.
    + cbn [crun]. rewrite (cstep_mono n cs tid _ Hcs) by lia. cbn [bind]. rewrite Hcr. reflexivity.
    + split; [|split; assumption]. cbn [norm_log map]. fold (nev evs1). rewrite Hev. fold (norm_log l2). rewrite Hl.
      rewrite (enabled_agree s cs Hsim (step_not_done s tid s1 evs Hinv Lw Lb Est)). reflexivity.
Qed.


(* ---- the initial states are related ---- *)
Lemma sim_init : sim (init St T (tag_init T) (loads_of c pad input0))
                     (cstate_md c T pad input0 I_WaitUpdate (repeat W_New T) (d_init c T) (g_init T)).
Proof.
  exists (d_init c T), (g_init T). split; [reflexivity|]. split; [|split].
  - unfold drel, d_init, init. cbn [bufs wpcs wsts turn over live crashed output input io d_bufs d_ns d_turn d_over d_live d_out d_pos d_eof].
    rewrite !repeat_length. unfold tag_init. rewrite map_length, seq_length.
    split; [reflexivity|]. split; [reflexivity|]. split; [reflexivity|]. split; [reflexivity|]. split; [reflexivity|]. split; [reflexivity|].
    split; [lia|]. split; [reflexivity|]. split; [reflexivity|]. split; [lia|]. split; [reflexivity|]. split; [reflexivity|].
    split; [|split].
    + intros i Hi. unfold getb. cbn [bufs]. rewrite !nth_repeat_lt by exact Hi.
      unfold brel, mb_init, empty_buf. cbn [mb_st mb_fin mb_cells mb_tot mb_now b_st b_total b_now b_final b_data bst_code].
      split; [reflexivity|]. split; [reflexivity|]. split; [rewrite repeat_length; lia|].
      split; [apply Forall_forall; intros z Hz; apply repeat_spec in Hz; subst z; unfold byteZ; lia|].
      left. repeat split; try reflexivity; try lia. constructor.
    + intros i Hi. cbn zeta. rewrite nth_repeat_lt by exact Hi.
      rewrite (nth_indep _ (0%N, 0%N) ((fun i => (N.of_nat i, 0%N)) 0%nat)) by (rewrite map_length, seq_length; exact Hi).
      rewrite (map_nth (fun i => (N.of_nat i, 0%N))). rewrite seq_nth by exact Hi. cbn [fst snd Nat.add]. split; reflexivity.
    + intros _. cbn [skipn]. split; [reflexivity|]. split; [lia|reflexivity].
  - unfold tg_ok, g_init. cbn [g_wl g_rb g_bu init io]. rewrite map_length, seq_length.
    split; [reflexivity|]. split; [left; reflexivity|]. split; [exact I|].
    intros i Hi. unfold getw. cbn [init wpcs]. rewrite nth_repeat_lt by exact Hi. cbn [wl_ok].
    rewrite (nth_indep _ [] (wl0 0)) by (rewrite map_length, seq_length; exact Hi). rewrite (map_nth wl0), seq_nth by exact Hi. reflexivity.
  - apply (reach_init c T pad input0 Hc (proj1 HT) Hbytes).
Qed.

End Main.

(* ================= the theorem ================= *)
Lemma SRC_protocol_follows_PipeConc_proof : forall c T (ispadding : bool) input sched s log,
  (1 <= c)%nat -> (N.of_nat (16 * c) < 2 ^ 32)%N -> (1 <= T <= 16)%nat -> bytesb input = true ->
  (N.of_nat (List.length input) < 2 ^ 36)%N ->
  tag_run c T ispadding input sched = Some (s, log) ->
  exists cs log',
    conc_src_run c T ispadding input sched = SOk (cs, log') /\
    norm_log log' = log /\
    (terminal (N * N) s = true -> all_done cs = true /\ conc_output cs = concat (output (N * N) s)).
Proof.
  intros c T pad input sched s log Hc Hc32N HT Hb Hl Hrun.
  assert (Hc32 : (16 * Z.of_nat c < 2 ^ 32)%Z) by lia.
  unfold tag_run in Hrun.
  destruct (run_sim c T pad input Hc Hc32 HT Hb Hl sched _ _ s log (sim_init c T pad input Hc HT Hb Hl)) as (cs & log' & Hcr & Hlog & Hsim & Hinv).
  - unfold RefineConcDone.inv_done, init. cbn [io]. exact I.
  - exact Hrun.
  - exists cs, log'. split; [|split; [exact Hlog|]].
    + unfold conc_src_run. rewrite (init_state c T pad input HT). rewrite Hcr. reflexivity.
    + intros Hterm. destruct Hsim as (d & g & -> & Hdr & Htg & Hre).
      pose proof Hdr as (Lb & Lw & Lx & Ldb & Ldn & Htu & HtT & Hov & Hlv & HlT & Hcr' & Hout & _).
      unfold terminal in Hterm. destruct (io _ s) eqn:Eio; try discriminate Hterm.
      split.
      * unfold all_done. cbn [cstate_md cs_thr threads_of skipn]. apply forallb_forall. intros t Ht.
        apply in_map_iff in Ht. destruct Ht as (i & <- & Hi). apply in_seq in Hi.
        assert (Hd : nth i (wpcs _ s) W_Done = W_Done).
        { assert (In (nth i (wpcs _ s) W_Done) (wpcs _ s)) by (apply nth_In; lia).
          pose proof (proj1 (forallb_forall _ _) Hterm _ H) as Q. destruct (nth i (wpcs _ s) W_Done); try discriminate Q; reflexivity. }
        rewrite Hd. reflexivity.
      * unfold conc_output. cbn [cstate_md cs_sh sh_of files files_of lget String.eqb Ascii.eqb Bool.eqb cf_data].
        rewrite Hout. rewrite map_map. rewrite <- (map_id (concat (output _ s))) at 2. apply map_ext. intros a. apply N2Z.id.
Qed.

(* non-vacuity: the hypotheses are satisfiable, with a complete schedule (terminal state, spurious wake-ups included) *)
Example SRC_protocol_nonvacuous :
  let inp := ex_bytes 40 in let sc := mksched 1 2 true inp 7%N in
  (1 <= 1)%nat /\ (N.of_nat (16 * 1) < 2 ^ 32)%N /\ (1 <= 2 <= 16)%nat /\ bytesb inp = true /\ (N.of_nat (List.length inp) < 2 ^ 36)%N /\
  match tag_run 1 2 true inp sc with
  | Some (s, log) => terminal (N * N) s = true /\ (10 <= List.length log)%nat /\ existsb (fun t => Nat.ltb 2 t) sc = true
  | None => False
  end.
Proof. vm_compute. repeat split; try reflexivity; try lia. all: intro H; discriminate H. Qed.
