(* Names of the heap objects of the buffer group and the "memory algebra" of the canonical shared state
   [RefineConcSim.mem_of]: reads and in-place writes of every object the protocol code touches, and the lookups in the
   (constant) pointer table. *)
From Coq Require Import ZArith NArith List String Bool Lia Ascii Arith.
From Wencry Require Import Bytes FileModel PipeConc MiniC MiniCLemmas MiniCConc SrcRun SrcRun4 PipeLemmas RefineConcSim.
Import ListNotations.
Local Open Scope string_scope.
Local Open Scope list_scope.

(* ================= strings ================= *)
Definition is_digit (a : ascii) : bool := (48 <=? nat_of_ascii a)%nat && (nat_of_ascii a <=? 57)%nat.
Fixpoint digits (s : string) : bool := match s with EmptyString => true | String a r => is_digit a && digits r end.

Lemma digits_go : forall k n acc, digits acc = true -> digits (go k n acc) = true.
Proof.
  induction k as [|k IH]; intros n acc H; cbn [go]; [exact H|].
  assert (D : digits (String (ascii_of_nat (48 + n mod 10)) acc) = true).
  { cbn [digits]. rewrite H, andb_true_r. unfold is_digit. rewrite nat_ascii_embedding.
    - pose proof (Nat.mod_upper_bound n 10 ltac:(lia)). apply andb_true_iff. split; apply Nat.leb_le; lia.
    - pose proof (Nat.mod_upper_bound n 10 ltac:(lia)). lia. }
  destruct (n / 10 =? 0)%nat; [exact D|]. apply IH. exact D.
Qed.
Lemma digits_nat_string : forall n, digits (nat_string n) = true.
Proof. intros n. rewrite nat_string_go. apply digits_go. reflexivity. Qed.

(* a string of digits followed by a non-digit determines both parts *)
Lemma digits_prefix_inj : forall u v x y a b,
  digits u = true -> digits v = true -> is_digit x = false -> is_digit y = false ->
  (u ++ String x a)%string = (v ++ String y b)%string -> u = v /\ String x a = String y b.
Proof.
  induction u as [|c u IH]; intros v x y a b Du Dv Hx Hy E.
  - destruct v as [|d v]; cbn [append] in E.
    + split; [reflexivity|exact E].
    + injection E as E1 E2. subst d. cbn [digits] in Dv. rewrite Hx in Dv. discriminate.
  - destruct v as [|d v]; cbn [append] in E.
    + injection E as E1 E2. subst c. cbn [digits] in Du. rewrite Hy in Du. discriminate.
    + injection E as E1 E2. subst d. cbn [digits] in Du, Dv.
      apply andb_true_iff in Du. apply andb_true_iff in Dv.
      destruct (IH v x y a b (proj2 Du) (proj2 Dv) Hx Hy E2) as [-> R]. split; [reflexivity|exact R].
Qed.

Lemma z_string_nat : forall i, z_string (Z.of_nat i) = nat_string i.
Proof. intros i. unfold z_string. destruct (Z.of_nat i <? 0)%Z eqn:E; [apply Z.ltb_lt in E; lia|]. now rewrite Nat2Z.id. Qed.

Lemma elem_pfx_inj : forall o i j a b, (elem_pfx o i ++ a)%string = (elem_pfx o j ++ b)%string -> i = j /\ a = b.
Proof.
  intros o i j a b E. unfold elem_pfx in E. rewrite !z_string_nat in E.
  rewrite !append_assoc_s in E. apply append_inj_l in E. cbn [append] in E. injection E as E.
  destruct (digits_prefix_inj (nat_string i) (nat_string j) "]"%char "]"%char _ _ (digits_nat_string i) (digits_nat_string j) eq_refl eq_refl E) as [E1 E2].
  apply nat_string_inj in E1. injection E2 as E2. split; assumption.
Qed.
Lemma elem_pfx_eqb : forall o i j a b, String.eqb (elem_pfx o i ++ a) (elem_pfx o j ++ b) = Nat.eqb i j && String.eqb a b.
Proof.
  intros o i j a b. destruct (String.eqb (elem_pfx o i ++ a) (elem_pfx o j ++ b)) eqn:E.
  - apply String.eqb_eq in E. apply elem_pfx_inj in E. destruct E as [-> ->]. now rewrite Nat.eqb_refl, String.eqb_refl.
  - destruct (Nat.eqb i j) eqn:E1; [|reflexivity]. destruct (String.eqb a b) eqn:E2; [|reflexivity].
    apply Nat.eqb_eq in E1. apply String.eqb_eq in E2. subst. now rewrite String.eqb_refl in E.
Qed.
Lemma elem_pfx_eqb_other : forall o i j a b, i <> j -> String.eqb (elem_pfx o i ++ a) (elem_pfx o j ++ b) = false.
Proof. intros. rewrite elem_pfx_eqb. apply Nat.eqb_neq in H. now rewrite H. Qed.
Lemma elem_pfx_eqb_same : forall o i a b, String.eqb (elem_pfx o i ++ a) (elem_pfx o i ++ b) = String.eqb a b.
Proof. intros. now rewrite elem_pfx_eqb, Nat.eqb_refl. Qed.

Lemma mode_name_inj : forall i j a b, (mode_name i ++ a)%string = (mode_name j ++ b)%string -> i = j /\ a = b.
Proof.
  intros i j a b E. unfold mode_name in E. rewrite !append_assoc_s in E. cbn [append] in E. injection E as E.
  destruct (digits_prefix_inj (nat_string i) (nat_string j) "."%char "."%char _ _ (digits_nat_string i) (digits_nat_string j) eq_refl eq_refl E) as [E1 E2].
  apply nat_string_inj in E1. injection E2 as E2. split; assumption.
Qed.
Lemma mode_name_eqb : forall i j a b, String.eqb (mode_name i ++ a) (mode_name j ++ b) = Nat.eqb i j && String.eqb a b.
Proof.
  intros i j a b. destruct (String.eqb (mode_name i ++ a) (mode_name j ++ b)) eqn:E.
  - apply String.eqb_eq in E. apply mode_name_inj in E. destruct E as [-> ->]. now rewrite Nat.eqb_refl, String.eqb_refl.
  - destruct (Nat.eqb i j) eqn:E1; [|reflexivity]. destruct (String.eqb a b) eqn:E2; [|reflexivity].
    apply Nat.eqb_eq in E1. apply String.eqb_eq in E2. subst. now rewrite String.eqb_refl in E.
Qed.

(* the first characters of the names *)
Lemma elem_pfx_head : forall o i a, (elem_pfx o i ++ a)%string = (o ++ String "[" (nat_string i ++ String "]" (String "." a)))%string.
Proof. intros. unfold elem_pfx. rewrite z_string_nat, !append_assoc_s. cbn [append]. reflexivity. Qed.
Lemma bpfx_head : forall i a, (bpfx i ++ a)%string = String "#" (String "1" (String "[" (nat_string i ++ String "]" (String "." a)))).
Proof. intros. unfold bpfx. rewrite elem_pfx_head. reflexivity. Qed.
Lemma cpfx_head : forall i a, (cpfx i ++ a)%string = String "#" (String "2" (String "[" (nat_string i ++ String "]" (String "." a)))).
Proof. intros. unfold cpfx. rewrite elem_pfx_head. reflexivity. Qed.
Lemma mode_head : forall i a, (mode_name i ++ a)%string = String "m" (nat_string i ++ String "." a).
Proof. intros. unfold mode_name. rewrite !append_assoc_s. reflexivity. Qed.

(* ================= association lists: append and families ================= *)
Lemma mget_app : forall a b k, mget (a ++ b) k = match mget a k with Some o => Some o | None => mget b k end.
Proof. induction a as [|[k' o] a IH]; intros b k; cbn [mget app]; [reflexivity|]. destruct (String.eqb k k'); [reflexivity|apply IH]. Qed.
Lemma mset_app_l : forall a b k o, mget a k <> None -> mset (a ++ b) k o = mset a k o ++ b.
Proof.
  induction a as [|[k' o'] a IH]; intros b k o H; cbn [mget mset app] in *; [congruence|].
  destruct (String.eqb k k'); [reflexivity|]. cbn [app]. f_equal. apply IH. exact H.
Qed.
Lemma mset_app_r : forall a b k o, mget a k = None -> mset (a ++ b) k o = a ++ mset b k o.
Proof.
  induction a as [|[k' o'] a IH]; intros b k o H; cbn [mget mset app] in *; [reflexivity|].
  destruct (String.eqb k k'); [discriminate|]. f_equal. apply IH. exact H.
Qed.
Lemma mget_flat_none : forall (f : nat -> memory) l k, (forall j, mget (f j) k = None) -> mget (flat_map f l) k = None.
Proof. induction l as [|x l IH]; intros k H; cbn [flat_map]; [reflexivity|]. rewrite mget_app, H. apply IH. exact H. Qed.
Lemma mget_flat_at : forall (f : nat -> memory) k i n a, (forall j, j <> i -> mget (f j) k = None) -> (a <= i < a + n)%nat ->
  mget (flat_map f (seq a n)) k = mget (f i) k.
Proof.
  intros f k i. induction n as [|n IH]; intros a H R; [lia|]. cbn [seq flat_map]. rewrite mget_app.
  destruct (Nat.eq_dec a i) as [->|N].
  - destruct (mget (f i) k) eqn:E; [reflexivity|]. apply mget_flat_none. intros j. destruct (Nat.eq_dec j i) as [->|N]; [exact E|apply H; exact N].
  - rewrite (H a N). apply IH; [exact H|lia].
Qed.
Lemma flat_map_ext_seq : forall (f g : nat -> memory) a n, (forall j, (a <= j < a + n)%nat -> f j = g j) -> flat_map f (seq a n) = flat_map g (seq a n).
Proof.
  intros f g a n. revert a. induction n as [|n IH]; intros a H; [reflexivity|]. cbn [seq flat_map].
  rewrite (H a) by lia. f_equal. apply IH. intros j Hj. apply H. lia.
Qed.
Lemma mset_flat_at : forall (f : nat -> memory) k o i n a, (forall j, j <> i -> mget (f j) k = None) -> mget (f i) k <> None ->
  (a <= i < a + n)%nat ->
  mset (flat_map f (seq a n)) k o = flat_map (fun j => if Nat.eqb j i then mset (f i) k o else f j) (seq a n).
Proof.
  intros f k o i. induction n as [|n IH]; intros a H S R; [lia|]. cbn [seq flat_map].
  destruct (Nat.eq_dec a i) as [->|N].
  - rewrite Nat.eqb_refl. rewrite mset_app_l by exact S. f_equal.
    apply flat_map_ext_seq. intros j Hj. destruct (Nat.eqb_spec j i); [lia|reflexivity].
  - destruct (Nat.eqb_spec a i); [lia|]. rewrite mset_app_r by (apply H; exact N). f_equal. apply IH; [exact H|exact S|lia].
Qed.

Lemma lget_app : forall A (a b : list (string * A)) k, lget (a ++ b) k = match lget a k with Some o => Some o | None => lget b k end.
Proof. induction a as [|[k' o] a IH]; intros b k; cbn [lget app]; [reflexivity|]. destruct (String.eqb k k'); [reflexivity|apply IH]. Qed.
Lemma lget_map_none : forall A (key : nat -> string) (v : nat -> A) l k, (forall j, String.eqb k (key j) = false) ->
  lget (map (fun i => (key i, v i)) l) k = None.
Proof. induction l as [|x l IH]; intros k H; cbn [map lget]; [reflexivity|]. rewrite H. apply IH. exact H. Qed.
Lemma lget_map_at : forall A (key : nat -> string) (v : nat -> A) k i n a, (forall j, j <> i -> String.eqb k (key j) = false) ->
  String.eqb k (key i) = true -> (a <= i < a + n)%nat -> lget (map (fun i => (key i, v i)) (seq a n)) k = Some (v i).
Proof.
  intros A key v k i. induction n as [|n IH]; intros a H E R; [lia|]. cbn [seq map lget].
  destruct (Nat.eq_dec a i) as [->|N]; [now rewrite E|]. rewrite (H a N). apply IH; [exact H|exact E|lia].
Qed.

(* ================= names: who is who ================= *)
Ltac neq_head := cbn [String.eqb Ascii.eqb Bool.eqb]; reflexivity.

(* ================= reads of mem_of ================= *)
Section Mem.
Variables (c T : nat) (pad : bool).

Definition upd_buf (i : nat) (f : mbuf -> mbuf) (bs : list mbuf) : list mbuf := set_nth i (f (nth i bs mb0)) bs.
Lemma nth_upd_buf_same : forall i f bs, (i < List.length bs)%nat -> nth i (upd_buf i f bs) mb0 = f (nth i bs mb0).
Proof. intros. unfold upd_buf. apply nth_set_nth_eq. exact H. Qed.
Lemma nth_upd_buf_other : forall i j f bs, i <> j -> nth j (upd_buf i f bs) mb0 = nth j bs mb0.
Proof. intros. unfold upd_buf. apply nth_set_nth_neq. exact H. Qed.
Lemma upd_buf_length : forall i f bs, List.length (upd_buf i f bs) = List.length bs.
Proof. intros. unfold upd_buf. apply set_nth_length. Qed.

Definition with_live (d : mdata) (v : nat) : mdata :=
  {| d_turn := d_turn d; d_over := d_over d; d_live := v; d_ns := d_ns d; d_bufs := d_bufs d; d_pos := d_pos d; d_eof := d_eof d; d_out := d_out d |}.
Definition with_turn (d : mdata) (v : nat) : mdata :=
  {| d_turn := v; d_over := d_over d; d_live := d_live d; d_ns := d_ns d; d_bufs := d_bufs d; d_pos := d_pos d; d_eof := d_eof d; d_out := d_out d |}.
Definition with_over (d : mdata) (v : bool) : mdata :=
  {| d_turn := d_turn d; d_over := v; d_live := d_live d; d_ns := d_ns d; d_bufs := d_bufs d; d_pos := d_pos d; d_eof := d_eof d; d_out := d_out d |}.
Definition with_ns (d : mdata) (v : list Z) : mdata :=
  {| d_turn := d_turn d; d_over := d_over d; d_live := d_live d; d_ns := v; d_bufs := d_bufs d; d_pos := d_pos d; d_eof := d_eof d; d_out := d_out d |}.
Definition with_bufs (d : mdata) (v : list mbuf) : mdata :=
  {| d_turn := d_turn d; d_over := d_over d; d_live := d_live d; d_ns := d_ns d; d_bufs := v; d_pos := d_pos d; d_eof := d_eof d; d_out := d_out d |}.
Definition with_fin (d : mdata) (p : nat) (e : bool) : mdata :=
  {| d_turn := d_turn d; d_over := d_over d; d_live := d_live d; d_ns := d_ns d; d_bufs := d_bufs d; d_pos := p; d_eof := e; d_out := d_out d |}.
Definition with_out (d : mdata) (v : list Z) : mdata :=
  {| d_turn := d_turn d; d_over := d_over d; d_live := d_live d; d_ns := d_ns d; d_bufs := d_bufs d; d_pos := d_pos d; d_eof := d_eof d; d_out := v |}.

Definition mb_with_cells (v : list Z) (b : mbuf) : mbuf :=
  {| mb_cells := v; mb_tot := mb_tot b; mb_now := mb_now b; mb_tail := mb_tail b; mb_fin := mb_fin b; mb_st := mb_st b |}.
Definition mb_with_tot (v : Z) (b : mbuf) : mbuf :=
  {| mb_cells := mb_cells b; mb_tot := v; mb_now := mb_now b; mb_tail := mb_tail b; mb_fin := mb_fin b; mb_st := mb_st b |}.
Definition mb_with_now (v : Z) (b : mbuf) : mbuf :=
  {| mb_cells := mb_cells b; mb_tot := mb_tot b; mb_now := v; mb_tail := mb_tail b; mb_fin := mb_fin b; mb_st := mb_st b |}.
Definition mb_with_tail (v : Z) (b : mbuf) : mbuf :=
  {| mb_cells := mb_cells b; mb_tot := mb_tot b; mb_now := mb_now b; mb_tail := v; mb_fin := mb_fin b; mb_st := mb_st b |}.
Definition mb_with_fin (v : bool) (b : mbuf) : mbuf :=
  {| mb_cells := mb_cells b; mb_tot := mb_tot b; mb_now := mb_now b; mb_tail := mb_tail b; mb_fin := v; mb_st := mb_st b |}.
Definition mb_with_st (v : nat) (b : mbuf) : mbuf :=
  {| mb_cells := mb_cells b; mb_tot := mb_tot b; mb_now := mb_now b; mb_tail := mb_tail b; mb_fin := mb_fin b; mb_st := v |}.

(* the five segments of mem_of *)
Definition seg1 (d : mdata) : memory :=
  [("sum", cell U32 (16 * Z.of_nat c)); ("sizeof:iobuffer.b", cell U32 (16 * Z.of_nat c));
   ("live_num", cell U8 (Z.of_nat (d_live d))); ("crym.THREADS_NUM", cell U8 (Z.of_nat T))].
Definition seg3 (d : mdata) : memory :=
  [("#0.turn", cell U32 (Z.of_nat (d_turn d))); ("#0.size", cell U32 (Z.of_nat T));
   ("#0.ispadding", cell TBool (b2z pad)); ("#0.over", cell TBool (b2z (d_over d)))].
Lemma mem_of_eq : forall d, mem_of c T pad d =
  seg1 d ++ flat_map (mode_objs (d_ns d)) (seq 0 T) ++ seg3 d ++ flat_map (iob_objs (d_bufs d)) (seq 0 T) ++ flat_map (ctrl_objs (d_bufs d)) (seq 0 T).
Proof. reflexivity. Qed.

(* lookups that miss a whole segment *)
Lemma modes_none_hash : forall ns l r, mget (flat_map (mode_objs ns) l) (String "#" r) = None.
Proof. intros. apply mget_flat_none. intros j. unfold mode_objs. cbn [mget]. rewrite !mode_head. neq_head. Qed.
Lemma iob_none_c : forall bs l i a, mget (flat_map (iob_objs bs) l) (cpfx i ++ a) = None.
Proof. intros. apply mget_flat_none. intros j. unfold iob_objs. cbn [mget]. rewrite cpfx_head, !bpfx_head. neq_head. Qed.
Lemma ctrl_none_b : forall bs l i a, mget (flat_map (ctrl_objs bs) l) (bpfx i ++ a) = None.
Proof. intros. apply mget_flat_none. intros j. unfold ctrl_objs. cbn [mget]. rewrite bpfx_head, !cpfx_head. neq_head. Qed.
Lemma iob_none_0 : forall bs l r, mget (flat_map (iob_objs bs) l) (String "#" (String "0" r)) = None.
Proof. intros. apply mget_flat_none. intros j. unfold iob_objs. cbn [mget]. rewrite !bpfx_head. neq_head. Qed.
Lemma ctrl_none_0 : forall bs l r, mget (flat_map (ctrl_objs bs) l) (String "#" (String "0" r)) = None.
Proof. intros. apply mget_flat_none. intros j. unfold ctrl_objs. cbn [mget]. rewrite !cpfx_head. neq_head. Qed.

(* ---- lookups in one family ---- *)
Lemma iob_other : forall bs i j a, j <> i -> mget (iob_objs bs j) (bpfx i ++ a) = None.
Proof.
  intros bs i j a N. unfold iob_objs, bpfx. cbn [mget]. rewrite !elem_pfx_eqb_other by congruence. reflexivity.
Qed.
Lemma ctrl_other : forall bs i j a, j <> i -> mget (ctrl_objs bs j) (cpfx i ++ a) = None.
Proof.
  intros bs i j a N. unfold ctrl_objs, cpfx. cbn [mget]. rewrite !elem_pfx_eqb_other by congruence. reflexivity.
Qed.
Lemma modes_other : forall ns i j a, j <> i -> mget (mode_objs ns j) (mode_name i ++ a) = None.
Proof.
  intros ns i j a N. unfold mode_objs. cbn [mget]. rewrite !mode_name_eqb.
  replace (Nat.eqb i j) with false by (symmetry; apply Nat.eqb_neq; congruence). reflexivity.
Qed.

Ltac seg_none := cbn [seg1 seg3 mget]; rewrite ?bpfx_head, ?cpfx_head, ?mode_head; cbn [String.eqb Ascii.eqb Bool.eqb]; reflexivity.

Lemma mget_iob : forall d i a, (i < T)%nat -> mget (mem_of c T pad d) (bpfx i ++ a) = mget (iob_objs (d_bufs d) i) (bpfx i ++ a).
Proof.
  intros d i a Hi. rewrite mem_of_eq, !mget_app.
  replace (mget (seg1 d) (bpfx i ++ a)) with (@None object) by (symmetry; seg_none).
  replace (mget (seg3 d) (bpfx i ++ a)) with (@None object) by (symmetry; seg_none).
  rewrite (bpfx_head i a) at 1. rewrite modes_none_hash. rewrite ctrl_none_b.
  rewrite (mget_flat_at _ _ i) by (try lia; intros; apply iob_other; assumption).
  destruct (mget (iob_objs (d_bufs d) i) (bpfx i ++ a)); reflexivity.
Qed.
Lemma mget_ctrl : forall d i a, (i < T)%nat -> mget (mem_of c T pad d) (cpfx i ++ a) = mget (ctrl_objs (d_bufs d) i) (cpfx i ++ a).
Proof.
  intros d i a Hi. rewrite mem_of_eq, !mget_app.
  replace (mget (seg1 d) (cpfx i ++ a)) with (@None object) by (symmetry; seg_none).
  replace (mget (seg3 d) (cpfx i ++ a)) with (@None object) by (symmetry; seg_none).
  rewrite (cpfx_head i a) at 1. rewrite modes_none_hash. rewrite iob_none_c.
  apply mget_flat_at; [intros; apply ctrl_other; assumption|lia].
Qed.
Lemma mget_modes : forall d i a, (i < T)%nat -> mget (mem_of c T pad d) (mode_name i ++ a) = mget (mode_objs (d_ns d) i) (mode_name i ++ a) \/
                                               mget (mode_objs (d_ns d) i) (mode_name i ++ a) = None.
Proof.
  intros d i a Hi. rewrite mem_of_eq, !mget_app.
  replace (mget (seg1 d) (mode_name i ++ a)) with (@None object) by (symmetry; seg_none).
  rewrite (mget_flat_at _ _ i) by (try lia; intros; apply modes_other; assumption).
  destruct (mget (mode_objs (d_ns d) i) (mode_name i ++ a)); [left|right]; reflexivity.
Qed.

(* ---- the reads ---- *)
Lemma mget_sum : forall d, mget (mem_of c T pad d) "sum" = Some (cell U32 (16 * Z.of_nat c)).
Proof. reflexivity. Qed.
Lemma mget_live : forall d, mget (mem_of c T pad d) "live_num" = Some (cell U8 (Z.of_nat (d_live d))).
Proof. reflexivity. Qed.
Lemma mget_threads : forall d, mget (mem_of c T pad d) "crym.THREADS_NUM" = Some (cell U8 (Z.of_nat T)).
Proof. reflexivity. Qed.
Lemma mget_seg3 : forall d r, mget (mem_of c T pad d) (String "#" (String "0" r)) = mget (seg3 d) (String "#" (String "0" r)).
Proof.
  intros d r. rewrite mem_of_eq, !mget_app. replace (mget (seg1 d) (String "#" (String "0" r))) with (@None object) by (symmetry; seg_none).
  rewrite modes_none_hash, iob_none_0, ctrl_none_0. destruct (mget (seg3 d) (String "#" (String "0" r))); reflexivity.
Qed.
Lemma mget_turn : forall d, mget (mem_of c T pad d) "#0.turn" = Some (cell U32 (Z.of_nat (d_turn d))).
Proof. intros. rewrite mget_seg3. reflexivity. Qed.
Lemma mget_size : forall d, mget (mem_of c T pad d) "#0.size" = Some (cell U32 (Z.of_nat T)).
Proof. intros. rewrite mget_seg3. reflexivity. Qed.
Lemma mget_pad : forall d, mget (mem_of c T pad d) "#0.ispadding" = Some (cell TBool (b2z pad)).
Proof. intros. rewrite mget_seg3. reflexivity. Qed.
Lemma mget_over : forall d, mget (mem_of c T pad d) "#0.over" = Some (cell TBool (b2z (d_over d))).
Proof. intros. rewrite mget_seg3. reflexivity. Qed.

Ltac fam_get := unfold iob_objs, ctrl_objs, mode_objs, bpfx, cpfx; cbn [mget]; rewrite ?elem_pfx_eqb_same, ?mode_name_eqb, ?Nat.eqb_refl; cbn [String.eqb Ascii.eqb Bool.eqb andb]; reflexivity.

Lemma mget_b : forall d i, (i < T)%nat -> mget (mem_of c T pad d) (bpfx i ++ "b") = Some {| o_ty := U8; o_cells := mb_cells (nth i (d_bufs d) mb0) |}.
Proof. intros. rewrite mget_iob by assumption. fam_get. Qed.
Lemma mget_tot : forall d i, (i < T)%nat -> mget (mem_of c T pad d) (bpfx i ++ "total") = Some (cell U32 (mb_tot (nth i (d_bufs d) mb0))).
Proof. intros. rewrite mget_iob by assumption. fam_get. Qed.
Lemma mget_now : forall d i, (i < T)%nat -> mget (mem_of c T pad d) (bpfx i ++ "now") = Some (cell U32 (mb_now (nth i (d_bufs d) mb0))).
Proof. intros. rewrite mget_iob by assumption. fam_get. Qed.
Lemma mget_tail : forall d i, (i < T)%nat -> mget (mem_of c T pad d) (bpfx i ++ "tail") = Some (cell U32 (mb_tail (nth i (d_bufs d) mb0))).
Proof. intros. rewrite mget_iob by assumption. fam_get. Qed.
Lemma mget_fin : forall d i, (i < T)%nat -> mget (mem_of c T pad d) (bpfx i ++ "isfinal") = Some (cell TBool (b2z (mb_fin (nth i (d_bufs d) mb0)))).
Proof. intros. rewrite mget_iob by assumption. fam_get. Qed.
Lemma mget_st : forall d i, (i < T)%nat -> mget (mem_of c T pad d) (cpfx i ++ "state") = Some (cell U32 (Z.of_nat (mb_st (nth i (d_bufs d) mb0)))).
Proof. intros. rewrite mget_ctrl by assumption. fam_get. Qed.
Lemma mget_ms : forall d i, (i < T)%nat -> mget (mem_of c T pad d) (mode_name i ++ "s") = Some (cell I32 (Z.of_nat i)).
Proof. intros d i Hi. destruct (mget_modes d i "s" Hi) as [E|E]; [rewrite E|exfalso; revert E]; fam_get || (unfold mode_objs; cbn [mget]; rewrite mode_name_eqb, Nat.eqb_refl; discriminate). Qed.
Lemma mget_mn : forall d i, (i < T)%nat -> mget (mem_of c T pad d) (mode_name i ++ "n") = Some (cell U32 (nth i (d_ns d) 0%Z)).
Proof. intros d i Hi. destruct (mget_modes d i "n" Hi) as [E|E]; [rewrite E|exfalso; revert E]; fam_get || (unfold mode_objs; cbn [mget]; rewrite !mode_name_eqb, Nat.eqb_refl; discriminate). Qed.

(* ---- the writes ---- *)
Lemma mset_live : forall d v, mset (mem_of c T pad d) "live_num" (cell U8 (Z.of_nat v)) = mem_of c T pad (with_live d v).
Proof. reflexivity. Qed.
Lemma mset_seg3 : forall d r o, mget (seg3 d) (String "#" (String "0" r)) <> None ->
  mset (mem_of c T pad d) (String "#" (String "0" r)) o =
  seg1 d ++ flat_map (mode_objs (d_ns d)) (seq 0 T) ++ mset (seg3 d) (String "#" (String "0" r)) o ++ flat_map (iob_objs (d_bufs d)) (seq 0 T) ++ flat_map (ctrl_objs (d_bufs d)) (seq 0 T).
Proof.
  intros d r o H. rewrite mem_of_eq. rewrite mset_app_r by seg_none. f_equal.
  rewrite mset_app_r by apply modes_none_hash. f_equal. apply mset_app_l. exact H.
Qed.
Lemma mset_turn : forall d v, mset (mem_of c T pad d) "#0.turn" (cell U32 (Z.of_nat v)) = mem_of c T pad (with_turn d v).
Proof. intros. rewrite mset_seg3 by discriminate. reflexivity. Qed.
Lemma mset_over : forall d v, mset (mem_of c T pad d) "#0.over" (cell TBool (b2z v)) = mem_of c T pad (with_over d v).
Proof. intros. rewrite mset_seg3 by discriminate. reflexivity. Qed.

Lemma mset_iob : forall d i a o f, (i < T)%nat -> List.length (d_bufs d) = T ->
  mset (iob_objs (d_bufs d) i) (bpfx i ++ a) o = iob_objs (upd_buf i f (d_bufs d)) i ->
  mget (iob_objs (d_bufs d) i) (bpfx i ++ a) <> None ->
  (forall b, mb_st (f b) = mb_st b) ->
  mset (mem_of c T pad d) (bpfx i ++ a) o = mem_of c T pad (with_bufs d (upd_buf i f (d_bufs d))).
Proof.
  intros d i a o f Hi HL E S St. rewrite !mem_of_eq. cbn [with_bufs d_ns d_bufs d_live d_turn d_over seg1 seg3].
  rewrite mset_app_r by seg_none. f_equal.
  rewrite mset_app_r by (rewrite bpfx_head; apply modes_none_hash). f_equal.
  rewrite mset_app_r by seg_none. f_equal.
  rewrite mset_app_l by (rewrite (mget_flat_at _ _ i) by (try lia; intros; apply iob_other; assumption); exact S).
  f_equal.
  - rewrite (mset_flat_at _ _ _ i) by (try lia; try exact S; intros; apply iob_other; assumption).
    apply flat_map_ext_seq. intros j Hj. destruct (Nat.eqb_spec j i) as [->|N]; [exact E|].
    unfold iob_objs. rewrite nth_upd_buf_other by congruence. reflexivity.
  - apply flat_map_ext_seq. intros j Hj. unfold ctrl_objs. destruct (Nat.eq_dec j i) as [->|N].
    + rewrite nth_upd_buf_same by lia. rewrite St. reflexivity.
    + rewrite nth_upd_buf_other by congruence. reflexivity.
Qed.

Ltac fam_set := unfold iob_objs, ctrl_objs, mode_objs, bpfx, cpfx; cbn [mset mget]; rewrite ?elem_pfx_eqb_same, ?mode_name_eqb, ?Nat.eqb_refl;
  cbn [String.eqb Ascii.eqb Bool.eqb andb]; rewrite ?nth_upd_buf_same by lia; try reflexivity; try discriminate.

Lemma mset_b : forall d i v, (i < T)%nat -> List.length (d_bufs d) = T ->
  mset (mem_of c T pad d) (bpfx i ++ "b") {| o_ty := U8; o_cells := v |} = mem_of c T pad (with_bufs d (upd_buf i (mb_with_cells v) (d_bufs d))).
Proof. intros. apply mset_iob; try assumption; try reflexivity; fam_set. Qed.
Lemma mset_tot : forall d i v, (i < T)%nat -> List.length (d_bufs d) = T ->
  mset (mem_of c T pad d) (bpfx i ++ "total") (cell U32 v) = mem_of c T pad (with_bufs d (upd_buf i (mb_with_tot v) (d_bufs d))).
Proof. intros. apply mset_iob; try assumption; try reflexivity; fam_set. Qed.
Lemma mset_now : forall d i v, (i < T)%nat -> List.length (d_bufs d) = T ->
  mset (mem_of c T pad d) (bpfx i ++ "now") (cell U32 v) = mem_of c T pad (with_bufs d (upd_buf i (mb_with_now v) (d_bufs d))).
Proof. intros. apply mset_iob; try assumption; try reflexivity; fam_set. Qed.
Lemma mset_tail : forall d i v, (i < T)%nat -> List.length (d_bufs d) = T ->
  mset (mem_of c T pad d) (bpfx i ++ "tail") (cell U32 v) = mem_of c T pad (with_bufs d (upd_buf i (mb_with_tail v) (d_bufs d))).
Proof. intros. apply mset_iob; try assumption; try reflexivity; fam_set. Qed.
Lemma mset_fin : forall d i v, (i < T)%nat -> List.length (d_bufs d) = T ->
  mset (mem_of c T pad d) (bpfx i ++ "isfinal") (cell TBool (b2z v)) = mem_of c T pad (with_bufs d (upd_buf i (mb_with_fin v) (d_bufs d))).
Proof. intros. apply mset_iob; try assumption; try reflexivity; fam_set. Qed.

Lemma mset_st : forall d i v, (i < T)%nat -> List.length (d_bufs d) = T ->
  mset (mem_of c T pad d) (cpfx i ++ "state") (cell U32 (Z.of_nat v)) = mem_of c T pad (with_bufs d (upd_buf i (mb_with_st v) (d_bufs d))).
Proof.
  intros d i v Hi HL. rewrite !mem_of_eq. cbn [with_bufs d_ns d_bufs d_live d_turn d_over seg1 seg3].
  rewrite mset_app_r by seg_none. f_equal.
  rewrite mset_app_r by (rewrite cpfx_head; apply modes_none_hash). f_equal.
  rewrite mset_app_r by seg_none. f_equal.
  rewrite mset_app_r by apply iob_none_c. f_equal.
  - apply flat_map_ext_seq. intros j Hj. unfold iob_objs. destruct (Nat.eq_dec j i) as [->|N].
    + rewrite nth_upd_buf_same by lia. reflexivity.
    + rewrite nth_upd_buf_other by congruence. reflexivity.
  - assert (S : mget (ctrl_objs (d_bufs d) i) (cpfx i ++ "state") <> None) by fam_set.
    rewrite (mset_flat_at _ _ _ i) by (try lia; try exact S; intros; apply ctrl_other; assumption).
    apply flat_map_ext_seq. intros j Hj. destruct (Nat.eqb_spec j i) as [->|N]; [fam_set|].
    unfold ctrl_objs. rewrite nth_upd_buf_other by congruence. reflexivity.
Qed.

Lemma mset_mn : forall d i v, (i < T)%nat -> List.length (d_ns d) = T ->
  mset (mem_of c T pad d) (mode_name i ++ "n") (cell U32 v) = mem_of c T pad (with_ns d (set_nth i v (d_ns d))).
Proof.
  intros d i v Hi HL. rewrite !mem_of_eq. cbn [with_ns d_ns d_bufs d_live d_turn d_over seg1 seg3].
  rewrite mset_app_r by seg_none. f_equal.
  assert (S : mget (mode_objs (d_ns d) i) (mode_name i ++ "n") <> None)
    by (unfold mode_objs; cbn [mget]; rewrite !mode_name_eqb, Nat.eqb_refl; cbn [String.eqb Ascii.eqb Bool.eqb andb]; discriminate).
  rewrite mset_app_l by (rewrite (mget_flat_at _ _ i) by (try lia; intros; apply modes_other; assumption); exact S).
  f_equal. rewrite (mset_flat_at _ _ _ i) by (try lia; try exact S; intros; apply modes_other; assumption).
  apply flat_map_ext_seq. intros j Hj. unfold mode_objs. destruct (Nat.eqb_spec j i) as [->|N].
  - cbn [mset]. rewrite !mode_name_eqb, Nat.eqb_refl. cbn [String.eqb Ascii.eqb Bool.eqb andb].
    rewrite nth_set_nth_eq by lia. reflexivity.
  - rewrite nth_set_nth_neq by congruence. reflexivity.
Qed.

End Mem.

(* ================= the pointer table ================= *)
Definition key_sfx (off : Z) : string := if (off =? 0)%Z then "" else ("@" ++ z_string off)%string.
Lemma append_nil_r : forall s : string, (s ++ "")%string = s.
Proof. induction s as [|a s IH]; cbn [append]; [reflexivity|now rewrite IH]. Qed.
Lemma ptr_key_app : forall o off, ptr_key o off = (o ++ key_sfx off)%string.
Proof. intros. unfold ptr_key, key_sfx. destruct (off =? 0)%Z; [now rewrite append_nil_r|reflexivity]. Qed.
Lemma key_sfx_inj : forall a b, (0 <= a)%Z -> (0 <= b)%Z -> key_sfx a = key_sfx b -> a = b.
Proof.
  intros a b Ha Hb E. unfold key_sfx in E. destruct (Z.eqb_spec a 0), (Z.eqb_spec b 0); try congruence; try discriminate E.
  cbn [append] in E. injection E as E. apply z_string_inj_nonneg in E; assumption.
Qed.
Lemma ptr_key_eqb : forall o a b, (0 <= a)%Z -> (0 <= b)%Z -> String.eqb (ptr_key o a) (ptr_key o b) = Z.eqb a b.
Proof.
  intros o a b Ha Hb. rewrite !ptr_key_app, append_eqb_l. destruct (Z.eqb_spec a b) as [->|N]; [apply String.eqb_refl|].
  apply String.eqb_neq. intro E. apply N. apply key_sfx_inj; assumption.
Qed.

Lemma lget_instance : forall T, lget (ptrs_of T) "instance" = Some inst.
Proof. reflexivity. Qed.
Lemma class_mode_head : forall i, class_key (mode_name i) = String "c" (String "l" (String "a" (String "s" (String "s" (String ":" (mode_name i)))))).
Proof. reflexivity. Qed.
Lemma modes_key_head : forall off, ptr_key "modes" off = String "m" (String "o" (String "d" (String "e" (String "s" (key_sfx off))))).
Proof. intros. rewrite ptr_key_app. reflexivity. Qed.

Lemma lget_ptrs_hash0 : forall T r, lget (ptrs_of T) (String "#" (String "0" (String "." r))) =
  lget [("#0.buflst", VPtr "#1" 0); ("#0.ctrl", VPtr "#2" 0); ("#0.fin", VPtr "fin" 0); ("#0.fout", VPtr "fout" 0)] (String "#" (String "0" (String "." r))).
Proof.
  intros T r. unfold ptrs_of. rewrite !lget_app.
  replace (lget [("instance", inst)] (String "#" (String "0" (String "." r)))) with (@None value) by reflexivity.
  rewrite (lget_map_none _ (fun i => class_key (mode_name i))) by (intros; rewrite class_mode_head; neq_head).
  rewrite (lget_map_none _ (fun i => ptr_key "modes" (8 * Z.of_nat i))) by (intros; rewrite modes_key_head; neq_head).
  rewrite (lget_map_none _ (fun i => class_key (bpfx i))) by (intros; neq_head).
  rewrite (lget_map_none _ (fun i => class_key (cpfx i))) by (intros; neq_head).
  rewrite (lget_map_none _ (fun i => ptr_key "crym.threads" (8 * Z.of_nat i))) by (intros; rewrite ptr_key_app; neq_head).
  cbn [lget class_key append String.eqb Ascii.eqb Bool.eqb].
  destruct (String.eqb r "buflst"); [reflexivity|]. destruct (String.eqb r "ctrl"); [reflexivity|].
  destruct (String.eqb r "fin"); [reflexivity|]. destruct (String.eqb r "fout"); reflexivity.
Qed.
Lemma lget_buflst : forall T, lget (ptrs_of T) "#0.buflst" = Some (VPtr "#1" 0).
Proof. intros. rewrite lget_ptrs_hash0. reflexivity. Qed.
Lemma lget_ctrl : forall T, lget (ptrs_of T) "#0.ctrl" = Some (VPtr "#2" 0).
Proof. intros. rewrite lget_ptrs_hash0. reflexivity. Qed.
Lemma lget_fin : forall T, lget (ptrs_of T) "#0.fin" = Some (VPtr "fin" 0).
Proof. intros. rewrite lget_ptrs_hash0. reflexivity. Qed.
Lemma lget_fout : forall T, lget (ptrs_of T) "#0.fout" = Some (VPtr "fout" 0).
Proof. intros. rewrite lget_ptrs_hash0. reflexivity. Qed.

Lemma lget_class_mode : forall T i, (i < T)%nat -> lget (ptrs_of T) (class_key (mode_name i)) = Some (VPtr "TagMode" 0).
Proof.
  intros T i Hi. unfold ptrs_of. rewrite !lget_app.
  replace (lget [("instance", inst)] (class_key (mode_name i))) with (@None value) by (rewrite class_mode_head; reflexivity).
  rewrite (lget_map_at _ (fun i => class_key (mode_name i)) (fun _ => VPtr "TagMode" 0) _ i); try lia; try apply String.eqb_refl; try reflexivity.
  intros j N. unfold class_key. rewrite append_eqb_l. rewrite <- (append_nil_r (mode_name i)), <- (append_nil_r (mode_name j)), mode_name_eqb.
  replace (Nat.eqb i j) with false by (symmetry; apply Nat.eqb_neq; congruence). reflexivity.
Qed.

Lemma threads_key_head : forall off, ptr_key "crym.threads" off = String "c" (String "r" (String "y" (String "m" (String "." (String "t" (String "h" (String "r" (String "e" (String "a" (String "d" (String "s" (key_sfx off)))))))))))).
Proof. intros. rewrite ptr_key_app. reflexivity. Qed.
Lemma lget_thread_cell : forall T k, (k < T)%nat -> lget (ptrs_of T) (ptr_key "crym.threads" (8 * Z.of_nat k)) = Some (VInt (Z.of_nat (S k))).
Proof.
  intros T k Hk. unfold ptrs_of. rewrite !lget_app.
  replace (lget [("instance", inst)] (ptr_key "crym.threads" (8 * Z.of_nat k))) with (@None value) by (rewrite threads_key_head; reflexivity).
  rewrite (lget_map_none _ (fun i => class_key (mode_name i))) by (intros; rewrite class_mode_head, threads_key_head; neq_head).
  rewrite (lget_map_none _ (fun i => ptr_key "modes" (8 * Z.of_nat i))) by (intros; rewrite modes_key_head, threads_key_head; neq_head).
  match goal with |- context [lget (?a :: ?b :: ?c :: ?d :: ?e :: nil) ?k] => replace (lget (a :: b :: c :: d :: e :: nil) k) with (@None value) by (rewrite threads_key_head; reflexivity) end.
  rewrite (lget_map_none _ (fun i => class_key (bpfx i))) by (intros; rewrite threads_key_head; neq_head).
  rewrite (lget_map_none _ (fun i => class_key (cpfx i))) by (intros; rewrite threads_key_head; neq_head).
  apply (lget_map_at _ (fun i => ptr_key "crym.threads" (8 * Z.of_nat i)) (fun i => VInt (Z.of_nat (S i)))); try lia.
  - intros j N. rewrite ptr_key_eqb by lia. apply Z.eqb_neq. lia.
  - apply String.eqb_refl.
Qed.

(* ================= the thread list ================= *)
Lemma threads_length : forall T pad p ws turn g, List.length (threads_of T pad p ws turn g) = S T.
Proof. intros. unfold threads_of. cbn [List.length]. now rewrite map_length, seq_length. Qed.
Lemma nth_thread_io : forall T pad p ws turn g, nth_error (threads_of T pad p ws turn g) 0 = Some (io_thread T pad p turn g).
Proof. reflexivity. Qed.
Lemma nth_error_map_seq : forall A (f : nat -> A) n a i, (i < n)%nat -> nth_error (map f (seq a n)) i = Some (f (a + i)%nat).
Proof.
  intros A f. induction n as [|n IH]; intros a i H; [lia|]. cbn [seq map]. destruct i as [|i]; cbn [nth_error].
  - now rewrite Nat.add_0_r.
  - rewrite IH by lia. f_equal. f_equal. lia.
Qed.
Lemma nth_thread_worker : forall T pad p ws turn g i, (i < T)%nat ->
  nth_error (threads_of T pad p ws turn g) (S i) = Some (worker_thread i (nth i ws W_Done) (nth i (g_wl g) [])).
Proof. intros. unfold threads_of. cbn [nth_error]. rewrite nth_error_map_seq by assumption. reflexivity. Qed.

Definition with_wl (g : tghost) (i : nat) (wl : locs) : tghost := {| g_rb := g_rb g; g_bu := g_bu g; g_wl := set_nth i wl (g_wl g) |}.
Definition with_rb (g : tghost) (l : locs) : tghost := {| g_rb := l; g_bu := g_bu g; g_wl := g_wl g |}.
Definition with_bu (g : tghost) (l : locs) : tghost := {| g_rb := g_rb g; g_bu := l; g_wl := g_wl g |}.

Lemma set_nth_t_map_seq : forall (f f' : nat -> cthread) n a i x, (i < n)%nat -> x = f' (a + i)%nat ->
  (forall j, j <> (a + i)%nat -> f' j = f j) ->
  set_nth_t i x (map f (seq a n)) = map f' (seq a n).
Proof.
  intros f f'. induction n as [|n IH]; intros a i x H E O; [lia|]. cbn [seq map]. destruct i as [|i]; cbn [set_nth_t].
  - rewrite Nat.add_0_r in *. subst x. f_equal. apply map_ext_in. intros j Hj. apply in_seq in Hj. symmetry. apply O. lia.
  - rewrite (O a) by lia. f_equal. apply IH; [lia|rewrite E; f_equal; lia|intros j Hj; apply O; lia].
Qed.

(* replacing worker i's thread by the thread of another pc / other locals *)
Lemma put_worker : forall T pad p ws turn g i w' wl', (i < T)%nat -> List.length ws = T -> List.length (g_wl g) = T ->
  set_nth_t (S i) (worker_thread i w' wl') (threads_of T pad p ws turn g) = threads_of T pad p (set_nth i w' ws) turn (with_wl g i wl').
Proof.
  intros T pad p ws turn g i w' wl' Hi Lw Lg. unfold threads_of. cbn [set_nth_t]. f_equal.
  apply set_nth_t_map_seq; [exact Hi| |].
  - cbn [Nat.add g_wl with_wl]. rewrite !nth_set_nth_eq by lia. reflexivity.
  - intros j N. cbn [Nat.add g_wl with_wl] in *. rewrite !nth_set_nth_neq by congruence. reflexivity.
Qed.
Lemma put_io : forall T pad p ws turn g p' turn' g', g_wl g' = g_wl g ->
  set_nth_t 0 (io_thread T pad p' turn' g') (threads_of T pad p ws turn g) = threads_of T pad p' ws turn' g'.
Proof. intros. unfold threads_of. cbn [set_nth_t]. now rewrite H. Qed.

(* ================= notify_all on the canonical thread list ================= *)
Definition wake_io_pc (p : ipc) : ipc := match p with I_Asleep => I_Awake | _ => p end.
Definition wake_w_pc (w : wpc) : wpc := match w with W_Asleep f => W_Awake f | _ => w end.
Definition wake1 (cv : string) (t : cthread) : cthread :=
  match ct_st t with
  | TSleep c m => if String.eqb c cv then {| ct_cur := ct_cur t; ct_k := ct_k t; ct_loc := ct_loc t; ct_pre := ct_pre t; ct_st := TAwake m |} else t
  | _ => t
  end.
Lemma wake_all_map : forall cv l, wake_all cv l = map (wake1 cv) l.
Proof. reflexivity. Qed.

Lemma wake1_worker : forall cv i w wl, wake1 cv (worker_thread i w wl) =
  worker_thread i (if String.eqb (cpfx i ++ "cv_ready") cv then wake_w_pc w else w) wl.
Proof.
  intros cv i w wl. destruct w; try (destruct (String.eqb (cpfx i ++ "cv_ready") cv); reflexivity).
  unfold wake1. cbn [worker_thread RefineConcSim.mk ct_st ct_cur ct_k ct_loc ct_pre]. destruct (String.eqb (cpfx i ++ "cv_ready") cv); reflexivity.
Qed.
Lemma wake1_io : forall cv T pad p turn g, wake1 cv (io_thread T pad p turn g) =
  io_thread T pad (if String.eqb (cpfx turn ++ "cv_update") cv then wake_io_pc p else p) turn g.
Proof.
  intros cv T pad p turn g. destruct p; try (destruct (String.eqb (cpfx turn ++ "cv_update") cv); reflexivity).
  unfold wake1. cbn [io_thread RefineConcSim.mk ct_st ct_cur ct_k ct_loc ct_pre]. destruct (String.eqb (cpfx turn ++ "cv_update") cv); reflexivity.
Qed.

Lemma wake_all_update : forall T pad p ws turn g i,
  wake_all (cpfx i ++ "cv_update") (threads_of T pad p ws turn g) =
  threads_of T pad (if Nat.eqb turn i then wake_io_pc p else p) ws turn g.
Proof.
  intros T pad p ws turn g i. rewrite wake_all_map. unfold threads_of. cbn [map]. rewrite wake1_io. unfold cpfx at 1 2.
  rewrite elem_pfx_eqb, String.eqb_refl, andb_true_r. f_equal.
  rewrite map_map. apply map_ext. intros j. rewrite wake1_worker. unfold cpfx. rewrite elem_pfx_eqb.
  replace (String.eqb "cv_ready" "cv_update") with false by reflexivity. rewrite andb_false_r. reflexivity.
Qed.
Lemma wake_all_ready : forall T pad p ws turn g i, (i < T)%nat -> List.length ws = T ->
  wake_all (cpfx i ++ "cv_ready") (threads_of T pad p ws turn g) =
  threads_of T pad p (set_nth i (wake_w_pc (nth i ws W_Done)) ws) turn g.
Proof.
  intros T pad p ws turn g i Hi HL. rewrite wake_all_map. unfold threads_of. cbn [map]. rewrite wake1_io. unfold cpfx at 1 2.
  rewrite elem_pfx_eqb. replace (String.eqb "cv_update" "cv_ready") with false by reflexivity. rewrite andb_false_r. f_equal.
  rewrite map_map. apply map_ext_in. intros j Hj. apply in_seq in Hj. rewrite wake1_worker. unfold cpfx. rewrite elem_pfx_eqb, String.eqb_refl, andb_true_r.
  destruct (Nat.eqb_spec j i) as [->|N].
  - rewrite nth_set_nth_eq by lia. reflexivity.
  - rewrite nth_set_nth_neq by congruence. reflexivity.
Qed.
