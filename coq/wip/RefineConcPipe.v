(* PipeConc-side facts for the forward simulation "layer R" (work package PARALLEL.md):
   (a) the loads: loads_of does not depend on its fuel, shape of every load, number of blocks, wf_loads;
   (b) reachable states of the tagging instance: closure, PipeInv.Inv, shape, counters, input suffix;
   (c) per-pc read-offs from the invariant. *)
From Coq Require Import ZArith NArith List Bool Lia Arith PeanoNat ZifyNat ZifyN ZifyBool.
From Wencry Require Import Bytes FileModel ModesProofs FileProofsDec PipeConc PipeProps PipeLemmas PipeInv FileConcGlue.
From Wencry Require PipeProofs.   (* only for the schedule of the non-vacuity examples *)
Import ListNotations.
Local Open Scope nat_scope.
Local Ltac Zify.zify_post_hook ::= Z.to_euclidean_division_equations.

(* ---------- (a) the loads ---------- *)
Definition ld_of (c : nat) (pad : bool) : list N -> load * list N := if pad then load_enc c else load_dec c.

Lemma loads_of_eq : forall c pad rest, loads_of c pad rest = loads (ld_of c pad) (S (length rest / (16 * c))) rest.
Proof. intros c pad rest. unfold loads_of, ld_of, sum. destruct pad; reflexivity. Qed.

(* P1b: a non-final load consumed a whole chunk *)
Lemma ld_nonfinal : forall c pad rest l rest', 1 <= c -> ld_of c pad rest = (l, rest') -> ld_final l = false ->
  16 * c <= length rest /\ rest' = skipn (16 * c) rest /\ ld_total l = c /\ ld_data l = firstn (16 * c) rest.
Proof.
  intros c pad rest l rest' Hc H Hf. unfold ld_of in H. destruct pad.
  - unfold load_enc, sum in H. cbv zeta in H.
    destruct (Nat.eqb_spec (length (firstn (16 * c) rest)) (16 * c)) as [E|E].
    + apply pair_equal_spec in H; destruct H as [<- <-]. cbn [ld_total ld_data]. rewrite firstn_length in E.
      repeat split; try reflexivity. lia.
    + apply pair_equal_spec in H; destruct H as [<- <-]. cbn [ld_final] in Hf. discriminate.
  - unfold load_dec, sum in H. cbv zeta in H. apply pair_equal_spec in H; destruct H as [<- <-]. cbn [ld_final ld_total ld_data] in *.
    apply orb_false_iff in Hf. destruct Hf as [Hlt _]. apply Nat.ltb_ge in Hlt.
    rewrite firstn_length in *.
    assert (Hn : Nat.min (16 * c) (length rest) = 16 * c) by lia. rewrite Hn.
    assert (Hd : 16 * c / 16 = c) by (rewrite Nat.mul_comm; apply Nat.div_mul; discriminate).
    rewrite Hd. repeat split; try reflexivity; try lia.
    apply firstn_all2. rewrite firstn_length. lia.
Qed.

(* P1: loads_of does not depend on its fuel: one load, then the loads of the rest *)
Lemma loads_of_unfold : forall c pad rest, 1 <= c ->
  loads_of c pad rest =
  let (l, rest') := ld_of c pad rest in
  if ld_final l then (if ld_total l =? 0 then [] else [l]) else l :: loads_of c pad rest'.
Proof.
  intros c pad rest Hc. rewrite loads_of_eq. cbn [loads].
  destruct (ld_of c pad rest) as [l rest'] eqn:E.
  destruct (ld_final l) eqn:Ef; [reflexivity|].
  destruct (ld_nonfinal c pad rest l rest' Hc E Ef) as (Hlen & -> & _ & _).
  rewrite loads_of_eq. rewrite skipn_length. f_equal. f_equal.
  replace (length rest) with (length rest - 16 * c + 1 * (16 * c)) at 1 by lia.
  rewrite Nat.div_add by lia. lia.
Qed.

(* shape of one load *)
Definition load_ok (c : nat) (l : load) : Prop :=
  ld_total l <= c /\ length (ld_data l) = 16 * ld_total l /\ bytesb (ld_data l) = true /\
  (ld_final l = false -> ld_total l = c).

Lemma ld_of_len : forall c pad rest l rest', 1 <= c -> ld_of c pad rest = (l, rest') ->
  ld_total l <= c /\ length (ld_data l) = 16 * ld_total l /\ (ld_final l = false -> ld_total l = c) /\
  (ld_final l = true -> ld_total l <= length rest / 16 + (if pad then 1 else 0)).
Proof.
  intros c pad rest l rest' Hc H.
  destruct (ld_final l) eqn:Ef.
  2:{ destruct (ld_nonfinal c pad rest l rest' Hc H Ef) as (Hlen & -> & Ht & Hd).
      rewrite Ht, Hd, firstn_length. split; [lia|]. split; [lia|]. split; [reflexivity|discriminate]. }
  unfold ld_of in H. destruct pad.
  - unfold load_enc, sum in H. cbv zeta in H.
    destruct (Nat.eqb_spec (length (firstn (16 * c) rest)) (16 * c)) as [E|E];
      apply pair_equal_spec in H; destruct H as [<- <-]; cbn [ld_final] in Ef; [discriminate|].
    rewrite firstn_length in E.
    assert (Hlt : length rest < 16 * c) by lia.
    cbn [ld_total ld_data ld_final]. rewrite firstn_all2 by lia.
    rewrite app_length, repeat_length. split; [lia|]. split; [lia|]. split; [discriminate|]. lia.
  - unfold load_dec, sum in H. cbv zeta in H. apply pair_equal_spec in H; destruct H as [<- <-].
    cbn [ld_final ld_total ld_data] in *. rewrite !firstn_length.
    split; [lia|]. split; [lia|]. split; [discriminate|]. lia.
Qed.

Lemma ld_of_bytes : forall c pad rest l rest', bytesb rest = true -> ld_of c pad rest = (l, rest') ->
  bytesb (ld_data l) = true /\ bytesb rest' = true.
Proof.
  intros c pad rest l rest' Hb H. apply bytesb_bytes in Hb. rewrite !bytesb_bytes.
  unfold ld_of in H. destruct pad.
  - unfold load_enc, sum in H. cbv zeta in H.
    destruct (length (firstn (16 * c) rest) =? 16 * c);
      apply pair_equal_spec in H; destruct H as [<- <-]; cbn [ld_data].
    + split; apply bytes_firstn_skipn; exact Hb.
    + split; [|constructor]. apply bytes_app; [apply bytes_firstn_skipn; exact Hb|].
      apply bytes_repeat. lia.
  - unfold load_dec, sum in H. cbv zeta in H. apply pair_equal_spec in H; destruct H as [<- <-]. cbn [ld_data].
    split; [apply bytes_firstn_skipn|]; apply bytes_firstn_skipn; exact Hb.
Qed.

Lemma ld_of_ok : forall c pad rest l rest', 1 <= c -> bytesb rest = true -> ld_of c pad rest = (l, rest') ->
  load_ok c l /\ bytesb rest' = true.
Proof.
  intros c pad rest l rest' Hc Hb H.
  destruct (ld_of_len c pad rest l rest' Hc H) as (H1 & H2 & H3 & _).
  destruct (ld_of_bytes c pad rest l rest' Hb H) as (H4 & H5).
  unfold load_ok. repeat split; assumption.
Qed.

Lemma loads_shape : forall c pad, 1 <= c -> forall fuel rest, bytesb rest = true ->
  Forall (fun l => 1 <= ld_total l /\ load_ok c l) (loads (ld_of c pad) fuel rest).
Proof.
  intros c pad Hc. induction fuel as [|f IH]; intros rest Hb; [constructor|].
  cbn [loads]. destruct (ld_of c pad rest) as [l rest'] eqn:E.
  destruct (ld_of_ok c pad rest l rest' Hc Hb E) as (Hok & Hb').
  destruct (ld_final l) eqn:Ef.
  - destruct (Nat.eqb_spec (ld_total l) 0) as [E0|E0]; [constructor|].
    constructor; [|constructor]. split; [lia|exact Hok].
  - constructor; [|apply IH; exact Hb'].
    split; [|exact Hok]. destruct Hok as (_ & _ & _ & Ht). rewrite (Ht Ef). exact Hc.
Qed.

(* P2: every load: at most c blocks, 16 * total bytes, bytes stay bytes *)
Lemma loads_of_shape : forall c pad rest l, 1 <= c -> bytesb rest = true -> In l (loads_of c pad rest) ->
  1 <= ld_total l <= c /\ length (ld_data l) = 16 * ld_total l /\ bytesb (ld_data l) = true /\
  (ld_final l = false -> ld_total l = c).
Proof.
  intros c pad rest l Hc Hb Hin. rewrite loads_of_eq in Hin.
  pose proof (loads_shape c pad Hc (S (length rest / (16 * c))) rest Hb) as H. rewrite Forall_forall in H.
  destruct (H l Hin) as (H1 & H2 & H3 & H4 & H5). repeat split; assumption.
Qed.

(* P3: number of blocks *)
Definition blocks_of (ls : list load) : nat := fold_right (fun l a => ld_total l + a) 0 ls.

Lemma loads_blocks : forall c pad, 1 <= c -> forall fuel rest,
  blocks_of (loads (ld_of c pad) fuel rest) <= length rest / 16 + 1.
Proof.
  intros c pad Hc. induction fuel as [|f IH]; intros rest; [cbn; lia|].
  cbn [loads]. destruct (ld_of c pad rest) as [l rest'] eqn:E.
  destruct (ld_of_len c pad rest l rest' Hc E) as (_ & _ & _ & Hfin).
  destruct (ld_final l) eqn:Ef.
  - specialize (Hfin eq_refl). destruct (ld_total l =? 0); cbn [blocks_of fold_right]; [lia|].
    destruct pad; lia.
  - destruct (ld_nonfinal c pad rest l rest' Hc E Ef) as (Hlen & -> & Ht & _).
    cbn [blocks_of fold_right]. fold (blocks_of (loads (ld_of c pad) f (skipn (16 * c) rest))).
    specialize (IH (skipn (16 * c) rest)). rewrite skipn_length in IH. rewrite Ht. lia.
Qed.

Lemma loads_of_blocks : forall c pad rest, 1 <= c -> blocks_of (loads_of c pad rest) <= length rest / 16 + 1.
Proof. intros c pad rest Hc. rewrite loads_of_eq. apply loads_blocks. exact Hc. Qed.

(* P4: well-formedness in the sense of PipeProps *)
Lemma wf_loads_of : forall c pad rest, 1 <= c -> bytesb rest = true -> wf_loads (loads_of c pad rest).
Proof.
  intros c pad rest Hc Hb. rewrite loads_of_eq. split; [|apply loads_final_last].
  pose proof (loads_shape c pad Hc (S (length rest / (16 * c))) rest Hb) as H.
  eapply Forall_impl; [|exact H]. intros l (H1 & _ & H2 & H3 & _).
  split; [exact H1|]. unfold blocks16_of.
  apply (chunks16_of_mul (ld_total l) (ld_data l) H2). apply bytesb_bytes. exact H3.
Qed.

(* non-vacuity: 40 bytes, chunks of one block, encryption: 3 loads; decryption of 37 bytes, chunks of two blocks *)
Definition ex_inp : list N := map (fun i => N.of_nat ((i * 7 + 3) mod 256)) (seq 0 40).
Example loads_of_unfold_ex :
  length (loads_of 1 true ex_inp) = 3 /\ length (loads_of 2 false (firstn 37 ex_inp)) = 1 /\
  loads_of 1 true ex_inp = fst (ld_of 1 true ex_inp) :: loads_of 1 true (skipn 16 ex_inp) /\
  map ld_total (loads_of 1 true ex_inp) = [1; 1; 1] /\ map ld_final (loads_of 1 true ex_inp) = [false; false; true] /\
  map ld_total (loads_of 2 false (firstn 37 ex_inp)) = [2] /\
  blocks_of (loads_of 1 true ex_inp) = 3 /\ length ex_inp / 16 + 1 = 3 /\ bytesb ex_inp = true.
Proof. vm_compute. repeat split. Qed.

(* ---------- generic helpers ---------- *)
Lemma run_app (S0 : Type) (tr : S0 -> list N -> S0 * list N) (tr_event : nat -> S0 -> list event) (c : nat) (pad : bool) :
  forall sched1 sched2 s,
  run S0 tr tr_event c pad s (sched1 ++ sched2) =
  match run S0 tr tr_event c pad s sched1 with
  | Some s1 => run S0 tr tr_event c pad s1 sched2
  | None => None
  end.
Proof.
  induction sched1 as [|t r IH]; intros sched2 s; [reflexivity|].
  cbn [app run]. destruct (step S0 tr tr_event c pad s t) as [[s1 evs]|]; [apply IH|reflexivity].
Qed.

(* export never fails: every chunk of the sequential reference is Ok *)
Lemma export_ok : forall c pad l data, exists b, export c pad l data = Ok b.
Proof.
  intros c pad l data. unfold export. destruct (ld_final l); [|eexists; reflexivity].
  destruct pad; eexists; reflexivity.
Qed.

Lemma seq_chunks_all_ok (S0 : Type) (tr : S0 -> list N -> S0 * list N) (c : nat) (pad : bool) (T : nat) :
  forall ls sts j, all_ok (snd (seq_chunks S0 tr c pad T sts j ls)).
Proof.
  induction ls as [|l r IH]; intros sts j; cbn [seq_chunks]; [constructor|].
  destruct (nth_error sts (j mod T)) as [x|]; [|constructor].
  destruct (tr_blocks S0 tr x (blocks16_of (ld_data l))) as [x' out].
  specialize (IH (set_nth (j mod T) x' sts) (Datatypes.S j)).
  destruct (seq_chunks S0 tr c pad T (set_nth (j mod T) x' sts) (Datatypes.S j) r) as [sts' rest].
  cbn [snd] in *. constructor; [apply export_ok|exact IH].
Qed.

Lemma BufInv_setupdate (S0 : Type) (tr : S0 -> list N -> S0 * list N) (c : nat) (pad : bool) (T : nat)
  (sigma0 : list S0) (ls : list load) (dS : S0) n o i b x :
  BufInv S0 tr c pad T sigma0 ls dS n o i b W_SetUpdate x -> b_st b = READY \/ b_st b = INV.
Proof.
  intros Hb. destruct (is_own o) eqn:Eo.
  - apply BufInv_own in Hb; [|exact Eo]. destruct Hb as (p & _ & _ & Hc & _). exfalso.
    unfold own_ctl in Hc. destruct n; destruct Hc as [_ Hc]; exact Hc.
  - apply BufInv_idle in Hb; [|exact Eo]. destruct Hb as [Hb _].
    unfold IdleInv in Hb. destruct n as [|n'].
    + destruct Hb as (_ & _ & _ & _ & Hf & _). contradiction.
    + destruct (n' * T + i <? m ls).
      * destruct Hb as [_ Hc]. unfold hold_ctl in Hc. destruct (b_st b); try contradiction.
        -- destruct Hc as [Hc _]. contradiction.
        -- left. reflexivity.
      * destruct Hb as (Hs & _). right. exact Hs.
Qed.

Lemma tag_init_length : forall T, length (tag_init T) = T.
Proof. intros T. unfold tag_init. rewrite map_length, seq_length. reflexivity. Qed.

(* ---------- what a step changes of the counters (b_total, b_now, input, stream states) ---------- *)
Lemma some_pair_inv {A B} (a a' : A) (b b' : B) : Some (a, b) = Some (a', b') -> a = a' /\ b = b'.
Proof. intros H. injection H as H1 H2. split; assumption. Qed.

Lemma getb_mk (S0 : Type) bs ws (xs : list S0) p t ov lv inp out cr k :
  getb S0 {| bufs := bs; wpcs := ws; wsts := xs; io := p; turn := t; over := ov; live := lv; input := inp;
             output := out; crashed := cr |} k = nth k bs empty_buf.
Proof. reflexivity. Qed.

Lemma step_io_frame (S0 : Type) (c : nat) (pad : bool) (s s' : state S0) evs :
  step_io S0 c pad s = Some (s', evs) -> turn S0 s < length (bufs S0 s) ->
  wsts S0 s' = wsts S0 s /\
  ((input S0 s' = input S0 s /\
    forall k, b_total (getb S0 s' k) = b_total (getb S0 s k) /\ b_now (getb S0 s' k) = b_now (getb S0 s k)) \/
   (exists l, io S0 s = I_Load /\ input S0 s = l :: input S0 s' /\
      b_total (getb S0 s' (turn S0 s)) = ld_total l /\ b_now (getb S0 s' (turn S0 s)) = 0 /\
      forall k, k <> turn S0 s -> getb S0 s' k = getb S0 s k)).
Proof.
  intros H Ht. unfold step_io in H.
  destruct (io S0 s) eqn:Eio; try discriminate.
  - (* I_WaitUpdate *) unfold i_wait in H.
    destruct (upd_or_empty (b_st (getb S0 s (turn S0 s)))); apply some_pair_inv in H; destruct H as [<- _];
      (split; [reflexivity|left; split; [reflexivity|intros k; split; reflexivity]]).
  - (* I_Awake *) unfold i_wait in H.
    destruct (upd_or_empty (b_st (getb S0 s (turn S0 s)))); apply some_pair_inv in H; destruct H as [<- _];
      (split; [reflexivity|left; split; [reflexivity|intros k; split; reflexivity]]).
  - (* I_Cmp *)
    destruct (b_st (getb S0 s (turn S0 s))); apply some_pair_inv in H; destruct H as [<- _];
      (split; [reflexivity|left; split; [reflexivity|intros k; split; reflexivity]]).
  - (* I_Export *)
    apply some_pair_inv in H; destruct H as [<- _].
    destruct (export c pad _ _);
      (split; [reflexivity|left; split; [reflexivity|intros k; split; reflexivity]]).
  - (* I_Load *)
    destruct (over S0 s).
    + apply some_pair_inv in H; destruct H as [<- _].
      split; [reflexivity|left; split; [reflexivity|intros k; split; reflexivity]].
    + destruct (input S0 s) as [|l rest] eqn:Ein; apply some_pair_inv in H; destruct H as [<- _].
      * split; [reflexivity|left; split; [reflexivity|intros k; split; reflexivity]].
      * split; [reflexivity|right]. exists l. cbn [input]. split; [reflexivity|]. split; [reflexivity|].
        rewrite !getb_mk. rewrite !nth_set_nth_eq by exact Ht. cbn [b_total b_now].
        split; [reflexivity|]. split; [reflexivity|].
        intros k Hk. rewrite getb_mk. apply nth_set_nth_neq. congruence.
  - (* I_SetReady *)
    apply some_pair_inv in H; destruct H as [<- _].
    match goal with |- context [wake_worker S0 ?st _] => set (s2 := st) end.
    assert (E : wsts S0 (wake_worker S0 s2 (turn S0 s)) = wsts S0 s /\
                input S0 (wake_worker S0 s2 (turn S0 s)) = input S0 s).
    { unfold wake_worker. destruct (PipeConc.getw S0 s2 (turn S0 s)); split; reflexivity. }
    destruct E as [E1 E2]. split; [exact E1|left]. split; [exact E2|].
    intros k. rewrite getb_wake_worker. unfold s2, getb. cbn [bufs set_buf].
    destruct (Nat.eq_dec (turn S0 s) k) as [<-|Hne].
    + rewrite nth_set_nth_eq by exact Ht. split; reflexivity.
    + rewrite nth_set_nth_neq by exact Hne. split; reflexivity.
  - (* I_Turn *)
    destruct (live S0 s =? 0); apply some_pair_inv in H; destruct H as [<- _];
      (split; [reflexivity|left; split; [reflexivity|intros k; split; reflexivity]]).
  - (* I_Join *)
    destruct (PipeConc.getw S0 s k); try discriminate. apply some_pair_inv in H; destruct H as [<- _].
    split; [reflexivity|left; split; [reflexivity|intros k'; split; reflexivity]].
Qed.

Lemma spurious_frame (S0 : Type) (s s' : state S0) j evs :
  spurious S0 s j = Some (s', evs) ->
  wsts S0 s' = wsts S0 s /\ input S0 s' = input S0 s /\ bufs S0 s' = bufs S0 s.
Proof.
  intros H. unfold spurious in H. destruct j as [|i].
  - destruct (io S0 s); try discriminate. apply some_pair_inv in H; destruct H as [<- _]. repeat split.
  - destruct (i <? nT S0 s); [|discriminate]. destruct (PipeConc.getw S0 s i); try discriminate.
    apply some_pair_inv in H; destruct H as [<- _]. repeat split.
Qed.

(* a local worker step on a tagging stream: s stays, n + (total - now) stays *)
Lemma wlocal_tag b w (x : N * N) b' w' x' wk :
  wlocal (N * N) tag_tr b w x = Some (b', w', x', wk) ->
  fst x' = fst x /\
  N.to_nat (snd x') + (b_total b' - b_now b') = N.to_nat (snd x) + (b_total b - b_now b).
Proof.
  intros H.
  assert (Htake : b_now b < b_total b ->
            fst (take_x (N * N) tag_tr b x) = fst x /\
            N.to_nat (snd (take_x (N * N) tag_tr b x)) + (b_total (take_b (N * N) tag_tr b x) - b_now (take_b (N * N) tag_tr b x)) =
            N.to_nat (snd x) + (b_total b - b_now b)).
  { intros Hlt. unfold take_x, take_b. cbn [b_total b_now]. destruct x as [s0 n]. unfold tag_tr. cbn [fst snd].
    split; [reflexivity|]. lia. }
  destruct w; cbn [wlocal] in H; try discriminate.
  - injection H as <- <- <- <-. split; reflexivity.
  - injection H as <- <- <- <-. split; reflexivity.
  - destruct (b_now b <? b_total b) eqn:Elt.
    + apply Nat.ltb_lt in Elt. injection H as <- <- <- <-. apply Htake. exact Elt.
    + injection H as <- <- <- <-. split; reflexivity.
  - destruct (b_st b); injection H as <- <- <- <-; split; reflexivity.
  - injection H as <- <- <- <-. split; reflexivity.
  - injection H as <- <- <- <-. split; reflexivity.
  - destruct (b_st b); try (injection H as <- <- <- <-; split; reflexivity).
    destruct (b_now b <? b_total b) eqn:Elt.
    + apply Nat.ltb_lt in Elt. injection H as <- <- <- <-. apply Htake. exact Elt.
    + injection H as <- <- <- <-. split; reflexivity.
Qed.

(* ---------- (b), (c): reachable states of the tagging instance ---------- *)
Section Reach.
Variables (c T : nat) (pad : bool) (input0 : list N).
Hypothesis Hc : 1 <= c.
Hypothesis HT : 1 <= T.
Hypothesis Hbytes : bytesb input0 = true.
Local Notation St := (N * N)%type.
Local Notation ls := (loads_of c pad input0).
Local Notation dS := (0%N, 0%N).
Local Notation step := (PipeConc.step St tag_tr tag_event c pad).
Local Notation run := (PipeConc.run St tag_tr tag_event c pad).
Local Notation getb := (getb St).
Local Notation getw := (getw St).
Local Notation InvQR := (InvQR St tag_tr c pad T (tag_init T) ls dS).

Definition reach (s : state St) : Prop := exists sched, run (init St T (tag_init T) ls) sched = Some s.

(* P5 *)
Lemma reach_init : reach (init St T (tag_init T) ls).
Proof using Hc HT Hbytes. exists []. reflexivity. Qed.

Lemma reach_step : forall s tid s' evs, reach s -> step s tid = Some (s', evs) -> reach s'.
Proof using Hc HT Hbytes.
  intros s tid s' evs [sched H] Hs. exists (sched ++ [tid]).
  rewrite run_app, H. cbn [PipeConc.run]. rewrite Hs. reflexivity.
Qed.

Lemma reach_Inv : forall s, reach s -> Inv St tag_tr c pad T (tag_init T) ls dS s.
Proof using Hc HT Hbytes.
  intros s Hr.
  apply (inv_reachable St tag_tr tag_event c pad T (tag_init T) ls dS HT (tag_init_length T)
           (wf_loads_of c pad input0 Hc Hbytes) s Hr).
Qed.

Lemma all_ok_tag : all_ok (outs St tag_tr c pad T (tag_init T) ls (m ls)).
Proof using. unfold outs. apply seq_chunks_all_ok. Qed.

(* P6: shape *)
Lemma reach_shape : forall s, reach s ->
  length (bufs St s) = T /\ length (wpcs St s) = T /\ length (wsts St s) = T /\ turn St s < T /\ live St s <= T /\
  crashed St s = None.
Proof using Hc HT Hbytes.
  intros s Hr. destruct (reach_Inv s Hr) as (q & r & Lb & Lw & Lx & Hrt & Ht & Hio & Hbuf).
  destruct Hio as (HV & Hin & Hov & Hlv & Hex & Hout).
  destruct (Hout all_ok_tag) as [_ Hcr].
  repeat split; try assumption; lia.
Qed.

(* P8: the remaining loads are a suffix of ls *)
Lemma reach_input_suffix : forall s, reach s -> exists k, input St s = skipn k ls.
Proof using Hc HT Hbytes.
  intros s Hr. destruct (reach_Inv s Hr) as (q & r & Lb & Lw & Lx & Hrt & Ht & Hio & Hbuf).
  destruct Hio as (HV & Hin & _). eexists. exact Hin.
Qed.

(* P9: read-offs per pc *)
Lemma reach_get : forall s i, reach s -> i < T -> getw s i = W_Get ->
  b_st (getb s i) = READY \/ (b_st (getb s i) = INV /\ b_now (getb s i) = b_total (getb s i)).
Proof using Hc HT Hbytes.
  intros s i Hr Hi Hw. destruct (reach_Inv s Hr) as (q & r & Lb & Lw & Lx & Hrt & Ht & Hio & Hbuf).
  specialize (Hbuf i Hi).
  eapply BufInv_touch; [exact Hbuf|left; exact Hw].
Qed.

Lemma reach_setupdate : forall s i, reach s -> i < T -> getw s i = W_SetUpdate ->
  b_st (getb s i) = READY \/ b_st (getb s i) = INV.
Proof using Hc HT Hbytes.
  intros s i Hr Hi Hw. destruct (reach_Inv s Hr) as (q & r & Lb & Lw & Lx & Hrt & Ht & Hio & Hbuf).
  specialize (Hbuf i Hi). rewrite Hw in Hbuf. eapply BufInv_setupdate. exact Hbuf.
Qed.

Lemma reach_io_own : forall s, reach s ->
  match io St s with I_Cmp | I_Export | I_Load | I_SetReady _ => True | _ => False end ->
  b_st (getb s (turn St s)) = EMPTY \/ b_st (getb s (turn St s)) = UPDATING.
Proof using Hc HT Hbytes.
  intros s Hr Hp. destruct (reach_Inv s Hr) as (q & r & Lb & Lw & Lx & Hrt & Ht & Hio & Hbuf).
  specialize (Hbuf r Hrt). rewrite Ht. rewrite iot_self in Hbuf.
  eapply BufInv_own_st; [exact Hbuf|]. destruct (io St s); try contradiction; reflexivity.
Qed.

Lemma reach_export : forall s, reach s -> io St s = I_Export ->
  let b := getb s (turn St s) in
  b_st b = UPDATING /\ b_now b = b_total b /\ 1 <= b_total b /\ (b_final b = false -> b_total b = c).
Proof using Hc HT Hbytes.
  intros s Hr Hp. cbv zeta. destruct (reach_Inv s Hr) as (q & r & Lb & Lw & Lx & Hrt & Ht & Hio & Hbuf).
  specialize (Hbuf r Hrt). rewrite Ht. unfold IoInv in Hio. rewrite Hp in Hio, Hbuf.
  rewrite nvis_self, iot_self in Hbuf. cbn [post_fin] in Hbuf. unfold BufInv in Hbuf.
  destruct Hbuf as (_ & Hctl & Hq & Hn & _ & Hold). destruct Hio as (HV & _).
  destruct q as [|n']; [lia|]. destruct Hctl as [Hst _]. destruct Hold as (Htot & Hfin & _).
  assert (Hj : n' * T + r < length ls) by (unfold m in HV; lia).
  assert (Hin : In (chunk ls (n' * T + r)) ls) by (unfold chunk; apply nth_In; exact Hj).
  destruct (loads_of_shape c pad input0 _ Hc Hbytes Hin) as (H1 & _ & _ & H4).
  rewrite Htot, Hfin. repeat split; try assumption; lia.
Qed.

Lemma reach_load : forall s, reach s -> io St s = I_Load -> b_now (getb s (turn St s)) = b_total (getb s (turn St s)).
Proof using Hc HT Hbytes.
  intros s Hr Hp. destruct (reach_Inv s Hr) as (q & r & Lb & Lw & Lx & Hrt & Ht & Hio & Hbuf).
  specialize (Hbuf r Hrt). rewrite Ht. rewrite Hp in Hbuf.
  rewrite nvis_self, iot_self in Hbuf. cbn [post_fin] in Hbuf. unfold BufInv in Hbuf.
  destruct Hbuf as (_ & _ & Hn & _). exact Hn.
Qed.

Lemma reach_setready : forall s x, reach s -> io St s = I_SetReady x ->
  x <= 2 /\ (x = 2 -> 1 <= live St s /\ b_now (getb s (turn St s)) = b_total (getb s (turn St s))).
Proof using Hc HT Hbytes.
  intros s x Hr Hp. destruct (reach_Inv s Hr) as (q & r & Lb & Lw & Lx & Hrt & Ht & Hio & Hbuf).
  specialize (Hbuf r Hrt). rewrite Ht. unfold IoInv in Hio. rewrite Hp in Hio, Hbuf.
  rewrite nvis_self, iot_self in Hbuf. cbn [post_fin] in Hbuf. unfold BufInv in Hbuf.
  destruct Hbuf as (_ & _ & Hb). destruct Hio as (HV & _ & _ & Hlv & Hex & _).
  cbn [io_extra] in Hex. cbn [visits_done post_fin] in Hlv.
  destruct (m ls <=? q * T + r) eqn:E.
  - apply Nat.leb_le in E. assert (E' : (q * T + r <? m ls) = false) by (apply Nat.ltb_ge; exact E).
    rewrite E' in Hb. split; [lia|]. intros _. split; [lia|exact Hb].
  - split; [destruct (ld_final (chunk ls (q * T + r))); lia|].
    intros ->. destruct (ld_final (chunk ls (q * T + r))); discriminate.
Qed.

(* after the I/O thread retired a buffer, the next one in the cycle is not yet retired unless all are *)
Lemma reach_turn : forall s, reach s -> io St s = I_Turn -> live St s <> 0 ->
  b_st (getb s ((turn St s + 1) mod T)) <> INV.
Proof using Hc HT Hbytes.
  intros s Hr Hp Hl. destruct (reach_Inv s Hr) as (q & r & Lb & Lw & Lx & Hrt & Ht & Hio & Hbuf).
  rewrite Ht. unfold IoInv in Hio. rewrite Hp in Hio.
  destruct Hio as (HV & _ & _ & Hlv & _). cbn [visits_done post_fin] in Hlv.
  assert (HV1 : q * T + r + 1 < m ls + T) by lia.
  assert (Hlt : (r + 1) mod T < T) by (apply Nat.mod_upper_bound; lia).
  pose proof (Hbuf _ Hlt) as Hb'. rewrite Hp in Hb'.
  assert (Eo : iot r I_Turn ((r + 1) mod T) = None)
    by (unfold iot; cbn [post_fin negb]; rewrite Bool.andb_false_r; reflexivity).
  rewrite Eo in Hb'. destruct Hb' as [Hb' _].
  apply (not_dead_not_inv St tag_tr tag_event c pad T (tag_init T) ls dS HT (tag_init_length T) _ _ _ _ _ Hb').
  unfold nvis. cbn [post_fin]. rewrite Bool.andb_true_r.
  destruct (Nat.eq_dec (r + 1) T) as [E|E].
  - rewrite E, Nat.mod_same by lia.
    assert (E' : ((0 <? r) || (0 =? r)) = true) by (destruct r; reflexivity). rewrite E'. lia.
  - rewrite Nat.mod_small by lia.
    assert (E' : ((r + 1 <? r) || (r + 1 =? r)) = false).
    { apply Bool.orb_false_iff. split; [apply Nat.ltb_ge|apply Nat.eqb_neq]; lia. }
    rewrite E'. lia.
Qed.

(* P7: stream objects: s stays i, the counter n is bounded by the number of blocks of the input.
   Inductive invariant, per stream i:  n_i + (total_i - now_i) + blocks_of (input s) <= blocks_of ls *)
Definition Cnt (s : state St) : Prop :=
  forall i, i < T ->
    fst (nth i (wsts St s) dS) = N.of_nat i /\
    N.to_nat (snd (nth i (wsts St s) dS)) + (b_total (getb s i) - b_now (getb s i)) + blocks_of (input St s) <= blocks_of ls.

Lemma Cnt_init : Cnt (init St T (tag_init T) ls).
Proof using Hc HT Hbytes.
  intros i Hi. unfold init, PipeConc.getb. cbn [wsts bufs input].
  rewrite nth_repeat_lt by exact Hi. cbn [empty_buf b_total b_now].
  unfold tag_init. change dS with ((fun i => (N.of_nat i, 0%N)) 0). rewrite map_nth, seq_nth by exact Hi.
  cbn [fst snd Nat.add]. split; [reflexivity|]. cbn. lia.
Qed.

Lemma Cnt_step : forall s tid s' evs, reach s -> Cnt s -> step s tid = Some (s', evs) -> Cnt s'.
Proof using Hc HT Hbytes.
  intros s tid s' evs Hr Hcnt H.
  destruct (reach_shape s Hr) as (Lb & Lw & Lx & Ht & _ & _).
  unfold PipeConc.step in H. destruct (tid <=? nT St s).
  - unfold step_real in H. destruct tid as [|j].
    + (* I/O thread *)
      destruct (step_io_frame St c pad s s' evs H ltac:(lia)) as [Ex [[Ein Hb]|(l & Eio & Ein & Etot & Enow & Hoth)]].
      * intros i Hi. destruct (Hcnt i Hi) as [H1 H2]. destruct (Hb i) as [-> ->]. rewrite Ex, Ein. split; assumption.
      * pose proof (reach_load s Hr Eio) as Hld.
        intros i Hi. destruct (Hcnt i Hi) as [H1 H2]. rewrite Ex. split; [exact H1|].
        rewrite Ein in H2. cbn [blocks_of fold_right] in H2. fold (blocks_of (input St s')) in H2.
        destruct (Nat.eq_dec i (turn St s)) as [->|Hne].
        -- rewrite Etot, Enow. rewrite Hld in H2. lia.
        -- rewrite (Hoth i Hne). lia.
    + (* worker j *)
      destruct (j <? nT St s) eqn:Ej; [|discriminate]. apply Nat.ltb_lt in Ej. unfold nT in Ej.
      destruct (step_worker_spec St tag_tr tag_event dS s j s' evs) as (b' & w' & x' & wk & Hloc & Eb & Ew & Ex & Eio & Hfr);
        try lia; [exact H|].
      destruct Hfr as (_ & _ & _ & _ & _ & _ & Ein & _ & _ & Hoth).
      destruct (wlocal_tag _ _ _ _ _ _ _ Hloc) as [F1 F2].
      intros i Hi. destruct (Hcnt i Hi) as [H1 H2]. rewrite Ein.
      destruct (Nat.eq_dec i j) as [->|Hne].
      * rewrite Eb, Ex. split; [congruence|]. lia.
      * destruct (Hoth i Hne) as (-> & _ & ->). split; assumption.
  - destruct (spurious_frame St s s' _ evs H) as (Ex & Ein & Eb).
    intros i Hi. destruct (Hcnt i Hi) as [H1 H2]. unfold PipeConc.getb. rewrite Ex, Ein, Eb. split; assumption.
Qed.

Lemma Cnt_run : forall sched s s', reach s -> Cnt s -> run s sched = Some s' -> Cnt s'.
Proof using Hc HT Hbytes.
  induction sched as [|t sched IH]; intros s s' Hr Hcnt H; cbn [PipeConc.run] in H.
  - injection H as <-. exact Hcnt.
  - destruct (step s t) as [[s1 evs]|] eqn:E; [|discriminate].
    apply (IH s1 s'); [exact (reach_step s t s1 evs Hr E)|exact (Cnt_step s t s1 evs Hr Hcnt E)|exact H].
Qed.

Lemma reach_Cnt : forall s, reach s -> Cnt s.
Proof using Hc HT Hbytes.
  intros s [sched H]. apply (Cnt_run sched _ s reach_init Cnt_init H).
Qed.

Lemma reach_counters : forall s i, reach s -> i < T ->
  fst (nth i (wsts St s) dS) = N.of_nat i /\
  N.to_nat (snd (nth i (wsts St s) dS)) + (b_total (getb s i) - b_now (getb s i)) <= blocks_of ls.
Proof using Hc HT Hbytes.
  intros s i Hr Hi. destruct (reach_Cnt s Hr i Hi) as [H1 H2]. split; [exact H1|lia].
Qed.
End Reach.

(* ---------- non-vacuity: reachable states of the instance c = 1, T = 2, encryption of 40 bytes, at every pc
   the read-offs speak about (prefixes of the complete schedule PipeProofs.NonVacuity.full) ---------- *)
Section ReachExamples.
Local Notation St := (N * N)%type.
Local Notation full := PipeProofs.NonVacuity.full.
Local Notation reach0 := (reach 1 2 true ex_inp).
Local Ltac ex_reach k := eexists; split; [exists (firstn k full); vm_compute; reflexivity|vm_compute].

Example reach_hyps_ex : 1 <= 1 /\ 1 <= 2 /\ bytesb ex_inp = true.
Proof. vm_compute. repeat split; repeat constructor. Qed.
Example reach_get_ex : exists s, reach0 s /\ 0 < 2 /\ getw St s 0 = W_Get.
Proof. ex_reach 10. split; [repeat constructor|reflexivity]. Qed.
Example reach_setupdate_ex : exists s, reach0 s /\ 0 < 2 /\ getw St s 0 = W_SetUpdate.
Proof. ex_reach 12. split; [repeat constructor|reflexivity]. Qed.
Example reach_io_own_ex : exists s, reach0 s /\ io St s = I_Cmp.
Proof. ex_reach 1. reflexivity. Qed.
Example reach_export_ex : exists s, reach0 s /\ io St s = I_Export.
Proof. ex_reach 21. reflexivity. Qed.
Example reach_load_ex : exists s, reach0 s /\ io St s = I_Load.
Proof. ex_reach 22. reflexivity. Qed.
Example reach_setready_ex : exists s, reach0 s /\ io St s = I_SetReady 2.
Proof. ex_reach 36. reflexivity. Qed.
Example reach_turn_ex : exists s, reach0 s /\ io St s = I_Turn /\ live St s <> 0.
Proof. ex_reach 39. split; [reflexivity|discriminate]. Qed.
(* the counter bound of P7 is attained: at the end stream 0 has processed 2 of the 3 blocks, stream 1 one *)
Example reach_counters_ex : exists s, reach0 s /\
  map (fun x => N.to_nat (snd x)) (wsts St s) = [2; 1] /\ blocks_of (loads_of 1 true ex_inp) = 3.
Proof. ex_reach 52. split; reflexivity. Qed.
End ReachExamples.

Print Assumptions loads_of_unfold.
Print Assumptions ld_nonfinal.
Print Assumptions loads_of_shape.
Print Assumptions loads_of_blocks.
Print Assumptions wf_loads_of.
Print Assumptions reach_init.
Print Assumptions reach_step.
Print Assumptions reach_Inv.
Print Assumptions reach_shape.
Print Assumptions reach_counters.
Print Assumptions reach_input_suffix.
Print Assumptions reach_get.
Print Assumptions reach_setupdate.
Print Assumptions reach_io_own.
Print Assumptions reach_export.
Print Assumptions reach_load.
Print Assumptions reach_setready.
Print Assumptions reach_turn.
