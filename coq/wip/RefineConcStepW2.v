(* Layer M, the workers (2): W_Get and W_Cmp -- iobuffer::get_entry, TagMode::runcry on the block, thread exit. *)
From Coq Require Import ZArith NArith List String Bool Lia Arith.
From Wencry Require Import Bytes FileModel PipeConc PipeLemmas MiniC MiniCLemmas MiniCConc SrcRun SrcRun4 RefineSeqDefs RefineSeqA RefineSeqB.
From Wencry Require Import RefineConcSim RefineConcMem RefineConcMach RefineConcTac RefineConcStepW.
From Wencry.Gen Require Src_conc.
Import ListNotations.
Local Open Scope string_scope.
Local Open Scope list_scope.

(* what TagMode::runcry does to the bytes of b: xor of bytes off..off+7 with s+1, of byte off+8 with n *)
Definition xor_at (v : Z) (pos : nat) (cells : list Z) : list Z := upd_nth pos (Z.lxor (nth pos cells 0%Z) v) cells.
Fixpoint tag_loop (v : Z) (off k n : nat) (cells : list Z) : list Z :=
  match n with O => cells | S n' => tag_loop v off (S k) n' (xor_at v (off + k) cells) end.
Definition tag_cells (sv nv : Z) (off : nat) (cells : list Z) : list Z :=
  xor_at (nv mod 256) (off + 8) (tag_loop (sv + 1) off 0 8 cells).

Lemma load_byte : forall cells off, (0 <= off < Z.of_nat (List.length cells))%Z ->
  load_obj {| o_ty := U8; o_cells := cells |} U8 off = Ok (wrap U8 (nth (Z.to_nat off) cells 0%Z)).
Proof.
  intros cells off H. unfold load_obj. cbn [o_ty o_cells]. change (ity_bytes U8) with 1%Z.
  destruct (off <? 0)%Z eqn:E; [apply Z.ltb_lt in E; lia|]. change (1 =? 1)%Z with true. cbv iota.
  rewrite Z.mod_1_r, Z.div_1_r. change (0 =? 0)%Z with true. cbv iota.
  destruct (off <? Z.of_nat (List.length cells))%Z eqn:E2; [reflexivity|apply Z.ltb_ge in E2; lia].
Qed.
Lemma store_byte : forall cells off v, (0 <= off < Z.of_nat (List.length cells))%Z ->
  store_obj {| o_ty := U8; o_cells := cells |} U8 off v = Ok {| o_ty := U8; o_cells := upd_nth (Z.to_nat off) (wrap U8 v) cells |}.
Proof.
  intros cells off v H. unfold store_obj. cbn [o_ty o_cells]. change (ity_bytes U8) with 1%Z.
  destruct (off <? 0)%Z eqn:E; [apply Z.ltb_lt in E; lia|]. change (1 =? 1)%Z with true. cbv iota.
  rewrite Z.mod_1_r, Z.div_1_r. change (0 =? 0)%Z with true. cbv iota.
  destruct (off <? Z.of_nat (List.length cells))%Z eqn:E2; [reflexivity|apply Z.ltb_ge in E2; lia].
Qed.
Lemma lxor_byte : forall a b, (0 <= a < 256)%Z -> (0 <= b < 256)%Z -> (0 <= Z.lxor a b < 256)%Z.
Proof.
  intros a b Ha Hb. split; [apply Z.lxor_nonneg; lia|].
  destruct (Z.eq_dec (Z.lxor a b) 0) as [->|N]; [lia|].
  apply Z.log2_lt_cancel. change (Z.log2 256) with 8%Z.
  eapply Z.le_lt_trans; [apply Z.log2_lxor; lia|].
  apply Z.max_lub_lt; (destruct (Z.eq_dec a 0); destruct (Z.eq_dec b 0); subst; try (cbn; lia));
    apply Z.log2_lt_pow2; lia.
Qed.

Section W2.
Variables (c T : nat) (pad : bool) (input0 : list N).
Notation cst := (cstate_md c T pad input0).
Notation sho := (sh_of c T pad input0).

Lemma rd_now : forall d i l, (i < T)%nat -> (0 <= mb_now (nth i (d_bufs d) mb0) < 2 ^ 32)%Z ->
  eval (tst (sho d) l (bpfx i)) (ELoad U32 (EField "now")) = Ok (VInt (mb_now (nth i (d_bufs d) mb0))).
Proof. intros d i l Hi H. evs. rewrite mget_now by exact Hi. rewrite load_cell. rewrite wrap_U32_small by lia. reflexivity. Qed.
Lemma rd_tot : forall d i l, (i < T)%nat -> (0 <= mb_tot (nth i (d_bufs d) mb0) < 2 ^ 32)%Z ->
  eval (tst (sho d) l (bpfx i)) (ELoad U32 (EField "total")) = Ok (VInt (mb_tot (nth i (d_bufs d) mb0))).
Proof. intros d i l Hi H. evs. rewrite mget_tot by exact Hi. rewrite load_cell. rewrite wrap_U32_small by lia. reflexivity. Qed.
Lemma rd_ms : forall d i l, (i < T)%nat -> (T <= 255)%nat ->
  eval (tst (sho d) l (mode_name i)) (ELoad I32 (EField "s")) = Ok (VInt (Z.of_nat i)).
Proof.
  intros d i l Hi HT. evs. rewrite mget_ms by exact Hi. rewrite load_cell.
  replace (wrap I32 (Z.of_nat i)) with (Z.of_nat i); [reflexivity|]. unfold wrap. cbn [ity_bits ity_signed].
  change (2 ^ 32)%Z with 4294967296%Z. change (4294967296 / 2)%Z with 2147483648%Z. rewrite Z.mod_small by lia. lia.
Qed.
Lemma rd_mn : forall d i l, (i < T)%nat -> (0 <= nth i (d_ns d) 0 < 2 ^ 32)%Z ->
  eval (tst (sho d) l (mode_name i)) (ELoad U32 (EField "n")) = Ok (VInt (nth i (d_ns d) 0%Z)).
Proof. intros d i l Hi H. evs. rewrite mget_mn by exact Hi. rewrite load_cell. rewrite wrap_U32_small by lia. reflexivity. Qed.

(* ---- one iteration of the loop of TagMode::runcry: b[off + k] ^= s + 1 ---- *)
Definition runcry_loop : stmt := match f_body f_TagMode_runcry with SSeq _ (SSeq _ (SSeq lp _)) => lp | _ => SSkip end.

Lemma runcry_iter : forall d i B off k K thr mx evs,
  (i < T)%nat -> (T <= 255)%nat -> List.length (d_bufs d) = T -> (k < 8)%nat ->
  (off + 16 <= List.length (mb_cells B))%nat -> Forall (fun z => 0 <= z < 256)%Z (mb_cells B) ->
  leads (S i) 3
    (mk runcry_loop K [("block", VPtr (bpfx i ++ "b") (Z.of_nat off)); ("i", VInt (Z.of_nat k))] (mode_name i) TRun)
    (C (sho (dset d i B)) thr mx) evs
    (mk runcry_loop K [("block", VPtr (bpfx i ++ "b") (Z.of_nat off)); ("i", VInt (Z.of_nat (S k)))] (mode_name i) TRun)
    (C (sho (dset d i (mb_with_cells (xor_at (Z.of_nat i + 1) (off + k) (mb_cells B)) B))) thr mx) evs.
Proof.
  intros d i B off k K thr mx evs Hi HT Lb Hk Hoff Hbytes F R H. unfold mk in *.
  pose proof (fun l => rd_ms (dset d i B) i l Hi HT) as RS.
  assert (Hlt : (Z.of_nat k <? 8)%Z = true) by (apply Z.ltb_lt; lia).
  unfold runcry_loop. cbn [f_body f_TagMode_runcry] in *. cbn [Nat.add].
  eapply r_none; [discriminate | fo | eapply m_loop; ev | ].
  cbn [eval_bin]. rewrite ?Hlt. evs.
  assert (Hpos : (Z.of_nat off + Z.of_nat k * 1)%Z = Z.of_nat (off + k)) by lia.
  assert (Hb : (0 <= nth (off + k) (mb_cells B) 0 < 256)%Z).
  { pose proof (proj1 (Forall_forall _ _) Hbytes (nth (off + k) (mb_cells B) 0%Z)) as Q. apply Q. apply nth_In. lia. }
  set (b := nth (off + k) (mb_cells B) 0%Z) in *.
  pose proof (lxor_byte b (Z.of_nat i + 1) Hb ltac:(lia)) as Hx.
  assert (NB : nth i (d_bufs (dset d i B)) mb0 = B) by (apply nth_dset; lia).
  eassert (EV : eval (tst (sho (dset d i B)) [("block", VPtr (bpfx i ++ "b") (Z.of_nat off)); ("i", VInt (Z.of_nat k))] (mode_name i))
                 (ECast U8 (EBin I32 BXor (ECast I32 (ELoad U8 (EPtrAdd (EVar "block") 1 (EVar "i"))))
                   (ECast I32 (ECast U8 (EBin I32 Add (ELoad I32 (EField "s")) (EConst 1)))))) = Ok (VInt _)).
  { ev_with ltac:(idtac; first [rewrite mget_b by assumption; rewrite NB; reflexivity | rewrite Hpos; rewrite load_byte by lia; rewrite Nat2Z.id; fold b; reflexivity]). }
  rewrite (wrap_U8_small b), (wrap_I32_small b), (wrap_U8_small (Z.of_nat i + 1)), (wrap_I32_small (Z.of_nat i + 1)),
          (wrap_I32_small (Z.lxor _ _)), (wrap_U8_small (Z.lxor _ _)) in EV by (change (2 ^ 31)%Z with 2147483648%Z; lia).
  eapply r_none; [discriminate | fo | eapply m_store; [ev | exact EV | evs; rewrite mget_b by assumption; rewrite NB; reflexivity
                                                      | rewrite Hpos; apply store_byte; lia ] | cbn [cont_conf next_of] ].
  rewrite Nat2Z.id. rewrite (wrap_U8_small (Z.lxor _ _)) by lia.
  erewrite (sho_mset _ _ _ _ (dset d i B)); [ | rewrite mset_b by (rewrite ?dset_length; assumption); rewrite dset_upd, NB, dset_dset; reflexivity | reflexivity].
  eapply r_none; [discriminate | fo | eapply m_set; [apply sh_of_shared | ev] | cbn [cont_conf next_of]; evs].
  replace (Z.of_nat k + 1)%Z with (Z.of_nat (S k)) by lia.
  exact H.
Qed.

Lemma xor_at_length : forall v pos cells, List.length (xor_at v pos cells) = List.length cells.
Proof. intros. unfold xor_at. apply upd_nth_length. Qed.
Lemma Forall_upd_nth : forall (P : Z -> Prop) l n v, Forall P l -> P v -> Forall P (upd_nth n v l).
Proof.
  intros P l. induction l as [|x l IH]; intros n v H Hv; [destruct n; constructor|].
  inversion H; subst. destruct n; cbn [upd_nth]; constructor; auto.
Qed.
Lemma xor_at_bytes : forall v pos cells, (0 <= v < 256)%Z -> Forall (fun z => 0 <= z < 256)%Z cells ->
  Forall (fun z => 0 <= z < 256)%Z (xor_at v pos cells).
Proof.
  intros v pos cells Hv H. unfold xor_at. apply Forall_upd_nth; [exact H|].
  apply lxor_byte; [|exact Hv]. destruct (Nat.lt_ge_cases pos (List.length cells)) as [L|L].
  - apply (proj1 (Forall_forall _ _) H). apply nth_In. exact L.
  - rewrite nth_overflow by exact L. lia.
Qed.
Lemma tag_loop_length : forall v off n k cells, List.length (tag_loop v off k n cells) = List.length cells.
Proof. intros v off. induction n as [|n IH]; intros k cells; cbn [tag_loop]; [reflexivity|]. now rewrite IH, xor_at_length. Qed.
Lemma tag_loop_bytes : forall v off n k cells, (0 <= v < 256)%Z -> Forall (fun z => 0 <= z < 256)%Z cells ->
  Forall (fun z => 0 <= z < 256)%Z (tag_loop v off k n cells).
Proof. intros v off. induction n as [|n IH]; intros k cells Hv H; cbn [tag_loop]; [exact H|]. apply IH; [exact Hv|]. apply xor_at_bytes; assumption. Qed.

Lemma runcry_iters : forall d i off K thr mx evs,
  (i < T)%nat -> (T <= 255)%nat -> List.length (d_bufs d) = T ->
  forall n k B, (k + n <= 8)%nat ->
  (off + 16 <= List.length (mb_cells B))%nat -> Forall (fun z => 0 <= z < 256)%Z (mb_cells B) ->
  leads (S i) (3 * n)
    (mk runcry_loop K [("block", VPtr (bpfx i ++ "b") (Z.of_nat off)); ("i", VInt (Z.of_nat k))] (mode_name i) TRun)
    (C (sho (dset d i B)) thr mx) evs
    (mk runcry_loop K [("block", VPtr (bpfx i ++ "b") (Z.of_nat off)); ("i", VInt (Z.of_nat (k + n)))] (mode_name i) TRun)
    (C (sho (dset d i (mb_with_cells (tag_loop (Z.of_nat i + 1) off k n (mb_cells B)) B))) thr mx) evs.
Proof.
  intros d i off K thr mx evs Hi HT Lb. induction n as [|n IH]; intros k B Hk Hoff Hbytes.
  - rewrite Nat.add_0_r. cbn [tag_loop Nat.mul]. replace (mb_with_cells (mb_cells B) B) with B by (destruct B; reflexivity).
    intros F R H. exact H.
  - replace (3 * S n)%nat with (3 + 3 * n)%nat by lia. eapply leads_trans.
    + apply runcry_iter; try assumption. lia.
    + cbn [tag_loop]. replace (k + S n)%nat with (S k + n)%nat by lia.
      specialize (IH (S k) (mb_with_cells (xor_at (Z.of_nat i + 1) (off + k) (mb_cells B)) B)).
      cbn [mb_with_cells mb_cells] in IH. apply IH; [lia|rewrite xor_at_length; exact Hoff|].
      apply xor_at_bytes; [lia|exact Hbytes].
Qed.


(* ---- TagMode::runcry(block) as a whole, up to the return into the caller's frame ---- *)
Lemma runcry_seg : forall d i B off sl sp K' thr mx evs,
  (i < T)%nat -> (T <= 255)%nat -> List.length (d_bufs d) = T -> List.length (d_ns d) = T ->
  (off + 16 <= List.length (mb_cells B))%nat -> Forall (fun z => 0 <= z < 256)%Z (mb_cells B) ->
  (0 <= nth i (d_ns d) 0 < 2 ^ 32)%Z ->
  let n := nth i (d_ns d) 0%Z in
  leads (S i) 50
    (mk (f_body f_TagMode_runcry) (KCall None sl sp K') [("block", VPtr (bpfx i ++ "b") (Z.of_nat off))] (mode_name i) TRun)
    (C (sho (dset d i B)) thr mx) evs
    (mk SSkip K' sl sp TRun)
    (C (sho (with_ns (dset d i (mb_with_cells (tag_cells (Z.of_nat i) n off (mb_cells B)) B)) (set_nth i ((n + 1) mod 2 ^ 32)%Z (d_ns d)))) thr mx)
    (evs ++ [(13, Z.of_nat i, n)]%Z).
Proof.
  intros d i B off sl sp K' thr mx evs Hi HT Lb Ln Hoff Hbytes Hn n F R H. unfold mk in *.
  pose proof (fun l => rd_ms (dset d i B) i l Hi HT) as RS.
  pose proof (fun l => rd_mn (dset d i B) i l Hi Hn) as RN. cbn [dset with_bufs d_ns] in RN. fold n in RN.
  cbn [f_body f_TagMode_runcry]. cbn [Nat.add].
  mstep. mstep. cbn [dset with_bufs d_ns]. fold n. rewrite (wrap_I64_nat (Z.of_nat i)), (wrap_I64_nat n) by lia.
  mstep. mstep. mstep.
  eapply (runcry_iters d i off _ thr mx _ Hi HT Lb 8 0 B); [lia | exact Hoff | exact Hbytes | ].
  cbn [Nat.add]. clear RS RN. unfold runcry_loop, mk. cbn [f_body f_TagMode_runcry].
  set (c8 := tag_loop (Z.of_nat i + 1) off 0 8 (mb_cells B)).
  assert (L8 : List.length c8 = List.length (mb_cells B)) by apply tag_loop_length.
  assert (B8 : Forall (fun z => 0 <= z < 256)%Z c8) by (apply tag_loop_bytes; [lia|exact Hbytes]).
  set (B1 := mb_with_cells c8 B).
  pose proof (fun l => rd_mn (dset d i B1) i l Hi Hn) as RN. cbn [dset with_bufs d_ns] in RN. fold n in RN.
  assert (NB : nth i (d_bufs (dset d i B1)) mb0 = B1) by (apply nth_dset; lia).
  mstep. mstep.
  assert (Hpos : (Z.of_nat off + 8 * 1)%Z = Z.of_nat (off + 8)) by lia.
  assert (Hb : (0 <= nth (off + 8) c8 0 < 256)%Z).
  { apply (proj1 (Forall_forall _ _) B8). apply nth_In. lia. }
  set (b := nth (off + 8) c8 0%Z) in *.
  assert (Hm : (0 <= n mod 256 < 256)%Z) by (apply Z.mod_pos_bound; lia).
  pose proof (lxor_byte b (n mod 256) Hb Hm) as Hx.
  eassert (EV : eval (tst (sho (dset d i B1)) [("block", VPtr (bpfx i ++ "b") (Z.of_nat off)); ("i", VInt 8)] (mode_name i))
                 (ECast U8 (EBin I32 BXor (ECast I32 (ELoad U8 (EPtrAdd (EVar "block") 1 (EConst 8))))
                   (ECast I32 (ECast U8 (ELoad U32 (EField "n")))))) = Ok (VInt _)).
  { ev_with ltac:(idtac; first [rewrite mget_b by assumption; rewrite NB; reflexivity | rewrite Hpos; rewrite load_byte by (cbn [B1 mb_with_cells mb_cells]; lia); rewrite Nat2Z.id; cbn [B1 mb_with_cells mb_cells]; fold b; reflexivity]). }
  rewrite (wrap_U8_mod n) in EV.
  rewrite (wrap_U8_small b), (wrap_I32_small b), (wrap_I32_small (n mod 256)),
          (wrap_I32_small (Z.lxor _ _)), (wrap_U8_small (Z.lxor _ _)) in EV by (change (2 ^ 31)%Z with 2147483648%Z; lia).
  eapply r_none; [discriminate | fo | eapply m_store; [ev | exact EV | evs; rewrite mget_b by assumption; rewrite NB; reflexivity
                                                      | rewrite Hpos; apply store_byte; cbn [B1 mb_with_cells mb_cells]; lia ] | cbn [cont_conf next_of] ].
  rewrite Nat2Z.id. rewrite (wrap_U8_small (Z.lxor _ _)) by lia.
  erewrite (sho_mset _ _ _ _ (dset d i B1)); [ | rewrite mset_b by (rewrite ?dset_length; assumption); rewrite dset_upd, NB, dset_dset; reflexivity | reflexivity].
  cbn [B1 mb_with_cells mb_cells].
  fold (xor_at (n mod 256) (off + 8) c8). fold (tag_cells (Z.of_nat i) n off (mb_cells B)).
  set (B2 := {| mb_cells := tag_cells (Z.of_nat i) n off (mb_cells B); mb_tot := mb_tot B; mb_now := mb_now B; mb_tail := mb_tail B; mb_fin := mb_fin B; mb_st := mb_st B |}).
  clear RN. pose proof (fun l => rd_mn (dset d i B2) i l Hi Hn) as RN. cbn [dset with_bufs d_ns] in RN. fold n in RN.
  eapply r_none; [discriminate | fo | eapply m_store; [ev | ev | evs; rewrite mget_mn by assumption; reflexivity | apply store_cell ] | cbn [cont_conf next_of] ].
  rewrite wrap_U32_small by (apply Z.mod_pos_bound; lia).
  erewrite (sho_mset _ _ _ _ (dset d i B2)); [ | apply mset_mn; assumption | reflexivity].
  eapply exr_weaken; [exact H | lia].
Qed.


(* the locals of multiruncrypt_file once `block` is set *)
Definition wl_loop (i : nat) (v2 vb : value) (tl : locs) : locs := wl1 i ++ ("$t2", v2) :: ("block", vb) :: tl.

(* ---- the loop of multiruncrypt_file, entered with a block: runcry on it and the next call of require_buffer_entry, up to its yield ---- *)
Lemma loop_ptr_fin : forall p ws d g i B now v2 tl evs R,
  (i < T)%nat -> (T <= 255)%nat -> List.length (d_bufs d) = T -> List.length (d_ns d) = T -> List.length ws = T -> List.length (g_wl g) = T ->
  (16 * now + 16 <= List.length (mb_cells B))%nat -> Forall (fun z => 0 <= z < 256)%Z (mb_cells B) ->
  (0 <= nth i (d_ns d) 0 < 2 ^ 32)%Z ->
  let n := nth i (d_ns d) 0%Z in
  let wl := wl_loop i v2 (VPtr (bpfx i ++ "b") (Z.of_nat (16 * now))) tl in
  R = (cst p (set_nth i W_Get ws)
           (with_ns (dset d i (mb_with_cells (tag_cells (Z.of_nat i) n (16 * now) (mb_cells B)) B)) (set_nth i ((n + 1) mod 2 ^ 32)%Z (d_ns d)))
           (with_wl g i wl), evs ++ [(13, Z.of_nat i, n)]%Z) ->
  exr (S i) 70 false (mk mf_loop KStop wl "" TRun) (C (sho (dset d i B)) (threads_of T pad p ws (d_turn d) g) []) evs R.
Proof.
  intros p ws d g i B now v2 tl evs R Hi HT Lb Ln Lw Lg Hoff Hbytes Hn n wl HR. unfold mk, wl, wl_loop, wl1, wl0, mf_loop. unf. cbn [app].
  mstep. mstep.
  eapply (runcry_seg d i B (16 * now)); try assumption. cbn [Nat.add]. fold n.
  unfold mk. msteps. subst R.
  eapply r_stop; [discriminate | reflexivity | ].
  eapply (fin_worker _ _ _ _ _ _ _ _ _ _ W_Get (wl_loop i v2 (VPtr (bpfx i ++ "b") (Z.of_nat (16 * now))) tl)); try assumption; try reflexivity.
Qed.


Lemma loop_null_fin : forall p ws d g i v2 tl evs R,
  (i < T)%nat -> List.length ws = T -> List.length (g_wl g) = T ->
  let wl := wl_loop i v2 VNull tl in
  R = (cst p (set_nth i W_Done ws) d (with_wl g i wl), evs ++ [(14, 0, 0)]%Z) ->
  exr (S i) 5 false (mk mf_loop KStop wl "" TRun) (C (sho d) (threads_of T pad p ws (d_turn d) g) []) evs R.
Proof.
  intros p ws d g i v2 tl evs R Hi Lw Lg wl HR. unfold mk, wl, wl_loop, wl1, wl0, mf_loop. unf. cbn [app].
  mstep. subst R. eapply r_done; [reflexivity|].
  eapply (fin_worker _ _ _ _ _ _ _ _ _ _ W_Done (wl_loop i v2 VNull tl)); try assumption; try reflexivity.
Qed.

(* the shapes of the locals of multiruncrypt_file while require_buffer_entry runs *)
Definition wl_rbe (i : nat) (wl : locs) : Prop :=
  wl = wl1 i \/ (exists v2 vb, wl = wl_loop i v2 vb []) \/ (exists v2 vb v3, wl = wl_loop i v2 vb [("$t3", v3)]).
(* ... and after it returned v *)
Definition wl_ret (i : nat) (wl : locs) (v : value) : locs :=
  if Nat.eqb (List.length wl) 4 then wl_loop i v v []
  else match wl with
       | _ :: _ :: _ :: _ :: (_, v2) :: _ => wl_loop i v2 v [("$t3", v)]
       | _ => wl
       end.

(* ---- W_Get ---- *)
Lemma M_get_some : forall p ws d g i,
  (i < T)%nat -> dwf c T d -> List.length ws = T -> List.length (g_wl g) = T -> nth i ws W_Done = W_Get -> wl_rbe i (nth i (g_wl g) []) ->
  let b := nth i (d_bufs d) mb0 in
  (mb_now b < mb_tot b)%Z ->
  let n := nth i (d_ns d) 0%Z in
  let now := Z.to_nat (mb_now b) in
  let B := mb_with_cells (tag_cells (Z.of_nat i) n (16 * now) (mb_cells b)) (mb_with_now (mb_now b + 1) b) in
  exists k, (k <= 150)%nat /\ cstep prog vt k (cst p ws d g) (S i) =
     Ok (cst p (set_nth i W_Get ws) (with_ns (dset d i B) (set_nth i ((n + 1) mod 2 ^ 32)%Z (d_ns d)))
             (with_wl g i (wl_ret i (nth i (g_wl g) []) (VPtr (bpfx i ++ "b") (Z.of_nat (16 * now))))),
         [(1, Z.of_nat i, 1); (13, Z.of_nat i, n)]%Z).
Proof.
  intros p ws d g i Hi Hd Lw Lg Hw Hwl b Hlt n now B.
  destruct Hd as (Lb & Ln & Ht & Hl & HT & Hc1 & Hc & Hb & Hn). destruct (Hb i Hi) as (Hst & Htot & Hnow & Hlen & Hbytes).
  pose proof (fun l => rd_now d i l Hi Hnow) as RN. pose proof (fun l => rd_tot d i l Hi ltac:(lia)) as RT.
  fold b in Hst, Htot, Hnow, Hlen, Hbytes, RN, RT.
  assert (Hlt' : (mb_now b <? mb_tot b)%Z = true) by (apply Z.ltb_lt; lia).
  unfold cstate_md at 1.
  eapply (cstep_run 150); [apply nth_thread_worker; exact Hi | rewrite Hw; reflexivity | rewrite Hw; unf; reflexivity | ].
  rewrite Hw. unf.
  destruct Hwl as [E|[(v2 & vb & E)|(v2 & vb & v3 & E)]]; rewrite E; unfold wl_ret, wl_loop, wl1, wl0; cbn [app List.length Nat.eqb].
  all: msteps; change (elem_pfx "#1" i) with (bpfx i); rewrite ?Hlt'; evs; msteps;
    (mstep; [rewrite mget_now by exact Hi; reflexivity | apply store_cell | ]);
    rewrite Z.mod_small by (cbn [ity_bits]; lia); rewrite wrap_U32_small by lia;
    (erewrite (sho_mset _ _ _ _ d); [ | apply mset_now; assumption | reflexivity]); rewrite dset_upd; fold b;
    msteps; unf; cbn [cont_conf next_of]; rewrite (wrap_I64_nat (Z.of_nat i)) by lia;
    replace (0 + mb_now b * 16)%Z with (Z.of_nat (16 * now)) by (unfold now; lia);
    msteps.
  - eapply exr_weaken; [eapply (loop_ptr_fin p ws d g i (mb_with_now (mb_now b + 1) b) now _ []); try assumption; try lia | lia].
    + cbn [mb_with_now mb_cells]. rewrite Hlen. unfold now. lia.
    + apply Hn. exact Hi.
    + reflexivity.
  - eapply exr_weaken; [eapply (loop_ptr_fin p ws d g i (mb_with_now (mb_now b + 1) b) now v2 [("$t3", _)]); try assumption; try lia | lia].
    + cbn [mb_with_now mb_cells]. rewrite Hlen. unfold now. lia.
    + apply Hn. exact Hi.
    + reflexivity.
  - eapply exr_weaken; [eapply (loop_ptr_fin p ws d g i (mb_with_now (mb_now b + 1) b) now v2 [("$t3", _)]); try assumption; try lia | lia].
    + cbn [mb_with_now mb_cells]. rewrite Hlen. unfold now. lia.
    + apply Hn. exact Hi.
    + reflexivity.
Qed.


Lemma M_get_none : forall p ws d g i,
  (i < T)%nat -> dwf c T d -> List.length ws = T -> List.length (g_wl g) = T -> nth i ws W_Done = W_Get -> wl_rbe i (nth i (g_wl g) []) ->
  let b := nth i (d_bufs d) mb0 in
  (mb_tot b <= mb_now b)%Z ->
  exists k, (k <= 150)%nat /\ cstep prog vt k (cst p ws d g) (S i) =
     Ok (cst p (set_nth i W_SetUpdate ws) d (with_wl g i (nth i (g_wl g) [])), [(1, Z.of_nat i, 0)]%Z).
Proof.
  intros p ws d g i Hi Hd Lw Lg Hw Hwl b Hlt.
  destruct Hd as (Lb & Ln & Ht & Hl & HT & Hc1 & Hc & Hb & Hn). destruct (Hb i Hi) as (Hst & Htot & Hnow & Hlen & Hbytes).
  pose proof (fun l => rd_now d i l Hi Hnow) as RN. pose proof (fun l => rd_tot d i l Hi ltac:(lia)) as RT.
  fold b in Hst, Htot, Hnow, Hlen, Hbytes, RN, RT.
  assert (Hlt' : (mb_now b <? mb_tot b)%Z = false) by (apply Z.ltb_ge; lia).
  unfold cstate_md at 1.
  eapply (cstep_run 150); [apply nth_thread_worker; exact Hi | rewrite Hw; reflexivity | rewrite Hw; unf; reflexivity | ].
  rewrite Hw. unf.
  msteps; change (elem_pfx "#1" i) with (bpfx i); rewrite ?Hlt'; evs; msteps.
  rewrite (wrap_I64_nat (Z.of_nat i)) by lia.
  stop_worker W_SetUpdate (nth i (g_wl g) []). reflexivity.
Qed.


(* ---- W_Cmp ---- *)
Ltac start_cmp Hi Hw :=
  unfold cstate_md at 1;
  eapply (cstep_run 150); [apply nth_thread_worker; exact Hi | rewrite Hw; reflexivity | rewrite Hw; unf; reflexivity | ];
  rewrite Hw; unf; unfold rbe_locs.

Lemma M_cmp_done : forall p ws d g i,
  (i < T)%nat -> dwf c T d -> List.length ws = T -> List.length (g_wl g) = T -> nth i ws W_Done = W_Cmp -> wl_rbe i (nth i (g_wl g) []) ->
  let b := nth i (d_bufs d) mb0 in
  (mb_st b <> 2%nat \/ (mb_tot b <= mb_now b)%Z) ->
  exists k, (k <= 150)%nat /\ cstep prog vt k (cst p ws d g) (S i) =
     Ok (cst p (set_nth i W_Done ws) d (with_wl g i (wl_ret i (nth i (g_wl g) []) VNull)), [(2, Z.of_nat i, 0); (14, 0, 0)]%Z).
Proof.
  intros p ws d g i Hi Hd Lw Lg Hw Hwl b Hcase.
  destruct Hd as (Lb & Ln & Ht & Hl & HT & Hc1 & Hc & Hb & Hn). destruct (Hb i Hi) as (Hst & Htot & Hnow & Hlen & Hbytes).
  pose proof (fun l => rd_now d i l Hi Hnow) as RN. pose proof (fun l => rd_tot d i l Hi ltac:(lia)) as RT.
  pose proof (fun l => rd_state c T pad input0 d i l Hi Hst) as RD.
  fold b in Hst, Htot, Hnow, Hlen, Hbytes, RN, RT, RD.
  assert (Est : (mb_st b = 0 \/ mb_st b = 1 \/ mb_st b = 2 \/ mb_st b = 3)%nat) by lia.
  destruct Est as [E|[E|[E|E]]]; rewrite E in RD.
  1,2,4: start_cmp Hi Hw; msteps; change (elem_pfx "#2" i) with (cpfx i); msteps; rewrite (wrap_I64_nat (Z.of_nat i)) by lia;
    (destruct Hwl as [E'|[(v2 & vb & E')|(v2 & vb & v3 & E')]]; rewrite E'; unfold wl_ret, wl_loop, wl1, wl0; cbn [app List.length Nat.eqb];
     msteps; unf; cbn [cont_conf next_of]; msteps;
     (eapply exr_weaken; [eapply loop_null_fin; try assumption; reflexivity | lia])).
  destruct Hcase as [N|Hlt]; [congruence|].
  assert (Hlt' : (mb_now b <? mb_tot b)%Z = false) by (apply Z.ltb_ge; lia).
  start_cmp Hi Hw; msteps; change (elem_pfx "#2" i) with (cpfx i); msteps; change (elem_pfx "#1" i) with (bpfx i); rewrite ?Hlt'; evs; msteps;
    rewrite (wrap_I64_nat (Z.of_nat i)) by lia;
    (destruct Hwl as [E'|[(v2 & vb & E')|(v2 & vb & v3 & E')]]; rewrite E'; unfold wl_ret, wl_loop, wl1, wl0; cbn [app List.length Nat.eqb];
     msteps; unf; cbn [cont_conf next_of]; msteps;
     (eapply exr_weaken; [eapply loop_null_fin; try assumption; reflexivity | lia])).
Qed.


Lemma M_cmp_some : forall p ws d g i,
  (i < T)%nat -> dwf c T d -> List.length ws = T -> List.length (g_wl g) = T -> nth i ws W_Done = W_Cmp -> wl_rbe i (nth i (g_wl g) []) ->
  let b := nth i (d_bufs d) mb0 in
  mb_st b = 2%nat -> (mb_now b < mb_tot b)%Z ->
  let n := nth i (d_ns d) 0%Z in
  let now := Z.to_nat (mb_now b) in
  let B := mb_with_cells (tag_cells (Z.of_nat i) n (16 * now) (mb_cells b)) (mb_with_now (mb_now b + 1) b) in
  exists k, (k <= 150)%nat /\ cstep prog vt k (cst p ws d g) (S i) =
     Ok (cst p (set_nth i W_Get ws) (with_ns (dset d i B) (set_nth i ((n + 1) mod 2 ^ 32)%Z (d_ns d)))
             (with_wl g i (wl_ret i (nth i (g_wl g) []) (VPtr (bpfx i ++ "b") (Z.of_nat (16 * now))))),
         [(2, Z.of_nat i, 1); (13, Z.of_nat i, n)]%Z).
Proof.
  intros p ws d g i Hi Hd Lw Lg Hw Hwl b E Hlt n now B.
  destruct Hd as (Lb & Ln & Ht & Hl & HT & Hc1 & Hc & Hb & Hn). destruct (Hb i Hi) as (Hst & Htot & Hnow & Hlen & Hbytes).
  pose proof (fun l => rd_now d i l Hi Hnow) as RN. pose proof (fun l => rd_tot d i l Hi ltac:(lia)) as RT.
  pose proof (fun l => rd_state c T pad input0 d i l Hi Hst) as RD.
  fold b in Hst, Htot, Hnow, Hlen, Hbytes, RN, RT, RD. rewrite E in RD.
  assert (Hlt' : (mb_now b <? mb_tot b)%Z = true) by (apply Z.ltb_lt; lia).
  start_cmp Hi Hw; msteps; change (elem_pfx "#2" i) with (cpfx i); msteps; change (elem_pfx "#1" i) with (bpfx i); rewrite ?Hlt'; evs; msteps;
    (mstep; [rewrite mget_now by exact Hi; reflexivity | apply store_cell | ]);
    rewrite Z.mod_small by (cbn [ity_bits]; lia); rewrite wrap_U32_small by lia;
    (erewrite (sho_mset _ _ _ _ d); [ | apply mset_now; assumption | reflexivity]); rewrite dset_upd; fold b;
    msteps; rewrite (wrap_I64_nat (Z.of_nat i)) by lia;
    replace (0 + mb_now b * 16)%Z with (Z.of_nat (16 * now)) by (unfold now; lia).
  destruct Hwl as [E'|[(v2 & vb & E')|(v2 & vb & v3 & E')]]; rewrite E'; unfold wl_ret, wl_loop, wl1, wl0; cbn [app List.length Nat.eqb];
    msteps; unf; cbn [cont_conf next_of]; msteps.
  - eapply exr_weaken; [eapply (loop_ptr_fin p ws d g i (mb_with_now (mb_now b + 1) b) now _ []); try assumption; try lia | lia].
    + cbn [mb_with_now mb_cells]. rewrite Hlen. unfold now. lia.
    + apply Hn. exact Hi.
    + reflexivity.
  - eapply exr_weaken; [eapply (loop_ptr_fin p ws d g i (mb_with_now (mb_now b + 1) b) now v2 [("$t3", _)]); try assumption; try lia | lia].
    + cbn [mb_with_now mb_cells]. rewrite Hlen. unfold now. lia.
    + apply Hn. exact Hi.
    + reflexivity.
  - eapply exr_weaken; [eapply (loop_ptr_fin p ws d g i (mb_with_now (mb_now b + 1) b) now v2 [("$t3", _)]); try assumption; try lia | lia].
    + cbn [mb_with_now mb_cells]. rewrite Hlen. unfold now. lia.
    + apply Hn. exact Hi.
    + reflexivity.
Qed.

End W2.
