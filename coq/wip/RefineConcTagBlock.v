(* Pure list facts for layer R: TagMode::runcry on the bytes of b (RefineConcStepW2.tag_cells) against PipeConc.tag_tr on a block. *)
From Coq Require Import ZArith NArith List Bool Lia Arith.
From Wencry Require Import Bytes FileModel PipeConc PipeLemmas MiniC MiniCLemmas RefineConcStepW2.
Import ListNotations.
Local Open Scope list_scope.

Lemma upd_nth_app_r : forall (pre l : list Z) j v, upd_nth (List.length pre + j) v (pre ++ l) = pre ++ upd_nth j v l.
Proof. induction pre as [|x pre IH]; intros l j v; cbn [List.length Nat.add app upd_nth]; [reflexivity|]. now rewrite IH. Qed.
Lemma nth_app_r : forall (pre l : list Z) j d, nth (List.length pre + j) (pre ++ l) d = nth j l d.
Proof. induction pre as [|x pre IH]; intros l j d; cbn [List.length Nat.add app nth]; [reflexivity|]. apply IH. Qed.
Lemma xor_at_app_r : forall v (pre l : list Z) j, xor_at v (List.length pre + j) (pre ++ l) = pre ++ xor_at v j l.
Proof. intros. unfold xor_at. now rewrite nth_app_r, upd_nth_app_r. Qed.
Lemma tag_loop_app_r : forall v (pre : list Z) n k l, tag_loop v (List.length pre) k n (pre ++ l) = pre ++ tag_loop v 0 k n l.
Proof.
  intros v pre. induction n as [|n IH]; intros k l; cbn [tag_loop]; [reflexivity|].
  rewrite xor_at_app_r. cbn [Nat.add]. apply IH.
Qed.
Lemma tag_cells_app_r : forall sv nv (pre l : list Z), tag_cells sv nv (List.length pre) (pre ++ l) = pre ++ tag_cells sv nv 0 l.
Proof. intros. unfold tag_cells. rewrite tag_loop_app_r, xor_at_app_r. reflexivity. Qed.

(* a list of length >= 16 starts with 16 explicit elements *)
Lemma split16 : forall (A : Type) (l : list A), (16 <= List.length l)%nat ->
  exists a0 a1 a2 a3 a4 a5 a6 a7 a8 a9 a10 a11 a12 a13 a14 a15 r,
    l = a0 :: a1 :: a2 :: a3 :: a4 :: a5 :: a6 :: a7 :: a8 :: a9 :: a10 :: a11 :: a12 :: a13 :: a14 :: a15 :: r.
Proof.
  intros A l H.
  do 16 (destruct l as [|? l]; [cbn in H; lia|]).
  repeat eexists.
Qed.

Lemma mod32_mod256 : forall a, ((a mod 2 ^ 32) mod 256 = a mod 256)%Z.
Proof.
  intros a. change (2 ^ 32)%Z with (256 * 16777216)%Z. rewrite Z.rem_mul_r by lia.
  rewrite (Z.mul_comm 256), Z_mod_plus_full. apply Z.mod_mod. lia.
Qed.
Lemma to_N_lxor : forall a b, (0 <= a)%Z -> (0 <= b)%Z -> Z.to_N (Z.lxor a b) = N.lxor (Z.to_N a) (Z.to_N b).
Proof. intros a b Ha Hb. rewrite <- (Z2N.id a Ha) at 1. rewrite <- (Z2N.id b Hb) at 1. rewrite <- of_N_lxor. apply N2Z.id. Qed.

(* the block at offset 0 *)
Lemma tag_block0 : forall (i : nat) (n : N) (z : list Z) (post : list Z),
  List.length z = 16%nat -> Forall (fun x => 0 <= x < 256)%Z z -> (i < 255)%nat ->
  map Z.to_N (firstn 16 (tag_cells (Z.of_nat i) (Z.of_N n mod 2 ^ 32) 0 (z ++ post))) = snd (tag_tr (N.of_nat i, n) (map Z.to_N z)) /\
  skipn 16 (tag_cells (Z.of_nat i) (Z.of_N n mod 2 ^ 32) 0 (z ++ post)) = post.
Proof.
  intros i n z post Hl Hb Hi.
  do 16 (destruct z as [|? z]; [discriminate Hl|]). destruct z; [|discriminate Hl].
  repeat match goal with H : Forall _ (_ :: _) |- _ => inversion H; subst; clear H end.
  split; [|reflexivity].
  unfold tag_cells, tag_tr. cbn [tag_loop xor_at upd_nth nth Nat.add app firstn map List.length seq combine Nat.ltb Nat.leb Nat.eqb snd].
  assert (E1 : ((N.of_nat i + 1) mod 256 = Z.to_N (Z.of_nat i + 1))%N).
  { rewrite N.mod_small by lia. lia. }
  assert (E2 : (n mod 256 = Z.to_N ((Z.of_N n mod 2 ^ 32) mod 256))%N).
  { rewrite mod32_mod256. change 256%Z with (Z.of_N 256). rewrite <- N2Z.inj_mod. rewrite N2Z.id. reflexivity. }
  rewrite E1, E2.
  assert (Hm : (0 <= (Z.of_N n mod 2 ^ 32) mod 256)%Z) by (apply Z.mod_pos_bound; lia).
  repeat rewrite to_N_lxor by lia. reflexivity.
Qed.

Lemma set_nth_split : forall (A : Type) (l : list A) n x d, (n < List.length l)%nat ->
  l = firstn n l ++ nth n l d :: skipn (S n) l /\ set_nth n x l = firstn n l ++ x :: skipn (S n) l.
Proof.
  intros A l. induction l as [|a l IH]; intros n x d H; [cbn in H; lia|].
  destruct n as [|n]; cbn [firstn nth skipn set_nth app]; [split; reflexivity|].
  cbn [List.length] in H. destruct (IH n x d ltac:(lia)) as [E1 E2]. split; [f_equal; exact E1|rewrite E2; reflexivity].
Qed.
Lemma concat_len16' : forall bs : list (list N), Forall (fun b => List.length b = 16%nat) bs -> List.length (concat bs) = (16 * List.length bs)%nat.
Proof.
  induction bs as [|b r IH]; intro H; [reflexivity|].
  inversion H; subst. cbn [concat List.length]. rewrite app_length, IH by assumption. lia.
Qed.
Lemma tag_tr_length : forall x blk, List.length (snd (tag_tr x blk)) = List.length blk.
Proof. intros [s n] blk. unfold tag_tr. cbn [snd]. rewrite map_length, combine_length, seq_length. lia. Qed.
Lemma tag_cells_length : forall sv nv off cells, List.length (tag_cells sv nv off cells) = List.length cells.
Proof. intros. unfold tag_cells. rewrite xor_at_length, tag_loop_length. reflexivity. Qed.
Lemma tag_cells_bytes : forall sv nv off cells, (0 <= sv + 1 < 256)%Z -> Forall (fun z => 0 <= z < 256)%Z cells ->
  Forall (fun z => 0 <= z < 256)%Z (tag_cells sv nv off cells).
Proof.
  intros. unfold tag_cells. apply xor_at_bytes; [apply Z.mod_pos_bound; lia|]. apply tag_loop_bytes; assumption.
Qed.

Lemma tag_cells_data : forall (i : nat) (n : N) cells data tot now,
  (16 * tot <= List.length cells)%nat -> Forall (fun z => 0 <= z < 256)%Z cells ->
  List.length data = tot -> Forall (fun blk => List.length blk = 16%nat) data -> (now < tot)%nat ->
  map Z.to_N (firstn (16 * tot) cells) = concat data -> (i < 255)%nat ->
  map Z.to_N (firstn (16 * tot) (tag_cells (Z.of_nat i) (Z.of_N n mod 2 ^ 32) (16 * now) cells)) =
  concat (set_nth now (snd (tag_tr (N.of_nat i, n) (nth now data []))) data).
Proof.
  intros i n cells data tot now Hlen Hby Hld H16 Hnow Hrel Hi.
  set (blk' := snd (tag_tr (N.of_nat i, n) (nth now data []))).
  destruct (set_nth_split _ data now blk' [] ltac:(lia)) as [Ed Es]. rewrite Es.
  set (d1 := firstn now data) in *. set (d2 := skipn (S now) data) in *. set (blk := nth now data []) in *.
  assert (H16' : Forall (fun b => List.length b = 16%nat) d1 /\ List.length blk = 16%nat /\ Forall (fun b => List.length b = 16%nat) d2).
  { rewrite Ed in H16. apply Forall_app in H16. destruct H16 as [A B]. apply Forall_cons_iff in B. destruct B as [B1 B2]. auto. }
  destruct H16' as (Hd1 & Hblk & Hd2).
  assert (Ld1 : List.length d1 = now) by (unfold d1; rewrite firstn_length; lia).
  assert (Ld2 : List.length d2 = (tot - S now)%nat) by (unfold d2; rewrite skipn_length; lia).
  (* the cells, split in the same way *)
  set (pre := firstn (16 * now) cells). set (rest := skipn (16 * now) cells).
  assert (Ec : cells = pre ++ rest) by (unfold pre, rest; symmetry; apply firstn_skipn).
  assert (Lpre : List.length pre = (16 * now)%nat) by (unfold pre; rewrite firstn_length; lia).
  assert (Lrest : (16 <= List.length rest)%nat) by (unfold rest; rewrite skipn_length; lia).
  set (z := firstn 16 rest). set (post := skipn 16 rest).
  assert (Er : rest = z ++ post) by (unfold z, post; symmetry; apply firstn_skipn).
  assert (Lz : List.length z = 16%nat) by (unfold z; rewrite firstn_length; lia).
  assert (Hbz : Forall (fun x => 0 <= x < 256)%Z z).
  { rewrite Ec, Er in Hby. apply Forall_app in Hby. destruct Hby as [_ B]. apply Forall_app in B. tauto. }
  (* the relation, split *)
  assert (Hrel' : map Z.to_N pre ++ map Z.to_N z ++ map Z.to_N (firstn (16 * tot - 16 * now - 16) post) = concat d1 ++ blk ++ concat d2).
  { rewrite <- !map_app. rewrite Ed in Hrel. rewrite concat_app in Hrel. cbn [concat] in Hrel. rewrite <- Hrel. f_equal.
    rewrite Ec, Er. rewrite firstn_app, Lpre. rewrite (firstn_all2 pre) by lia. f_equal.
    replace (16 * tot - 16 * now)%nat with (16 + (16 * tot - 16 * now - 16))%nat by lia.
    rewrite firstn_app, Lz. rewrite (firstn_all2 z) by lia. repeat f_equal; lia. }
  assert (E1 : map Z.to_N pre = concat d1).
  { apply (f_equal (firstn (16 * now))) in Hrel'. rewrite !firstn_app in Hrel'.
    rewrite map_length, Lpre, Nat.sub_diag in Hrel'. rewrite concat_len16', Ld1, Nat.sub_diag in Hrel' by exact Hd1.
    cbn [firstn] in Hrel'. rewrite !app_nil_r in Hrel'. rewrite !firstn_all2 in Hrel' by (rewrite ?map_length, ?concat_len16' by exact Hd1; lia). exact Hrel'. }
  rewrite E1 in Hrel'. apply app_inv_head in Hrel'.
  assert (E2 : map Z.to_N z = blk).
  { apply (f_equal (firstn 16)) in Hrel'. rewrite !firstn_app in Hrel'. rewrite map_length, Lz, Hblk, Nat.sub_diag in Hrel'.
    rewrite !firstn_O in Hrel'. rewrite !app_nil_r in Hrel'. rewrite !firstn_all2 in Hrel' by (rewrite ?map_length; lia). exact Hrel'. }
  rewrite E2 in Hrel'. apply app_inv_head in Hrel'.
  (* the tagged cells *)
  rewrite Ec at 1. replace (16 * now)%nat with (List.length pre) by exact Lpre. rewrite tag_cells_app_r. rewrite Er.
  destruct (tag_block0 i n z post Lz Hbz Hi) as [T1 T2].
  set (tc := tag_cells (Z.of_nat i) (Z.of_N n mod 2 ^ 32) 0 (z ++ post)) in *.
  assert (Ltc : List.length tc = List.length (z ++ post)) by apply tag_cells_length.
  rewrite <- (firstn_skipn 16 tc). rewrite T2.
  assert (Lf : List.length (firstn 16 tc) = 16%nat) by (rewrite firstn_length, Ltc, app_length; lia).
  rewrite firstn_app, Lpre. rewrite (firstn_all2 pre) by lia.
  replace (16 * tot - 16 * now)%nat with (16 + (16 * tot - 16 * now - 16))%nat by lia.
  rewrite firstn_app, Lf. rewrite (firstn_all2 (firstn 16 tc)) by lia.
  replace (16 + (16 * tot - 16 * now - 16) - 16)%nat with (16 * tot - 16 * now - 16)%nat by lia.
  rewrite !map_app, E1, T1, E2, Hrel'. fold blk'. rewrite concat_app. cbn [concat]. reflexivity.
Qed.
