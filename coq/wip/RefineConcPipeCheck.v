(* The statements of PARALLEL.md, verbatim, each closed by the lemma of the same name in RefineConcPipe.v. *)
From Coq Require Import ZArith NArith List Bool Lia Arith.
From Wencry Require Import Bytes FileModel PipeConc PipeProps PipeLemmas PipeInv.
From Wencry Require RefineConcPipe.
Import ListNotations.
Module P := RefineConcPipe.

Definition ld_of (c : nat) (pad : bool) : list N -> load * list N := if pad then load_enc c else load_dec c.
Lemma loads_of_unfold : forall c pad rest, 1 <= c ->
  loads_of c pad rest =
  let (l, rest') := ld_of c pad rest in
  if ld_final l then (if ld_total l =? 0 then [] else [l]) else l :: loads_of c pad rest'.
Proof. exact P.loads_of_unfold. Qed.
Lemma ld_nonfinal : forall c pad rest l rest', 1 <= c -> ld_of c pad rest = (l, rest') -> ld_final l = false ->
  16 * c <= length rest /\ rest' = skipn (16 * c) rest /\ ld_total l = c /\ ld_data l = firstn (16 * c) rest.
Proof. exact P.ld_nonfinal. Qed.
Lemma loads_of_shape : forall c pad rest l, 1 <= c -> bytesb rest = true -> In l (loads_of c pad rest) ->
  1 <= ld_total l <= c /\ length (ld_data l) = 16 * ld_total l /\ bytesb (ld_data l) = true /\
  (ld_final l = false -> ld_total l = c).
Proof. exact P.loads_of_shape. Qed.
Definition blocks_of (ls : list load) : nat := fold_right (fun l a => ld_total l + a) 0 ls.
Lemma loads_of_blocks : forall c pad rest, 1 <= c -> blocks_of (loads_of c pad rest) <= length rest / 16 + 1.
Proof. exact P.loads_of_blocks. Qed.
Lemma wf_loads_of : forall c pad rest, 1 <= c -> bytesb rest = true -> wf_loads (loads_of c pad rest).
Proof. exact P.wf_loads_of. Qed.

Section Reach.
Variables (c T : nat) (pad : bool) (input0 : list N).
Hypothesis Hc : 1 <= c.
Hypothesis HT : 1 <= T.
Hypothesis Hbytes : bytesb input0 = true.
Notation S := (N * N)%type.
Let ls := loads_of c pad input0.
Notation step := (PipeConc.step S tag_tr tag_event c pad).
Definition reach (s : state S) : Prop := exists sched, run S tag_tr tag_event c pad (init S T (tag_init T) ls) sched = Some s.
Notation getb := (getb S).  Notation getw := (getw S).

Lemma reach_init : reach (init S T (tag_init T) ls).
Proof. exact (P.reach_init c T pad input0 Hc HT Hbytes). Qed.
Lemma reach_step : forall s tid s' evs, reach s -> step s tid = Some (s', evs) -> reach s'.
Proof. exact (P.reach_step c T pad input0 Hc HT Hbytes). Qed.
Lemma reach_Inv : forall s, reach s -> Inv S tag_tr c pad T (tag_init T) ls (0%N, 0%N) s.
Proof. exact (P.reach_Inv c T pad input0 Hc HT Hbytes). Qed.
Lemma reach_shape : forall s, reach s ->
  length (bufs S s) = T /\ length (wpcs S s) = T /\ length (wsts S s) = T /\ turn S s < T /\ live S s <= T /\ crashed S s = None.
Proof. exact (P.reach_shape c T pad input0 Hc HT Hbytes). Qed.
Lemma reach_counters : forall s i, reach s -> i < T ->
  fst (nth i (wsts S s) (0%N, 0%N)) = N.of_nat i /\
  N.to_nat (snd (nth i (wsts S s) (0%N, 0%N))) + (b_total (getb s i) - b_now (getb s i)) <= blocks_of ls.
Proof. exact (P.reach_counters c T pad input0 Hc HT Hbytes). Qed.
Lemma reach_input_suffix : forall s, reach s -> exists k, input S s = skipn k ls.
Proof. exact (P.reach_input_suffix c T pad input0 Hc HT Hbytes). Qed.
Lemma reach_get : forall s i, reach s -> i < T -> getw s i = W_Get ->
  b_st (getb s i) = READY \/ (b_st (getb s i) = INV /\ b_now (getb s i) = b_total (getb s i)).
Proof. exact (P.reach_get c T pad input0 Hc HT Hbytes). Qed.
Lemma reach_setupdate : forall s i, reach s -> i < T -> getw s i = W_SetUpdate ->
  b_st (getb s i) = READY \/ b_st (getb s i) = INV.
Proof. exact (P.reach_setupdate c T pad input0 Hc HT Hbytes). Qed.
Lemma reach_io_own : forall s, reach s ->
  match io S s with I_Cmp | I_Export | I_Load | I_SetReady _ => True | _ => False end ->
  b_st (getb s (turn S s)) = EMPTY \/ b_st (getb s (turn S s)) = UPDATING.
Proof. exact (P.reach_io_own c T pad input0 Hc HT Hbytes). Qed.
Lemma reach_export : forall s, reach s -> io S s = I_Export ->
  let b := getb s (turn S s) in
  b_st b = UPDATING /\ b_now b = b_total b /\ 1 <= b_total b /\ (b_final b = false -> b_total b = c).
Proof. exact (P.reach_export c T pad input0 Hc HT Hbytes). Qed.
Lemma reach_load : forall s, reach s -> io S s = I_Load -> b_now (getb s (turn S s)) = b_total (getb s (turn S s)).
Proof. exact (P.reach_load c T pad input0 Hc HT Hbytes). Qed.
Lemma reach_setready : forall s x, reach s -> io S s = I_SetReady x ->
  x <= 2 /\ (x = 2 -> 1 <= live S s /\ b_now (getb s (turn S s)) = b_total (getb s (turn S s))).
Proof. exact (P.reach_setready c T pad input0 Hc HT Hbytes). Qed.
Lemma reach_turn : forall s, reach s -> io S s = I_Turn -> live S s <> 0 ->
  b_st (getb s ((turn S s + 1) mod T)) <> INV.
Proof. exact (P.reach_turn c T pad input0 Hc HT Hbytes). Qed.
End Reach.
