(* An invariant of PipeConc about the join loop: at I_Join k the workers below k are done, at I_Done all are. *)
From Coq Require Import ZArith NArith List Bool Lia Arith.
From Wencry Require Import Bytes FileModel PipeConc PipeProps PipeLemmas PipeInv.
From Wencry Require Import RefineConcPipe.
Import ListNotations.

Lemma nth_skipn' : forall (A : Type) (l : list A) k j d, nth j (skipn k l) d = nth (k + j) l d.
Proof. intros A l. induction l as [|a l IH]; intros [|k] j d; cbn [skipn nth Nat.add]; try reflexivity; [destruct j; reflexivity|apply IH]. Qed.

Section Done.
Variable S0 : Type.
Variable tr : S0 -> list N -> S0 * list N.
Variable tr_event : nat -> S0 -> list event.
Variables (c : nat) (pad : bool).
Notation state := (PipeConc.state S0).
Notation step := (PipeConc.step S0 tr tr_event c pad).

Definition inv_done (s : state) : Prop :=
  match io S0 s with
  | I_Done => forall j, j < length (wpcs S0 s) -> getw S0 s j = W_Done
  | I_Join k => forall j, j < k -> getw S0 s j = W_Done
  | _ => True
  end.

Lemma first_unfinished_spec : forall ps k,
  match first_unfinished ps k with
  | None => forall j, j < length ps -> nth j ps W_Done = W_Done
  | Some k' => k <= k' /\ forall j, j < k' - k -> nth j ps W_Done = W_Done
  end.
Proof.
  induction ps as [|p ps IH]; intros k; cbn [first_unfinished].
  - intros j Hj. cbn in Hj. lia.
  - destruct p; try (split; [lia|intros j Hj; lia]).
    specialize (IH (S k)). destruct (first_unfinished ps (S k)) as [k'|].
    + destruct IH as [H1 H2]. split; [lia|]. intros [|j] Hj; [reflexivity|]. cbn [nth]. apply H2. lia.
    + intros [|j] Hj; [reflexivity|]. cbn [nth length] in *. apply IH. lia.
Qed.

Lemma join_from_inv : forall s k, k <= length (wpcs S0 s) -> (forall j, j < k -> getw S0 s j = W_Done) ->
  inv_done (set_io S0 s (join_from S0 s k)).
Proof.
  intros s k Hk Hbelow. unfold inv_done, join_from. cbn [set_io io wpcs].
  pose proof (first_unfinished_spec (skipn k (wpcs S0 s)) k) as H.
  destruct (first_unfinished (skipn k (wpcs S0 s)) k) as [k'|].
  - destruct H as [H1 H2]. intros j Hj. unfold getw. cbn [set_io wpcs]. destruct (Nat.lt_ge_cases j k) as [L|L]; [apply Hbelow; exact L|].
    specialize (H2 (j - k) ltac:(lia)). rewrite nth_skipn' in H2. replace (k + (j - k)) with j in H2 by lia. exact H2.
  - intros j Hj. unfold getw. cbn [set_io wpcs] in *. destruct (Nat.lt_ge_cases j k) as [L|L]; [apply Hbelow; exact L|].
    specialize (H (j - k)). rewrite skipn_length in H. specialize (H ltac:(lia)). rewrite nth_skipn' in H. replace (k + (j - k)) with j in H by lia. exact H.
Qed.

Variable dS : S0.

Lemma inv_done_step : forall s tid s' evs,
  length (wpcs S0 s) = length (bufs S0 s) -> length (wsts S0 s) = length (bufs S0 s) ->
  inv_done s -> step s tid = Some (s', evs) -> inv_done s'.
Proof.
  intros s tid s' evs Lw Lx Hinv Hst. unfold PipeConc.step in Hst.
  destruct (tid <=? nT S0 s) eqn:Et.
  - unfold step_real in Hst. destruct tid as [|i].
    + (* the I/O thread *)
      unfold step_io in Hst. unfold inv_done in Hinv.
      destruct (io S0 s) eqn:Eio; try discriminate Hst.
      * unfold i_wait in Hst. destruct (upd_or_empty _); injection Hst as <- _; unfold inv_done; cbn [set_io io]; exact I.
      * unfold i_wait in Hst. destruct (upd_or_empty _); injection Hst as <- _; unfold inv_done; cbn [set_io io]; exact I.
      * destruct (b_st _); injection Hst as <- _; unfold inv_done; cbn [set_io io]; exact I.
      * destruct (export _ _ _ _); injection Hst as <- _; unfold inv_done; cbn [set_io io]; exact I.
      * destruct (over S0 s); [injection Hst as <- _; unfold inv_done; cbn [set_io io]; exact I|].
        destruct (input S0 s); injection Hst as <- _; unfold inv_done; cbn [io]; exact I.
      * injection Hst as <- _. unfold inv_done, wake_worker. destruct (getw S0 _ _); cbn [set_wpc io]; exact I.
      * destruct (live S0 s =? 0).
        -- injection Hst as <- _. apply join_from_inv; [lia|]. intros j Hj. lia.
        -- injection Hst as <- _. unfold inv_done. cbn [io]. exact I.
      * destruct (getw S0 s k) eqn:Ek; try discriminate Hst. injection Hst as <- _.
        destruct (Nat.lt_ge_cases k (length (wpcs S0 s))) as [L|L].
        -- apply join_from_inv; [lia|]. exact Hinv.
        -- unfold inv_done, join_from. cbn [set_io io wpcs]. rewrite skipn_all2 by lia. cbn [first_unfinished].
           intros j Hj. unfold getw. cbn [set_io wpcs] in *. apply Hinv. lia.
    + (* worker i *)
      destruct (i <? nT S0 s) eqn:Ei; [|discriminate Hst]. apply Nat.ltb_lt in Ei. unfold nT in Ei.
      destruct (step_worker_spec S0 tr tr_event dS s i s' evs ltac:(lia) ltac:(lia) ltac:(lia) Hst) as (b' & w' & x' & wk & Hwl & _ & Hw' & _ & Hio' & Hfr).
      destruct Hfr as (_ & Lw' & _ & _ & _ & _ & _ & _ & _ & Hk).
      assert (Hnd : getw S0 s i <> W_Done) by (intro E; rewrite E in Hwl; discriminate Hwl).
      unfold inv_done in *. 
      assert (Eio : io S0 s' = io S0 s \/ (io S0 s = I_Asleep /\ io S0 s' = I_Awake)).
      { rewrite Hio'. destruct wk; [|left; reflexivity]. unfold wake_p. destruct (io S0 s); try (left; reflexivity).
        destruct (turn S0 s =? i); [right; split; reflexivity|left; reflexivity]. }
      destruct Eio as [E|[E1 E2]]; [rewrite E|rewrite E2; exact I].
      destruct (io S0 s); try exact I.
      * intros j Hj. destruct (Nat.eq_dec j i) as [->|N]; [exfalso; apply Hnd; apply Hinv; exact Hj|].
        destruct (Hk j N) as (_ & G & _). rewrite G. apply Hinv. exact Hj.
      * intros j Hj. rewrite Lw' in Hj. destruct (Nat.eq_dec j i) as [->|N]; [exfalso; apply Hnd; apply Hinv; exact Hj|].
        destruct (Hk j N) as (_ & G & _). rewrite G. apply Hinv. exact Hj.
  - (* spurious wake-ups *)
    unfold spurious in Hst. destruct (tid - nT S0 s - 1) as [|i].
    + destruct (io S0 s) eqn:Eio; try discriminate Hst. injection Hst as <- _. unfold inv_done. cbn [set_io io]. exact I.
    + destruct (i <? nT S0 s) eqn:Ei; [|discriminate Hst]. apply Nat.ltb_lt in Ei. unfold nT in Ei.
      destruct (getw S0 s i) eqn:Ew; try discriminate Hst. injection Hst as <- _.
      unfold inv_done in *. cbn [set_wpc io wpcs]. rewrite set_nth_length.
      destruct (io S0 s); try exact I.
      * intros j Hj. destruct (Nat.eq_dec i j) as [<-|N]; [specialize (Hinv i Hj); congruence|].
        rewrite getw_set_wpc_neq by exact N. apply Hinv. exact Hj.
      * intros j Hj. destruct (Nat.eq_dec i j) as [<-|N]; [specialize (Hinv i Hj); congruence|].
        rewrite getw_set_wpc_neq by exact N. apply Hinv. exact Hj.
Qed.
End Done.
