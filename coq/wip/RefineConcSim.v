(* Stage 1 of the refinement "translated buffer hand-over protocol (MiniCConc machine) follows PipeConc":
   an EXECUTABLE simulation relation between a PipeConc state and a machine state.

   [cstate_of c T pad input0 s g] builds, from a PipeConc state s and a "ghost" g (the data of the machine state the model
   does not have: dead locals, the bytes of the buffers beyond the loaded blocks, the tail cells, the position of the input
   stream), THE machine state that corresponds to s: the threads (for every pc the statement / continuation / locals /
   prefix / status the thread is stopped at -- the table of program points), the heap objects, pointer table, files.
   [simb] extracts the ghost from a machine state cs and checks  cs = cstate_of s g  (boolean equality) plus the side
   conditions that tie g to s ([ghost_okb]).  [sim_run] replays a schedule on both sides and returns the index of the
   first step after which [simb] fails.  Everything here is computable (extraction-friendly, no Prop-only parts). *)
From Coq Require Import ZArith NArith List String Bool Ascii.
From Wencry Require Import Bytes FileModel PipeConc MiniC MiniCConc SrcRun SrcRun4.
From Wencry.Gen Require Src_conc.
Import ListNotations.
Local Open Scope string_scope.
Local Open Scope list_scope.

(* ================= boolean equalities ================= *)
Definition ity_code (t : ity) : nat :=
  match t with U8 => 0 | U16 => 1 | U32 => 2 | U64 => 3 | I8 => 4 | I16 => 5 | I32 => 6 | I64 => 7 | TBool => 8 end.
Definition ity_eqb (a b : ity) : bool := Nat.eqb (ity_code a) (ity_code b).
Definition binop_code (o : binop) : nat :=
  match o with Add => 0 | Sub => 1 | Mul => 2 | Div => 3 | Rem => 4 | Shl => 5 | Shr => 6 | BAnd => 7 | BOr => 8 | BXor => 9
             | Lt => 10 | Le => 11 | Gt => 12 | Ge => 13 | Eq => 14 | Ne => 15 end.
Definition binop_eqb (a b : binop) : bool := Nat.eqb (binop_code a) (binop_code b).
Definition unop_code (o : unop) : nat := match o with Neg => 0 | BNot => 1 | LNot => 2 end.
Definition unop_eqb (a b : unop) : bool := Nat.eqb (unop_code a) (unop_code b).

Fixpoint list_eqb {A} (eq : A -> A -> bool) (l1 l2 : list A) : bool :=
  match l1, l2 with
  | [], [] => true
  | a :: r1, b :: r2 => eq a b && list_eqb eq r1 r2
  | _, _ => false
  end.
Definition option_eqb {A} (eq : A -> A -> bool) (a b : option A) : bool :=
  match a, b with Some x, Some y => eq x y | None, None => true | _, _ => false end.
Definition pair_eqb {A B} (ea : A -> A -> bool) (eb : B -> B -> bool) (x y : A * B) : bool :=
  ea (fst x) (fst y) && eb (snd x) (snd y).

Definition value_eqb (a b : value) : bool :=
  match a, b with
  | VInt x, VInt y => Z.eqb x y
  | VPtr o1 f1, VPtr o2 f2 => String.eqb o1 o2 && Z.eqb f1 f2
  | VNull, VNull => true
  | _, _ => false
  end.

Fixpoint expr_eqb (a b : expr) {struct a} : bool :=
  match a, b with
  | EConst x, EConst y => Z.eqb x y
  | EVar x, EVar y => String.eqb x y
  | EGlobal x, EGlobal y => String.eqb x y
  | EField x, EField y => String.eqb x y
  | ELocalArr x, ELocalArr y => String.eqb x y
  | ELoad t p, ELoad t' p' => ity_eqb t t' && expr_eqb p p'
  | EPtrAdd p s i, EPtrAdd p' s' i' => expr_eqb p p' && Z.eqb s s' && expr_eqb i i'
  | EUn t o x, EUn t' o' x' => ity_eqb t t' && unop_eqb o o' && expr_eqb x x'
  | EBin t o x y, EBin t' o' x' y' => ity_eqb t t' && binop_eqb o o' && expr_eqb x x' && expr_eqb y y'
  | ECast t x, ECast t' x' => ity_eqb t t' && expr_eqb x x'
  | ECond c x y, ECond c' x' y' => expr_eqb c c' && expr_eqb x x' && expr_eqb y y'
  | EAnd x y, EAnd x' y' => expr_eqb x x' && expr_eqb y y'
  | EOr x y, EOr x' y' => expr_eqb x x' && expr_eqb y y'
  | EIsNull p, EIsNull p' => expr_eqb p p'
  | ENull, ENull => true
  | EPtrVar p, EPtrVar p' => expr_eqb p p'
  | EPtrEq x y, EPtrEq x' y' => expr_eqb x x' && expr_eqb y y'
  | EPtrCell p, EPtrCell p' => expr_eqb p p'
  | EElem p i, EElem p' i' => expr_eqb p p' && expr_eqb i i'
  | _, _ => false
  end.

Definition objs_eqb : list (string * ity * Z) -> list (string * ity * Z) -> bool :=
  list_eqb (pair_eqb (pair_eqb String.eqb ity_eqb) Z.eqb).

Fixpoint stmt_eqb (a b : stmt) {struct a} : bool :=
  match a, b with
  | SSkip, SSkip => true
  | SSeq x y, SSeq x' y' => stmt_eqb x x' && stmt_eqb y y'
  | SSet x e, SSet x' e' => String.eqb x x' && expr_eqb e e'
  | SStore t p e, SStore t' p' e' => ity_eqb t t' && expr_eqb p p' && expr_eqb e e'
  | SIf c x y, SIf c' x' y' => expr_eqb c c' && stmt_eqb x x' && stmt_eqb y y'
  | SLoop c x y, SLoop c' x' y' => expr_eqb c c' && stmt_eqb x x' && stmt_eqb y y'
  | SDoWhile x c, SDoWhile x' c' => stmt_eqb x x' && expr_eqb c c'
  | SBreak, SBreak => true
  | SReturn e, SReturn e' => option_eqb expr_eqb e e'
  | SCall r f t args, SCall r' f' t' args' =>
      option_eqb String.eqb r r' && String.eqb f f' && option_eqb expr_eqb t t' && list_eqb expr_eqb args args'
  | SCallVirt r f t args, SCallVirt r' f' t' args' =>
      option_eqb String.eqb r r' && String.eqb f f' && option_eqb expr_eqb t t' && list_eqb expr_eqb args args'
  | SMemcpy d s n, SMemcpy d' s' n' => expr_eqb d d' && expr_eqb s s' && expr_eqb n n'
  | SMemset d s n, SMemset d' s' n' => expr_eqb d d' && expr_eqb s s' && expr_eqb n n'
  | SLocalArr x t n, SLocalArr x' t' n' => String.eqb x x' && ity_eqb t t' && Z.eqb n n'
  | SNew x t n, SNew x' t' n' => String.eqb x x' && ity_eqb t t' && expr_eqb n n'
  | SDelete p, SDelete p' => expr_eqb p p'
  | SPrim r f args, SPrim r' f' args' => option_eqb String.eqb r r' && String.eqb f f' && list_eqb expr_eqb args args'
  | SSetPtr p e, SSetPtr p' e' => expr_eqb p p' && expr_eqb e e'
  | SNewObj x cl o ct args, SNewObj x' cl' o' ct' args' =>
      String.eqb x x' && String.eqb cl cl' && objs_eqb o o' && option_eqb String.eqb ct ct' && list_eqb expr_eqb args args'
  | SSetPtrCell p e, SSetPtrCell p' e' => expr_eqb p p' && expr_eqb e e'
  | SNewObjArr x cl o n, SNewObjArr x' cl' o' n' => String.eqb x x' && String.eqb cl cl' && objs_eqb o o' && expr_eqb n n'
  | _, _ => false
  end.

Definition locs := list (string * value).
Definition locs_eqb : locs -> locs -> bool := list_eqb (pair_eqb String.eqb value_eqb).

Fixpoint kont_eqb (a b : kont) {struct a} : bool :=
  match a, b with
  | KStop, KStop => true
  | KSeq s k, KSeq s' k' => stmt_eqb s s' && kont_eqb k k'
  | KLoopBody c x y k, KLoopBody c' x' y' k' => expr_eqb c c' && stmt_eqb x x' && stmt_eqb y y' && kont_eqb k k'
  | KLoopStep c x y k, KLoopStep c' x' y' k' => expr_eqb c c' && stmt_eqb x x' && stmt_eqb y y' && kont_eqb k k'
  | KDoBody x c k, KDoBody x' c' k' => stmt_eqb x x' && expr_eqb c c' && kont_eqb k k'
  | KCall r l p k, KCall r' l' p' k' => option_eqb String.eqb r r' && locs_eqb l l' && String.eqb p p' && kont_eqb k k'
  | _, _ => false
  end.

Definition tstatus_eqb (a b : tstatus) : bool :=
  match a, b with
  | TRun, TRun => true
  | TSleep c m, TSleep c' m' => String.eqb c c' && String.eqb m m'
  | TAwake m, TAwake m' => String.eqb m m'
  | TJoin n, TJoin n' => Nat.eqb n n'
  | TDone, TDone => true
  | _, _ => false
  end.

Definition cthread_eqb (a b : cthread) : bool :=
  stmt_eqb (ct_cur a) (ct_cur b) && kont_eqb (ct_k a) (ct_k b) && locs_eqb (ct_loc a) (ct_loc b) &&
  String.eqb (ct_pre a) (ct_pre b) && tstatus_eqb (ct_st a) (ct_st b).

Definition object_eqb (a b : object) : bool := ity_eqb (o_ty a) (o_ty b) && list_eqb Z.eqb (o_cells a) (o_cells b).
Definition mem_eqb : memory -> memory -> bool := list_eqb (pair_eqb String.eqb object_eqb).
Definition cfile_eqb (a b : cfile) : bool :=
  list_eqb Z.eqb (cf_data a) (cf_data b) && Nat.eqb (cf_pos a) (cf_pos b) && Bool.eqb (cf_eof a) (cf_eof b).
Definition state_eqb (a b : state) : bool :=
  mem_eqb (mem a) (mem b) && locs_eqb (loc a) (loc b) && String.eqb (pre a) (pre b) &&
  list_eqb (pair_eqb String.eqb cfile_eqb) (files a) (files b) && locs_eqb (ptrs a) (ptrs b) && Nat.eqb (fresh a) (fresh b).
Definition cstate_eqb (a b : cstate) : bool :=
  state_eqb (cs_sh a) (cs_sh b) && list_eqb cthread_eqb (cs_thr a) (cs_thr b) &&
  list_eqb (pair_eqb String.eqb Nat.eqb) (cs_mx a) (cs_mx b).

Definition pstate := PipeConc.state (N * N).

(* ================= names ================= *)
(* the i-th element of an array of class objects: the prefix EElem computes *)
Definition elem_pfx (o : string) (i : nat) : string := (o ++ "[" ++ z_string (Z.of_nat i) ++ "].")%string.
Definition bpfx (i : nat) : string := elem_pfx "#1" i.       (* buflst[i] : iobuffer *)
Definition cpfx (i : nat) : string := elem_pfx "#2" i.       (* ctrl[i]   : bufferctrl *)
Definition inst : value := VPtr "#0." 0.                     (* the buffergroup instance *)

(* ================= the data of a machine state, and the thread ghost ================= *)
(* what the shared state of the machine consists of (after the set-up): everything else in it is constant *)
Record mbuf := { mb_cells : list Z;            (* the bytes of b *)
                 mb_tot : Z; mb_now : Z; mb_tail : Z; mb_fin : bool;
                 mb_st : nat }.                (* ctrl[i].state *)
Record mdata := {
  d_turn : nat; d_over : bool; d_live : nat;
  d_ns : list Z;                               (* per stream object: n *)
  d_bufs : list mbuf;
  d_pos : nat; d_eof : bool;                   (* input stream: position, end-of-file flag *)
  d_out : list Z }.                            (* output stream *)
(* the locals of the frames whose contents the pc does not determine (dead values) *)
Record tghost := {
  g_rb : list (string * value);                (* locals of buffergroup::run_buffer: [] in the first round, then $t1, $t2 *)
  g_bu : list (string * value);                (* locals of buffergroup::buffer_update (when the I/O thread is inside it) *)
  g_wl : list (list (string * value)) }.       (* per worker: the locals of multiruncrypt_file *)
Definition ghost := tghost.

(* ================= program points ================= *)
(* the n-th statement of a right-nested sequence under continuation k: (statement, continuation while it runs) *)
Fixpoint seq_at (n : nat) (s : stmt) (k : kont) : stmt * kont :=
  match n, s with
  | O, SSeq a b => (a, KSeq b k)
  | O, _ => (s, k)
  | S n', SSeq _ b => seq_at n' b k
  | S _, _ => (s, k)
  end.
Definition if_then (s : stmt) : stmt := match s with SIf _ a _ => a | _ => SSkip end.
Definition loop_step (s : stmt) : stmt := match s with SLoop _ _ st => st | _ => SSkip end.
(* the continuation while the step statement of loop s runs *)
Definition kloopstep (s : stmt) (k : kont) : kont := match s with SLoop c b st => KLoopStep c b st k | _ => k end.
Definition kdobody (s : stmt) (k : kont) : kont := match s with SDoWhile b c => KDoBody b c k | _ => k end.
Definition do_body (s : stmt) : stmt := match s with SDoWhile b _ => b | _ => SSkip end.

Definition B_mf := f_body Src_conc.f_multiruncrypt_file_2.
Definition B_wr := f_body Src_conc.f_bufferctrl_wait_ready_0.
Definition B_wu := f_body Src_conc.f_bufferctrl_wait_update_0.
Definition B_sr := f_body Src_conc.f_bufferctrl_set_ready_1.
Definition B_su := f_body Src_conc.f_bufferctrl_set_update_0.
Definition B_rbe := f_body Src_conc.f_buffergroup_require_buffer_entry_1.
Definition B_bu := f_body Src_conc.f_buffergroup_buffer_update_1.
Definition B_rb := f_body Src_conc.f_buffergroup_run_buffer_1.
Definition B_ti := f_body Src_conc.f_buffergroup_turn_iter_0.
Definition B_rm := f_body Src_conc.f_multicry_master_run_multicry_2.
Definition B_di := f_body Src_conc.f_buffergroup_del_instance_0.

Definition mk (st : stmt) (k : kont) (l : locs) (p : string) (stt : tstatus) : cthread :=
  {| ct_cur := st; ct_k := k; ct_loc := l; ct_pre := p; ct_st := stt |}.
Definition mk2 (sk : stmt * kont) (l : locs) (p : string) (stt : tstatus) : cthread := mk (fst sk) (snd sk) l p stt.

(* ---- worker i ---- *)
Definition wl0 (i : nat) : locs := [("id", VInt (Z.of_nat i)); ("mode", VPtr (mode_name i) 0)].
Definition wl1 (i : nat) : locs := wl0 i ++ [("$t1", inst); ("iobuffer", inst)].
Definition rbe_locs (i : nat) : locs := [("id", VInt (Z.of_nat i)); ("$t1", VNull); ("result", VNull)].
Definition mf_loop : stmt := fst (seq_at 5 B_mf KStop).
(* the frame of multiruncrypt_file around a call of require_buffer_entry: the first call (4 locals) or the call in the loop step *)
Definition rbe_ctx (wl : locs) : kont :=
  if Nat.eqb (List.length wl) 4 then KCall (Some "$t2") wl "" (snd (seq_at 3 B_mf KStop))
  else KCall (Some "$t3") wl "" (snd (seq_at 0 (loop_step mf_loop) (kloopstep mf_loop KStop))).
(* inside require_buffer_entry: the continuation of the `if (result == NULL)` block *)
Definition rbe_kA (wl : locs) : kont := snd (seq_at 4 B_rbe (rbe_ctx wl)).
Definition rbe_A : stmt := if_then (fst (seq_at 4 B_rbe KStop)).
(* the frame of wait_ready: called from wait_buffer_ready (from_start) or from require_buffer_entry *)
Definition wr_frame (i : nat) (wl : locs) (from_start : bool) : kont :=
  if from_start then KCall None [("id", VInt (Z.of_nat i))] "#0." (KCall None wl "" (snd (seq_at 2 B_mf KStop)))
  else KCall None (rbe_locs i) "#0." (snd (seq_at 1 rbe_A (rbe_kA wl))).
Definition wr_loop : stmt := fst (seq_at 1 B_wr KStop).
Definition wr_sleep_k (fr : kont) : kont := kloopstep wr_loop (snd (seq_at 1 B_wr fr)).

Definition worker_thread (i : nat) (p : wpc) (wl : locs) : cthread :=
  match p with
  | W_New => mk B_mf KStop wl "" TRun
  | W_Start => mk2 (seq_at 0 B_wr (wr_frame i wl true)) [] (cpfx i) TRun
  | W_Get => mk2 (seq_at 0 B_rbe (rbe_ctx wl)) [("id", VInt (Z.of_nat i))] "#0." TRun
  | W_SetUpdate => mk2 (seq_at 0 B_su (KCall None (rbe_locs i) "#0." (snd (seq_at 0 rbe_A (rbe_kA wl))))) [] (cpfx i) TRun
  | W_WaitReady => mk2 (seq_at 0 B_wr (wr_frame i wl false)) [] (cpfx i) TRun
  | W_Asleep f => mk SSkip (wr_sleep_k (wr_frame i wl f)) [] (cpfx i) (TSleep ((cpfx i ++ "cv_ready")%string) ((cpfx i ++ "lock")%string))
  | W_Awake f => mk SSkip (wr_sleep_k (wr_frame i wl f)) [] (cpfx i) (TAwake ((cpfx i ++ "lock")%string))
  | W_Cmp => mk2 (seq_at 2 rbe_A (rbe_kA wl)) (rbe_locs i) "#0." TRun
  | W_Done => mk SSkip KStop wl "" TDone
  end.

(* ---- the I/O (main) thread ---- *)
Definition main_locs : locs := [("g", inst)].
Definition rm_locs (T : nat) : locs := [("mode", VPtr "modes" 0); ("i", VInt (Z.of_nat T)); ("$t1", inst)].
Definition K_main (T : nat) (pad : bool) : kont := snd (seq_at 3 (pipe_main (Z.of_nat T) pad) KStop).
Definition F_rm (T : nat) (pad : bool) : kont := KCall None main_locs "" (K_main T pad).
Definition F_rb (T : nat) (pad : bool) : kont := KCall None (rm_locs T) "crym." (snd (seq_at 3 B_rm (F_rm T pad))).
Definition K_do (T : nat) (pad : bool) : kont := kdobody B_rb (F_rb T pad).
Definition rb_body : stmt := do_body B_rb.
Definition wu_loop : stmt := fst (seq_at 1 B_wu KStop).
Definition F_wu (T : nat) (pad : bool) (rb : locs) : kont := KCall None rb "#0." (snd (seq_at 0 rb_body (K_do T pad))).
Definition F_bu (T : nat) (pad : bool) (rb : locs) : kont := KCall None rb "#0." (snd (seq_at 1 rb_body (K_do T pad))).
Definition bu_if : stmt := if_then (fst (seq_at 5 B_bu KStop)).
Definition join_loop : stmt := fst (seq_at 5 B_rm KStop).

Definition io_thread (T : nat) (pad : bool) (p : ipc) (turn : nat) (g : ghost) : cthread :=
  let rb := g_rb g in
  match p with
  | I_WaitUpdate => mk2 (seq_at 0 B_wu (F_wu T pad rb)) [] (cpfx turn) TRun
  | I_Asleep => mk SSkip (kloopstep wu_loop (snd (seq_at 1 B_wu (F_wu T pad rb)))) [] (cpfx turn)
                   (TSleep ((cpfx turn ++ "cv_update")%string) ((cpfx turn ++ "lock")%string))
  | I_Awake => mk SSkip (kloopstep wu_loop (snd (seq_at 1 B_wu (F_wu T pad rb)))) [] (cpfx turn) (TAwake ((cpfx turn ++ "lock")%string))
  | I_Cmp => mk2 (seq_at 1 B_bu (F_bu T pad rb)) (g_bu g) "#0." TRun
  | I_Export => mk2 (seq_at 1 bu_if (snd (seq_at 5 B_bu (F_bu T pad rb)))) (g_bu g) "#0." TRun
  | I_Load => mk2 (seq_at 7 B_bu (F_bu T pad rb)) (g_bu g) "#0." TRun
  | I_SetReady ls => mk2 (seq_at 0 B_sr (KCall None (g_bu g) "#0." (F_bu T pad rb)))
                         [("load", VInt (if Nat.eqb ls 2 then 0 else 1))] (cpfx turn) TRun
  | I_Turn => mk2 (seq_at 0 B_ti (KCall (Some "$t1") rb "#0." (snd (seq_at 2 rb_body (K_do T pad))))) [] "#0." TRun
  | I_Join k => mk (loop_step join_loop) (kloopstep join_loop (F_rm T pad)) (rm_locs T ++ [("i'1", VInt (Z.of_nat k))]) "crym."
                   (TJoin (S k))
  | I_Done => mk2 (seq_at 0 (if_then B_di) (KCall None main_locs "" KStop)) [] "" TRun
  end.

(* ================= shared state ================= *)
Definition cell (t : ity) (v : Z) : object := {| o_ty := t; o_cells := [v] |}.
Definition b2z (b : bool) : Z := if b then 1 else 0.
Definition zeros_obj (n : nat) : object := {| o_ty := U8; o_cells := repeat 0%Z n |}.
Definition mb0 : mbuf := {| mb_cells := []; mb_tot := 0; mb_now := 0; mb_tail := 0; mb_fin := false; mb_st := 0 |}.

Definition mode_objs (ns : list Z) (i : nat) : memory :=
  [((mode_name i ++ "s")%string, cell I32 (Z.of_nat i)); ((mode_name i ++ "n")%string, cell U32 (nth i ns 0%Z))].
Definition iob_objs (bs : list mbuf) (i : nat) : memory :=
  let b := nth i bs mb0 in
  [((bpfx i ++ "b")%string, {| o_ty := U8; o_cells := mb_cells b |});
   ((bpfx i ++ "total")%string, cell U32 (mb_tot b));
   ((bpfx i ++ "now")%string, cell U32 (mb_now b));
   ((bpfx i ++ "tail")%string, cell U32 (mb_tail b));
   ((bpfx i ++ "isfinal")%string, cell TBool (b2z (mb_fin b)))].
Definition ctrl_objs (bs : list mbuf) (i : nat) : memory :=
  [((cpfx i ++ "state")%string, cell U32 (Z.of_nat (mb_st (nth i bs mb0))));
   ((cpfx i ++ "lock._M_mutex")%string, zeros_obj 40);
   ((cpfx i ++ "cv_ready._M_cond._M_cond")%string, zeros_obj 48);
   ((cpfx i ++ "cv_update._M_cond._M_cond")%string, zeros_obj 48)].

Definition mem_of (c T : nat) (pad : bool) (d : mdata) : memory :=
  [("sum", cell U32 (16 * Z.of_nat c)); ("sizeof:iobuffer.b", cell U32 (16 * Z.of_nat c));
   ("live_num", cell U8 (Z.of_nat (d_live d))); ("crym.THREADS_NUM", cell U8 (Z.of_nat T))]
  ++ flat_map (mode_objs (d_ns d)) (seq 0 T)
  ++ [("#0.turn", cell U32 (Z.of_nat (d_turn d))); ("#0.size", cell U32 (Z.of_nat T));
      ("#0.ispadding", cell TBool (b2z pad)); ("#0.over", cell TBool (b2z (d_over d)))]
  ++ flat_map (iob_objs (d_bufs d)) (seq 0 T)
  ++ flat_map (ctrl_objs (d_bufs d)) (seq 0 T).

Definition ptrs_of (T : nat) : locs :=
  [("instance", inst)]
  ++ map (fun i => (class_key (mode_name i), VPtr "TagMode" 0)) (seq 0 T)
  ++ map (fun i => (ptr_key "modes" (8 * Z.of_nat i), VPtr (mode_name i) 0)) (seq 0 T)
  ++ [(class_key "#0.", VPtr "buffergroup" 0); ("#0.buflst", VPtr "#1" 0); ("#0.ctrl", VPtr "#2" 0);
      ("#0.fin", VPtr "fin" 0); ("#0.fout", VPtr "fout" 0)]
  ++ map (fun i => (class_key (bpfx i), VPtr "iobuffer" 0)) (seq 0 T)
  ++ map (fun i => (class_key (cpfx i), VPtr "bufferctrl" 0)) (seq 0 T)
  ++ map (fun i => (ptr_key "crym.threads" (8 * Z.of_nat i), VInt (Z.of_nat (S i)))) (seq 0 T).

Definition files_of (input0 : list N) (d : mdata) : list (string * cfile) :=
  [("fin", {| cf_data := map Z.of_N input0; cf_pos := d_pos d; cf_eof := d_eof d |});
   ("fout", {| cf_data := d_out d; cf_pos := List.length (d_out d); cf_eof := false |})].

Definition sh_of (c T : nat) (pad : bool) (input0 : list N) (d : mdata) : state :=
  {| mem := mem_of c T pad d; loc := []; pre := ""; files := files_of input0 d; ptrs := ptrs_of T; fresh := 3 |}.

Definition threads_of (T : nat) (pad : bool) (p : ipc) (ws : list wpc) (turn : nat) (g : tghost) : list cthread :=
  io_thread T pad p turn g :: map (fun i => worker_thread i (nth i ws W_Done) (nth i (g_wl g) [])) (seq 0 T).

(* THE machine state for pcs (p, ws), data d and thread ghost g *)
Definition cstate_md (c T : nat) (pad : bool) (input0 : list N) (p : ipc) (ws : list wpc) (d : mdata) (g : tghost) : cstate :=
  {| cs_sh := sh_of c T pad input0 d; cs_thr := threads_of T pad p ws (d_turn d) g; cs_mx := [] |}.

(* ================= extraction of data and ghost from a machine state ================= *)
Fixpoint kont_frames (k : kont) : list locs :=
  match k with
  | KStop => []
  | KSeq _ k' | KLoopBody _ _ _ k' | KLoopStep _ _ _ k' | KDoBody _ _ k' => kont_frames k'
  | KCall _ l _ k' => l :: kont_frames k'
  end.
(* the locals of the frames of a thread, outermost first *)
Definition thread_frames (t : cthread) : list locs := rev (ct_loc t :: kont_frames (ct_k t)).
Definition cells_of (m : memory) (k : string) : list Z := match mget m k with Some o => o_cells o | None => [] end.
Definition cell_of (m : memory) (k : string) : Z := nth 0 (cells_of m k) 0%Z.
Definition z2b (z : Z) : bool := negb (Z.eqb z 0).

Definition ghost_of (T : nat) (cs : cstate) : tghost :=
  let fr0 := match cs_thr cs with t :: _ => thread_frames t | [] => [] end in
  {| g_rb := nth 2 fr0 [];          (* frames of the main thread: pipe_main, run_multicry, run_buffer, buffer_update, ... *)
     g_bu := nth 3 fr0 [];
     g_wl := map (fun i => match nth_error (cs_thr cs) (S i) with Some t => nth 0 (thread_frames t) [] | None => [] end) (seq 0 T) |}.
Definition mdata_of (T : nat) (cs : cstate) : mdata :=
  let m := mem (cs_sh cs) in
  let nofile := {| cf_data := []; cf_pos := 0; cf_eof := false |} in
  let fin := match lget (files (cs_sh cs)) "fin" with Some f => f | None => nofile end in
  let fout := match lget (files (cs_sh cs)) "fout" with Some f => f | None => nofile end in
  {| d_turn := Z.to_nat (cell_of m "#0.turn"); d_over := z2b (cell_of m "#0.over"); d_live := Z.to_nat (cell_of m "live_num");
     d_ns := map (fun i => cell_of m (mode_name i ++ "n")%string) (seq 0 T);
     d_bufs := map (fun i => {| mb_cells := cells_of m (bpfx i ++ "b")%string;
                                mb_tot := cell_of m (bpfx i ++ "total")%string; mb_now := cell_of m (bpfx i ++ "now")%string;
                                mb_tail := cell_of m (bpfx i ++ "tail")%string; mb_fin := z2b (cell_of m (bpfx i ++ "isfinal")%string);
                                mb_st := Z.to_nat (cell_of m (cpfx i ++ "state")%string) |}) (seq 0 T);
     d_pos := cf_pos fin; d_eof := cf_eof fin; d_out := cf_data fout |}.

(* ================= the conditions on the thread ghost ================= *)
Definition names_are (l : locs) (ns : list string) : bool := list_eqb String.eqb (map fst l) ns.

(* the locals of multiruncrypt_file at pc p *)
Definition wl_okb (i : nat) (p : wpc) (wl : locs) : bool :=
  let tail := skipn 4 wl in
  match p with
  | W_New => locs_eqb wl (wl0 i)
  | W_Start | W_Asleep true | W_Awake true => locs_eqb wl (wl1 i)
  | W_Done => locs_eqb (firstn 4 wl) (wl1 i) && (names_are tail ["$t2"; "block"] || names_are tail ["$t2"; "block"; "$t3"])
  | _ => locs_eqb (firstn 4 wl) (wl1 i) &&
         (Nat.eqb (List.length tail) 0 || names_are tail ["$t2"; "block"] || names_are tail ["$t2"; "block"; "$t3"])
  end.
Definition rb_okb (rb : locs) : bool := locs_eqb rb [] || locs_eqb rb [("$t1", VInt 1); ("$t2", VInt 1)].
Definition bu_okb (p : ipc) (bu : locs) : bool :=
  match p with
  | I_Cmp => locs_eqb bu [("loadstate", VInt 2)]
  | I_Export => locs_eqb bu [("loadstate", VInt 2); ("$t1", VInt 1); ("$t2", VInt 1)]
  | I_Load => names_are bu ["loadstate"; "$t1"; "$t2"] && locs_eqb (firstn 1 bu) [("loadstate", VInt 2)]
  | I_SetReady _ => names_are bu ["loadstate"; "$t1"; "$t2"] || names_are bu ["loadstate"; "$t1"; "$t2"; "$t3"]
  | _ => true
  end.
Definition tg_okb (T : nat) (p : ipc) (ws : list wpc) (g : tghost) : bool :=
  Nat.eqb (List.length (g_wl g)) T && rb_okb (g_rb g) && bu_okb p (g_bu g) &&
  forallb (fun i => wl_okb i (nth i ws W_Done) (nth i (g_wl g) [])) (seq 0 T).

(* ================= the relation between the model's data and the machine's data ================= *)
Definition byte_okb (z : Z) : bool := (0 <=? z)%Z && (z <? 256)%Z.
(* a buffer the I/O thread has retired (NODATA): load_buffer may have run on it without the model recording it;
   nobody reads it any more, only `now >= total` matters (get_entry fails) *)
Definition retiredb (s : pstate) (i : nat) : bool :=
  bst_eqb (b_st (getb _ s i)) INV || (match io _ s with I_SetReady 2 => true | _ => false end && Nat.eqb (turn _ s) i).
Definition buf_relb (c : nat) (retired : bool) (b : buf) (mb : mbuf) : bool :=
  Nat.eqb (mb_st mb) (bst_code (b_st b)) && Bool.eqb (mb_fin mb) (b_final b) &&
  Nat.eqb (List.length (mb_cells mb)) (16 * c) && forallb byte_okb (mb_cells mb) &&
  (0 <=? mb_tail mb)%Z && (mb_tail mb <? 2 ^ 32)%Z &&
  (Z.eqb (mb_tot mb) (Z.of_nat (b_total b)) && Z.eqb (mb_now mb) (Z.of_nat (b_now b)) &&
   Nat.leb (b_total b) c && Nat.leb (b_now b) (b_total b) &&
   Nat.eqb (List.length (b_data b)) (b_total b) && forallb (fun blk => Nat.eqb (List.length blk) 16) (b_data b) &&
   list_eqb N.eqb (map Z.to_N (firstn (16 * b_total b) (mb_cells mb))) (concat (b_data b))
   || retired && (0 <=? mb_tot mb)%Z && (mb_tot mb <=? mb_now mb)%Z && (mb_now mb <? 2 ^ 32)%Z && Nat.leb (b_total b) (b_now b)).

(* the loads still to come are those of the unread part of the input *)
Fixpoint loads_eqb (l1 l2 : list load) : bool :=
  match l1, l2 with
  | [], [] => true
  | a :: r1, b :: r2 => list_eqb N.eqb (ld_data a) (ld_data b) && Nat.eqb (ld_total a) (ld_total b) &&
                        Bool.eqb (ld_final a) (ld_final b) && loads_eqb r1 r2
  | _, _ => false
  end.
Definition input_relb (c : nat) (pad : bool) (input0 : list N) (s : pstate) (d : mdata) : bool :=
  if over _ s then true
  else negb (d_eof d) && Nat.leb (d_pos d) (List.length input0) &&
       loads_eqb (input _ s) (loads_of c pad (skipn (d_pos d) input0)).

Definition drelb (c T : nat) (pad : bool) (input0 : list N) (s : pstate) (d : mdata) : bool :=
  Nat.eqb (List.length (bufs _ s)) T && Nat.eqb (List.length (wpcs _ s)) T && Nat.eqb (List.length (wsts _ s)) T &&
  Nat.eqb (List.length (d_bufs d)) T && Nat.eqb (List.length (d_ns d)) T &&
  Nat.eqb (d_turn d) (turn _ s) && Nat.ltb (turn _ s) T && Bool.eqb (d_over d) (over _ s) &&
  Nat.eqb (d_live d) (live _ s) && Nat.leb (live _ s) T &&
  match crashed _ s with None => true | Some _ => false end &&
  list_eqb Z.eqb (d_out d) (map Z.of_N (concat (output _ s))) &&
  forallb (fun i => buf_relb c (retiredb s i) (getb _ s i) (nth i (d_bufs d) mb0)) (seq 0 T) &&
  forallb (fun i => let x := nth i (wsts _ s) (0%N, 0%N) in
                    N.eqb (fst x) (N.of_nat i) && N.ltb (snd x) (2 ^ 32) && Z.eqb (nth i (d_ns d) 0%Z) (Z.of_N (snd x))) (seq 0 T) &&
  input_relb c pad input0 s d.

(* ================= the executable simulation relation ================= *)
Definition simb_in (c T : nat) (pad : bool) (input0 : list N) (s : pstate) (cs : cstate) : bool :=
  let g := ghost_of T cs in
  let d := mdata_of T cs in
  cstate_eqb cs (cstate_md c T pad input0 (io _ s) (wpcs _ s) d g) &&
  tg_okb T (io _ s) (wpcs _ s) g && drelb c T pad input0 s d.
(* the form asked for: the input is read back from the machine's input stream *)
Definition simb (c T : nat) (pad : bool) (s : pstate) (cs : cstate) : bool :=
  let input0 := match lget (files (cs_sh cs)) "fin" with Some f => map Z.to_N (cf_data f) | None => [] end in
  simb_in c T pad input0 s cs.

(* ================= replay of a schedule on both sides ================= *)
Definition run_fuel (c : nat) : nat := 5000 + 400 * c.
Inductive run_result :=
| RunOk                          (* simb holds initially and after every step *)
| SimFails (step : nat)          (* first index after which simb fails (0 = initially, k+1 = after the k-th step of the schedule) *)
| ModelStuck (step : nat)        (* PipeConc.step undefined on that schedule entry *)
| MachineStuck (step : nat).     (* the machine reports UB / out of fuel *)

Fixpoint sim_steps (c T : nat) (pad : bool) (s : pstate) (cs : cstate) (sched : list nat) (n : nat) : run_result :=
  if negb (simb c T pad s cs) then SimFails n else
  match sched with
  | [] => RunOk
  | tid :: r =>
      match PipeConc.step (N * N) tag_tr tag_event c pad s tid with
      | None => ModelStuck n
      | Some (s', _) =>
          match cstep conc_prog [] (run_fuel c) cs tid with
          | MiniC.Ok (cs', _) => sim_steps c T pad s' cs' r (S n)
          | _ => MachineStuck n
          end
      end
  end.

Definition sim_run_full (c T : nat) (pad : bool) (input : list N) (sched : list nat) : run_result :=
  match run_to_marker 20 (run_fuel c) (conc_init c T pad input) with
  | MiniC.Ok cs0 => sim_steps c T pad (init (N * N) T (tag_init T) (loads_of c pad input)) cs0 sched 0
  | _ => MachineStuck 0
  end.
(* index of the first step where simb fails; None = holds at every step (model / machine getting stuck is reported as that index too) *)
Definition sim_run (c T : nat) (pad : bool) (input : list N) (sched : list nat) : option nat :=
  match sim_run_full c T pad input sched with
  | RunOk => None
  | SimFails n | ModelStuck n | MachineStuck n => Some n
  end.

(* ================= a schedule generator (testing aid) ================= *)
(* a pseudo-random complete schedule of PipeConc: among the enabled real threads, now and then a spurious wake-up *)
Fixpoint auto_sched (c : nat) (pad : bool) (n : nat) (rnd : N) (s : pstate) : list nat :=
  match n with
  | O => []
  | S n' =>
      let T := nT _ s in
      let en := filter (PipeConc.enabled _ tag_tr tag_event c pad s) (seq 0 (S T)) in
      let sp := filter (fun j => spurious_enabled _ s j) (seq 0 (S T)) in
      let rnd' := ((rnd * 1103 + 12345) mod 65536)%N in
      let pick := if N.eqb (rnd mod 5) 0 && negb (Nat.eqb (List.length sp) 0)
                  then Some (T + 1 + nth (N.to_nat (rnd mod N.of_nat (List.length sp))) sp 0)
                  else match en with [] => None | _ => Some (nth (N.to_nat ((rnd / 7) mod N.of_nat (List.length en))) en 0) end in
      match pick with
      | None => []
      | Some tid => match PipeConc.step (N * N) tag_tr tag_event c pad s tid with
                    | Some (s', _) => tid :: auto_sched c pad n' rnd' s'
                    | None => []
                    end
      end
  end.
Definition mksched (c T : nat) (pad : bool) (inp : list N) (rnd : N) : list nat :=
  auto_sched c pad 4000 rnd (init _ T (tag_init T) (loads_of c pad inp)).

(* ================= the relation holds along concrete runs ================= *)
Definition ex_bytes (n : nat) : list N := map (fun i => N.of_nat (i * 7 mod 256)) (seq 0 n).
Definition complete (c T : nat) (pad : bool) (inp : list N) (sched : list nat) : bool :=
  match tag_run c T pad inp sched with Some (s, _) => terminal _ s | None => false end.

(* T = 1, padding, empty input; spurious wake-ups (id 3 = worker 0) *)
Example sim_ex1 : let sc := [0; 0; 1; 1; 0; 3; 0; 1; 1; 1; 0; 0; 1; 1; 0; 3; 1; 0; 0; 0; 3; 0; 1; 1; 0] in
  sim_run 1 1 true (ex_bytes 0) sc = None /\ complete 1 1 true (ex_bytes 0) sc = true.
Proof. vm_compute. split; reflexivity. Qed.
(* T = 1, no padding, empty input (the first load is NODATA) *)
Example sim_ex2 : let sc := [0; 1; 1; 0; 0; 0; 0; 1; 1; 1; 1; 1; 0] in
  sim_run 1 1 false (ex_bytes 0) sc = None /\ complete 1 1 false (ex_bytes 0) sc = true.
Proof. vm_compute. split; reflexivity. Qed.
(* T = 2, c = 2, padding, exact multiple of the chunk (64 = 2 * 32): a last chunk of padding only; spurious wake-ups 4, 5 *)
Example sim_ex3 : let sc :=
  [0; 1; 1; 4; 1; 2; 4; 2; 0; 0; 5; 2; 0; 0; 0; 1; 1; 0; 0; 5; 1; 2; 5; 2; 1; 0; 2; 1; 0; 2; 1; 0; 2; 4;
   0; 0; 0; 1; 0; 1; 1; 0; 2; 2; 0; 0; 1; 2; 1; 1; 0; 0; 0; 0; 0; 2; 2; 0; 0; 0; 0; 0; 1; 1; 0] in
  sim_run 2 2 true (ex_bytes 64) sc = None /\ complete 2 2 true (ex_bytes 64) sc = true.
Proof. vm_compute. split; reflexivity. Qed.
(* T = 2, c = 2, no padding, exact multiple of the chunk (the peek for end-of-file) *)
Example sim_ex4 : let sc :=
  [0; 0; 2; 0; 1; 2; 1; 0; 1; 0; 0; 5; 0; 1; 0; 0; 0; 0; 3; 2; 2; 1; 0; 2; 3; 0; 2; 1; 2; 3; 1; 0; 2; 0;
   0; 1; 0; 0; 1; 0; 5; 0; 1; 0; 0; 0; 2; 5; 0; 0; 2; 2; 0] in
  sim_run 2 2 false (ex_bytes 64) sc = None /\ complete 2 2 false (ex_bytes 64) sc = true.
Proof. vm_compute. split; reflexivity. Qed.
(* T = 3, c = 1, padding, 100 bytes: 7 chunks, more chunks than workers; spurious wake-ups 5, 6, 7 *)
Example sim_ex5 : let sc :=
  [1; 3; 1; 5; 0; 1; 0; 3; 0; 7; 3; 2; 5; 2; 0; 0; 6; 2; 1; 1; 1; 0; 1; 0; 1; 0; 5; 0; 0; 1; 0; 2; 0; 7;
   5; 3; 2; 2; 2; 2; 0; 1; 0; 3; 3; 3; 0; 3; 0; 0; 5; 3; 1; 5; 0; 0; 1; 5; 1; 0; 1; 7; 0; 6; 1; 2; 1; 1;
   0; 6; 2; 0; 1; 6; 5; 3; 1; 7; 2; 3; 0; 0; 0; 2; 5; 2; 7; 1; 0; 2; 0; 3; 0; 2; 2; 7; 0; 6; 5; 3; 1; 0;
   2; 7; 3; 0; 5; 0; 1; 3; 0; 6; 0; 2; 5; 1; 0; 0; 0; 0; 1; 6; 0; 2; 3; 1; 1; 1; 3; 3; 1; 0; 0; 0; 0; 0;
   2; 5; 3; 1; 2; 0; 5; 7; 3; 1; 0; 0; 0; 0; 3; 0; 3; 0; 0; 0; 5; 0; 1; 0; 0; 1; 1; 0] in
  sim_run 1 3 true (ex_bytes 100) sc = None /\ complete 1 3 true (ex_bytes 100) sc = true.
Proof. vm_compute. split; reflexivity. Qed.
(* T = 3, c = 1, no padding, ragged input (37 = 2 * 16 + 5): the last load is NODATA after reading 5 bytes *)
Example sim_ex6 : let sc :=
  [1; 0; 3; 0; 0; 1; 3; 7; 5; 3; 1; 2; 2; 0; 0; 1; 0; 1; 0; 1; 6; 0; 1; 7; 1; 0; 3; 7; 0; 0; 3; 2; 2; 0;
   2; 2; 0; 7; 0; 0; 2; 6; 5; 1; 0; 3; 5; 3; 0; 3; 2; 6; 0; 1; 2; 0; 0; 0; 1; 1; 0; 0; 0; 3; 0; 3; 6; 0;
   0; 2; 2; 0] in
  sim_run 1 3 false (ex_bytes 37) sc = None /\ complete 1 3 false (ex_bytes 37) sc = true.
Proof. vm_compute. split; reflexivity. Qed.
(* T = 2, c = 1, no padding, 5 chunks *)
Example sim_ex7 : let sc :=
  [1; 1; 2; 0; 0; 2; 0; 0; 1; 0; 0; 5; 1; 0; 2; 1; 5; 1; 2; 0; 1; 0; 0; 0; 0; 2; 4; 1; 4; 1; 0; 0; 2; 0;
   0; 0; 1; 1; 1; 2; 1; 1; 4; 1; 2; 2; 0; 0; 0; 0; 5; 2; 0; 0; 2; 2; 2; 2; 0; 0; 4; 1; 2; 0; 5; 0; 2; 0;
   5; 1; 1; 1; 1; 2; 0; 0; 1; 0; 0; 0; 0; 0; 4; 2; 2; 0; 1; 0; 0; 4; 1; 4; 0; 0; 1; 1; 0] in
  sim_run 1 2 false (ex_bytes 80) sc = None /\ complete 1 2 false (ex_bytes 80) sc = true.
Proof. vm_compute. split; reflexivity. Qed.
(* T = 1, c = 3, padding, 50 bytes: a full chunk and a padded one *)
Example sim_ex8 : let sc :=
  [1; 0; 1; 3; 1; 0; 0; 0; 0; 0; 1; 1; 1; 1; 1; 1; 1; 0; 0; 0; 0; 0; 1; 0; 1; 1; 0; 1; 0; 1; 0; 0; 0; 0;
   0; 1; 1; 0] in
  sim_run 3 1 true (ex_bytes 50) sc = None /\ complete 3 1 true (ex_bytes 50) sc = true.
Proof. vm_compute. split; reflexivity. Qed.
(* generated schedules, T = 4 *)
Example sim_ex9 : forallb (fun rnd => match sim_run 2 4 true (ex_bytes 150) (mksched 2 4 true (ex_bytes 150) rnd) with None => true | _ => false end)
                          [1%N; 2%N; 3%N] = true.
Proof. vm_compute. reflexivity. Qed.
(* the relation is not trivial: a model state with another pc, other input or padding flag is rejected *)
Example sim_ex_neg :
  let cs0 := match run_to_marker 20 (run_fuel 1) (conc_init 1 2 true (ex_bytes 20)) with MiniC.Ok cs => cs | _ => conc_init 1 2 true (ex_bytes 20) end in
  let s0 n := init (N * N) 2 (tag_init 2) (loads_of 1 true (ex_bytes n)) in
  (simb 1 2 true (s0 20) cs0, simb 1 2 true (s0 21) cs0, simb 1 2 true (set_io _ (s0 20) I_Cmp) cs0,
   simb 1 2 true (set_wpc _ (s0 20) 1 W_Start) cs0, simb 1 2 false (s0 20) cs0) = (true, false, false, false, false).
Proof. vm_compute. reflexivity. Qed.
