(* The two end-to-end theorems of Properties_SrcE2Ef.v for ARBITRARY budgets of the scheduler loop: step bound `steps`, statement budget `fuel` of one thread
   step, scheduler seed `rnd` (SrcRun5.run_from fixes steps and fuel as functions of T, c and the file length; for large chunk sizes its step bound is reached and
   the fixed-budget theorems say nothing).  Stated on SrcRun5.auto_run: the run ends in WDone with the model's result, or the step bound is reached (WSteps), or a
   thread step ran out of its statement budget (WErr "out of fuel"); it never deadlocks and never has undefined behaviour. *)
From Coq Require Import ZArith NArith List String Bool.
From Wencry Require Import Bytes HashModel FileModel FileProps MiniC MiniCRun MiniCConc SrcRun SrcRun2 SrcRun5 RefineE2EfBudget2.
Import ListNotations.
Local Open Scope N_scope.

Theorem SRC_execute_encrypt_is_model_any_budget : forall c hbuf T P key seed cm hm steps fuel rnd,
  enc_params c hbuf T P key seed cm hm ->
  forallb (fun b => (0 <? b) && (b <? 256)) seed = true ->
  N.of_nat (length seed) < 2 ^ 32 ->
  N.of_nat (16 * c) < 2 ^ 32 -> N.of_nat (64 * hbuf) < 2 ^ 32 ->
  match auto_run steps fuel rnd (whole_init WEnc c hbuf T (Z.of_N cm) (Z.of_N hm) P key seed) 0 with
  | WDone cs _ => main_result cs = Some 1%Z /\ enc c hbuf T P key cm hm seed = FileModel.Ok (out_bytes cs) /\ in_bytes cs = P
  | WDeadlock _ => False
  | WSteps => True
  | WErr w => w = "out of fuel"%string
  end.
Proof. exact SRC_execute_encrypt_is_model_any_budget_proof. Qed.
Print Assumptions SRC_execute_encrypt_is_model_any_budget.

Theorem SRC_execute_decrypt_is_model_on_accepted_files_any_budget : forall c hbuf T F key out steps fuel rnd,
  (1 <= c)%nat -> (1 <= hbuf)%nat -> N.of_nat (16 * c) < 2 ^ 32 -> N.of_nat (64 * hbuf) < 2 ^ 32 -> (1 <= T <= 16)%nat ->
  block16 key -> bytesb F = true ->
  dec c hbuf T F key = FileModel.Ok out ->
  match auto_run steps fuel rnd (whole_init WDec c hbuf T (-1) (-1) F key []) 0 with
  | WDone cs _ => main_result cs = Some 1%Z /\ out_bytes cs = out /\ in_bytes cs = F
  | WDeadlock _ => False
  | WSteps => True
  | WErr w => w = "out of fuel"%string
  end.
Proof. exact SRC_execute_decrypt_is_model_any_budget_proof. Qed.
Print Assumptions SRC_execute_decrypt_is_model_on_accepted_files_any_budget.
