(* parseOpts on -k *)
From Coq Require Import ZArith NArith List String Bool Lia.
From Wencry Require Import Bytes CliModel MiniC MiniCRun MiniCLemmas SrcRun SrcRun3 CliConc RefineB64Lib RefineCliSim RefineCliLib RefineCliTac RefineCliKey RefineCliTok.
From Wencry.Gen Require Src_cli Src_base64.
Import ListNotations.
Local Open Scope string_scope.
Local Open Scope list_scope.
Local Open Scope Z_scope.
Local Arguments heap_name : simpl never.

(* is_valid_b64(optarg, len) in the front end's memory: memory unchanged (extensionally) *)
Lemma valid_call : forall t n r s0 m a fs ps fr,
  exec cli_prog [] 120 (f_body Src_base64.f_is_valid_b64_2) (sm t optind_obj (loc_valid n)) = Ok (Returned (Some (VInt r)), s0) ->
  mem s0 = mem (sm t optind_obj []) ->
  mget m "b64_tab" = Some Src_base64.g_b64_tab -> mget m "hex_tab" = Some Src_base64.g_hex_tab ->
  mget m a = Some (txt_obj t) -> mget m "optind" = Some optind_obj ->
  a <> "optind" -> a <> "b64_tab" -> a <> "hex_tab" ->
  exists S', exec cli_prog [] 120 (f_body Src_base64.f_is_valid_b64_2)
    {| mem := m; loc := [("base64_in", VPtr a 0); ("len", VInt n)]; pre := ""; files := fs; ptrs := ps; fresh := fr |}
    = Ok (Returned (Some (VInt r)), S') /\ files S' = fs /\ ptrs S' = ps /\ fresh S' = fr /\ (forall K, mget (mem S') K = mget m K).
Proof.
  intros t n r s0 m a fs ps fr Hrun Hmem M1 M2 M3 M4 N1 N2 N3.
  destruct (transport a "optind" t optind_obj (loc_valid n) 120 (f_body Src_base64.f_is_valid_b64_2) (Returned (Some (VInt r))) s0
              {| mem := m; loc := [("base64_in", VPtr a 0); ("len", VInt n)]; pre := ""; files := fs; ptrs := ps; fresh := fr |} optind_obj
              N1 N2 N3 ltac:(discriminate) ltac:(discriminate) ltac:(vm_compute; reflexivity) Hrun Hmem M1 M2 M3 M4 ltac:(reflexivity))
    as (S' & X & P1 & P2 & P3 & P4 & P5 & P6).
  exists S'. split; [exact X|]. repeat split; try assumption.
  intros K. destruct (String.eqb_spec K "optind") as [->|NK]; [cbn [mem] in *; congruence|]. apply P6. exact NK.
Qed.

Lemma dec_call : forall t o s0 kb m a kn fs ps fr,
  exec cli_prog [] 120 (f_body Src_base64.f_base64_to_hex_3) (sm t key0_obj loc_dec) = Ok (o, s0) ->
  mem s0 = mem (sm t (bytes_object kb) []) ->
  mget m "b64_tab" = Some Src_base64.g_b64_tab -> mget m "hex_tab" = Some Src_base64.g_hex_tab ->
  mget m a = Some (txt_obj t) -> mget m kn = Some key0_obj ->
  a <> kn -> a <> "b64_tab" -> a <> "hex_tab" -> kn <> "b64_tab" -> kn <> "hex_tab" ->
  exists o' S', exec cli_prog [] 120 (f_body Src_base64.f_base64_to_hex_3)
    {| mem := m; loc := [("base64_in", VPtr a 0); ("len", VInt 24); ("hex_out", VPtr kn 0)]; pre := ""; files := fs; ptrs := ps; fresh := fr |}
    = Ok (o', S') /\ files S' = fs /\ ptrs S' = ps /\ fresh S' = fr /\
    mget (mem S') kn = Some (bytes_object kb) /\ (forall K, K <> kn -> mget (mem S') K = mget m K).
Proof.
  intros t o s0 kb m a kn fs ps fr Hrun Hmem M1 M2 M3 M4 N1 N2 N3 N4 N5.
  destruct (transport a kn t key0_obj loc_dec 120 (f_body Src_base64.f_base64_to_hex_3) o s0
              {| mem := m; loc := [("base64_in", VPtr a 0); ("len", VInt 24); ("hex_out", VPtr kn 0)]; pre := ""; files := fs; ptrs := ps; fresh := fr |}
              (bytes_object kb) N1 N2 N3 N4 N5 ltac:(vm_compute; reflexivity) Hrun Hmem M1 M2 M3 M4 ltac:(reflexivity))
    as (S' & X & P1 & P2 & P3 & P4 & P5 & P6).
  eexists. exists S'. split; [exact X|]. repeat split; assumption.
Qed.

Lemma wrap_tbool_01 : forall z, wrap TBool z = if z =? 0 then 0 else 1.
Proof. reflexivity. Qed.

Lemma po_k_bad : forall m a fs fpv outv keyv pe fr,
  mget m "b64_tab" = Some Src_base64.g_b64_tab -> mget m "hex_tab" = Some Src_base64.g_hex_tab ->
  mget m a = Some (txt_obj badtext) -> mget m "optind" = Some optind_obj ->
  a <> "optind" -> a <> "b64_tab" -> a <> "hex_tab" ->
  exists M' l', exec cli_prog [] 140 po_body (mk m (po_loc 107) fs (pps (VPtr a 0) fpv outv keyv pe) fr) =
    Ok (Returned (Some (VInt 0)), mk M' l' fs (pps (VPtr a 0) fpv outv keyv pe) fr) /\ (forall K, mget M' K = mget m K).
Proof.
  intros m a fs fpv outv keyv pe fr M1 M2 M3 M4 N1 N2 N3.
  destruct bad_facts as (BL & BNZ & (s0 & Hrun & Hmem)).
  destruct (valid_call badtext 7 0 s0 m a fs (pps (VPtr a 0) fpv outv keyv pe) fr Hrun Hmem M1 M2 M3 M4 N1 N2 N3) as (S' & X & P1 & P2 & P3 & P4).
  exists (mem S'). eexists. split; [|exact P4].
  unfold po_body. cbn [f_body Src_cli.f_parseOpts_2]. unfold mk, po_loc, pps in *.
  xrun fail.
  { eapply x_prim; [evr2 fail; reflexivity | eapply prim_strlen; [exact M3 | apply forallb_nonzero; exact BNZ] | stn]. }
  all: xrun fail.
  { rewrite BL. eapply x_call; [evr2 fail; reflexivity | reflexivity | reflexivity | eapply exec_mono; [exact X|lia] | rewrite P1, P2, P3; stn]. }
  all: xrun fail. all: xrun fail. all: xrun fail.
Qed.

Lemma heap_not_lit1 : forall j, heap_name j <> "b64_tab". Proof. intros j H. discriminate H. Qed.
Lemma heap_not_lit2 : forall j, heap_name j <> "hex_tab". Proof. intros j H. discriminate H. Qed.

(* getArgsKey(optarg) on a key text *)
Lemma ga_ok : forall c m a fs ps fr,
  mget m "b64_tab" = Some Src_base64.g_b64_tab -> mget m "hex_tab" = Some Src_base64.g_hex_tab ->
  mget m a = Some (txt_obj (ktext c)) -> kfacts c ->
  a <> heap_name fr -> a <> "b64_tab" -> a <> "hex_tab" ->
  exists S', exec cli_prog [] 130 (f_body Src_cli.f_getArgsKey_1) (mk m [("arg", VPtr a 0)] fs ps fr) =
    Ok (Returned (Some (VPtr (heap_name fr) 0)), S') /\ files S' = fs /\ ptrs S' = ps /\ fresh S' = S fr /\
    mget (mem S') (heap_name fr) = Some (bytes_object (key_of c)) /\ (forall K, K <> heap_name fr -> mget (mem S') K = mget m K).
Proof.
  intros c m a fs ps fr M1 M2 M3 (KL & KNZ & _ & (o & s0 & Hrun & Hmem)) N1 N2 N3.
  set (m1 := mset m (heap_name fr) key0_obj).
  destruct (dec_call (ktext c) o s0 (key_of c) m1 a (heap_name fr) fs ps (S fr) Hrun Hmem) as (o' & S' & X & P1 & P2 & P3 & P4 & P5).
  1-4: unfold m1; mgo; auto.
  1-5: auto using heap_not_lit1, heap_not_lit2.
  eexists. split.
  - cbn [f_body Src_cli.f_getArgsKey_1]. unfold mk.
    eapply x_seq_gen.
    { eapply x_new; [evr2 fail; reflexivity | lia | reflexivity]. }
    cbv iota. cbn [mem loc pre files ptrs fresh lset String.eqb Ascii.eqb Bool.eqb].
    eapply x_seq_gen.
    { eapply x_call; [evr2 fail; reflexivity | reflexivity | reflexivity | eapply exec_mono; [exact X|lia] | reflexivity]. }
    cbv iota. eapply x_return. evr2 fail. reflexivity.
  - cbn [mem files ptrs fresh set_ret]. repeat split; try assumption.
    intros K HK. rewrite P5 by exact HK. unfold m1. apply mget_mset_other. auto.
Qed.

Lemma po_k_valid : forall c m a fs fpv outv keyv pe fr,
  mget m "b64_tab" = Some Src_base64.g_b64_tab -> mget m "hex_tab" = Some Src_base64.g_hex_tab ->
  mget m a = Some (txt_obj (ktext c)) -> mget m "optind" = Some optind_obj -> kfacts c ->
  a <> "optind" -> a <> "b64_tab" -> a <> "hex_tab" -> a <> heap_name fr ->
  exists M' l', exec cli_prog [] 160 po_body (mk m (po_loc 107) fs (pps (VPtr a 0) fpv outv keyv pe) fr) =
    Ok (Returned (Some (VInt 1)), mk M' l' fs (pps (VPtr a 0) fpv outv (VPtr (heap_name fr) 0) pe) (S fr)) /\
    mget M' (heap_name fr) = Some (bytes_object (key_of c)) /\ (forall K, K <> heap_name fr -> mget M' K = mget m K).
Proof.
  intros c m a fs fpv outv keyv pe fr M1 M2 M3 M4 KF N1 N2 N3 N4.
  pose proof KF as (KL & KNZ & (s0 & Hrun & Hmem) & _).
  destruct (valid_call (ktext c) 24 1 s0 m a fs (pps (VPtr a 0) fpv outv keyv pe) fr Hrun Hmem M1 M2 M3 M4 N1 N2 N3) as (S1 & X1 & P1 & P2 & P3 & P4).
  destruct (ga_ok c (mem S1) a fs (pps (VPtr a 0) fpv outv keyv pe) fr) as (S2 & X2 & Q1 & Q2 & Q3 & Q4 & Q5); try assumption.
  1-3: rewrite P4; assumption.
  exists (mem S2). eexists. split; [|split; [exact Q4|intros K HK; rewrite Q5 by exact HK; apply P4]].
  unfold po_body. cbn [f_body Src_cli.f_parseOpts_2]. unfold mk, po_loc, pps in *.
  xrun fail.
  { eapply x_prim; [evr2 fail; reflexivity | eapply prim_strlen; [exact M3 | apply forallb_nonzero; exact KNZ] | stn]. }
  all: xrun fail.
  { rewrite KL. eapply x_call; [evr2 fail; reflexivity | reflexivity | reflexivity | eapply exec_mono; [exact X1|lia] | rewrite P1, P2, P3; stn]. }
  all: xrun fail.
  { eapply x_call; [evr2 fail; reflexivity | reflexivity | reflexivity | eapply exec_mono; [exact X2|lia] | rewrite Q1, Q2, Q3; stn]. }
  all: xrun fail. all: xrun fail. all: xrun fail. all: xrun fail.
Qed.
