(* PARALLEL4 (H2), D1: RefineE2EfSetup1D.dec_verify_spec -- runcrypt::verify/1 on the state after the constructors, accepting path,
   with the exact final state: memory M1dd ++ extra1, pointer table PS1 ++ pextra1.
   verify walk (RefineE2EfDecD1d.verify_W2) + cmphmac on the full state (RefineE2EfDecD1c.cmp_full) + the names (RefineE2EfHashPK.call_pk). *)
From Coq Require Import ZArith NArith List String Bool Lia PeanoNat Ascii.
From Wencry Require Import Bytes HashModel HashProofs HmacProofs FileSpec FileModel MiniC MiniCRun MiniCLemmas SrcRun SrcRun2 SrcRun5
     RefineHashDefs RefineHashDriver RefineSha256 RefineSha1 RefineMd5 RefineHash RefineFileBase RefineFileHmac RefineFileHmac2 RefineFileHmac3 RefineFileVerify
     RefineE2ENames RefineE2ERel RefineE2EEval RefineE2EAlloc RefineE2ESim RefineE2EFrame RefineE2EWhole RefineE2EBridge RefineE2E.
From Wencry Require Import RefineE2EfWNames RefineE2EfHashMono RefineE2EfHashB1 RefineE2EfHashKeys RefineE2EfHashPK RefineE2EfDecD1a RefineE2EfDecD1b RefineE2EfDecD1c RefineE2EfDecD1d.
From Wencry Require RefineE2EfHashSpec RefineE2EfHashB3 RefineE2EfDecSpec RefineE2EfSetup1D RefineConcMem.
From Wencry.Gen Require Layout Src_sha256 Src_sha1 Src_md5 Src_hashmaster Src_hashbuffer Src_hashfactory Src_fheader Src_cry.
Import ListNotations.
Local Open Scope list_scope.
Local Open Scope string_scope.
Local Open Scope Z_scope.

Fixpoint nodupb' (l : list string) : bool := match l with [] => true | x :: r => negb (inb x r) && nodupb' r end.
Lemma nodupb'_NoDup : forall l, nodupb' l = true -> NoDup l.
Proof.
  induction l as [|x r IH]; intro H; [constructor|]. cbn [nodupb'] in H. apply andb_prop in H. destruct H as [H1 H2].
  constructor; [|apply IH, H2]. intro Hin. apply inb_In in Hin. rewrite Hin in H1. discriminate.
Qed.
Lemma two_files' : forall (fs : list (string * cfile)) fi, map fst fs = ["fin"; "fout"] -> lget fs "fin" = Some fi -> exists fo, fs = [("fin", fi); ("fout", fo)].
Proof.
  intros fs fi Hk Hf. destruct fs as [|[k1 f1] [|[k2 f2] [|x r]]]; try discriminate Hk. cbn [map fst] in Hk. injection Hk as -> ->.
  cbn [lget String.eqb Ascii.eqb Bool.eqb] in Hf. injection Hf as ->. eauto.
Qed.
Lemma hnum_hash' : forall k n, hnum k = Some n -> exists r, k = String "#"%char r.
Proof.
  intros [|ch r] n H; cbn [hnum] in H; [discriminate|]. destruct (Ascii.eqb_spec ch "#"%char) as [->|]; [eauto|discriminate].
Qed.
Lemma GoodK_cases : forall f k, GoodK f k -> (exists q, k = "rc.hm" ++ q) \/ (exists n y, k = hobj n ++ y /\ (n < f)%nat).
Proof. intros f k [H|H]; [left; apply prefix_split, H|right; exact H]. Qed.

(* the cmphmac call for the three hash classes *)
Lemma cmp_full_all : forall c hbuf T F key fsize, (1 <= hbuf)%nat -> Z.of_nat (64 * hbuf) < 2 ^ 32 -> block16 key -> bytesb F = true ->
  (74 <= List.length F)%nat -> (nth 9 F 0 <= 2)%N -> forall fuel mn l0, (2800 + List.length F / 64 <= fuel)%nat ->
  exists tag s', hmac_model hbuf (nth 9 F 0%N) key (skipn 48 F) = Some tag /\
    call whole_prog [] fuel "hmac::cmphmac/5" "rc.hmachandle." [VInt (Z.of_N (nth 9 F 0%N)); VPtr "key" 0; VPtr "fin" 0; VPtr "rc.header.hash" 0; VInt fsize]
      (St (Mem4 c hbuf T F key mn) l0 "rc." (FS (map Z.of_N F) 48%nat false (stream [] 0)) PS1 1%nat) =
    Ok (Some (VInt (if cmphmac tag (firstn 64 (skipn 10 F)) then 1 else 0)), s') /\
    Q6 c hbuf T F key (stream [] 0) (hlen (nth 9 F 0%N)) mn s'.
Proof.
  intros c hbuf T F key fsize Hh1 Hh2 Hk HFb H74 Hht f mn l0 Hf.
  assert (Hc : nth 9 F 0%N = 0%N \/ nth 9 F 0%N = 1%N \/ nth 9 F 0%N = 2%N) by lia.
  destruct Hc as [E|[E|E]]; rewrite E.
  - apply (cmp_full "sha1hash" alg_sha1 _ _ F_sha1hash 0%N hbuf (hctx_sha1 hbuf "rc.hmachandle." Hh1 Hh2 pfx_ok_rc) eq_refl F_sha1hash_bound five_sha1
             (or_introl eq_refl) eq_refl (fun c0 T0 => gl_nil c0 hbuf T0) (fun c0 T0 => gl2_nil c0 hbuf T0)); assumption.
  - apply (cmp_full "md5hash" alg_md5 _ _ F_md5hash 1%N hbuf (hctx_md5 hbuf "rc.hmachandle." Hh1 Hh2 pfx_ok_rc) eq_refl F_md5hash_bound five_md5
             (or_intror (or_introl eq_refl)) eq_refl (fun c0 T0 => gl_nil c0 hbuf T0) (fun c0 T0 => gl2_nil c0 hbuf T0)); assumption.
  - apply (cmp_full "sha256hash" alg_sha256 _ _ F_sha256hash 2%N hbuf (hctx_sha256 hbuf "rc.hmachandle." Hh1 Hh2 pfx_ok_rc) eq_refl F_sha256hash_bound five_sha256
             (or_intror (or_intror (or_introl eq_refl))) eq_refl (fun c0 T0 => gl_sha256 c0 hbuf T0) (fun c0 T0 => gl2_sha256 c0 hbuf T0)); assumption.
Qed.

Import RefineE2EfHashSpec RefineE2EfHashB3 RefineE2EfDecSpec RefineE2EfSetup1D.

Lemma Mem4_M1dd : forall c hbuf T F key mn, (T <= 16)%nat ->
  Mem4 c hbuf T F key mn = (mset (M1dd c hbuf T F key) "rc.hmachandle.length" (oc U8 0) ++ [("%mn", mn)])%list.
Proof.
  intros c hbuf T F key mn HT. unfold RefineE2EWhole.Mem4, M1, M1dd, memA_d. rewrite (wrap_U8_small (Z.of_nat T)) by lia. reflexivity.
Qed.
Lemma keys_M1dd : forall c hbuf T F key, map fst (M1dd c hbuf T F key) = map fst (M1 c hbuf T key).
Proof. intros. vm_compute. reflexivity. Qed.
Lemma nodup_M1 : forall c hbuf T key, NoDup (map fst (M1 c hbuf T key)).
Proof. intros. apply nodupb'_NoDup. vm_compute. reflexivity. Qed.

Theorem dec_verify_ok : dec_verify_spec.
Proof.
  unfold dec_verify_spec. intros c hbuf T F key l Hh1 Hh32 HT Hkey HF Hver.
  set (fsize := Z.of_nat (List.length F)).
  assert (Hh2 : Z.of_nat (64 * hbuf) < 2 ^ 32) by lia.
  set (fuel := (2900 + List.length F / 64)%nat).
  destruct (verify_W2 c hbuf T F key fsize (stream [] 0) HF (Q6 c hbuf T F key (stream [] 0) (hlen (nth 9 F 0%N)))
              (fun H74 Hht f mn l0 Hf => cmp_full_all c hbuf T F key fsize Hh1 Hh2 Hkey HF H74 Hht f mn l0 Hf) fuel (le_n _))
    as (code & s' & Hv & Ev & HQ).
  rewrite Hver in Hv. injection Hv as <-.
  destruct (HQ eq_refl) as (mn & s6 & (NA6 & Hlen6 & Hoth6 & Hfo6) & Em & Ep & Ef & Efr). clear HQ.
  assert (NAs : NA s') by (intro c0; rewrite Ep; apply NA6).
  assert (HgV : In "runcrypt::verify/1" (FLc FLgV FLrV FLuV CR)) by (left; reflexivity).
  destruct (call_pk whole_prog [] FLgV FLrV FLuV LNV HFLcV fuel CR "runcrypt::verify/1" "rc." _ _ _ _ HgV eq_refl Ev NAs)
    as (Hfr & (ks & Ek & Fk) & (pks & Epk & Fp) & Hframe). cbn [mem ptrs fresh] in Hfr, Ek, Fk, Epk, Fp, Hframe.
  set (h1 := fresh s') in *.
  assert (Hg0 : In "runcrypt::verify/1" FL0) by (unfold FL0; apply in_or_app; right; left; reflexivity).
  (* ---- the memory ---- *)
  assert (EM4 := Mem4_M1dd c hbuf T F key mn ltac:(lia)).
  assert (Hvals : forall k o, mget (M1dd c hbuf T F key) k = Some o -> mget (mem s') k = Some o).
  { intros k o Hk. rewrite Em. destruct (String.eqb_spec k "rc.hmachandle.length") as [->|Hne].
    - rewrite Hlen6. rewrite <- Hk. reflexivity.
    - apply Hoth6; [|exact Hne]. rewrite EM4, RefineConcMem.mget_app, mget_mset_other by (intro E0; apply Hne; symmetry; exact E0). rewrite Hk. reflexivity. }
  assert (Ek' : map fst (mem s') = (map fst (M1dd c hbuf T F key) ++ ks)%list) by (rewrite keys_M1dd; exact Ek).
  assert (Hnd1 : NoDup (map fst (M1dd c hbuf T F key))) by (rewrite keys_M1dd; apply nodup_M1).
  pose proof (spine_mem (M1dd c hbuf T F key) (mem s') ks Ek' Hnd1 Hvals) as Espine.
  set (extra1 := skipn (List.length (M1dd c hbuf T F key)) (mem s')) in *.
  assert (Eke : map fst extra1 = ks) by (apply (skipn_keys _ (M1dd c hbuf T F key) (mem s') ks Ek')).
  (* ---- the pointer table ---- *)
  assert (Hpv : forall k v, lget PS1 k = Some v -> lget (ptrs s') k = Some v).
  { intros k v Hk. rewrite Hframe; [exact Hk| |].
    - intro G. apply lget_In in Hk. cbn [PS1 In] in Hk.
      destruct (GoodK_cases _ _ G) as [[q Eq]|(n & y & Eq & _)]; [|rewrite hobj_app in Eq];
        repeat (destruct Hk as [Hk|Hk]; [injection Hk as <- _; discriminate Eq|]); destruct Hk.
    - intros n Eq. apply lget_In in Hk. cbn [PS1 In] in Hk. unfold class_key in Eq.
      repeat (destruct Hk as [Hk|Hk]; [injection Hk as <- _; discriminate Eq|]). destruct Hk. }
  assert (Hnd2 : NoDup (map fst PS1)) by (apply nodupb'_NoDup; vm_compute; reflexivity).
  pose proof (spine_locs _ PS1 (ptrs s') pks Epk Hnd2 Hpv) as Espinep.
  set (pextra1 := skipn (List.length PS1) (ptrs s')) in *.
  assert (Ekp : map fst pextra1 = pks) by (apply (skipn_keys _ PS1 (ptrs s') pks Epk)).
  (* ---- the streams ---- *)
  pose proof (call_grow whole_prog [] FL0 SZV HFL0mV fuel _ _ _ _ _ _ Hg0 Ev) as (_ & _ & Hfk). cbn [files map fst] in Hfk.
  pose proof (call_frame fuel _ _ _ _ _ _ Hg0 Ev) as [Hfd _]. specialize (Hfd "fin"). unfold fdata in Hfd. cbn [files lget String.eqb Ascii.eqb Bool.eqb option_map cf_data] in Hfd.
  destruct (lget (files s') "fin") as [[d1 p1 e1]|] eqn:Efin; [|discriminate Hfd]. cbn [option_map cf_data] in Hfd. injection Hfd as ->.
  destruct (two_files' (files s') _ Hfk Efin) as [fo' Efs].
  assert (fo' = stream [] 0).
  { rewrite <- Ef in Hfo6. rewrite Efs in Hfo6. cbn [lget String.eqb Ascii.eqb Bool.eqb] in Hfo6. injection Hfo6 as ->. reflexivity. }
  subst fo'.
  (* ---- the statement ---- *)
  exists fuel, h1, extra1, pextra1, p1, e1.
  split.
  { pose proof (call_any_caller whole_prog [] fuel "runcrypt::verify/1" "rc." [VInt fsize] _ l "rc." _ _ _ _ _ Ev) as Q.
    change (FS0 F) with (FS (map Z.of_N F) 0%nat false (stream [] 0)). fold fsize. rewrite Q. do 2 f_equal.
    rewrite <- Espine, <- Espinep, Efs. reflexivity. }
  split; [unfold h1; exact Hfr|].
  split.
  { unfold ext_mem_ok. apply forallb_forall. intros kv Hkv.
    assert (Hi : In (fst kv) ks) by (rewrite <- Eke; apply in_map, Hkv).
    pose proof (proj1 (Forall_forall _ _) Fk _ Hi) as [(x & Ex & Hx)|(n & En & Hn)].
    - rewrite Ex. cbn [LNV In] in Hx. destruct Hx as [<-|[<-|[<-|[]]]]; reflexivity.
    - unfold below. rewrite En. assert (E1 : (n <? h1)%nat = true) by (apply Nat.ltb_lt; lia). rewrite E1. cbn [andb].
      destruct (hnum_hash' _ _ En) as [r Er]. rewrite Er. reflexivity. }
  split.
  { unfold ext_ptr_ok. apply forallb_forall. intros kv Hkv.
    assert (Hi : In (fst kv) pks) by (rewrite <- Ekp; apply in_map, Hkv).
    pose proof (proj1 (Forall_forall _ _) Fp _ Hi) as [(n & En & Hn)|G].
    - rewrite En. unfold class_key. rewrite RefineE2ENames.strip_app. unfold below.
      change (hnum ("class:" ++ hobj n)) with (@None nat).
      pose proof (hnum_hobj' n "") as Hh. rewrite append_nil_r in Hh. rewrite Hh.
      assert (E1 : (n <? h1)%nat = true) by (apply Nat.ltb_lt; lia). rewrite E1. reflexivity.
    - destruct (GoodK_cases _ _ G) as [[q Eq]|(n & y & Eq & Hn)]; rewrite Eq.
      + reflexivity.
      + unfold below. rewrite hnum_hobj'. assert (E1 : (n <? h1)%nat = true) by (apply Nat.ltb_lt; lia). rewrite E1.
        rewrite hobj_app. reflexivity. }
  split.
  { unfold no_sizeof_names. apply forallb_forall. intros kv Hkv.
    assert (Hi : In (fst kv) ks) by (rewrite <- Eke; apply in_map, Hkv).
    pose proof (proj1 (Forall_forall _ _) Fk _ Hi) as [(x & Ex & Hx)|(n & En & Hn)].
    - rewrite Ex. reflexivity.
    - destruct (hnum_hash' _ _ En) as [r Er]. rewrite Er. reflexivity. }
  unfold no_alloc_keys. apply forallb_forall. intros kv Hkv.
  assert (Hi : In (fst kv) pks) by (rewrite <- Ekp; apply in_map, Hkv).
  pose proof (proj1 (Forall_forall _ _) Fp _ Hi) as [(n & En & Hn)|G].
  - rewrite En. reflexivity.
  - destruct (GoodK_cases _ _ G) as [[q Eq]|(n & y & Eq & Hn)]; rewrite Eq; [reflexivity|rewrite hobj_app; reflexivity].
Qed.
Print Assumptions dec_verify_ok.
