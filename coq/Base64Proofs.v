(* Proofs for C16: the C++ base64 codec model (Base64Model) against RFC 4648 (Base64Spec).
   Structure:
     1. sweeps over the generated tables (tab64 / hex_tab against b64_char / b64_val)
     2. bit manipulation reduced to div/mod arithmetic
     3. encoder fold = encode
     4. decode s = Some k -> base64_to_hex s = DecOk k   (model refines the spec decoder)
     5. decode (encode bs) = Some bs
     6. validator characterisation
     7. the five required lemmas *)
From Coq Require Import NArith ZArith List Bool Arith Lia ZifyNat.
From Wencry Require Import Bytes Base64Spec Base64Model.
From Wencry.Gen Require Import B64Tab.
Import ListNotations.
Local Open Scope N_scope.

Local Ltac Zify.zify_post_hook ::= Z.to_euclidean_division_equations.

(* ------------------------------------------------------------------ *)
(* 1. sweeps                                                           *)

Lemma in_all_bytes b : b < 256 -> In b all_bytes.
Proof.
  intros H. unfold all_bytes. apply in_map_iff. exists (N.to_nat b). split.
  - apply N2Nat.id.
  - apply in_seq. lia.
Qed.

Lemma sweep_bytes (P : N -> bool) :
  forallb P all_bytes = true -> forall b, b < 256 -> P b = true.
Proof. intros H b Hb. rewrite forallb_forall in H. apply H, in_all_bytes, Hb. Qed.

Lemma tab64_char i : i < 64 -> tab64 i = b64_char i.
Proof.
  intros H.
  assert (S : forallb (fun i => (64 <=? i) || (tab64 i =? b64_char i)) all_bytes = true)
    by (vm_compute; reflexivity).
  pose proof (sweep_bytes _ S i ltac:(lia)) as E. cbv beta in E.
  apply orb_true_iff in E. destruct E as [E|E].
  - apply N.leb_le in E. lia.
  - apply N.eqb_eq, E.
Qed.

Lemma b64_val_char i : i < 64 -> b64_val (b64_char i) = Some i.
Proof.
  intros H.
  assert (S : forallb (fun i => (64 <=? i) ||
                match b64_val (b64_char i) with Some v => v =? i | None => false end)
                all_bytes = true) by (vm_compute; reflexivity).
  pose proof (sweep_bytes _ S i ltac:(lia)) as E. cbv beta in E.
  apply orb_true_iff in E. destruct E as [E|E].
  - apply N.leb_le in E. lia.
  - destruct (b64_val (b64_char i)) as [v|]; [|discriminate].
    apply N.eqb_eq in E. now subst.
Qed.

Definition is_some (o : option N) : bool := match o with Some _ => true | None => false end.

(* both are the same ASCII ranges; above 127 every range test fails *)
Lemma is_base64_val c : is_base64 c = is_some (b64_val c).
Proof.
  destruct (N.lt_ge_cases c 128) as [L|G].
  - assert (S : forallb (fun c => Bool.eqb (is_base64 c) (is_some (b64_val c))) all_bytes = true)
      by (vm_compute; reflexivity).
    pose proof (sweep_bytes _ S c ltac:(lia)) as E. cbv beta in E.
    apply Bool.eqb_prop, E.
  - assert (H1 : (c <=? 57) = false) by (apply N.leb_gt; lia).
    assert (H2 : (c <=? 90) = false) by (apply N.leb_gt; lia).
    assert (H3 : (c <=? 122) = false) by (apply N.leb_gt; lia).
    assert (H4 : (c =? 43) = false) by (apply N.eqb_neq; lia).
    assert (H5 : (c =? 47) = false) by (apply N.eqb_neq; lia).
    unfold is_base64, b64_val. rewrite H1, H2, H3, H4, H5, !andb_false_r. reflexivity.
Qed.

Lemma is_base64_iff c : is_base64 c = true <-> exists v, b64_val c = Some v.
Proof.
  rewrite is_base64_val. destruct (b64_val c) as [v|]; cbn [is_some]; split.
  - intros _. now exists v.
  - reflexivity.
  - discriminate.
  - intros [v H]. discriminate.
Qed.

Lemma b64_val_lt128 c v : b64_val c = Some v -> c < 128.
Proof.
  intros H. destruct (N.lt_ge_cases c 128) as [L|G]; [exact L|exfalso].
  assert (E : is_base64 c = true) by (apply is_base64_iff; now exists v).
  assert (H1 : (c <=? 57) = false) by (apply N.leb_gt; lia).
  assert (H2 : (c <=? 90) = false) by (apply N.leb_gt; lia).
  assert (H3 : (c <=? 122) = false) by (apply N.leb_gt; lia).
  assert (H4 : (c =? 43) = false) by (apply N.eqb_neq; lia).
  assert (H5 : (c =? 47) = false) by (apply N.eqb_neq; lia).
  unfold is_base64 in E. rewrite H1, H2, H3, H4, H5, !andb_false_r in E. discriminate.
Qed.

(* the decode table agrees with RFC 4648 on every alphabet character *)
Lemma hex_tab_val c v :
  b64_val c = Some v -> nthN hex_tab c 0 = v /\ v < 64 /\ c < 128 /\ (c =? 61) = false.
Proof.
  intros H. pose proof (b64_val_lt128 _ _ H) as L.
  assert (S : forallb (fun c => match b64_val c with
                                | Some v => (nthN hex_tab c 0 =? v) && (v <? 64) && negb (c =? 61)
                                | None => true end) all_bytes = true)
    by (vm_compute; reflexivity).
  pose proof (sweep_bytes _ S c ltac:(lia)) as E. cbv beta in E. rewrite H in E.
  apply andb_true_iff in E. destruct E as [E E3].
  apply andb_true_iff in E. destruct E as [E1 E2].
  apply N.eqb_eq in E1. apply N.ltb_lt in E2. apply negb_true_iff in E3.
  repeat split; assumption.
Qed.

(* ------------------------------------------------------------------ *)
(* 2. bit manipulation as arithmetic                                   *)

Lemma lor_disj_add a b k : a mod 2 ^ k = 0 -> b < 2 ^ k -> N.lor a b = a + b.
Proof.
  intros Ha Hb.
  assert (Z : N.land a b = 0).
  { apply N.bits_inj. intros n. rewrite N.land_spec, N.bits_0.
    destruct (N.lt_ge_cases n k) as [L|G].
    - rewrite <- (N.mod_pow2_bits_low a k n L), Ha, N.bits_0. reflexivity.
    - rewrite <- (N.mod_small b (2 ^ k) Hb), (N.mod_pow2_bits_high b k n G).
      apply andb_false_r. }
  rewrite (N.add_nocarry_lxor _ _ Z). symmetry. apply N.lxor_lor, Z.
Qed.

Lemma sr_land h k n : N.land (N.shiftr h k) (N.ones n) = (h / 2 ^ k) mod 2 ^ n.
Proof. now rewrite N.land_ones, N.shiftr_div_pow2. Qed.

(* the 24-bit accumulator of the encoder *)
Lemma enc_pack1 a : N.lor 0 (N.shiftl a 16) = a * 65536.
Proof. rewrite N.lor_0_l, N.shiftl_mul_pow2. reflexivity. Qed.

Lemma enc_pack2 a b : b < 256 ->
  N.lor (N.lor 0 (N.shiftl a 16)) (N.shiftl b 8) = a * 65536 + b * 256.
Proof.
  intros Hb. rewrite enc_pack1, N.shiftl_mul_pow2. change (2 ^ 8) with 256.
  apply (lor_disj_add _ _ 16); change (2 ^ 16) with 65536; lia.
Qed.

Lemma enc_pack3 a b c : b < 256 -> c < 256 ->
  N.lor (N.lor (N.lor 0 (N.shiftl a 16)) (N.shiftl b 8)) (N.shiftl c 0)
  = a * 65536 + b * 256 + c.
Proof.
  intros Hb Hc. rewrite enc_pack2 by exact Hb. rewrite N.shiftl_0_r.
  apply (lor_disj_add _ _ 8); change (2 ^ 8) with 256; lia.
Qed.

Lemma sym_eq h k : N.land (N.shiftr h k) 63 = (h / 2 ^ k) mod 64.
Proof. change 63 with (N.ones 6). rewrite sr_land. reflexivity. Qed.

Lemma byte_eq h k : N.land (N.shiftr h k) 255 = (h / 2 ^ k) mod 256.
Proof. change 255 with (N.ones 8). rewrite sr_land. reflexivity. Qed.

(* the 24-bit accumulator of the decoder *)
Lemma dec_pack1 w : N.lor 0 (N.shiftl w 18) = w * 262144.
Proof. rewrite N.lor_0_l, N.shiftl_mul_pow2. reflexivity. Qed.

Lemma dec_pack2 w x : x < 64 ->
  N.lor (N.lor 0 (N.shiftl w 18)) (N.shiftl x 12) = w * 262144 + x * 4096.
Proof.
  intros Hx. rewrite dec_pack1, N.shiftl_mul_pow2. change (2 ^ 12) with 4096.
  apply (lor_disj_add _ _ 18); change (2 ^ 18) with 262144; lia.
Qed.

Lemma dec_pack3 w x y : x < 64 -> y < 64 ->
  N.lor (N.lor (N.lor 0 (N.shiftl w 18)) (N.shiftl x 12)) (N.shiftl y 6)
  = w * 262144 + x * 4096 + y * 64.
Proof.
  intros Hx Hy. rewrite dec_pack2 by exact Hx. rewrite N.shiftl_mul_pow2. change (2 ^ 6) with 64.
  apply (lor_disj_add _ _ 12); change (2 ^ 12) with 4096; lia.
Qed.

Lemma dec_pack4 w x y z : x < 64 -> y < 64 -> z < 64 ->
  N.lor (N.lor (N.lor (N.lor 0 (N.shiftl w 18)) (N.shiftl x 12)) (N.shiftl y 6)) (N.shiftl z 0)
  = w * 262144 + x * 4096 + y * 64 + z.
Proof.
  intros Hx Hy Hz. rewrite dec_pack3 by assumption. rewrite N.shiftl_0_r.
  apply (lor_disj_add _ _ 6); change (2 ^ 6) with 64; lia.
Qed.

(* ------------------------------------------------------------------ *)
(* 3. the encoder loop computes [encode]                               *)

Lemma list_ind3 {A} (P : list A -> Prop) :
  P [] -> (forall a, P [a]) -> (forall a b, P [a; b]) ->
  (forall a b c r, P r -> P (a :: b :: c :: r)) -> forall l, P l.
Proof.
  intros H0 H1 H2 H3.
  assert (K : forall l, P l /\ (forall a, P (a :: l)) /\ (forall a b, P (a :: b :: l))).
  { induction l as [|x l [IH0 [IH1 IH2]]]; repeat split; auto. }
  intros l. apply K.
Qed.

Lemma bytesb_cons a l : bytesb (a :: l) = true <-> a < 256 /\ bytesb l = true.
Proof.
  unfold bytesb. cbn [forallb]. unfold byte_ok at 1.
  rewrite andb_true_iff, N.ltb_lt. reflexivity.
Qed.

Definition enc_fin (st : N * N * list N) : list N :=
  match st with
  | (h, j, out) =>
      let sym q := tab64 (N.land (N.shiftr h (6 * (3 - q))) 63) in
      let out := if j =? 1 then out ++ [sym 0; sym 1; 61; 61]
                 else if j =? 2 then out ++ [sym 0; sym 1; sym 2; 61]
                 else out in
      out ++ [0]
  end.

Lemma hex_to_base64_fin bs : hex_to_base64 bs = enc_fin (fold_left enc_step bs (0, 0, [])).
Proof. reflexivity. Qed.

Lemma enc_step_0 h out x : enc_step (h, 0, out) x = (N.lor h (N.shiftl x 16), 1, out).
Proof. reflexivity. Qed.
Lemma enc_step_1 h out x : enc_step (h, 1, out) x = (N.lor h (N.shiftl x 8), 2, out).
Proof. reflexivity. Qed.
Lemma enc_step_2 h out x :
  enc_step (h, 2, out) x =
  (0, 0, out ++ [tab64 (N.land (N.shiftr (N.lor h (N.shiftl x 0)) 18) 63);
                 tab64 (N.land (N.shiftr (N.lor h (N.shiftl x 0)) 12) 63);
                 tab64 (N.land (N.shiftr (N.lor h (N.shiftl x 0)) 6) 63);
                 tab64 (N.land (N.shiftr (N.lor h (N.shiftl x 0)) 0) 63)]).
Proof. reflexivity. Qed.

Lemma enc_fin_0 h out : enc_fin (h, 0, out) = out ++ [0].
Proof. reflexivity. Qed.
Lemma enc_fin_1 h out :
  enc_fin (h, 1, out) =
  (out ++ [tab64 (N.land (N.shiftr h 18) 63); tab64 (N.land (N.shiftr h 12) 63); 61; 61]) ++ [0].
Proof. reflexivity. Qed.
Lemma enc_fin_2 h out :
  enc_fin (h, 2, out) =
  (out ++ [tab64 (N.land (N.shiftr h 18) 63); tab64 (N.land (N.shiftr h 12) 63);
           tab64 (N.land (N.shiftr h 6) 63); 61]) ++ [0].
Proof. reflexivity. Qed.

Lemma enc_sym h k i : (h / 2 ^ k) mod 64 = i -> tab64 (N.land (N.shiftr h k) 63) = b64_char i.
Proof.
  intros E. rewrite sym_eq, E. apply tab64_char. subst i. apply N.mod_lt. discriminate.
Qed.

Lemma enc_group a b c out : a < 256 -> b < 256 -> c < 256 ->
  fold_left enc_step [a; b; c] (0, 0, out) =
  (0, 0, out ++ [b64_char (a / 4); b64_char ((a mod 4) * 16 + b / 16);
                 b64_char ((b mod 16) * 4 + c / 64); b64_char (c mod 64)]).
Proof.
  intros Ha Hb Hc. cbn [fold_left].
  rewrite enc_step_0, enc_step_1, enc_step_2, enc_pack3 by assumption.
  rewrite (enc_sym _ 18 (a / 4)) by (change (2 ^ 18) with 262144; lia).
  rewrite (enc_sym _ 12 ((a mod 4) * 16 + b / 16)) by (change (2 ^ 12) with 4096; lia).
  rewrite (enc_sym _ 6 ((b mod 16) * 4 + c / 64)) by (change (2 ^ 6) with 64; lia).
  rewrite (enc_sym _ 0 (c mod 64)) by (change (2 ^ 0) with 1; lia).
  reflexivity.
Qed.

Lemma enc_fold bs : bytesb bs = true ->
  forall out, enc_fin (fold_left enc_step bs (0, 0, out)) = out ++ encode bs ++ [0].
Proof.
  induction bs as [|a|a b|a b c r IH] using list_ind3; intros Hb out.
  - reflexivity.
  - apply bytesb_cons in Hb. destruct Hb as [Ha _].
    cbn [fold_left encode]. rewrite enc_step_0, enc_fin_1, enc_pack1.
    rewrite (enc_sym _ 18 (a / 4)) by (change (2 ^ 18) with 262144; lia).
    rewrite (enc_sym _ 12 ((a mod 4) * 16)) by (change (2 ^ 12) with 4096; lia).
    rewrite <- app_assoc. reflexivity.
  - apply bytesb_cons in Hb. destruct Hb as [Ha Hb].
    apply bytesb_cons in Hb. destruct Hb as [Hb _].
    cbn [fold_left encode]. rewrite enc_step_0, enc_step_1, enc_fin_2, enc_pack2 by assumption.
    rewrite (enc_sym _ 18 (a / 4)) by (change (2 ^ 18) with 262144; lia).
    rewrite (enc_sym _ 12 ((a mod 4) * 16 + b / 16)) by (change (2 ^ 12) with 4096; lia).
    rewrite (enc_sym _ 6 ((b mod 16) * 4)) by (change (2 ^ 6) with 64; lia).
    rewrite <- app_assoc. reflexivity.
  - apply bytesb_cons in Hb. destruct Hb as [Ha Hb].
    apply bytesb_cons in Hb. destruct Hb as [Hb Hc].
    apply bytesb_cons in Hc. destruct Hc as [Hc Hr].
    change (fold_left enc_step (a :: b :: c :: r) (0, 0, out))
      with (fold_left enc_step r (fold_left enc_step [a; b; c] (0, 0, out))).
    rewrite enc_group by assumption. rewrite (IH Hr). cbn [encode].
    rewrite <- !app_assoc. reflexivity.
Qed.

Lemma C16_encode_is_rfc4648_proof : forall bs,
  bytesb bs = true -> hex_to_base64 bs = encode bs ++ [0%N].
Proof.
  intros bs Hb. rewrite hex_to_base64_fin, (enc_fold bs Hb). reflexivity.
Qed.

Example C16_encode_nonvacuous :
  bytesb [77; 97; 110; 255; 0] = true /\
  hex_to_base64 [77; 97; 110; 255; 0] = [84; 87; 70; 117; 47; 119; 65; 61; 0].
Proof. split; vm_compute; reflexivity. Qed.

(* ------------------------------------------------------------------ *)
(* 4. the decoder loop refines [decode]                                *)

Lemma list_ind4 {A} (P : list A -> Prop) :
  P [] -> (forall a, P [a]) -> (forall a b, P [a; b]) -> (forall a b c, P [a; b; c]) ->
  (forall a b c d r, P r -> P (a :: b :: c :: d :: r)) -> forall l, P l.
Proof.
  intros H0 H1 H2 H3 H4.
  assert (K : forall l, P l /\ (forall a, P (a :: l)) /\ (forall a b, P (a :: b :: l))
                        /\ (forall a b c, P (a :: b :: c :: l))).
  { induction l as [|x l [IH0 [IH1 [IH2 IH3]]]]; repeat split; auto. }
  intros l. apply K.
Qed.

Definition dec_fin (st : option (N * N * N * list N)) : dec_result :=
  match st with
  | Some (tail, j, h, out) =>
      DecOk (if tail =? 2 then out ++ [N.land (N.shiftr h 16) 255]
             else if tail =? 1 then out ++ [N.land (N.shiftr h 16) 255; N.land (N.shiftr h 8) 255]
             else out)
  | None => DecOOB
  end.

Lemma base64_to_hex_fin s :
  base64_to_hex s =
  if existsb (fun c => c =? 255) s then DecFalse
  else if existsb (fun c => (128 <=? c) && negb (c =? 61)) s then DecOOB
  else dec_fin (fold_left dec_step s (Some (0, 0, 0, []))).
Proof. reflexivity. Qed.

Lemma dec_step_pad0 j h out : dec_step (Some (0, j, h, out)) 61 = Some (1, j, h, out).
Proof. reflexivity. Qed.
Lemma dec_step_pad1 j h out : dec_step (Some (1, j, h, out)) 61 = Some (2, j, h, out).
Proof. reflexivity. Qed.

Lemma dec_step_0 c v t h out : b64_val c = Some v ->
  dec_step (Some (t, 0, h, out)) c = Some (t, 1, N.lor h (N.shiftl v 18), out).
Proof.
  intros H. destruct (hex_tab_val _ _ H) as [E [_ [_ N61]]].
  unfold dec_step. rewrite N61, E. reflexivity.
Qed.
Lemma dec_step_1 c v t h out : b64_val c = Some v ->
  dec_step (Some (t, 1, h, out)) c = Some (t, 2, N.lor h (N.shiftl v 12), out).
Proof.
  intros H. destruct (hex_tab_val _ _ H) as [E [_ [_ N61]]].
  unfold dec_step. rewrite N61, E. reflexivity.
Qed.
Lemma dec_step_2 c v t h out : b64_val c = Some v ->
  dec_step (Some (t, 2, h, out)) c = Some (t, 3, N.lor h (N.shiftl v 6), out).
Proof.
  intros H. destruct (hex_tab_val _ _ H) as [E [_ [_ N61]]].
  unfold dec_step. rewrite N61, E. reflexivity.
Qed.
Lemma dec_step_3 c v t h out : b64_val c = Some v ->
  dec_step (Some (t, 3, h, out)) c =
  Some (t, 0, 0, out ++ [N.land (N.shiftr (N.lor h (N.shiftl v 0)) 16) 255;
                         N.land (N.shiftr (N.lor h (N.shiftl v 0)) 8) 255;
                         N.land (N.shiftr (N.lor h (N.shiftl v 0)) 0) 255]).
Proof.
  intros H. destruct (hex_tab_val _ _ H) as [E [_ [_ N61]]].
  unfold dec_step. rewrite N61, E. reflexivity.
Qed.

Lemma dec_fin_0 j h out : dec_fin (Some (0, j, h, out)) = DecOk out.
Proof. reflexivity. Qed.
Lemma dec_fin_1 j h out :
  dec_fin (Some (1, j, h, out)) =
  DecOk (out ++ [N.land (N.shiftr h 16) 255; N.land (N.shiftr h 8) 255]).
Proof. reflexivity. Qed.
Lemma dec_fin_2 j h out :
  dec_fin (Some (2, j, h, out)) = DecOk (out ++ [N.land (N.shiftr h 16) 255]).
Proof. reflexivity. Qed.

Lemma dec_byte h k i : (h / 2 ^ k) mod 256 = i -> N.land (N.shiftr h k) 255 = i.
Proof. intros E. rewrite byte_eq. exact E. Qed.

Lemma dec_group w x y z w' x' y' z' t out :
  b64_val w = Some w' -> b64_val x = Some x' -> b64_val y = Some y' -> b64_val z = Some z' ->
  fold_left dec_step [w; x; y; z] (Some (t, 0, 0, out)) =
  Some (t, 0, 0, out ++ [w' * 4 + x' / 16; (x' mod 16) * 16 + y' / 4; (y' mod 4) * 64 + z']).
Proof.
  intros Hw Hx Hy Hz.
  destruct (hex_tab_val _ _ Hw) as [_ [Bw _]]. destruct (hex_tab_val _ _ Hx) as [_ [Bx _]].
  destruct (hex_tab_val _ _ Hy) as [_ [By _]]. destruct (hex_tab_val _ _ Hz) as [_ [Bz _]].
  cbn [fold_left].
  rewrite (dec_step_0 _ _ _ _ _ Hw), (dec_step_1 _ _ _ _ _ Hx),
          (dec_step_2 _ _ _ _ _ Hy), (dec_step_3 _ _ _ _ _ Hz).
  rewrite dec_pack4 by assumption.
  rewrite (dec_byte _ 16 (w' * 4 + x' / 16)) by (change (2 ^ 16) with 65536; lia).
  rewrite (dec_byte _ 8 ((x' mod 16) * 16 + y' / 4)) by (change (2 ^ 8) with 256; lia).
  rewrite (dec_byte _ 0 ((y' mod 4) * 64 + z')) by (change (2 ^ 0) with 1; lia).
  reflexivity.
Qed.

Lemma decode_cons4 w x y z a r :
  decode (w :: x :: y :: z :: a :: r) =
  match b64_val w, b64_val x, b64_val y, b64_val z, decode (a :: r) with
  | Some w', Some x', Some y', Some z', Some t =>
      Some ([w' * 4 + x' / 16; (x' mod 16) * 16 + y' / 4; (y' mod 4) * 64 + z'] ++ t)
  | _, _, _, _, _ => None
  end.
Proof. reflexivity. Qed.

Lemma decode_refined s : forall k, decode s = Some k ->
  Forall (fun c => c < 128) s /\
  forall out, dec_fin (fold_left dec_step s (Some (0, 0, 0, out))) = DecOk (out ++ k).
Proof.
  induction s as [|a|a b|a b c|w x y z r IH] using list_ind4; intros k H.
  - injection H as <-. split; [constructor|]. intros out. rewrite app_nil_r. reflexivity.
  - discriminate H.
  - discriminate H.
  - discriminate H.
  - destruct r as [|a r].
    + clear IH. cbn [decode] in H. unfold pad_char in H.
      destruct (b64_val w) as [w'|] eqn:Hw; [|discriminate H].
      destruct (b64_val x) as [x'|] eqn:Hx; [|discriminate H].
      destruct (hex_tab_val _ _ Hw) as [_ [Bw [Lw _]]].
      destruct (hex_tab_val _ _ Hx) as [_ [Bx [Lx _]]].
      destruct ((y =? 61) && (z =? 61)) eqn:Epad.
      * apply andb_true_iff in Epad. destruct Epad as [Ey Ez].
        apply N.eqb_eq in Ey. apply N.eqb_eq in Ez. subst y z. injection H as <-.
        split; [repeat constructor; assumption|]. intros out. cbn [fold_left].
        rewrite (dec_step_0 _ _ _ _ _ Hw), (dec_step_1 _ _ _ _ _ Hx), dec_step_pad0, dec_step_pad1.
        rewrite dec_fin_2, dec_pack2 by assumption.
        rewrite (dec_byte _ 16 (w' * 4 + x' / 16)) by (change (2 ^ 16) with 65536; lia).
        reflexivity.
      * destruct (b64_val y) as [y'|] eqn:Hy; [|discriminate H].
        destruct (hex_tab_val _ _ Hy) as [_ [By [Ly _]]].
        destruct (z =? 61) eqn:Ez.
        -- apply N.eqb_eq in Ez. subst z. injection H as <-.
           split; [repeat constructor; assumption|]. intros out. cbn [fold_left].
           rewrite (dec_step_0 _ _ _ _ _ Hw), (dec_step_1 _ _ _ _ _ Hx),
                   (dec_step_2 _ _ _ _ _ Hy), dec_step_pad0.
           rewrite dec_fin_1, dec_pack3 by assumption.
           rewrite (dec_byte _ 16 (w' * 4 + x' / 16)) by (change (2 ^ 16) with 65536; lia).
           rewrite (dec_byte _ 8 ((x' mod 16) * 16 + y' / 4)) by (change (2 ^ 8) with 256; lia).
           reflexivity.
        -- destruct (b64_val z) as [z'|] eqn:Hz; [|discriminate H].
           destruct (hex_tab_val _ _ Hz) as [_ [Bz [Lz _]]]. injection H as <-.
           split; [repeat constructor; assumption|]. intros out.
           rewrite (dec_group _ _ _ _ _ _ _ _ _ _ Hw Hx Hy Hz). apply dec_fin_0.
    + rewrite decode_cons4 in H.
      destruct (b64_val w) as [w'|] eqn:Hw; [|discriminate H].
      destruct (b64_val x) as [x'|] eqn:Hx; [|discriminate H].
      destruct (b64_val y) as [y'|] eqn:Hy; [|discriminate H].
      destruct (b64_val z) as [z'|] eqn:Hz; [|discriminate H].
      destruct (decode (a :: r)) as [t|] eqn:Hr; [|discriminate H].
      injection H as <-.
      destruct (hex_tab_val _ _ Hw) as [_ [_ [Lw _]]]. destruct (hex_tab_val _ _ Hx) as [_ [_ [Lx _]]].
      destruct (hex_tab_val _ _ Hy) as [_ [_ [Ly _]]]. destruct (hex_tab_val _ _ Hz) as [_ [_ [Lz _]]].
      destruct (IH t eq_refl) as [IHF IHD].
      split; [repeat (constructor; [assumption|]); exact IHF|]. intros out.
      change (fold_left dec_step (w :: x :: y :: z :: a :: r) (Some (0, 0, 0, out)))
        with (fold_left dec_step (a :: r) (fold_left dec_step [w; x; y; z] (Some (0, 0, 0, out)))).
      rewrite (dec_group _ _ _ _ _ _ _ _ _ _ Hw Hx Hy Hz), IHD, <- app_assoc. reflexivity.
Qed.

Lemma no_255 s : Forall (fun c => c < 128) s -> existsb (fun c => c =? 255) s = false.
Proof.
  induction 1 as [|c s Hc _ IH]; [reflexivity|]. cbn [existsb]. rewrite IH, orb_false_r.
  apply N.eqb_neq. lia.
Qed.

Lemma no_oob s : Forall (fun c => c < 128) s ->
  existsb (fun c => (128 <=? c) && negb (c =? 61)) s = false.
Proof.
  induction 1 as [|c s Hc _ IH]; [reflexivity|]. cbn [existsb]. rewrite IH, orb_false_r.
  apply andb_false_iff. left. apply N.leb_gt, Hc.
Qed.

(* whenever RFC 4648 decoding succeeds, the C++ decoder returns the same bytes *)
Lemma decode_model s k : decode s = Some k -> base64_to_hex s = DecOk k.
Proof.
  intros H. destruct (decode_refined s k H) as [F D].
  rewrite base64_to_hex_fin, (no_255 s F), (no_oob s F). apply (D []).
Qed.

Lemma decode_pad2 w x w' x' :
  b64_val w = Some w' -> b64_val x = Some x' ->
  decode [w; x; 61; 61] = Some [w' * 4 + x' / 16].
Proof. intros Hw Hx. cbn [decode]. rewrite Hw, Hx. reflexivity. Qed.

Lemma decode_pad1 w x y w' x' y' :
  b64_val w = Some w' -> b64_val x = Some x' -> b64_val y = Some y' ->
  decode [w; x; y; 61] = Some [w' * 4 + x' / 16; (x' mod 16) * 16 + y' / 4].
Proof.
  intros Hw Hx Hy. destruct (hex_tab_val _ _ Hy) as [_ [_ [_ Ny]]].
  cbn [decode]. unfold pad_char. rewrite Hw, Hx, Hy, Ny. reflexivity.
Qed.

Lemma decode_full w x y z w' x' y' z' :
  b64_val w = Some w' -> b64_val x = Some x' -> b64_val y = Some y' -> b64_val z = Some z' ->
  decode [w; x; y; z] =
  Some [w' * 4 + x' / 16; (x' mod 16) * 16 + y' / 4; (y' mod 4) * 64 + z'].
Proof.
  intros Hw Hx Hy Hz. destruct (hex_tab_val _ _ Hy) as [_ [_ [_ Ny]]].
  destruct (hex_tab_val _ _ Hz) as [_ [_ [_ Nz]]].
  cbn [decode]. unfold pad_char. rewrite Hw, Hx, Hy, Hz, Ny, Nz. reflexivity.
Qed.

(* ------------------------------------------------------------------ *)
(* 5. RFC 4648 round trip at the specification level                   *)

Lemma encode_cons a r : exists t, encode (a :: r) = b64_char (a / 4) :: t.
Proof.
  destruct r as [|b [|c r]]; cbn [encode app]; eexists; reflexivity.
Qed.

Lemma decode_encode bs : bytesb bs = true -> decode (encode bs) = Some bs.
Proof.
  induction bs as [|a|a b|a b c r IH] using list_ind3; intros Hb.
  - reflexivity.
  - apply bytesb_cons in Hb. destruct Hb as [Ha _]. cbn [encode]. unfold pad_char.
    rewrite (decode_pad2 _ _ (a / 4) ((a mod 4) * 16))
      by (apply b64_val_char; lia).
    f_equal. f_equal. lia.
  - apply bytesb_cons in Hb. destruct Hb as [Ha Hb].
    apply bytesb_cons in Hb. destruct Hb as [Hb _]. cbn [encode]. unfold pad_char.
    rewrite (decode_pad1 _ _ _ (a / 4) ((a mod 4) * 16 + b / 16) ((b mod 16) * 4))
      by (apply b64_val_char; lia).
    f_equal. f_equal; [lia|]. f_equal. lia.
  - apply bytesb_cons in Hb. destruct Hb as [Ha Hb].
    apply bytesb_cons in Hb. destruct Hb as [Hb Hc].
    apply bytesb_cons in Hc. destruct Hc as [Hc Hr].
    assert (Va : b64_val (b64_char (a / 4)) = Some (a / 4)) by (apply b64_val_char; lia).
    assert (Vb : b64_val (b64_char ((a mod 4) * 16 + b / 16)) = Some ((a mod 4) * 16 + b / 16))
      by (apply b64_val_char; lia).
    assert (Vc : b64_val (b64_char ((b mod 16) * 4 + c / 64)) = Some ((b mod 16) * 4 + c / 64))
      by (apply b64_val_char; lia).
    assert (Vd : b64_val (b64_char (c mod 64)) = Some (c mod 64)) by (apply b64_val_char; lia).
    assert (Ea : (a / 4) * 4 + ((a mod 4) * 16 + b / 16) / 16 = a) by lia.
    assert (Eb : (((a mod 4) * 16 + b / 16) mod 16) * 16 + ((b mod 16) * 4 + c / 64) / 4 = b) by lia.
    assert (Ec : (((b mod 16) * 4 + c / 64) mod 4) * 64 + c mod 64 = c) by lia.
    cbn [encode]. destruct r as [|a' r'].
    + cbn [encode app]. rewrite (decode_full _ _ _ _ _ _ _ _ Va Vb Vc Vd), Ea, Eb, Ec. reflexivity.
    + destruct (encode_cons a' r') as [t Et]. rewrite Et. cbn [app]. rewrite decode_cons4, <- Et.
      rewrite Va, Vb, Vc, Vd, (IH Hr), Ea, Eb, Ec. reflexivity.
Qed.

Lemma C16_decode_inverts_encode_proof : forall bs,
  bytesb bs = true -> base64_to_hex (encode bs) = DecOk bs.
Proof. intros bs Hb. apply decode_model, decode_encode, Hb. Qed.

Example C16_decode_nonvacuous :
  bytesb [77; 97; 110; 255; 0] = true /\
  base64_to_hex (encode [77; 97; 110; 255; 0]) = DecOk [77; 97; 110; 255; 0].
Proof. split; vm_compute; reflexivity. Qed.

(* ------------------------------------------------------------------ *)
(* 6. the validator                                                    *)

Lemma valid_fold_none s : fold_left valid_step s None = None.
Proof. induction s as [|c s IH]; [reflexivity|exact IH]. Qed.

Lemma valid_step_0 c :
  valid_step (Some 0) c = if c =? 61 then Some 1 else if is_base64 c then Some 0 else None.
Proof. unfold valid_step. destruct (c =? 61), (is_base64 c); reflexivity. Qed.
Lemma valid_step_1 c : valid_step (Some 1) c = if c =? 61 then Some 2 else None.
Proof. unfold valid_step. destruct (c =? 61), (is_base64 c); reflexivity. Qed.
Lemma valid_step_2 c : valid_step (Some 2) c = None.
Proof. unfold valid_step. destruct (c =? 61), (is_base64 c); reflexivity. Qed.

Lemma valid_fold_2 s : fold_left valid_step s (Some 2) = Some 2 <-> s = [].
Proof.
  destruct s as [|c s]; [split; reflexivity|]. cbn [fold_left].
  rewrite valid_step_2, valid_fold_none. split; discriminate.
Qed.

Lemma valid_fold_1 s : fold_left valid_step s (Some 1) = Some 2 <-> s = [61].
Proof.
  destruct s as [|c s]; [split; discriminate|]. cbn [fold_left]. rewrite valid_step_1.
  destruct (c =? 61) eqn:E.
  - apply N.eqb_eq in E. subst c. rewrite valid_fold_2. split.
    + intros ->. reflexivity.
    + intros H. injection H as ->. reflexivity.
  - rewrite valid_fold_none. apply N.eqb_neq in E. split; [discriminate|].
    intros H. injection H as H _. contradiction.
Qed.

Lemma valid_fold_0 s :
  fold_left valid_step s (Some 0) = Some 2 <->
  exists l, s = l ++ [61; 61] /\ forallb is_base64 l = true.
Proof.
  induction s as [|c s IH].
  - split; [discriminate|]. intros [l [E _]]. destruct l; discriminate E.
  - cbn [fold_left]. rewrite valid_step_0. destruct (c =? 61) eqn:E.
    + apply N.eqb_eq in E. subst c. rewrite valid_fold_1. split.
      * intros ->. exists []. split; reflexivity.
      * intros [l [El Fl]]. destruct l as [|x l].
        -- injection El as ->. reflexivity.
        -- injection El as <- _. discriminate Fl.
    + apply N.eqb_neq in E. destruct (is_base64 c) eqn:B.
      * rewrite IH. split.
        -- intros [l [El Fl]]. exists (c :: l). split; [rewrite El; reflexivity|].
           cbn [forallb]. rewrite B, Fl. reflexivity.
        -- intros [l [El Fl]]. destruct l as [|x l].
           ++ injection El as El _. contradiction.
           ++ injection El as <- El. cbn [forallb] in Fl. apply andb_true_iff in Fl.
              exists l. split; [exact El|apply Fl].
      * rewrite valid_fold_none. split; [discriminate|].
        intros [l [El Fl]]. destruct l as [|x l].
        -- injection El as El _. contradiction.
        -- injection El as <- _. cbn [forallb] in Fl. rewrite B in Fl. discriminate Fl.
Qed.

Lemma is_valid_len s :
  is_valid_b64 s = true <-> length s = 24%nat /\ fold_left valid_step s (Some 0) = Some 2.
Proof.
  split.
  - unfold is_valid_b64. intros H. cbv zeta in H.
    remember (N.of_nat (length s)) as len eqn:Elen.
    destruct (negb (len mod 4 =? 0)) eqn:E1; [discriminate H|].
    destruct (negb (len / 4 * 3 - 2 =? 16) || (len / 4 * 3 <? 2)) eqn:E2; [discriminate H|].
    apply negb_false_iff, N.eqb_eq in E1. apply orb_false_iff in E2. destruct E2 as [E2 E3].
    apply negb_false_iff, N.eqb_eq in E2. apply N.ltb_ge in E3.
    split; [lia|].
    destruct (fold_left valid_step s (Some 0)) as [t|]; [|discriminate H].
    apply N.eqb_eq in H. now subst t.
  - intros [L F]. unfold is_valid_b64. rewrite L, F. reflexivity.
Qed.

Lemma is_valid_shape s :
  is_valid_b64 s = true <->
  length s = 24%nat /\ exists l, s = l ++ [61; 61] /\ forallb is_base64 l = true.
Proof. rewrite is_valid_len, valid_fold_0. reflexivity. Qed.

(* texts of the accepted shape decode, to 3n+1 bytes *)
Lemma shape_decodes n : forall l,
  length l = (4 * n + 2)%nat -> forallb is_base64 l = true ->
  exists k, decode (l ++ [61; 61]) = Some k /\ length k = (3 * n + 1)%nat.
Proof.
  induction n as [|n IH]; intros l L F.
  - destruct l as [|a [|b [|c l]]]; try discriminate L.
    cbn [forallb] in F. apply andb_true_iff in F. destruct F as [Fa F].
    apply andb_true_iff in F. destruct F as [Fb _].
    apply is_base64_iff in Fa. destruct Fa as [a' Va].
    apply is_base64_iff in Fb. destruct Fb as [b' Vb].
    cbn [app]. rewrite (decode_pad2 _ _ _ _ Va Vb).
    eexists. split; reflexivity.
  - destruct l as [|a [|b [|c [|d r]]]]; try (cbn [length] in L; lia).
    cbn [length] in L. assert (Lr : length r = (4 * n + 2)%nat) by lia.
    cbn [forallb] in F. apply andb_true_iff in F. destruct F as [Fa F].
    apply andb_true_iff in F. destruct F as [Fb F].
    apply andb_true_iff in F. destruct F as [Fc F].
    apply andb_true_iff in F. destruct F as [Fd Fr].
    apply is_base64_iff in Fa. destruct Fa as [a' Va].
    apply is_base64_iff in Fb. destruct Fb as [b' Vb].
    apply is_base64_iff in Fc. destruct Fc as [c' Vc].
    apply is_base64_iff in Fd. destruct Fd as [d' Vd].
    destruct (IH r Lr Fr) as [t [Dt Lt]].
    destruct r as [|e r]; [cbn [length] in Lr; lia|].
    cbn [app]. rewrite decode_cons4, Va, Vb, Vc, Vd.
    change (e :: r ++ [61; 61]) with ((e :: r) ++ [61; 61]). rewrite Dt.
    eexists. split; [reflexivity|]. cbn [length app]. lia.
Qed.

(* texts that decode to 3n+1 bytes have the accepted shape *)
Lemma decodes_shape s : forall k,
  decode s = Some k -> (length k mod 3 = 1)%nat ->
  exists l, s = l ++ [61; 61] /\ forallb is_base64 l = true.
Proof.
  induction s as [|a|a b|a b c|w x y z r IH] using list_ind4; intros k H M.
  - injection H as <-. discriminate M.
  - discriminate H.
  - discriminate H.
  - discriminate H.
  - destruct r as [|a r].
    + clear IH. cbn [decode] in H. unfold pad_char in H.
      destruct (b64_val w) as [w'|] eqn:Hw; [|discriminate H].
      destruct (b64_val x) as [x'|] eqn:Hx; [|discriminate H].
      destruct ((y =? 61) && (z =? 61)) eqn:Epad.
      * apply andb_true_iff in Epad. destruct Epad as [Ey Ez].
        apply N.eqb_eq in Ey. apply N.eqb_eq in Ez. subst y z.
        exists [w; x]. split; [reflexivity|]. cbn [forallb].
        rewrite !is_base64_val, Hw, Hx. reflexivity.
      * destruct (b64_val y) as [y'|] eqn:Hy; [|discriminate H].
        destruct (z =? 61).
        -- injection H as <-. discriminate M.
        -- destruct (b64_val z) as [z'|]; [|discriminate H]. injection H as <-. discriminate M.
    + rewrite decode_cons4 in H.
      destruct (b64_val w) as [w'|] eqn:Hw; [|discriminate H].
      destruct (b64_val x) as [x'|] eqn:Hx; [|discriminate H].
      destruct (b64_val y) as [y'|] eqn:Hy; [|discriminate H].
      destruct (b64_val z) as [z'|] eqn:Hz; [|discriminate H].
      destruct (decode (a :: r)) as [t|] eqn:Hr; [|discriminate H].
      injection H as <-.
      assert (Mt : (length t mod 3 = 1)%nat).
      { cbn [length app] in M. lia. }
      destruct (IH t eq_refl Mt) as [l [El Fl]].
      exists (w :: x :: y :: z :: l). split; [rewrite El; reflexivity|].
      cbn [forallb]. rewrite !is_base64_val, Hw, Hx, Hy, Hz. exact Fl.
Qed.

(* ------------------------------------------------------------------ *)
(* 7. the required lemmas                                              *)

Lemma C16_validator_exact_proof : forall s,
  is_valid_b64 s = true <->
  (length s = 24%nat /\ exists k, decode s = Some k /\ length k = 16%nat).
Proof.
  intros s. rewrite is_valid_shape. split.
  - intros [L [l [E F]]]. split; [exact L|]. subst s.
    rewrite app_length in L. cbn [length] in L.
    assert (Ll : length l = (4 * 5 + 2)%nat) by lia.
    destruct (shape_decodes 5 l Ll F) as [k [D Lk]]. exists k. split; [exact D|exact Lk].
  - intros [L [k [D Lk]]]. split; [exact L|].
    apply (decodes_shape s k D). rewrite Lk. reflexivity.
Qed.

Example C16_validator_nonvacuous :
  let s := [84; 87; 70; 117; 84; 87; 70; 117; 84; 87; 70; 117; 84; 87; 70; 117;
            84; 87; 70; 117; 47; 119; 61; 61] in
  is_valid_b64 s = true /\ length s = 24%nat /\
  decode s = Some [77; 97; 110; 77; 97; 110; 77; 97; 110; 77; 97; 110; 77; 97; 110; 255].
Proof. repeat split; vm_compute; reflexivity. Qed.

Lemma C16_accepted_key_fits_buffer_proof : forall s,
  is_valid_b64 s = true ->
  exists k, get_key s = KeyOk k /\ length k = 16%nat /\ decode s = Some k.
Proof.
  intros s H. apply C16_validator_exact_proof in H. destruct H as [L [k [D Lk]]].
  exists k. split; [|split; [exact Lk|exact D]].
  unfold get_key. rewrite firstn_all2 by (rewrite L; apply Nat.le_refl).
  rewrite (decode_model s k D), Lk. cbn [Nat.leb Nat.sub zeros repeat].
  rewrite app_nil_r. reflexivity.
Qed.

Example C16_accepted_key_nonvacuous :
  let s := [84; 87; 70; 117; 84; 87; 70; 117; 84; 87; 70; 117; 84; 87; 70; 117;
            84; 87; 70; 117; 47; 119; 61; 61] in
  is_valid_b64 s = true /\
  get_key s = KeyOk [77; 97; 110; 77; 97; 110; 77; 97; 110; 77; 97; 110; 77; 97; 110; 255].
Proof. split; vm_compute; reflexivity. Qed.

Lemma encode_length bs : length (encode bs) = (4 * ((length bs + 2) / 3))%nat.
Proof.
  induction bs as [|a|a b|a b c r IH] using list_ind3; try reflexivity.
  cbn [encode length app]. rewrite IH.
  replace (S (S (S (length r))) + 2)%nat with (1 * 3 + (length r + 2))%nat by lia.
  rewrite Nat.div_add_l by discriminate. lia.
Qed.

Lemma C16_printed_key_is_accepted_proof : forall k,
  bytesb k = true -> length k = 16%nat ->
  hex_to_base64 k = encode k ++ [0%N] /\
  is_valid_b64 (encode k) = true /\ get_key (encode k) = KeyOk k.
Proof.
  intros k Hb Lk.
  assert (Le : length (encode k) = 24%nat) by (rewrite encode_length, Lk; reflexivity).
  pose proof (decode_encode k Hb) as D.
  split; [apply C16_encode_is_rfc4648_proof, Hb|]. split.
  - apply C16_validator_exact_proof. split; [exact Le|]. exists k. split; [exact D|exact Lk].
  - unfold get_key. rewrite firstn_all2 by (rewrite Le; apply Nat.le_refl).
    rewrite (decode_model _ k D), Lk. cbn [Nat.leb Nat.sub zeros repeat].
    rewrite app_nil_r. reflexivity.
Qed.

Example C16_printed_key_nonvacuous :
  let k := [0; 1; 2; 3; 4; 5; 250; 251; 252; 253; 254; 255; 16; 32; 64; 128] in
  bytesb k = true /\ length k = 16%nat /\
  is_valid_b64 (encode k) = true /\ get_key (encode k) = KeyOk k.
Proof. repeat split; vm_compute; reflexivity. Qed.
